import Lemmas.NatSortGo
/-! C20: further lemmas — the case-insensitive mode as "fold both strings, compare, then compare unfolded" for ALL strings
(digit runs included), injectivity of the chunk key, and the contrast variants of the digit comparison. -/
namespace NatSort

/-- ASCII upper-casing of a whole string -/
def foldStr (s : List Nat) : List Nat := s.map (fold true)

theorem fold_true_eq (c : Nat) : fold true c = if 97 ≤ c ∧ c ≤ 122 then c - 32 else c := by
  by_cases h1 : 97 ≤ c <;> by_cases h2 : c ≤ 122 <;> simp [fold, h1, h2]

theorem isDigit_iff (c : Nat) : isDigit c = true ↔ 48 ≤ c ∧ c ≤ 57 := by simp [isDigit]

theorem fold_isDigit (c : Nat) : isDigit (fold true c) = isDigit c := by
  rw [Bool.eq_iff_iff, isDigit_iff, isDigit_iff, fold_true_eq]
  split <;> omega

theorem fold_digit_id (c : Nat) (h : isDigit c = true) : fold true c = c := by
  rw [isDigit_iff] at h
  rw [fold_true_eq]; split <;> omega

theorem fold_eq48 (c : Nat) : fold true c = 48 ↔ c = 48 := by
  rw [fold_true_eq]; split <;> omega

theorem dropZeros_fold (l : List Nat) :
    dropZeros (l.map (fold true)) = ((dropZeros l).1, (dropZeros l).2.map (fold true)) := by
  induction l with
  | nil => simp [dropZeros]
  | cons c t ih =>
    by_cases h : c = 48
    · subst h
      have : fold true 48 = 48 := by simp [fold]
      simp [dropZeros, this, ih]
    · have h' : fold true c ≠ 48 := fun e => h ((fold_eq48 c).mp e)
      simp [dropZeros_ne48 _ _ h, dropZeros_ne48 _ _ h']

theorem takeDigits_fold (l : List Nat) :
    takeDigits (l.map (fold true)) = ((takeDigits l).1, (takeDigits l).2.map (fold true)) := by
  induction l with
  | nil => simp [takeDigits]
  | cons c t ih =>
    simp only [List.map_cons, takeDigits, fold_isDigit]
    by_cases h : isDigit c = true
    · simp [h, ih, fold_digit_id c h]
    · simp [h]

theorem zc_fold (l : List Nat) : zc (l.map (fold true)) = zc l := by
  simp [zc, dropZeros_fold]

theorem dg_fold (l : List Nat) : dg (l.map (fold true)) = dg l := by
  simp [dg, dropZeros_fold, takeDigits_fold]

theorem rs_fold (l : List Nat) : rs (l.map (fold true)) = (rs l).map (fold true) := by
  simp [rs, dropZeros_fold, takeDigits_fold]

theorem fold_idem (c : Nat) : fold false (fold true c) = fold true c := by simp [fold]

/-- the case-insensitive key of a string is the case-sensitive key of its upper-cased copy -/
theorem key_fold (s : List Nat) : key true s = key false (foldStr s) := by
  unfold foldStr
  fun_induction key true s with
  | case1 => simp [key]
  | case2 c t hd ih =>
    have hd' : isDigit (fold true c) = true := by rw [fold_isDigit]; exact hd
    rw [List.map_cons, key_digit_cons false _ _ hd', ← List.map_cons, zc_fold, dg_fold, rs_fold, ih]
  | case3 c t hd ih =>
    have hd' : isDigit (fold true c) = false := by rw [fold_isDigit]; simpa using hd
    rw [List.map_cons]
    conv => rhs; rw [key]
    simp only [hd', Bool.false_eq_true, dite_false, fold_idem, ih]

theorem ncmp_false_lex (a b : List Nat) : ncmp a b false = lexCmp (key false a) (key false b) := by
  rw [ncmp_lex]; cases lexCmp (key false a) (key false b) <;> rfl

/-- case-insensitive comparison = case-sensitive comparison of the upper-cased strings, then of the strings themselves -/
theorem ncmp_ci_fold (a b : List Nat) :
    ncmp a b true = (ncmp (foldStr a) (foldStr b) false).then (ncmp a b false) := by
  rw [ncmp_false_lex, ncmp_false_lex, ncmp_lex, key_fold a, key_fold b]; rfl

/-- the chunk key (case-sensitive) determines the string -/
theorem key_injective (a b : List Nat) (h : key false a = key false b) : a = b := by
  have : ncmp a b false = .eq := by rw [ncmp_false_lex, h]; exact (lexCmp_eq_iff _ _).mpr rfl
  exact (ncmp_eq_iff a b false).mp this

/-! ### contrast variants of the comparison of two number chunks (NOT the code) -/

/-- without the comparison of the significant lengths: digit strings compared as strings only -/
def cmpNumNoLen (n1 n2 : List Nat) (z1 z2 : Nat) : Ordering :=
  if n1 != n2 then cmpBytes n1 n2 else cmpNat z1 z2

/-- the zero counts compared FIRST instead of last -/
def cmpNumZerosFirst (n1 n2 : List Nat) (z1 z2 : Nat) : Ordering :=
  if z1 != z2 then cmpNat z1 z2
  else if n1.length != n2.length then cmpNat n1.length n2.length
  else cmpBytes n1 n2

/-- without the tie-break on the zero counts -/
def cmpNumNoZeros (n1 n2 : List Nat) : Ordering :=
  if n1.length != n2.length then cmpNat n1.length n2.length else cmpBytes n1 n2

end NatSort
