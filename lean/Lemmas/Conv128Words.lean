import Lemmas.Conv128Big
/-! C02 helper lemmas, part 16 (core Lean only): `big.Int` at the level of `big.Word`s, both word sizes.

* the `len(words)` switch of `FromBigInt` (`wordsToU128W`) on ANY normalised, bounded word slice computes the value-level
  import `wordsToU128` of the slice's value — for `intSize == 64` and for `intSize == 32`;
* `Uint128.ToBigInt` into ANY destination slice (`toBigIntWordsGen true`) leaves the value of the `Uint128`;
  without the cut `words[:n]` it does not. -/
namespace Conv

def NormalWords (ws : List Nat) : Prop := ws.getLast? ≠ some 0
def BoundedWords (W : Nat) (ws : List Nat) : Prop := ∀ w ∈ ws, w < 2^W

/-! ## `norm` -/

theorem wordsVal_normWords (W : Nat) (ws : List Nat) : wordsVal W (normWords ws) = wordsVal W ws := by
  induction ws with
  | nil => rfl
  | cons w t ih =>
    unfold normWords
    split
    · rename_i h
      rw [h] at ih
      have ht : wordsVal W t = 0 := by rw [← ih]; rfl
      split
      · rename_i hw; subst hw; simp [wordsVal, ht]
      · simp [wordsVal, ht]
    · simp [wordsVal, ih]

theorem normal_cons (w : Nat) (t : List Nat) (ht : t ≠ []) : NormalWords (w :: t) ↔ NormalWords t := by
  cases t with
  | nil => exact absurd rfl ht
  | cons b l => unfold NormalWords; rw [List.getLast?_cons_cons]

theorem normal_normWords (ws : List Nat) : NormalWords (normWords ws) := by
  induction ws with
  | nil => unfold NormalWords; simp [normWords]
  | cons w t ih =>
    unfold normWords
    split
    · split
      · unfold NormalWords; simp
      · rename_i hw; unfold NormalWords; simpa using hw
    · rename_i hne
      exact (normal_cons w _ (by intro e; exact hne e)).mpr ih

theorem mem_normWords (ws : List Nat) : ∀ w ∈ normWords ws, w ∈ ws := by
  induction ws with
  | nil => intro w h; exact h
  | cons a t ih =>
    unfold normWords
    split
    · split
      · intro w h; cases h
      · intro w h; simp at h; subst h; simp
    · intro w h
      rcases List.mem_cons.mp h with h | h
      · subst h; simp
      · exact List.mem_cons_of_mem _ (ih w h)

/-! ## `Bits()` of a magnitude -/

theorem two_pow_gt_one (W : Nat) (hW : 0 < W) : 1 < 2^W := by
  have : 2^1 ≤ 2^W := Nat.pow_le_pow_right (by omega) hW
  omega

theorem natToWordsAux_fuel (W : Nat) (hW : 0 < W) :
    ∀ f1 f2 n, n ≤ f1 → n ≤ f2 → natToWordsAux W f1 n = natToWordsAux W f2 n := by
  intro f1
  induction f1 with
  | zero =>
    intro f2 n h1 _
    have : n = 0 := by omega
    subst this
    cases f2 <;> simp [natToWordsAux]
  | succ f1 ih =>
    intro f2 n h1 h2
    cases f2 with
    | zero =>
      have : n = 0 := by omega
      subst this; simp [natToWordsAux]
    | succ f2 =>
      simp only [natToWordsAux]
      by_cases hn : n = 0
      · rw [if_pos hn, if_pos hn]
      · rw [if_neg hn, if_neg hn]
        have hq : n / 2^W < n := Nat.div_lt_self (by omega) (two_pow_gt_one W hW)
        rw [ih f2 (n / 2^W) (by omega) (by omega)]

theorem natToWords_unfold (W : Nat) (hW : 0 < W) (n : Nat) :
    natToWords W n = if n = 0 then [] else (n % 2^W) :: natToWords W (n / 2^W) := by
  unfold natToWords
  cases n with
  | zero => rfl
  | succ k =>
    simp only [natToWordsAux]
    rw [if_neg (by omega), if_neg (by omega)]
    have hq : (k + 1) / 2^W < k + 1 := Nat.div_lt_self (by omega) (two_pow_gt_one W hW)
    rw [natToWordsAux_fuel W hW k ((k + 1) / 2^W) _ (by omega) (by omega)]

theorem natToWords_facts (W : Nat) (hW : 0 < W) (n : Nat) :
    wordsVal W (natToWords W n) = n ∧ BoundedWords W (natToWords W n) ∧ NormalWords (natToWords W n) ∧
      (n ≠ 0 → natToWords W n ≠ []) := by
  induction n using Nat.strongRecOn with
  | _ n ih =>
    rw [natToWords_unfold W hW n]
    by_cases hn : n = 0
    · rw [if_pos hn]
      refine ⟨by subst hn; rfl, ?_, ?_, fun h => absurd hn h⟩
      · intro w h; cases h
      · unfold NormalWords; simp
    · rw [if_neg hn]
      have h1 := two_pow_gt_one W hW
      have hq : n / 2^W < n := Nat.div_lt_self (by omega) h1
      obtain ⟨v, b, nm, ne⟩ := ih (n / 2^W) hq
      refine ⟨?_, ?_, ?_, fun _ => by simp⟩
      · simp only [wordsVal]; rw [v]; exact Nat.mod_add_div n (2^W)
      · intro w h
        rcases List.mem_cons.mp h with h | h
        · subst h; exact Nat.mod_lt _ (by omega)
        · exact b w h
      · by_cases hz : n / 2^W = 0
        · have hlt : n < 2^W := by
            rcases Nat.lt_or_ge n (2^W) with h | h
            · exact h
            · have := Nat.div_pos h (by omega : 0 < 2^W); omega
          rw [natToWords_unfold W hW (n / 2^W), if_pos hz]
          unfold NormalWords
          simp only [List.getLast?_singleton]
          rw [Nat.mod_eq_of_lt hlt]
          intro e; injection e with e; exact hn e
        · exact (normal_cons _ _ (ne hz)).mpr nm

/-! ## a normalised slice of `k + 1` words is at least `2^(W·k)` -/

theorem wordsVal_ge (W : Nat) (ws : List Nat) (hn : NormalWords ws) :
    ∀ k, k + 1 ≤ ws.length → 2^(W * k) ≤ wordsVal W ws := by
  induction ws with
  | nil => intro k h; simp at h
  | cons w t ih =>
    intro k hk
    by_cases ht : t = []
    · subst ht
      have hk0 : k = 0 := by simp at hk; omega
      subst hk0
      have : w ≠ 0 := by
        intro e; subst e; unfold NormalWords at hn; simp at hn
      simp [wordsVal]; omega
    · have hnt : NormalWords t := (normal_cons w t ht).mp hn
      cases k with
      | zero =>
        have hl : 0 + 1 ≤ t.length := by
          cases t with
          | nil => exact absurd rfl ht
          | cons _ _ => simp
        have := ih hnt 0 hl
        simp only [wordsVal]
        have h2 : 0 < 2^W := Nat.pow_pos (by omega)
        have : 1 ≤ wordsVal W t := by simpa using this
        have := Nat.mul_le_mul h2 this
        simp at this ⊢
        omega
      | succ k =>
        have := ih hnt k (by simp at hk; omega)
        rw [Nat.mul_add, Nat.pow_add, Nat.mul_one]
        simp only [wordsVal]
        have := Nat.mul_le_mul_left (2^W) this
        rw [Nat.mul_comm (2 ^ (W * k)) (2^W)]
        omega

/-! ## the `len(words)` switch -/

theorem w64_toNat (w : Nat) (h : w < 2^64) : (w64 w).toNat = w := by
  unfold w64; rw [BitVec.toNat_ofNat]; exact Nat.mod_eq_of_lt h

theorem join32_toNat (a b : Nat) (ha : a < 2^32) (hb : b < 2^32) : (join32 a b).toNat = a * 2^32 + b := by
  unfold join32
  rw [BitVec.toNat_or, BitVec.toNat_shiftLeft, w64_toNat a (by omega), w64_toNat b (by omega), Nat.shiftLeft_eq]
  have : a * 2^32 < 2^64 := by omega
  rw [Nat.mod_eq_of_lt this, ← Nat.shiftLeft_eq, ← Nat.shiftLeft_add_eq_or_of_lt hb, Nat.shiftLeft_eq]

theorem max_toNat : U128.max.toNat = 2^128 - 1 := by decide

/-- **the 64-bit switch** on a normalised slice of 64-bit words: exact below 2^128, all ones otherwise -/
theorem wordsToU128W_64 (ws : List Nat) (hb : BoundedWords 64 ws) (hn : NormalWords ws) :
    (wordsToU128W 64 ws).toNat = if wordsVal 64 ws < 2^128 then wordsVal 64 ws else 2^128 - 1 := by
  match ws, hb, hn with
  | [], _, _ => decide
  | [a], hb, _ =>
    have ha := hb a (by simp)
    have hv : wordsVal 64 [a] = a := by simp [wordsVal]
    rw [hv, if_pos (by omega)]
    simp only [wordsToU128W, U128.toNat]
    rw [w64_toNat a ha]; simp
  | [a, b], hb, _ =>
    have ha := hb a (by simp); have hb' := hb b (by simp)
    have hv : wordsVal 64 [a, b] = a + 2^64 * b := by simp [wordsVal]
    rw [hv, if_pos (by omega)]
    simp only [wordsToU128W, U128.toNat, if_true]
    rw [w64_toNat a ha, w64_toNat b hb']; omega
  | a :: b :: c :: rest, _, hn =>
    have hge : 2^(64 * 2) ≤ wordsVal 64 (a :: b :: c :: rest) := wordsVal_ge 64 _ hn 2 (by simp)
    have e : (2:Nat)^(64 * 2) = 2^128 := by decide
    rw [e] at hge
    rw [if_neg (by omega)]
    have : wordsToU128W 64 (a :: b :: c :: rest) = U128.max := by
      match rest with
      | [] => simp [wordsToU128W]
      | [_] => simp [wordsToU128W]
      | _ :: _ :: _ => simp [wordsToU128W]
    rw [this]; exact max_toNat

/-- **the 32-bit switch** on a normalised slice of 32-bit words: the same function of the value -/
theorem wordsToU128W_32 (ws : List Nat) (hb : BoundedWords 32 ws) (hn : NormalWords ws) :
    (wordsToU128W 32 ws).toNat = if wordsVal 32 ws < 2^128 then wordsVal 32 ws else 2^128 - 1 := by
  have h3264 : ¬ (32 = 64) := by omega
  have z0 : (0#64).toNat = 0 := rfl
  match ws, hb, hn with
  | [], _, _ => decide
  | [a], hb, _ =>
    have ha := hb a (by simp)
    have hv : wordsVal 32 [a] = a := by simp [wordsVal]
    rw [hv, if_pos (by omega)]
    simp only [wordsToU128W, U128.toNat]
    rw [w64_toNat a (by omega)]; simp
  | [a, b], hb, _ =>
    have ha := hb a (by simp); have hb' := hb b (by simp)
    have hv : wordsVal 32 [a, b] = a + 2^32 * b := by simp [wordsVal]
    rw [hv, if_pos (by omega)]
    simp only [wordsToU128W, U128.toNat, if_neg h3264]
    rw [join32_toNat b a hb' ha, z0]
    omega
  | [a, b, c], hb, _ =>
    have ha := hb a (by simp); have hb' := hb b (by simp); have hc := hb c (by simp)
    have hv : wordsVal 32 [a, b, c] = a + 2^32 * (b + 2^32 * c) := by simp [wordsVal]
    rw [hv, if_pos (by omega)]
    simp only [wordsToU128W, U128.toNat, if_neg h3264]
    rw [join32_toNat b a hb' ha, w64_toNat c (by omega)]
    omega
  | [a, b, c, d], hb, _ =>
    have ha := hb a (by simp); have hb' := hb b (by simp); have hc := hb c (by simp); have hd := hb d (by simp)
    have hv : wordsVal 32 [a, b, c, d] = a + 2^32 * (b + 2^32 * (c + 2^32 * d)) := by simp [wordsVal]
    rw [hv, if_pos (by omega)]
    simp only [wordsToU128W, U128.toNat, if_neg h3264]
    rw [join32_toNat b a hb' ha, join32_toNat d c hd hc]
    omega
  | a :: b :: c :: d :: e :: rest, _, hn =>
    have hge : 2^(32 * 4) ≤ wordsVal 32 (a :: b :: c :: d :: e :: rest) := wordsVal_ge 32 _ hn 4 (by simp)
    have e' : (2:Nat)^(32 * 4) = 2^128 := by decide
    rw [e'] at hge
    rw [if_neg (by omega)]
    have : wordsToU128W 32 (a :: b :: c :: d :: e :: rest) = U128.max := by simp [wordsToU128W]
    rw [this]; exact max_toNat

/-- both word sizes: the switch on `Bits()` is the value-level import of the slice's value -/
theorem wordsToU128W_eq (W : Nat) (hW : W = 32 ∨ W = 64) (ws : List Nat) (hb : BoundedWords W ws) (hn : NormalWords ws) :
    wordsToU128W W ws = wordsToU128 (wordsVal W ws) := by
  apply U128.eq_of_toNat_eq
  rw [wordsToU128_toNat]
  rcases hW with rfl | rfl
  · exact wordsToU128W_32 ws hb hn
  · exact wordsToU128W_64 ws hb hn

/-! ## `ToBigInt` into any destination -/

theorem list_len2 (l : List Nat) (h : l.length = 2) : ∃ a b, l = [a, b] := by
  match l, h with
  | [a, b], _ => exact ⟨a, b, rfl⟩

theorem list_len4 (l : List Nat) (h : l.length = 4) : ∃ a b c d, l = [a, b, c, d] := by
  match l, h with
  | [a, b, c, d], _ => exact ⟨a, b, c, d, rfl⟩

theorem grown_cut_length (n : Nat) (dest : List Nat) :
    ((if dest.length < n then dest ++ List.replicate (n - dest.length) 0 else dest).take n).length = n := by
  rw [List.length_take]
  split
  · rw [List.length_append, List.length_replicate]; omega
  · omega

/-- the slice handed to `SetBits` consists of exactly the stored words, whatever the destination held -/
theorem toBigInt_stored (W : Nat) (hW : W = 32 ∨ W = 64) (dest : List Nat) (u : U128) :
    U128.toBigIntW W dest u = normWords (storedWords W u) := by
  unfold U128.toBigIntW toBigIntWordsGen
  simp only [if_true]
  rcases hW with rfl | rfl
  · have h3264 : ¬ (32 = 64) := by omega
    simp only [if_neg h3264]
    obtain ⟨a, b, c, d, e⟩ := list_len4 _ (grown_cut_length 4 dest)
    rw [e]
    simp [storedWords, storeAll]
  · simp only [if_true]
    obtain ⟨a, b, e⟩ := list_len2 _ (grown_cut_length 2 dest)
    rw [e]
    simp [storedWords, storeAll]

theorem storedWords_val (W : Nat) (hW : W = 32 ∨ W = 64) (u : U128) :
    wordsVal W (storedWords W u) = u.toNat ∧ BoundedWords W (storedWords W u) := by
  have hh := u.hi.isLt; have hl := u.lo.isLt
  rcases hW with rfl | rfl
  · have h3264 : ¬ (32 = 64) := by omega
    have hm : (0xFFFFFFFF#64).toNat = 2^32 - 1 := by decide
    have e1 : (u.lo &&& 0xFFFFFFFF#64).toNat = u.lo.toNat % 2^32 := by
      rw [BitVec.toNat_and, hm, Nat.and_two_pow_sub_one_eq_mod]
    have e2 : (u.hi &&& 0xFFFFFFFF#64).toNat = u.hi.toNat % 2^32 := by
      rw [BitVec.toNat_and, hm, Nat.and_two_pow_sub_one_eq_mod]
    have e3 : (u.lo >>> 32).toNat = u.lo.toNat / 2^32 := by
      rw [BitVec.toNat_ushiftRight, Nat.shiftRight_eq_div_pow]
    have e4 : (u.hi >>> 32).toNat = u.hi.toNat / 2^32 := by
      rw [BitVec.toNat_ushiftRight, Nat.shiftRight_eq_div_pow]
    simp only [storedWords, if_neg h3264, wordsVal, U128.toNat, e1, e2, e3, e4]
    refine ⟨by omega, ?_⟩
    intro w h
    simp only [List.mem_cons, List.not_mem_nil, or_false] at h
    rcases h with h | h | h | h <;> (subst h; omega)
  · simp only [storedWords, if_true, wordsVal, U128.toNat]
    refine ⟨by omega, ?_⟩
    intro w h
    simp only [List.mem_cons, List.not_mem_nil, or_false] at h
    rcases h with h | h <;> (subst h; omega)

/-- **`Uint128.ToBigInt` into any destination** (any number of words, any content): the result is a normalised,
    bounded slice whose value is the `Uint128` -/
theorem U128.toBigIntW_spec (W : Nat) (hW : W = 32 ∨ W = 64) (dest : List Nat) (u : U128) :
    wordsVal W (U128.toBigIntW W dest u) = u.toNat ∧ BoundedWords W (U128.toBigIntW W dest u) ∧
      NormalWords (U128.toBigIntW W dest u) := by
  rw [toBigInt_stored W hW dest u]
  obtain ⟨v, b⟩ := storedWords_val W hW u
  refine ⟨by rw [wordsVal_normWords, v], ?_, normal_normWords _⟩
  intro w h
  exact b w (mem_normWords _ w h)

theorem wordsToU128_toNat_self (u : U128) : wordsToU128 u.toNat = u := by
  apply U128.eq_of_toNat_eq
  rw [wordsToU128_toNat, if_pos (U128.toNat_lt u)]

/-- **`Int128.ToBigInt` into any destination**: the sign-and-words result has the exact value -/
theorem I128.toBigIntW_spec (W : Nat) (hW : W = 32 ∨ W = 64) (dest : List Nat) (i : I128) :
    bigVal W (I128.toBigIntW W dest i) = i.toInt ∧ BoundedWords W (I128.toBigIntW W dest i).2 ∧
      NormalWords (I128.toBigIntW W dest i).2 ∧ ((I128.toBigIntW W dest i).1 = true → i.toInt < 0) := by
  have hW0 : 0 < W := by rcases hW with rfl | rfl <;> omega
  obtain ⟨v, b, nm⟩ := U128.toBigIntW_spec W hW dest i.asUint128
  have hv : wordsVal W (U128.toBigIntW W dest i.asUint128) = i.hi.toNat * 2^64 + i.lo.toNat := v
  have ha := I128.asBigInt_eq i
  unfold I128.asBigInt at ha
  simp only [] at ha
  unfold I128.toBigIntW bigVal
  simp only []
  by_cases c : i.isUint128 = true
  · rw [c] at ha ⊢
    simp only [Bool.not_true, Bool.false_eq_true, if_false] at ha ⊢
    refine ⟨by rw [hv]; exact ha, b, nm, fun h => by cases h⟩
  · have c' : i.isUint128 = false := by cases hb : i.isUint128 <;> simp_all
    rw [c'] at ha ⊢
    simp only [Bool.not_false, if_true] at ha ⊢
    obtain ⟨fv, fb, fn, _⟩ := natToWords_facts W hW0 ((wordsVal W (U128.toBigIntW W dest i.asUint128) ^^^ maxBigUint128) + 1)
    rw [fv, hv]
    have hne : (i.hi.toNat * 2^64 + i.lo.toNat ^^^ maxBigUint128) + 1 ≠ 0 := by omega
    rw [decide_eq_true hne]
    simp only [if_true]
    refine ⟨ha, ?_, ?_, fun _ => by rw [← ha]; omega⟩
    · rw [← hv]; exact fb
    · rw [← hv]; exact fn

/-! ## the word-level `FromBigInt` is the value-level one -/

theorem bigVal_natAbs (W : Nat) (neg : Bool) (ws : List Nat) : (bigVal W (neg, ws)).natAbs = wordsVal W ws := by
  unfold bigVal; cases neg <;> simp

theorem U128.fromBigIntW_eq (W : Nat) (hW : W = 32 ∨ W = 64) (neg : Bool) (ws : List Nat) (hb : BoundedWords W ws)
    (hn : NormalWords ws) : U128.fromBigIntW W neg ws = U128.fromBigInt (bigVal W (neg, ws)) := by
  have he := wordsToU128W_eq W hW ws hb hn
  unfold U128.fromBigIntW U128.fromBigInt
  rw [bigVal_natAbs, he]
  cases neg with
  | false =>
    have : ¬ (bigVal W (false, ws) < 0) := by unfold bigVal; simp
    rw [if_neg this]; simp
  | true =>
    simp only [if_true]
    by_cases hz : wordsVal W ws = 0
    · have : ¬ (bigVal W (true, ws) < 0) := by unfold bigVal; simp [hz]
      rw [if_neg this, hz]; rfl
    · have : bigVal W (true, ws) < 0 := by unfold bigVal; simp; omega
      rw [if_pos this]

theorem I128.fromBigIntW_eq (W : Nat) (hW : W = 32 ∨ W = 64) (neg : Bool) (ws : List Nat) (hb : BoundedWords W ws)
    (hn : NormalWords ws) : I128.fromBigIntW W neg ws = I128.fromBigInt (bigVal W (neg, ws)) := by
  have he := wordsToU128W_eq W hW ws hb hn
  unfold I128.fromBigIntW I128.fromBigInt
  rw [bigVal_natAbs, he]
  cases neg with
  | false =>
    have : bigVal W (false, ws) ≥ 0 := by unfold bigVal; simp
    simp only [Bool.not_false, if_true]
    rw [if_pos this]
  | true =>
    simp only [Bool.not_true, Bool.false_eq_true, if_false]
    by_cases hz : wordsVal W ws = 0
    · have : bigVal W (true, ws) ≥ 0 := by unfold bigVal; simp [hz]
      rw [if_pos this, hz]; decide
    · have : ¬ (bigVal W (true, ws) ≥ 0) := by unfold bigVal; simp; omega
      rw [if_neg this]

/-! ## contrast: `ToBigInt` without the cut `words = words[:n]` -/

/-- a destination that held three 64-bit words keeps its third word: the result is off by 2^128 for EVERY value -/
theorem toBigInt_no_cut_64 (u : U128) : wordsVal 64 (toBigIntWordsGen false 64 [0, 0, 1] u) = u.toNat + 2^128 := by
  unfold toBigIntWordsGen
  simp [storedWords, storeAll, normWords, wordsVal, U128.toNat]
  omega

/-- … and with 32-bit words a destination that held five words keeps its fifth -/
theorem toBigInt_no_cut_32 (u : U128) : wordsVal 32 (toBigIntWordsGen false 32 [0, 0, 0, 0, 1] u) = u.toNat + 2^128 := by
  obtain ⟨v, _⟩ := storedWords_val 32 (Or.inl rfl) u
  unfold toBigIntWordsGen
  have h3264 : ¬ (32 = 64) := by omega
  simp only [if_neg h3264]
  have e : storedWords 32 u = [(u.lo &&& 0xFFFFFFFF#64).toNat, (u.lo >>> 32).toNat, (u.hi &&& 0xFFFFFFFF#64).toNat,
      (u.hi >>> 32).toNat] := by unfold storedWords; rw [if_neg h3264]
  rw [e] at v
  rw [e]
  simp only [storeAll, List.length_cons, List.length_nil, Bool.false_eq_true, if_false, List.set_cons_zero,
    List.set_cons_succ, Nat.reduceLT, Nat.reduceAdd]
  rw [wordsVal_normWords]
  simp only [wordsVal] at v ⊢
  omega

end Conv
