import Lemmas.SafeFileHist
import Lemmas.SafeFileRace
/-! C14, extension: two `safe.File` handles on one destination, each running ANY history with a fault on any system call;
    their system calls interleave.  Lemmas for `Props/C14RaceHist.lean`. -/
namespace Safe

def targets2 : Act2 → List Path
  | .base a => targets a
  | .openFail _ _ _ => []
  | .unlinkFail _ => []

theorem apply2_untouched (u : Nat) (fs : FS) (q : Path) (a : Act2) (h : q ∉ targets2 a) : applyAct2 u fs a q = fs q := by
  cases a with
  | base b => exact apply_untouched u fs q b h
  | openFail _ _ _ => rfl
  | unlinkFail _ => rfl

theorem run2_untouched (u : Nat) (fs : FS) (q : Path) (as : List Act2) (h : ∀ a ∈ as, q ∉ targets2 a) :
    run2 u fs as q = fs q := by
  induction as generalizing fs with
  | nil => rfl
  | cons a as ih =>
    simp only [run2]
    rw [ih _ (fun b hb => h b (by simp [hb])), apply2_untouched u fs q a (h a (by simp))]

/-- an action of the handle with temporary file `tmp`: a failing call, or an action local to that handle -/
def LocalTo2 (tmp dst : Path) : Act2 → Prop
  | .base a => LocalTo tmp dst a
  | .openFail _ _ _ => True
  | .unlinkFail _ => True

theorem local_apply2_eq (u : Nat) (tmp dst : Path) (hne : tmp ≠ dst) (fs1 fs2 : FS) (h : fs1 tmp = fs2 tmp) (a : Act2)
    (ha : LocalTo2 tmp dst a) : applyAct2 u fs1 a tmp = applyAct2 u fs2 a tmp := by
  cases a with
  | base b => exact local_apply_eq u tmp dst hne fs1 fs2 h b ha
  | openFail _ _ _ => exact h
  | unlinkFail _ => exact h

theorem interleave_tmp2 (u : Nat) (tmp dst : Path) (hne : tmp ≠ dst) {a b l : List Act2} (h : Interleave a b l) :
    (∀ x ∈ a, LocalTo2 tmp dst x) → (∀ y ∈ b, tmp ∉ targets2 y) →
    ∀ fs1 fs2 : FS, fs1 tmp = fs2 tmp → run2 u fs1 l tmp = run2 u fs2 a tmp := by
  induction h with
  | nil => intro _ _ fs1 fs2 h; exact h
  | left x _ ih =>
    intro ha hb fs1 fs2 h
    simp only [run2]
    exact ih (fun y hy => ha y (List.mem_cons_of_mem _ hy)) hb _ _
      (local_apply2_eq u tmp dst hne fs1 fs2 h x (ha x List.mem_cons_self))
  | right y _ ih =>
    intro ha hb fs1 fs2 h
    simp only [run2]
    apply ih ha (fun z hz => hb z (List.mem_cons_of_mem _ hz))
    rw [apply2_untouched u fs1 tmp y (hb y List.mem_cons_self)]
    exact h

theorem dst_from_a_rename2 (u : Nat) (fs : FS) (dst : Path) (l : List Act2)
    (hl : ∀ x ∈ l, dst ∉ targets2 x ∨ ∃ s, s ≠ dst ∧ x = .base (.rename s dst)) (k : Nat) :
    run2 u fs (l.take k) dst = fs dst ∨
    ∃ i s c, i < k ∧ l[i]? = some (.base (.rename s dst)) ∧ run2 u fs (l.take i) s = some c ∧
      run2 u fs (l.take k) dst = some c := by
  induction k with
  | zero => left; simp [run2]
  | succ k ih =>
    rw [List.take_add_one]
    cases hx : l[k]? with
    | none =>
      simp only [Option.toList, List.append_nil]
      rcases ih with h | ⟨i, s, c, hi, h1, h2, h3⟩
      · exact Or.inl h
      · exact Or.inr ⟨i, s, c, by omega, h1, h2, h3⟩
    | some x =>
      simp only [Option.toList]
      rw [run2_append]
      simp only [run2]
      rcases hl x (List.mem_of_getElem? hx) with hnt | ⟨s, hs, rfl⟩
      · rw [apply2_untouched u _ dst x hnt]
        rcases ih with h | ⟨i, s, c, hi, h1, h2, h3⟩
        · exact Or.inl h
        · exact Or.inr ⟨i, s, c, by omega, h1, h2, h3⟩
      · simp only [applyAct2, applyAct]
        cases hsrc : run2 u fs (l.take k) s with
        | none =>
          simp only
          rcases ih with h | ⟨i, s', c, hi, h1, h2, h3⟩
          · exact Or.inl h
          · exact Or.inr ⟨i, s', c, by omega, h1, h2, h3⟩
        | some c =>
          right
          exact ⟨k, s, c, by omega, hx, hsrc, by simp [FS.set]⟩

theorem localTo2_not_other (tmp dst q : Path) (hq : q ≠ tmp) (hqd : q ≠ dst) (a : Act2) (h : LocalTo2 tmp dst a) :
    q ∉ targets2 a := by
  cases a with
  | base b => exact localTo_not_other tmp dst q hq hqd b h
  | openFail _ _ _ => simp [targets2]
  | unlinkFail _ => simp [targets2]

theorem localTo2_dst (tmp dst : Path) (hne : tmp ≠ dst) (a : Act2) (h : LocalTo2 tmp dst a) :
    dst ∉ targets2 a ∨ ∃ s, s ≠ dst ∧ a = .base (.rename s dst) := by
  cases a with
  | base b =>
    rcases localTo_dst tmp dst hne b h with h | ⟨s, hs, rfl⟩
    · exact Or.inl h
    · exact Or.inr ⟨s, hs, rfl⟩
  | openFail _ _ _ => left; simp [targets2]
  | unlinkFail _ => left; simp [targets2]

/-! ## the system calls of one call of the API -/

theorem stepU_names (f : File) (o : OpU) : (f.stepU o).1.tmp = f.tmp ∧ (f.stepU o).1.dst = f.dst := by
  cases o with
  | write c fails => exact ⟨rfl, rfl⟩
  | commit a b c =>
    cases hc : f.committed <;> cases hcl : f.closed <;> cases hfd : f.fdOpen <;> cases a <;> cases b <;>
      simp [File.stepU, File.commitU, hc, hcl, hfd]
  | close a c =>
    cases hc : f.committed <;> cases hcl : f.closed <;> cases hfd : f.fdOpen <;> cases a <;>
      simp [File.stepU, File.closeU, hc, hcl, hfd]
  | closeFd a => cases hfd : f.fdOpen <;> simp [File.stepU, File.closeFdU, hfd]

theorem stepU_local (f : File) (o : OpU) : ∀ x ∈ (f.stepU o).2.2, LocalTo2 f.tmp f.dst x := by
  have hloc1 : ∀ q ∈ ([] : List Path), q = f.tmp := by intro q hq; simp at hq
  cases o with
  | write c fails =>
    cases hfd : f.fdOpen <;> cases fails <;> intro x hx <;> simp [File.stepU, File.write, hfd] at hx
    all_goals subst hx; left; intro q hq; simp [targets] at hq
    exact hq
  | commit a b c =>
    cases hc : f.committed <;> cases hcl : f.closed <;> cases hfd : f.fdOpen <;> cases a <;> cases b <;> cases c <;>
      intro x hx <;> simp [File.stepU, File.commitU, rmAct, hc, hcl, hfd] at hx
    all_goals
      first
        | (subst hx; first | trivial | (left; intro q hq; simp [targets] at hq; try exact hq))
        | (rcases hx with rfl | rfl | rfl <;>
            first | trivial | (right; rfl) | (left; intro q hq; simp [targets] at hq; try exact hq))
        | (rcases hx with rfl | rfl <;>
            first | trivial | (right; rfl) | (left; intro q hq; simp [targets] at hq; try exact hq))
  | close a c =>
    cases hc : f.committed <;> cases hcl : f.closed <;> cases hfd : f.fdOpen <;> cases a <;> cases c <;>
      intro x hx <;> simp [File.stepU, File.closeU, rmAct, hc, hcl, hfd] at hx
    all_goals
      first
        | (subst hx; first | trivial | (left; intro q hq; simp [targets] at hq; try exact hq))
        | (rcases hx with rfl | rfl <;>
            first | trivial | (left; intro q hq; simp [targets] at hq; try exact hq))
  | closeFd a =>
    cases hfd : f.fdOpen <;> cases a <;> intro x hx <;> simp [File.stepU, File.closeFdU, hfd] at hx
    all_goals subst hx; left; intro q hq; simp [targets] at hq

theorem stepsU_local (tmp dst : Path) (ops : List OpU) :
    ∀ f : File, f.tmp = tmp → f.dst = dst → ∀ x ∈ (f.stepsU ops).2.2, LocalTo2 tmp dst x := by
  induction ops with
  | nil => intro f _ _ x hx; simp [stepsU_nil] at hx
  | cons o os ih =>
    intro f ht hd x hx
    rw [stepsU_cons] at hx
    simp only at hx
    rcases List.mem_append.mp hx with h | h
    · have := stepU_local f o x h
      rw [ht, hd] at this
      exact this
    · exact ih _ (by rw [(stepU_names f o).1, ht]) (by rw [(stepU_names f o).2, hd]) x h

/-- the abstract specification backwards over one call that leaves the handle in the writing phase -/
theorem Abs.step_writing (m : Nat) (s : Abs) (o : OpU) (os : List OpU) (fd' : Bool) (p' : Bytes)
    (hph : (s.step m o).1.phase = .writing fd') (hc : committedU fd' os = some p') :
    ∃ fd p, s.phase = .writing fd ∧ committedU fd (o :: os) = some p ∧ s.pending ++ p = (s.step m o).1.pending ++ p' := by
  obtain ⟨ph, pend, dest⟩ := s
  cases o with
  | write c fails =>
    cases ph with
    | writing fd =>
      cases fd <;> cases fails <;> simp [Abs.step] at hph <;> subst hph <;>
        simp [Abs.step, committedU, hc]
    | committed => simp [Abs.step] at hph
    | aborted => simp [Abs.step] at hph
  | commit a b c =>
    cases ph with
    | writing fd => cases fd <;> cases a <;> cases b <;> simp [Abs.step] at hph
    | committed => simp [Abs.step] at hph
    | aborted => simp [Abs.step] at hph
  | close a c =>
    cases ph with
    | writing fd => cases fd <;> simp [Abs.step] at hph
    | committed => simp [Abs.step] at hph
    | aborted => simp [Abs.step] at hph
  | closeFd a =>
    cases ph with
    | writing fd =>
      cases fd <;> simp [Abs.step] at hph <;> subst hph <;> simp [Abs.step, committedU, hc]
    | committed => simp [Abs.step] at hph
    | aborted => simp [Abs.step] at hph

/-- a rename among the system calls of ONE call: the call is a `Commit` on an open handle whose close(2) and rename
    succeed, the rename is `tmp → dst`, and at that moment the temporary file holds exactly the accepted bytes -/
theorem stepU_rename_here (u m : Nat) (tmp dst : Path) (fs0 : FS) (clean : Bool) (f : File) (fs : FS) (s : Abs)
    (o : OpU) (R : Rel m tmp dst fs0 clean f fs s) (i : Nat) (sr d : Path)
    (h : (f.stepU o).2.2[i]? = some (.base (.rename sr d))) :
    sr = tmp ∧ d = dst ∧ s.phase = .writing true ∧ (∃ c, o = .commit false false c) ∧
    run2 u fs ((f.stepU o).2.2.take i) tmp = some ⟨s.pending, m⟩ := by
  obtain ⟨ftmp, fdst, cm, cl, fd⟩ := f
  obtain ⟨ph, pend, dest⟩ := s
  obtain ⟨h1, h2, h3, h4, h5, h6, h7, h8, h9⟩ := R
  simp only at h1 h2 h5 h6 h7 h9
  subst h1 h2
  simp only [File.phase] at h3
  cases cl with
  | true =>
    have hfd : fd = false := h7 rfl
    subst hfd
    have hst := stepU_closed { tmp := ftmp, dst := fdst, committed := cm, closed := true, fdOpen := false } rfl rfl o
    rw [hst.2] at h
    simp at h
  | false =>
    have hcm : cm = false := by
      cases cm with
      | false => rfl
      | true => exact absurd (h6 rfl) (by simp)
    subst hcm
    simp at h3
    subst h3
    have htmpc := h5 rfl
    cases o with
    | write c fails =>
      cases fd <;> cases fails <;> rcases i with _ | i <;> simp [File.stepU, File.write] at h
    | closeFd a =>
      cases fd <;> cases a <;> rcases i with _ | i <;> simp [File.stepU, File.closeFdU] at h
    | close a c =>
      cases fd <;> cases a <;> cases c <;> rcases i with _ | _ | i <;> simp [File.stepU, File.closeU, rmAct] at h
    | commit a b c =>
      cases fd <;> cases a <;> cases b <;> cases c <;> rcases i with _ | _ | _ | i <;>
        simp [File.stepU, File.commitU, rmAct] at h <;>
        (obtain ⟨rfl, rfl⟩ := h
         refine ⟨rfl, rfl, rfl, ⟨_, rfl⟩, ?_⟩
         simp [File.stepU, File.commitU, run2, applyAct2, applyAct, htmpc])

/-- **a rename anywhere in a history**: it is `tmp → dst`, the history commits `p`, and at that moment the temporary
    file holds exactly `pending ++ p` -/
theorem stepsU_rename (u m : Nat) (tmp dst : Path) (hne : tmp ≠ dst) (fs0 : FS) (ops : List OpU) :
    ∀ (clean : Bool) (f : File) (fs : FS) (s : Abs), Rel m tmp dst fs0 clean f fs s →
    ∀ (i : Nat) (sr d : Path), (f.stepsU ops).2.2[i]? = some (.base (.rename sr d)) →
      sr = tmp ∧ d = dst ∧ ∃ fd p, s.phase = .writing fd ∧ committedU fd ops = some p ∧
        run2 u fs ((f.stepsU ops).2.2.take i) tmp = some ⟨s.pending ++ p, m⟩ := by
  induction ops with
  | nil => intro clean f fs s _ i sr d h; simp [stepsU_nil] at h
  | cons o os ih =>
    intro clean f fs s R i sr d h
    rw [stepsU_cons] at h ⊢
    simp only at h ⊢
    by_cases hi : i < (f.stepU o).2.2.length
    · rw [List.getElem?_append_left hi] at h
      obtain ⟨e1, e2, e3, ⟨c, e4⟩, e5⟩ := stepU_rename_here u m tmp dst fs0 clean f fs s o R i sr d h
      refine ⟨e1, e2, true, [], e3, by rw [e4]; rfl, ?_⟩
      rw [List.take_append_of_le_length (by omega), e5, List.append_nil]
    · have hi' : (f.stepU o).2.2.length ≤ i := by omega
      rw [List.getElem?_append_right hi'] at h
      obtain ⟨R1, _⟩ := stepU_sim u m tmp dst hne fs0 clean f fs s o R
      obtain ⟨e1, e2, fd', p', e3, e4, e5⟩ := ih _ _ _ _ R1 _ sr d h
      obtain ⟨fd, p, g1, g2, g3⟩ := Abs.step_writing m s o os fd' p' e3 e4
      refine ⟨e1, e2, fd, p, g1, g2, ?_⟩
      rw [List.take_append, List.take_of_length_le hi', run2_append, e5, g3]

/-- the same for the complete list of a handle, `CreateWithMode`'s call included -/
theorem history_rename (u mode : Nat) (fs : FS) (tmp dst : Path) (hne : tmp ≠ dst) (ops : List OpU) (i : Nat) (sr d : Path)
    (h : ((File.create tmp dst mode).2.map Act2.base ++ ((File.create tmp dst mode).1.stepsU ops).2.2)[i]? =
      some (.base (.rename sr d))) :
    sr = tmp ∧ d = dst ∧ ∃ p, committedU true ops = some p ∧
      run2 u fs (((File.create tmp dst mode).2.map Act2.base ++ ((File.create tmp dst mode).1.stepsU ops).2.2).take i) tmp =
        some ⟨p, lessUmask mode u⟩ := by
  have hcr : (File.create tmp dst mode).2.map Act2.base = [.base (.createExcl tmp mode)] := rfl
  have hcreate : (File.create tmp dst mode).1 = ({ tmp := tmp, dst := dst } : File) := rfl
  rw [hcr, hcreate] at h ⊢
  cases i with
  | zero => simp at h
  | succ j =>
    simp only [List.singleton_append, List.getElem?_cons_succ] at h
    obtain ⟨e1, e2, fd, p, e3, e4, e5⟩ :=
      stepsU_rename u (lessUmask mode u) tmp dst hne fs ops true _ _ _ (rel_init u mode tmp dst hne fs) j sr d h
    simp only at e3
    injection e3 with e3
    subst e3
    refine ⟨e1, e2, p, e4, ?_⟩
    simp only [List.singleton_append, List.take_succ_cons, run2, applyAct2, applyAct]
    rw [e5]
    simp

theorem history_local (tmp dst : Path) (mode : Nat) (ops : List OpU) :
    ∀ x ∈ (File.create tmp dst mode).2.map Act2.base ++ ((File.create tmp dst mode).1.stepsU ops).2.2,
      LocalTo2 tmp dst x := by
  intro x hx
  rcases List.mem_append.mp hx with h | h
  · have hcr : (File.create tmp dst mode).2.map Act2.base = [.base (.createExcl tmp mode)] := rfl
    rw [hcr] at h
    simp at h
    subst h
    left
    intro q hq
    simpa [targets] using hq
  · exact stepsU_local tmp dst ops _ rfl rfl x h

end Safe
