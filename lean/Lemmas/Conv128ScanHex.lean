import Lemmas.Conv128Scan
import Lemmas.Conv128RatGrammar
/-! C02 helper lemmas, part 13 (core Lean only): hexadecimal text read back through `Scan`, for EVERY digit string.
    A hexadecimal rendering that contains the digit `e`/`E` takes the `big.Rat` branch of `parseToBigInt`
    (`hasExpChar`); there `0x…` is a hexadecimal mantissa without radix point and without exponent (`e` is a digit of the
    base), so `big.Rat.SetString` reads the fraction `value/1`.  Lower-case and upper-case digits. -/
namespace Conv

/-- digit `d < 16` as an upper-case character (`%X`) -/
def baseDigitCharU (d : Nat) : Char := if d < 10 then Char.ofNat (48 + d) else Char.ofNat (55 + d)

/-- digits of `n` in base `b ≥ 2` with upper-case letters (`strings.ToUpper(big.Int.Text(b))`, what `%X` prints) -/
def baseDigitsU (b n : Nat) : List Char :=
  if h : 2 ≤ b ∧ b ≤ n then baseDigitsU b (n / b) ++ [baseDigitCharU (n % b)] else [baseDigitCharU n]
termination_by n
decreasing_by
  have : 0 < n := by omega
  exact Nat.div_lt_self this (by omega)

theorem digitVal_baseDigitCharU (d : Nat) (h : d < 16) : digitVal (baseDigitCharU d) = d := by
  have : d = 0 ∨ d = 1 ∨ d = 2 ∨ d = 3 ∨ d = 4 ∨ d = 5 ∨ d = 6 ∨ d = 7 ∨ d = 8 ∨ d = 9 ∨ d = 10 ∨ d = 11 ∨ d = 12 ∨
      d = 13 ∨ d = 14 ∨ d = 15 := by omega
  rcases this with rfl | rfl | rfl | rfl | rfl | rfl | rfl | rfl | rfl | rfl | rfl | rfl | rfl | rfl | rfl | rfl <;> decide

theorem baseDigitsU_unfold (b n : Nat) :
    baseDigitsU b n = if 2 ≤ b ∧ b ≤ n then baseDigitsU b (n / b) ++ [baseDigitCharU (n % b)] else [baseDigitCharU n] := by
  rw [baseDigitsU]; split <;> rfl

theorem baseDigitsU_lt (b : Nat) (hb : 2 ≤ b) (hb16 : b ≤ 16) (n : Nat) : ∀ c ∈ baseDigitsU b n, digitVal c < b := by
  induction n using Nat.strongRecOn with
  | _ n ih =>
    rw [baseDigitsU_unfold]
    by_cases h : 2 ≤ b ∧ b ≤ n
    · rw [if_pos h]; intro c hc
      rw [List.mem_append] at hc
      rcases hc with hc | hc
      · exact ih (n / b) (Nat.div_lt_self (by omega) (by omega)) c hc
      · simp at hc; subst hc
        have := Nat.mod_lt n (by omega : 0 < b)
        rw [digitVal_baseDigitCharU _ (by omega)]; exact this
    · rw [if_neg h]; intro c hc; simp at hc; subst hc
      rw [digitVal_baseDigitCharU _ (by omega)]; omega

theorem baseDigitsU_ne_nil (b n : Nat) : baseDigitsU b n ≠ [] := by
  rw [baseDigitsU_unfold]; split <;> simp

theorem valFrom_baseDigitsU (b : Nat) (hb : 2 ≤ b) (hb16 : b ≤ 16) (n : Nat) : valFrom b 0 (baseDigitsU b n) = n := by
  induction n using Nat.strongRecOn with
  | _ n ih =>
    rw [baseDigitsU_unfold]
    by_cases h : 2 ≤ b ∧ b ≤ n
    · rw [if_pos h]
      have hm := Nat.mod_lt n (by omega : 0 < b)
      have hd : digitVal (baseDigitCharU (n % b)) = n % b := digitVal_baseDigitCharU _ (by omega)
      rw [valFrom_append_digit _ _ _ _ (digit_ne_us (b := b) (by rw [hd]; exact hm) (by omega)),
        ih (n / b) (Nat.div_lt_self (by omega) (by omega)), hd]
      exact Nat.div_add_mod' n b
    · rw [if_neg h]
      have hd : digitVal (baseDigitCharU n) = n := digitVal_baseDigitCharU _ (by omega)
      have hne : baseDigitCharU n ≠ '_' := digit_ne_us (b := b) (by rw [hd]; omega) (by omega)
      unfold valFrom
      simp only [List.foldl_cons, List.foldl_nil, if_neg hne, hd]; omega

/-- the padded upper-case digit string: all characters are digits of the base, not empty, value = the number -/
theorem paddedU_facts (b : Nat) (hb : 2 ≤ b) (hb16 : b ≤ 16) (k n : Nat) :
    (∀ c ∈ zeros k ++ baseDigitsU b n, digitVal c < b) ∧ zeros k ++ baseDigitsU b n ≠ [] ∧
      digitsVal b (zeros k ++ baseDigitsU b n) = n := by
  refine ⟨?_, ?_, ?_⟩
  · intro c hc
    rcases List.mem_append.mp hc with h | h
    · exact zeros_lt b hb k c h
    · exact baseDigitsU_lt b hb hb16 n c h
  · intro h; exact baseDigitsU_ne_nil b n (List.append_eq_nil_iff.mp h).2
  · unfold digitsVal; rw [valFrom_zeros, valFrom_baseDigitsU b hb hb16]

/-! ## a run of hexadecimal digits as a `big.Rat` mantissa -/

theorem digit_ne_dot {c : Char} {b : Nat} (h : digitVal c < b) (hb : b ≤ 36) : c ≠ '.' := by
  intro e; subst e; have := dv_dot
  omega

theorem mant_of_all (b : Nat) (hb : b ≤ 36) (pv : Prev) (hpv : pv ≠ .sep) (l : List Char) (h : ∀ c ∈ l, digitVal c < b) :
    Mant b pv true l := by
  induction l generalizing pv with
  | nil => exact Mant.nil pv true hpv
  | cons c t ih =>
    exact Mant.digit pv true c t (h c (by simp)) (ih .digit (by decide) (fun d hd => h d (by simp [hd])))

theorem ndig_of_all (b : Nat) (hb : b ≤ 36) (l : List Char) (h : ∀ c ∈ l, digitVal c < b) : ndig l = l.length := by
  induction l with
  | nil => rfl
  | cons c t ih =>
    have hc := h c (by simp)
    have h1 : ¬ (c = '_' ∨ c = '.') := by
      intro hh; rcases hh with hh | hh
      · exact digit_ne_us hc hb hh
      · exact digit_ne_dot hc hb hh
    simp only [ndig, if_neg h1, List.length_cons]
    rw [ih (fun d hd => h d (by simp [hd]))]; omega

theorem fracDigits_of_all (b : Nat) (hb : b ≤ 36) (l : List Char) (h : ∀ c ∈ l, digitVal c < b) : fracDigits l = none := by
  induction l with
  | nil => rfl
  | cons c t ih =>
    have hc := h c (by simp)
    simp only [fracDigits, if_neg (digit_ne_dot hc hb)]
    exact ih (fun d hd => h d (by simp [hd]))

theorem mval_of_all (b : Nat) (hb : b ≤ 36) (l : List Char) (h : ∀ c ∈ l, digitVal c < b) (acc : Nat) :
    mval b acc l = valFrom b acc l := by
  induction l generalizing acc with
  | nil => rfl
  | cons c t ih =>
    have hc := h c (by simp)
    have h1 : ¬ (c = '_' ∨ c = '.') := by
      intro hh; rcases hh with hh | hh
      · exact digit_ne_us hc hb hh
      · exact digit_ne_dot hc hb hh
    unfold mval valFrom at ih ⊢
    simp only [List.foldl_cons, if_neg h1, if_neg (digit_ne_us hc hb)]
    exact ih (fun d hd => h d (by simp [hd])) _

theorem hasSlash_append (a b : List Char) : hasSlash (a ++ b) = (hasSlash a || hasSlash b) := by
  unfold hasSlash; rw [List.any_append]

theorem hasSlash_digits (b : Nat) (hb : b ≤ 36) (l : List Char) (h : ∀ c ∈ l, digitVal c < b) : hasSlash l = false := by
  unfold hasSlash
  rw [List.any_eq_false]
  intro c hc
  have := h c hc
  simp only [decide_eq_true_eq]
  intro hh; subst hh
  have : digitVal '/' = 63 := by decide
  omega

theorem hasSlash_sign (sg : List Char) (h : IsSign sg) : hasSlash sg = false := by
  rcases h with rfl | rfl | rfl <;> decide

/-- **`sign ++ "0x" ++ hexadecimal digits` parses to the signed Horner value, whatever the digits** — through
    `big.Int.SetString` when no digit is `e`/`E`, through `big.Rat.SetString` (hexadecimal mantissa, no radix point, no
    exponent, denominator 1) when one is -/
theorem parse_hex_body (sg : List Char) (hsg : IsSign sg) (body : List Char) (hne : body ≠ [])
    (hall : ∀ c ∈ body, digitVal c < 16) :
    parseToBigInt (sg ++ ('0' :: 'x' :: body)) =
      some (if sg = ['-'] then -(digitsVal 16 body : Int) else (digitsVal 16 body : Int)) := by
  cases hexp : hasExpChar (sg ++ ('0' :: 'x' :: body)) with
  | false =>
    have hsd := sepDigits_of_all 16 true body hne hall
    exact parse_of_body sg _ _ hsg (PlainBody.hex 'x' body (Or.inl rfl) hsd) hexp
  | true =>
    rw [parseToBigInt_exp_iff _ _ hexp]
    have hnd : 0 < ndig body := by
      rw [ndig_of_all 16 (by omega) body hall]
      cases body with
      | nil => exact absurd rfl hne
      | cons _ _ => simp
    have hmant : RatMant ('0' :: 'x' :: body) 16 (mval 16 0 body) (mcount body) :=
      RatMant.pre 'x' 16 body (Or.inr (Or.inr ⟨Or.inl rfl, rfl⟩)) (mant_of_all 16 (by omega) .digit (by decide) body hall) hnd
    have hmv : mval 16 0 body = digitsVal 16 body := by unfold digitsVal; exact mval_of_all 16 (by omega) body hall 0
    have hmc : mcount body = (body.length : Int) := by
      unfold mcount; rw [fracDigits_of_all 16 (by omega) body hall, ndig_of_all 16 (by omega) body hall]
    have hslash : hasSlash (sg ++ ('0' :: 'x' :: body)) = false := by
      have : sg ++ ('0' :: 'x' :: body) = sg ++ (['0', 'x'] ++ body) := rfl
      rw [this, hasSlash_append, hasSlash_append, hasSlash_sign sg hsg, hasSlash_digits 16 (by omega) body hall]; decide
    refine ⟨hslash, ?_⟩
    -- the arithmetic tail: no fraction digits, exponent 0 in base 10: the fraction is ±value / 1
    have htail : ∀ neg : Bool, ratTail neg (mval 16 0 body) 16 (mcount body) 10 0 =
        some (if neg then -((digitsVal 16 body : Nat) : Int) else ((digitsVal 16 body : Nat) : Int), 1) := by
      intro neg
      rw [hmv, hmc]
      unfold ratTail
      by_cases hz : digitsVal 16 body = 0
      · rw [hz]; cases neg <;> rfl
      · have hz' : (digitsVal 16 body == 0) = false := by simp [hz]
        have e5 : exp5Of 16 (body.length : Int) 10 0 = 0 := by
          unfold exp5Of; simp
        have e2 : exp2Of 16 (body.length : Int) 0 = 0 := by
          unfold exp2Of
          have : ¬ ((body.length : Int) < 0) := by omega
          simp [this]
        rw [hz', e5, e2]
        simp [numOf, denOf]
    rcases hsg with rfl | rfl | rfl
    · refine ⟨_, 1, (bigRatSetString_iff _ _ _).mpr ⟨[], _, [], 16, _, _, 10, 0, false, by simp, Or.inl ⟨Or.inl rfl, rfl⟩,
        hmant, Or.inl rfl, Or.inl ⟨rfl, rfl, rfl⟩, htail false⟩, ?_⟩
      simp
    · refine ⟨_, 1, (bigRatSetString_iff _ _ _).mpr ⟨['+'], _, [], 16, _, _, 10, 0, false, by simp, Or.inl ⟨Or.inr rfl, rfl⟩,
        hmant, Or.inl rfl, Or.inl ⟨rfl, rfl, rfl⟩, htail false⟩, ?_⟩
      simp
    · refine ⟨_, 1, (bigRatSetString_iff _ _ _).mpr ⟨['-'], _, [], 16, _, _, 10, 0, true, by simp, Or.inr ⟨rfl, rfl⟩,
        hmant, Or.inl rfl, Or.inl ⟨rfl, rfl, rfl⟩, htail true⟩, ?_⟩
      simp

/-- `Scan` with `%x` / `%X` of `sign ++ hexadecimal digits` (any case, any padding): the signed Horner value -/
theorem scan_parse_hex_body (verb : Char) (hv : verb = 'x' ∨ verb = 'X') (sg : List Char) (hsg : IsSign sg)
    (body : List Char) (hne : body ≠ []) (hall : ∀ c ∈ body, digitVal c < 16) :
    parseToBigInt (scanText (sg ++ body) verb) =
      some (if sg = ['-'] then -(digitsVal 16 body : Int) else (digitsVal 16 body : Int)) := by
  have hst : scanText (sg ++ body) verb = sg ++ ('0' :: 'x' :: body) := by
    rcases hv with rfl | rfl
    · rw [scanText_base 'x' ['0', 'x'] ['x', 'X'] (by decide) (by decide) sg body hsg 16 (by omega) hne hall
        (letters_ge _ _ (by decide))]
      simp
    · rw [scanText_base 'X' ['0', 'x'] ['x', 'X'] (by decide) (by decide) sg body hsg 16 (by omega) hne hall
        (letters_ge _ _ (by decide))]
      simp
  rw [hst]
  exact parse_hex_body sg hsg body hne hall

/-- lower-case rendering with any sign form and zero padding, every value -/
theorem scan_parse_hex_all (verb : Char) (hv : verb = 'x' ∨ verb = 'X') (sg : List Char) (hsg : IsSign sg) (k n : Nat) :
    parseToBigInt (scanText (sg ++ (zeros k ++ baseDigits 16 n)) verb) = some (if sg = ['-'] then -(n : Int) else (n : Int)) := by
  obtain ⟨hall, hne, hval⟩ := padded_facts 16 (by omega) (by omega) k n
  rw [scan_parse_hex_body verb hv sg hsg _ hne hall, hval]

/-- upper-case rendering (`%X`) with any sign form and zero padding, every value -/
theorem scan_parse_hexU_all (verb : Char) (hv : verb = 'x' ∨ verb = 'X') (sg : List Char) (hsg : IsSign sg) (k n : Nat) :
    parseToBigInt (scanText (sg ++ (zeros k ++ baseDigitsU 16 n)) verb) = some (if sg = ['-'] then -(n : Int) else (n : Int)) := by
  obtain ⟨hall, hne, hval⟩ := paddedU_facts 16 (by omega) (by omega) k n
  rw [scan_parse_hex_body verb hv sg hsg _ hne hall, hval]

end Conv
