import Model.U128Hw
import Lemmas.U128Knuth
import Lemmas.I128Div
/-! C01: the machine divisions of the division entry points never divide by zero (`Model/U128Hw.lean` against
    `Model/U128.lean`). -/
namespace U128

@[simp] theorem Out.bind_ok {α β : Type} (v : α) (f : α → Out β) : (Out.ok v).bind f = f v := rfl
@[simp] theorem Out.bind_hwdiv {α β : Type} (f : α → Out β) : (Out.hwdiv : Out α).bind f = .hwdiv := rfl
@[simp] theorem Out.bind_divzero {α β : Type} (f : α → Out β) : (Out.divzero : Out α).bind f = .divzero := rfl
@[simp] theorem Out.map_ok {α β : Type} (v : α) (f : α → β) : (Out.ok v).map f = .ok (f v) := rfl

theorem Out.ofRes_ite {α : Type} (c : Prop) [Decidable c] (a b : Res α) :
    Out.ofRes (if c then a else b) = if c then Out.ofRes a else Out.ofRes b := by
  split <;> rfl
@[simp] theorem Out.ofRes_ok {α : Type} (v : α) : Out.ofRes (Res.ok v) = Out.ok v := rfl
@[simp] theorem Out.ofRes_panic {α : Type} : Out.ofRes (Res.panic : Res α) = Out.divzero := rfl
theorem Out.ok_ite {α : Type} (c : Prop) [Decidable c] (a b : α) :
    (Out.ok (if c then a else b) : Out α) = if c then Out.ok a else Out.ok b := by
  split <;> rfl

theorem hwDiv_ok (x y : W) (h : y ≠ 0#64) : hwDiv x y = .ok (x / y) := by unfold hwDiv; rw [if_neg h]
theorem hwMod_ok (x y : W) (h : y ≠ 0#64) : hwMod x y = .ok (x % y) := by unfold hwMod; rw [if_neg h]

/-! ## the 128/64 kernel: its four machine divisions are by the top digit `vn1` of the shifted divisor -/

theorem by64C_ok (u : U128) (n : W) (s : Nat) (h : (n <<< s) >>> 32 ≠ 0#64) :
    divmod128by64C u n s = .ok (divmod128by64 u n s) := by
  unfold divmod128by64C divmod128by64
  simp only [hwDiv_ok _ _ h, hwMod_ok _ _ h, Out.bind_ok]

theorem by64C_hw (u : U128) (n : W) (s : Nat) (h : (n <<< s) >>> 32 = 0#64) :
    divmod128by64C u n s = .hwdiv := by
  unfold divmod128by64C
  simp only [hwDiv, h, if_true, Out.bind_hwdiv]

/-- shifted left by its leading-zero count, a non-zero word has a non-zero top digit (it is ≥ 2^31) -/
theorem vn1_ne (n : W) (hn : n ≠ 0#64) : (n <<< clz n) >>> 32 ≠ 0#64 := by
  obtain ⟨_, hlo, hhi⟩ := clz_bounds n hn
  intro e
  have h1 : ((n <<< clz n) >>> 32).toNat = 0 := by rw [e]; rfl
  rw [shr32, BitVec.toNat_shiftLeft, Nat.shiftLeft_eq, Nat.mod_eq_of_lt hhi] at h1
  omega

theorem vn1_top (v : W) (h : 2^63 ≤ v.toNat) : (v <<< 0) >>> 32 ≠ 0#64 := by
  intro e
  have h1 : ((v <<< 0) >>> 32).toNat = 0 := by rw [e]; rfl
  rw [shr32, BitVec.shiftLeft_zero] at h1
  omega

theorem w_ne_zero (n : W) : n ≠ 0#64 ↔ n.toNat ≠ 0 := by
  rw [ne_eq, w_eq_iff]; rfl

/-- the normalised divisor of the estimate branch has its top bit set -/
theorem leftShift_clz_hi (n : U128) (hh : n.hi ≠ 0#64) : 2^63 ≤ (leftShift n (clz n.hi)).hi.toNat := by
  obtain ⟨hs, hlo, hhi⟩ := clz_bounds n.hi hh
  have hhi' := clz_bounds' n.hi
  generalize clz n.hi = s at *
  have hp : 0 < 2^s := Nat.two_pow_pos s
  have hnd : n.toNat = n.hi.toNat * 2^64 + n.lo.toNat := rfl
  have hnl := n.lo.isLt
  have hV : (leftShift n s).toNat = n.toNat * 2^s := by
    rw [leftShift_toNat]; apply Nat.mod_eq_of_lt
    have h1 : n.toNat * 2^s < (n.hi.toNat + 1) * 2^64 * 2^s := Nat.mul_lt_mul_of_pos_right (by omega) hp
    have h2 : (n.hi.toNat + 1) * 2^64 * 2^s = (n.hi.toNat + 1) * 2^s * 2^64 := by ring
    have h3 : (n.hi.toNat + 1) * 2^s * 2^64 ≤ 2^64 * 2^64 := Nat.mul_le_mul_right _ hhi'
    omega
  have hVd : (leftShift n s).toNat = (leftShift n s).hi.toNat * 2^64 + (leftShift n s).lo.toNat := rfl
  have hVl := (leftShift n s).lo.isLt
  have hge : 2^63 * 2^64 ≤ n.toNat * 2^s := by
    have h1 : n.hi.toNat * 2^64 * 2^s ≤ n.toNat * 2^s := Nat.mul_le_mul_right _ (by omega)
    have h2 : n.hi.toNat * 2^64 * 2^s = n.hi.toNat * 2^s * 2^64 := by ring
    omega
  omega

/-- `divmod128by128`, called as the dispatch calls it, performs no machine division by zero -/
theorem by128C_ok (u n : U128) (h0 : ¬ (n.hi = 0#64 ∧ n.lo = 0#64)) :
    divmod128by128C u n (if n.hi = 0#64 then 64 else clz n.hi) (if n.hi = 0#64 then clz n.lo else 0) =
      .ok (divmod128by128 u n (if n.hi = 0#64 then 64 else clz n.hi) (if n.hi = 0#64 then clz n.lo else 0)) := by
  unfold divmod128by128C divmod128by128
  by_cases hh : n.hi = 0#64
  · have hlo : n.lo ≠ 0#64 := fun e => h0 ⟨hh, e⟩
    simp only [hh, if_true]
    by_cases hlt : u.hi.toNat < n.lo.toNat
    · simp only [hlt, if_true, by64C_ok _ _ _ (vn1_ne _ hlo), Out.bind_ok]
    · simp only [hlt, if_false, hwDiv_ok _ _ hlo, hwMod_ok _ _ hlo, by64C_ok _ _ _ (vn1_ne _ hlo), Out.bind_ok]
  · simp only [hh, if_false]
    rw [by64C_ok _ _ _ (vn1_top _ (leftShift_clz_hi n hh))]
    simp only [Out.bind_ok, Out.ok_ite]

/-- … while the kernel called WITHOUT the normalisation count divides by a zero digit: `5 / 1` with `nLeading0 = 0`
    (contrast: it is the leading-zero count passed by the callers that keeps `vn1` non-zero) -/
theorem by64C_unnormalised : divmod128by64C ⟨0#64, 5#64⟩ 1#64 0 = .hwdiv :=
  by64C_hw _ _ _ (by decide)

/-! ## the six unsigned entry points -/

theorem divModC_eq (u n : U128) : divModC u n = Out.ofRes (divMod u n) := by
  unfold divModC divMod
  by_cases h1 : n.hi = 0#64 ∧ n.lo = 0#64
  · rw [if_pos h1, if_pos h1]; rfl
  rw [if_neg h1, if_neg h1]
  unfold divModRest
  by_cases h2 : n.hi = 0#64 ∧ n.lo = 1#64
  · rw [if_pos h2, if_pos h2]; rfl
  rw [if_neg h2, if_neg h2]
  by_cases h3 : n.hi = 0#64 ∧ u.hi = 0#64
  · have hlo : n.lo ≠ 0#64 := fun e => h1 ⟨h3.1, e⟩
    rw [if_pos h3, if_pos h3, hwDiv_ok _ _ hlo, hwMod_ok _ _ hlo]; rfl
  rw [if_neg h3, if_neg h3]
  simp only [by128C_ok u n h1, Out.ofRes_ite, Out.ofRes_ok]

theorem divC_eq (u n : U128) : divC u n = Out.ofRes (div u n) := by
  unfold divC div
  by_cases h1 : n.hi = 0#64 ∧ n.lo = 0#64
  · rw [if_pos h1, if_pos h1]; rfl
  rw [if_neg h1, if_neg h1]
  unfold divRest
  by_cases h2 : n.hi = 0#64 ∧ n.lo = 1#64
  · rw [if_pos h2, if_pos h2]; rfl
  rw [if_neg h2, if_neg h2]
  by_cases h3 : n.hi = 0#64 ∧ u.hi = 0#64
  · have hlo : n.lo ≠ 0#64 := fun e => h1 ⟨h3.1, e⟩
    rw [if_pos h3, if_pos h3, hwDiv_ok _ _ hlo]; rfl
  rw [if_neg h3, if_neg h3]
  simp only [by128C_ok u n h1, Out.ofRes_ite, Out.ofRes_ok, Out.map_ok]

theorem modC_eq (u n : U128) : modC u n = Out.ofRes (mod u n) := by
  unfold modC mod
  by_cases h1 : n.hi = 0#64 ∧ n.lo = 0#64
  · rw [if_pos h1, if_pos h1]; rfl
  rw [if_neg h1, if_neg h1]
  unfold modRest
  by_cases h2 : n.hi = 0#64 ∧ n.lo = 1#64
  · rw [if_pos h2, if_pos h2]; rfl
  rw [if_neg h2, if_neg h2]
  by_cases h3 : n.hi = 0#64 ∧ u.hi = 0#64
  · have hlo : n.lo ≠ 0#64 := fun e => h1 ⟨h3.1, e⟩
    rw [if_pos h3, if_pos h3, hwMod_ok _ _ hlo]; rfl
  rw [if_neg h3, if_neg h3]
  simp only [by128C_ok u n h1, Out.ofRes_ite, Out.ofRes_ok, Out.map_ok]

theorem divModWC_eq (u : U128) (n : W) : divModWC u n = Out.ofRes (divModW u n) := by
  unfold divModWC divModW
  by_cases h1 : n = 0#64
  · rw [if_pos h1, if_pos h1]; rfl
  rw [if_neg h1, if_neg h1]
  unfold divModWRest
  by_cases h2 : n = 1#64
  · rw [if_pos h2, if_pos h2]; rfl
  rw [if_neg h2, if_neg h2]
  by_cases h3 : u.hi = 0#64
  · rw [if_pos h3, if_pos h3, hwDiv_ok _ _ h1, hwMod_ok _ _ h1]; rfl
  rw [if_neg h3, if_neg h3]
  simp only []
  split
  · rfl
  split
  · rfl
  split
  · rfl
  split
  · split
    · rw [by64C_ok _ _ _ (vn1_ne _ h1)]; rfl
    · rw [hwDiv_ok _ _ h1, hwMod_ok _ _ h1]
      simp only [Out.bind_ok]
      rw [by64C_ok _ _ _ (vn1_ne _ h1)]; rfl
  · rfl

theorem divWC_eq (u : U128) (n : W) : divWC u n = Out.ofRes (divW u n) := by
  unfold divWC divW
  by_cases h1 : n = 0#64
  · rw [if_pos h1, if_pos h1]; rfl
  rw [if_neg h1, if_neg h1]
  unfold divWRest
  by_cases h2 : n = 1#64
  · rw [if_pos h2, if_pos h2]; rfl
  rw [if_neg h2, if_neg h2]
  by_cases h3 : u.hi = 0#64
  · rw [if_pos h3, if_pos h3, hwDiv_ok _ _ h1]; rfl
  rw [if_neg h3, if_neg h3]
  simp only []
  split
  · rfl
  split
  · rfl
  split
  · rfl
  split
  · split
    · rw [by64C_ok _ _ _ (vn1_ne _ h1)]; rfl
    · rw [hwDiv_ok _ _ h1, hwMod_ok _ _ h1]
      simp only [Out.bind_ok]
      rw [by64C_ok _ _ _ (vn1_ne _ h1)]; rfl
  · rfl

theorem modWC_eq (u : U128) (n : W) : modWC u n = Out.ofRes (modW u n) := by
  unfold modWC modW
  by_cases h1 : n = 0#64
  · rw [if_pos h1, if_pos h1]; rfl
  rw [if_neg h1, if_neg h1]
  unfold modWRest
  by_cases h2 : n = 1#64
  · rw [if_pos h2, if_pos h2]; rfl
  rw [if_neg h2, if_neg h2]
  by_cases h3 : u.hi = 0#64
  · rw [if_pos h3, if_pos h3, hwMod_ok _ _ h1]; rfl
  rw [if_neg h3, if_neg h3]
  simp only []
  split
  · rfl
  split
  · rfl
  split
  · rfl
  split
  · by_cases hge : u.hi.toNat ≥ n.toNat
    · rw [if_pos hge, if_pos hge, hwMod_ok _ _ h1]
      simp only [Out.bind_ok]
      rw [by64C_ok _ _ _ (vn1_ne _ h1)]; rfl
    · rw [if_neg hge, if_neg hge, by64C_ok _ _ _ (vn1_ne _ h1)]; rfl
  · rfl

/-! ## what the code would do WITHOUT the explicit zero test (contrast) -/

/-- `DivMod64` without its `n == 0` test: a dividend below 2^64 reaches the machine division `u.lo / 0` -/
theorem divModWRest_zero_small (x : W) : divModWRest ⟨0#64, x⟩ 0#64 = .hwdiv := by
  unfold divModWRest
  rw [if_neg (by decide), if_pos rfl]
  rfl

/-- `DivMod` without its zero test, dividend below 2^64: the machine division `u.lo / n.lo` panics in the runtime -/
theorem divModRest_zero_small (x : W) : divModRest ⟨0#64, x⟩ ⟨0#64, 0#64⟩ = .hwdiv := by
  unfold divModRest
  rw [if_neg (by decide), if_pos ⟨rfl, rfl⟩]
  rfl

end U128

namespace I128
open U128 (W Out Res)

theorem divC_eq (i n : I128) : divC i n = Out.ofRes (div i n) := by
  unfold divC div
  simp only [U128.divC_eq]
  cases (U128.div _ _) <;> rfl

theorem divWC_eq (i : I128) (n : W) : divWC i n = Out.ofRes (divW i n) := by
  unfold divWC divW
  simp only [U128.divWC_eq]
  cases (U128.divW _ _) <;> rfl

theorem divModC_eq (i n : I128) : divModC i n = Out.ofRes (divMod i n) := by
  unfold divModC divMod
  simp only [U128.divModC_eq]
  cases (U128.divMod _ _) <;> rfl

theorem divModWC_eq (i : I128) (n : W) : divModWC i n = Out.ofRes (divModW i n) := divModC_eq i _

theorem modC_eq (i n : I128) : modC i n = Out.ofRes (mod i n) := by
  unfold modC mod
  rw [divModC_eq]
  cases (divMod i n) <;> rfl

theorem modWC_eq (i : I128) (n : W) : modWC i n = Out.ofRes (modW i n) := by
  unfold modWC modW
  rw [divModWC_eq]
  cases (divModW i n) <;> rfl

end I128

/-! ## the fuel of the fuelled correction loop is an artefact of the model: from 2 on it does not matter -/
namespace U128
theorem corrLoop_one (vn1 vn0 unx : W) (hv : 2^31 ≤ vn1.toNat) (hv2 : vn1.toNat < 2^32)
    (g : Nat) (q r l rt : W) (h1 : 2^31 ≤ r.toNat) (h3 : r.toNat < 2^32) :
    corrLoop vn1 vn0 unx (g+1) q r l rt = corrLoop vn1 vn0 unx 1 q r l rt := by
  have hb : bit32.toNat = 2^32 := by decide
  have hs : ¬ (r + vn1).toNat < bit32.toNat := by
    rw [BitVec.toNat_add, hb]; omega
  rw [corrLoop, corrLoop]
  simp only [hs, if_false]

/-- the fuel of the correction loop is irrelevant from 2 on -/
theorem corrLoop_fuel (vn1 vn0 unx q rhat left right : W) (hv : 2^31 ≤ vn1.toNat) (hv2 : vn1.toNat < 2^32)
    (hr : rhat.toNat < 2^32) (f : Nat) :
    corrLoop vn1 vn0 unx (f+2) q rhat left right = corrLoop vn1 vn0 unx 2 q rhat left right := by
  have hb : bit32.toNat = 2^32 := by decide
  rw [corrLoop, corrLoop.eq_def vn1 vn0 unx 2]
  simp only []
  by_cases hc : q.toNat ≥ bit32.toNat ∨ left.toNat > right.toNat
  · rw [if_pos hc, if_pos hc]
    by_cases hlt : (rhat + vn1).toNat < bit32.toNat
    · rw [if_pos hlt, if_pos hlt]
      have e : (rhat + vn1).toNat = rhat.toNat + vn1.toNat := by rw [BitVec.toNat_add]; omega
      rw [corrLoop_one vn1 vn0 unx hv hv2 f _ _ _ _ (by omega) (by omega)]
    · rw [if_neg hlt, if_neg hlt]
  · rw [if_neg hc, if_neg hc]

/-- the top digit of a divisor normalised by its own leading-zero count is a full 32-bit digit -/
theorem vn1_range (n : W) (hn : n ≠ 0#64) :
    2^31 ≤ ((n <<< clz n) >>> 32).toNat ∧ ((n <<< clz n) >>> 32).toNat < 2^32 := by
  obtain ⟨_, hlo, hhi⟩ := clz_bounds n hn
  rw [shr32, BitVec.toNat_shiftLeft, Nat.shiftLeft_eq, Nat.mod_eq_of_lt hhi]
  omega

theorem mod_lt32 (x v : W) (hv : 0 < v.toNat) (hv2 : v.toNat < 2^32) : (x % v).toNat < 2^32 := by
  rw [BitVec.toNat_umod]; have := Nat.mod_lt x.toNat hv; omega

end U128
