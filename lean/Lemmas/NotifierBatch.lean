import Lemmas.NotifierWorld
/-! C17: "most specific match" reading of `best`, batch nesting over histories, normalisation round trip. -/
namespace Nt

/-! ### most specific match -/
theorem best_none (prod : PMap) (t : Nat) (pres : List Name) (h : best prod t pres = none) :
    ∀ q ∈ pres, lookup prod q t = none := by
  intro q hq
  cases hl : lookup prod q t with
  | none => rfl
  | some v =>
    have := (best_some_iff prod t pres).mpr ⟨q, hq, by simp [hl]⟩
    rw [h] at this; cases this

theorem best_eq_some (prod : PMap) (t : Nat) (pres : List Name) (p : Int) (h : best prod t pres = some p) :
    ∃ l1 pre l2, pres = l1 ++ pre :: l2 ∧ lookup prod pre t = some p ∧ ∀ q ∈ l2, lookup prod q t = none := by
  induction pres with
  | nil => simp [best] at h
  | cons a pres ih =>
    simp only [best] at h
    cases hb : best prod t pres with
    | some p' =>
      rw [hb] at h; simp only [Option.some_or, Option.some.injEq] at h; subst h
      obtain ⟨l1, pre, l2, e, h1, h2⟩ := ih hb
      exact ⟨a :: l1, pre, l2, by rw [e]; rfl, h1, h2⟩
    | none =>
      rw [hb] at h; simp only [Option.none_or] at h
      exact ⟨[], a, pres, rfl, h, best_none prod t pres hb⟩

theorem prefixes_sorted (n : Name) : (prefixes n).Pairwise (fun a b => a.length < b.length) := by
  unfold prefixes
  rw [List.pairwise_map]
  have h := List.pairwise_lt_range (n := n.length)
  refine h.imp_of_mem ?_
  intro a b ha hb hab
  simp only [List.mem_range] at ha hb
  simp only [List.length_take]
  omega

/-- the priority in the table is the one registered under the most specific matching name -/
theorem best_prefixes_spec (prod : PMap) (t : Nat) (n : Name) (p : Int) (h : best prod t (prefixes n) = some p) :
    ∃ pre, pre ≠ [] ∧ pre <+: n ∧ lookup prod pre t = some p ∧
      ∀ pre', pre' <+: n → pre.length < pre'.length → lookup prod pre' t = none := by
  obtain ⟨l1, pre, l2, e, h1, h2⟩ := best_eq_some prod t _ p h
  have hmem : pre ∈ prefixes n := by rw [e]; simp
  have hp := (mem_prefixes n pre).mp hmem
  refine ⟨pre, hp.1, hp.2, h1, ?_⟩
  intro pre' hpre' hlen
  have hne : pre' ≠ [] := by intro e'; subst e'; simp at hlen
  have hm' : pre' ∈ prefixes n := (mem_prefixes n pre').mpr ⟨hne, hpre'⟩
  have hs := prefixes_sorted n
  rw [e] at hm' hs
  rw [List.pairwise_append] at hs
  rcases List.mem_append.mp hm' with hin | hin
  · have := hs.2.2 pre' hin pre (by simp)
    omega
  · rcases List.mem_cons.mp hin with e' | hin
    · subst e'; omega
    · exact h2 pre' hin

/-! ### batches -/
/-- no `BatchMode` call of notifier `n` among the events -/
def NoBatchEvents (n : Nat) (evs : List Event) : Prop := ∀ e ∈ evs, ∀ t b, e ≠ Event.batchMode n t b

theorem noBatch_deliverAll (pan : Nat → Bool) (i n : Nat) (name : Name) (ds : List (Int × Nat)) :
    NoBatchEvents n (deliverAll pan i name ds) := by
  intro e he t b
  unfold deliverAll at he
  rw [List.mem_flatMap] at he
  obtain ⟨d, _, hd⟩ := he
  unfold notifyTarget at hd
  split at hd <;> simp at hd <;> rcases hd with rfl | rfl <;> simp
  
theorem noBatch_batchAll_other (pan : Nat → Bool) (i n : Nat) (hin : i ≠ n) (b : Bool) (ts : List Nat) :
    NoBatchEvents n (batchAll pan i b ts) := by
  intro e he t b'
  unfold batchAll at he
  rw [List.mem_flatMap] at he
  obtain ⟨d, _, hd⟩ := he
  unfold notifyBatchTarget at hd
  split at hd <;> simp at hd
  · rcases hd with rfl | rfl
    · intro e'; injection e' with e1; exact hin e1
    · simp
  · subst hd; intro e'; injection e' with e1; exact hin e1

theorem noBatch_append (n : Nat) (a b : List Event) (ha : NoBatchEvents n a) (hb : NoBatchEvents n b) :
    NoBatchEvents n (a ++ b) := by
  intro e he
  rcases List.mem_append.mp he with h | h
  · exact ha e h
  · exact hb e h

/-- enabled flag, level and current batch are untouched -/
def Frame (s s' : NSt) : Prop := s'.enabled = s.enabled ∧ s'.level = s.level ∧ s'.current = s.current

theorem frame_register (s : NSt) (t : Nat) (p : Int) (raws : List (List Nat)) : Frame s (register s t p raws) := by
  unfold register Frame
  by_cases hns : normNames raws = []
  · simp [hns]
  · simp only [hns, if_false]
    obtain ⟨_, r2, r3, r4⟩ := regLoop_rest (normNames raws) (if batchCapable t = true then { s with batch := setIns s.batch t } else s) t p
    rw [r2, r3, r4]
    split <;> simp

theorem frame_unregister (s : NSt) (t : Nat) : Frame s (unregister s t) := by
  unfold unregister Frame
  split <;> simp

theorem frame_mergeFrom (s o : NSt) : Frame s (mergeFrom s o) := by simp [mergeFrom, Frame]

/-- `mid` is a well-nested sequence for notifier `n` when read at relative depth `d`: every `EndBatch` of `n` has an
    earlier unmatched `StartBatch` inside `mid`, all are matched at the end, and `n` is neither reset nor re-enabled /
    disabled in between -/
def matched (n : Nat) : Nat → List Op → Bool
  | d, [] => d == 0
  | d, .startBatch i :: ops => if i = n then matched n (d + 1) ops else matched n d ops
  | d, .endBatch i :: ops => if i = n then (decide (0 < d) && matched n (d - 1) ops) else matched n d ops
  | d, .reset i :: ops => decide (i ≠ n) && matched n d ops
  | d, .setEnabled i _ :: ops => decide (i ≠ n) && matched n d ops
  | d, _ :: ops => matched n d ops

theorem nest_inner (pan : Nat → Bool) (n : Nat) (mid : List Op) (w : World) (d : Nat) (c : List Nat)
    (he : (w n).enabled = true) (hl : (w n).level = d + 1) (hc : (w n).current = c) (hm : matched n d mid = true) :
    ((runFrom pan w mid).1 n).enabled = true ∧ ((runFrom pan w mid).1 n).level = 1 ∧
    ((runFrom pan w mid).1 n).current = c ∧ NoBatchEvents n (runFrom pan w mid).2 := by
  induction mid generalizing w d with
  | nil =>
    simp only [matched, beq_iff_eq] at hm
    subst hm
    exact ⟨he, hl, hc, by intro e h; cases h⟩
  | cons op ops ih =>
    simp only [runFrom]
    rw [step_spec]
    -- a step that keeps the frame of notifier n and emits no batch event of n
    have keep : ∀ (w' : World) (evs : List Event), Frame (w n) (w' n) → NoBatchEvents n evs → matched n d ops = true →
        ((runFrom pan w' ops).1 n).enabled = true ∧ ((runFrom pan w' ops).1 n).level = 1 ∧
        ((runFrom pan w' ops).1 n).current = c ∧ NoBatchEvents n (evs ++ (runFrom pan w' ops).2) := by
      intro w' evs hf hn hm'
      obtain ⟨a, b, c', e⟩ := ih w' d (by rw [hf.1]; exact he) (by rw [hf.2.1]; exact hl) (by rw [hf.2.2]; exact hc) hm'
      exact ⟨a, b, c', noBatch_append n _ _ hn e⟩
    have nil_ok : NoBatchEvents n [] := by intro e h; cases h
    have frame_set : ∀ (i : Nat) (s : NSt), (i = n → Frame (w n) s) → Frame (w n) ((w.set i s) n) := by
      intro i s hs
      unfold World.set
      split
      · rename_i h; exact hs h.symm
      · exact ⟨rfl, rfl, rfl⟩
    cases op with
    | register i t p raws =>
      exact keep _ _ (frame_set i _ (fun e => e ▸ frame_register _ _ _ _)) nil_ok (by simpa [matched] using hm)
    | unregister i t =>
      exact keep _ _ (frame_set i _ (fun e => e ▸ frame_unregister _ _)) nil_ok (by simpa [matched] using hm)
    | merge i m =>
      simp only [stepSpec]
      split
      · exact keep _ _ ⟨rfl, rfl, rfl⟩ nil_ok (by simpa [matched] using hm)
      · exact keep _ _ (frame_set i _ (fun e => e ▸ frame_mergeFrom _ _)) nil_ok (by simpa [matched] using hm)
    | notify i raw =>
      exact keep _ _ ⟨rfl, rfl, rfl⟩ (noBatch_deliverAll _ _ _ _ _) (by simpa [matched] using hm)
    | setEnabled i b =>
      simp only [matched, Bool.and_eq_true, decide_eq_true_eq] at hm
      exact keep _ _ (frame_set i _ (fun e => absurd e hm.1)) nil_ok hm.2
    | reset i =>
      simp only [matched, Bool.and_eq_true, decide_eq_true_eq] at hm
      exact keep _ _ (frame_set i _ (fun e => absurd e hm.1)) nil_ok hm.2
    | startBatch i =>
      simp only [matched] at hm
      by_cases hi : i = n
      · subst hi
        simp only [if_true] at hm
        have hs : startBatch (w i) = ({ (w i) with level := d + 2 }, []) := by
          unfold startBatch; simp [he, hl]
        simp only [stepSpec, hs]
        have := ih (w.set i { (w i) with level := d + 2 }) (d + 1) (by simp [World.set, he]) (by simp [World.set])
          (by simp [World.set, hc]) hm
        simpa [batchAll] using this
      · simp only [hi, if_false] at hm
        exact keep _ _ (frame_set i _ (fun e => absurd e hi)) (noBatch_batchAll_other _ _ _ hi _ _) hm
    | endBatch i =>
      simp only [matched] at hm
      by_cases hi : i = n
      · subst hi
        simp only [if_true, Bool.and_eq_true, decide_eq_true_eq] at hm
        obtain ⟨hd, hm⟩ := hm
        have hs : endBatch (w i) = ({ (w i) with level := d }, []) := by
          unfold endBatch
          have : ¬ d = 0 := by omega
          simp [he, hl, this]
        simp only [stepSpec, hs]
        have := ih (w.set i { (w i) with level := d }) (d - 1) (by simp [World.set, he]) (by simp [World.set]; omega)
          (by simp [World.set, hc]) hm
        simpa [batchAll] using this
      · simp only [hi, if_false] at hm
        exact keep _ _ (frame_set i _ (fun e => absurd e hi)) (noBatch_batchAll_other _ _ _ hi _ _) hm

/-- **nesting**: from an idle enabled notifier, `StartBatch; mid; EndBatch` with `mid` well nested sends
    `BatchMode(true)` to the batch targets at the outermost start, nothing in between, and `BatchMode(false)` to the
    same list at the matching end -/
theorem nest_outer (pan : Nat → Bool) (w : World) (hw : WInv w) (n : Nat) (mid : List Op)
    (he : (w n).enabled = true) (hl : (w n).level = 0) (hm : matched n 0 mid = true) :
    (step pan w (.startBatch n)).2 = batchAll pan n true (w n).batch ∧
    NoBatchEvents n (runFrom pan (step pan w (.startBatch n)).1 mid).2 ∧
    (step pan (runFrom pan (step pan w (.startBatch n)).1 mid).1 (.endBatch n)).2 = batchAll pan n false (w n).batch ∧
    ((step pan (runFrom pan (step pan w (.startBatch n)).1 mid).1 (.endBatch n)).1 n).level = 0 := by
  have hidle := (hw n).idle hl
  have hs : (startBatch (w n)).2 = (w n).batch ∧ (startBatch (w n)).1.enabled = true ∧
      (startBatch (w n)).1.level = 1 ∧ (startBatch (w n)).1.current = (w n).batch := by
    unfold startBatch
    by_cases hb : (w n).batch = []
    · simp [he, hl, hb, hidle]
    · simp [he, hl, hb]
  obtain ⟨s1, s2, s3, s4⟩ := hs
  have hin := nest_inner pan n mid ((w.set n (startBatch (w n)).1)) 0 (w n).batch
    (by simp [World.set, s2]) (by simp [World.set, s3]) (by simp [World.set, s4]) hm
  obtain ⟨i1, i2, i3, i4⟩ := hin
  simp only [step_spec]
  refine ⟨by simp [stepSpec, s1], by simpa [stepSpec] using i4, ?_, ?_⟩
  · simp only [stepSpec] at i1 i2 i3 ⊢
    have : (endBatch ((runFrom pan (w.set n (startBatch (w n)).1) mid).1 n)).2 = (w n).batch := by
      unfold endBatch; simp [i1, i2, i3]
    rw [this]
  · simp only [stepSpec] at i1 i2 i3 ⊢
    unfold endBatch; simp [i1, i2, World.set]

/-! ### normalisation -/
theorem splitDots_ne_nil (l : List Nat) : splitDots l ≠ [] := by
  induction l with
  | nil => simp [splitDots]
  | cons c cs ih =>
    unfold splitDots
    split
    · simp
    · split <;> simp

theorem splitDots_nodot (seg : List Nat) (h : 46 ∉ seg) : splitDots seg = [seg] := by
  induction seg with
  | nil => rfl
  | cons c cs ih =>
    have hc : c ≠ 46 := by intro e; apply h; simp [e]
    have hcs : 46 ∉ cs := by intro e; apply h; simp [e]
    unfold splitDots
    simp [hc, ih hcs]

theorem splitDots_append_dot (seg rest : List Nat) (h : 46 ∉ seg) :
    splitDots (seg ++ 46 :: rest) = seg :: splitDots rest := by
  induction seg with
  | nil => simp [splitDots]
  | cons c cs ih =>
    have hc : c ≠ 46 := by intro e; apply h; simp [e]
    have hcs : 46 ∉ cs := by intro e; apply h; simp [e]
    simp only [List.cons_append]
    rw [splitDots]
    simp [hc, ih hcs]

/-- every segment produced by `strings.Split` is free of dots -/
theorem splitDots_segments (l : List Nat) : ∀ seg ∈ splitDots l, 46 ∉ seg := by
  induction l with
  | nil => simp [splitDots]
  | cons c cs ih =>
    unfold splitDots
    split
    · intro seg hs
      rcases List.mem_cons.mp hs with e | e
      · subst e; simp
      · exact ih seg e
    · rename_i hc
      split
      · intro seg hs; simp at hs; subst hs; simp; exact fun e => hc e.symm
      · rename_i s ss hsp
        intro seg hs
        rcases List.mem_cons.mp hs with e | e
        · subst e
          have := ih s (by rw [hsp]; simp)
          simp only [List.mem_cons, not_or]; exact ⟨fun e => hc e.symm, this⟩
        · exact ih seg (by rw [hsp]; simp [e])

/-- the segments of a normalised name are non-empty and free of dots -/
theorem normalize_segments (raw : List Nat) : ∀ seg ∈ normalize raw, seg ≠ [] ∧ 46 ∉ seg := by
  intro seg hs
  unfold normalize at hs
  rw [List.mem_filter] at hs
  exact ⟨by simpa using hs.2, splitDots_segments raw seg hs.1⟩

theorem split_join (ns : Name) (h : ∀ seg ∈ ns, seg ≠ [] ∧ 46 ∉ seg) (hne : ns ≠ []) : splitDots (joinDots ns) = ns := by
  induction ns with
  | nil => exact absurd rfl hne
  | cons s ss ih =>
    cases ss with
    | nil => simp only [joinDots]; exact splitDots_nodot s (h s (by simp)).2
    | cons s' ss' =>
      simp only [joinDots]
      rw [splitDots_append_dot _ _ (h s (by simp)).2]
      rw [ih (fun seg hs => h seg (List.mem_cons_of_mem _ hs)) (by simp)]

/-- `strings.Split(normalizeName(name), ".")` gives back the segments the normalised name was built from
    (so keying the maps by segment lists instead of the joined strings loses nothing) -/
theorem normalize_join (raw : List Nat) : normalize (joinDots (normalize raw)) = normalize raw := by
  by_cases hne : normalize raw = []
  · rw [hne]; rfl
  · have : normalize (joinDots (normalize raw)) = (splitDots (joinDots (normalize raw))).filter (fun s => s ≠ []) := rfl
    rw [this, split_join _ (normalize_segments raw) hne]
    apply List.filter_eq_self.mpr
    intro seg hs
    simpa using (normalize_segments raw seg hs).1

end Nt
