import Lemmas.EvalFull
import Lemmas.EvalVars
import Model.EvalFixed
/-! C09, values of the fixed evaluator: `EvalFixed.evaluate` on the rendering of a well-formed expression is the value
    of the expression TREE, each node applying the operation of `Model/Fixed.lean` / `Model/FixedText.lean`
    (`X.val`).  Composition of `X.parse_render` (Lemmas/EvalFull.lean) with a mutual induction over expressions and
    argument lists.  Core only. -/
namespace EvalFixed
open Eval

def VR.bind {α β : Type} : VR α → (α → VR β) → VR β
  | .ok a, f => f a
  | .err, _ => .err
  | .panic, _ => .panic
  | .outside, _ => .outside

def VR.some {α : Type} : VR α → VR (Option α)
  | .ok a => .ok (Option.some a)
  | .err => .err
  | .panic => .panic
  | .outside => .outside

/-! ### the value of a call from the values of its arguments -/

/-- one numeric argument -/
def one (c : Cfg) (f : Int → VR Val) : List (VR Val) → VR Val
  | [v] => (v.bind (fixedFrom c)).bind f
  | _ => .outside                       -- (another number of arguments: not a well-formed call of this function)

/-- `max` / `min`: the arguments in order, each converted with `FixedFrom` -/
def foldV (c : Cfg) (step : Int → Int → Int) : Int → List (VR Val) → VR Val
  | acc, [] => .ok (.num acc)
  | acc, v :: t => (v.bind (fixedFrom c)).bind fun x => foldV c step (step acc x) t

/-- `if(cond, a, b)`: only the branch that is taken is looked at -/
def ifV (c : Cfg) : List (VR Val) → VR Val
  | [cnd, a, b] =>
    cnd.bind fun ev =>
      match fixedFrom c ev with
      | .ok value => if value = 0 then b else a
      | .panic => .panic
      | .outside => .outside
      | .err =>
        match ev with
        | .str s => if s ≠ [] ∧ equalFoldFalse s = false then a else b
        | _ => .err
  | _ => .outside

/-- a standard function applied to the values of its arguments -/
def callV (c : Cfg) (name : Bytes) (vs : List (VR Val)) : VR Val :=
  if name = symBytes "abs" then one c (fun x => .ok (.num (Fixed.F64.abs x))) vs
  else if name = symBytes "ceil" then one c (fun x => .ok (.num (Fixed.F64.ceil c.mult x))) vs
  else if name = symBytes "floor" then one c (fun x => .ok (.num (floorV c x))) vs
  else if name = symBytes "round" then one c (fun x => .ok (.num (Fixed.F64.round c.mult x))) vs
  else if name = symBytes "max" then foldV c (fun acc x => Fixed.F64.max acc x) Fixed.F64.minRaw vs
  else if name = symBytes "min" then foldV c (fun acc x => Fixed.F64.min acc x) Fixed.F64.maxRaw vs
  else if name = symBytes "if" then ifV c vs
  else if name = symBytes "sqrt" ∨ name = symBytes "cbrt" ∨ name = symBytes "exp" ∨ name = symBytes "exp2" ∨
          name = symBytes "log" ∨ name = symBytes "log10" ∨ name = symBytes "log1p" then
    one c (fun _ => .outside) vs
  else .outside

end EvalFixed

namespace Eval
open EvalFixed

mutual
/-- **the value of the expression tree** with the fixed-point arithmetic of `Model/Fixed.lean`: an atom is its text
    (with its sign applied), a binary node applies its operator to the values of its operands (left first), a sign
    applies to its operand only, a call applies the function to the values of its arguments -/
def X.val (c : Cfg) : X → VR Val
  | .atom u x => EvalFixed.applyUn c u (.str x)
  | .call u f _ args => (callV c f (args.vals c)).bind (EvalFixed.applyUn c u)
  | .bin o l r => (l.val c).bind fun a => (r.val c).bind fun b => binary c o.sym a b
  | .paren none e => e.val c
  | .paren (some v) e => (e.val c).bind (unary c v.sym)
def XL.vals (c : Cfg) : XL → List (VR Val)
  | .nil => []
  | .cons a _ t => a.val c :: t.vals c
end

def XL.length : XL → Nat
  | .nil => 0
  | .cons _ _ t => t.length + 1

mutual
/-- calls have the number of arguments of their function: one for abs/ceil/floor/round and the float functions,
    three for `if`, any number for max/min -/
def X.Ar : X → Prop
  | .atom _ _ => True
  | .call _ f _ args =>
    ((f = symBytes "abs" ∨ f = symBytes "ceil" ∨ f = symBytes "floor" ∨ f = symBytes "round" ∨ f = symBytes "sqrt" ∨
      f = symBytes "cbrt" ∨ f = symBytes "exp" ∨ f = symBytes "exp2" ∨ f = symBytes "log" ∨ f = symBytes "log10" ∨
      f = symBytes "log1p") → args.length = 1) ∧
    (f = symBytes "if" → args.length = 3) ∧ args.Ar
  | .bin _ l r => l.Ar ∧ r.Ar
  | .paren _ e => e.Ar
def XL.Ar : XL → Prop
  | .nil => True
  | .cons a _ t => a.Ar ∧ t.Ar
end

theorem vr_some_bind {α : Type} (v : VR α) : v.bind (fun a => VR.ok (some a)) = v.some := by
  cases v <;> rfl

/-- what the induction needs of the first argument of a list: a nested `Evaluate` of its text yields its value, and
    `NextArg` cuts it off -/
theorem XL.head_facts (c : Cfg) (ops : List Op) (fns : List Bytes) (resolve : Option (Bytes → Bytes)) (lp rp : Op)
    (hF : FullTable ops lp rp) (a : X) (w : Nat → Bytes) (t : XL) (ha : a.WF ops fns lp.prec) (hwb : ∀ k, Blank (w k))
    (hea : a.Ev) (d : Nat)
    (hval : EvalFixed.evalNode c (EvalFixed.evaluate c ops fns resolve d) (replaceVariables resolve) (a.toE lp rp).toTree =
      (a.val c).some) :
    EvalFixed.evaluate c ops fns resolve (d + 1) (render w 0 ((a.toE lp rp).toks lp rp)) = a.val c ∧
    nextArg (joinComma (render w 0 ((a.toE lp rp).toks lp rp) :: t.texts lp rp)) =
      (render w 0 ((a.toE lp rp).toks lp rp), joinComma (t.texts lp rp)) ∧
    render w 0 ((a.toE lp rp).toks lp rp) ≠ [] := by
  have h1 := X.toE_ok ops fns lp rp hF a ha
  have h2 := X.toE_txt ops fns lp rp hF a ha hea
  have hta := txt_render ops fns lp rp hF w hwb _ h1.1 h1.2 h2 0
  have hne : render w 0 ((a.toE lp rp).toks lp rp) ≠ [] := by
    have := render_ne ops fns hF.ne lp rp hF.lpS w _ h1.2 0 []
    simpa using this
  refine ⟨?_, nextArg_joinComma _ (t.texts lp rp) hta.2.1, hne⟩
  simp only [EvalFixed.evaluate,
    parseTop_render ops fns hF.toLexTable lp rp hF.lpM hF.rpM hF.toParenTable _ h1.1 h1.2 w hwb, hval]
  cases a.val c <;> rfl


theorem fn1_eq (c : Cfg) (ev : Bytes → VR Val) (g : Int → VR Val) (args : Bytes) :
    fn1 c ev g args = ((ev args).bind (fixedFrom c)).bind g := by
  unfold fn1 evalToFixed
  cases ev args with
  | ok v => simp only [VR.bind]; cases fixedFrom c v <;> rfl
  | err => rfl
  | panic => rfl
  | outside => rfl

theorem evalToFixed_eq (c : Cfg) (ev : Bytes → VR Val) (arg : Bytes) :
    evalToFixed c ev arg = (ev arg).bind (fixedFrom c) := by
  unfold evalToFixed
  cases ev arg <;> rfl

mutual
/-- evaluating the tree of an expression with the fixed evaluator's operators and functions (nested calls through
    `EvaluateNew` = `EvalFixed.evaluate … depth`) gives the value of the tree -/
theorem X.fx_eval_tree (c : Cfg) (hc : Fixed.F64.inc c.mult 0 ≠ 0) (ops : List Op) (fns : List Bytes)
    (resolve : Option (Bytes → Bytes)) (lp rp : Op) (hF : FullTable ops lp rp) :
    ∀ e : X, e.WF ops fns lp.prec → e.Ev → e.Ar → ∀ depth, e.cd ≤ depth →
      EvalFixed.evalNode c (EvalFixed.evaluate c ops fns resolve depth) (replaceVariables resolve) (e.toE lp rp).toTree =
        (e.val c).some
  | .atom u x, _, he, _, depth, _ => by
    simp only [X.Ev] at he
    simp only [X.toE, E.toTree, EvalFixed.evalNode, replaceVariables_id resolve x he.2, X.val]
    cases EvalFixed.applyUn c u (Val.str x) <;> rfl
  | .call u f b args, hw, he, har, depth, hd => by
    simp only [X.WF] at hw
    simp only [X.Ev] at he
    simp only [X.Ar] at har
    cases depth with
    | zero => simp [X.cd] at hd
    | succ d =>
      have hd' : args.cd ≤ d := by simp only [X.cd] at hd; omega
      have htxt := XL.texts_txt ops fns lp rp hF args hw.2.2.2.2 he.2.2
      have hcall : EvalFixed.call c (EvalFixed.evaluate c ops fns resolve (d + 1)) f (joinComma (args.texts lp rp)) =
          callV c f (args.vals c) :=
        XL.fx_call c hc ops fns resolve lp rp hF f args hw.2.2.2.2 he.2.2 har.2.2 har.1 har.2.1 d hd'
      simp only [X.toE, E.toTree, EvalFixed.evalNode, replaceVariables_id resolve _ htxt.2.2, hcall, X.val]
      cases callV c f (args.vals c) with
      | ok v => simp only [VR.bind]; cases EvalFixed.applyUn c u v <;> rfl
      | err => rfl
      | panic => rfl
      | outside => rfl
  | .bin o l r, hw, he, har, depth, hd => by
    simp only [X.WF] at hw
    simp only [X.Ev] at he
    simp only [X.Ar] at har
    have hdl : l.cd ≤ depth := by simp only [X.cd] at hd; omega
    have hdr : r.cd ≤ depth := by simp only [X.cd] at hd; omega
    have h1 := X.fx_eval_tree c hc ops fns resolve lp rp hF l hw.2.2.2.2.1 he.2.1 har.1 depth hdl
    have h2 := X.fx_eval_tree c hc ops fns resolve lp rp hF r hw.2.2.2.2.2.1 he.2.2 har.2 depth hdr
    simp only [X.toE, E.toTree, EvalFixed.evalNode, h1, h2, X.toTree_isNil, X.val]
    cases l.val c with
    | ok a =>
      cases r.val c with
      | ok b2 =>
        simp only [VR.some, VR.bind, he.1, Bool.not_false, Bool.and_self, if_true, Bool.not_true, Bool.false_eq_true,
          if_false]
        cases binary c o.sym a b2 <;> simp [VR.some, EvalFixed.applyUn]
      | err => rfl
      | panic => rfl
      | outside => rfl
    | err => rfl
    | panic => rfl
    | outside => rfl
  | .paren u e, hw, he, har, depth, hd => by
    simp only [X.WF] at hw
    simp only [X.Ev] at he
    simp only [X.Ar] at har
    have h1 := X.fx_eval_tree c hc ops fns resolve lp rp hF e hw.2 he har depth (by simpa only [X.cd] using hd)
    cases u with
    | none => simpa [X.toE, E.toTree, wrapN, X.val] using h1
    | some v =>
      have hv : v.un = true := (hw.1 v rfl).2
      simp only [X.toE, E.toTree, wrapN, EvalFixed.evalNode, h1, X.val]
      cases e.val c with
      | ok a =>
        simp only [VR.some, VR.bind, X.toTree_isNil, Node.isNil, Option.filter, hv, Bool.not_false, Bool.not_true,
          Bool.and_false, Bool.false_eq_true, if_false, if_true]
        cases unary c v.sym a <;> rfl
      | err => rfl
      | panic => rfl
      | outside => rfl
/-- the loop of `max` / `min` over the argument text = the fold over the argument values -/
theorem XL.fx_fold (c : Cfg) (hc : Fixed.F64.inc c.mult 0 ≠ 0) (ops : List Op) (fns : List Bytes)
    (resolve : Option (Bytes → Bytes)) (lp rp : Op) (hF : FullTable ops lp rp) (step : Int → Int → Int) :
    ∀ l : XL, l.WF ops fns lp.prec → l.Ev → l.Ar → ∀ d, l.cd ≤ d → ∀ acc fuel, (joinComma (l.texts lp rp)).length < fuel →
      foldArgs c (EvalFixed.evaluate c ops fns resolve (d + 1)) step fuel acc (joinComma (l.texts lp rp)) =
        foldV c step acc (l.vals c)
  | .nil, _, _, _, d, _, acc, fuel, hf => by
    cases fuel with
    | zero => omega
    | succ f => simp [foldArgs, XL.texts, joinComma, XL.vals, foldV]
  | .cons a w t, hw, he, har, d, hd, acc, fuel, hf => by
    simp only [XL.WF] at hw
    simp only [XL.Ev] at he
    simp only [XL.Ar] at har
    obtain ⟨ha, hwb, ht⟩ := hw
    have hda : a.cd ≤ d := by simp only [XL.cd] at hd; omega
    have hdt : t.cd ≤ d := by simp only [XL.cd] at hd; omega
    obtain ⟨hev, hsplit, hne⟩ := XL.head_facts c ops fns resolve lp rp hF a w t ha hwb he.1 d
      (X.fx_eval_tree c hc ops fns resolve lp rp hF a ha he.1 har.1 d hda)
    have hlen := joinComma_length _ (t.texts lp rp) hne
    cases fuel with
    | zero => omega
    | succ f =>
      simp only [XL.texts] at hf ⊢
      have hne2 : joinComma (render w 0 ((a.toE lp rp).toks lp rp) :: t.texts lp rp) ≠ [] := by
        intro h; rw [h] at hlen; simp at hlen
      simp only [foldArgs, hne2, if_false, hsplit, evalToFixed_eq, hev, XL.vals, foldV]
      cases (a.val c).bind (fixedFrom c) with
      | ok x =>
        simp only [VR.bind]
        exact XL.fx_fold c hc ops fns resolve lp rp hF step t ht he.2 har.2 d hdt (step acc x) f (by omega)
      | err => rfl
      | panic => rfl
      | outside => rfl
/-- a standard function on the argument text of a rendered call = the function on the argument values -/
theorem XL.fx_call (c : Cfg) (hc : Fixed.F64.inc c.mult 0 ≠ 0) (ops : List Op) (fns : List Bytes)
    (resolve : Option (Bytes → Bytes)) (lp rp : Op) (hF : FullTable ops lp rp) (f : Bytes) :
    ∀ l : XL, l.WF ops fns lp.prec → l.Ev → l.Ar →
      ((f = symBytes "abs" ∨ f = symBytes "ceil" ∨ f = symBytes "floor" ∨ f = symBytes "round" ∨ f = symBytes "sqrt" ∨
        f = symBytes "cbrt" ∨ f = symBytes "exp" ∨ f = symBytes "exp2" ∨ f = symBytes "log" ∨ f = symBytes "log10" ∨
        f = symBytes "log1p") → l.length = 1) →
      (f = symBytes "if" → l.length = 3) → ∀ d, l.cd ≤ d →
      EvalFixed.call c (EvalFixed.evaluate c ops fns resolve (d + 1)) f (joinComma (l.texts lp rp)) = callV c f (l.vals c)
  | l, hw, he, har, h1, h3, d, hd => by
    -- one-argument functions
    have hone : ∀ g : Int → VR Val, l.length = 1 →
        fn1 c (EvalFixed.evaluate c ops fns resolve (d + 1)) g (joinComma (l.texts lp rp)) = one c g (l.vals c) := by
      intro g hl
      match l, hw, he, har, hd, hl with
      | .cons a w .nil, hw, he, har, hd, _ =>
        simp only [XL.WF] at hw
        simp only [XL.Ev] at he
        simp only [XL.Ar] at har
        have hda : a.cd ≤ d := by simp only [XL.cd] at hd; omega
        obtain ⟨hev, _, _⟩ := XL.head_facts c ops fns resolve lp rp hF a w .nil hw.1 hw.2.1 he.1 d
          (X.fx_eval_tree c hc ops fns resolve lp rp hF a hw.1 he.1 har.1 d hda)
        simp only [XL.texts, joinComma, fn1_eq, hev, XL.vals, one]
      | .nil, _, _, _, _, hl => simp [XL.length] at hl
      | .cons _ _ (.cons _ _ _), _, _, _, _, hl => simp [XL.length] at hl
    unfold EvalFixed.call callV
    by_cases e1 : f = symBytes "abs"
    · simp only [e1, if_true]; exact hone _ (h1 (by simp [e1]))
    by_cases e2 : f = symBytes "ceil"
    · simp only [e1, e2, if_true, if_false]; exact hone _ (h1 (by simp [e2]))
    by_cases e3 : f = symBytes "floor"
    · simp only [e1, e2, e3, if_true, if_false]; exact hone _ (h1 (by simp [e3]))
    by_cases e4 : f = symBytes "round"
    · simp only [e1, e2, e3, e4, if_true, if_false]; exact hone _ (h1 (by simp [e4]))
    by_cases e5 : f = symBytes "max"
    · simp only [e1, e2, e3, e4, e5, if_true, if_false]
      exact XL.fx_fold c hc ops fns resolve lp rp hF _ l hw he har d hd _ _ (Nat.lt_succ_self _)
    by_cases e6 : f = symBytes "min"
    · simp only [e1, e2, e3, e4, e5, e6, if_true, if_false]
      exact XL.fx_fold c hc ops fns resolve lp rp hF _ l hw he har d hd _ _ (Nat.lt_succ_self _)
    by_cases e7 : f = symBytes "if"
    · simp only [if_neg e1, if_neg e2, if_neg e3, if_neg e4, if_neg e5, if_neg e6, if_pos e7]
      match l, hw, he, har, hd, h3 e7 with
      | .cons a1 w1 (.cons a2 w2 (.cons a3 w3 .nil)), hw, he, har, hd, _ =>
        simp only [XL.WF] at hw
        simp only [XL.Ev] at he
        simp only [XL.Ar] at har
        simp only [XL.cd] at hd
        obtain ⟨hv1, hs1, _⟩ := XL.head_facts c ops fns resolve lp rp hF a1 w1 (.cons a2 w2 (.cons a3 w3 .nil)) hw.1
          hw.2.1 he.1 d (X.fx_eval_tree c hc ops fns resolve lp rp hF a1 hw.1 he.1 har.1 d (by omega))
        obtain ⟨hv2, hs2, _⟩ := XL.head_facts c ops fns resolve lp rp hF a2 w2 (.cons a3 w3 .nil) hw.2.2.1
          hw.2.2.2.1 he.2.1 d (X.fx_eval_tree c hc ops fns resolve lp rp hF a2 hw.2.2.1 he.2.1 har.2.1 d (by omega))
        obtain ⟨hv3, hs3, _⟩ := XL.head_facts c ops fns resolve lp rp hF a3 w3 .nil hw.2.2.2.2.1
          hw.2.2.2.2.2.1 he.2.2.1 d (X.fx_eval_tree c hc ops fns resolve lp rp hF a3 hw.2.2.2.2.1 he.2.2.1 har.2.2.1 d (by omega))
        simp only [XL.texts] at hs1 hs2 hs3 ⊢
        simp only [fnIf, hs1, hv1, XL.vals, ifV]
        cases a1.val c with
        | err => rfl
        | panic => rfl
        | outside => rfl
        | ok ev =>
          simp only [VR.bind]
          cases hff : fixedFrom c ev with
          | ok value =>
            by_cases hz : value = 0
            · simp only [hz, if_true, hs2, hs3, hv3]
            · simp only [hz, if_false, hs2, hv2]
          | panic => rfl
          | outside => rfl
          | err =>
            cases ev with
            | str s =>
              by_cases hs : s ≠ [] ∧ equalFoldFalse s = false
              · simp only [hs, and_self, ne_eq, not_false_eq_true, if_true, hc, if_false, hs2, hv2]
              · simp only [hs, if_false, if_true, hs2, hs3, hv3]
            | num _ => rfl
            | bool _ => rfl
      | .nil, _, _, _, _, hl => simp [XL.length] at hl
      | .cons _ _ .nil, _, _, _, _, hl => simp [XL.length] at hl
      | .cons _ _ (.cons _ _ .nil), _, _, _, _, hl => simp [XL.length] at hl
      | .cons _ _ (.cons _ _ (.cons _ _ (.cons _ _ _))), _, _, _, _, hl => simp [XL.length] at hl
    by_cases e8 : f = symBytes "sqrt" ∨ f = symBytes "cbrt" ∨ f = symBytes "exp" ∨ f = symBytes "exp2" ∨
        f = symBytes "log" ∨ f = symBytes "log10" ∨ f = symBytes "log1p"
    · simp only [e1, e2, e3, e4, e5, e6, e7, e8, if_true, if_false]
      exact hone _ (h1 (by rcases e8 with h | h | h | h | h | h | h <;> simp [h]))
    · simp only [e1, e2, e3, e4, e5, e6, e7, e8, if_false]
end

/-- **Evaluate ∘ render = value of the tree** for the fixed evaluator -/
theorem X.fx_evaluate_render (c : Cfg) (hc : Fixed.F64.inc c.mult 0 ≠ 0) (ops : List Op) (fns : List Bytes)
    (resolve : Option (Bytes → Bytes)) (lp rp : Op) (hF : FullTable ops lp rp) (e : X) (hw : e.WF ops fns lp.prec)
    (he : e.Ev) (har : e.Ar) (ws : Nat → Bytes) (hws : ∀ k, Blank (ws k)) (depth : Nat) (hd : e.cd ≤ depth) :
    EvalFixed.evaluate c ops fns resolve (depth + 1) (e.render lp rp ws) = e.val c := by
  simp only [EvalFixed.evaluate, X.parse_render ops fns lp rp hF e hw ws hws, X.tree,
    X.fx_eval_tree c hc ops fns resolve lp rp hF e hw he har depth hd]
  cases e.val c <;> rfl

end Eval

/-! ### the value of a tree is never a Go panic -/
namespace EvalFixed
open Eval

theorem fixedFrom_ne_panic (c : Cfg) (v : Val) : fixedFrom c v ≠ .panic := by
  cases v with
  | num r => simp [fixedFrom]
  | bool b => simp [fixedFrom]
  | str s =>
    unfold fixedFrom
    cases h : FixedText.fromStrX64 c.places c.mult s <;> simp [h]

theorem ite_ne_panic {α : Type} (p : Prop) [Decidable p] (a b : VR α) (ha : a ≠ .panic) (hb : b ≠ .panic) :
    (if p then a else b) ≠ .panic := by
  split <;> assumption

theorem withFallback_ne_panic (c : Cfg) (num : Int → Int → Val) (txt : Bytes → Bytes → Val) (l r : Val) :
    withFallback c num txt l r ≠ .panic := by
  unfold withFallback
  have h1 := fixedFrom_ne_panic c l
  have h2 := fixedFrom_ne_panic c r
  cases hl : fixedFrom c l <;> cases hr : fixedFrom c r <;> simp_all

theorem bothNum_ne_panic (c : Cfg) (f : Int → Int → VR Val) (hf : ∀ x y, f x y ≠ .panic) (l r : Val) :
    bothNum c f l r ≠ .panic := by
  unfold bothNum
  have h1 := fixedFrom_ne_panic c l
  have h2 := fixedFrom_ne_panic c r
  cases hl : fixedFrom c l <;> cases hr : fixedFrom c r <;> simp_all

theorem opOr_ne_panic (c : Cfg) (l r : Val) : opOr c l r ≠ .panic := by
  unfold opOr
  have h1 := fixedFrom_ne_panic c l
  have h2 := fixedFrom_ne_panic c r
  cases hl : fixedFrom c l <;> cases hr : fixedFrom c r <;> simp_all <;> split <;> simp

theorem opAnd_ne_panic (c : Cfg) (l r : Val) : opAnd c l r ≠ .panic := by
  unfold opAnd
  have h1 := fixedFrom_ne_panic c l
  have h2 := fixedFrom_ne_panic c r
  cases hl : fixedFrom c l <;> cases hr : fixedFrom c r <;> simp_all <;> split <;> simp

theorem binary_ne_panic (c : Cfg) (sym : Bytes) (l r : Val) : binary c sym l r ≠ .panic := by
  unfold binary
  repeat' apply ite_ne_panic
  · exact opOr_ne_panic c l r
  · exact opAnd_ne_panic c l r
  · exact withFallback_ne_panic c _ _ l r
  · exact withFallback_ne_panic c _ _ l r
  · exact withFallback_ne_panic c _ _ l r
  · exact withFallback_ne_panic c _ _ l r
  · exact withFallback_ne_panic c _ _ l r
  · exact withFallback_ne_panic c _ _ l r
  · exact withFallback_ne_panic c _ _ l r
  · exact bothNum_ne_panic c _ (by intro x y; simp) l r
  · exact bothNum_ne_panic c _ (by intro x y; simp) l r
  · refine bothNum_ne_panic c _ ?_ l r
    intro x y
    by_cases hy : y = 0
    · simp only [hy, if_true]; split <;> simp
    · simp [hy, Fixed.F64.div]
  · refine bothNum_ne_panic c _ ?_ l r
    intro x y
    by_cases hy : y = 0
    · simp only [hy, if_true]; split <;> simp
    · simp [hy, Fixed.F64.mod, Fixed.F64.div]
  · exact bothNum_ne_panic c _ (by intro x y; simp) l r
  · simp

theorem unary_ne_panic (c : Cfg) (sym : Bytes) (v : Val) : unary c sym v ≠ .panic := by
  have h := fixedFrom_ne_panic c v
  unfold unary
  repeat' apply ite_ne_panic
  · unfold opNot
    split
    · simp
    · cases hf : fixedFrom c v <;> simp_all
  · unfold opPlus; cases hf : fixedFrom c v <;> simp_all
  · unfold opNeg; cases hf : fixedFrom c v <;> simp_all
  · simp

theorem applyUn_ne_panic (c : Cfg) (u : Option Op) (v : Val) : EvalFixed.applyUn c u v ≠ .panic := by
  cases u with
  | none => simp [EvalFixed.applyUn]
  | some w =>
    simp only [EvalFixed.applyUn]
    split
    · exact unary_ne_panic c _ v
    · simp

theorem bind_ne_panic {α β : Type} (v : VR α) (f : α → VR β) (hv : v ≠ .panic) (hf : ∀ a, f a ≠ .panic) :
    v.bind f ≠ .panic := by
  cases v with
  | ok a => exact hf a
  | err => simp [VR.bind]
  | panic => exact absurd rfl hv
  | outside => simp [VR.bind]

theorem one_ne_panic (c : Cfg) (f : Int → VR Val) (hf : ∀ x, f x ≠ .panic) (vs : List (VR Val))
    (hvs : ∀ v ∈ vs, v ≠ .panic) : one c f vs ≠ .panic := by
  unfold one
  split
  · rename_i v
    exact bind_ne_panic _ _ (bind_ne_panic _ _ (hvs v (by simp)) (fixedFrom_ne_panic c)) hf
  · simp

theorem foldV_ne_panic (c : Cfg) (step : Int → Int → Int) (acc : Int) (vs : List (VR Val))
    (hvs : ∀ v ∈ vs, v ≠ .panic) : foldV c step acc vs ≠ .panic := by
  induction vs generalizing acc with
  | nil => simp [foldV]
  | cons v t ih =>
    simp only [foldV]
    refine bind_ne_panic _ _ (bind_ne_panic _ _ (hvs v (by simp)) (fixedFrom_ne_panic c)) ?_
    intro x
    exact ih _ (fun w hw => hvs w (by simp [hw]))

theorem ifV_ne_panic (c : Cfg) (vs : List (VR Val)) (hvs : ∀ v ∈ vs, v ≠ .panic) : ifV c vs ≠ .panic := by
  unfold ifV
  split
  · rename_i cnd a b
    have ha : a ≠ .panic := hvs a (by simp)
    have hb : b ≠ .panic := hvs b (by simp)
    refine bind_ne_panic _ _ (hvs cnd (by simp)) ?_
    intro ev
    have hff := fixedFrom_ne_panic c ev
    cases hf : fixedFrom c ev with
    | ok value => simp only; split <;> assumption
    | panic => exact absurd hf hff
    | outside => simp
    | err =>
      cases ev with
      | str s => simp only; split <;> assumption
      | num _ => simp
      | bool _ => simp
  · simp

theorem callV_ne_panic (c : Cfg) (name : Bytes) (vs : List (VR Val)) (hvs : ∀ v ∈ vs, v ≠ .panic) :
    callV c name vs ≠ .panic := by
  unfold callV
  repeat' apply ite_ne_panic
  · exact one_ne_panic c _ (by intro x; simp) vs hvs
  · exact one_ne_panic c _ (by intro x; simp) vs hvs
  · exact one_ne_panic c _ (by intro x; simp) vs hvs
  · exact one_ne_panic c _ (by intro x; simp) vs hvs
  · exact foldV_ne_panic c _ _ vs hvs
  · exact foldV_ne_panic c _ _ vs hvs
  · exact ifV_ne_panic c vs hvs
  · exact one_ne_panic c _ (by intro x; simp) vs hvs
  · simp

end EvalFixed

namespace Eval
open EvalFixed

mutual
/-- the value of an expression tree is a value, an error, or outside the model — never a Go panic -/
theorem X.val_ne_panic (c : Cfg) : ∀ e : X, e.val c ≠ .panic
  | .atom u x => by simp only [X.val]; exact applyUn_ne_panic c u _
  | .call u f b args => by
    simp only [X.val]
    exact bind_ne_panic _ _ (callV_ne_panic c f _ (XL.vals_ne_panic c args)) (applyUn_ne_panic c u)
  | .bin o l r => by
    simp only [X.val]
    refine bind_ne_panic _ _ (X.val_ne_panic c l) ?_
    intro a
    exact bind_ne_panic _ _ (X.val_ne_panic c r) (fun b => binary_ne_panic c o.sym a b)
  | .paren none e => by simp only [X.val]; exact X.val_ne_panic c e
  | .paren (some v) e => by
    simp only [X.val]
    exact bind_ne_panic _ _ (X.val_ne_panic c e) (unary_ne_panic c v.sym)
theorem XL.vals_ne_panic (c : Cfg) : ∀ l : XL, ∀ v ∈ l.vals c, v ≠ .panic
  | .nil => by simp [XL.vals]
  | .cons a w t => by
    intro v hv
    simp only [XL.vals, List.mem_cons] at hv
    rcases hv with h | h
    · subst h; exact X.val_ne_panic c a
    · exact XL.vals_ne_panic c t v h
end

end Eval

/-! ### values of expressions with variables (resolver answers are literals) -/
namespace Eval
open EvalFixed

mutual
theorem X.ar_substAll (f : Bytes → Bytes) : ∀ e : X, e.Ar → (e.substAll f).Ar
  | .atom _ _, _ => by simp [X.substAll, X.Ar]
  | .call u g b args, h => by
    simp only [X.Ar] at h
    simp only [X.substAll, X.Ar, XL.length_substAll]
    exact ⟨h.1, h.2.1, XL.ar_substAll f args h.2.2⟩
  | .bin o l r, h => by
    simp only [X.Ar] at h
    simp only [X.substAll, X.Ar]
    exact ⟨X.ar_substAll f l h.1, X.ar_substAll f r h.2⟩
  | .paren u e, h => by
    simp only [X.Ar] at h
    simp only [X.substAll, X.Ar]
    exact X.ar_substAll f e h
theorem XL.ar_substAll (f : Bytes → Bytes) : ∀ l : XL, l.Ar → (l.substAll f).Ar
  | .nil, _ => by simp [XL.substAll, XL.Ar]
  | .cons a w t, h => by
    simp only [XL.Ar] at h
    simp only [XL.substAll, XL.Ar]
    exact ⟨X.ar_substAll f a h.1, XL.ar_substAll f t h.2⟩
theorem XL.length_substAll (f : Bytes → Bytes) : ∀ l : XL, (l.substAll f).length = l.length
  | .nil => rfl
  | .cons a w t => by simp only [XL.substAll, XL.length, XL.length_substAll f t]
end

/-- evaluating the tree of an expression WITH variables: a variable leaf is the text the resolver answers with, the
    argument text of a call is substituted before it is parsed again — the result is the value of the tree of the
    substituted expression -/
theorem X.fx_eval_tree_all (c : Cfg) (hc : Fixed.F64.inc c.mult 0 ≠ 0) (ops : List Op) (fns : List Bytes)
    (f : Bytes → Bytes) (lp rp : Op) (hF : FullTable ops lp rp) (hS : ∀ o ∈ ops, ∀ c t, o.sym = c :: t → Stopper c) :
    ∀ e : X, e.WF ops fns lp.prec → e.EvAll ops f → e.Ar → ∀ depth, e.cd ≤ depth →
      EvalFixed.evalNode c (EvalFixed.evaluate c ops fns (some f) depth) (replaceVariables (some f)) (e.toE lp rp).toTree =
        ((e.substAll f).val c).some
  | .atom u x, _, he, _, depth, _ => by
    simp only [X.EvAll] at he
    rcases he with he | ⟨name, hx, hn, hv, ha, h44, h36⟩
    · simp only [X.toE, E.toTree, EvalFixed.evalNode, replaceVariables_id (some f) x he.2, X.val, X.substAll,
        substAtom_clean f x he.2]
      cases EvalFixed.applyUn c u (Val.str x) <;> rfl
    · subst hx
      have ht : trimSpace (f name) ≠ [] := by
        have := trimSpace_atom (f name) [] ha.1 ha.2.1 (by intro c hc; cases hc)
        rw [List.append_nil] at this
        rw [this]; exact ha.1
      simp only [X.toE, E.toTree, EvalFixed.evalNode, replaceVariables_var f name hn hv h36 ht, X.val, X.substAll,
        substAtom]
      cases EvalFixed.applyUn c u (Val.str (f name)) <;> rfl
  | .call u g b args, hw, he, har, depth, hd => by
    simp only [X.WF] at hw
    simp only [X.EvAll] at he
    simp only [X.Ar] at har
    cases depth with
    | zero => simp [X.cd] at hd
    | succ d =>
      have hd' : (args.substAll f).cd ≤ d := by rw [XL.cd_substAll]; simp only [X.cd] at hd; omega
      have hrv := XL.replaceVariables_texts ops fns f lp rp hF hS args hw.2.2.2.2 he.2.2
      have hok := XL.substAll_ok ops fns f lp.prec args hw.2.2.2.2 he.2.2
      have hcall : EvalFixed.call c (EvalFixed.evaluate c ops fns (some f) (d + 1)) g
          (joinComma ((args.substAll f).texts lp rp)) = callV c g ((args.substAll f).vals c) :=
        XL.fx_call c hc ops fns (some f) lp rp hF g (args.substAll f) hok.1 hok.2 (XL.ar_substAll f args har.2.2)
          (by rw [XL.length_substAll]; exact har.1) (by rw [XL.length_substAll]; exact har.2.1) d hd'
      simp only [X.toE, E.toTree, EvalFixed.evalNode, hrv, hcall, X.val, X.substAll]
      cases callV c g ((args.substAll f).vals c) with
      | ok v => simp only [VR.bind]; cases EvalFixed.applyUn c u v <;> rfl
      | err => rfl
      | panic => rfl
      | outside => rfl
  | .bin o l r, hw, he, har, depth, hd => by
    simp only [X.WF] at hw
    simp only [X.EvAll] at he
    simp only [X.Ar] at har
    have hdl : l.cd ≤ depth := by simp only [X.cd] at hd; omega
    have hdr : r.cd ≤ depth := by simp only [X.cd] at hd; omega
    have h1 := X.fx_eval_tree_all c hc ops fns f lp rp hF hS l hw.2.2.2.2.1 he.2.1 har.1 depth hdl
    have h2 := X.fx_eval_tree_all c hc ops fns f lp rp hF hS r hw.2.2.2.2.2.1 he.2.2 har.2 depth hdr
    simp only [X.toE, E.toTree, EvalFixed.evalNode, h1, h2, X.toTree_isNil, X.val, X.substAll]
    cases (l.substAll f).val c with
    | ok a =>
      cases (r.substAll f).val c with
      | ok b2 =>
        simp only [VR.some, VR.bind, he.1, Bool.not_false, Bool.and_self, if_true, Bool.not_true, Bool.false_eq_true,
          if_false]
        cases binary c o.sym a b2 <;> simp [VR.some, EvalFixed.applyUn]
      | err => rfl
      | panic => rfl
      | outside => rfl
    | err => rfl
    | panic => rfl
    | outside => rfl
  | .paren u e, hw, he, har, depth, hd => by
    simp only [X.WF] at hw
    simp only [X.EvAll] at he
    simp only [X.Ar] at har
    have h1 := X.fx_eval_tree_all c hc ops fns f lp rp hF hS e hw.2 he har depth (by simpa only [X.cd] using hd)
    cases u with
    | none => simpa [X.toE, E.toTree, wrapN, X.val, X.substAll] using h1
    | some v =>
      have hv : v.un = true := (hw.1 v rfl).2
      simp only [X.toE, E.toTree, wrapN, EvalFixed.evalNode, h1, X.val, X.substAll]
      cases (e.substAll f).val c with
      | ok a =>
        simp only [VR.some, VR.bind, X.toTree_isNil, Node.isNil, Option.filter, hv, Bool.not_false, Bool.not_true,
          Bool.and_false, Bool.false_eq_true, if_false, if_true]
        cases unary c v.sym a <;> rfl
      | err => rfl
      | panic => rfl
      | outside => rfl

/-- **Evaluate ∘ render = value of the tree of the substituted expression**, variables anywhere -/
theorem X.fx_evaluate_render_all (c : Cfg) (hc : Fixed.F64.inc c.mult 0 ≠ 0) (ops : List Op) (fns : List Bytes)
    (f : Bytes → Bytes) (lp rp : Op) (hF : FullTable ops lp rp) (hS : ∀ o ∈ ops, ∀ c t, o.sym = c :: t → Stopper c)
    (e : X) (hw : e.WF ops fns lp.prec) (he : e.EvAll ops f) (har : e.Ar) (ws : Nat → Bytes)
    (hws : ∀ k, Blank (ws k)) (depth : Nat) (hd : e.cd ≤ depth) :
    EvalFixed.evaluate c ops fns (some f) (depth + 1) (e.render lp rp ws) = (e.substAll f).val c := by
  simp only [EvalFixed.evaluate, X.parse_render ops fns lp rp hF e hw ws hws, X.tree,
    X.fx_eval_tree_all c hc ops fns f lp rp hF hS e hw he har depth hd]
  cases (e.substAll f).val c <;> rfl

end Eval
