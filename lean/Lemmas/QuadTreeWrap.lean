import Lemmas.QuadTreeSim
import Lemmas.QuadTreeTree
import Model.QuadTreeI64
/-! Machine integers: the quadtree model at `Int64` (`QT.instI64`, Go's `int`: wrapping `+`/`-`) is simulated by the model
    at unbounded `Int` (`QT.instInt`) as long as every stored rectangle lies in the box `[-2^60, 2^60]²` — then no sum or
    difference the quadtree forms (`Right()`, `Bottom()`, the running union of `Reorganize`, the quadrants of
    `splitIfNeeded` including the over-tall `hw × hw` child 0) leaves the `int64` range.  Core Lean only. -/
namespace QT
open Geom

theorem add_toInt (a b : Int64) (h1 : -2^63 ≤ a.toInt + b.toInt) (h2 : a.toInt + b.toInt < 2^63) :
    (a + b).toInt = a.toInt + b.toInt := by
  rw [Int64.toInt_add]; exact Int.bmod_eq_of_le (by omega) (by omega)

theorem sub_toInt (a b : Int64) (h1 : -2^63 ≤ a.toInt - b.toInt) (h2 : a.toInt - b.toInt < 2^63) :
    (a - b).toInt = a.toInt - b.toInt := by
  rw [Int64.toInt_sub]; exact Int.bmod_eq_of_le (by omega) (by omega)

theorem min_toInt (a b : Int64) : (min a b).toInt = min a.toInt b.toInt := by
  show (if a ≤ b then a else b).toInt = _
  by_cases h : a ≤ b
  · rw [if_pos h]; have := Int64.le_iff_toInt_le.mp h; omega
  · rw [if_neg h]; have : ¬ a.toInt ≤ b.toInt := fun h' => h (Int64.le_iff_toInt_le.mpr h'); omega

theorem max_toInt (a b : Int64) : (max a b).toInt = max a.toInt b.toInt := by
  show (if a ≤ b then b else a).toInt = _
  by_cases h : a ≤ b
  · rw [if_pos h]; have := Int64.le_iff_toInt_le.mp h; omega
  · rw [if_neg h]; have : ¬ a.toInt ≤ b.toInt := fun h' => h (Int64.le_iff_toInt_le.mpr h'); omega

/-- Go's `w / 2` on a non-negative `int` is the halving of the unbounded model -/
theorem half_toInt (a : Int64) (h : 0 ≤ a.toInt) : (halfI64 a).toInt = halfInt a.toInt ∧ halfInt a.toInt = a.toInt / 2 := by
  unfold halfI64 halfInt
  rw [Int64.toInt_div]
  have e : (2 : Int64).toInt = 2 := rfl
  rw [e, Int.tdiv_eq_ediv_of_nonneg h]
  have := Int64.toInt_lt a
  exact ⟨Int.bmod_eq_of_le (by omega) (by omega), rfl⟩

theorem dle (a b : Int64) : decide (a ≤ b) = decide (a.toInt ≤ b.toInt) := decide_eq_decide.mpr Int64.le_iff_toInt_le
theorem dlt (a b : Int64) : decide (a < b) = decide (a.toInt < b.toInt) := decide_eq_decide.mpr Int64.lt_iff_toInt_lt

/-- the value of a machine rectangle / point -/
def toIntR (r : Rect Int64) : Rect Int := ⟨r.x.toInt, r.y.toInt, r.w.toInt, r.h.toInt⟩
def toIntP (p : Point Int64) : Point Int := ⟨p.x.toInt, p.y.toInt⟩

@[simp] theorem toIntR_x (r : Rect Int64) : (toIntR r).x = r.x.toInt := rfl
@[simp] theorem toIntR_y (r : Rect Int64) : (toIntR r).y = r.y.toInt := rfl
@[simp] theorem toIntR_w (r : Rect Int64) : (toIntR r).w = r.w.toInt := rfl
@[simp] theorem toIntR_h (r : Rect Int64) : (toIntR r).h = r.h.toInt := rfl
@[simp] theorem toIntP_x (p : Point Int64) : (toIntP p).x = p.x.toInt := rfl
@[simp] theorem toIntP_y (p : Point Int64) : (toIntP p).y = p.y.toInt := rfl

/-- `2^60` -/
def B : Int := 1152921504606846976

/-- `Right()` and `Bottom()` do not wrap -/
def Safe (r : Rect Int64) : Prop :=
  -2^63 ≤ r.x.toInt + r.w.toInt ∧ r.x.toInt + r.w.toInt < 2^63 ∧ -2^63 ≤ r.y.toInt + r.h.toInt ∧ r.y.toInt + r.h.toInt < 2^63

/-- the running union of `Reorganize`: a possibly degenerate rectangle inside the box -/
def DUnion (r : Rect Int64) : Prop :=
  -B ≤ r.x.toInt ∧ -B ≤ r.y.toInt ∧ 0 ≤ r.w.toInt ∧ 0 ≤ r.h.toInt ∧ r.x.toInt + r.w.toInt ≤ B ∧ r.y.toInt + r.h.toInt ≤ B

/-- bounds of a stored node: a non-empty rectangle inside the box -/
def DItem (r : Rect Int64) : Prop := DUnion r ∧ 0 < r.w.toInt ∧ 0 < r.h.toInt

/-- rectangles of tree nodes: child 0 of `splitIfNeeded` is `hw × hw`, so below a wide node it sticks out of its parent
    at the bottom — by at most the width of the root -/
def DNode (r : Rect Int64) : Prop :=
  -B ≤ r.x.toInt ∧ -B ≤ r.y.toInt ∧ 0 ≤ r.w.toInt ∧ 0 ≤ r.h.toInt ∧ r.x.toInt + r.w.toInt ≤ B ∧
  r.y.toInt + r.w.toInt ≤ 3 * B ∧ r.y.toInt + r.h.toInt ≤ 3 * B

instance : DecidablePred Safe := fun r => by unfold Safe; infer_instance
instance : DecidablePred DUnion := fun r => by unfold DUnion; infer_instance
instance : DecidablePred DItem := fun r => by unfold DItem; infer_instance

theorem DNode.safe {r : Rect Int64} (h : DNode r) : Safe r := by
  unfold DNode B at h; unfold Safe; omega
theorem DUnion.node {r : Rect Int64} (h : DUnion r) : DNode r := by
  unfold DUnion B at h; unfold DNode B; omega
theorem DItem.safe {r : Rect Int64} (h : DItem r) : Safe r := h.1.node.safe

theorem right_toInt (r : Rect Int64) (h : Safe r) : r.right.toInt = r.x.toInt + r.w.toInt := add_toInt _ _ h.1 h.2.1
theorem bottom_toInt (r : Rect Int64) (h : Safe r) : r.bottom.toInt = r.y.toInt + r.h.toInt :=
  add_toInt _ _ h.2.2.1 h.2.2.2

@[simp] theorem toIntR_right (r : Rect Int64) : (toIntR r).right = r.x.toInt + r.w.toInt := rfl
@[simp] theorem toIntR_bottom (r : Rect Int64) : (toIntR r).bottom = r.y.toInt + r.h.toInt := rfl

theorem empty_toInt (a : Rect Int64) : (toIntR a).empty = a.empty := by
  simp only [Rect.empty, dle, Int64.toInt_zero, toIntR_w, toIntR_h]
  rfl

theorem contains_toInt (a b : Rect Int64) (ha : Safe a) (hb : Safe b) : (toIntR a).contains (toIntR b) = a.contains b := by
  simp only [Rect.contains, empty_toInt, dle, right_toInt a ha, right_toInt b hb, bottom_toInt a ha, bottom_toInt b hb,
    toIntR_right, toIntR_bottom, toIntR_x, toIntR_y]
  try rfl

theorem intersects_toInt (a b : Rect Int64) (ha : Safe a) (hb : Safe b) :
    (toIntR a).intersects (toIntR b) = a.intersects b := by
  simp only [Rect.intersects, empty_toInt, dlt, right_toInt a ha, right_toInt b hb, bottom_toInt a ha,
    bottom_toInt b hb, toIntR_right, toIntR_bottom, toIntR_x, toIntR_y]
  try rfl

theorem inPt_toInt (p : Point Int64) (a : Rect Int64) (ha : Safe a) : (toIntP p).inRect (toIntR a) = p.inRect a := by
  simp only [Point.inRect, empty_toInt, dle, dlt, right_toInt a ha, bottom_toInt a ha, toIntR_right, toIntR_bottom,
    toIntR_x, toIntR_y, toIntP_x, toIntP_y]
  try rfl

theorem canSplit_toInt (a : Rect Int64) (h : DNode a) : canSplit halfInt (toIntR a) = canSplit halfI64 a := by
  obtain ⟨w1, _⟩ := half_toInt a.w h.2.2.1
  obtain ⟨h1, _⟩ := half_toInt a.h h.2.2.2.1
  simp only [canSplit, dle, Int64.toInt_zero, toIntR_w, toIntR_h, w1, h1]
  try rfl

/-- the arithmetic of `splitIfNeeded` on a node rectangle: no operation wraps -/
theorem quad_arith (a : Rect Int64) (h : DNode a) :
    (halfI64 a.w).toInt = a.w.toInt / 2 ∧ (halfI64 a.h).toInt = a.h.toInt / 2 ∧
    (a.x + halfI64 a.w).toInt = a.x.toInt + a.w.toInt / 2 ∧ (a.y + halfI64 a.h).toInt = a.y.toInt + a.h.toInt / 2 ∧
    (a.w - halfI64 a.w).toInt = a.w.toInt - a.w.toInt / 2 ∧ (a.h - halfI64 a.h).toInt = a.h.toInt - a.h.toInt / 2 := by
  obtain ⟨w1, w2⟩ := half_toInt a.w h.2.2.1
  obtain ⟨h1, h2⟩ := half_toInt a.h h.2.2.2.1
  rw [w2] at w1; rw [h2] at h1
  unfold DNode B at h
  refine ⟨w1, h1, ?_, ?_, ?_, ?_⟩
  · rw [add_toInt _ _ (by omega) (by omega), w1]
  · rw [add_toInt _ _ (by omega) (by omega), h1]
  · rw [sub_toInt _ _ (by omega) (by omega), w1]
  · rw [sub_toInt _ _ (by omega) (by omega), h1]

theorem quad_toInt (a : Rect Int64) (h : DNode a) :
    quadrants halfInt (toIntR a) = (toIntR (quadrants halfI64 a).1, toIntR (quadrants halfI64 a).2.1,
      toIntR (quadrants halfI64 a).2.2.1, toIntR (quadrants halfI64 a).2.2.2) := by
  obtain ⟨e1, e2, e3, e4, e5, e6⟩ := quad_arith a h
  obtain ⟨_, w2⟩ := half_toInt a.w h.2.2.1
  obtain ⟨_, h2⟩ := half_toInt a.h h.2.2.2.1
  simp only [quadrants, toIntR, e1, e2, e3, e4, e5, e6, w2, h2]

theorem quad_dom (a : Rect Int64) (h : DNode a) :
    DNode (quadrants halfI64 a).1 ∧ DNode (quadrants halfI64 a).2.1 ∧ DNode (quadrants halfI64 a).2.2.1 ∧
    DNode (quadrants halfI64 a).2.2.2 := by
  obtain ⟨e1, e2, e3, e4, e5, e6⟩ := quad_arith a h
  unfold DNode B at h
  simp only [quadrants, DNode, B, e1, e2, e3, e4, e5, e6]
  omega

theorem zero_toInt : toIntR (Rect.zero : Rect Int64) = Rect.zero := by
  simp only [Rect.zero, toIntR, Int64.toInt_zero]

theorem union_toInt (a b : Rect Int64) (ha : DUnion a) (hb : DItem b) :
    toIntR (a.union b) = (toIntR a).union (toIntR b) ∧ DUnion (a.union b) := by
  have hbe : b.empty = false := by
    rw [← empty_toInt b]
    obtain ⟨_, p, q⟩ := hb
    simp only [Rect.empty, toIntR_w, toIntR_h, Bool.or_eq_false_iff]
    exact ⟨decide_eq_false (by omega), decide_eq_false (by omega)⟩
  cases hae : a.empty with
  | true =>
    have l : a.union b = b := by simp only [Rect.union, hae, hbe, Bool.true_and, Bool.false_eq_true, if_false, if_true]
    have r : (toIntR a).union (toIntR b) = toIntR b := by
      simp only [Rect.union, empty_toInt, hae, hbe, Bool.true_and, Bool.false_eq_true, if_false, if_true]
    rw [l, r]; exact ⟨rfl, hb.1⟩
  | false =>
    have r1 := right_toInt a ha.node.safe; have r2 := right_toInt b hb.safe
    have b1 := bottom_toInt a ha.node.safe; have b2 := bottom_toInt b hb.safe
    obtain ⟨hb1, hbw, hbh⟩ := hb
    unfold DUnion B at ha hb1
    have ew : (max a.right b.right - min a.x b.x).toInt =
        max (a.x.toInt + a.w.toInt) (b.x.toInt + b.w.toInt) - min a.x.toInt b.x.toInt := by
      rw [sub_toInt _ _ (by rw [max_toInt, min_toInt, r1, r2]; omega) (by rw [max_toInt, min_toInt, r1, r2]; omega),
        max_toInt, min_toInt, r1, r2]
    have eh : (max a.bottom b.bottom - min a.y b.y).toInt =
        max (a.y.toInt + a.h.toInt) (b.y.toInt + b.h.toInt) - min a.y.toInt b.y.toInt := by
      rw [sub_toInt _ _ (by rw [max_toInt, min_toInt, b1, b2]; omega) (by rw [max_toInt, min_toInt, b1, b2]; omega),
        max_toInt, min_toInt, b1, b2]
    have l : a.union b = ⟨min a.x b.x, min a.y b.y, max a.right b.right - min a.x b.x,
        max a.bottom b.bottom - min a.y b.y⟩ := by
      simp only [Rect.union, hae, hbe, Bool.false_and, Bool.false_eq_true, if_false]
    have r : (toIntR a).union (toIntR b) = ⟨min a.x.toInt b.x.toInt, min a.y.toInt b.y.toInt,
        max (a.x.toInt + a.w.toInt) (b.x.toInt + b.w.toInt) - min a.x.toInt b.x.toInt,
        max (a.y.toInt + a.h.toInt) (b.y.toInt + b.h.toInt) - min a.y.toInt b.y.toInt⟩ := by
      simp only [Rect.union, empty_toInt, hae, hbe, Bool.false_and, Bool.false_eq_true, if_false, toIntR_right,
        toIntR_bottom, toIntR_x, toIntR_y]
    rw [l, r]
    refine ⟨by simp only [toIntR, min_toInt, ew, eh], ?_⟩
    simp only [DUnion, B, min_toInt, ew, eh]
    omega

/-- **the machine-integer instance is simulated by the unbounded one** on rectangles inside the box -/
theorem simI64 : @Sim (Rect Int64) (Point Int64) (Rect Int) (Point Int) instI64 instInt toIntR toIntP Safe DNode DUnion DItem where
  empty_eq := empty_toInt
  contains_eq := contains_toInt
  intersects_eq := intersects_toInt
  inPt_eq := inPt_toInt
  canSplit_eq := canSplit_toInt
  quad_eq := quad_toInt
  quad_dom := quad_dom
  zero_eq := zero_toInt
  zero_dom := by simp [DUnion, RectOps.zero, Rect.zero, Int64.toInt_zero, B]
  union_eq := fun a b ha hb => (union_toInt a b ha hb).1
  union_dom := fun a b ha hb => (union_toInt a b ha hb).2
  du_dn := fun _ h => h.node
  dn_ds := fun _ h => h.safe
  di_ds := fun _ h => h.safe

/-- a non-empty machine rectangle that does not wrap has a representable point: `X < Right()`, `Y < Bottom()` -/
theorem proper_of_safe (r : Rect Int64) (h : Safe r) (he : r.empty = false) : r.x < r.right ∧ r.y < r.bottom := by
  rw [← empty_toInt r] at he
  simp only [Rect.empty, toIntR_w, toIntR_h, Bool.or_eq_false_iff] at he
  have hw : 0 < r.w.toInt := by have := of_decide_eq_false he.1; omega
  have hh : 0 < r.h.toInt := by have := of_decide_eq_false he.2; omega
  rw [Int64.lt_iff_toInt_lt, Int64.lt_iff_toInt_lt, right_toInt r h, bottom_toInt r h]
  omega

/-! ### what the simulation gives for the observations -/
section Obs
variable {R1 P1 R2 P2 : Type} [L1 : RectOps R1 P1] [L2 : RectOps R2 P2] {φ : R1 → R2} {ψ : P1 → P2}
  {DS DN DU DI : R1 → Prop}

theorem ids_map (l : List (Item R1)) : ids (l.map (Item.map φ)) = ids l := by
  simp [ids, List.map_map, Function.comp_def]

/-- the specification (a multiset of ids) does not see the coordinates -/
theorem specRun_map (S : Sim φ ψ DS DN DU DI) (ops : List (Op R1)) : specRun (ops.map (Op.map φ)) = specRun ops := by
  have aux : ∀ (ops : List (Op R1)) (s : List Nat),
      (ops.map (Op.map φ)).foldl specApply s = ops.foldl specApply s := by
    intro ops
    induction ops with
    | nil => intro s; rfl
    | cons op rest ih =>
      intro s
      simp only [List.map_cons, List.foldl_cons]
      rw [ih]
      cases op <;> simp [Op.map, specApply, S.empty_eq]
  exact aux ops []

/-- `Size`, `All` and any pruned traversal answer alike on both sides -/
theorem obs_sim (S : Sim φ ψ DS DN DU DI) (fuel : Nat) (k : Int) (ops : List (Op R1))
    (hops : ∀ op ∈ ops, OpDom DS DI op) :
    (Tree.run fuel k (ops.map (Op.map φ))).size = (Tree.run fuel k ops).size ∧
    ids (Tree.run fuel k (ops.map (Op.map φ))).all = ids (Tree.run fuel k ops).all ∧
    (Tree.run fuel k (ops.map (Op.map φ))).fuelOK fuel = (Tree.run fuel k ops).fuelOK fuel ∧
    ∀ (pr1 : R1 → Bool) (pr2 : R2 → Bool) (f1 : Item R1 → Bool) (f2 : Item R2 → Bool),
      (∀ r, DN r → pr2 (φ r) = pr1 r) → (∀ it, DI it.rect → f2 (Item.map φ it) = f1 it) →
      ids ((Tree.run fuel k (ops.map (Op.map φ))).find pr2 f2) = ids ((Tree.run fuel k ops).find pr1 f1) ∧
      (Tree.run fuel k (ops.map (Op.map φ))).any pr2 f2 = (Tree.run fuel k ops).any pr1 f1 := by
  obtain ⟨d, e⟩ := run_sim S fuel k ops hops
  rw [← e]
  refine ⟨rfl, by rw [Tree.all_map, ids_map], ?_, ?_⟩
  · cases hr : (Tree.run fuel k ops).root with
    | none => simp [Tree.fuelOK, Tree.map, hr]
    | some r => simp [Tree.fuelOK, Tree.map, hr, Node.depth_map]
  · intro pr1 pr2 f1 f2 hpr hf
    obtain ⟨a, b⟩ := tfind_sim _ d pr1 pr2 f1 f2 hpr hf
    rw [a, b, ids_map]
    exact ⟨rfl, rfl⟩
end Obs

/-- what an object's bounds may be for the transfer: a non-empty rectangle inside the box, or an `Empty` one (which
    `Insert` ignores) that does not wrap -/
def DBounds (r : Rect Int64) : Prop := (r.empty = true ∧ Safe r) ∨ DItem r

theorem DBounds.safe {r : Rect Int64} (h : DBounds r) : Safe r := by
  rcases h with h | h
  · exact h.2
  · exact h.safe

/-- a history whose objects all have such bounds is inside the domain of the simulation -/
theorem opDom_of_opOK (bounds : Nat → Rect Int64) (hb : ∀ i, DBounds (bounds i)) (op : Op (Rect Int64))
    (h : OpOK bounds op) : OpDom Safe DItem op := by
  cases op with
  | insert it =>
    have e0 : it.rect = bounds it.id := h
    show RectOps.empty it.rect = true ∨ DItem it.rect
    rw [e0]
    rcases hb it.id with e | e
    · exact Or.inl e.1
    · exact Or.inr e
  | remove id b => show Safe b; rw [show b = bounds id from h]; exact (hb id).safe
  | reorganize => trivial
  | clear => trivial
  | setThreshold k => trivial

/-- the contract is carried over by `toInt` -/
theorem opOK_map (bounds : Nat → Rect Int64) (ops : List (Op (Rect Int64))) (hops : ∀ op ∈ ops, OpOK bounds op) :
    ∀ op ∈ ops.map (Op.map toIntR), OpOK (fun i => toIntR (bounds i)) op := by
  intro op hop
  obtain ⟨o, ho, rfl⟩ := List.mem_map.mp hop
  have := hops o ho
  cases o with
  | insert it => show toIntR it.rect = toIntR (bounds it.id); rw [show it.rect = bounds it.id from this]
  | remove id b => show toIntR b = toIntR (bounds id); rw [show b = bounds id from this]
  | reorganize => trivial
  | clear => trivial
  | setThreshold k => trivial

end QT
