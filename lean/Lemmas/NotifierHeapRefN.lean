import Lemmas.NotifierHeapRef
/-! C17: the same refinement for `nameMap` — its inner sets (`map[string]bool`) as heap cells (`NtH.NW`). -/
namespace NtH
open Nt

theorem frame_nAddName (H : NW) (hs : Sep H) (i t : Nat) (n : Name) : Frame H (nAddName t i H n) i :=
  frame_hUpd H hs i t _ _

theorem deref_nAddName (H : NW) (hs : Sep H) (i t : Nat) (n : Name) :
    deref (nAddName t i H n) i = addName (deref H i) t n := deref_hUpd H hs i t _ _

theorem frame_nMergeStep (H : NW) (hs : Sep H) (i : Nat) (e : Nat × Addr) : Frame H (nMergeStep true i H e) i :=
  frame_hMergeG _ H hs i e

theorem frame_nstep (H : NW) (hs : Sep H) (op : NOp) (hd : op.deep = true) : Frame H (nstep H op) op.target := by
  cases op with
  | reg i t ns => exact frame_foldl _ i (fun H n hs => frame_nAddName H hs i t n) ns H hs
  | unreg i t => exact frame_hDel H hs i t
  | merge d i m =>
    simp only [NOp.deep] at hd
    subst hd
    simp only [nstep, NOp.target]
    split
    · exact frame_refl H i hs
    · exact frame_foldl _ i (fun H e hs => frame_nMergeStep H hs i e) _ H hs
  | reset i => exact frame_reset H hs i

theorem sep_nrunFrom (ops : List NOp) (H : NW) (hs : Sep H) (hd : ∀ op ∈ ops, op.deep = true) : Sep (ops.foldl nstep H) := by
  induction ops generalizing H with
  | nil => exact hs
  | cons op ops ih =>
    exact ih _ (frame_nstep H hs op (hd op (by simp))).sep (fun o ho => hd o (List.mem_cons_of_mem _ ho))

/-- the nameMap operations a value-level operation amounts to -/
def toN (w : World) : Op → List NOp
  | .register i t _ raws => if normNames raws = [] then [] else [NOp.reg i t (normNames raws)]
  | .unregister i t => match assocGet (w i).names t with
    | none => []
    | some _ => [NOp.unreg i t]
  | .merge i m => [NOp.merge true i m]
  | .reset i => [NOp.reset i]
  | _ => []

def RefN (w : World) (H : NW) : Prop := Sep H ∧ ∀ i, deref H i = (w i).names

theorem refN_of_frame (w : World) (H H' : NW) (i : Nat) (s' : NSt) (hr : RefN w H) (hf : Frame H H' i)
    (hi : deref H' i = s'.names) : RefN (w.set i s') H' := by
  refine ⟨hf.sep, fun j => ?_⟩
  by_cases hj : j = i
  · subst hj; simp only [World.set, if_true]; exact hi
  · simp only [World.set, if_neg hj]
    rw [deref_of_frame H H' i j hr.1 hf hj]; exact hr.2 j

theorem refN_same (w : World) (H : NW) (i : Nat) (s' : NSt) (hr : RefN w H) (hp : s'.names = (w i).names) :
    RefN (w.set i s') H :=
  refN_of_frame w H H i s' hr (frame_refl H i hr.1) (by rw [hr.2 i, hp])

theorem register_names (s : NSt) (t : Nat) (p : Int) (raws : List (List Nat)) :
    (register s t p raws).names = if normNames raws = [] then s.names else addNames s.names t (normNames raws) := by
  unfold register
  simp only
  split
  · rfl
  · rw [regLoop_names]; split <;> rfl

theorem startBatch_names (s : NSt) : (startBatch s).1.names = s.names := by
  unfold startBatch; split
  · rfl
  · simp only; split <;> rfl

theorem endBatch_names (s : NSt) : (endBatch s).1.names = s.names := by
  unfold endBatch; split
  · simp only; split <;> rfl
  · rfl

theorem refN_step (pan : Nat → Bool) (w : World) (H : NW) (hr : RefN w H) (op : Op) :
    RefN (step pan w op).1 ((toN w op).foldl nstep H) := by
  cases op with
  | register i t p raws =>
    simp only [step, toN]
    by_cases hn : normNames raws = []
    · simp only [hn, if_true, List.foldl_nil]
      exact refN_same w H i _ hr (by rw [register_names, hn]; rfl)
    · simp only [hn, if_false, List.foldl_cons, List.foldl_nil, nstep]
      obtain ⟨a, b⟩ := fold_ref (nAddName t i) (fun names n => addName names t n) i
        (fun H n hs => frame_nAddName H hs i t n) (fun H n hs => deref_nAddName H hs i t n) (normNames raws) H hr.1
      refine refN_of_frame w H _ i _ hr b ?_
      rw [a, register_names, hr.2 i]; simp only [hn, if_false]; rfl
  | unregister i t =>
    simp only [step, toN]
    cases hg : assocGet (w i).names t with
    | none =>
      simp only [List.foldl_nil]
      exact refN_same w H i _ hr (by unfold unregister; rw [hg])
    | some ns =>
      simp only [List.foldl_cons, List.foldl_nil, nstep]
      refine refN_of_frame w H _ i _ hr (frame_hDel H hr.1 i t) ?_
      rw [deref_hDel, hr.2 i]
      unfold unregister; rw [hg]
  | merge i m =>
    simp only [step, toN, List.foldl_cons, List.foldl_nil, nstep]
    by_cases him : i = m
    · simp only [him, if_true]; exact hr
    · simp only [him, if_false]
      obtain ⟨a, b⟩ := mergeG_ref (fun mine theirs => theirs.foldl setIns mine) stepMergeNames
        (fun l e => by unfold stepMergeNames; cases assocGet l e.1 <;> rfl) H hr.1 i m him (H.pm m) (fun e he => he) H
        (frame_refl H i hr.1)
      refine refN_of_frame w H _ i _ hr b ?_
      show deref (List.foldl (nMergeStep true i) H (H.pm m)) i = _
      unfold nMergeStep
      rw [a]
      show List.foldl stepMergeNames (deref H i) (deref H m) = (mergeFrom (w i) (w m)).names
      rw [hr.2 i, hr.2 m]; rfl
  | reset i =>
    simp only [step, toN, List.foldl_cons, List.foldl_nil]
    exact refN_of_frame w H _ i _ hr (frame_reset H hr.1 i) (by simp [nstep, deref, upd, reset])
  | setEnabled i b => exact refN_same w H i _ hr rfl
  | startBatch i => exact refN_same w H i _ hr (startBatch_names _)
  | endBatch i => exact refN_same w H i _ hr (endBatch_names _)
  | notify i raw => exact hr

def nrunAlong (pan : Nat → Bool) : World → NW → List Op → NW
  | _, H, [] => H
  | w, H, op :: ops => nrunAlong pan (step pan w op).1 ((toN w op).foldl nstep H) ops

theorem refN_run (pan : Nat → Bool) (ops : List Op) (w : World) (H : NW) (hr : RefN w H) :
    RefN (runFrom pan w ops).1 (nrunAlong pan w H ops) := by
  induction ops generalizing w H with
  | nil => exact hr
  | cons op ops ih => simp only [runFrom, nrunAlong]; exact ih _ _ (refN_step pan w H hr op)

theorem refN_init : RefN World.init (HWorld.init []) := ⟨sep_init [], fun _ => rfl⟩

/-- history of the contrast for nameMap: notifier 0 registers target 1 for "a"; notifier 1 merges notifier 0 (`d` = with
    copied inner sets) and registers target 1 for "b" -/
def shareNames (d : Bool) : List NOp := [.reg 0 1 [[[97]]], .merge d 1 0, .reg 1 1 [[[98]]]]

end NtH
