import Lemmas.TaskQueue
/-! C15: further invariants — start/finish bookkeeping, exactly-once, serial execution with one worker, recovery-handler
    calls. Core Lean only. -/
set_option linter.unusedSimpArgs false
namespace TQ

/-- a task that has been started is running or has finished (and nothing else is) -/
def StartedSplit (s : S) : Prop := ∀ id, s.started.count id = s.running.count id + s.finished.count id

theorem startedSplit_step (c : Cfg) (s s' : S) (h : StartedSplit s) (st : Step c s s') : StartedSplit s' := by
  intro id
  have hid := h id
  cases st <;> (try dsimp only [doSubmit, doTake, doFinish, doReport, doReady] at *) <;> (try exact hid)
  case take t rest h1 h2 =>
    simp only [List.count_append, List.count_cons, List.count_nil]
    omega
  case finish t ht =>
    have := count_erase_mem s.running t id ht
    simp only [List.count_cons]
    by_cases e : id = t
    · have e' : (t == id) = true := by simp [e]
      simp [e, e'] at this ⊢ hid
      omega
    · have e' : (t == id) = false := by simpa using fun h => e h.symm
      simp [e, e'] at this ⊢
      omega

theorem startedSplit (c : Cfg) (s : S) (h : Reachable c s) : StartedSplit s := by
  induction h with
  | init => intro id; simp
  | step s s' _ st ih => exact startedSplit_step c s s' ih st

/-- **exactly once**: no task id is started or finished twice, and only accepted tasks are -/
theorem started_le_one (c : Cfg) (s : S) (h : Reachable c s) (id : Nat) :
    s.started.count id ≤ 1 ∧ s.finished.count id ≤ 1 ∧ (s.nextId ≤ id → s.started.count id = 0) := by
  have h1 := startedSplit c s h id
  have h2 := conservation c s h id
  simp only [places, List.count_append] at h2
  by_cases e : id < s.nextId
  · simp [e] at h2
    refine ⟨by omega, by omega, fun h => by omega⟩
  · simp [e] at h2
    refine ⟨by omega, by omega, fun _ => by omega⟩

/-- with one worker the tasks run strictly one after the other: the start order is the finish order, plus the task
    that is running now -/
def Serial (s : S) : Prop := s.started = s.finished.reverse ++ s.running

theorem serial_step (c : Cfg) (hw : c.workers = 1) (s s' : S) (hb : Bounds c s) (h : Serial s) (st : Step c s s') :
    Serial s' := by
  unfold Serial at *
  cases st <;> (try dsimp only [doSubmit, doTake, doFinish, doReport, doReady] at *) <;> (try exact h)
  case take t rest h1 h2 =>
    have : s.running = [] := by
      apply List.eq_nil_of_length_eq_zero; omega
    rw [this] at h
    simp [h, this]
  case finish t ht =>
    have hl : s.running.length ≤ 1 := by have := hb.1; omega
    have : s.running = [t] := by
      cases hr : s.running with
      | nil => rw [hr] at ht; simp at ht
      | cons a rest =>
        rw [hr] at ht hl
        have : rest = [] := by
          apply List.eq_nil_of_length_eq_zero; simp only [List.length_cons] at hl; omega
        subst this
        simp at ht; subst ht; rfl
    rw [this] at h ⊢
    simp [h]

theorem serial (c : Cfg) (hw : c.workers = 1) (s : S) (h : Reachable c s) : Serial s := by
  induction h with
  | init => simp [Serial]
  | step s s' hr st ih => exact serial_step c hw s s' (bounds c s hr) ih st

/-- the recovery handler — if one is installed — has been called for exactly the panicking tasks that have finished (once
    each); without a handler nothing is recorded -/
def Recovered (c : Cfg) (s : S) : Prop :=
  ∀ id, s.recovered.count id = if c.handler = true ∧ id ∈ s.pan then s.finished.count id else 0

theorem recovered_step (c : Cfg) (s s' : S) (hc : Conservation s) (h : Recovered c s) (st : Step c s s') :
    Recovered c s' := by
  intro id
  have hid := h id
  cases hh : c.handler
  · -- no handler: `recovered` never grows
    simp only [hh, Bool.false_eq_true, false_and, if_false] at hid ⊢
    cases st <;> (try dsimp only [doSubmit, doTake, doFinish, doReport, doReady] at *) <;> (try exact hid)
    case finish t ht => simp only [hh, Bool.false_eq_true, false_and, if_false]; exact hid
  · simp only [hh, true_and] at hid ⊢
    cases st <;> (try dsimp only [doSubmit, doTake, doFinish, doReport, doReady] at *) <;> (try exact hid)
    case submit p h1 h2 =>
      cases p
      · simpa using hid
      · by_cases e : id = s.nextId
        · -- a new id: nothing with this id has finished or been reported
          have hcons := hc id
          simp only [places, List.count_append] at hcons
          have hlt : ¬ id < s.nextId := by omega
          simp only [hlt, if_false] at hcons
          have hf : s.finished.count id = 0 := by omega
          have hr : s.recovered.count id = 0 := by
            rw [hid]; split
            · exact hf
            · rfl
          simp [e] at hf hr ⊢
          omega
        · have : (id ∈ s.nextId :: s.pan) ↔ id ∈ s.pan := by simp [e]
          simp only [if_true, this]
          exact hid
    case finish t ht =>
      simp only [hh, true_and]
      by_cases e : id = t
      · subst e
        by_cases hp : id ∈ s.pan
        · simp [hp] at hid ⊢; omega
        · simp [hp] at hid ⊢; exact hid
      · have e' : (t == id) = false := by simpa using fun h => e h.symm
        by_cases hp : t ∈ s.pan
        · simp only [hp, if_true, List.count_cons, e'] at hid ⊢
          simpa using hid
        · simp only [hp, if_false, List.count_cons, e'] at hid ⊢
          simpa using hid

theorem recovered_inv (c : Cfg) (s : S) (h : Reachable c s) : Recovered c s := by
  induction h with
  | init => intro id; simp
  | step s s' hr st ih => exact recovered_step c s s' (conservation c s hr) ih st

/-- without a handler there are no handler calls -/
theorem recovered_nil_of_no_handler (c : Cfg) (hh : c.handler = false) (s : S) (h : Reachable c s) : s.recovered = [] := by
  have := recovered_inv c s h
  apply List.eq_nil_iff_forall_not_mem.mpr
  intro id hmem
  have h1 := this id
  simp only [hh, Bool.false_eq_true, false_and, if_false] at h1
  exact absurd hmem (List.count_eq_zero.mp h1)

end TQ
