import Lemmas.Cmdline
/-! Lemmas about `Cmd.readFile` (the model of `loadArgsFromFile` on the bytes of a file): which files are refused because
    of a line that fills the scanner's buffer, what is read from the others, and what the variant that does not look at
    `scanner.Err()` would hand to the parser instead. -/
namespace Cmd

theorem tooLongAux_append (l r : Str) (h : 10 ∉ l) : ∀ n, tooLongAux (l ++ r) n = tooLongAux r (n + l.length) := by
  induction l with
  | nil => intro n; simp
  | cons c l ih =>
    intro n
    have hc : c ≠ 10 := by intro e; apply h; simp [e]
    have hl : 10 ∉ l := by intro e; apply h; simp [e]
    simp only [List.cons_append, tooLongAux, hc, if_false, ih hl, List.length_cons]
    congr 1
    omega

/-- one LF-terminated line in front -/
theorem tooLongAux_line (l r : Str) (h : 10 ∉ l) :
    tooLongAux (l ++ 10 :: r) 0 = (decide (maxToken ≤ l.length) || tooLongAux r 0) := by
  rw [tooLongAux_append l _ h]
  simp only [tooLongAux, Nat.zero_add, if_true]
  by_cases hm : maxToken ≤ l.length <;> simp [hm]

theorem tooLong_nil : tooLong [] = false := by simp [tooLong, tooLongAux, maxToken, Generated.C10.maxScanTokenSize]

/-- a file of LF-terminated lines is refused iff one of its lines has `maxToken` bytes or more -/
theorem tooLong_lines (ls : List Str) (h : ∀ l ∈ ls, 10 ∉ l) :
    tooLong (ls.flatMap (fun l => l ++ [10])) = ls.any (fun l => decide (maxToken ≤ l.length)) := by
  induction ls with
  | nil => simp [tooLong_nil]
  | cons l ls ih =>
    have h1 : 10 ∉ l := h l (by simp)
    have h2 : ∀ l ∈ ls, 10 ∉ l := fun x hx => h x (by simp [hx])
    have ih' := ih h2
    unfold tooLong at ih' ⊢
    simp only [List.flatMap_cons, List.append_assoc, List.singleton_append, List.any_cons]
    rw [tooLongAux_line l _ h1, ih']

/-- a trailing piece without terminator (the last line of a file that does not end in LF) -/
theorem tooLongAux_last (l : Str) (h : 10 ∉ l) : tooLongAux l 0 = decide (maxToken ≤ l.length) := by
  have := tooLongAux_append l [] h 0
  simpa [tooLongAux] using this

theorem readFile_lf (ls : List Str) (h : ∀ l ∈ ls, 10 ∉ l ∧ l.getLast? ≠ some 13)
    (hs : ∀ l ∈ ls, l.length < maxToken) : readFile (ls.flatMap (fun l => l ++ [10])) = some ls := by
  unfold readFile
  rw [tooLong_lines ls (fun l hl => (h l hl).1), linesOf_lf ls h]
  have : ls.any (fun l => decide (maxToken ≤ l.length)) = false := by
    rw [List.any_eq_false]
    intro l hl
    have := hs l hl
    simp
    omega
  simp [this]

theorem readFile_long (ls : List Str) (h : ∀ l ∈ ls, 10 ∉ l) (l : Str) (hl : l ∈ ls) (hlong : maxToken ≤ l.length) :
    readFile (ls.flatMap (fun l => l ++ [10])) = none := by
  unfold readFile
  rw [tooLong_lines ls h]
  have : ls.any (fun l => decide (maxToken ≤ l.length)) = true := by
    rw [List.any_eq_true]
    exact ⟨l, hl, by simpa using hlong⟩
  simp [this]

/-- short lines, then a line that is too long, then anything: the whole file is refused -/
theorem readFile_long_after (ls : List Str) (h : ∀ l ∈ ls, 10 ∉ l) (l rest : Str) (hl : 10 ∉ l)
    (hlong : maxToken ≤ l.length) : readFile (ls.flatMap (fun l => l ++ [10]) ++ (l ++ 10 :: rest)) = none := by
  unfold readFile
  have : tooLong (ls.flatMap (fun l => l ++ [10]) ++ (l ++ 10 :: rest)) = true := by
    unfold tooLong
    induction ls with
    | nil =>
      simp only [List.flatMap_nil, List.nil_append]
      rw [tooLongAux_line l rest hl]
      simp [hlong]
    | cons x xs ih =>
      have h1 : 10 ∉ x := h x (by simp)
      simp only [List.flatMap_cons, List.append_assoc, List.cons_append, List.nil_append]
      rw [tooLongAux_line x _ h1, ih (fun y hy => h y (by simp [hy]))]
      simp
  simp [this]

/-! ### the variant without the `scanner.Err()` test -/

/-- on a file the real reader accepts, the variant reads the same lines -/
theorem readFileNoErrAux_ok (content : Str) : ∀ (cur : Str) (n : Nat), tooLongAux content n = false →
    readFileNoErrAux content cur n = linesAux content cur := by
  induction content with
  | nil =>
    intro cur n h
    have : ¬ maxToken ≤ n := by simpa [tooLongAux] using h
    simp [readFileNoErrAux, linesAux, this]
  | cons c t ih =>
    intro cur n h
    by_cases hc : c = 10
    · subst hc
      simp only [tooLongAux, if_true] at h
      by_cases hm : maxToken ≤ n
      · simp [hm] at h
      · simp only [hm, if_false] at h
        simp [readFileNoErrAux, linesAux, hm, ih [] 0 h]
    · simp only [tooLongAux, hc, if_false] at h
      simp only [readFileNoErrAux, hc, if_false, ih (c :: cur) (n + 1) h]
      symm
      rw [linesAux.eq_def]
      split
      · rename_i heq; cases heq
      · rename_i heq; injection heq with e _; exact absurd e hc
      · rename_i heq; injection heq with e1 e2; subst e1; subst e2; rfl

theorem readFileNoErr_ok (content : Str) (h : tooLong content = false) : readFileNoErr content = linesOf content :=
  readFileNoErrAux_ok content [] 0 h

theorem readFileNoErrAux_append (l r : Str) (h : 10 ∉ l) : ∀ (cur : Str) (n : Nat),
    readFileNoErrAux (l ++ r) cur n = readFileNoErrAux r (l.reverse ++ cur) (n + l.length) := by
  induction l with
  | nil => intro cur n; simp
  | cons c l ih =>
    intro cur n
    have hc : c ≠ 10 := by intro e; apply h; simp [e]
    have hl : 10 ∉ l := by intro e; apply h; simp [e]
    simp only [List.cons_append, readFileNoErrAux, hc, if_false, ih hl, List.length_cons, List.reverse_cons,
      List.append_assoc]
    congr 1
    omega

/-- … and on a file with a line that is too long it silently returns the lines in front of that line: everything from
    the long line on is dropped -/
theorem readFileNoErr_truncates (ls : List Str) (h : ∀ l ∈ ls, 10 ∉ l ∧ l.getLast? ≠ some 13)
    (hs : ∀ l ∈ ls, l.length < maxToken) (l rest : Str) (hl : 10 ∉ l) (hlong : maxToken ≤ l.length) :
    readFileNoErr (ls.flatMap (fun l => l ++ [10]) ++ (l ++ 10 :: rest)) = ls := by
  unfold readFileNoErr
  induction ls with
  | nil =>
    simp only [List.flatMap_nil, List.nil_append]
    rw [readFileNoErrAux_append l _ hl]
    simp [readFileNoErrAux, hlong]
  | cons x xs ih =>
    have h1 := h x (by simp)
    have hx : ¬ maxToken ≤ x.length := by have := hs x (by simp); omega
    simp only [List.flatMap_cons, List.append_assoc, List.cons_append, List.nil_append]
    rw [readFileNoErrAux_append x _ h1.1]
    simp only [readFileNoErrAux, if_true, Nat.zero_add, hx, if_false, List.append_nil, List.reverse_reverse]
    rw [ih (fun y hy => h y (by simp [hy])) (fun y hy => hs y (by simp [hy]))]
    have : dropCR x = x := by
      unfold dropCR
      simp [h1.2]
    rw [this]

/-! ### a refused file is like a missing one -/

theorem filesOf_lookup_none (raw : List (Str × Option Str)) (f : Str)
    (h : ∀ e ∈ raw, e.1 = f → ∀ c, e.2 = some c → readFile c = none) : (filesOf raw).lookup f = none := by
  induction raw with
  | nil => rfl
  | cons e es ih =>
    have ih' := ih (fun x hx => h x (by simp [hx]))
    obtain ⟨p, c⟩ := e
    cases c with
    | none => simpa [filesOf] using ih'
    | some c =>
      cases hr : readFile c with
      | none => simpa [filesOf, hr] using ih'
      | some ls =>
        by_cases hp : p = f
        · have := h (p, some c) (by simp) hp c rfl
          rw [hr] at this
          cases this
        · have hb : (f == p) = false := by simpa using fun x => hp x.symm
          have : filesOf ((p, some c) :: es) = (p, ls) :: filesOf es := by simp [filesOf, hr]
          rw [this]
          simp only [List.lookup, hb]
          exact ih'

theorem filesOf_lookup_head (raw : List (Str × Option Str)) (f : Str) (c : Str) (ls : List Str)
    (h : readFile c = some ls) : (filesOf ((f, some c) :: raw)).lookup f = some ls := by
  simp [filesOf, h]

end Cmd
