import Lemmas.BitSetOps
import Lemmas.BitSetStore
/-! C08: histories.  The specification is a pair of predicates `Nat → Bool` (finite sets of naturals) subjected to the
    same operations; `step_refines` shows one `applyOp` step keeps the model in agreement with it and keeps
    `set` = cardinality. -/
namespace BS

/-- a mathematical set of naturals -/
abbrev NSet := Nat → Bool

structure SPair where
  a : NSet
  b : NSet

def SPair.get (p : SPair) : Reg → NSet
  | .A => p.a
  | .B => p.b
def SPair.put (p : SPair) (r : Reg) (v : NSet) : SPair :=
  match r with
  | .A => { p with a := v }
  | .B => { p with b := v }

/-- the closed interval between the two arguments, whatever their order -/
def between (s e x : Nat) : Bool := decide (min s e ≤ x ∧ x ≤ max s e)

/-- what each call does to a mathematical set -/
def specOp (p : SPair) : Op → SPair
  | .set r i => p.put r (fun x => p.get r x || decide (x = i))
  | .clear r i => p.put r (fun x => p.get r x && !decide (x = i))
  | .flip r i => p.put r (fun x => p.get r x ^^ decide (x = i))
  | .setRange r s e => p.put r (fun x => p.get r x || between s e x)
  | .clearRange r s e => p.put r (fun x => p.get r x && !between s e x)
  | .flipRange r s e => p.put r (fun x => p.get r x ^^ between s e x)
  | .load r ws => p.put r (fun x => bit ws x)
  | .copy r q => p.put r (p.get q)
  | .clone r q => p.put r (p.get q)
  | .trim _ => p
  | .ensure _ _ => p
  | .reset r => p.put r (fun _ => false)
  | .data _ => p
  | .loadData r q => p.put r (p.get q)

def specRun (ops : List Op) : SPair := ops.foldl specOp ⟨fun _ => false, fun _ => false⟩

/-- the model pair denotes the specification pair and both cached counts are cardinalities -/
def Rel (p : Pair) (sp : SPair) : Prop := ∀ r, Inv (p.get r) ∧ ∀ x, mem (p.get r) x = sp.get r x

theorem get_put (p : Pair) (r r' : Reg) (v : T) : (p.put r v).get r' = if r' = r then v else p.get r' := by
  cases r <;> cases r' <;> simp [Pair.get, Pair.put]
theorem sget_put (p : SPair) (r r' : Reg) (v : NSet) : (p.put r v).get r' = if r' = r then v else p.get r' := by
  cases r <;> cases r' <;> simp [SPair.get, SPair.put]

/-- updating register `r` on both sides with related values keeps the relation -/
theorem rel_put (p : Pair) (sp : SPair) (h : Rel p sp) (r : Reg) (v : T) (sv : NSet)
    (hv : Inv v ∧ ∀ x, mem v x = sv x) : Rel (p.put r v) (sp.put r sv) := by
  intro r'
  rw [get_put, sget_put]
  by_cases e : r' = r
  · simp only [e, if_true]; exact hv
  · simp only [e, if_false]; exact h r'

theorem reset_inv (b : T) : Inv (reset b) := by unfold Inv reset; rfl
theorem reset_mem (b : T) (x : Nat) : mem (reset b) x = false := by unfold mem reset; exact bit_nil x

theorem step_refines (p : Pair) (sp : SPair) (h : Rel p sp) (op : Op) :
    Rel (applyOp p op) (specOp sp op) := by
  cases op with
  | set r i =>
    exact rel_put p sp h r _ _ ⟨setBit_inv _ i (h r).1, fun x => by rw [setBit_mem, (h r).2]⟩
  | clear r i =>
    exact rel_put p sp h r _ _ ⟨clearBit_inv _ i (h r).1, fun x => by rw [clearBit_mem, (h r).2]⟩
  | flip r i =>
    exact rel_put p sp h r _ _ ⟨flipBit_inv _ i (h r).1, fun x => by rw [flipBit_mem, (h r).2]⟩
  | setRange r s e =>
    obtain ⟨h1, h2⟩ := setRange_spec (p.get r) s e
    exact rel_put p sp h r _ _ ⟨h2 (h r).1, fun x => by rw [h1, (h r).2]; rfl⟩
  | clearRange r s e =>
    obtain ⟨h1, h2⟩ := clearRange_spec (p.get r) s e
    exact rel_put p sp h r _ _ ⟨h2 (h r).1, fun x => by rw [h1, (h r).2]; rfl⟩
  | flipRange r s e =>
    obtain ⟨h1, h2⟩ := flipRange_spec (p.get r) s e
    exact rel_put p sp h r _ _ ⟨h2 (h r).1, fun x => by rw [h1, (h r).2]; rfl⟩
  | load r ws =>
    exact rel_put p sp h r _ _ ⟨load_inv _ ws, fun x => load_bit _ ws x⟩
  | copy r q =>
    exact rel_put p sp h r _ _ ⟨(h q).1, (h q).2⟩
  | clone r q =>
    exact rel_put p sp h r _ _ ⟨(h q).1, (h q).2⟩
  | trim r =>
    intro r'
    show Inv ((p.put r (trim (p.get r))).get r') ∧ ∀ x, mem ((p.put r (trim (p.get r))).get r') x = sp.get r' x
    rw [get_put]
    by_cases e : r' = r
    · subst e
      simp only [if_true]
      exact ⟨trim_inv _ (h r').1, fun x => by unfold mem; rw [trim_bit]; exact (h r').2 x⟩
    · simp only [e, if_false]; exact h r'
  | ensure r n =>
    intro r'
    show Inv ((p.put r (ensureCapacity (p.get r) n)).get r')
      ∧ ∀ x, mem ((p.put r (ensureCapacity (p.get r) n)).get r') x = sp.get r' x
    rw [get_put]
    by_cases e : r' = r
    · subst e
      simp only [if_true]
      exact ⟨ensure_inv _ n (h r').1, fun x => by unfold mem; rw [ensure_bit]; exact (h r').2 x⟩
    · simp only [e, if_false]; exact h r'
  | reset r =>
    exact rel_put p sp h r _ _ ⟨reset_inv _, fun x => reset_mem _ x⟩
  | data r =>
    intro r'
    show Inv ((p.put r (trim (p.get r))).get r') ∧ ∀ x, mem ((p.put r (trim (p.get r))).get r') x = sp.get r' x
    rw [get_put]
    by_cases e : r' = r
    · subst e
      simp only [if_true]
      exact ⟨trim_inv _ (h r').1, fun x => by unfold mem; rw [trim_bit]; exact (h r').2 x⟩
    · simp only [e, if_false]; exact h r'
  | loadData r q =>
    show Rel ((p.put q (trim (p.get q))).put r (load ((p.put q (trim (p.get q))).get r) (trim (p.get q)).data))
      (sp.put r (sp.get q))
    have hq : Rel (p.put q (trim (p.get q))) sp := by
      intro r'
      rw [get_put]
      by_cases e : r' = q
      · subst e
        simp only [if_true]
        exact ⟨trim_inv _ (h r').1, fun x => by unfold mem; rw [trim_bit]; exact (h r').2 x⟩
      · simp only [e, if_false]; exact h r'
    refine rel_put _ sp hq r _ _ ⟨load_inv _ _, fun x => ?_⟩
    unfold mem
    rw [load_bit, trim_bit]
    exact (h q).2 x

theorem foldl_refines (ops : List Op) : ∀ (p : Pair) (sp : SPair), Rel p sp →
    Rel (ops.foldl applyOp p) (ops.foldl specOp sp) := by
  induction ops with
  | nil => intro p sp h; exact h
  | cons op ops ih => intro p sp h; exact ih _ _ (step_refines p sp h op)

theorem rel_init : Rel {} ⟨fun _ => false, fun _ => false⟩ := by
  intro r
  cases r
  · exact ⟨rfl, fun x => bit_nil x⟩
  · exact ⟨rfl, fun x => bit_nil x⟩

theorem run_rel (ops : List Op) : Rel (run ops) (specRun ops) :=
  foldl_refines ops _ _ rel_init

/-! ### membership alone: no assumption about `countSetBits` -/

def RelM (p : Pair) (sp : SPair) : Prop := ∀ r x, mem (p.get r) x = sp.get r x

theorem relm_put (p : Pair) (sp : SPair) (h : RelM p sp) (r : Reg) (v : T) (sv : NSet)
    (hv : ∀ x, mem v x = sv x) : RelM (p.put r v) (sp.put r sv) := by
  intro r'
  rw [get_put, sget_put]
  by_cases e : r' = r
  · simp only [e, if_true]; exact hv
  · simp only [e, if_false]; exact h r'

theorem relm_put_same (p : Pair) (sp : SPair) (h : RelM p sp) (r : Reg) (v : T)
    (hv : ∀ x, mem v x = mem (p.get r) x) : RelM (p.put r v) sp := by
  intro r'
  rw [get_put]
  by_cases e : r' = r
  · subst e; simp only [if_true]; intro x; rw [hv]; exact h r' x
  · simp only [e, if_false]; exact h r'

theorem step_mem (p : Pair) (sp : SPair) (h : RelM p sp) (op : Op) : RelM (applyOp p op) (specOp sp op) := by
  cases op with
  | set r i => exact relm_put p sp h r _ _ (fun x => by rw [setBit_mem, h r])
  | clear r i => exact relm_put p sp h r _ _ (fun x => by rw [clearBit_mem, h r])
  | flip r i => exact relm_put p sp h r _ _ (fun x => by rw [flipBit_mem, h r])
  | setRange r s e => exact relm_put p sp h r _ _ (fun x => by rw [setRange_mem, h r]; rfl)
  | clearRange r s e => exact relm_put p sp h r _ _ (fun x => by rw [clearRange_mem, h r]; rfl)
  | flipRange r s e => exact relm_put p sp h r _ _ (fun x => by rw [flipRange_mem, h r]; rfl)
  | load r ws => exact relm_put p sp h r _ _ (fun x => load_bit _ ws x)
  | copy r q => exact relm_put p sp h r _ _ (h q)
  | clone r q => exact relm_put p sp h r _ _ (h q)
  | trim r => exact relm_put_same p sp h r _ (fun x => trim_bit _ x)
  | ensure r n => exact relm_put_same p sp h r _ (fun x => ensure_bit _ n x)
  | reset r => exact relm_put p sp h r _ _ (fun x => reset_mem _ x)
  | data r => exact relm_put_same p sp h r _ (fun x => trim_bit _ x)
  | loadData r q =>
    show RelM ((p.put q (trim (p.get q))).put r (load ((p.put q (trim (p.get q))).get r) (trim (p.get q)).data))
      (sp.put r (sp.get q))
    have hq : RelM (p.put q (trim (p.get q))) sp := relm_put_same p sp h q _ (fun x => trim_bit _ x)
    refine relm_put _ sp hq r _ _ (fun x => ?_)
    unfold mem
    rw [load_bit, trim_bit]
    exact h q x

theorem foldl_mem (ops : List Op) : ∀ (p : Pair) (sp : SPair), RelM p sp →
    RelM (ops.foldl applyOp p) (ops.foldl specOp sp) := by
  induction ops with
  | nil => intro p sp h; exact h
  | cons op ops ih => intro p sp h; exact ih _ _ (step_mem p sp h op)

theorem run_mem (ops : List Op) : RelM (run ops) (specRun ops) :=
  foldl_mem ops _ _ (fun r x => by cases r <;> exact bit_nil x)

/-! ### cardinality as a count of members -/

theorem countP_popcount (w : W) (n : Nat) : ((List.range n).filter (fun k => w.getLsbD k)).length = countBits w n := by
  induction n with
  | zero => rfl
  | succ n ih =>
    rw [List.range_succ, List.filter_append, List.length_append, ih, countBits]
    cases hc : w.getLsbD n <;> simp [List.filter, hc]

/-- `card` is the number of members below the capacity (and there are none at or above it: `bit_lt`) -/
theorem card_eq_filter (d : List W) : card d = ((List.range (d.length * 64)).filter (bit d)).length := by
  induction d with
  | nil => rfl
  | cons w ws ih =>
    have e : (w :: ws).length * 64 = 64 + ws.length * 64 := by simp; omega
    rw [e, List.range_add, List.filter_append, List.length_append, card, ih, List.filter_map, List.length_map]
    congr 1
    · unfold popcount
      rw [← countP_popcount]
      apply congrArg
      apply List.filter_congr
      intro k hk
      exact (bit_cons_zero w ws k (by simpa using hk)).symm
    · congr 1
      apply List.filter_congr
      intro x _
      show bit ws x = bit (w :: ws) (64 + x)
      rw [Nat.add_comm, bit_cons_succ]

/-- counting the members below any bound that covers the set gives the same number -/
theorem filter_bound (f : Nat → Bool) (n m : Nat) (hnm : n ≤ m) (h : ∀ x, f x = true → x < n) :
    ((List.range m).filter f).length = ((List.range n).filter f).length := by
  obtain ⟨k, rfl⟩ : ∃ k, m = n + k := ⟨m - n, by omega⟩
  rw [List.range_add, List.filter_append, List.length_append]
  have : (List.map (fun x => n + x) (List.range k)).filter f = [] := by
    rw [List.filter_eq_nil_iff]
    intro a ha
    obtain ⟨y, _, rfl⟩ := List.mem_map.mp ha
    intro hf
    have := h _ hf
    omega
  rw [this]; simp

/-- under the invariant, `Count` is the number of members below any bound that covers the set -/
theorem count_eq_members (b : T) (hinv : Inv b) (N : Nat) (hN : ∀ x, mem b x = true → x < N) :
    count b = Int.ofNat ((List.range N).filter (mem b)).length := by
  unfold count
  rw [hinv, card_eq_filter]
  congr 1
  have hcap : ∀ x, mem b x = true → x < b.data.length * 64 := fun x hx => bit_lt _ _ hx
  by_cases hle : N ≤ b.data.length * 64
  · exact filter_bound (mem b) N _ hle hN
  · exact (filter_bound (mem b) _ N (by omega) hcap).symm

end BS
