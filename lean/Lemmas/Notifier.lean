import Model.Notifier
/-! Lemmas for C17 (notifier): lookup laws of the association lists, the target table of Notify, Register, merge.
    Copied from the design probe (Appendix C of DESIGN.md) and restated about `Model/Notifier.lean`. -/
namespace Nt

section assoc
variable {α β : Type} [DecidableEq α]

theorem assocGet_none_iff (l : List (α × β)) (k : α) : assocGet l k = none ↔ k ∉ keys l := by
  induction l with
  | nil => simp [assocGet, keys]
  | cons a l ih =>
    obtain ⟨k', v⟩ := a
    simp only [assocGet, keys, List.map_cons, List.mem_cons, not_or]
    by_cases h : k' = k
    · simp [h]
    · simp only [h, if_false]
      unfold keys at ih
      rw [ih]
      exact ⟨fun e => ⟨fun e' => h e'.symm, e⟩, fun e => e.2⟩

/-- the law of `assocSet` -/
theorem assocGet_assocSet (l : List (α × β)) (k k' : α) (v : β) :
    assocGet (assocSet l k v) k' = if k' = k then some v else assocGet l k' := by
  induction l with
  | nil =>
    simp only [assocSet, assocGet]
    by_cases h : k = k'
    · simp [h]
    · have : ¬ k' = k := fun e => h e.symm
      simp [h, this]
  | cons a l ih =>
    obtain ⟨k1, v1⟩ := a
    simp only [assocSet]
    by_cases h1 : k1 = k
    · simp only [h1, if_true, assocGet]
      by_cases h : k = k'
      · simp [h]
      · have : ¬ k' = k := fun e => h e.symm
        simp [h, this]
    · simp only [h1, if_false, assocGet]
      by_cases h : k1 = k'
      · have : ¬ k' = k := fun e => h1 (h.trans e)
        simp [h, this]
      · simp only [h, if_false]; exact ih

theorem keys_assocSet (l : List (α × β)) (k : α) (v : β) :
    keys (assocSet l k v) = if k ∈ keys l then keys l else keys l ++ [k] := by
  induction l with
  | nil => simp [assocSet, keys]
  | cons a l ih =>
    obtain ⟨k1, v1⟩ := a
    simp only [assocSet]
    by_cases h1 : k1 = k
    · simp [h1, keys]
    · have : ¬ k = k1 := fun e => h1 e.symm
      simp only [h1, if_false]
      unfold keys at ih ⊢
      simp only [List.map_cons, List.mem_cons, this, false_or, ih]
      split <;> simp

theorem nodup_assocSet (l : List (α × β)) (k : α) (v : β) (h : (keys l).Nodup) : (keys (assocSet l k v)).Nodup := by
  rw [keys_assocSet]
  split
  · exact h
  · rename_i hk
    rw [List.nodup_append]
    exact ⟨h, by simp, by intro a ha b hb; simp at hb; subst hb; exact fun e => hk (e ▸ ha)⟩
end assoc

theorem overlay_get (set acc : List (Nat × Int)) (hn : (keys set).Nodup) (t : Nat) :
    assocGet (overlay acc set) t = (assocGet set t).or (assocGet acc t) := by
  unfold overlay
  induction set generalizing acc with
  | nil => simp [assocGet]
  | cons a set ih =>
    obtain ⟨k, v⟩ := a
    simp only [List.foldl_cons]
    have hn' : (keys set).Nodup := by unfold keys at hn ⊢; simp at hn; exact hn.2
    rw [ih _ hn', assocGet_assocSet]
    simp only [assocGet]
    by_cases h : k = t
    · have hnot : k ∉ keys set := by unfold keys at hn ⊢; simp at hn; simpa using hn.1
      have h1 : assocGet set t = none := by rw [← h]; exact (assocGet_none_iff set k).mpr hnot
      simp [h1, h]
    · have : ¬ t = k := fun e => h e.symm
      simp [h, this]

theorem overlay_nodup (set acc : List (Nat × Int)) (h : (keys acc).Nodup) : (keys (overlay acc set)).Nodup := by
  unfold overlay
  induction set generalizing acc with
  | nil => exact h
  | cons a set ih => exact ih _ (nodup_assocSet _ _ _ h)


def lookup (prod : PMap) (pre : Name) (t : Nat) : Option Int := (assocGet prod pre).bind (assocGet · t)

def SetsNodup (prod : PMap) : Prop := ∀ n set, assocGet prod n = some set → (keys set).Nodup

/-- most specific match: the last name in the walk that registers `t` decides -/
def best (prod : PMap) (t : Nat) : List Name → Option Int
  | [] => none
  | pre :: pres => (best prod t pres).or (lookup prod pre t)


theorem gather_get_gen (prod : PMap) (hs : SetsNodup prod) (pres : List Name) (acc : List (Nat × Int)) (t : Nat) :
    assocGet (pres.foldl (gatherStep prod) acc) t = (best prod t pres).or (assocGet acc t) := by
  induction pres generalizing acc with
  | nil => simp [best]
  | cons pre pres ih =>
    simp only [List.foldl_cons]
    rw [ih]
    simp only [best, lookup, gatherStep]
    cases hg : assocGet prod pre with
    | none => simp
    | some set =>
      simp only [Option.bind_some]
      rw [overlay_get set acc (hs pre set hg) t]
      cases best prod t pres <;> simp

/-- **which targets, with which priority**: the table holds for each target the priority registered under the
    most specific of the walked names that mentions it, and nothing for a target none of them mentions -/
theorem gather_get (prod : PMap) (hs : SetsNodup prod) (pres : List Name) (t : Nat) :
    assocGet (gather prod pres) t = best prod t pres := by
  unfold gather
  rw [gather_get_gen prod hs pres [] t]; simp [assocGet]

/-- **each target once** -/
theorem gather_nodup (prod : PMap) (pres : List Name) : (keys (gather prod pres)).Nodup := by
  unfold gather
  suffices ∀ acc : List (Nat × Int), (keys acc).Nodup → (keys (pres.foldl (gatherStep prod) acc)).Nodup
    from this [] (by simp [keys])
  induction pres with
  | nil => intro acc h; exact h
  | cons pre pres ih =>
    intro acc h
    simp only [List.foldl_cons]
    apply ih
    unfold gatherStep
    split
    · exact h
    · exact overlay_nodup _ _ h

theorem best_some_iff (prod : PMap) (t : Nat) (pres : List Name) :
    (best prod t pres).isSome ↔ ∃ pre ∈ pres, (lookup prod pre t).isSome := by
  induction pres with
  | nil => simp [best]
  | cons pre pres ih =>
    simp only [best, Option.isSome_or, Bool.or_eq_true, ih, List.mem_cons, exists_eq_or_imp]
    exact Or.comm


/-- **no textual prefix**: the walked names are exactly the non-empty segment-wise prefixes -/
theorem mem_prefixes (n pre : Name) : pre ∈ prefixes n ↔ pre ≠ [] ∧ pre <+: n := by
  unfold prefixes
  simp only [List.mem_map, List.mem_range]
  constructor
  · rintro ⟨i, hi, rfl⟩
    refine ⟨?_, List.take_prefix _ _⟩
    intro e; have := congrArg List.length e
    rw [List.length_take, List.length_nil] at this; omega
  · rintro ⟨hne, t, rfl⟩
    refine ⟨pre.length - 1, ?_, ?_⟩
    · have : pre.length ≠ 0 := fun e => hne (List.eq_nil_of_length_eq_zero e)
      simp only [List.length_append]; omega
    · have : pre.length ≠ 0 := fun e => hne (List.eq_nil_of_length_eq_zero e)
      have e : pre.length - 1 + 1 = pre.length := by omega
      rw [e]; simp

/-- **exactly the registered targets**: `t` is notified for `n` iff it is registered under `n` or a dot-ancestor -/
theorem notify_targets (prod : PMap) (hs : SetsNodup prod) (n : Name) (t : Nat) :
    t ∈ keys (gather prod (prefixes n)) ↔ ∃ pre, pre ≠ [] ∧ pre <+: n ∧ (lookup prod pre t).isSome := by
  have h1 : t ∈ keys (gather prod (prefixes n)) ↔ (assocGet (gather prod (prefixes n)) t).isSome := by
    cases h : assocGet (gather prod (prefixes n)) t with
    | none => simp [(assocGet_none_iff _ _).mp h]
    | some v =>
      simp only [Option.isSome_some, iff_true]
      apply Classical.byContradiction
      intro hc; rw [(assocGet_none_iff _ _).mpr hc] at h; cases h
  rw [h1, gather_get prod hs, best_some_iff]
  constructor
  · rintro ⟨pre, hm, hl⟩; exact ⟨pre, ((mem_prefixes n pre).mp hm).1, ((mem_prefixes n pre).mp hm).2, hl⟩
  · rintro ⟨pre, h1, h2, hl⟩; exact ⟨pre, (mem_prefixes n pre).mpr ⟨h1, h2⟩, hl⟩


theorem lookup_registerOne (prod : PMap) (n n' : Name) (t t' : Nat) (p : Int) :
    lookup (registerOne prod n t p) n' t' = if n' = n ∧ t' = t then some p else lookup prod n' t' := by
  unfold lookup registerOne
  rw [assocGet_assocSet]
  by_cases hn : n' = n
  · subst hn
    simp only [if_true, Option.bind_some, assocGet_assocSet, true_and]
    by_cases ht : t' = t
    · simp [ht]
    · simp only [ht, if_false]
      cases assocGet prod n' <;> simp [assocGet]
  · simp [hn]

theorem setsNodup_registerOne (prod : PMap) (n : Name) (t : Nat) (p : Int) (h : SetsNodup prod) :
    SetsNodup (registerOne prod n t p) := by
  intro n' set hg
  unfold registerOne at hg
  rw [assocGet_assocSet] at hg
  by_cases hn : n' = n
  · simp only [hn, if_true, Option.some.injEq] at hg
    rw [← hg]
    apply nodup_assocSet
    cases hp : assocGet prod n with
    | none => simp [keys]
    | some s0 => simpa using h n s0 hp
  · simp only [hn, if_false] at hg; exact h n' set hg


def registerAll (prod : PMap) (ns : List Name) (t : Nat) (prio : Int) : PMap :=
  ns.foldl (fun prod n => registerOne prod n t prio) prod


/-- **Register**: afterwards `t` has priority `prio` under each of the given names; every other
    (name, target) pair is as before -/
theorem lookup_registerAll (ns : List Name) (prod : PMap) (n' : Name) (t t' : Nat) (p : Int) :
    lookup (registerAll prod ns t p) n' t' = if n' ∈ ns ∧ t' = t then some p else lookup prod n' t' := by
  unfold registerAll
  induction ns generalizing prod with
  | nil => simp
  | cons n ns ih =>
    simp only [List.foldl_cons]
    rw [ih, lookup_registerOne]
    by_cases h1 : n' ∈ ns ∧ t' = t
    · have : n' ∈ n :: ns ∧ t' = t := ⟨List.mem_cons_of_mem _ h1.1, h1.2⟩
      simp [h1, this]
    · simp only [h1, if_false]
      by_cases h2 : n' = n ∧ t' = t
      · have : n' ∈ n :: ns ∧ t' = t := ⟨by simp [h2.1], h2.2⟩
        simp [h2, this]
      · have : ¬ (n' ∈ n :: ns ∧ t' = t) := by
          rintro ⟨hm, ht⟩
          rcases List.mem_cons.mp hm with e | e
          · exact h2 ⟨e, ht⟩
          · exact h1 ⟨e, ht⟩
        rw [if_neg h2, if_neg this]

theorem setsNodup_registerAll (ns : List Name) (prod : PMap) (t : Nat) (p : Int) (h : SetsNodup prod) :
    SetsNodup (registerAll prod ns t p) := by
  unfold registerAll
  induction ns generalizing prod with
  | nil => exact h
  | cons n ns ih => exact ih _ (setsNodup_registerOne _ _ _ _ h)


/-- **priority order**: deliveries are non-increasing in the priority of the most specific match -/
theorem delivery_sorted (prod : PMap) (n : Name) : (delivery prod n).Pairwise (fun a b => a.1 ≥ b.1) := by
  have := List.pairwise_mergeSort (le := byPriority)
    (fun a b c h1 h2 => by simp only [byPriority, decide_eq_true_eq] at *; omega)
    (fun a b => by simp only [byPriority, Bool.or_eq_true, decide_eq_true_eq]; omega)
    ((gather prod (prefixes n)).map (fun tp => (tp.2, tp.1)))
  unfold delivery
  exact this.imp (fun h => by simpa [byPriority] using h)

/-- and they are the gathered targets, each once -/
theorem delivery_perm (prod : PMap) (n : Name) :
    (delivery prod n).Perm ((gather prod (prefixes n)).map (fun tp => (tp.2, tp.1))) := List.mergeSort_perm _ _



theorem lookup_stepMerge (prod : PMap) (e : Name × List (Nat × Int)) (hn : (keys e.2).Nodup) (n' : Name) (t : Nat) :
    lookup (stepMerge prod e) n' t = if n' = e.1 then (assocGet e.2 t).or (lookup prod n' t) else lookup prod n' t := by
  unfold stepMerge lookup
  cases hg : assocGet prod e.1 with
  | none =>
    simp only [assocGet_assocSet]
    by_cases h : n' = e.1
    · simp [h, hg]
    · simp [h]
  | some mine =>
    simp only [assocGet_assocSet]
    by_cases h : n' = e.1
    · simp only [h, if_true, Option.bind_some, hg]
      exact overlay_get _ _ hn t
    · simp [h]

/-- **merge**: after `n.RegisterFromNotifier(other)` a (name, target) pair has other's priority if other
    registers it and n's own otherwise — in particular for names both notifiers know -/
theorem merge_spec (other : PMap) (mine : PMap) (hk : (keys other).Nodup) (hs : SetsNodup other) (n' : Name) (t : Nat) :
    lookup (mergeProd mine other) n' t = (lookup other n' t).or (lookup mine n' t) := by
  unfold mergeProd
  induction other generalizing mine with
  | nil => simp [lookup, assocGet]
  | cons e rest ih =>
    obtain ⟨n, set⟩ := e
    simp only [List.foldl_cons]
    have hk' : (keys rest).Nodup := by unfold keys at hk ⊢; simp at hk; exact hk.2
    have hnot : n ∉ keys rest := by unfold keys at hk ⊢; simp at hk; simpa using hk.1
    have hset : (keys set).Nodup := hs n set (by simp [assocGet])
    have hs' : SetsNodup rest := by
      intro m s hm
      apply hs m s
      have : ¬ n = m := by
        intro e; subst e
        rw [(assocGet_none_iff rest n).mpr hnot] at hm; cases hm
      simp [assocGet, this, hm]
    rw [ih _ hk' hs', lookup_stepMerge _ _ hset]
    by_cases h : n' = n
    · subst h
      have hr : assocGet rest n' = none := (assocGet_none_iff rest n').mpr hnot
      simp [lookup, assocGet, hr]
    · have : ¬ n = n' := fun e => h e.symm
      simp [h, lookup, assocGet, this]


/-- the loop as it was before the repair (`for k1, v1 := range pm { pm[k1] = v1 }`): the destination's set is overlaid
    on itself, so a name known to both notifiers keeps only its old targets.  Not part of the model; used for the
    counterexample in `Props/C17.lean` (it is the seeded regression `seeded/revert-c17-merge`). -/
def stepMergeOrig (prod : PMap) (e : Name × List (Nat × Int)) : PMap :=
  match assocGet prod e.1 with
  | some mine => assocSet prod e.1 (overlay mine mine)
  | none => assocSet prod e.1 e.2

/-! ### the delivery loops in Go's panic semantics never let a panic out -/

theorem notifyTargetX_spec (pan : Nat → Bool) (n : Nat) (name : Name) (d : Int × Nat) :
    notifyTargetX pan n name d = ⟨notifyTarget pan n name d, none⟩ := by
  unfold notifyTargetX notifyTarget frame callTarget recovery reports?
  cases hp : pan d.2 <;> cases hh : handlerKind n <;> simp [Run.skip, frame, callHandler, recoveryNil]

theorem notifyBatchTargetX_spec (pan : Nat → Bool) (n : Nat) (start : Bool) (t : Nat) :
    notifyBatchTargetX pan n start t = ⟨notifyBatchTarget pan n start t, none⟩ := by
  unfold notifyBatchTargetX notifyBatchTarget frame callTarget recovery reports?
  cases hp : pan t <;> cases hh : handlerKind n <;> simp [Run.skip, frame, callHandler, recoveryNil]

theorem loopX_spec {α : Type} (f : α → Run) (g : α → List Event) (h : ∀ x, f x = ⟨g x, none⟩) (xs : List α) :
    loopX f xs = ⟨xs.flatMap g, none⟩ := by
  induction xs with
  | nil => rfl
  | cons x xs ih => simp [loopX, Run.seq, h x, ih]

/-- the notification loop, executed with panics propagating out of every frame that does not recover them, runs to
    its end (`out = none`) and makes exactly the calls of the closed form `deliverAll` -/
theorem deliverX_spec (pan : Nat → Bool) (n : Nat) (name : Name) (ds : List (Int × Nat)) :
    deliverX pan n name ds = ⟨deliverAll pan n name ds, none⟩ :=
  loopX_spec _ _ (notifyTargetX_spec pan n name) ds

theorem batchX_spec (pan : Nat → Bool) (n : Nat) (start : Bool) (ts : List Nat) :
    batchX pan n start ts = ⟨batchAll pan n start ts, none⟩ :=
  loopX_spec _ _ (notifyBatchTargetX_spec pan n start) ts

/-- `step` with the traces in closed form -/
def stepSpec (pan : Nat → Bool) (w : World) : Op → World × List Event
  | .register n t p raws => (w.set n (register (w n) t p raws), [])
  | .unregister n t => (w.set n (unregister (w n) t), [])
  | .merge n m => if n = m then (w, []) else (w.set n (mergeFrom (w n) (w m)), [])
  | .setEnabled n b => (w.set n (setEnabled (w n) b), [])
  | .reset n => (w.set n (reset (w n)), [])
  | .startBatch n => (w.set n (startBatch (w n)).1, batchAll pan n true (startBatch (w n)).2)
  | .endBatch n => (w.set n (endBatch (w n)).1, batchAll pan n false (endBatch (w n)).2)
  | .notify n raw => (w, deliverAll pan n (normalize raw) (notify (w n) raw))

theorem step_spec (pan : Nat → Bool) (w : World) (op : Op) : step pan w op = stepSpec pan w op := by
  cases op <;> simp only [step, stepSpec, deliverX_spec, batchX_spec]

/-- the variant with ONE recover around the whole loop (what a refactoring into
    `func notifyAll(list) { defer errs.Recovery(h); for … { target.HandleNotification(…) } }` gives; regression ind2-c17-b
    did this to the batch loop): not part of the model, used for the counter-example in `Props/C17.lean` -/
def deliverLoopLevel (pan : Nat → Bool) (n : Nat) (name : Name) (ds : List (Int × Nat)) : Run :=
  frame (loopX (fun d => callTarget pan (Event.handle n d.2 name d.1) d.2) ds)
    (fun p => recovery (handlerKind n) n (p.getD 0) p)

end Nt
