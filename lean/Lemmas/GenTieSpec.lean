import Lemmas.GenTie
import Lemmas.U128Basic
import Lemmas.I128Basic
import Lemmas.I128Div
/-! C01, translator tie — spec-based fallback (`Lemmas/GenTieSpec.lean`).

    `gen_tie` (Lemmas/GenTie.lean) identifies a regenerated definition with the model function by unfolding BOTH and
    comparing the leaves; bit-level subterms and the `math/bits` calls have to keep their form, so a rewrite that
    computes the same function another way (`Neg` as `0 - i` through `bits.Sub64`, `Abs` through `Neg`, the `…64`
    predicates through `Int128From64` and the 128-bit predicate, `Mul64` through `bits.Mul64`) is not proved.

    Fallback: go through the SPECIFICATION.  The model function is characterised by its value (`…_of_spec` below: a
    function with that value IS the model function — statements about the model only, they never change with the Go
    code), and `gen_spec` proves the value statement for the regenerated term: it unfolds the generated definitions
    and the `math/bits` contracts `add64 / sub64` into arithmetic over `toNat`, the values `toInt`, `toNat`,
    `int64Val` of the model into linear expressions of the words, splits every `if`, and closes the leaves by `omega`.
    Nothing in it depends on the shape of the generated term.  It is slower than `gen_tie` on a goal that is NOT
    provable (omega has to exhaust the case splits of the `/`, `%` introduced by the contracts), hence a fallback:
        first | gen_tie [...] [...] | (apply GenTieSpec.neg_of_spec; intro i; gen_spec)
    Multiplication is not linear: for `Mul64` the fallback is a second normal form of the MODEL
    (`mulW_eq_mul64`: the 32-bit schoolbook code computes `bits.Mul64(lo, n).hi + hi·n`), against which `gen_tie`
    itself then proves the `bits.Mul64` form of the code. -/

namespace GenTieSpec
open U128 (W)

/-! ## values of the model as linear expressions of the words -/

theorem toU_toNat (i : I128) : i.toU.toNat = i.hi.toNat * 18446744073709551616 + i.lo.toNat := rfl
theorem toNat_words (u : U128) : u.toNat = u.hi.toNat * 18446744073709551616 + u.lo.toNat := rfl
theorem toInt_words (i : I128) : i.toInt =
    if 9223372036854775808 ≤ i.hi.toNat
    then ((i.hi.toNat * 18446744073709551616 + i.lo.toNat : Nat) : Int) - 340282366920938463463374607431768211456
    else ((i.hi.toNat * 18446744073709551616 + i.lo.toNat : Nat) : Int) := rfl
theorem int64Val_words (n : W) : I128.int64Val n =
    if 9223372036854775808 ≤ n.toNat then (n.toNat : Int) - 18446744073709551616 else (n.toNat : Int) := rfl

/-- the sign bit of a word as a number (for sign tests that `gen_norm` does not recognise, e.g. against a constant) -/
theorem and_sign_toNat (x : W) : (x &&& 9223372036854775808#64).toNat =
    if 9223372036854775808 ≤ x.toNat then 9223372036854775808 else 0 := by
  have h := I128.and_signBit x
  have e : U128.signBit = 9223372036854775808#64 := rfl
  rw [e] at h; rw [h]
  have e2 : (2:Nat)^63 = 9223372036854775808 := by norm_num
  rw [e2]
  split <;> rfl

/-- a word with its sign bit flipped (the order-preserving map from signed to unsigned words that a rewrite may compare
    through) -/
theorem xor_sign_toNat (x : BitVec 64) : (x ^^^ 9223372036854775808#64).toNat =
    if 9223372036854775808 ≤ x.toNat then x.toNat - 9223372036854775808 else x.toNat + 9223372036854775808 := by
  have hx := x.isLt
  rw [BitVec.toNat_xor]
  have e : (9223372036854775808#64 : BitVec 64).toNat = 2^63 := by decide
  rw [e]
  have hm : (x.toNat ^^^ 2^63) % 2^63 = x.toNat % 2^63 := by
    rw [Nat.xor_mod_two_pow, Nat.mod_self, Nat.xor_zero]
  have hd : (x.toNat ^^^ 2^63) / 2^63 = (x.toNat / 2^63) ^^^ 1 := by
    rw [Nat.xor_div_two_pow, Nat.div_self (by decide)]
  have hq : x.toNat / 2^63 = 0 ∨ x.toNat / 2^63 = 1 := by omega
  have hdm := Nat.div_add_mod (x.toNat ^^^ 2^63) (2^63)
  have hdm' := Nat.div_add_mod x.toNat (2^63)
  rcases hq with h | h
  · rw [h] at hd hdm'
    have : (0:Nat) ^^^ 1 = 1 := by decide
    rw [this] at hd
    split <;> omega
  · rw [h] at hd hdm'
    have : (1:Nat) ^^^ 1 = 0 := by decide
    rw [this] at hd
    split <;> omega

/-! ## the model functions characterised by their value -/

theorem I128_ext {a b : I128} (h : a.toU.toNat = b.toU.toNat) : a = b := by
  have := U128.toNat_inj h
  cases a; cases b; simp only [I128.toU, U128.mk.injEq] at this; simp only [I128.mk.injEq]; exact this

/-- `Int128.Neg`: the result is `2^128 − i` reduced mod 2^128 -/
theorem neg_of_spec (i r : I128)
    (h : r.toU.toNat = (2^128 - i.toU.toNat) % 2^128) :
    r = I128.neg i := I128_ext (by rw [h, I128.neg_toNat])

theorem abs_toNat (i : I128) : i.abs.toU.toNat =
    if 2^127 ≤ i.toU.toNat
    then (2^128 - i.toU.toNat) % 2^128
    else i.toU.toNat := by
  have := i.hi.isLt; have := i.lo.isLt
  unfold I128.abs
  by_cases h : i.hi &&& U128.signBit ≠ 0#64
  · have hn : 2^63 ≤ i.hi.toNat := by
      have := (I128.sign_zero_iff i.hi).not.mp h; omega
    rw [if_pos h, if_pos (by rw [toU_toNat]; omega)]
    exact I128.negA' i
  · have hn : i.hi.toNat < 2^63 := (I128.sign_zero_iff i.hi).mp (by simpa using h)
    rw [if_neg h, if_neg (by rw [toU_toNat]; omega)]

/-- `Int128.Abs` (two cases instead of an `if`: see `gen_spec`) -/
theorem abs_of_spec (i r : I128)
    (h1 : 2^127 ≤ i.toU.toNat → r.toU.toNat = (2^128 - i.toU.toNat) % 2^128)
    (h2 : i.toU.toNat < 2^127 → r.toU.toNat = i.toU.toNat) : r = I128.abs i := by
  apply I128_ext; rw [abs_toNat]
  split
  · rename_i h; exact h1 h
  · rename_i h; exact h2 (by omega)

theorem absUint128_toNat (i : I128) : i.absUint128.toNat =
    if 2^127 ≤ i.toU.toNat
    then (2^128 - i.toU.toNat) % 2^128
    else i.toU.toNat := by
  have h := I128.absUint128_toNat i
  have hr := I128.toInt_range i
  have hlt := i.toU.toNat_lt
  rw [I128.toInt_eq] at h
  split <;> split at h <;> omega

/-- `Int128.AbsUint128` -/
theorem absUint128_of_spec (i : I128) (r : U128)
    (h1 : 2^127 ≤ i.toU.toNat → r.toNat = (2^128 - i.toU.toNat) % 2^128)
    (h2 : i.toU.toNat < 2^127 → r.toNat = i.toU.toNat) : r = I128.absUint128 i := by
  apply U128.toNat_inj; rw [absUint128_toNat]
  split
  · rename_i h; exact h1 h
  · rename_i h; exact h2 (by omega)

/-- a three-way comparison result (`Cmp`, `Cmp64`, `Sign` as Go `int`s read as numbers) from its three cases -/
theorem cmp_of_spec (x y c : Int) (h1 : x < y → c = -1) (h2 : x = y → c = 0) (h3 : y < x → c = 1) :
    c = if x < y then -1 else if x = y then 0 else 1 := by
  split
  · rename_i h; exact h1 h
  · split
    · rename_i h; exact h2 h
    · exact h3 (by omega)

theorem cmp_of_spec_nat (x y : Nat) (c : Int) (h1 : x < y → c = -1) (h2 : x = y → c = 0) (h3 : y < x → c = 1) :
    c = if x < y then -1 else if x = y then 0 else 1 := by
  split
  · rename_i h; exact h1 h
  · split
    · rename_i h; exact h2 h
    · exact h3 (by omega)

/-- `Add / Sub / Inc / Dec` (both types): the result mod 2^128.  (No lemma of this kind for `Int128.Add64 / Sub64`:
    with the sign extension of the `int64` operand the kernel needs minutes to check the `omega` certificate; for those
    two `gen_tie` remains the only script.) -/
theorem add_of_spec (a b r : U128) (h : r.toNat = (a.toNat + b.toNat) % 2^128) :
    r = a.add b := U128.toNat_inj (by rw [h, U128.add_toNat])
theorem sub_of_spec (a b r : U128)
    (h : r.toNat = (a.toNat + 2^128 - b.toNat) % 2^128) :
    r = a.sub b := U128.toNat_inj (by rw [h, U128.sub_toNat])
theorem addW_of_spec (a : U128) (n : W) (r : U128)
    (h : r.toNat = (a.toNat + n.toNat) % 2^128) : r = a.addW n :=
  U128.toNat_inj (by rw [h, U128.addW_toNat])
theorem subW_of_spec (a : U128) (n : W) (r : U128)
    (h : r.toNat = (a.toNat + 2^128 - n.toNat) % 2^128) :
    r = a.subW n := U128.toNat_inj (by rw [h, U128.subW_toNat])
theorem inc_of_spec (a r : U128) (h : r.toNat = (a.toNat + 1) % 2^128) :
    r = a.inc := U128.toNat_inj (by rw [h, U128.inc_toNat])
theorem dec_of_spec (a r : U128)
    (h : r.toNat = (a.toNat + 2^128 - 1) % 2^128) :
    r = a.dec := U128.toNat_inj (by rw [h, U128.dec_toNat])
theorem iadd_of_spec (a b r : I128)
    (h : r.toU.toNat = (a.toU.toNat + b.toU.toNat) % 2^128) : r = a.add b :=
  I128_ext (by rw [h, I128.add_toU, U128.add_toNat])
theorem isub_of_spec (a b r : I128)
    (h : r.toU.toNat = (a.toU.toNat + 2^128 - b.toU.toNat) %
      2^128) : r = a.sub b :=
  I128_ext (by rw [h, I128.sub_toU, U128.sub_toNat])
/-! ## `Mul64`: a second normal form of the model -/

/-- the 32-bit schoolbook code of `Mul64` computes `bits.Mul64(u.lo, n)` plus `u.hi·n` in the upper word -/
theorem mulW_eq_mul64 (u : U128) (n : W) :
    U128.mulW u n = ⟨(U128.mul64 u.lo n).1 + u.hi * n, (U128.mul64 u.lo n).2⟩ := by
  apply U128.toNat_inj
  rw [U128.mulW_toNat]
  have := u.hi.isLt; have := u.lo.isLt; have := n.isLt
  simp only [U128.toNat, U128.mul64, BitVec.toNat_add, BitVec.toNat_mul, BitVec.toNat_ofNat]
  have e : (u.hi.toNat * 2^64 + u.lo.toNat) * n.toNat = (u.hi.toNat * n.toNat) * 2^64 + u.lo.toNat * n.toNat := by
    rw [Nat.add_mul, Nat.mul_assoc, Nat.mul_comm (2^64), ← Nat.mul_assoc]
  rw [e]
  generalize u.hi.toNat * n.toNat = A
  generalize u.lo.toNat * n.toNat = B
  omega
/-- … and `Mul` by a word-sized second operand (the form `u.Mul(Uint128From64(n))`) is `Mul64` -/
theorem mul_from64 (u : U128) (n : W) : U128.mul u (U128.from64 n) = U128.mulW u n := by
  apply U128.toNat_inj
  rw [U128.mul_toNat, U128.mulW_toNat]
  have : (U128.from64 n).toNat = n.toNat := U128.mk0_toNat n
  rw [this]

end GenTieSpec

/-! ## the value-level script -/

/-- prove a value statement about a regenerated term (see the header).  `gen_spec [extra simp lemmas]`.
    The generated definitions are unfolded by `dsimp` with `instances := true`: `simp only [gen_def]` rewrites the
    proposition under a `decide` but not its `Decidable` instance (e.g. `(Int128From64 n).lo` becomes `n` in the one and
    stays in the other), after which no lemma about `decide` applies any more and `split_ifs` stops working. -/
syntax "gen_spec" ("[" Lean.Parser.Tactic.simpLemma,* "]")? : tactic
macro_rules
  | `(tactic| gen_spec) => `(tactic| gen_spec [eq_self_iff_true])
  | `(tactic| gen_spec [$ls,*]) => `(tactic|
      (try with_reducible refine Bool.eq_iff_iff.mpr ?_) <;>
      (dsimp (config := {instances := true}) only [gen_def]) <;>
      (try dsimp (config := {instances := true}) only [gen_const]) <;>
      (try simp only [$ls,*]) <;>
      (try dsimp (config := {instances := true}) only [I128.toU, I128.ofU, U128.add64, U128.sub64] at *) <;>
      (try simp (config := {instances := true}) only [Bool.and_eq_true, Bool.or_eq_true, decide_eq_true_eq,
        Bool.not_eq_true', decide_eq_false_iff_not, Bool.false_eq_true, Bool.true_eq_false, Bool.not_eq_eq_eq_not,
        Bool.not_true, Bool.not_false] at *) <;>
      (try split_ifs at *) <;>
      (try simp (config := {instances := true}) only [Bool.and_eq_true, Bool.or_eq_true, decide_eq_true_eq,
        Bool.not_eq_true', decide_eq_false_iff_not, Bool.false_eq_true, Bool.true_eq_false, Bool.not_eq_eq_eq_not,
        Bool.not_true, Bool.not_false, true_iff, iff_true, false_iff, iff_false, not_true_eq_false,
        not_false_eq_true, decide_eq_decide] at *) <;>
      (try simp (config := {instances := true}) only [GenTieSpec.toU_toNat, GenTieSpec.toNat_words,
        GenTieSpec.toInt_words, GenTieSpec.int64Val_words, U128.borrow_toNat,
        apply_ite BitVec.toNat, apply_ite BitVec.toInt, apply_ite I128.hi, apply_ite I128.lo, apply_ite U128.hi,
        apply_ite U128.lo, apply_ite Prod.fst, apply_ite Prod.snd,
        BitVec.toNat_add, BitVec.toNat_sub, BitVec.toNat_not, BitVec.toNat_neg, BitVec.toNat_ofNat] at *) <;>
      gen_norm <;>
      (try simp only [BitVec.toNat_add, BitVec.toNat_sub, BitVec.toNat_not, BitVec.toNat_neg, BitVec.toNat_ofNat,
        BitVec.reduceToNat, BitVec.reduceToInt, apply_ite BitVec.toNat, apply_ite BitVec.toInt, GenTie.toInt_eq,
        GenTieSpec.and_sign_toNat, GenTieSpec.xor_sign_toNat, Nat.reducePow, Nat.reduceMod, Nat.reduceSub, Nat.reduceAdd] at *) <;>
      (try split_ifs at *) <;>
      (try simp only [decide_eq_true_eq, decide_eq_false_iff_not, Decidable.not_not, Nat.not_lt, Nat.not_le,
        Int.not_lt, Int.not_le] at *) <;>
      first
        | with_reducible rfl
        | omega
        | (simp only [true_iff, iff_true, false_iff, iff_false, not_true_eq_false, not_false_eq_true, Nat.not_lt,
             Nat.not_le, Int.not_lt, Int.not_le, eq_self_iff_true, Bool.true_eq_false, Bool.false_eq_true,
             iff_self] at * <;> omega))

/-! ## how `Props/C01Gen.lean` can use this file (scripts checked against the definitions regenerated from the reference
    tree AND from `seeded/rewrite-ind5-c01`, ~25 s for all of them; on the behaviour-changing trees `ind3-c01-b`,
    `own-c01-11/16/22` exactly the theorems of the changed functions fail, the whole file in ~30 s)

    structure-valued functions — `apply` the characterisation, prove the value:
        theorem Int128_Neg_eq : Gen.Int128_Neg = I128.neg := by
          funext i; first | gen_tie [I128.neg] [I128.minI128, U128.signBit]
                          | (apply GenTieSpec.neg_of_spec; gen_spec)
        Int128_Abs_eq          … | (apply GenTieSpec.abs_of_spec <;> intro h <;> gen_spec)
        Int128_AbsUint128_eq   … | (apply GenTieSpec.absUint128_of_spec <;> intro h <;> gen_spec)
        Uint128_Add_eq / Sub / Add64 / Sub64 / Inc / Dec
                               … | (apply GenTieSpec.add_of_spec; gen_spec)          (sub_of_spec, addW_of_spec, …)
        Int128_Add_eq / Sub    … | (apply GenTieSpec.iadd_of_spec; gen_spec)
        Int128_Inc_eq          … | (apply GenTieSpec.I128_ext; rw [I128.inc_toU, U128.inc_toNat]; gen_spec)
        Int128From64_eq        … | (apply I128.toInt_inj; rw [I128.from64_toInt]; gen_spec)
        Uint128_Mul64_eq       funext u n; first | gen_tie [U128.mulW] [U128.mask32] | gen_tie [GenTieSpec.mulW_eq_mul64]
    `Bool`-valued functions — rewrite the model side with its specification from `Props/C01.lean`:
        Int128_LessThan64_eq   funext i n; first | gen_tie […] […] | (rw [C01.ilt64_spec]; gen_spec)
        (igt64_spec, ige64_spec, ile64_spec, ieq64_spec, ilt_spec, ige_spec, …, lessThan_spec, equal_spec, isZero_spec,
         iisZero_spec, greaterThanOrEqual64_spec, …)
    three-way results (`int` read by `toInt`) — one goal per case:
        Int128_Cmp64_eq        first | gen_tie […] […]
                                     | (rw [C01.icmp64_spec]; apply GenTieSpec.cmp_of_spec <;> intro h <;> gen_spec)
        Int128_Cmp_eq (icmp_spec), Int128_Sign_eq (sign_spec, cmp_of_spec with y = 0),
        Uint128_Cmp_eq / Cmp64 (cmp_spec / cmp64_spec with cmp_of_spec_nat)
      the two signed `Cmp`s through a deduplicated `LessThan` split into ~100 leaves: they need
      `set_option maxHeartbeats 1600000 in` (≈ 10 s).
    Not covered: `Int128.Add64 / Sub64` (see above), the bit-level functions (`And … Xor64`, shifts, `Bit`, `SetBit`,
    `BitLen` …: their values are not linear in the words; `gen_tie` compares them structurally), `Mul` (only the
    normal forms above). -/
