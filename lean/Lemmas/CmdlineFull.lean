import Lemmas.CmdlineDecl
namespace Cmd

theorem digits_ge (base : Nat) (s : Str) : ∀ (a m : Nat), digits base s a = some m → a ≤ m := by
  induction s with
  | nil => intro a m h; simp [digits] at h; omega
  | cons c t ih =>
    intro a m h
    unfold digits at h
    by_cases hc : c = 95
    · simp only [hc, if_true] at h; exact ih a m h
    · simp only [hc, if_false] at h
      cases hd : digitVal c with
      | none => simp [hd] at h
      | some d =>
        simp only [hd] at h
        by_cases hb : d < base
        · simp only [hb, if_true] at h
          have := ih _ m h
          have : a ≤ a * base := Nat.le_mul_of_pos_right a (by omega)
          omega
        · simp [hb] at h

/-- the scan-order digit loop accepts exactly the strings the unbounded loop accepts with a value within the limit -/
theorem scanU_ok (base M : Nat) (s : Str) : ∀ (a m : Nat), a ≤ M →
    (scanU base M s a = .ok m ↔ digits base s a = some m ∧ m ≤ M) := by
  induction s with
  | nil =>
    intro a m ha
    simp only [scanU, digits, ScanRes.ok.injEq, Option.some.injEq]
    constructor
    · intro h; subst h; exact ⟨rfl, ha⟩
    · intro h; exact h.1
  | cons c t ih =>
    intro a m ha
    unfold scanU digits
    by_cases hc : c = 95
    · simp only [hc, if_true]; exact ih a m ha
    · simp only [hc, if_false]
      cases hd : digitVal c with
      | none => simp
      | some d =>
        simp only
        by_cases hb : d < base
        · have hb' : ¬ base ≤ d := by omega
          simp only [hb, hb', if_true, if_false]
          by_cases hr : M < a * base + d
          · simp only [hr, if_true]
            constructor
            · intro h; cases h
            · intro ⟨h1, h2⟩
              have := digits_ge base t _ m h1
              omega
          · simp only [hr, if_false]
            exact ih _ m (by omega)
        · have hb' : base ≤ d := by omega
          simp [hb, hb']

/-- `ParseUint` with its error values accepts exactly what `Cmd.parseUint` accepts, with the same value -/
theorem parseUintFull_ok (bits : Nat) (s : Str) (n : Nat) :
    parseUintFull bits s = .ok n ↔ parseUint bits s = some (n : Int) := by
  have hpow : 0 < 2 ^ bits := Nat.pos_of_ne_zero (by simp)
  unfold parseUintFull parseUint parseNat
  by_cases hs : s = []
  · simp [hs]
  · simp only [hs, if_false]
    generalize (s.contains 95 && !underscoreOK s) = u
    cases hsc : scanU (splitBase s).1 (2 ^ bits - 1) (splitBase s).2 0 with
    | ok m =>
      have := (scanU_ok _ _ _ 0 m (by omega)).1 hsc
      simp only [this.1]
      cases u
      · simp only [Bool.false_eq_true, if_false, ScanRes.ok.injEq]
        have hm : m < 2 ^ bits := by omega
        simp only [hm, if_true, Option.some.injEq]
        constructor
        · intro h; subst h; rfl
        · intro h; exact Int.ofNat.inj h
      · simp
    | «syntax» =>
      simp only
      constructor
      · intro h; cases h
      · intro h
        exfalso
        cases hdg : digits (splitBase s).1 (splitBase s).2 0 with
        | none => simp [hdg] at h
        | some m =>
          simp only [hdg] at h
          cases u
          · simp only [Bool.false_eq_true, if_false] at h
            by_cases hm : m < 2 ^ bits
            · have := (scanU_ok (splitBase s).1 (2 ^ bits - 1) (splitBase s).2 0 m (by omega)).2 ⟨hdg, by omega⟩
              rw [hsc] at this; cases this
            · simp [hm] at h
          · simp at h
    | range =>
      simp only
      constructor
      · intro h; cases h
      · intro h
        exfalso
        cases hdg : digits (splitBase s).1 (splitBase s).2 0 with
        | none => simp [hdg] at h
        | some m =>
          simp only [hdg] at h
          cases u
          · simp only [Bool.false_eq_true, if_false] at h
            by_cases hm : m < 2 ^ bits
            · have := (scanU_ok (splitBase s).1 (2 ^ bits - 1) (splitBase s).2 0 m (by omega)).2 ⟨hdg, by omega⟩
              rw [hsc] at this; cases this
            · simp [hm] at h
          · simp at h

end Cmd

namespace Cmd

theorem parseUint_some (bits : Nat) (s : Str) (n : Nat) :
    parseUint bits s = some (n : Int) ↔ parseNat s = some n ∧ n < 2 ^ bits := by
  unfold parseUint
  cases h : parseNat s with
  | none => simp
  | some m =>
    simp only [Option.some.injEq]
    by_cases hm : m < 2 ^ bits
    · simp only [hm, if_true, Option.some.injEq]
      constructor
      · intro e; have : m = n := Int.ofNat.inj e; subst this; exact ⟨rfl, hm⟩
      · intro ⟨e, _⟩; subst e; rfl
    · simp only [hm, if_false]
      constructor
      · intro e; cases e
      · intro ⟨e, h2⟩; subst e; exact absurd h2 hm

/-- the three outcomes of `parseUintFull`, read through `parseNat` -/
theorem parseUintFull_cases (bits : Nat) (s : Str) :
    (∃ n, parseUintFull bits s = .ok n ∧ parseNat s = some n ∧ n < 2 ^ bits) ∨
    ((∀ n, parseUintFull bits s ≠ .ok n) ∧ ∀ n, parseNat s = some n → ¬ n < 2 ^ bits) := by
  cases h : parseUintFull bits s with
  | ok n =>
    left
    exact ⟨n, rfl, (parseUint_some bits s n).1 ((parseUintFull_ok bits s n).1 h)⟩
  | «syntax» =>
    right
    refine ⟨(by intro n e; cases e), ?_⟩
    intro n hn hlt
    have := (parseUintFull_ok bits s n).2 ((parseUint_some bits s n).2 ⟨hn, hlt⟩)
    rw [h] at this; cases this
  | range =>
    right
    refine ⟨(by intro n e; cases e), ?_⟩
    intro n hn hlt
    have := (parseUintFull_ok bits s n).2 ((parseUint_some bits s n).2 ⟨hn, hlt⟩)
    rw [h] at this; cases this

end Cmd

namespace Cmd

theorem pow_facts (bits : Nat) (hb : 2 ≤ bits) : 2 ≤ 2 ^ (bits - 1) ∧ 2 ^ bits = 2 * 2 ^ (bits - 1) := by
  obtain ⟨k, rfl⟩ : ∃ k, bits = k + 2 := ⟨bits - 2, by omega⟩
  have h1 : k + 2 - 1 = k + 1 := by omega
  rw [h1]
  have h2 : 0 < 2 ^ k := Nat.pos_of_ne_zero (by simp)
  constructor
  · rw [Nat.pow_succ]; omega
  · rw [Nat.pow_succ 2 (k + 1)]; omega

/-- sign handled: `neg` says whether the text started with `-`; `body` is the text behind the sign -/
def intOfBody (bits : Nat) (neg : Bool) (body : Str) : Int × Bool :=
  match parseUintFull bits body with
  | .syntax => (0, false)
  | .range => if neg then (-((2 ^ (bits - 1) : Nat) : Int), false) else (((2 ^ (bits - 1) - 1 : Nat) : Int), false)
  | .ok un =>
    if !neg && 2 ^ (bits - 1) ≤ un then (((2 ^ (bits - 1) - 1 : Nat) : Int), false)
    else if neg && 2 ^ (bits - 1) < un then (-((2 ^ (bits - 1) : Nat) : Int), false)
    else ((if neg then -(un : Int) else (un : Int)), true)

def intOfBodySpec (bits : Nat) (neg : Bool) (body : Str) : Option Int :=
  match parseNat body with
  | some n => if neg then (if n ≤ 2 ^ (bits - 1) then some (-(n : Int)) else none)
              else (if n < 2 ^ (bits - 1) then some (n : Int) else none)
  | none => none

theorem intOfBody_ok (bits : Nat) (hb : 2 ≤ bits) (neg : Bool) (body : Str) (v : Int) :
    intOfBody bits neg body = (v, true) ↔ intOfBodySpec bits neg body = some v := by
  obtain ⟨hP2, hpow⟩ := pow_facts bits hb
  unfold intOfBody intOfBodySpec
  generalize hP : 2 ^ (bits - 1) = P at *
  rcases parseUintFull_cases bits body with ⟨n, h1, h2, h3⟩ | ⟨h1, h2⟩
  · rw [h1, h2]
    simp only
    cases neg
    · simp only [Bool.not_false, Bool.true_and, Bool.false_and, Bool.false_eq_true, if_false, decide_eq_true_eq]
      by_cases hn : P ≤ n
      · have : ¬ n < P := by omega
        simp [hn, this]
      · have : n < P := by omega
        simp [hn, this]
    · simp only [Bool.not_true, Bool.false_and, Bool.true_and, Bool.false_eq_true, if_false, if_true, decide_eq_true_eq]
      by_cases hn : P < n
      · have : ¬ n ≤ P := by omega
        simp [hn, this]
      · have : n ≤ P := by omega
        simp [hn, this]
  · have hspec : (match parseNat body with
        | some n => if neg then (if n ≤ P then some (-(n : Int)) else none) else (if n < P then some (n : Int) else none)
        | none => none) = none := by
      cases hpn : parseNat body with
      | none => rfl
      | some n =>
        have := h2 n hpn
        have h4 : ¬ n ≤ P := by omega
        have h5 : ¬ n < P := by omega
        cases neg <;> simp [h4, h5]
    rw [hspec]
    cases hres : parseUintFull bits body with
    | ok n => exact absurd hres (h1 n)
    | «syntax» => simp
    | range => cases neg <;> simp

end Cmd

namespace Cmd

theorem parseIntFull_eq (bits : Nat) (hb : 2 ≤ bits) (c : Nat) (r : Str) :
    parseIntFull bits (c :: r) = intOfBody bits (decide (c = 45)) (if c = 43 ∨ c = 45 then r else c :: r) := by
  obtain ⟨hP2, hpow⟩ := pow_facts bits hb
  unfold parseIntFull intOfBody
  simp only
  generalize (if c = 43 ∨ c = 45 then r else c :: r) = body
  cases parseUintFull bits body with
  | «syntax» => rfl
  | ok n =>
    simp only
    have e1 : ((2 : Int) ^ (bits - 1)) = ((2 ^ (bits - 1) : Nat) : Int) := by simp
    rw [e1]
    simp only [Int.ofNat_le, Int.ofNat_lt]
    by_cases hc : c = 45 <;> simp [hc]
  | range =>
    simp only
    have h1 : 2 ^ (bits - 1) ≤ 2 ^ bits - 1 := by omega
    have h2 : 2 ^ (bits - 1) < 2 ^ bits - 1 := by omega
    have i2 : ((2 : Int) ^ (bits - 1)) < (2 : Int) ^ bits - 1 := by
      have a : ((2 ^ (bits - 1) : Nat) : Int) < ((2 ^ bits : Nat) : Int) - 1 := by omega
      simpa using a
    have i1 : ((2 : Int) ^ (bits - 1)) ≤ (2 : Int) ^ bits - 1 := Int.le_of_lt i2
    by_cases hc : c = 45 <;> simp [hc, i1, i2]

theorem parseInt_eq (bits : Nat) (c : Nat) (r : Str) :
    parseInt bits (c :: r) = intOfBodySpec bits (decide (c = 45)) (if c = 43 ∨ c = 45 then r else c :: r) := by
  by_cases h43 : c = 43
  · subst h43
    simp only [parseInt, intOfBodySpec, true_or, if_true]
    cases parseNat r <;> simp
  · by_cases h45 : c = 45
    · subst h45
      simp only [parseInt, intOfBodySpec, or_true, if_true]
      cases parseNat r <;> simp
    · have hb : (if c = 43 ∨ c = 45 then r else c :: r) = c :: r := by simp [h43, h45]
      rw [hb]
      unfold parseInt
      split
      · rename_i heq; cases heq
      · rename_i heq; injection heq with e _; exact absurd e h43
      · rename_i heq; injection heq with e _; exact absurd e h45
      · simp only [intOfBodySpec, h45, decide_false, Bool.false_eq_true, if_false]
        cases parseNat (c :: r) <;> simp

/-- **the two transcriptions of `strconv.ParseInt` agree**: the scan-order parser with error values (`parseIntFull`, used for
    what a failing `Set` stores) succeeds exactly where `parseInt` (used for every successful `Set`) does, with the same
    value -/
theorem parseIntFull_ok (bits : Nat) (hb : 2 ≤ bits) (s : Str) (v : Int) :
    parseIntFull bits s = (v, true) ↔ parseInt bits s = some v := by
  cases s with
  | nil => simp [parseIntFull, parseInt]
  | cons c r => rw [parseIntFull_eq bits hb, parseInt_eq, intOfBody_ok bits hb]

end Cmd
