import Model.Eval
/-! C09: the stacks a rejected `parse` leaves behind (`Eval.parseLoopL`), and fuel-driven twins of the two scan loops
    (structural recursion, so that concrete inputs can be evaluated by the kernel in examples and contrasts).
    Core only. -/
namespace Eval

/-- when `parse` accepts, the stacks it leaves are its result -/
theorem parseLoopL_ok (ops : List Op) (fns : List Bytes) :
    ∀ (n : Nat) (pre rest : Bytes) (st : St) (hv : Bool) (un : Option Op) (st' : St), rest.length < n →
      parseLoop ops fns pre rest st hv un = .ok st' → parseLoopL ops fns pre rest st hv un = st' := by
  intro n
  induction n with
  | zero => intro pre rest st hv un st' h; omega
  | succ n ih =>
    intro pre rest st hv un st' hlen h
    cases rest with
    | nil =>
      rw [parseLoop] at h
      rw [parseLoopL]
      injection h
    | cons c t =>
      rw [parseLoop] at h
      rw [parseLoopL]
      by_cases hs : isScanSpace c = true
      · simp only [hs, if_true] at h ⊢
        exact ih _ _ _ _ _ _ (by simp at hlen; omega) h
      · simp only [hs, if_false, Bool.false_eq_true] at h ⊢
        cases hstep : scanStep ops fns pre c t st hv un with
        | done r =>
          simp only [hstep] at h ⊢
          subst h
          rfl
        | cont p r s2 hv' un' =>
          simp only [hstep] at h ⊢
          by_cases hl : r.length < (c :: t).length
          · simp only [hl, if_true] at h ⊢
            exact ih _ _ _ _ _ _ (by simp at hlen hl; omega) h
          · simp only [hl, if_false] at h
            cases h

/-- `parseLoop` driven by fuel -/
def parseLoopF (ops : List Op) (fns : List Bytes) : Nat → Bytes → Bytes → St → Bool → Option Op → R St
  | 0, _, _, _, _, _ => .panic
  | fuel + 1, pre, rest, st, hv, un =>
    match rest with
    | [] => .ok st
    | c :: t =>
      if isScanSpace c then parseLoopF ops fns fuel (c :: pre) t st hv un
      else
        match scanStep ops fns pre c t st hv un with
        | .done r => r
        | .cont p r st' hv' un' =>
          if r.length < (c :: t).length then parseLoopF ops fns fuel p r st' hv' un' else .panic

/-- `parseLoopL` driven by fuel -/
def parseLoopLF (ops : List Op) (fns : List Bytes) : Nat → Bytes → Bytes → St → Bool → Option Op → St
  | 0, _, _, st, _, _ => st
  | fuel + 1, pre, rest, st, hv, un =>
    match rest with
    | [] => st
    | c :: t =>
      if isScanSpace c then parseLoopLF ops fns fuel (c :: pre) t st hv un
      else
        match scanStep ops fns pre c t st hv un with
        | .done (.ok st') => st'
        | .done _ => scanStepL ops fns pre c t st hv un
        | .cont p r st' hv' un' =>
          if r.length < (c :: t).length then parseLoopLF ops fns fuel p r st' hv' un' else st'

theorem parseLoopF_eq (ops : List Op) (fns : List Bytes) :
    ∀ (n : Nat) (pre rest : Bytes) (st : St) (hv : Bool) (un : Option Op), rest.length < n →
      parseLoopF ops fns n pre rest st hv un = parseLoop ops fns pre rest st hv un := by
  intro n
  induction n with
  | zero => intro pre rest st hv un h; omega
  | succ n ih =>
    intro pre rest st hv un hlen
    cases rest with
    | nil => rw [parseLoop]; rfl
    | cons c t =>
      rw [parseLoop]
      simp only [parseLoopF]
      by_cases hs : isScanSpace c = true
      · simp only [hs, if_true]
        exact ih _ _ _ _ _ (by simp at hlen; omega)
      · simp only [hs, if_false, Bool.false_eq_true]
        cases hstep : scanStep ops fns pre c t st hv un with
        | done r => rfl
        | cont p r s2 hv' un' =>
          simp only
          by_cases hl : r.length < (c :: t).length
          · simp only [hl, if_true]
            exact ih _ _ _ _ _ (by simp at hlen hl; omega)
          · simp only [hl, if_false]

theorem parseLoopLF_eq (ops : List Op) (fns : List Bytes) :
    ∀ (n : Nat) (pre rest : Bytes) (st : St) (hv : Bool) (un : Option Op), rest.length < n →
      parseLoopLF ops fns n pre rest st hv un = parseLoopL ops fns pre rest st hv un := by
  intro n
  induction n with
  | zero => intro pre rest st hv un h; omega
  | succ n ih =>
    intro pre rest st hv un hlen
    cases rest with
    | nil => rw [parseLoopL]; rfl
    | cons c t =>
      rw [parseLoopL]
      simp only [parseLoopLF]
      by_cases hs : isScanSpace c = true
      · simp only [hs, if_true]
        exact ih _ _ _ _ _ (by simp at hlen; omega)
      · simp only [hs, if_false, Bool.false_eq_true]
        cases hstep : scanStep ops fns pre c t st hv un with
        | done r => cases r <;> rfl
        | cont p r s2 hv' un' =>
          simp only
          by_cases hl : r.length < (c :: t).length
          · simp only [hl, if_true]
            exact ih _ _ _ _ _ (by simp at hlen hl; omega)
          · simp only [hl, if_false]

end Eval
