import Lemmas.FixedBase

/-! C03: the f64 model equals the exact specification whenever the exact intermediates and result fit 64 bits. -/
namespace Fixed.F64
open Fixed Fixed.Spec

theorem add_exact {a b : Int} (h : fits64 (a + b)) : add a b = a + b := wrap64_of_fits h
theorem sub_exact {a b : Int} (h : fits64 (a - b)) : sub a b = a - b := wrap64_of_fits h

theorem mul_eq {m a b : Int} (hm : Mult m) (hp : fits64 (a * b)) : mul m a b = fxMul m a b := by
  unfold mul quo mulI fxMul
  rw [wrap64_of_fits hp, wrap64_of_fits (fits64_tdiv hp hm.pos)]

theorem div_eq {m a b : Int} (hb : b ≠ 0) (hp : fits64 (a * m)) (hq : fits64 ((a * m).tdiv b)) :
    div m a b = some (fxDiv m a b) := by
  unfold div quo mulI fxDiv
  rw [if_neg hb, wrap64_of_fits hp, wrap64_of_fits hq]

theorem trunc_eq {m a : Int} (hm : Mult m) (ha : fits64 a) : trunc m a = fxTrunc m a := by
  unfold trunc quo mulI fxTrunc
  rw [wrap64_of_fits (fits64_tdiv ha hm.pos), wrap64_of_fits (fits64_tdiv_mul ha)]

/-- the product `b · Trunc(a/b)` formed inside `Mod` is representable as soon as `a·mult` is -/
theorem mod_inner_fits {m a b : Int} (hm : Mult m) (hp : fits64 (a * m)) : fits64 (b * (a.tdiv b * m)) := by
  have h := tdiv_mul_between a b
  have hm0 := hm.pos
  have e : b * (a.tdiv b * m) = (a.tdiv b * b) * m := by ring
  rw [e]
  unfold fits64 at *
  by_cases ha : 0 ≤ a
  · obtain ⟨h1, h2⟩ := h.1 ha
    have : 0 ≤ a.tdiv b * b * m := by positivity
    have : a.tdiv b * b * m ≤ a * m := by nlinarith
    omega
  · obtain ⟨h1, h2⟩ := h.2 (by omega)
    have : a.tdiv b * b * m ≤ 0 := by nlinarith
    have : a * m ≤ a.tdiv b * b * m := by nlinarith
    omega

theorem rem_eq {a b : Int} (ha : fits64 a) : rem a b = a.tmod b := by
  unfold rem; exact wrap64_of_fits (fits64_tmod ha)

/-- **Mod** (`f % value`) is the truncated remainder of the raw values for EVERY dividend and every non-zero divisor:
    no intermediate product exists any more, and the exact result always fits (`|a tmod b| ≤ |a|`) -/
theorem mod_tmod {m a b : Int} (ha : fits64 a) (hb : b ≠ 0) : mod m a b = some (a.tmod b) := by
  unfold mod; rw [if_neg hb, rem_eq ha]

/-- the earlier, weaker statement (Mod through Div·Mul needed Div's hypotheses); kept for its users -/
theorem mod_eq {m a b : Int} (_hm : Mult m) (ha : fits64 a) (hb : b ≠ 0) (_hp : fits64 (a * m))
    (_hq : fits64 ((a * m).tdiv b)) : mod m a b = some (a.tmod b) := mod_tmod ha hb

theorem abs_eq {a : Int} (h : fits64 (-a)) : abs a = |a| := by
  unfold abs negI
  by_cases ha : a < 0
  · rw [if_pos ha, wrap64_of_fits h, abs_of_neg ha]
  · rw [if_neg ha, abs_of_nonneg (by omega)]

theorem ceil_eq {m a : Int} (hm : Mult m) (ha : fits64 a) (hr : fits64 (fxCeil m a)) : ceil m a = fxCeil m a := by
  unfold ceil
  simp only [trunc_eq hm ha]
  unfold fxCeil at hr ⊢
  by_cases hc : a > 0 ∧ a ≠ fxTrunc m a
  · rw [if_pos hc] at hr; rw [if_pos hc, if_pos hc]; exact add_exact hr
  · rw [if_neg hc, if_neg hc]

theorem round_eq {m a : Int} (hm : Mult m) (ha : fits64 a) (hr : fits64 (fxRound m a)) :
    round m a = fxRound m a := by
  have hm0 := hm.pos
  have hmle := hm.le
  have hrem : fits64 (a - fxTrunc m a) := by
    have := (trunc_spec m a hm0).2.1
    rw [abs_lt] at this
    unfold fits64; omega
  have h2 : quo m 2 = m.tdiv 2 := by
    unfold quo; exact wrap64_of_fits (fits64_tdiv hm.fits64 (by omega))
  have hneg : negI m = -m := by unfold negI; apply wrap64_of_fits; unfold fits64; omega
  have h3 : quo (negI m) 2 = -(m.tdiv 2) := by
    rw [hneg]; unfold quo; rw [Int.neg_tdiv]; apply wrap64_of_fits
    have := fits64_tdiv hm.fits64 (show (0 : Int) < 2 by omega)
    have := (tdiv_between m 2 (by omega)).1 (by omega)
    unfold fits64 at *; omega
  unfold round
  simp only [trunc_eq hm ha, sub_exact hrem, h2, h3]
  unfold fxRound at hr ⊢
  by_cases c1 : a - fxTrunc m a ≥ m.tdiv 2
  · rw [if_pos c1] at hr; rw [if_pos c1, if_pos c1]; exact add_exact hr
  · rw [if_neg c1] at hr; rw [if_neg c1, if_neg c1]
    by_cases c2 : a - fxTrunc m a ≤ -(m.tdiv 2)
    · rw [if_pos c2] at hr; rw [if_pos c2, if_pos c2]; exact sub_exact hr
    · rw [if_neg c2, if_neg c2]

theorem min_eq (a b : Int) : F64.min a b = Min.min a b := by
  unfold F64.min; by_cases h : a < b
  · rw [if_pos h]; omega
  · rw [if_neg h]; omega
theorem max_eq (a b : Int) : F64.max a b = Max.max a b := by
  unfold F64.max; by_cases h : a > b
  · rw [if_pos h]; omega
  · rw [if_neg h]; omega

theorem inc_eq {m a : Int} (h : fits64 (a + m)) : inc m a = a + m := add_exact h
theorem dec_eq {m a : Int} (h : fits64 (a - m)) : dec m a = a - m := sub_exact h

theorem fromInt_eq {m v : Int} (hv : fits64 v) (hp : fits64 (v * m)) : fromInt m v = v * m := by
  unfold fromInt mulI; rw [wrap64_of_fits hv, wrap64_of_fits hp]

end Fixed.F64
