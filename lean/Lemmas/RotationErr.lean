import Model.RotationErr
import Lemmas.RotationHist
/-! C12: lemmas about the state machine on a FAILING file system (`Model/RotationErr.lean`).  Core-only.

* with an environment that is calm from the current moment on, `writeE` is `write` of the never-failing model and
  returns `(len b, nil)` — from ANY state, in particular one left behind by failed calls (`writeE_calmFrom`);
* for EVERY environment the retry loop ends within two passes (`iterateE_eq_writeE`);
* for EVERY environment the retained files stay a suffix of what was there plus the ACKNOWLEDGED bytes
  (`writeE_suffix`, `runE_suffix`): a failed call adds nothing, a short write adds exactly the acknowledged prefix, a
  rotation that fails half-way has only dropped the oldest slot and moved files up in order;
* for EVERY environment no index above `MaxBackups` is touched (`writeE_frame`, `runE_frame`). -/
namespace Rot

/-! ### calm environments -/

/-- from the `t0`-th system call on nothing fails and no write is short -/
def CalmFrom (env : Env) (t0 : Nat) : Prop :=
  (∀ t c, t0 ≤ t → env.fails t c = false) ∧ (∀ t cur want, t0 ≤ t → env.wr t cur want = none)

theorem calmFrom_calm (t0 : Nat) : CalmFrom Env.calm t0 := ⟨fun _ _ _ => rfl, fun _ _ _ _ => rfl⟩

theorem CalmFrom.mono {env : Env} {t0 t1 : Nat} (h : CalmFrom env t0) (hle : t0 ≤ t1) : CalmFrom env t1 :=
  ⟨fun t c ht => h.1 t c (Nat.le_trans hle ht), fun t cur want ht => h.2 t cur want (Nat.le_trans hle ht)⟩

theorem openE_calmFrom (env : Env) (s : StE) (h : CalmFrom env s.tick) :
    (openE env s).2 = none ∧ (openE env s).1.st = openIfNeeded s.st ∧ s.tick ≤ (openE env s).1.tick := by
  have h0 := h.1 s.tick .mkdirAll (Nat.le_refl _)
  have h1 := h.1 (s.tick + 1) .stat (by omega)
  have h2 := h.1 (s.tick + 2) .openFile (by omega)
  unfold openE openIfNeeded
  by_cases ho : s.st.isOpen = true
  · simp [ho]
  · simp only [ho, h0, h1, h2, Bool.false_eq_true, if_false]
    cases hf : s.st.files 0 with
    | none => simp
    | some c => simp

theorem renameChainE_calmFrom (env : Env) (m : Nat) : ∀ (f : Files) (t : Nat), CalmFrom env t →
    renameChainE env f t m = (renameChain f m, t + m, none) := by
  induction m with
  | zero => intro f t _; rfl
  | succ i ih =>
    intro f t h
    have h0 := h.1 t (.rename i (i + 1) (f i).isSome) (Nat.le_refl _)
    simp only [renameChainE, h0, Bool.false_eq_true, if_false, mvD_get, renameChain]
    rw [ih _ _ (h.mono (Nat.le_succ t))]
    simp only [Prod.mk.injEq, true_and, and_true]
    omega

/-- the five ways through `rotate()` -/
theorem rotateE_cases (cfg : Cfg) (env : Env) (s : StE) :
    ∃ t0 : Nat, s.tick ≤ t0 ∧
    (((s.st.isOpen && env.fails s.tick .closeFd) = true ∧
        ∃ e, rotateE cfg env s = ({ st := { s.st with isOpen := false }, tick := t0 }, some e)) ∨
     ((∃ i ex, env.fails t0 (.remove i ex) = true) ∧
        ∃ e, rotateE cfg env s = ({ st := { s.st with isOpen := false }, tick := t0 + 1 }, some e)) ∨
     (cfg.maxBackups < 1 ∧
        rotateE cfg env s = ({ st := { files := s.st.files.set 0 none, isOpen := false, size := 0 }, tick := t0 + 1 }, none)) ∨
     (¬ cfg.maxBackups < 1 ∧ ∃ f2 t2 e,
        renameChainE env (s.st.files.set cfg.maxBackups none) (t0 + 1) cfg.maxBackups = (f2, t2, some e) ∧
        rotateE cfg env s = ({ st := { files := f2, isOpen := false, size := s.st.size }, tick := t2 }, some e)) ∨
     (¬ cfg.maxBackups < 1 ∧ ∃ f2 t2,
        renameChainE env (s.st.files.set cfg.maxBackups none) (t0 + 1) cfg.maxBackups = (f2, t2, none) ∧
        rotateE cfg env s = ({ st := { files := f2, isOpen := false, size := 0 }, tick := t2 }, none))) := by
  unfold rotateE
  simp only
  generalize ht0 : (if s.st.isOpen = true then s.tick + 1 else s.tick) = t0
  have hle : s.tick ≤ t0 := by rw [← ht0]; split <;> omega
  refine ⟨t0, hle, ?_⟩
  by_cases hc : (s.st.isOpen && env.fails s.tick .closeFd) = true
  · left; rw [if_pos hc]; exact ⟨hc, _, rfl⟩
  · rw [if_neg hc]
    right
    by_cases hr : env.fails t0 (.remove (if cfg.maxBackups < 1 then 0 else cfg.maxBackups)
        (s.st.files (if cfg.maxBackups < 1 then 0 else cfg.maxBackups)).isSome) = true
    · left; rw [if_pos hr]; exact ⟨⟨_, _, hr⟩, _, rfl⟩
    · rw [if_neg hr]
      right
      by_cases hb : cfg.maxBackups < 1
      · left; refine ⟨hb, ?_⟩; simp only [if_pos hb]
      · right
        simp only [if_neg hb]
        rcases hch : renameChainE env (s.st.files.set cfg.maxBackups none) (t0 + 1) cfg.maxBackups with ⟨f2, t2, e⟩
        cases e with
        | some e => left; exact ⟨hb, f2, t2, e, rfl, rfl⟩
        | none => right; exact ⟨hb, f2, t2, rfl, rfl⟩

theorem rotateE_calmFrom (cfg : Cfg) (env : Env) (s : StE) (h : CalmFrom env s.tick) :
    (rotateE cfg env s).2 = none ∧ (rotateE cfg env s).1.st = rotate cfg s.st ∧ s.tick ≤ (rotateE cfg env s).1.tick := by
  obtain ⟨t0, hle, hcases⟩ := rotateE_cases cfg env s
  rcases hcases with ⟨hc, _⟩ | ⟨⟨i, ex, hr⟩, _⟩ | ⟨hb, he⟩ | ⟨hb, f2, t2, e, hch, _⟩ | ⟨hb, f2, t2, hch, he⟩
  · rw [h.1 s.tick .closeFd (Nat.le_refl _)] at hc; simp at hc
  · rw [h.1 t0 _ hle] at hr; cases hr
  · rw [he]; refine ⟨rfl, ?_, by simp only; omega⟩
    simp [rotate, rotateFiles, hb]
  · rw [renameChainE_calmFrom env _ _ _ (h.mono (by omega))] at hch; cases hch
  · rw [renameChainE_calmFrom env _ _ _ (h.mono (by omega))] at hch
    injection hch with h1 h2
    injection h2 with h2 _
    rw [he]; refine ⟨rfl, ?_, by simp only; omega⟩
    simp [rotate, rotateFiles, hb, h1]

/-- a step of the never-failing model as a step of the failing one (made at tick `t`, `n` bytes acknowledged) -/
def liftStep (t n : Nat) : Step → StepE
  | .done s => .ret ⟨s, t⟩ n none
  | .again s => .again ⟨s, t⟩

/-- one pass under an environment that is calm from now on is one pass of the never-failing model -/
theorem writeStepE_calmFrom (cfg : Cfg) (env : Env) (s : StE) (b : Bytes) (h : CalmFrom env s.tick) :
    ∃ t', s.tick ≤ t' ∧ writeStepE cfg env s b = liftStep t' b.length (writeStep cfg s.st b) := by
  obtain ⟨ho1, ho2, ho3⟩ := openE_calmFrom env s h
  unfold writeStepE writeStep
  rcases hop : openE env s with ⟨s1, e⟩
  rw [hop] at ho1 ho2 ho3
  simp only at ho1 ho2 ho3
  subst ho1
  simp only [← ho2]
  by_cases hc : s1.st.size > 0 ∧ s1.st.size + b.length > cfg.maxSize
  · rw [if_pos hc, if_pos hc]
    obtain ⟨hr1, hr2, hr3⟩ := rotateE_calmFrom cfg env s1 (h.mono ho3)
    rcases hro : rotateE cfg env s1 with ⟨s2, e2⟩
    rw [hro] at hr1 hr2 hr3
    simp only at hr1 hr2 hr3
    subst hr1
    refine ⟨s2.tick, by omega, ?_⟩
    simp only [liftStep, ← hr2]
  · rw [if_neg hc, if_neg hc]
    have hw := h.2 s1.tick (content s1.st.files 0).length b.length ho3
    refine ⟨s1.tick + 1, by omega, ?_⟩
    simp only [hw, List.take_length, liftStep]

/-- recovery: once the environment is calm, `Write` from ANY state — whatever earlier failures left behind — is the
    `write` of the never-failing model, returns `len b` and no error -/
theorem writeE_calmFrom (cfg : Cfg) (env : Env) (s : StE) (b : Bytes) (h : CalmFrom env s.tick) :
    (writeE cfg env s b).s.st = write cfg s.st b ∧ (writeE cfg env s b).n = b.length ∧ (writeE cfg env s b).err = none ∧
      s.tick ≤ (writeE cfg env s b).s.tick := by
  obtain ⟨t1, hle1, he1⟩ := writeStepE_calmFrom cfg env s b h
  unfold writeE write
  rw [he1]
  cases hw : writeStep cfg s.st b with
  | done s' => exact ⟨rfl, rfl, rfl, hle1⟩
  | again s1 =>
    simp only [liftStep]
    obtain ⟨t2, hle2, he2⟩ := writeStepE_calmFrom cfg env ⟨s1, t1⟩ b (h.mono hle1)
    rw [he2]
    cases hw2 : writeStep cfg s1 b with
    | done s' => exact ⟨rfl, rfl, rfl, Nat.le_trans hle1 hle2⟩
    | again s2 =>
      rcases write_terminates cfg s.st b with ⟨s', hx⟩ | ⟨sa, s', hx1, hx2⟩
      · rw [hw] at hx; cases hx
      · rw [hw] at hx1; injection hx1 with hx1; subst hx1; rw [hw2] at hx2; cases hx2

/-! ### every environment: the retry loop ends within two passes -/

theorem renameChainE_ok_zero (env : Env) (i : Nat) : ∀ (f : Files) (t : Nat),
    (renameChainE env f t (i + 1)).2.2 = none → (renameChainE env f t (i + 1)).1 0 = none := by
  induction i with
  | zero =>
    intro f t h
    simp only [renameChainE] at h ⊢
    split
    · rename_i hf; simp [hf] at h
    · simp only [mvD_get, mv]
      cases hf : f 0 with
      | none => exact hf
      | some c => simp [Files.set]
  | succ k ih =>
    intro f t h
    rw [renameChainE] at h ⊢
    split
    · rename_i hf; simp [hf] at h
    · rename_i hf
      simp only [hf] at h
      exact ih _ _ h

theorem rotateE_closed (cfg : Cfg) (env : Env) (s : StE) : (rotateE cfg env s).1.st.isOpen = false := by
  obtain ⟨t0, _, hcases⟩ := rotateE_cases cfg env s
  rcases hcases with ⟨_, e, he⟩ | ⟨_, e, he⟩ | ⟨_, he⟩ | ⟨_, f2, t2, e, _, he⟩ | ⟨_, f2, t2, _, he⟩ <;> rw [he]

theorem rotateE_ok_zero (cfg : Cfg) (env : Env) (s : StE) (h : (rotateE cfg env s).2 = none) :
    (rotateE cfg env s).1.st.files 0 = none ∧ (rotateE cfg env s).1.st.size = 0 := by
  obtain ⟨t0, _, hcases⟩ := rotateE_cases cfg env s
  rcases hcases with ⟨_, e, he⟩ | ⟨_, e, he⟩ | ⟨_, he⟩ | ⟨_, f2, t2, e, _, he⟩ | ⟨hb, f2, t2, hch, he⟩
  · rw [he] at h; cases h
  · rw [he] at h; cases h
  · rw [he]; exact ⟨by simp [Files.set], rfl⟩
  · rw [he] at h; cases h
  · rw [he]
    obtain ⟨k, hk⟩ : ∃ k, cfg.maxBackups = k + 1 := ⟨cfg.maxBackups - 1, by omega⟩
    rw [hk] at hch
    have := renameChainE_ok_zero env k _ _ (by rw [hch])
    rw [hch] at this
    exact ⟨this, rfl⟩

/-- opening on a directory without a current file never finds a size -/
theorem openE_size_zero (env : Env) (s : StE) (hc : s.st.isOpen = false) (h0 : s.st.files 0 = none)
    (h : (openE env s).2 = none) : (openE env s).1.st.size = 0 := by
  unfold openE at h ⊢
  simp only [hc, Bool.false_eq_true, if_false] at h ⊢
  split
  · rename_i hm; simp [hm] at h
  · split
    · rename_i hm ho; simp [hm, ho] at h
    · simp [h0]

theorem writeStepE_again {cfg : Cfg} {env : Env} {s : StE} {b : Bytes} {s1 : StE}
    (h : writeStepE cfg env s b = .again s1) :
    (openE env s).2 = none ∧ (rotateE cfg env (openE env s).1).2 = none ∧ s1 = (rotateE cfg env (openE env s).1).1 := by
  unfold writeStepE at h
  split at h
  · cases h
  · rename_i so ho
    split at h
    · split at h
      · cases h
      · rename_i s2 hr
        injection h with h
        simp [ho, hr, h]
    · cases h

/-- the pass after a successful rotation returns: the file is new, the size test cannot fire -/
theorem writeStepE_after_again {cfg : Cfg} {env : Env} {s : StE} {b : Bytes} {s1 : StE}
    (h : writeStepE cfg env s b = .again s1) (b' : Bytes) : (writeStepE cfg env s1 b').isRet = true := by
  obtain ⟨_, hr, rfl⟩ := writeStepE_again h
  obtain ⟨hz, _⟩ := rotateE_ok_zero cfg env _ hr
  have hc := rotateE_closed cfg env (openE env s).1
  generalize (rotateE cfg env (openE env s).1).1 = s1 at hz hc
  have hs := openE_size_zero env s1 hc hz
  unfold writeStepE
  split
  · rfl
  · rename_i so ho
    rw [ho] at hs
    have hs0 : so.st.size = 0 := hs rfl
    simp [hs0, StepE.isRet]

/-- for every environment the loop the driver runs (`iterateE cfg env 64`) is `writeE`: at most two passes -/
theorem iterateE_eq_writeE (cfg : Cfg) (env : Env) (s : StE) (b : Bytes) (k : Nat) :
    iterateE cfg env (k + 2) s b =
      .ret (writeE cfg env s b).s (writeE cfg env s b).n (writeE cfg env s b).err := by
  unfold writeE
  simp only [iterateE]
  cases h1 : writeStepE cfg env s b with
  | ret s' n e => rfl
  | again s1 =>
    simp only
    have h2 := writeStepE_after_again h1 b
    cases h3 : writeStepE cfg env s1 b with
    | ret s' n e => rfl
    | again s2 => rw [h3] at h2; cases h2

/-! ### every environment: the retained files stay a suffix -/

theorem mv_up (f : Files) (i : Nat) (hn : f (i + 1) = none) (x : Nat) :
    mv f i (i + 1) x = if x = i + 1 then f i else if x = i then none else f x := by
  unfold mv
  cases hk : f i with
  | none =>
    by_cases h1 : x = i + 1
    · simp [h1, hn]
    · by_cases h2 : x = i <;> simp [h1, h2, hk]
  | some c =>
    simp only [Files.set]
    by_cases h1 : x = i + 1
    · subst h1; simp
    · by_cases h2 : x = i <;> simp [h1, h2]

/-- moving a file up into an empty slot does not change what is read from the oldest to the current file -/
theorem retained_mv (f : Files) (i : Nat) (hn : f (i + 1) = none) (M : Nat) (hM : i + 1 ≤ M) :
    retainedUpTo (mv f i (i + 1)) M = retainedUpTo f M := by
  induction M with
  | zero => omega
  | succ k ih =>
    by_cases hk : i + 1 ≤ k
    · simp only [retainedUpTo]
      rw [ih hk]
      have : content (mv f i (i + 1)) (k + 1) = content f (k + 1) := by
        have h2 : k + 1 ≠ i := by omega
        have h3 : k ≠ i := by omega
        simp [content, mv_up f i hn, h2, h3]
      rw [this]
    · have hki : k = i := by omega
      subst hki
      have hc1 : content (mv f k (k + 1)) (k + 1) = content f k := by simp [content, mv_up f k hn]
      have hc2 : content f (k + 1) = [] := by simp [content, hn]
      cases k with
      | zero =>
        simp only [retainedUpTo, hc1, hc2]
        have : content (mv f 0 1) 0 = [] := by simp [content, mv_up f 0 hn]
        simp [this]
      | succ j =>
        simp only [retainedUpTo] at hc1 hc2 ⊢
        rw [hc1, hc2]
        have h0 : content (mv f (j + 1) (j + 1 + 1)) (j + 1) = [] := by simp [content, mv_up f (j + 1) hn]
        have hrest : retainedUpTo (mv f (j + 1) (j + 1 + 1)) j = retainedUpTo f j := by
          apply retainedUpTo_congr
          intro x hx
          have h1 : x ≠ j + 1 + 1 := by omega
          have h2 : x ≠ j + 1 := by omega
          simp [mv_up f (j + 1) hn, h1, h2]
        rw [h0, hrest]
        simp

/-- a rename chain — completed or stopped by a failing rename — only moves files up into empty slots, in order -/
theorem renameChainE_retained (env : Env) (m : Nat) : ∀ (f : Files) (t : Nat), f m = none → ∀ M, m ≤ M →
    retainedUpTo (renameChainE env f t m).1 M = retainedUpTo f M := by
  induction m with
  | zero => intro f t _ M _; rfl
  | succ i ih =>
    intro f t hn M hM
    rw [renameChainE]
    split
    · rfl
    · simp only [mvD_get]
      have hi : mv f i (i + 1) i = none := by simp [mv_up f i hn]
      rw [ih _ _ hi M (by omega), retained_mv f i hn M hM]

theorem retained_drop_oldest (f : Files) (k : Nat) :
    retainedUpTo f (k + 1) = content f (k + 1) ++ retainedUpTo (f.set (k + 1) none) (k + 1) := by
  simp only [retainedUpTo]
  have h1 : content (f.set (k + 1) none) (k + 1) = [] := by simp [content, Files.set]
  have h2 : retainedUpTo (f.set (k + 1) none) k = retainedUpTo f k := by
    apply retainedUpTo_congr
    intro x hx
    have : x ≠ k + 1 := by omega
    simp [Files.set, this]
  rw [h1, h2]; simp

theorem openE_files (env : Env) (s : StE) :
    (openE env s).1.st.files = s.st.files ∨
      (s.st.files 0 = none ∧ (openE env s).1.st.files = s.st.files.set 0 (some [])) := by
  unfold openE
  split
  · exact Or.inl rfl
  · split
    · exact Or.inl rfl
    · split
      · exact Or.inl rfl
      · split
        · exact Or.inl rfl
        · rename_i h0; exact Or.inr ⟨h0, rfl⟩

theorem openE_retained (cfg : Cfg) (env : Env) (s : StE) :
    retained cfg (openE env s).1.st.files = retained cfg s.st.files := by
  rcases openE_files env s with h | ⟨h0, h⟩
  · rw [h]
  · rw [h]; exact retained_create s.st.files h0 _

/-- whatever happens inside `rotate()`, the retained files afterwards are a suffix of the retained files before -/
theorem rotateE_retained (cfg : Cfg) (env : Env) (s : StE) :
    ∃ pre, retained cfg s.st.files = pre ++ retained cfg (rotateE cfg env s).1.st.files := by
  obtain ⟨t0, _, hcases⟩ := rotateE_cases cfg env s
  have hchain : ∀ f2 t2 e, ¬ cfg.maxBackups < 1 →
      renameChainE env (s.st.files.set cfg.maxBackups none) (t0 + 1) cfg.maxBackups = (f2, t2, e) →
      retained cfg s.st.files = content s.st.files cfg.maxBackups ++ retained cfg f2 := by
    intro f2 t2 e hb hch
    obtain ⟨k, hk⟩ : ∃ k, cfg.maxBackups = k + 1 := ⟨cfg.maxBackups - 1, by omega⟩
    have key := renameChainE_retained env cfg.maxBackups (s.st.files.set cfg.maxBackups none) (t0 + 1)
      (by simp [Files.set]) cfg.maxBackups (Nat.le_refl _)
    rw [hch] at key
    simp only at key
    unfold retained
    rw [key, hk]
    exact retained_drop_oldest _ k
  rcases hcases with ⟨_, e, he⟩ | ⟨_, e, he⟩ | ⟨hb, he⟩ | ⟨hb, f2, t2, e, hch, he⟩ | ⟨hb, f2, t2, hch, he⟩
  · rw [he]; exact ⟨[], rfl⟩
  · rw [he]; exact ⟨[], rfl⟩
  · rw [he]
    have hb0 : cfg.maxBackups = 0 := by omega
    refine ⟨retained cfg s.st.files, ?_⟩
    simp [retained, hb0, retainedUpTo, content, Files.set]
  · rw [he]; exact ⟨_, hchain f2 t2 _ hb hch⟩
  · rw [he]; exact ⟨_, hchain f2 t2 _ hb hch⟩

/-- one pass: a returning pass appends exactly the acknowledged prefix (nothing when it fails before the descriptor
    write) to a suffix of the retained files; a pass that jumps back has only dropped from the front -/
theorem writeStepE_suffix (cfg : Cfg) (env : Env) (s : StE) (b : Bytes) :
    (∀ s' n e, writeStepE cfg env s b = .ret s' n e →
        ∃ pre, retained cfg s.st.files ++ b.take n = pre ++ retained cfg s'.st.files) ∧
    (∀ s1, writeStepE cfg env s b = .again s1 → ∃ pre, retained cfg s.st.files = pre ++ retained cfg s1.st.files) := by
  have hop := openE_retained cfg env s
  unfold writeStepE
  rcases ho : openE env s with ⟨so, eo⟩
  rw [ho] at hop
  simp only at hop
  cases eo with
  | some e =>
    simp only
    refine ⟨fun s' n e' h => ?_, fun s1 h => by cases h⟩
    injection h with h1 h2 _
    subst h1; subst h2
    exact ⟨[], by simp [hop]⟩
  | none =>
    simp only
    by_cases hc : so.st.size > 0 ∧ so.st.size + b.length > cfg.maxSize
    · simp only [hc, and_self, if_true]
      obtain ⟨pre, hpre⟩ := rotateE_retained cfg env so
      rcases hr : rotateE cfg env so with ⟨s2, e2⟩
      rw [hr] at hpre
      simp only at hpre
      cases e2 with
      | some e =>
        simp only
        refine ⟨fun s' n e' h => ?_, fun s1 h => by cases h⟩
        injection h with h1 h2 _
        subst h1; subst h2
        exact ⟨pre, by rw [← hop, hpre]; simp⟩
      | none =>
        simp only
        refine ⟨fun s' n e' h => (by cases h), fun s1 h => ?_⟩
        injection h with h1
        subst h1
        exact ⟨pre, by rw [← hop, hpre]⟩
    · simp only [hc, if_false]
      refine ⟨fun s' n e' h => ?_, fun s1 h => by cases h⟩
      injection h with h1 h2 _
      subst h1; subst h2
      refine ⟨[], ?_⟩
      simp only [List.nil_append]
      generalize List.take _ b = tk
      have := retained_append so.st.files tk cfg.maxBackups
      simp only [content] at this
      unfold retained at hop ⊢
      rw [this, hop]

/-- **suffix under failures**: for every environment, after `Write(b)` returned `n`, the retained files are a suffix of
    the previously retained files followed by the first `n` bytes of `b` -/
theorem writeE_suffix (cfg : Cfg) (env : Env) (s : StE) (b : Bytes) :
    ∃ pre, retained cfg s.st.files ++ b.take (writeE cfg env s b).n = pre ++ retained cfg (writeE cfg env s b).s.st.files := by
  unfold writeE
  obtain ⟨hr, ha⟩ := writeStepE_suffix cfg env s b
  cases h1 : writeStepE cfg env s b with
  | ret s' n e => simp only; exact hr s' n e h1
  | again s1 =>
    simp only
    obtain ⟨pre1, hp1⟩ := ha s1 h1
    obtain ⟨hr2, ha2⟩ := writeStepE_suffix cfg env s1 b
    cases h2 : writeStepE cfg env s1 b with
    | ret s' n e =>
      simp only
      obtain ⟨pre2, hp2⟩ := hr2 s' n e h2
      exact ⟨pre1 ++ pre2, by rw [hp1, List.append_assoc, hp2, List.append_assoc]⟩
    | again s2 =>
      simp only
      obtain ⟨pre2, hp2⟩ := ha2 s2 h2
      exact ⟨pre1 ++ pre2, by rw [hp1, hp2]; simp⟩

theorem applyE_files (cfg : Cfg) (env : Env) (s : StE) (o : Op) (h : ∀ b, o ≠ .write b) :
    (applyE cfg env s o).s.st.files = s.st.files := by
  cases o with
  | write b => exact absurd rfl (h b)
  | close => simp only [applyE, closeE]; split <;> rfl
  | reopen => simp only [applyE, reopenE, closeE, fresh]; split <;> rfl
  | sync => simp only [applyE, syncE]; split <;> rfl

/-- the suffix clause over every history on a failing file system, in terms of the ACKNOWLEDGED bytes -/
theorem runE_suffix (cfg : Cfg) (env : Env) (ops : List Op) : ∀ s : StE,
    ∃ pre, retained cfg s.st.files ++ (ackedE cfg env s ops).flatten = pre ++ retained cfg (runE cfg env s ops).st.files := by
  induction ops with
  | nil => intro s; exact ⟨[], by simp [ackedE, runE]⟩
  | cons o os ih =>
    intro s
    cases o with
    | write b =>
      obtain ⟨p1, h1⟩ := writeE_suffix cfg env s b
      obtain ⟨p2, h2⟩ := ih (writeE cfg env s b).s
      refine ⟨p1 ++ p2, ?_⟩
      simp only [ackedE, runE, applyE, List.flatten_cons]
      rw [← List.append_assoc, h1, List.append_assoc, h2, List.append_assoc]
    | close =>
      obtain ⟨p2, h2⟩ := ih (applyE cfg env s .close).s
      rw [applyE_files cfg env s .close (fun b h => by cases h)] at h2
      exact ⟨p2, by simpa [ackedE, runE] using h2⟩
    | reopen =>
      obtain ⟨p2, h2⟩ := ih (applyE cfg env s .reopen).s
      rw [applyE_files cfg env s .reopen (fun b h => by cases h)] at h2
      exact ⟨p2, by simpa [ackedE, runE] using h2⟩
    | sync =>
      obtain ⟨p2, h2⟩ := ih (applyE cfg env s .sync).s
      rw [applyE_files cfg env s .sync (fun b h => by cases h)] at h2
      exact ⟨p2, by simpa [ackedE, runE] using h2⟩

/-! ### every environment: indexes above MaxBackups are never touched -/

theorem renameChainE_frame (env : Env) (m : Nat) : ∀ (f : Files) (t : Nat) (j : Nat), m < j →
    (renameChainE env f t m).1 j = f j := by
  induction m with
  | zero => intro f t j _; rfl
  | succ i ih =>
    intro f t j hj
    rw [renameChainE]
    split
    · rfl
    · simp only [mvD_get]
      rw [ih _ _ j (by omega)]
      unfold mv
      cases f i with
      | none => rfl
      | some c =>
        have h1 : j ≠ i + 1 := by omega
        have h2 : j ≠ i := by omega
        simp [Files.set, h1, h2]

theorem rotateE_frame (cfg : Cfg) (env : Env) (s : StE) (j : Nat) (hj : cfg.maxBackups < j) :
    (rotateE cfg env s).1.st.files j = s.st.files j := by
  have hj0 : j ≠ 0 := by omega
  have hjm : j ≠ cfg.maxBackups := by omega
  obtain ⟨t0, _, hcases⟩ := rotateE_cases cfg env s
  have hchain : ∀ f2 t2 e,
      renameChainE env (s.st.files.set cfg.maxBackups none) (t0 + 1) cfg.maxBackups = (f2, t2, e) →
      f2 j = s.st.files j := by
    intro f2 t2 e hch
    have := renameChainE_frame env cfg.maxBackups (s.st.files.set cfg.maxBackups none) (t0 + 1) j hj
    rw [hch] at this
    simp only at this
    rw [this]; simp [Files.set, hjm]
  rcases hcases with ⟨_, e, he⟩ | ⟨_, e, he⟩ | ⟨hb, he⟩ | ⟨hb, f2, t2, e, hch, he⟩ | ⟨hb, f2, t2, hch, he⟩
  · rw [he]
  · rw [he]
  · rw [he]; simp [Files.set, hj0]
  · rw [he]; exact hchain f2 t2 _ hch
  · rw [he]; exact hchain f2 t2 _ hch

def StepE.ste : StepE → StE | .ret s _ _ => s | .again s => s

theorem writeStepE_frame (cfg : Cfg) (env : Env) (s : StE) (b : Bytes) (j : Nat) (hj : cfg.maxBackups < j) :
    (writeStepE cfg env s b).ste.st.files j = s.st.files j := by
  have hj0 : j ≠ 0 := by omega
  have hop : (openE env s).1.st.files j = s.st.files j := by
    rcases openE_files env s with h | ⟨_, h⟩
    · rw [h]
    · rw [h]; simp [Files.set, hj0]
  unfold writeStepE
  rcases ho : openE env s with ⟨so, eo⟩
  rw [ho] at hop
  simp only at hop
  cases eo with
  | some e => exact hop
  | none =>
    simp only
    split
    · have hr := rotateE_frame cfg env so j hj
      rcases hro : rotateE cfg env so with ⟨s2, e2⟩
      rw [hro] at hr
      cases e2 <;> simp only [StepE.ste] <;> rw [hr, hop]
    · simp only [StepE.ste, Files.set, hj0, if_false]; exact hop

/-- **frame under failures** -/
theorem writeE_frame (cfg : Cfg) (env : Env) (s : StE) (b : Bytes) (j : Nat) (hj : cfg.maxBackups < j) :
    (writeE cfg env s b).s.st.files j = s.st.files j := by
  unfold writeE
  have h1 := writeStepE_frame cfg env s b j hj
  cases hw : writeStepE cfg env s b with
  | ret s' n e => rw [hw] at h1; exact h1
  | again s1 =>
    rw [hw] at h1
    simp only
    have h2 := writeStepE_frame cfg env s1 b j hj
    cases hw2 : writeStepE cfg env s1 b with
    | ret s' n e => rw [hw2] at h2; exact h2.trans h1
    | again s2 => rw [hw2] at h2; exact h2.trans h1

theorem runE_frame (cfg : Cfg) (env : Env) (ops : List Op) (j : Nat) (hj : cfg.maxBackups < j) : ∀ s : StE,
    (runE cfg env s ops).st.files j = s.st.files j := by
  induction ops with
  | nil => intro s; rfl
  | cons o os ih =>
    intro s
    simp only [runE]
    rw [ih]
    cases o with
    | write b => exact writeE_frame cfg env s b j hj
    | close => rw [applyE_files cfg env s .close (fun b h => by cases h)]
    | reopen => rw [applyE_files cfg env s .reopen (fun b h => by cases h)]
    | sync => rw [applyE_files cfg env s .sync (fun b h => by cases h)]

/-! ### what `Write` returns -/

/-- the returned count and error: no error exactly with the full length; an error from anything but the descriptor
    write comes with `n = 0` -/
theorem writeStepE_ret (cfg : Cfg) (env : Env) (s : StE) (b : Bytes) (s' : StE) (n : Nat) (e : Option Sys)
    (h : writeStepE cfg env s b = .ret s' n e) :
    n ≤ b.length ∧ (e = none → n = b.length) ∧ (∀ c, e = some c → c ≠ .writeFd → n = 0) := by
  unfold writeStepE at h
  split at h
  · injection h with _ h2 h3; subst h2; subst h3
    exact ⟨Nat.zero_le _, fun h => (by cases h), fun _ _ _ => rfl⟩
  · split at h
    · split at h
      · injection h with _ h2 h3; subst h2; subst h3
        exact ⟨Nat.zero_le _, fun h => (by cases h), fun _ _ _ => rfl⟩
      · cases h
    · injection h with _ h2 h3
      subst h2; subst h3
      cases env.wr _ _ _ with
      | none => exact ⟨Nat.le_refl _, fun _ => rfl, fun c hc => by cases hc⟩
      | some k =>
        refine ⟨Nat.min_le_right _ _, fun h => (by cases h), fun c hc hne => ?_⟩
        injection hc with hc
        exact absurd hc.symm hne

theorem writeE_ret (cfg : Cfg) (env : Env) (s : StE) (b : Bytes) :
    (writeE cfg env s b).n ≤ b.length ∧ ((writeE cfg env s b).err = none → (writeE cfg env s b).n = b.length) ∧
      (∀ c, (writeE cfg env s b).err = some c → c ≠ .writeFd → (writeE cfg env s b).n = 0) := by
  unfold writeE
  cases h1 : writeStepE cfg env s b with
  | ret s' n e => exact writeStepE_ret cfg env s b s' n e h1
  | again s1 =>
    simp only
    cases h2 : writeStepE cfg env s1 b with
    | ret s' n e => exact writeStepE_ret cfg env s1 b s' n e h2
    | again s2 => have := writeStepE_after_again h1 b; rw [h2] at this; cases this

/-! ### the calm environment is the never-failing model, over whole histories -/

theorem applyE_calmFrom (cfg : Cfg) (env : Env) (s : StE) (o : Op) (h : CalmFrom env s.tick) :
    (applyE cfg env s o).s.st = apply cfg s.st o ∧ (applyE cfg env s o).err = none ∧ s.tick ≤ (applyE cfg env s o).s.tick := by
  have hc := h.1 s.tick .closeFd (Nat.le_refl _)
  have hs := h.1 s.tick .syncFd (Nat.le_refl _)
  have hclosed : s.st.isOpen = false → close s.st = s.st := by
    intro ho; cases hst : s.st; rw [hst] at ho; simp only at ho; simp [close, ho]
  cases o with
  | write b =>
    obtain ⟨h1, _, h3, h4⟩ := writeE_calmFrom cfg env s b h
    exact ⟨h1, h3, h4⟩
  | close =>
    simp only [applyE, closeE, apply]
    by_cases ho : s.st.isOpen = true
    · simp only [ho, if_true, hc]; refine ⟨?_, ?_, ?_⟩ <;> first | trivial | rfl | omega | simp
    · simp only [ho, if_false]
      exact ⟨(hclosed (by simpa using ho)).symm, rfl, Nat.le_refl _⟩
  | reopen =>
    simp only [applyE, reopenE, closeE, apply, reopen]
    by_cases ho : s.st.isOpen = true
    · simp only [ho, if_true]; refine ⟨?_, ?_, ?_⟩ <;> first | trivial | rfl | omega | simp
    · simp only [ho, if_false]; refine ⟨?_, ?_, ?_⟩ <;> first | trivial | rfl | omega | simp
  | sync =>
    simp only [applyE, syncE, apply]
    by_cases ho : s.st.isOpen = true
    · simp only [ho, if_true, hs]; refine ⟨?_, ?_, ?_⟩ <;> first | trivial | rfl | omega | simp
    · simp only [ho, if_false]; exact ⟨rfl, rfl, Nat.le_refl _⟩

theorem runE_calmFrom (cfg : Cfg) (env : Env) (ops : List Op) : ∀ s : StE, CalmFrom env s.tick →
    (runE cfg env s ops).st = run cfg s.st ops := by
  induction ops with
  | nil => intro s _; rfl
  | cons o os ih =>
    intro s h
    obtain ⟨h1, _, h3⟩ := applyE_calmFrom cfg env s o h
    simp only [runE, run]
    rw [ih _ (h.mono h3), h1]

/-- with a calm environment every byte is acknowledged -/
theorem ackedE_calmFrom (cfg : Cfg) (env : Env) (ops : List Op) : ∀ s : StE, CalmFrom env s.tick →
    ackedE cfg env s ops = writesOf ops := by
  induction ops with
  | nil => intro s _; rfl
  | cons o os ih =>
    intro s h
    cases o with
    | write b =>
      obtain ⟨_, h2, _, h4⟩ := writeE_calmFrom cfg env s b h
      simp only [ackedE, writesOf]
      rw [h2, List.take_length, ih _ (h.mono h4)]
    | close =>
      obtain ⟨_, _, h3⟩ := applyE_calmFrom cfg env s .close h
      simp only [ackedE, writesOf]; exact ih _ (h.mono h3)
    | reopen =>
      obtain ⟨_, _, h3⟩ := applyE_calmFrom cfg env s .reopen h
      simp only [ackedE, writesOf]; exact ih _ (h.mono h3)
    | sync =>
      obtain ⟨_, _, h3⟩ := applyE_calmFrom cfg env s .sync h
      simp only [ackedE, writesOf]; exact ih _ (h.mono h3)

/-! ### contrast: a rename loop that does not stop at the first failing rename -/

/-- the variant of the loop of `rotate()` that goes on after a failing `os.Rename` instead of returning -/
def renameChainKeepGoing (env : Env) (f : Files) (t : Nat) : Nat → Files
  | 0 => f
  | i+1 =>
    if env.fails t (.rename i (i+1) (f i).isSome) then renameChainKeepGoing env f (t + 1) i
    else renameChainKeepGoing env (mv f i (i+1)) (t + 1) i

end Rot
