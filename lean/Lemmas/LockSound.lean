import Model.LockDiscipline

/-! # What the lock-discipline checks buy

A *moment* of an execution assigns to every goroutine the state it holds of ONE mutex instance.  `sync.Mutex` /
`sync.RWMutex` guarantee `Exclusion`: while one goroutine holds the mutex, no other goroutine holds anything of it.
An instruction whose extracted `must` state is `m` is only ever executed by a goroutine that holds at least `m`
(`must` is the weakest state over all paths).  Under these two facts:

* `no_conflict`: if every access of the table is `locked`, two different goroutines are never at the same moment inside
  two accesses of which one is a write — whatever field, whatever function (data-race freedom of the guarded state, and
  the reason why the bodies of the methods can be modelled as executing one after the other: `Model/Mutex.lean`);
* `no_conflict_snapshot`: with snapshot reads exempt the same holds for every pair that is not (unlocked element read,
  locked element write) — the residual that stays with the race detector;
* `acquire_not_held`, `callback_not_held`: an acquisition / callback whose `may` state is free is never executed by a
  goroutine that holds the mutex (no self-deadlock; a callback may call back into the package). -/
namespace LockFacts

/-- mutual exclusion as provided by the Go mutex (readers may share) -/
def Exclusion (held : Nat → State) : Prop :=
  ∀ t u, t ≠ u → held t = .exclusive → held u = .free

/-- goroutine `t` is executing access `a` at this moment: it holds at least `a.must`, at most `a.may` -/
def Executing (held : Nat → State) (t : Nat) (a : Access) : Prop := a.must ≤ held t ∧ held t ≤ a.may

theorem le_free {s : State} (h : s ≤ State.free) : s = .free := by
  cases s <;> first | rfl | (exact absurd h (by decide))

theorem exclusive_le {s : State} (h : State.exclusive ≤ s) : s = .exclusive := by
  cases s <;> first | rfl | (exact absurd h (by decide))

theorem locked_write {a : Access} (h : a.locked = true) (hw : a.kind = .write) : a.must = .exclusive := by
  unfold Access.locked at h; rw [hw] at h; simpa using h

theorem locked_ne_free {a : Access} (h : a.locked = true) : a.must ≠ .free := by
  unfold Access.locked at h
  cases hk : a.kind <;> rw [hk] at h <;> intro hf <;> rw [hf] at h <;> simp at h

/-- two goroutines are never simultaneously inside two locked accesses one of which is a write -/
theorem no_conflict_pair {held : Nat → State} (hx : Exclusion held) {a b : Access} {t u : Nat} (htu : t ≠ u)
    (ha : a.locked = true) (hb : b.locked = true)
    (hea : Executing held t a) (heb : Executing held u b) : a.kind ≠ .write ∧ b.kind ≠ .write := by
  constructor
  · intro hw
    have := locked_write ha hw
    have ht : held t = .exclusive := exclusive_le (this ▸ hea.1)
    have hu := hx t u htu ht
    exact locked_ne_free hb (le_free (hu ▸ heb.1))
  · intro hw
    have := locked_write hb hw
    have hu : held u = .exclusive := exclusive_le (this ▸ heb.1)
    have ht := hx u t (Ne.symm htu) hu
    exact locked_ne_free ha (le_free (ht ▸ hea.1))

/-- table form: a strictly disciplined table has no conflicting simultaneous pair -/
theorem no_conflict {l : List Access} (hl : strictlyDisciplined l = true) {held : Nat → State} (hx : Exclusion held)
    {a b : Access} (hal : a ∈ l) (hbl : b ∈ l) {t u : Nat} (htu : t ≠ u)
    (hea : Executing held t a) (heb : Executing held u b) : a.kind ≠ .write ∧ b.kind ≠ .write := by
  unfold strictlyDisciplined at hl
  rw [List.all_eq_true] at hl
  exact no_conflict_pair hx htu (hl a hal) (hl b hbl) hea heb

/-- with snapshot reads exempt: a simultaneous pair with a write consists of an unlocked element read and an element
    write under the mutex — nothing else can coincide -/
theorem no_conflict_snapshot {l : List Access} (hl : disciplined l = true) {held : Nat → State} (hx : Exclusion held)
    {a b : Access} (hal : a ∈ l) (hbl : b ∈ l) {t u : Nat} (htu : t ≠ u)
    (hea : Executing held t a) (heb : Executing held u b) (hw : a.kind = .write) :
    a.must = .exclusive ∧ b.locked = false ∧ b.snapshotRead = true := by
  unfold disciplined at hl
  rw [List.all_eq_true] at hl
  have ha := hl a hal
  have hb := hl b hbl
  have hal' : a.locked = true := by
    cases h : a.locked
    · simp [h, Access.snapshotRead, hw] at ha
    · rfl
  refine ⟨locked_write hal' hw, ?_⟩
  cases hbl' : b.locked
  · simp [hbl'] at hb; exact ⟨rfl, hb⟩
  · exact absurd hw (no_conflict_pair hx htu hal' hbl' hea heb).1

/-- an acquisition whose `may` state is free is never executed while holding the mutex -/
theorem acquire_not_held {l : List Event} (hl : noReacquire l = true) {e : Event} (he : e ∈ l)
    (hacq : e.isAcquire = true) {s : State} (hs : s ≤ e.may) : s = .free := by
  unfold noReacquire at hl
  rw [List.all_eq_true] at hl
  have := hl e he
  simp [hacq] at this
  exact le_free (this ▸ hs)

theorem callback_not_held {l : List Event} (hl : callbacksUnlocked l = true) {e : Event} (he : e ∈ l)
    (hcb : e.what = .callback) {s : State} (hs : s ≤ e.may) : s = .free := by
  unfold callbacksUnlocked at hl
  rw [List.all_eq_true] at hl
  have := hl e he
  simp [hcb] at this
  exact le_free (this ▸ hs)

theorem blocking_not_held {l : List Event} (hl : blockingUnlocked l = true) {e : Event} (he : e ∈ l)
    (hb : e.isBlockingChan = true) {s : State} (hs : s ≤ e.may) : s = .free := by
  unfold blockingUnlocked at hl
  rw [List.all_eq_true] at hl
  have := hl e he
  simp [hb] at this
  exact le_free (this ▸ hs)

end LockFacts
