import Model.RBTreeChecked
import Lemmas.RBRun
set_option linter.unusedSimpArgs false
set_option linter.unusedVariables false
/-! C06 helper lemmas, part 4: the partial ("checked") fix-ups of `Model/RBTreeChecked.lean` never hit `nil` on a tree
    that satisfies the red-black invariants, and then agree with the total versions.  Core tactics only. -/
namespace RB
namespace T
variable {K V : Type}

theorem setBlackC_of_ne_nil (t : T K V) (h : t ≠ nil) : setBlackC t = some t.setBlack := by
  cases t with
  | nil => exact absurd rfl h
  | node c l k v r => rfl

theorem ne_nil_of_isRed (t : T K V) (h : t.isRed = true) : t ≠ nil := by
  intro e; subst e; simp [isRed] at h

/-! ### insert -/

/-- the `Insert` loop round: parent (child on side `s`) red, `n` (its child on side `s'`) red ⇒ no nil is touched -/
theorem fixViolC_eq (x : T K V) (s s' : Side)
    (h1 : (child x s).isRed = true) (h2 : (child (child x s) s').isRed = true) :
    fixViolC x s s' = some (fixViol x s s') := by
  rcases x with _ | ⟨c, l, k, v, r⟩
  · cases s <;> simp [child, isRed] at h1
  cases s with
  | L =>
    simp only [child] at h1 h2
    rcases l with _ | ⟨lc, ll, lk, lv, lr⟩
    · simp [isRed] at h1
    cases s' with
    | L =>
      by_cases hr : r.isRed = true
      · rcases r with _ | ⟨rc, rl, rk, rv, rr⟩
        · simp [isRed] at hr
        · simp [fixViolC, fixViol, hr, setBlackC, setBlack]
      · simp [fixViolC, fixViol, hr, setBlackC, setBlack, rotRC, rotR]
    | R =>
      simp only [child] at h2
      rcases lr with _ | ⟨lrc, lrl, lrk, lrv, lrr⟩
      · simp [isRed] at h2
      by_cases hr : r.isRed = true
      · rcases r with _ | ⟨rc, rl, rk, rv, rr⟩
        · simp [isRed] at hr
        · simp [fixViolC, fixViol, hr, setBlackC, setBlack]
      · simp [fixViolC, fixViol, hr, setBlackC, setBlack, rotRC, rotR, rotLC, rotL]
  | R =>
    simp only [child] at h1 h2
    rcases r with _ | ⟨rc, rl, rk, rv, rr⟩
    · simp [isRed] at h1
    cases s' with
    | R =>
      by_cases hl : l.isRed = true
      · rcases l with _ | ⟨lc, ll, lk, lv, lr⟩
        · simp [isRed] at hl
        · simp [fixViolC, fixViol, hl, setBlackC, setBlack]
      · simp [fixViolC, fixViol, hl, setBlackC, setBlack, rotLC, rotL]
    | L =>
      simp only [child] at h2
      rcases rl with _ | ⟨rlc, rll, rlk, rlv, rlr⟩
      · simp [isRed] at h2
      by_cases hl : l.isRed = true
      · rcases l with _ | ⟨lc, ll, lk, lv, lr⟩
        · simp [isRed] at hl
        · simp [fixViolC, fixViol, hl, setBlackC, setBlack]
      · simp [fixViolC, fixViol, hl, setBlackC, setBlack, rotRC, rotR, rotLC, rotL]

theorem afterChildC_eq (c : Color) (l : T K V) (k : K) (v : V) (r : T K V) (s : Side) (st : St)
    (h : ∀ s', st = .viol s' →
      (child (node c l k v r) s).isRed = true ∧ (child (child (node c l k v r) s) s').isRed = true) :
    afterChildC c l k v r s st = some (afterChild c l k v r s st) := by
  cases st with
  | ok => rfl
  | fresh => simp only [afterChildC, afterChild]; split <;> rfl
  | viol s' =>
    obtain ⟨h1, h2⟩ := h s' rfl
    simp only [afterChildC, afterChild]
    exact fixViolC_eq _ s s' h1 h2

theorem insC_eq (cmp : K → K → Ordering) (t : T K V) (key : K) (val : V) (hb : balB t) (hr : noRR t) :
    insC cmp t key val = some (ins cmp t key val) := by
  induction t with
  | nil => rfl
  | node c l k v r ihl ihr =>
    simp only [balB] at hb
    simp only [noRR] at hr
    obtain ⟨hbl, hbr, hbh⟩ := hb
    obtain ⟨hrl, hrr, hc⟩ := hr
    unfold insC ins
    split
    · rw [ihl hbl hrl]
      have hp := ins_post cmp l key val hbl hrl
      generalize ins cmp l key val = p at hp ⊢
      obtain ⟨l', st⟩ := p
      simp only
      apply afterChildC_eq
      intro s' hs
      subst hs
      obtain ⟨_, _, _, h1, _, h2, _⟩ := hp
      exact ⟨by simpa [child] using h1, by simpa [child] using h2⟩
    · rw [ihr hbr hrr]
      have hp := ins_post cmp r key val hbr hrr
      generalize ins cmp r key val = p at hp ⊢
      obtain ⟨r', st⟩ := p
      simp only
      apply afterChildC_eq
      intro s' hs
      subst hs
      obtain ⟨_, _, _, h1, _, h2, _⟩ := hp
      exact ⟨by simpa [child] using h1, by simpa [child] using h2⟩

theorem ins_ne_nil (cmp : K → K → Ordering) (t : T K V) (key : K) (val : V) : (ins cmp t key val).1 ≠ nil := by
  have hne : inorder (ins cmp t key val).1 ≠ [] := by
    cases t with
    | nil => simp [ins, inorder]
    | node c l k v r =>
      unfold ins
      split
      · generalize ins cmp l key val = p
        obtain ⟨l', st⟩ := p
        simp only [inorder_afterChild]; simp
      · generalize ins cmp r key val = p
        obtain ⟨r', st⟩ := p
        simp only [inorder_afterChild]; simp
  intro e
  rw [e] at hne
  exact hne rfl

theorem insertC_eq (cmp : K → K → Ordering) (t : T K V) (key : K) (val : V) (hb : balB t) (hr : noRR t) :
    insertC cmp t key val = some (insert cmp t key val) := by
  unfold insertC insert
  rw [insC_eq cmp t key val hb hr]
  exact setBlackC_of_ne_nil _ (ins_ne_nil cmp t key val)

/-! ### remove -/

/-- with a sibling present the black-sibling cases touch no nil: the nephews that are written to are red, hence nodes -/
theorem fixDefBlackSibC_eq_L (c : Color) (l : T K V) (k : K) (v : V) (sc : Color) (sl : T K V) (sk : K) (sv : V)
    (sr : T K V) :
    fixDefBlackSibC (node c l k v (node sc sl sk sv sr)) .L
      = some (fixDefBlackSib (node c l k v (node sc sl sk sv sr)) .L) := by
  rcases sl with _ | ⟨_ | _, sll, slk, slv, slr⟩ <;> rcases sr with _ | ⟨_ | _, srl, srk, srv, srr⟩ <;>
    simp [fixDefBlackSibC, fixDefBlackSib, isBlack, isRed, setBlackC, setBlack, rotLC, rotL, rotRC, rotR] <;>
    (split <;> rfl)

theorem fixDefBlackSibC_eq_R (c : Color) (r : T K V) (k : K) (v : V) (sc : Color) (sl : T K V) (sk : K) (sv : V)
    (sr : T K V) :
    fixDefBlackSibC (node c (node sc sl sk sv sr) k v r) .R
      = some (fixDefBlackSib (node c (node sc sl sk sv sr) k v r) .R) := by
  rcases sl with _ | ⟨_ | _, sll, slk, slv, slr⟩ <;> rcases sr with _ | ⟨_ | _, srl, srk, srv, srr⟩ <;>
    simp [fixDefBlackSibC, fixDefBlackSib, isBlack, isRed, setBlackC, setBlack, rotLC, rotL, rotRC, rotR] <;>
    (split <;> rfl)

/-- **the sibling is never nil when a deficit is repaired** (left side): the sibling subtree is one black higher than
    the deficient side, so it is a node; if it is red, its near child — the sibling after the rotation — is one black
    higher as well -/
theorem fixDefC_eq_L (c : Color) (l : T K V) (k : K) (v : V) (r : T K V) (hr : balB r) (hdef : bh l + 1 = bh r) :
    fixDefC (node c l k v r) .L = some (fixDef (node c l k v r) .L) := by
  have hlpos := bh_pos l
  rcases r with _ | ⟨rc, rl, rk, rv, rr⟩
  · have : bh (nil : T K V) = 1 := rfl
    omega
  cases rc with
  | black =>
    simp only [fixDefC, fixDef, isRed]
    exact fixDefBlackSibC_eq_L c l k v .black rl rk rv rr
  | red =>
    simp only [balB, bh] at hr hdef
    rcases rl with _ | ⟨rlc, rll, rlk, rlv, rlr⟩
    · have : bh (nil : T K V) = 1 := rfl
      simp at hdef; omega
    · have h := fixDefBlackSibC_eq_L .red l k v rlc rll rlk rlv rlr
      simp [fixDefC, fixDef, isRed, setBlackC, setBlack, rotLC, rotL, h]

theorem fixDefC_eq_R (c : Color) (l : T K V) (k : K) (v : V) (r : T K V) (hl : balB l) (hdef : bh r + 1 = bh l) :
    fixDefC (node c l k v r) .R = some (fixDef (node c l k v r) .R) := by
  have hrpos := bh_pos r
  rcases l with _ | ⟨lc, ll, lk, lv, lr⟩
  · have : bh (nil : T K V) = 1 := rfl
    omega
  cases lc with
  | black =>
    simp only [fixDefC, fixDef, isRed]
    exact fixDefBlackSibC_eq_R c r k v .black ll lk lv lr
  | red =>
    simp only [balB, bh] at hl hdef
    rcases lr with _ | ⟨lrc, lrl, lrk, lrv, lrr⟩
    · have : bh (nil : T K V) = 1 := rfl
      simp at hdef hl; omega
    · have h := fixDefBlackSibC_eq_R .red r k v lrc lrl lrk lrv lrr
      simp [fixDefC, fixDef, isRed, setBlackC, setBlack, rotRC, rotR, h]

theorem delMinC_eq (t : T K V) (hb : balB t) (hn : noRR t) : delMinC t = delMin t := by
  induction t with
  | nil => rfl
  | node c l k v r ihl _ =>
    rcases l with _ | ⟨lc, ll, lk, lv, lr⟩
    · simp [delMinC, delMin]
    · have hbl : balB (node lc ll lk lv lr) := by simp [balB] at hb; exact hb.1
      have hnl : noRR (node lc ll lk lv lr) := by simp [noRR] at hn; exact hn.1
      obtain ⟨mk, mv, l', d, he, hp⟩ := delMin_post (node lc ll lk lv lr) hbl hnl (by simp)
      have ih := ihl hbl hnl
      simp only [delMinC, delMin, ih, he]
      cases d with
      | false => simp
      | true =>
        obtain ⟨_, _, q3, _⟩ := hp
        simp only [balB] at hb
        have := fixDefC_eq_L c l' k v r hb.2.1 (by simp at q3; omega)
        simp [this]

theorem delC_eq (cmp : K → K → Ordering) (t : T K V) (key : K) (hb : balB t) (hn : noRR t) :
    delC cmp t key = some (del cmp t key) := by
  induction t with
  | nil => rfl
  | node c l k v r ihl ihr =>
    have hbl : balB l := by simp [balB] at hb; exact hb.1
    have hbr : balB r := by simp [balB] at hb; exact hb.2.1
    have hbe : bh l = bh r := by simp [balB] at hb; exact hb.2.2
    have hnl : noRR l := by simp [noRR] at hn; exact hn.1
    have hnr : noRR r := by simp [noRR] at hn; exact hn.2.1
    unfold delC del
    split
    · rw [ihl hbl hnl]
      have hp := del_post cmp l key hbl hnl
      generalize del cmp l key = p at hp ⊢
      obtain ⟨l', d⟩ := p
      obtain ⟨_, _, q3, _⟩ := hp
      cases d with
      | false => simp
      | true =>
        simp only [if_true]
        exact fixDefC_eq_L c l' k v r hbr (by simp at q3; omega)
    · split
      · rw [ihr hbr hnr]
        have hp := del_post cmp r key hbr hnr
        generalize del cmp r key = p at hp ⊢
        obtain ⟨r', d⟩ := p
        obtain ⟨_, _, q3, _⟩ := hp
        cases d with
        | false => simp
        | true =>
          simp only [if_true]
          exact fixDefC_eq_R c l k v r' hbl (by simp at q3; omega)
      · rcases l with _ | ⟨lc, ll, lk, lv, lr⟩
        · rfl
        · rcases r with _ | ⟨rc, rl, rk, rv, rr⟩
          · rfl
          · obtain ⟨mk, mv, r', d, he, hp⟩ := delMin_post (node rc rl rk rv rr) hbr hnr (by simp)
            simp only [delMinC_eq _ hbr hnr, he]
            obtain ⟨_, _, q3, _⟩ := hp
            cases d with
            | false => simp
            | true =>
              simp only [if_true]
              exact fixDefC_eq_R c _ mk mv r' hbl (by simp at q3; omega)

theorem removeC_eq (cmp : K → K → Ordering) (t : T K V) (key : K) (hb : balB t) (hn : noRR t) :
    removeC cmp t key = some (remove cmp t key) := by
  unfold removeC remove
  rw [delC_eq cmp t key hb hn]

end T

namespace Tree
variable {K V : Type}

theorem insertC_eq (cmp : K → K → Ordering) (t : Tree K V) (k : K) (v : V) (h : T.Inv t.root) :
    t.insertC cmp k v = some (t.insert cmp k v) := by
  simp only [insertC, insert, T.insertC_eq cmp t.root k v h.1 h.2.1]

theorem removeC_eq (cmp : K → K → Ordering) (t : Tree K V) (k : K) (h : T.Inv t.root) :
    t.removeC cmp k = some (t.remove cmp k) := by
  simp only [removeC, remove]
  cases T.find cmp t.root k with
  | none => rfl
  | some e => simp only [T.removeC_eq cmp t.root k h.1 h.2.1]

theorem applyC_eq (cmp : K → K → Ordering) (t : Tree K V) (op : Op K V) (h : T.Inv t.root) :
    t.applyC cmp op = some (t.apply cmp op) := by
  cases op with
  | ins k v => simp [applyC, apply, insertC_eq cmp t k v h]
  | rem k => simp [applyC, apply, removeC_eq cmp t k h]

/-- the invariants survive every operation, whatever the compare function -/
theorem apply_inv (cmp : K → K → Ordering) (t : Tree K V) (op : Op K V) (h : T.Inv t.root) :
    T.Inv (t.apply cmp op).root := by
  obtain ⟨hb, hn, hr⟩ := h
  cases op with
  | ins k v => exact T.insert_inv cmp t.root k v hb hn
  | rem k =>
    simp only [apply, remove]
    cases T.find cmp t.root k with
    | none => exact ⟨hb, hn, hr⟩
    | some e => exact T.remove_inv cmp t.root k hb hn

theorem foldlM_applyC (cmp : K → K → Ordering) (ops : List (Op K V)) (t : Tree K V) (h : T.Inv t.root) :
    ops.foldlM (applyC cmp) t = some (ops.foldl (apply cmp) t) ∧ T.Inv (ops.foldl (apply cmp) t).root := by
  induction ops generalizing t with
  | nil => exact ⟨rfl, h⟩
  | cons op ops ih =>
    simp only [List.foldlM_cons, List.foldl_cons, applyC_eq cmp t op h]
    exact ih _ (apply_inv cmp t op h)

end Tree
end RB
