import Lemmas.RBHeapDel
import Lemmas.RBChecked
set_option linter.unusedSimpArgs false
set_option linter.unusedVariables false
/-! C06 helper lemmas, part 11: the pointer-level `Remove` (`tree.go:214-276`) refines the functional one.
    Core tactics only. -/
namespace RB
variable {K V : Type}

/-- path (innermost frame first, relative to the root of `s`) to the leftmost node of `s` -/
def leftPath : AT K V → Option (Ctx K V × AT K V)
  | .nil => none
  | .node a c .nil k v r => some ([], .node a c .nil k v r)
  | .node a c (.node la lc ll lk lv lr) k v r =>
    (leftPath (.node la lc ll lk lv lr)).map fun z => (z.1 ++ [⟨.L, a, c, k, v, r⟩], z.2)

/-- path to the node `node.find` returns: the first node in traversal order whose key compares equal -/
def findPath (cmp : K → K → Ordering) (key : K) : AT K V → Option (Ctx K V × AT K V)
  | .nil => none
  | .node a c l k v r =>
    match cmp key k with
    | .lt => (findPath cmp key l).map fun z => (z.1 ++ [⟨.L, a, c, k, v, r⟩], z.2)
    | .gt => (findPath cmp key r).map fun z => (z.1 ++ [⟨.R, a, c, k, v, l⟩], z.2)
    | .eq =>
      match findPath cmp key l with
      | some z => some (z.1 ++ [⟨.L, a, c, k, v, r⟩], z.2)
      | none => some ([], .node a c l k v r)

theorem plug_append : ∀ (p q : Ctx K V) (s : AT K V), plug (p ++ q) s = plug q (plug p s)
  | [], q, s => rfl
  | f :: p, q, s => by simp only [List.cons_append, plug]; exact plug_append p q _

theorem zipDelC_append : ∀ (p q : Ctx K V) (z : T K V × Bool), zipDelC (p ++ q) z = (zipDelC p z).bind (zipDelC q)
  | [], q, z => rfl
  | f :: p, q, z => by
    simp only [List.cons_append, zipDelC]
    split
    · cases T.fixDefC (f.fillT z.1) f.side with
      | none => rfl
      | some w => simp only [Option.bind_some]; exact zipDelC_append p q w
    · exact zipDelC_append p q _

theorem zipDelC_append' (p q : Ctx K V) : zipDelC (p ++ q) = fun z => (zipDelC p z).bind (zipDelC q) :=
  funext (zipDelC_append p q)

theorem findPath_none (cmp : K → K → Ordering) (key : K) : ∀ (s : AT K V),
    (findPath cmp key s = none ↔ T.find cmp s.erase key = none)
  | .nil => by simp [findPath, T.find, AT.erase]
  | .node a c l k v r => by
    have h1 := findPath_none cmp key l
    have h2 := findPath_none cmp key r
    simp only [findPath, T.find, AT.erase]
    cases cmp key k with
    | lt => simp only [Option.map_eq_none_iff]; exact h1
    | gt => simp only [Option.map_eq_none_iff]; exact h2
    | eq =>
      cases hf : findPath cmp key l with
      | none =>
        have := h1.mp hf
        simp [this]
      | some z =>
        cases hg : T.find cmp l.erase key with
        | none => rw [h1.mpr hg] at hf; cases hf
        | some e => simp

/-- the `compare == 0` case of `delC` at a node whose left subtree holds no equal key -/
def T.delHereC (c : Color) (l : T K V) (k : K) (v : V) (r : T K V) : Option (T K V × Bool) :=
  match l, r with
  | .nil, _ => some (T.spliceOut c r)
  | _, .nil => some (T.spliceOut c l)
  | _, _ =>
    match T.delMinC r with
    | none => none
    | some (mk, mv, r', d) =>
      if d then T.fixDefC (.node c l mk mv r') .R else some (.node c l mk mv r', false)

theorem delC_findPath (cmp : K → K → Ordering) (key : K) : ∀ (s : AT K V) (p : Ctx K V) (N : AT K V),
    findPath cmp key s = some (p, N) →
    plug p N = s ∧ ∃ a c l k v r, N = .node a c l k v r ∧
      T.delC cmp s.erase key = (T.delHereC c l.erase k v r.erase).bind (zipDelC p)
  | .nil, p, N, h => by simp [findPath] at h
  | .node a c l k v r, p, N, h => by
    simp only [findPath] at h
    have goL : ∀ z, findPath cmp key l = some z →
        (cmp key k = .lt ∨ (cmp key k = .eq ∧ (T.find cmp l.erase key).isSome)) →
        plug (z.1 ++ [⟨.L, a, c, k, v, r⟩]) z.2 = .node a c l k v r ∧ ∃ a' c' l' k' v' r', z.2 = .node a' c' l' k' v' r' ∧
          T.delC cmp (AT.node a c l k v r).erase key
            = (T.delHereC c' l'.erase k' v' r'.erase).bind (zipDelC (z.1 ++ [⟨.L, a, c, k, v, r⟩])) := by
      intro z hz hcond
      obtain ⟨hp, a', c', l', k', v', r', hN, hd⟩ := delC_findPath cmp key l z.1 z.2 hz
      refine ⟨by rw [plug_append, hp]; rfl, a', c', l', k', v', r', hN, ?_⟩
      simp only [AT.erase, T.delC, hcond, if_true]
      rw [hd, zipDelC_append']
      cases T.delHereC c' l'.erase k' v' r'.erase with
      | none => rfl
      | some w =>
        simp only [Option.bind_some]
        cases zipDelC z.1 w with
        | none => rfl
        | some u =>
          obtain ⟨u1, u2⟩ := u
          simp only [Option.bind_some, zipDelC, Frame.fillT]
          cases u2 <;> simp
    cases hc : cmp key k with
    | lt =>
      rw [hc] at h
      simp only [Option.map_eq_some_iff] at h
      obtain ⟨z, hz, he⟩ := h
      cases he
      exact goL z hz (Or.inl hc)
    | gt =>
      rw [hc] at h
      simp only [Option.map_eq_some_iff] at h
      obtain ⟨z, hz, he⟩ := h
      cases he
      obtain ⟨hp, a', c', l', k', v', r', hN, hd⟩ := delC_findPath cmp key r z.1 z.2 hz
      refine ⟨by rw [plug_append, hp]; rfl, a', c', l', k', v', r', hN, ?_⟩
      simp only [AT.erase, T.delC, hc, reduceCtorEq, false_and, or_self, if_false, if_true]
      rw [hd, zipDelC_append']
      cases T.delHereC c' l'.erase k' v' r'.erase with
      | none => rfl
      | some w =>
        simp only [Option.bind_some]
        cases zipDelC z.1 w with
        | none => rfl
        | some u =>
          obtain ⟨u1, u2⟩ := u
          simp only [Option.bind_some, zipDelC, Frame.fillT]
          cases u2 <;> simp
    | eq =>
      rw [hc] at h
      cases hf : findPath cmp key l with
      | some z =>
        rw [hf] at h
        cases h
        have : (T.find cmp l.erase key).isSome = true := by
          cases hg : T.find cmp l.erase key with
          | none => rw [(findPath_none cmp key l).mpr hg] at hf; cases hf
          | some e => rfl
        exact goL z hf (Or.inr ⟨hc, this⟩)
      | none =>
        rw [hf] at h
        cases h
        refine ⟨rfl, a, c, l, k, v, r, rfl, ?_⟩
        have hn := (findPath_none cmp key l).mp hf
        have hb : ∀ o : Option (T K V × Bool), o.bind (zipDelC ([] : Ctx K V)) = o := by
          intro o; cases o <;> rfl
        rw [hb]
        simp only [AT.erase, T.delC, hc, hn, reduceCtorEq, Option.isSome_none, Bool.false_eq_true, and_false, or_self,
          if_false, T.delHereC]
        cases l.erase <;> cases r.erase <;> rfl
theorem delMinC_leftPath : ∀ (s : AT K V) (p : Ctx K V) (M : AT K V), leftPath s = some (p, M) →
    plug p M = s ∧ ∃ ma mc mk mv mr, M = .node ma mc .nil mk mv mr ∧
      T.delMinC s.erase = (zipDelC p (T.spliceOut mc mr.erase)).map fun z => (mk, mv, z.1, z.2)
  | .nil, p, M, h => by simp [leftPath] at h
  | .node a c .nil k v r, p, M, h => by
    simp only [leftPath, Option.some.injEq, Prod.mk.injEq] at h
    obtain ⟨rfl, rfl⟩ := h
    exact ⟨rfl, a, c, k, v, r, rfl, rfl⟩
  | .node a c (.node la lc ll lk lv lr) k v r, p, M, h => by
    simp only [leftPath, Option.map_eq_some_iff] at h
    obtain ⟨z, hz, he⟩ := h
    cases he
    obtain ⟨hp, ma, mc, mk, mv, mr, hM, hd⟩ := delMinC_leftPath (.node la lc ll lk lv lr) z.1 z.2 hz
    refine ⟨by rw [plug_append, hp]; rfl, ma, mc, mk, mv, mr, hM, ?_⟩
    simp only [AT.erase] at hd
    simp only [AT.erase, T.delMinC, hd, zipDelC_append]
    cases zipDelC z.1 (T.spliceOut mc mr.erase) with
    | none => rfl
    | some u =>
      obtain ⟨u1, u2⟩ := u
      simp only [Option.map_some, Option.bind_some, zipDelC, Frame.fillT]
      cases u2
      · simp
      · simp only [if_true]
        cases T.fixDefC (T.node c u1 k v r.erase) Side.L with
        | none => rfl
        | some w => rfl


theorem fill_ptr (f : Frame K V) (s : AT K V) : (f.fill s).ptr = some f.a := by
  obtain ⟨side, a, c, k, v, sib⟩ := f
  cases side <;> rfl

namespace PTree

/-- unzipping: the memory of a whole tree, seen from a position inside it -/
theorem owns_unplug {t : PTree K V} : ∀ (p : Ctx K V) (N : AT K V), Owns t none (plug p N) → t.root = (plug p N).ptr →
    OwnsCtx t p N.ptr ∧ Owns t (ctxPtr p) N
  | [], N, h1, h2 => ⟨h2, h1⟩
  | f :: rest, N, h1, h2 => by
    obtain ⟨g1, g2⟩ := owns_unplug rest (f.fill N) h1 h2
    rw [fill_ptr] at g1
    obtain ⟨side, a, c, k, v, sib⟩ := f
    cases side
    · obtain ⟨h0, hl, hr⟩ := g2
      exact ⟨⟨h0, hr, g1⟩, hl⟩
    · obtain ⟨h0, hl, hr⟩ := g2
      exact ⟨⟨h0, hl, g1⟩, hr⟩

/-- the pointer `node.find` returns -/
def findPtr (cmp : K → K → Ordering) (key : K) (s : AT K V) : Ptr :=
  match findPath cmp key s with
  | none => none
  | some z => z.2.ptr

theorem findPath_ptr_isSome (cmp : K → K → Ordering) (key : K) (s : AT K V) (z : Ctx K V × AT K V)
    (h : findPath cmp key s = some z) : z.2.ptr.isSome = true := by
  obtain ⟨_, a, c, l, k, v, r, hN, _⟩ := delC_findPath cmp key s z.1 z.2 h
  rw [hN]; rfl

theorem find_path (cmp : K → K → Ordering) (t : PTree K V) (key : K) :
    ∀ (s : AT K V) (par : Ptr) (fuel : Nat), Owns t par s → s.erase.height < fuel →
      find cmp t key fuel s.ptr = some (findPtr cmp key s)
  | .nil, par, fuel, _, hf => by
    cases fuel with
    | zero => cases hf
    | succ n => rfl
  | .node a c l k v r, par, fuel, ⟨h0, hl, hr⟩, hf => by
    cases fuel with
    | zero => cases hf
    | succ n =>
      simp only [AT.erase, T.height] at hf
      have h1 := find_path cmp t key l (some a) n hl (by omega)
      have h2 := find_path cmp t key r (some a) n hr (by omega)
      simp only [find, AT.ptr_node, Option.isNone_some, Bool.false_eq_true, if_false, h0, Option.bind_eq_bind,
        Option.bind_some, findPtr, findPath]
      cases hc : cmp key k with
      | lt =>
        simp only [h1, findPtr]
        cases findPath cmp key l <;> rfl
      | gt =>
        simp only [h2, findPtr]
        cases findPath cmp key r <;> rfl
      | eq =>
        simp only [h1, Option.bind_some, findPtr]
        cases hf' : findPath cmp key l with
        | none => rfl
        | some z =>
          have := findPath_ptr_isSome cmp key l z hf'
          simp only [this, if_true]

theorem leftmost_path (t : PTree K V) : ∀ (s : AT K V) (p : Ctx K V) (M : AT K V) (par : Ptr) (fuel : Nat),
    leftPath s = some (p, M) → Owns t par s → s.erase.height < fuel → leftmost t fuel s.ptr = some M.ptr
  | .nil, p, M, par, fuel, h, _, _ => by simp [leftPath] at h
  | .node a c .nil k v r, p, M, par, fuel, h, ⟨h0, _, _⟩, hf => by
    simp only [leftPath, Option.some.injEq, Prod.mk.injEq] at h
    obtain ⟨rfl, rfl⟩ := h
    cases fuel with
    | zero => cases hf
    | succ n =>
      simp only [leftmost, AT.ptr_node, h0, Option.bind_eq_bind, Option.bind_some, AT.ptr_nil, Option.isSome_none,
        Bool.false_eq_true, if_false]
  | .node a c (.node la lc ll lk lv lr) k v r, p, M, par, fuel, h, ⟨h0, hl, _⟩, hf => by
    simp only [leftPath, Option.map_eq_some_iff] at h
    obtain ⟨z, hz, he⟩ := h
    cases he
    cases fuel with
    | zero => cases hf
    | succ n =>
      simp only [AT.erase, T.height] at hf
      have := leftmost_path t (.node la lc ll lk lv lr) z.1 z.2 (some a) n hz hl (by simp only [AT.erase, T.height]; omega)
      simp only [leftmost, AT.ptr_node, h0, Option.bind_eq_bind, Option.bind_some, Option.isSome_some, if_true]
      exact this

end PTree

/-- definedness and the deficit flag of `fixDefBlackSibC` do not depend on the deficient child -/
theorem T.fixDefBlackSibC_param_L (c : Color) (y y' : T K V) (k : K) (v : V) (s : T K V) :
    (T.fixDefBlackSibC (.node c y k v s) .L).map (·.2) = (T.fixDefBlackSibC (.node c y' k v s) .L).map (·.2) := by
  cases s with
  | nil => cases y <;> cases y' <;> rfl
  | node sc sl sk sv sr =>
    simp only [T.fixDefBlackSibC, Option.bind_eq_bind, Option.pure_def]
    split
    · split <;> rfl
    · split
      · cases sl with
        | nil => rfl
        | node lc ll lk lv lr => rfl
      · cases sr with
        | nil => rfl
        | node rc rl rk rv rr => rfl

theorem T.fixDefBlackSibC_param_R (c : Color) (y y' : T K V) (k : K) (v : V) (s : T K V) :
    (T.fixDefBlackSibC (.node c s k v y) .R).map (·.2) = (T.fixDefBlackSibC (.node c s k v y') .R).map (·.2) := by
  cases s with
  | nil => cases y <;> cases y' <;> rfl
  | node sc sl sk sv sr =>
    simp only [T.fixDefBlackSibC, Option.bind_eq_bind, Option.pure_def]
    split
    · split <;> rfl
    · split
      · cases sr with
        | nil => rfl
        | node lc ll lk lv lr => rfl
      · cases sl with
        | nil => rfl
        | node rc rl rk rv rr => rfl

theorem T.fixDefC_param (f : Frame K V) (y y' : T K V) :
    (T.fixDefC (f.fillT y) f.side).map (·.2) = (T.fixDefC (f.fillT y') f.side).map (·.2) := by
  obtain ⟨side, a, c, k, v, sib⟩ := f
  cases side with
  | L =>
    simp only [Frame.fillT, T.fixDefC]
    split
    · cases hs : sib.erase with
      | nil => rfl
      | node rc rl rk rv rr =>
        simp only [T.setBlackC, T.rotLC, Option.bind_eq_bind, Option.bind_some, Option.pure_def]
        have := T.fixDefBlackSibC_param_L .red y y' k v rl
        cases h1 : T.fixDefBlackSibC (.node .red y k v rl) .L <;> cases h2 : T.fixDefBlackSibC (.node .red y' k v rl) .L <;>
          simp [h1, h2] at this ⊢
    · exact T.fixDefBlackSibC_param_L c y y' k v sib.erase
  | R =>
    simp only [Frame.fillT, T.fixDefC]
    split
    · cases hs : sib.erase with
      | nil => rfl
      | node rc rl rk rv rr =>
        simp only [T.setBlackC, T.rotRC, Option.bind_eq_bind, Option.bind_some, Option.pure_def]
        have := T.fixDefBlackSibC_param_R .red y y' k v rr
        cases h1 : T.fixDefBlackSibC (.node .red rr k v y) .R <;> cases h2 : T.fixDefBlackSibC (.node .red rr k v y') .R <;>
          simp [h1, h2] at this ⊢
    · exact T.fixDefBlackSibC_param_R c y y' k v sib.erase

theorem zipDelC_param : ∀ (ctx : Ctx K V) (y y' : T K V),
    (zipDelC ctx (y, true)).isSome = (zipDelC ctx (y', true)).isSome
  | [], y, y' => rfl
  | f :: rest, y, y' => by
    simp only [zipDelC, if_true]
    have := T.fixDefC_param f y y'
    cases h1 : T.fixDefC (f.fillT y) f.side with
    | none =>
      cases h2 : T.fixDefC (f.fillT y') f.side with
      | none => rfl
      | some w => rw [h1, h2] at this; cases this
    | some w =>
      cases h2 : T.fixDefC (f.fillT y') f.side with
      | none => rw [h1, h2] at this; cases this
      | some w' =>
        rw [h1, h2] at this
        simp only [Option.map_some, Option.some.injEq] at this
        obtain ⟨r, d⟩ := w
        obtain ⟨r', d'⟩ := w'
        simp only at this
        subst this
        simp only [Option.bind_some]
        cases d with
        | true => exact zipDelC_param rest r r'
        | false => rw [zipDelC_false, zipDelC_false]; rfl

/-- the context with the key and value of the frame at position `i` replaced (the node `n` of `Remove` after it has
    traded its entry with the successor) -/
def setKVAt (k' : K) (v' : V) : Nat → Ctx K V → Ctx K V
  | _, [] => []
  | 0, f :: rest => { f with k := k', v := v' } :: rest
  | i + 1, f :: rest => f :: setKVAt k' v' i rest

theorem ctxAddrs_setKVAt (k' : K) (v' : V) : ∀ (i : Nat) (ctx : Ctx K V), ctxAddrs (setKVAt k' v' i ctx) = ctxAddrs ctx
  | _, [] => by cases ‹Nat› <;> rfl
  | 0, f :: rest => rfl
  | i + 1, f :: rest => by simp only [setKVAt, ctxAddrs, ctxAddrs_setKVAt k' v' i rest]

theorem ctxPtr_setKVAt (k' : K) (v' : V) : ∀ (i : Nat) (ctx : Ctx K V), ctxPtr (setKVAt k' v' i ctx) = ctxPtr ctx
  | _, [] => by cases ‹Nat› <;> rfl
  | 0, f :: rest => rfl
  | i + 1, f :: rest => rfl

namespace PTree

/-- `x.left = q` or `x.right = q`, by side -/
def setSide (s : Side) (q : Ptr) (x : PNode K V) : PNode K V :=
  match s with
  | .L => { x with left := q }
  | .R => { x with right := q }

/-- changing the link from the node above the hole (`parent.left = child`, `parent.right = child`) -/
theorem OwnsCtx.sethole {t t' : PTree K V} {f : Frame K V} {rest : Ctx K V} {h h' : Ptr}
    (hown : OwnsCtx t (f :: rest) h) (hnd : (ctxAddrs (f :: rest)).Nodup)
    (hhead : t'.get (some f.a) = (t.get (some f.a)).map (setSide f.side h'))
    (hother : ∀ x ∈ ctxAddrs (f :: rest), x ≠ f.a → t'.get (some x) = t.get (some x))
    (hroot : t'.root = t.root) : OwnsCtx t' (f :: rest) h' := by
  obtain ⟨h0, hs, hrest⟩ := hown
  obtain ⟨side, fa, c, k, v, sib⟩ := f
  simp only [ctxAddrs, List.nodup_cons, List.mem_append, not_or, List.nodup_append] at hnd
  refine ⟨?_, Owns.frame (fun x hx => hother x ?_ ?_) hs, OwnsCtx.frame (fun x hx => hother x ?_ ?_) hroot hrest⟩
  · rw [hhead, h0]
    cases side <;> rfl
  · simp [ctxAddrs, hx]
  · rintro rfl; exact hnd.1.1 hx
  · simp [ctxAddrs, hx]
  · rintro rfl; exact hnd.1.2 hx

/-- trading the entry of the node of the frame at position `i` -/
theorem OwnsCtx.setKV {t t' : PTree K V} (k' : K) (v' : V) : ∀ (i : Nat) (ctx : Ctx K V) (hole : Ptr) (f : Frame K V),
    ctx[i]? = some f → OwnsCtx t ctx hole → (ctxAddrs ctx).Nodup →
    t'.get (some f.a) = (t.get (some f.a)).map (fun x => { x with key := k', value := v' }) →
    (∀ x ∈ ctxAddrs ctx, x ≠ f.a → t'.get (some x) = t.get (some x)) → t'.root = t.root →
    OwnsCtx t' (setKVAt k' v' i ctx) hole
  | _, [], _, _, h, _, _, _, _, _ => by simp at h
  | 0, g :: rest, hole, f, hi, ⟨h0, hs, hrest⟩, hnd, hf, ho, hroot => by
    simp only [List.getElem?_cons_zero, Option.some.injEq] at hi; subst hi
    simp only [ctxAddrs, List.nodup_cons, List.mem_append, not_or, List.nodup_append] at hnd
    refine ⟨?_, Owns.frame (fun x hx => ho x ?_ ?_) hs, OwnsCtx.frame (fun x hx => ho x ?_ ?_) hroot hrest⟩
    · rw [hf, h0]; rfl
    · simp [ctxAddrs, hx]
    · rintro rfl; exact hnd.1.1 hx
    · simp [ctxAddrs, hx]
    · rintro rfl; exact hnd.1.2 hx
  | i + 1, g :: rest, hole, f, hi, ⟨h0, hs, hrest⟩, hnd, hf, ho, hroot => by
    simp only [List.getElem?_cons_succ] at hi
    have hmem : f.a ∈ ctxAddrs rest := by
      have : ∀ (l : Ctx K V) (j : Nat) (f : Frame K V), l[j]? = some f → f.a ∈ ctxAddrs l := by
        intro l
        induction l with
        | nil => intro j f h; simp at h
        | cons a l ih =>
          intro j f h
          cases j with
          | zero => simp only [List.getElem?_cons_zero, Option.some.injEq] at h; subst h; simp [ctxAddrs]
          | succ j =>
            simp only [List.getElem?_cons_succ] at h
            have := ih j f h
            simp only [ctxAddrs, List.mem_cons, List.mem_append]
            exact Or.inr (Or.inr this)
      exact this rest i f hi
    simp only [ctxAddrs, List.nodup_cons, List.mem_append, not_or, List.nodup_append] at hnd
    have hga : g.a ≠ f.a := by rintro e; exact hnd.1.2 (e ▸ hmem)
    refine ⟨?_, Owns.frame (fun x hx => ho x ?_ ?_) hs,
      OwnsCtx.setKV k' v' i rest (some g.a) f hi hrest hnd.2.2.1 hf (fun x hx hne => ho x ?_ hne) hroot⟩
    · rw [ho g.a (by simp [ctxAddrs]) hga, ctxPtr_setKVAt]; exact h0
    · simp [ctxAddrs, hx]
    · rintro rfl; exact hnd.2.2.2 _ hx _ hmem rfl
    · simp [ctxAddrs, hx]

end PTree

namespace PTree

/-- `Remove` after the splice node has been unlinked (and the entries traded): the colour test, `recolor(child)`, or the
    re-linked splice node as sentinel, `recolor(sentinel)` and its final unlinking (`tree.go:248-268`) -/
theorem after_splice (t : PTree K V) (fside : Side) (pa : Nat) (fc : Color) (fk : K) (fv : V) (fsib : AT K V)
    (rest : Ctx K V) (ch : AT K V) (spa : Nat) (spc : Color) (ksp : K) (vsp : V) (XL XR : Ptr) (fuel : Nat) (left : Bool)
    (hleft : left = match fside with | .L => true | .R => false)
    (hctx : OwnsCtx t (⟨fside, pa, fc, fk, fv, fsib⟩ :: rest) ch.ptr) (hch : Owns t (some pa) ch)
    (hd : Distinct (⟨fside, pa, fc, fk, fv, fsib⟩ :: rest) ch)
    (hsp : t.get (some spa) = some ⟨ksp, vsp, some pa, XL, XR, decide (spc = .black)⟩)
    (hspn : (ctxAddrs (⟨fside, pa, fc, fk, fv, fsib⟩ :: rest)).count spa + ch.addrs.count spa = 0)
    (hnil : ch = .nil → XL = none ∧ XR = none)
    (hfuel : (⟨fside, pa, fc, fk, fv, fsib⟩ :: rest).length + 2 ≤ fuel)
    (hC : (zipDelC (⟨fside, pa, fc, fk, fv, fsib⟩ :: rest) (T.spliceOut spc ch.erase)).isSome = true) :
    ∃ t' ctxF sF,
      (if (decide (spc = .black)) = true then
        if ch.ptr.isSome = true then recolor t fuel ch.ptr
        else do
          let t ← t.setParent (some spa) (some pa)
          let t ← t.setLeft (some spa) none
          let t ← t.setRight (some spa) none
          let t ← if left = true then t.setLeft (some pa) (some spa) else t.setRight (some pa) (some spa)
          let t ← recolor t fuel (some spa)
          if left = true then t.setLeft (some pa) none else t.setRight (some pa) none
      else some t) = some t' ∧ t'.count = t.count ∧
      OwnsCtx t' ctxF sF.ptr ∧ Owns t' (ctxPtr ctxF) sF ∧ Distinct ctxF sF ∧
      (zipDelC (⟨fside, pa, fc, fk, fv, fsib⟩ :: rest) (T.spliceOut spc ch.erase)).map (fun r => r.1.setBlack)
        = some (plugT ctxF sF.erase).setBlack := by
  cases spc with
  | red =>
    refine ⟨t, _, ch, by simp, rfl, hctx, hch, hd, ?_⟩
    simp only [T.spliceOut, if_true, zipDelC_false, Option.map_some]
  | black =>
    simp only [decide_true, if_true]
    cases ch with
    | node ca cc cl ck cv cr =>
      simp only [AT.ptr_node, Option.isSome_some, if_true]
      cases cc with
      | red =>
        obtain ⟨k, rfl⟩ : ∃ k, fuel = k + 1 := ⟨fuel - 1, by omega⟩
        obtain ⟨h0, hl, hr⟩ := hch
        have hB : t.isBlack (some ca) = false := by simp only [isBlack, h0]; rfl
        obtain ⟨t', e, ha, ho, hrt, hc⟩ := setBlack_spec t ca true _ h0
        have hfr : ∀ (u : AT K V) (par : Ptr), (∀ x, 0 < u.addrs.count x → x ≠ ca) → Owns t par u → Owns t' par u :=
          fun u par hu h => Owns.frame (fun x hx => ho x (hu x (List.count_pos_iff.mpr hx))) h
        refine ⟨t', ⟨fside, pa, fc, fk, fv, fsib⟩ :: rest, .node ca .black cl ck cv cr, ?_, hc, ?_, ⟨ha, hfr _ _ ?_ hl, hfr _ _ ?_ hr⟩, ?_, ?_⟩
        · rw [recolor]
          simp only [hB, Bool.and_false, Bool.false_eq_true, if_false]
          exact e
        · obtain ⟨g0, gs, grest⟩ := hctx
          have gs' : Owns t (some pa) fsib := gs
          refine ⟨?_, hfr fsib _ ?_ gs', OwnsCtx.frame (fun x hx => ho x ?_) hrt grest⟩
          · rw [ho pa (by addr_ne hd pa)]; exact g0
          · intro x hx; addr_ne hd x
          · have c := List.count_pos_iff.mpr hx; addr_ne hd x
        · intro x hx; addr_ne hd x
        · intro x hx; addr_ne hd x
        · exact hd
        · simp only [T.spliceOut, AT.erase, T.isRed, reduceCtorEq, if_false, if_true, zipDelC_false, Option.map_some,
            T.setBlack]
      | black =>
        have hC' : (zipDelC (⟨fside, pa, fc, fk, fv, fsib⟩ :: rest) ((AT.node ca .black cl ck cv cr).erase, true)).isSome
            = true := by
          simpa [T.spliceOut, AT.erase, T.isRed] using hC
        obtain ⟨t', ctx'', e, hc, h1, h2, h3, -, h5⟩ := recolor_spec _ (⟨fside, pa, fc, fk, fv, fsib⟩ :: rest) (Nat.le_refl _)
          t ca cl cr ck cv fuel hctx hch hd hfuel hC'
        refine ⟨t', ctx'', .node ca .black cl ck cv cr, e, hc, h1, h2, h3, ?_⟩
        have := h5 (AT.node ca .black cl ck cv cr).erase
        simpa [T.spliceOut, AT.erase, T.isRed] using this
    | nil =>
      obtain ⟨rfl, rfl⟩ := hnil rfl
      simp only [AT.ptr_nil, Option.isSome_none, Bool.false_eq_true, if_false]
      have hctx0 := hctx
      obtain ⟨g0, gs, grest⟩ := hctx
      have gs' : Owns t (some pa) fsib := gs
      have hsp_pa : spa ≠ pa := by
        intro e; subst e
        simp only [ctxAddrs, List.count_cons, beq_self_eq_true, if_true] at hspn; omega
      have hnotin : ∀ x, 0 < (ctxAddrs (⟨fside, pa, fc, fk, fv, fsib⟩ :: rest)).count x → x ≠ spa := by
        intro x hx e; subst e; omega
      -- the three no-op assignments to the splice node
      obtain ⟨t1, e1, h1a, h1o, h1r, h1c⟩ := upd_spec t spa (fun x => { x with parent := some pa }) _ hsp
      obtain ⟨t2, e2, h2a, h2o, h2r, h2c⟩ := upd_spec t1 spa (fun x => { x with left := none }) _ h1a
      obtain ⟨t3, e3, h3a, h3o, h3r, h3c⟩ := upd_spec t2 spa (fun x => { x with right := none }) _ h2a
      have h3o' : ∀ x, x ≠ spa → t3.get (some x) = t.get (some x) :=
        fun x hx => ((h3o x hx).trans (h2o x hx)).trans (h1o x hx)
      have hpa3 : t3.get (some pa) = _ := (h3o' pa (Ne.symm hsp_pa)).trans g0
      have hnd : (ctxAddrs (⟨fside, pa, fc, fk, fv, fsib⟩ :: rest)).Nodup := by
        rw [List.nodup_iff_count]; intro x; have := hd x; omega
      have hC' : (zipDelC (⟨fside, pa, fc, fk, fv, fsib⟩ :: rest)
          ((AT.node spa .black .nil ksp vsp .nil).erase, true)).isSome = true := by
        rw [zipDelC_param _ _ T.nil]
        simpa [T.spliceOut, AT.erase, T.isRed] using hC
      have hdleaf : Distinct (⟨fside, pa, fc, fk, fv, fsib⟩ :: rest) (.node spa .black .nil ksp vsp .nil) := by
        intro x
        have h1 := hd x
        simp only [AT.addrs, List.count_nil, Nat.add_zero, List.append_nil, List.count_cons] at h1 ⊢
        by_cases hx : spa = x
        · subst hx; simp only [AT.addrs, List.count_nil, Nat.add_zero] at hspn; rw [hspn]; simp
        · simp only [beq_iff_eq, hx, if_false]; omega
      -- link the sentinel, run the loop, unlink it
      have key : ∀ (setL : PTree K V → Ptr → Ptr → Option (PTree K V))
          (hsetL : ∀ (u : PTree K V) (q : Ptr), setL u (some pa) q = u.upd (some pa) (setSide fside q)),
          ∃ t' ctxF sF, (do
              let t ← setL t3 (some pa) (some spa)
              let t ← recolor t fuel (some spa)
              setL t (some pa) none) = some t' ∧ t'.count = t.count ∧
            OwnsCtx t' ctxF sF.ptr ∧ Owns t' (ctxPtr ctxF) sF ∧ Distinct ctxF sF ∧
            (zipDelC (⟨fside, pa, fc, fk, fv, fsib⟩ :: rest) (T.spliceOut .black (AT.nil : AT K V).erase)).map
              (fun r => r.1.setBlack) = some (plugT ctxF sF.erase).setBlack := by
        intro setL hsetL
        obtain ⟨t4, e4, h4a, h4o, h4r, h4c⟩ := upd_spec t3 pa (setSide fside (some spa)) _ hpa3
        have hctx4 : OwnsCtx t4 (⟨fside, pa, fc, fk, fv, fsib⟩ :: rest) (some spa) := by
          refine OwnsCtx.sethole hctx0 hnd ?_ ?_ ((h4r.trans h3r).trans (h2r.trans h1r))
          · rw [h4a, g0]; rfl
          · intro x hx hne
            rw [h4o x hne]
            exact h3o' x (hnotin x (List.count_pos_iff.mpr hx))
        have hleaf4 : Owns t4 (some pa) (.node spa .black .nil ksp vsp .nil) :=
          ⟨(h4o spa hsp_pa).trans h3a, trivial, trivial⟩
        obtain ⟨t5, ctx'', e5, hc5, g1, g2, g3, g4, g5⟩ := recolor_spec _ (⟨fside, pa, fc, fk, fv, fsib⟩ :: rest)
          (Nat.le_refl _) t4 spa .nil .nil ksp vsp fuel hctx4 hleaf4 hdleaf hfuel hC'
        cases ctx'' with
        | nil => simp at g4
        | cons f'' rest'' =>
          simp only [List.head?_cons, Option.map_some, Option.some.injEq, Prod.mk.injEq] at g4
          obtain ⟨hfa, hfs⟩ := g4
          obtain ⟨side'', a'', c'', k'', v'', sib''⟩ := f''
          simp only at hfa hfs
          subst hfa; subst hfs
          obtain ⟨x5, hx5⟩ := exists_of_isSome (show (t5.get (some a'')).isSome = true by rw [g1.1]; rfl)
          obtain ⟨t6, e6, h6a, h6o, h6r, h6c⟩ := upd_spec t5 a'' (setSide side'' none) _ hx5
          have hnd'' : (ctxAddrs (⟨side'', a'', c'', k'', v'', sib''⟩ :: rest'')).Nodup := by
            rw [List.nodup_iff_count]; intro x; have := g3 x; omega
          refine ⟨t6, ⟨side'', a'', c'', k'', v'', sib''⟩ :: rest'', .nil, ?_, ?_, ?_, trivial, ?_, ?_⟩
          · simp only [hsetL, e4, Option.bind_eq_bind, Option.bind_some, e5, e6]
          · rw [h6c, hc5, h4c, h3c, h2c, h1c]
          · refine OwnsCtx.sethole g1 hnd'' ?_ (fun x _ hne => h6o x hne) h6r
            rw [h6a, hx5]; rfl
          · intro x; have := g3 x
            simp only [AT.addrs, List.count_nil, Nat.add_zero, List.count_cons, List.append_nil] at this ⊢; omega
          · have := g5 T.nil
            simpa [T.spliceOut, AT.erase, T.isRed] using this
      subst hleft
      cases fside with
      | L =>
        obtain ⟨t', ctxF, sF, e, hrest⟩ := key (fun u p q => u.setLeft p q) (fun u q => rfl)
        refine ⟨t', ctxF, sF, ?_, hrest⟩
        simp only [setParent, setLeft, setRight, e1, e2, e3, Option.bind_eq_bind, Option.bind_some, if_true]
        exact e
      | R =>
        obtain ⟨t', ctxF, sF, e, hrest⟩ := key (fun u p q => u.setRight p q) (fun u q => rfl)
        refine ⟨t', ctxF, sF, ?_, hrest⟩
        simp only [setParent, setLeft, setRight, e1, e2, e3, Option.bind_eq_bind, Option.bind_some, Bool.false_eq_true,
          if_false]
        exact e
theorem get_count_upd (t : PTree K V) (c : Nat) (p : Ptr) : ({ t with count := c } : PTree K V).get p = t.get p := by
  cases p <;> rfl

/-- the end of `Remove`: `if t.root != nil { t.root.black = true }; t.count--` -/
theorem remove_finish (t3 : PTree K V) (ctx' : Ctx K V) (s' : AT K V) (n : Nat)
    (h1 : OwnsCtx t3 ctx' s'.ptr) (h2 : Owns t3 (ctxPtr ctx') s') (h3 : Distinct ctx' s') (hc : t3.count = n) :
    ∃ t' s'', ((if t3.root.isSome = true then t3.setBlack t3.root true else some t3).bind
        fun t4 => some { t4 with count := t4.count - 1 }) = some t' ∧
      Rep t' s'' ∧ s''.erase = (plugT ctx' s'.erase).setBlack ∧ t'.count = n - 1 := by
  obtain ⟨ho, hr⟩ := owns_plug ctx' s' h1 h2
  have hnd := nodup_plug h3
  rw [← erase_plug]
  cases hP : plug ctx' s' with
  | nil =>
    rw [hP] at ho hr
    refine ⟨{ t3 with count := t3.count - 1 }, .nil, ?_, ⟨trivial, hr, List.nodup_nil⟩, rfl, ?_⟩
    · have : t3.root.isSome = false := by rw [hr]; rfl
      simp only [this, Bool.false_eq_true, if_false, Option.bind_some]
    · show t3.count - 1 = n - 1
      rw [hc]
  | node ra rc pl pk pv pr =>
    rw [hP] at ho hr hnd
    obtain ⟨h0, hl, hrr⟩ := ho
    simp only [AT.ptr_node] at hr
    obtain ⟨t4, e4, h4a, h4o, h4r, h4c⟩ := setBlack_spec t3 ra true _ h0
    simp only [AT.addrs, List.nodup_cons, List.mem_append, not_or, List.nodup_append] at hnd
    refine ⟨{ t4 with count := t4.count - 1 }, .node ra .black pl pk pv pr, ?_, ⟨?_, ?_, ?_⟩, rfl, ?_⟩
    · rw [hr]; simp only [Option.isSome_some, if_true, e4, Option.bind_some]
    · refine ⟨h4a, Owns.frame (fun x hx => ?_) hl, Owns.frame (fun x hx => ?_) hrr⟩
      · exact h4o x (by rintro rfl; exact hnd.1.1 hx)
      · exact h4o x (by rintro rfl; exact hnd.1.2 hx)
    · exact h4r.trans hr
    · simp only [AT.addrs, List.nodup_cons, List.mem_append, not_or, List.nodup_append]; exact hnd
    · show t4.count - 1 = n - 1
      rw [h4c, hc]

/-- `if splice != n { n.key, splice.key = …; n.value, splice.value = … }` -/
def swapStep (t : PTree K V) (n splice : Ptr) : Option (PTree K V) :=
  if splice != n then do
    let a ← t.get n
    let b ← t.get splice
    let t ← t.upd n fun x => { x with key := b.key, value := b.value }
    t.upd splice fun x => { x with key := a.key, value := a.value }
  else some t

/-- `if splice.black { … }` (`tree.go:248-268`) -/
def colourStep (t : PTree K V) (fuel : Nat) (splice child parent : Ptr) (left : Bool) : Option (PTree K V) := do
  if (← t.get splice).black then
    if child.isSome then recolor t fuel child
    else do
      let child := splice
      let t ← t.setParent child parent
      let t ← t.setLeft child none
      let t ← t.setRight child none
      let t ← if left then t.setLeft parent child else t.setRight parent child
      let t ← recolor t fuel child
      if left then t.setLeft parent none else t.setRight parent none
  else some t

def finishStep (t : PTree K V) : Option (PTree K V) := do
  let t ← if t.root.isSome then t.setBlack t.root true else some t
  some { t with count := t.count - 1 }

theorem ite_bind' {α β : Type} (c : Prop) [Decidable c] (a b : Option α) (f : α → Option β) :
    (if c then a else b).bind f = if c then a.bind f else b.bind f := by
  split <;> rfl

theorem removeNode_eq (t : PTree K V) (n : Ptr) : t.removeNode n = (do
    let fuel := t.nodes.size + 2
    let nn ← t.get n
    let splice ← if nn.left.isSome && nn.right.isSome then leftmost t fuel nn.right else some n
    let sn ← t.get splice
    let child := if sn.left.isSome then sn.left else sn.right
    let t ← if child.isSome then t.setParent child sn.parent else some t
    let t ← if sn.parent.isSome then do
        let parent := sn.parent
        let left := splice == (← t.get parent).left
        let t ← if left then t.setLeft parent child else t.setRight parent child
        let t ← swapStep t n splice
        colourStep t fuel splice child parent left
      else some { t with root := child }
    finishStep t) := by
  simp only [removeNode, swapStep, colourStep, finishStep, Option.bind_eq_bind, Option.pure_def, Option.bind_some,
    Option.bind_assoc, ite_bind']

theorem after_splice' (t : PTree K V) (fside : Side) (pa : Nat) (fc : Color) (fk : K) (fv : V) (fsib : AT K V)
    (rest : Ctx K V) (ch : AT K V) (spa : Nat) (spc : Color) (ksp : K) (vsp : V) (XL XR : Ptr) (fuel : Nat) (left : Bool)
    (hleft : left = match fside with | .L => true | .R => false)
    (hctx : OwnsCtx t (⟨fside, pa, fc, fk, fv, fsib⟩ :: rest) ch.ptr) (hch : Owns t (some pa) ch)
    (hd : Distinct (⟨fside, pa, fc, fk, fv, fsib⟩ :: rest) ch)
    (hsp : t.get (some spa) = some ⟨ksp, vsp, some pa, XL, XR, decide (spc = .black)⟩)
    (hspn : (ctxAddrs (⟨fside, pa, fc, fk, fv, fsib⟩ :: rest)).count spa + ch.addrs.count spa = 0)
    (hnil : ch = .nil → XL = none ∧ XR = none)
    (hfuel : (⟨fside, pa, fc, fk, fv, fsib⟩ :: rest).length + 2 ≤ fuel)
    (hC : (zipDelC (⟨fside, pa, fc, fk, fv, fsib⟩ :: rest) (T.spliceOut spc ch.erase)).isSome = true) :
    ∃ t' ctxF sF, colourStep t fuel (some spa) ch.ptr (some pa) left = some t' ∧ t'.count = t.count ∧
      OwnsCtx t' ctxF sF.ptr ∧ Owns t' (ctxPtr ctxF) sF ∧ Distinct ctxF sF ∧
      (zipDelC (⟨fside, pa, fc, fk, fv, fsib⟩ :: rest) (T.spliceOut spc ch.erase)).map (fun r => r.1.setBlack)
        = some (plugT ctxF sF.erase).setBlack := by
  obtain ⟨t', ctxF, sF, e, h⟩ := after_splice t fside pa fc fk fv fsib rest ch spa spc ksp vsp XL XR fuel left hleft hctx hch
    hd hsp hspn hnil hfuel hC
  refine ⟨t', ctxF, sF, ?_, h⟩
  rw [← e]
  simp only [colourStep, hsp, Option.bind_eq_bind, Option.bind_some, Option.pure_def]

/-- unlinking the splice node below its parent: `child.parent = splice.parent`, `parent.left/right = child` -/
theorem unlink_spec (t : PTree K V) (fside : Side) (pa : Nat) (fc : Color) (fk : K) (fv : V) (fsib : AT K V)
    (rest : Ctx K V) (spa : Nat) (spc : Color) (spk : K) (spv : V) (SL SR ch : AT K V)
    (hch : (SL = .nil ∧ ch = SR) ∨ (SR = .nil ∧ ch = SL))
    (hctx : OwnsCtx t (⟨fside, pa, fc, fk, fv, fsib⟩ :: rest) (some spa))
    (hSP : Owns t (some pa) (.node spa spc SL spk spv SR))
    (hd : Distinct (⟨fside, pa, fc, fk, fv, fsib⟩ :: rest) (.node spa spc SL spk spv SR)) :
    ∃ t1 t2 x left, (if ch.ptr.isSome = true then t.setParent ch.ptr (some pa) else some t) = some t1 ∧
      t1.get (some pa) = some x ∧ (some spa == x.left) = left ∧
      (left = match fside with | .L => true | .R => false) ∧
      (if left = true then t1.setLeft (some pa) ch.ptr else t1.setRight (some pa) ch.ptr) = some t2 ∧
      OwnsCtx t2 (⟨fside, pa, fc, fk, fv, fsib⟩ :: rest) ch.ptr ∧ Owns t2 (some pa) ch ∧
      Distinct (⟨fside, pa, fc, fk, fv, fsib⟩ :: rest) ch ∧
      (∀ y, y ≠ pa → ch.ptr ≠ some y → t2.get (some y) = t.get (some y)) ∧ t2.count = t.count ∧ t2.root = t.root := by
  cases fside with
  | L =>
    have hctx0 := hctx
    obtain ⟨g0, gs, grest⟩ := hctx
    obtain ⟨hsp, hSL, hSR⟩ := hSP
    have hchO : Owns t (some spa) ch := by
      rcases hch with ⟨_, rfl⟩ | ⟨_, rfl⟩
      · exact hSR
      · exact hSL
    have hdch : Distinct (⟨Side.L, pa, fc, fk, fv, fsib⟩ :: rest) ch := by
      intro y; have := hd y
      rcases hch with ⟨rfl, rfl⟩ | ⟨rfl, rfl⟩ <;>
      · simp only [ctxAddrs, AT.addrs, List.count_cons, List.count_append, List.count_nil] at this ⊢; omega
    have hnd : (ctxAddrs (⟨Side.L, pa, fc, fk, fv, fsib⟩ :: rest)).Nodup := by
      rw [List.nodup_iff_count]; intro y; have := hd y; omega
    have hchnd : ch.addrs.Nodup := by
      rw [List.nodup_iff_count]; intro y; have := hdch y; omega
    -- step 1: the child's parent link
    obtain ⟨t1, e1, h1o, h1c, h1r, h1ch⟩ : ∃ t1, (if ch.ptr.isSome = true then t.setParent ch.ptr (some pa) else some t) = some t1 ∧
        (∀ y, ch.ptr ≠ some y → t1.get (some y) = t.get (some y)) ∧ t1.count = t.count ∧ t1.root = t.root ∧
        Owns t1 (some pa) ch := by
      cases ch with
      | nil => exact ⟨t, rfl, fun _ _ => rfl, rfl, rfl, trivial⟩
      | node ca cc cl ck cv cr =>
        obtain ⟨u, e, ha, ho, hr, hc⟩ := upd_spec t ca (fun x => { x with parent := some pa }) _ hchO.1
        refine ⟨u, by simp only [AT.ptr_node, Option.isSome_some, if_true, setParent]; exact e, fun y hy => ho y (fun e => hy (by rw [e]; rfl)), hc, hr, ?_⟩
        refine Owns.reparent (t := t) (par := some spa) (fun a ha' => ?_) (fun a _ hne => ho a ?_) hchnd hchO
        · simp only [AT.ptr_node, Option.some.injEq] at ha'; subst ha'
          rw [ha, hchO.1]; rfl
        · intro e; exact hne (by rw [e]; rfl)
    have hpa_ch : ch.ptr ≠ some pa := by
      intro e
      have c := List.count_pos_iff.mpr (AT.ptr_mem_addrs e)
      have := hdch pa
      simp only [ctxAddrs, List.count_cons, beq_self_eq_true, if_true] at this; omega
    have hpa1 : t1.get (some pa) = _ := (h1o pa hpa_ch).trans g0
    have hfs : fsib.ptr ≠ some spa := by
      intro e
      have c := List.count_pos_iff.mpr (AT.ptr_mem_addrs e)
      have := hd spa
      simp only [ctxAddrs, AT.addrs, List.count_cons, List.count_append, beq_self_eq_true, if_true] at this; omega
    have hleft : (some spa == some spa) = true := by
      simp
    obtain ⟨t2, e2, h2a, h2o, h2r, h2c⟩ := upd_spec t1 pa (setSide Side.L ch.ptr) _ hpa1
    refine ⟨t1, t2, _, _, e1, hpa1, hleft, rfl, ?_, ?_, ?_, hdch, ?_, h2c.trans h1c, h2r.trans h1r⟩
    · simp only [setLeft, setRight, if_true, Bool.false_eq_true, if_false]; exact e2
    · refine OwnsCtx.sethole hctx0 hnd ?_ ?_ (h2r.trans h1r)
      · rw [h2a, g0]; rfl
      · intro y hy hne
        rw [h2o y hne]
        apply h1o
        intro e
        have c1 := List.count_pos_iff.mpr (AT.ptr_mem_addrs e)
        have c2 := List.count_pos_iff.mpr hy
        have := hdch y; omega
    · refine Owns.frame (fun y hy => h2o y ?_) h1ch
      rintro rfl
      have c1 := List.count_pos_iff.mpr hy
      have := hdch y
      simp only [ctxAddrs, List.count_cons, beq_self_eq_true, if_true] at this; omega
    · intro y h1 h2
      rw [h2o y h1]; exact h1o y h2

  | R =>
    have hctx0 := hctx
    obtain ⟨g0, gs, grest⟩ := hctx
    obtain ⟨hsp, hSL, hSR⟩ := hSP
    have hchO : Owns t (some spa) ch := by
      rcases hch with ⟨_, rfl⟩ | ⟨_, rfl⟩
      · exact hSR
      · exact hSL
    have hdch : Distinct (⟨Side.R, pa, fc, fk, fv, fsib⟩ :: rest) ch := by
      intro y; have := hd y
      rcases hch with ⟨rfl, rfl⟩ | ⟨rfl, rfl⟩ <;>
      · simp only [ctxAddrs, AT.addrs, List.count_cons, List.count_append, List.count_nil] at this ⊢; omega
    have hnd : (ctxAddrs (⟨Side.R, pa, fc, fk, fv, fsib⟩ :: rest)).Nodup := by
      rw [List.nodup_iff_count]; intro y; have := hd y; omega
    have hchnd : ch.addrs.Nodup := by
      rw [List.nodup_iff_count]; intro y; have := hdch y; omega
    -- step 1: the child's parent link
    obtain ⟨t1, e1, h1o, h1c, h1r, h1ch⟩ : ∃ t1, (if ch.ptr.isSome = true then t.setParent ch.ptr (some pa) else some t) = some t1 ∧
        (∀ y, ch.ptr ≠ some y → t1.get (some y) = t.get (some y)) ∧ t1.count = t.count ∧ t1.root = t.root ∧
        Owns t1 (some pa) ch := by
      cases ch with
      | nil => exact ⟨t, rfl, fun _ _ => rfl, rfl, rfl, trivial⟩
      | node ca cc cl ck cv cr =>
        obtain ⟨u, e, ha, ho, hr, hc⟩ := upd_spec t ca (fun x => { x with parent := some pa }) _ hchO.1
        refine ⟨u, by simp only [AT.ptr_node, Option.isSome_some, if_true, setParent]; exact e, fun y hy => ho y (fun e => hy (by rw [e]; rfl)), hc, hr, ?_⟩
        refine Owns.reparent (t := t) (par := some spa) (fun a ha' => ?_) (fun a _ hne => ho a ?_) hchnd hchO
        · simp only [AT.ptr_node, Option.some.injEq] at ha'; subst ha'
          rw [ha, hchO.1]; rfl
        · intro e; exact hne (by rw [e]; rfl)
    have hpa_ch : ch.ptr ≠ some pa := by
      intro e
      have c := List.count_pos_iff.mpr (AT.ptr_mem_addrs e)
      have := hdch pa
      simp only [ctxAddrs, List.count_cons, beq_self_eq_true, if_true] at this; omega
    have hpa1 : t1.get (some pa) = _ := (h1o pa hpa_ch).trans g0
    have hfs : fsib.ptr ≠ some spa := by
      intro e
      have c := List.count_pos_iff.mpr (AT.ptr_mem_addrs e)
      have := hd spa
      simp only [ctxAddrs, AT.addrs, List.count_cons, List.count_append, beq_self_eq_true, if_true] at this; omega
    have hleft : (some spa == fsib.ptr) = false := by
      simp only [beq_eq_false_iff_ne, ne_eq]
      exact fun e => hfs e.symm
    obtain ⟨t2, e2, h2a, h2o, h2r, h2c⟩ := upd_spec t1 pa (setSide Side.R ch.ptr) _ hpa1
    refine ⟨t1, t2, _, _, e1, hpa1, hleft, rfl, ?_, ?_, ?_, hdch, ?_, h2c.trans h1c, h2r.trans h1r⟩
    · simp only [setLeft, setRight, if_true, Bool.false_eq_true, if_false]; exact e2
    · refine OwnsCtx.sethole hctx0 hnd ?_ ?_ (h2r.trans h1r)
      · rw [h2a, g0]; rfl
      · intro y hy hne
        rw [h2o y hne]
        apply h1o
        intro e
        have c1 := List.count_pos_iff.mpr (AT.ptr_mem_addrs e)
        have c2 := List.count_pos_iff.mpr hy
        have := hdch y; omega
    · refine Owns.frame (fun y hy => h2o y ?_) h1ch
      rintro rfl
      have c1 := List.count_pos_iff.mpr hy
      have := hdch y
      simp only [ctxAddrs, List.count_cons, beq_self_eq_true, if_true] at this; omega
    · intro y h1 h2
      rw [h2o y h1]; exact h1o y h2


end PTree
theorem T.spliceOut_setBlack (c : Color) (x : T K V) : (T.spliceOut c x).1.setBlack = x.setBlack := by
  simp only [T.spliceOut]
  split
  · rfl
  · split
    · exact T.setBlack_setBlack x
    · rfl

namespace PTree

theorem finishStep_eq (t : PTree K V) : finishStep t =
    ((if t.root.isSome = true then t.setBlack t.root true else some t).bind
      fun t4 => some { t4 with count := t4.count - 1 }) := by
  cases h : t.root.isSome <;> simp [finishStep, h]

/-- `Remove` from `splice := n` on, when the node found has at most one child (it is its own splice node) -/
theorem removeNode_single (t : PTree K V) (p : Ctx K V) (a : Nat) (c : Color) (k : K) (v : V) (l r ch : AT K V)
    (hch : (l = .nil ∧ ch = r) ∨ (r = .nil ∧ ch = l))
    (hctx : OwnsCtx t p (some a)) (hN : Owns t (ctxPtr p) (.node a c l k v r)) (hd : Distinct p (.node a c l k v r))
    (hlen : p.length ≤ t.nodes.size)
    (hC : (zipDelC p (T.spliceOut c ch.erase)).isSome = true) :
    ∃ t' s', t.removeNode (some a) = some t' ∧ Rep t' s' ∧
      some s'.erase = (zipDelC p (T.spliceOut c ch.erase)).map (fun z => z.1.setBlack) ∧ t'.count = t.count - 1 := by
  have h0 := hN.1
  have hlr : (l.ptr.isSome && r.ptr.isSome) = false := by
    rcases hch with ⟨rfl, _⟩ | ⟨rfl, _⟩ <;> simp [AT.ptr]
  have hchild : (if l.ptr.isSome = true then l.ptr else r.ptr) = ch.ptr := by
    rcases hch with ⟨rfl, rfl⟩ | ⟨rfl, rfl⟩
    · rfl
    · cases ch <;> rfl
  rw [removeNode_eq]
  simp only [h0, Option.bind_eq_bind, Option.bind_some, hlr, Bool.false_eq_true, if_false, hchild]
  cases p with
  | nil =>
    -- the root is removed: `t.root = child`
    obtain ⟨_, hl, hr⟩ := hN
    have hchO : Owns t (some a) ch := by
      rcases hch with ⟨_, rfl⟩ | ⟨_, rfl⟩
      · exact hr
      · exact hl
    have hchnd : ch.addrs.Nodup := by
      rw [List.nodup_iff_count]; intro y; have := hd y
      rcases hch with ⟨rfl, rfl⟩ | ⟨rfl, rfl⟩ <;>
      · simp only [ctxAddrs, AT.addrs, List.count_cons, List.count_append, List.count_nil] at this ⊢; omega
    obtain ⟨t1, e1, h1c, h1ch⟩ : ∃ t1, (if ch.ptr.isSome = true then t.setParent ch.ptr none else some t) = some t1 ∧
        t1.count = t.count ∧ Owns t1 none ch := by
      cases ch with
      | nil => exact ⟨t, rfl, rfl, trivial⟩
      | node ca cc cl ck cv cr =>
        obtain ⟨u, e, ha, ho, hr', hc⟩ := upd_spec t ca (fun x => { x with parent := none }) _ hchO.1
        refine ⟨u, by simp only [AT.ptr_node, Option.isSome_some, if_true, setParent]; exact e, hc, ?_⟩
        refine Owns.reparent (t := t) (par := some a) (fun b hb => ?_) (fun b _ hne => ho b ?_) hchnd hchO
        · simp only [AT.ptr_node, Option.some.injEq] at hb; subst hb
          rw [ha, hchO.1]; rfl
        · intro e; exact hne (by rw [e]; rfl)
    have e1' : (if ch.ptr.isSome = true then
          (t.setParent ch.ptr none).bind fun t => finishStep { t with root := ch.ptr }
        else finishStep { t with root := ch.ptr }) = finishStep { t1 with root := ch.ptr } := by
      cases hci : ch.ptr.isSome <;> simp only [hci, if_true, Bool.false_eq_true, if_false] at e1 ⊢
      · cases e1; rfl
      · rw [e1]; rfl
    simp only [ctxPtr, Option.isSome_none, Bool.false_eq_true, if_false, Option.bind_some]
    rw [e1']
    obtain ⟨t', s'', e, hrep, he, hc⟩ := remove_finish { t1 with root := ch.ptr } [] ch t.count rfl
      (Owns.frame (fun x _ => get_root_upd t1 _ _) h1ch)
      (by intro y; have := hchnd; rw [List.nodup_iff_count] at this; simp only [ctxAddrs, List.count_nil, Nat.zero_add]
          exact this y) h1c
    refine ⟨t', s'', by rw [finishStep_eq]; exact e, hrep, ?_, hc⟩
    rw [he]
    simp only [zipDelC, Option.map_some, plugT, T.spliceOut_setBlack]
  | cons f rest =>
    obtain ⟨fside, pa, fc, fk, fv, fsib⟩ := f
    obtain ⟨t1, t2, x, left, e1, hx, hl', hleft, e2, g1, g2, g3, g4, g5, g6⟩ := unlink_spec t fside pa fc fk fv fsib rest a c k v
      l r ch hch hctx hN hd
    have hsw : swapStep t2 (some a) (some a) = some t2 := by simp [swapStep]
    have e12 : ∀ (cont : PTree K V → Bool → Option (PTree K V)),
        (if ch.ptr.isSome = true then
          (t.setParent ch.ptr (some pa)).bind fun t_1 =>
            (t_1.get (some pa)).bind fun __do_lift =>
              if (some a == __do_lift.left) = true then
                (t_1.setLeft (some pa) ch.ptr).bind fun t_2 => cont t_2 (some a == __do_lift.left)
              else (t_1.setRight (some pa) ch.ptr).bind fun t_2 => cont t_2 (some a == __do_lift.left)
        else
          (t.get (some pa)).bind fun __do_lift =>
            if (some a == __do_lift.left) = true then
              (t.setLeft (some pa) ch.ptr).bind fun t_2 => cont t_2 (some a == __do_lift.left)
            else (t.setRight (some pa) ch.ptr).bind fun t_2 => cont t_2 (some a == __do_lift.left)) = cont t2 left := by
      intro cont
      cases hci : ch.ptr.isSome <;> simp only [hci, if_true, Bool.false_eq_true, if_false] at e1 ⊢
      · cases e1
        simp only [hx, Option.bind_some, hl']
        cases left <;> simp only [if_true, Bool.false_eq_true, if_false] at e2 ⊢ <;> rw [e2] <;> rfl
      · simp only [e1, hx, Option.bind_some, hl']
        cases left <;> simp only [if_true, Bool.false_eq_true, if_false] at e2 ⊢ <;> rw [e2] <;> rfl
    simp only [ctxPtr, Option.isSome_some, if_true]
    rw [e12 (fun t_2 lf => (t_2.swapStep (some a) (some a)).bind fun t_3 =>
      (t_3.colourStep (t.nodes.size + 2) (some a) ch.ptr (some pa) lf).bind fun t => t.finishStep)]
    simp only [hsw, Option.bind_some]
    have hapa : a ≠ pa := by
      intro e; subst e; have := hd a
      simp only [ctxAddrs, AT.addrs, List.count_cons, beq_self_eq_true, if_true] at this; omega
    have hach : ch.ptr ≠ some a := by
      intro e
      have c1 := List.count_pos_iff.mpr (AT.ptr_mem_addrs e)
      have := hd a
      rcases hch with ⟨rfl, rfl⟩ | ⟨rfl, rfl⟩ <;>
      · simp only [ctxAddrs, AT.addrs, List.count_cons, List.count_append, beq_self_eq_true, if_true] at this; omega
    have hsp : t2.get (some a) = some ⟨k, v, some pa, l.ptr, r.ptr, decide (c = .black)⟩ := (g4 a hapa hach).trans h0
    obtain ⟨t3, ctxF, sF, e3, hc3, f1, f2, f3, f4⟩ := after_splice' t2 fside pa fc fk fv fsib rest ch a c k v l.ptr r.ptr
      (t.nodes.size + 2) left hleft g1 g2 g3 hsp
      (by
        have := hd a
        rcases hch with ⟨rfl, rfl⟩ | ⟨rfl, rfl⟩ <;>
        · simp only [ctxAddrs, AT.addrs, List.count_cons, List.count_append, beq_self_eq_true, if_true, List.count_nil] at this ⊢
          omega)
      (by
        intro hnil
        rcases hch with ⟨rfl, rfl⟩ | ⟨rfl, rfl⟩
        · exact ⟨rfl, by rw [hnil]; rfl⟩
        · exact ⟨by rw [hnil]; rfl, rfl⟩)
      (by simp only [List.length_cons] at hlen ⊢; omega) hC
    rw [e3, Option.bind_some]
    obtain ⟨t', s'', e, hrep, he, hc⟩ := remove_finish t3 ctxF sF t.count f1 f2 f3 (hc3.trans g5)
    refine ⟨t', s'', by rw [finishStep_eq]; exact e, hrep, ?_, hc⟩
    rw [he, f4]
end PTree

theorem ctxAddrs_append : ∀ (q p : Ctx K V), ctxAddrs (q ++ p) = ctxAddrs q ++ ctxAddrs p
  | [], p => rfl
  | f :: q, p => by simp only [List.cons_append, ctxAddrs, ctxAddrs_append q p, List.append_assoc]

theorem setKVAt_append (k' : K) (v' : V) : ∀ (q : Ctx K V) (f : Frame K V) (p : Ctx K V),
    setKVAt k' v' q.length (q ++ f :: p) = q ++ { f with k := k', v := v' } :: p
  | [], f, p => rfl
  | g :: q, f, p => by simp only [List.length_cons, List.cons_append, setKVAt, setKVAt_append k' v' q f p]

theorem getElem_append_mid : ∀ (q : Ctx K V) (f : Frame K V) (p : Ctx K V), (q ++ f :: p)[q.length]? = some f
  | [], f, p => rfl
  | g :: q, f, p => by simp only [List.length_cons, List.cons_append, List.getElem?_cons_succ]; exact getElem_append_mid q f p

theorem ctxPtr_append_cons (q : Ctx K V) (f : Frame K V) (p : Ctx K V) :
    ctxPtr (q ++ f :: p) = ctxPtr (q ++ [f]) := by
  cases q <;> rfl

namespace PTree

/-- unzipping below a context: a subtree `plug q M` in the hole of `ctx0`, seen from `M` -/
theorem owns_unplug_rel {t : PTree K V} (ctx0 : Ctx K V) : ∀ (q : Ctx K V) (M : AT K V),
    OwnsCtx t ctx0 (plug q M).ptr → Owns t (ctxPtr ctx0) (plug q M) →
    OwnsCtx t (q ++ ctx0) M.ptr ∧ Owns t (ctxPtr (q ++ ctx0)) M
  | [], M, h1, h2 => ⟨h1, h2⟩
  | g :: q, M, h1, h2 => by
    obtain ⟨g1, g2⟩ := owns_unplug_rel ctx0 q (g.fill M) h1 h2
    rw [fill_ptr] at g1
    obtain ⟨side, a, c, k, v, sib⟩ := g
    cases side
    · obtain ⟨h0, hl, hr⟩ := g2
      exact ⟨⟨h0, hr, g1⟩, hl⟩
    · obtain ⟨h0, hl, hr⟩ := g2
      exact ⟨⟨h0, hl, g1⟩, hr⟩

end PTree


namespace PTree
theorem OwnsCtx.get_at {t : PTree K V} : ∀ (ctx : Ctx K V) (hole : Ptr) (i : Nat) (f : Frame K V), OwnsCtx t ctx hole →
    ctx[i]? = some f → (t.get (some f.a)).isSome = true
  | [], _, _, _, _, h => by simp at h
  | g :: rest, hole, 0, f, ⟨h0, _, _⟩, h => by
    simp only [List.getElem?_cons_zero, Option.some.injEq] at h; subst h; rw [h0]; rfl
  | g :: rest, hole, i + 1, f, ⟨_, _, hr⟩, h => by
    simp only [List.getElem?_cons_succ] at h
    exact OwnsCtx.get_at rest _ i f hr h

/-- `Remove` when the node found has two children: the in-order successor (leftmost node of the right subtree) is
    spliced out and its entry moves into the node found -/
theorem removeNode_double (t : PTree K V) (p q : Ctx K V) (a ma : Nat) (c mc : Color) (k mk : K) (v mv : V)
    (l r mr : AT K V) (hl : l.ptr.isSome = true) (hrs : r.ptr.isSome = true)
    (hq : leftPath r = some (q, .node ma mc .nil mk mv mr))
    (hctx : OwnsCtx t p (some a)) (hN : Owns t (ctxPtr p) (.node a c l k v r)) (hd : Distinct p (.node a c l k v r))
    (hsize : ∀ x, 0 < (ctxAddrs p).count x + (AT.node a c l k v r).addrs.count x → x < t.nodes.size)
    (hC : (zipDelC (q ++ ⟨.R, a, c, mk, mv, l⟩ :: p) (T.spliceOut mc mr.erase)).isSome = true) :
    ∃ t' s', t.removeNode (some a) = some t' ∧ Rep t' s' ∧
      some s'.erase = (zipDelC (q ++ ⟨.R, a, c, mk, mv, l⟩ :: p) (T.spliceOut mc mr.erase)).map (fun z => z.1.setBlack) ∧
      t'.count = t.count - 1 := by
  obtain ⟨h0, hlO, hrO⟩ := hN
  obtain ⟨hplug, -⟩ := delMinC_leftPath r q _ hq
  -- the successor and its context
  have hctx0 : OwnsCtx t (⟨.R, a, c, k, v, l⟩ :: p) (plug q (.node ma mc .nil mk mv mr)).ptr := by
    rw [hplug]; exact ⟨h0, hlO, hctx⟩
  obtain ⟨hcx, hM⟩ := owns_unplug_rel (⟨.R, a, c, k, v, l⟩ :: p) q (.node ma mc .nil mk mv mr) hctx0 (by rw [hplug]; exact hrO)
  have hcnt : ∀ x, r.addrs.count x = (ctxAddrs q).count x + (AT.node ma mc .nil mk mv mr).addrs.count x := by
    intro x; rw [← hplug, plug_addrs_count]
  have hdcx : Distinct (q ++ ⟨.R, a, c, k, v, l⟩ :: p) (.node ma mc .nil mk mv mr) := by
    intro x; have := hd x; have := hcnt x
    simp only [ctxAddrs_append, ctxAddrs, AT.addrs, List.count_cons, List.count_append, List.count_nil] at *; omega
  have hheight : r.erase.height < t.nodes.size + 2 := by
    have h1 : r.addrs.length ≤ (List.range t.nodes.size).length :=
      List.Nodup.length_le_of_subset
        (by rw [List.nodup_iff_count]; intro x; have := hd x
            simp only [AT.addrs, List.count_cons, List.count_append] at this; omega)
        (fun x hx => List.mem_range.mpr (hsize x (by
          have := List.count_pos_iff.mpr hx
          simp only [AT.addrs, List.count_cons, List.count_append]; omega)))
    rw [List.length_range] at h1
    have := AT.height_le_addrs r
    omega
  have hlm := leftmost_path t r q _ (some a) (t.nodes.size + 2) hq hrO hheight
  rw [removeNode_eq]
  simp only [h0, Option.bind_eq_bind, Option.bind_some, hl, hrs, Bool.and_self, if_true, hlm, AT.ptr_node, hM.1,
    AT.ptr_nil, Option.isSome_none, Bool.false_eq_true, if_false]
  -- name the head frame of the successor's context, before and after the trade of the entries
  obtain ⟨fside, pa, fc, fk, fv, fsib, rest, fk', fv', rest', hcx_eq, hcx'_eq, hlen'⟩ :
      ∃ fside pa fc fk fv fsib rest fk' fv' rest',
        q ++ ⟨.R, a, c, k, v, l⟩ :: p = ⟨fside, pa, fc, fk, fv, fsib⟩ :: rest ∧
        q ++ ⟨.R, a, c, mk, mv, l⟩ :: p = ⟨fside, pa, fc, fk', fv', fsib⟩ :: rest' ∧ rest'.length = rest.length := by
    cases q with
    | nil => exact ⟨.R, a, c, k, v, l, p, mk, mv, p, rfl, rfl, rfl⟩
    | cons g q' =>
      obtain ⟨gs, ga, gc, gk, gv, gsib⟩ := g
      exact ⟨gs, ga, gc, gk, gv, gsib, _, gk, gv, _, rfl, rfl, by simp⟩
  have hnd : (ctxAddrs (q ++ ⟨.R, a, c, k, v, l⟩ :: p)).Nodup := by
    rw [List.nodup_iff_count]; intro x; have := hdcx x; omega
  have hai := getElem_append_mid q ⟨.R, a, c, k, v, l⟩ p
  have hamem : 0 < (ctxAddrs (q ++ ⟨.R, a, c, k, v, l⟩ :: p)).count a := by
    simp only [ctxAddrs_append, ctxAddrs, List.count_append, List.count_cons, beq_self_eq_true, if_true]; omega
  have hama : a ≠ ma := by
    intro e; subst e; have := hdcx a
    simp only [AT.addrs, List.count_cons, beq_self_eq_true, if_true] at this; omega
  have hsetkv := setKVAt_append mk mv q ⟨.R, a, c, k, v, l⟩ p
  rw [hcx_eq] at hcx hM hdcx hnd hai hamem hsetkv
  simp only [hcx_eq]
  obtain ⟨t1, t2, x, left, e1, hx, hl', hleft, e2, g1, g2, g3, g4, g5, g6⟩ := unlink_spec t fside pa fc fk fv fsib rest
    ma mc mk mv .nil mr mr (Or.inl ⟨rfl, rfl⟩) hcx hM hdcx
  have e12 : ∀ (cont : PTree K V → Bool → Option (PTree K V)),
      (if mr.ptr.isSome = true then
        (t.setParent mr.ptr (some pa)).bind fun t_1 =>
          (t_1.get (some pa)).bind fun __do_lift =>
            if (some ma == __do_lift.left) = true then
              (t_1.setLeft (some pa) mr.ptr).bind fun t_2 => cont t_2 (some ma == __do_lift.left)
            else (t_1.setRight (some pa) mr.ptr).bind fun t_2 => cont t_2 (some ma == __do_lift.left)
      else
        (t.get (some pa)).bind fun __do_lift =>
          if (some ma == __do_lift.left) = true then
            (t.setLeft (some pa) mr.ptr).bind fun t_2 => cont t_2 (some ma == __do_lift.left)
          else (t.setRight (some pa) mr.ptr).bind fun t_2 => cont t_2 (some ma == __do_lift.left)) = cont t2 left := by
    intro cont
    cases hci : mr.ptr.isSome <;> simp only [hci, if_true, Bool.false_eq_true, if_false] at e1 ⊢
    · cases e1
      simp only [hx, Option.bind_some, hl']
      cases left <;> simp only [if_true, Bool.false_eq_true, if_false] at e2 ⊢ <;> rw [e2] <;> rfl
    · simp only [e1, hx, Option.bind_some, hl']
      cases left <;> simp only [if_true, Bool.false_eq_true, if_false] at e2 ⊢ <;> rw [e2] <;> rfl
  simp only [ctxPtr, Option.isSome_some, if_true]
  rw [e12 (fun t_2 lf => (t_2.swapStep (some a) (some ma)).bind fun t_3 =>
    (t_3.colourStep (t.nodes.size + 2) (some ma) mr.ptr (some pa) lf).bind fun t => t.finishStep)]
  -- the trade of the entries
  obtain ⟨xa, hxa⟩ := exists_of_isSome (OwnsCtx.get_at _ _ _ _ g1 hai)
  have hmapa : ma ≠ pa := by
    intro e; subst e; have := hdcx ma
    simp only [ctxAddrs, AT.addrs, List.count_cons, beq_self_eq_true, if_true] at this; omega
  have hmrma : mr.ptr ≠ some ma := by
    intro e
    have c1 := List.count_pos_iff.mpr (AT.ptr_mem_addrs e)
    have := hdcx ma
    simp only [AT.addrs, List.count_cons, List.count_append, beq_self_eq_true, if_true, List.count_nil] at this; omega
  have hma2 : t2.get (some ma) = _ := (g4 ma hmapa hmrma).trans hM.1
  obtain ⟨t3, e3, h3a, h3o, h3r, h3c⟩ := upd_spec t2 a (fun y => { y with key := mk, value := mv }) _ hxa
  have hma3 : t3.get (some ma) = _ := (h3o ma (Ne.symm hama)).trans hma2
  obtain ⟨t4, e4, h4a, h4o, h4r, h4c⟩ := upd_spec t3 ma (fun y => { y with key := xa.key, value := xa.value }) _ hma3
  have hsw : swapStep t2 (some a) (some ma) = some t4 := by
    have : (some ma != some a) = true := by simp [Ne.symm hama]
    simp only [swapStep, this, if_true, hxa, hma2, Option.bind_eq_bind, Option.bind_some, e3, e4]
  rw [hsw, Option.bind_some]
  have hcx3 : OwnsCtx t3 (⟨fside, pa, fc, fk', fv', fsib⟩ :: rest') mr.ptr := by
    have := OwnsCtx.setKV (t := t2) (t' := t3) mk mv q.length _ mr.ptr _ hai g1 hnd (by rw [h3a, hxa]; rfl)
      (fun y _ hne => h3o y hne) h3r
    rw [hsetkv, hcx'_eq] at this
    exact this
  have haddr' : ctxAddrs (⟨fside, pa, fc, fk', fv', fsib⟩ :: rest') = ctxAddrs (⟨fside, pa, fc, fk, fv, fsib⟩ :: rest) := by
    rw [← hcx'_eq, ← hsetkv, ctxAddrs_setKVAt]
  have hcx4 : OwnsCtx t4 (⟨fside, pa, fc, fk', fv', fsib⟩ :: rest') mr.ptr := by
    refine OwnsCtx.frame (fun y hy => h4o y ?_) h4r hcx3
    rw [haddr'] at hy
    rintro rfl
    have c := List.count_pos_iff.mpr hy
    have := hdcx y
    simp only [AT.addrs, List.count_cons, beq_self_eq_true, if_true] at this; omega
  have hmr4 : Owns t4 (some pa) mr := by
    refine Owns.frame (fun y hy => ?_) g2
    have c := List.count_pos_iff.mpr hy
    have hya : y ≠ a := by
      rintro rfl; have := g3 y; omega
    have hym : y ≠ ma := by
      rintro rfl; have := hdcx y
      simp only [AT.addrs, List.count_cons, List.count_append, beq_self_eq_true, if_true] at this; omega
    rw [h4o y hym, h3o y hya]
  have hd4 : Distinct (⟨fside, pa, fc, fk', fv', fsib⟩ :: rest') mr := by
    intro y; rw [haddr']; exact g3 y
  have hlenb : (⟨fside, pa, fc, fk', fv', fsib⟩ :: rest').length + 2 ≤ t.nodes.size + 2 := by
    have h1 : (ctxAddrs (⟨fside, pa, fc, fk, fv, fsib⟩ :: rest)).length ≤ (List.range t.nodes.size).length :=
      List.Nodup.length_le_of_subset hnd (fun y hy => List.mem_range.mpr (hsize y (by
        have c := List.count_pos_iff.mpr hy
        have h1 := hcnt y
        rw [← hcx_eq] at c
        simp only [ctxAddrs_append, ctxAddrs, AT.addrs, List.count_cons, List.count_append, List.count_nil] at c h1 ⊢
        omega)))
    rw [List.length_range] at h1
    have h2 := length_le_ctxAddrs (⟨fside, pa, fc, fk, fv, fsib⟩ :: rest)
    simp only [List.length_cons] at h2 ⊢
    omega
  rw [hcx'_eq] at hC
  obtain ⟨t5, ctxF, sF, e5, hc5, f1, f2, f3, f4⟩ := after_splice' t4 fside pa fc fk' fv' fsib rest' mr ma mc xa.key xa.value
    none mr.ptr (t.nodes.size + 2) left hleft hcx4 hmr4 hd4 h4a
    (by
      rw [haddr']
      have := hdcx ma
      simp only [AT.addrs, List.count_cons, List.count_append, beq_self_eq_true, if_true, List.count_nil] at this ⊢
      omega)
    (fun hnil => ⟨rfl, by rw [hnil]; rfl⟩) hlenb hC
  rw [e5, Option.bind_some]
  obtain ⟨t', s'', e, hrep, he, hc⟩ := remove_finish t5 ctxF sF t.count f1 f2 f3
    (hc5.trans (h4c.trans (h3c.trans g5)))
  refine ⟨t', s'', by rw [finishStep_eq]; exact e, hrep, ?_, hc⟩
  rw [he, hcx'_eq, f4]

end PTree

theorem leftPath_some : ∀ (s : AT K V), s.ptr.isSome = true → ∃ q ma mc mk mv mr, leftPath s = some (q, .node ma mc .nil mk mv mr)
  | .nil, h => by cases h
  | .node a c .nil k v r, _ => ⟨[], a, c, k, v, r, rfl⟩
  | .node a c (.node la lc ll lk lv lr) k v r, _ => by
    obtain ⟨q, ma, mc, mk, mv, mr, h⟩ := leftPath_some (.node la lc ll lk lv lr) rfl
    exact ⟨q ++ [⟨.L, a, c, k, v, r⟩], ma, mc, mk, mv, mr, by simp only [leftPath, h, Option.map_some]⟩

/-- the two-children case of `delHereC`, along the path to the successor -/
theorem delHereC_double (c : Color) (l r : AT K V) (k : K) (v : V) (p q : Ctx K V) (ma : Nat) (mc : Color) (mk : K) (mv : V)
    (mr : AT K V) (hl : l.ptr.isSome = true) (hr : r.ptr.isSome = true)
    (hq : leftPath r = some (q, .node ma mc .nil mk mv mr)) (a : Nat) :
    (T.delHereC c l.erase k v r.erase).bind (zipDelC p)
      = zipDelC (q ++ ⟨.R, a, c, mk, mv, l⟩ :: p) (T.spliceOut mc mr.erase) := by
  obtain ⟨_, ma', mc', mk', mv', mr', hM, hd⟩ := delMinC_leftPath r q _ hq
  cases hM
  rw [zipDelC_append]
  cases l with
  | nil => cases hl
  | node la lc ll lk lv lr =>
    cases r with
    | nil => cases hr
    | node ra rc rl rk rv rr =>
      simp only [AT.erase] at hd ⊢
      simp only [T.delHereC, hd]
      cases zipDelC q (T.spliceOut mc mr.erase) with
      | none => rfl
      | some u =>
        obtain ⟨u1, u2⟩ := u
        simp only [Option.map_some, Option.bind_some, zipDelC, Frame.fillT, AT.erase]
        cases u2 <;> simp

end RB

namespace RB
variable {K V : Type}
namespace PTree

/-- **the pointer-level `Remove` refines the functional one** whenever the checked functional removal is defined -/
theorem remove_refines (cmp : K → K → Ordering) (t : PTree K V) (S : AT K V) (h : Rep t S) (key : K) :
    (T.find cmp S.erase key = none → t.remove cmp key = some t) ∧
    (∀ X, (T.find cmp S.erase key).isSome = true → T.removeC cmp S.erase key = some X →
      ∃ t' S', t.remove cmp key = some t' ∧ Rep t' S' ∧ S'.erase = X ∧ t'.count = t.count - 1) := by
  have hheight : S.erase.height < t.nodes.size + 2 := by
    have := h.owns.height_le h.nodup; omega
  have hfind := find_path cmp t key S none (t.nodes.size + 2) h.owns hheight
  rw [← h.root] at hfind
  constructor
  · intro hn
    have := (findPath_none cmp key S).mpr hn
    simp only [remove, hfind, findPtr, this, Option.bind_eq_bind, Option.bind_some, Option.isNone_none, if_true]
  · intro X hs hC
    cases hfp : findPath cmp key S with
    | none =>
      rw [(findPath_none cmp key S).mp hfp] at hs; cases hs
    | some z =>
      obtain ⟨p, N⟩ := z
      obtain ⟨hplug, a, c, l, k, v, r, hN, hdel⟩ := delC_findPath cmp key S p N hfp
      subst hN
      have hrm : t.remove cmp key = t.removeNode (some a) := by
        simp only [remove, hfind, findPtr, hfp, Option.bind_eq_bind, Option.bind_some, AT.ptr_node, Option.isNone_some,
          Bool.false_eq_true, if_false]
      rw [hrm]
      obtain ⟨hctx, hNo⟩ := owns_unplug p (.node a c l k v r) (by rw [hplug]; exact h.owns) (by rw [hplug]; exact h.root)
      have hcnt : ∀ x, S.addrs.count x = (ctxAddrs p).count x + (AT.node a c l k v r).addrs.count x := by
        intro x; rw [← hplug, plug_addrs_count]
      have hd : Distinct p (.node a c l k v r) := by
        intro x; rw [← hcnt]; exact List.nodup_iff_count.mp h.nodup x
      have hsize : ∀ x, 0 < (ctxAddrs p).count x + (AT.node a c l k v r).addrs.count x → x < t.nodes.size := by
        intro x hx; rw [← hcnt] at hx
        exact h.owns.addr_lt x (List.count_pos_iff.mp hx)
      have hplen : p.length ≤ t.nodes.size := by
        have h1 : (ctxAddrs p).length ≤ (List.range t.nodes.size).length :=
          List.Nodup.length_le_of_subset
            (by rw [List.nodup_iff_count]; intro x; have := hd x; omega)
            (fun x hx => List.mem_range.mpr (hsize x (by have := List.count_pos_iff.mpr hx; omega)))
        rw [List.length_range] at h1
        exact Nat.le_trans (length_le_ctxAddrs p) h1
      -- what the functional removal computes
      simp only [T.removeC, hdel] at hC
      have conclude : ∀ (z : Option (T K V × Bool)), (T.delHereC c l.erase k v r.erase).bind (zipDelC p) = z →
          (z.isSome = true → ∃ t' s', t.removeNode (some a) = some t' ∧ Rep t' s' ∧
            some s'.erase = z.map (fun w => w.1.setBlack) ∧ t'.count = t.count - 1) →
          ∃ t' S', t.removeNode (some a) = some t' ∧ Rep t' S' ∧ S'.erase = X ∧ t'.count = t.count - 1 := by
        intro z hz hgo
        rw [hz] at hC
        cases z with
        | none => cases hC
        | some w =>
          obtain ⟨t', s', e, hrep, he, hc⟩ := hgo rfl
          refine ⟨t', s', e, hrep, ?_, hc⟩
          obtain ⟨w1, w2⟩ := w
          simp only [Option.map_some, Option.some.injEq] at he hC
          rw [he, ← hC]
      cases l with
      | nil =>
        refine conclude (zipDelC p (T.spliceOut c r.erase)) (by simp only [AT.erase, T.delHereC, Option.bind_some])
          (fun hz => ?_)
        exact removeNode_single t p a c k v .nil r r (Or.inl ⟨rfl, rfl⟩) hctx hNo hd hplen hz
      | node la lc ll lk lv lr =>
        cases r with
        | nil =>
          refine conclude (zipDelC p (T.spliceOut c (AT.node la lc ll lk lv lr).erase))
            (by simp only [AT.erase, T.delHereC, Option.bind_some]) (fun hz => ?_)
          exact removeNode_single t p a c k v (.node la lc ll lk lv lr) .nil (.node la lc ll lk lv lr)
            (Or.inr ⟨rfl, rfl⟩) hctx hNo hd hplen hz
        | node ra rc rl rk rv rr =>
          obtain ⟨q, ma, mc, mk, mv, mr, hq⟩ := leftPath_some (.node ra rc rl rk rv rr) rfl
          refine conclude _ (delHereC_double c (.node la lc ll lk lv lr) (.node ra rc rl rk rv rr) k v p q ma mc mk mv mr
            rfl rfl hq a) (fun hz => ?_)
          exact removeNode_double t p q a ma c mc k mk v mv (.node la lc ll lk lv lr) (.node ra rc rl rk rv rr) mr rfl rfl hq
            hctx hNo hd hsize hz
end PTree

namespace PTree

/-- one operation of a history on the pointer-level model -/
def applyOp (cmp : K → K → Ordering) (t : PTree K V) : Op K V → Option (PTree K V)
  | .ins k v => t.insert cmp k v
  | .rem k => t.remove cmp k

/-- a whole history on the pointer-level model, from the empty tree -/
def run (cmp : K → K → Ordering) (ops : List (Op K V)) : Option (PTree K V) := ops.foldlM (applyOp cmp) PTree.empty

theorem applyOp_refines (cmp : K → K → Ordering) (t : PTree K V) (S : AT K V) (h : Rep t S) (x : Tree K V)
    (hx : x.root = S.erase) (hc : x.count = t.count) (hinv : T.Inv x.root) (op : Op K V) :
    ∃ t' S', t.applyOp cmp op = some t' ∧ Rep t' S' ∧ (x.apply cmp op).root = S'.erase ∧
      (x.apply cmp op).count = t'.count := by
  cases op with
  | ins k v =>
    obtain ⟨t', S', e, ho, hr, hn, he, hcnt⟩ := insert_refines cmp t S h.owns h.root h.nodup k v
    exact ⟨t', S', e, ⟨ho, hr, hn⟩, by rw [he, ← hx]; rfl, by rw [hcnt, ← hc]; rfl⟩
  | rem k =>
    obtain ⟨h1, h2⟩ := remove_refines cmp t S h k
    simp only [applyOp, Tree.apply, Tree.remove]
    cases hf : T.find cmp x.root k with
    | none =>
      rw [hx] at hf
      exact ⟨t, S, h1 hf, h, hx, hc⟩
    | some e =>
      have hC := T.removeC_eq cmp x.root k hinv.1 hinv.2.1
      rw [hx] at hf hC
      obtain ⟨t', S', e', hrep, he, hcnt⟩ := h2 _ (by rw [hf]; rfl) hC
      exact ⟨t', S', e', hrep, by rw [he, hx], by rw [hcnt, ← hc]⟩

theorem foldlM_refines (cmp : K → K → Ordering) : ∀ (ops : List (Op K V)) (t : PTree K V) (S : AT K V) (x : Tree K V),
    Rep t S → x.root = S.erase → x.count = t.count → T.Inv x.root →
    ∃ t' S', ops.foldlM (applyOp cmp) t = some t' ∧ Rep t' S' ∧ (ops.foldl (Tree.apply cmp) x).root = S'.erase ∧
      (ops.foldl (Tree.apply cmp) x).count = t'.count
  | [], t, S, x, h, hx, hc, _ => ⟨t, S, rfl, h, hx, hc⟩
  | op :: ops, t, S, x, h, hx, hc, hinv => by
    obtain ⟨t1, S1, e1, h1, hx1, hc1⟩ := applyOp_refines cmp t S h x hx hc hinv op
    obtain ⟨t', S', e, h', hx', hc'⟩ := foldlM_refines cmp ops t1 S1 (x.apply cmp op) h1 hx1 hc1
      (Tree.apply_inv cmp x op hinv)
    exact ⟨t', S', by simp only [List.foldlM_cons, e1, Option.bind_eq_bind, Option.bind_some, e], h', hx', hc'⟩

/-- **refinement of every history** -/
theorem run_refines (cmp : K → K → Ordering) (ops : List (Op K V)) :
    ∃ t' S', run cmp ops = some t' ∧ Rep t' S' ∧ (Tree.run cmp ops).root = S'.erase ∧
      (Tree.run cmp ops).count = t'.count :=
  foldlM_refines cmp ops PTree.empty .nil Tree.empty Rep.empty rfl rfl
    ⟨by simp [Tree.empty, T.balB], by simp [Tree.empty, T.noRR], rfl⟩

end PTree
end RB
