import Lemmas.QuadTreeWrap
import Lemmas.QuadTreeFuelLogTree
/-! The box of the machine-integer simulation (`Lemmas/QuadTreeWrap.lean`) as a box of the depth bound
    (`Lemmas/QuadTreeFuelLogTree.lean`): `[-2^60, 2^60]²` has sides `2^61`. -/
namespace QT
open Geom

/-- `[-2^60, 2^60]²` -/
def box60 : Rect Int := ⟨-B, -B, 2 * B, 2 * B⟩

theorem box60_sides : box60.w ≤ 2 ^ 61 ∧ box60.h ≤ 2 ^ 61 := by
  unfold box60 B; decide

theorem inBox_map (op : Op (Rect Int64)) (h : OpDom Safe DItem op) : InBox box60 (Op.map toIntR op) := by
  cases op with
  | insert it =>
    rcases h with h | h
    · exact Or.inl (by show (toIntR it.rect).empty = true; rw [empty_toInt]; exact h)
    · refine Or.inr ?_
      obtain ⟨⟨a, b, c, d, e, f⟩, g, i⟩ := h
      show box60.contains (toIntR it.rect) = true
      rw [Rect.contains_iff_Contains]
      simp only [Rect.Contains, Rect.Empty, Rect.right, Rect.bottom, box60, B, toIntR] at *
      omega
  | remove id b => trivial
  | reorganize => trivial
  | clear => trivial
  | setThreshold k => trivial

end QT
