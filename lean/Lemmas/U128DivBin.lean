import Lemmas.U128Div
/-! C01 helper lemmas: `divmod128bin` (shift-and-subtract) is correct — the word-level loop is bridged to the loop on
    natural numbers, which computes quotient and remainder. -/
namespace U128

/-- `divmod128bin` on natural numbers -/
def binLoopN (n0 : Nat) : Nat → Nat → Nat → Nat × Nat
  | 0, u, q => if u ≥ n0 then (q + 1, u - n0) else (q, u)
  | s+1, u, q =>
    if u ≥ n0 * 2^(s+1) then binLoopN n0 s (u - n0 * 2^(s+1)) (2 * (q + 1))
    else binLoopN n0 s u (2 * q)

theorem or_one_even (x : W) (h : x.toNat % 2 = 0) : (x ||| 1#64).toNat = x.toNat + 1 := by
  have h1 : (1#64).toNat = 1 := rfl
  rw [BitVec.toNat_or, h1]
  have e : x.toNat = 2^1 * (x.toNat / 2) := by omega
  have := Nat.two_pow_add_eq_or_of_lt (i := 1) (b := 1) (by omega) (x.toNat / 2)
  rw [← e] at this
  exact this.symm

theorem setLow_toNat (q : U128) (h : q.toNat % 2 = 0) : (U128.mk q.hi (q.lo ||| 1#64)).toNat = q.toNat + 1 := by
  have hl : q.lo.toNat % 2 = 0 := by unfold toNat at h; omega
  show q.hi.toNat * 2^64 + (q.lo ||| 1#64).toNat = _
  rw [or_one_even q.lo hl]; unfold toNat; omega

/-- one round of the loop, on values -/
theorem binStep_toNat (u n q : U128) (hq : q.toNat % 2 = 0) :
    (binStep u n q).1.toNat = (if u.toNat ≥ n.toNat then u.toNat - n.toNat else u.toNat) ∧
    (binStep u n q).2.toNat = (if u.toNat ≥ n.toNat then q.toNat + 1 else q.toNat) := by
  have := u.toNat_lt; have := n.toNat_lt
  unfold binStep
  rw [greaterThanOrEqual_eq]
  by_cases h : u.toNat ≥ n.toNat
  · simp only [h, decide_true, if_true]
    exact ⟨by rw [sub_toNat]; omega, setLow_toNat q hq⟩
  · have e : decide (u.toNat ≥ n.toNat) = false := decide_eq_false h
    rw [e, if_neg h, if_neg h]
    exact ⟨rfl, rfl⟩

/-- the word-level loop computes what the loop on natural numbers computes -/
theorem binLoop_bridge (n0 : Nat) : ∀ (s : Nat) (u nn q : U128), nn.toNat = n0 * 2^s →
    q.toNat % 2 = 0 → q.toNat + 1 < 2^(128 - s) → s < 128 →
    ((binLoop s u nn q).1.toNat, (binLoop s u nn q).2.toNat) = binLoopN n0 s u.toNat q.toNat := by
  intro s
  induction s with
  | zero =>
    intro u nn q hn hq _ _
    obtain ⟨a, b⟩ := binStep_toNat u nn q hq
    simp only [Nat.pow_zero, Nat.mul_one] at hn
    unfold binLoop binLoopN
    simp only [a, b, hn]
    split <;> rfl
  | succ s ih =>
    intro u nn q hn hq hb hs
    obtain ⟨a, b⟩ := binStep_toNat u nn q hq
    have hnn := nn.toNat_lt
    unfold binLoop binLoopN
    have hn' : (rightShift nn 1).toNat = n0 * 2^s := by
      rw [rightShift_toNat, hn, Nat.pow_succ, ← Nat.mul_assoc, Nat.pow_one, Nat.mul_div_cancel _ (by omega)]
    have hpow : 2 ^ (128 - s) = 2 * 2 ^ (128 - (s + 1)) := by
      have : 128 - s = (128 - (s + 1)) + 1 := by omega
      rw [this, Nat.pow_succ]; omega
    have hsmall : 2 ^ (128 - (s + 1)) ≤ 2 ^ 127 := Nat.pow_le_pow_right (by omega) (by omega)
    have hq2 : (binStep u nn q).2.toNat + 1 ≤ 2 ^ (128 - (s + 1)) := by rw [b]; split <;> omega
    have hl : (leftShift (binStep u nn q).2 1).toNat = 2 * (binStep u nn q).2.toNat := by
      rw [leftShift_toNat]; omega
    have key := ih (binStep u nn q).1 (rightShift nn 1) (leftShift (binStep u nn q).2 1) hn'
      (by rw [hl]; omega) (by rw [hl, hpow]; omega) (by omega)
    rw [key, hl, a, b, hn]
    by_cases h : u.toNat ≥ n0 * 2^(s+1)
    · simp only [h, if_true]
    · simp only [h, if_false]

/-- **the loop on natural numbers computes quotient and remainder** -/
theorem binLoopN_spec (n0 : Nat) (hn : 0 < n0) : ∀ s u q, u < n0 * 2^(s+1) →
    binLoopN n0 s u q = (q * 2^s + u / n0, u % n0) := by
  intro s
  induction s with
  | zero =>
    intro u q hu
    simp only [binLoopN, Nat.pow_zero, Nat.mul_one]
    have hu' : u < n0 * 2 := by simpa using hu
    split
    · rename_i hge
      have hlt : u - n0 < n0 := by omega
      have e : u = (u - n0) + n0 * 1 := by omega
      have hd : u / n0 = 1 := by
        rw [e, Nat.add_mul_div_left _ _ hn, Nat.div_eq_of_lt hlt]
      have hm : u % n0 = u - n0 := by
        rw [e, Nat.add_mul_mod_self_left, Nat.mod_eq_of_lt hlt]; omega
      rw [hd, hm]
    · rename_i hlt
      have hlt : u < n0 := by omega
      rw [Nat.div_eq_of_lt hlt, Nat.mod_eq_of_lt hlt]; rfl
  | succ s ih =>
    intro u q hu
    simp only [binLoopN]
    have hpow : n0 * 2^(s+1+1) = n0 * 2^(s+1) * 2 := by rw [Nat.pow_succ 2 (s+1), Nat.mul_assoc]
    split
    · rename_i hge
      have hlt : u - n0 * 2^(s+1) < n0 * 2^(s+1) := by omega
      rw [ih _ _ hlt]
      have e : u = (u - n0 * 2^(s+1)) + n0 * 2^(s+1) := by omega
      have hd : u / n0 = (u - n0 * 2^(s+1)) / n0 + 2^(s+1) := by
        conv => lhs; rw [e]
        rw [Nat.add_mul_div_left _ _ hn]
      have hm : u % n0 = (u - n0 * 2^(s+1)) % n0 := by
        conv => lhs; rw [e]
        rw [Nat.add_mul_mod_self_left]
      rw [hd, hm]
      congr 1
      rw [Nat.pow_succ 2 s] 
      generalize (u - n0 * (2^s * 2)) / n0 = x
      generalize 2^s = p
      have e1 : 2 * (q + 1) * p = 2 * (q * p) + 2 * p := by
        rw [Nat.mul_add, Nat.add_mul, Nat.mul_assoc, Nat.mul_one]
      have e2 : q * (p * 2) = 2 * (q * p) := by rw [← Nat.mul_assoc, Nat.mul_comm]
      rw [e1, e2]
      omega
    · rename_i hlt
      have hlt : u < n0 * 2^(s+1) := by omega
      rw [ih _ _ hlt]
      congr 1
      rw [Nat.pow_succ 2 s, Nat.mul_comm 2 q, Nat.mul_assoc, Nat.mul_comm 2 (2^s)]


theorem bitLen_mono (n u : U128) (h0 : n.toNat ≠ 0) (h : n.toNat < u.toNat) : n.bitLen ≤ u.bitLen := by
  have h1 := bitLen_lower n h0
  have h2 := bitLen_upper u
  have : 2 ^ (n.bitLen - 1) < 2 ^ u.bitLen := by omega
  have := (Nat.pow_lt_pow_iff_right (a := 2) (by omega)).mp this
  omega

/-- **divmod128bin** as the dispatch calls it (dividend greater than a non-zero divisor) returns floor quotient and
    remainder: the contract `DivBinSpec` holds -/
theorem divBinSpec : DivBinSpec := by
  intro u n h0 hlt
  have hm := bitLen_mono n u h0 hlt
  have hbu := bitLen_le u
  have hu0 : u.toNat ≠ 0 := by omega
  have hnl := bitLen_lower n h0
  have hnu := bitLen_upper n
  have huu := bitLen_upper u
  have hnpos : 1 ≤ n.bitLen := by
    rcases Nat.eq_zero_or_pos n.bitLen with e | e
    · rw [e] at hnu; omega
    · exact e
  unfold divmod128bin
  rw [leadingZeros_eq, leadingZeros_eq]
  have hs : 128 - n.bitLen - (128 - u.bitLen) = u.bitLen - n.bitLen := by omega
  simp only [hs]
  generalize hS : u.bitLen - n.bitLen = S
  have hpu : 2 ^ u.bitLen = 2 ^ n.bitLen * 2 ^ S := by rw [← Nat.pow_add]; congr 1; omega
  have hp128 : 2 ^ u.bitLen ≤ 2 ^ 128 := Nat.pow_le_pow_right (by omega) hbu
  have hfit : n.toNat * 2 ^ S < 2 ^ 128 := by
    have : n.toNat * 2 ^ S < 2 ^ n.bitLen * 2 ^ S := Nat.mul_lt_mul_of_pos_right hnu (Nat.two_pow_pos S)
    omega
  have hn : (leftShift n S).toNat = n.toNat * 2 ^ S := by
    rw [leftShift_toNat, Nat.mod_eq_of_lt hfit]
  have hz : (U128.mk 0#64 0#64).toNat = 0 := rfl
  have hpos : 1 < 2 ^ (128 - S) := by
    have : 2 ^ 0 < 2 ^ (128 - S) := (Nat.pow_lt_pow_iff_right (a := 2) (by omega)).mpr (by omega)
    simpa using this
  have key := binLoop_bridge n.toNat S u (leftShift n S) ⟨0#64, 0#64⟩ hn (by rw [hz]) (by rw [hz]; omega) (by omega)
  have hpre : u.toNat < n.toNat * 2 ^ (S + 1) := by
    have e : 2 ^ n.bitLen = 2 ^ (n.bitLen - 1) * 2 := by
      have : n.bitLen = (n.bitLen - 1) + 1 := by omega
      rw [this, Nat.pow_succ]; simp
    have : 2 ^ (n.bitLen - 1) * 2 ^ (S + 1) ≤ n.toNat * 2 ^ (S + 1) := Nat.mul_le_mul_right _ hnl
    have e2 : 2 ^ u.bitLen = 2 ^ (n.bitLen - 1) * 2 ^ (S + 1) := by
      rw [hpu, e, Nat.pow_succ, Nat.mul_assoc, Nat.mul_comm 2 (2 ^ S)]
    omega
  rw [hz, binLoopN_spec n.toNat (by omega) S u.toNat 0 hpre] at key
  simp only [Nat.zero_mul, Nat.zero_add, Prod.mk.injEq] at key
  exact key

/-- **DivMod on the binary path** (leading-zero gap not above the threshold), with no hypothesis -/
theorem divMod_bin (u n : U128) (h0 : n.toNat ≠ 0) (hgap : ¬ n.leadingZeros - u.leadingZeros > threshold) :
    ∃ q r, u.divMod n = .ok (q, r) ∧ q.toNat = u.toNat / n.toNat ∧ r.toNat = u.toNat % n.toNat := by
  apply divMod_dispatch u n h0
  intro hs
  exact ⟨fun h => absurd h hgap, fun _ => divBinSpec u n h0 hs.1⟩
end U128
