import Lemmas.ExtractOverlay
/-! C19: extraction over a tree that already holds (part of) the archive — the tree a previous run left.  Files and
    directories that are already there are rewritten with the same bytes / left alone (`extract_present`: the run is the
    identity); symbolic-link and hard-link entries find their path occupied and fail (`tarOne_in_the_way`). -/
namespace Ex

theorem setData_id (a : Array Inode) (ino : Nat) (d : List Nat) (nd : Inode) (h : a[ino]? = some nd)
    (hd : nd.data = d) : setData a ino d = a := by
  have hlt := lt_of_getElem? h
  unfold setData; rw [h]; simp only
  have : ({ nd with data := d } : Inode) = nd := by cases nd; simp at hd ⊢; exact hd.symm
  rw [this]
  apply Array.ext_getElem?
  intro j
  rw [Array.getElem?_setIfInBounds]
  split
  · rename_i e; subst e; first | (rw [if_pos hlt, h]) | exact h.symm | (simp [hlt, h])
  · rfl

theorem below_take_root {root p : P} (hb : Below root p) : p.take root.length = root := by
  obtain ⟨c, t, rfl⟩ := hb
  simp

/-- the guard accepts an existing path below the root of a well-formed tree unless it is a symbolic link -/
theorem present_guard (fs : FS) (hw : WF fs) (root p : P) (hroot : root ≠ []) (hb : Below root p) (n : Nd)
    (hp : fs.get p = some n) (hn : ∀ t, n ≠ .symlink t) : ensureNoSymlinks fs root p = true := by
  have hlen : root.length + 1 ≤ p.length := below_len hb
  have hr1 : 1 ≤ root.length := List.length_pos_iff.mpr hroot
  apply ensureNoSymlinks_true fs root p hb.ne
  · right
    have := wf_prefix_dir fs hw p n hp root.length hr1 (by omega)
    rw [below_take_root hb] at this; exact this
  · intro j h1 h2
    by_cases hj : j = p.length
    · rw [hj, List.take_length, hp]
      cases n with
      | dir m => exact Or.inr (Or.inl ⟨m, rfl⟩)
      | file ino => exact Or.inr (Or.inr ⟨rfl, ino, rfl⟩)
      | symlink t => exact absurd rfl (hn t)
    · exact Or.inr (Or.inl (wf_prefix_dir fs hw p n hp j (by omega) (by omega)))

/-- `MkdirAll(Dir(p))` changes nothing when `p` exists (well-formed tree) -/
theorem parent_id (fs : FS) (hw : WF fs) (p : P) (n : Nd) (hp : fs.get p = some n) (mode : Nat) :
    mkdirAll fs p.dropLast mode = some fs := by
  apply mkdirFrom_id
  intro j h1 h2
  have hl : j < p.length := by simp at h2; omega
  have : p.dropLast.take j = p.take j := by
    rw [List.dropLast_eq_take, List.take_take, Nat.min_eq_left (by omega)]
  rw [this]
  exact wf_prefix_dir fs hw p n hp j h1 hl

theorem tarOne_present_file (fs : FS) (hw : WF fs) (root : P) (hr : GoodPath root) (hroot : root ≠ []) (mask : Nat)
    (e : Entry) (hk : e.kind = .reg) (hs : e.short = false) (hb : Below root (cleanJoin root e.name)) (ino : Nat)
    (nd : Inode) (hp : fs.get (cleanJoin root e.name) = some (.file ino)) (hi : fs.inodes[ino]? = some nd)
    (hd : nd.data = e.data) : tarOne fs root mask e = (fs, true) := by
  have hl : lexOK root (cleanJoin root e.name) false = true :=
    (lexOK_iff root _ hr (cleanJoin_good root e.name hr) false).mpr (Or.inl hb)
  have hg := present_guard fs hw root _ hroot hb _ hp (fun t h => by cases h)
  have hm := parent_id fs hw _ _ hp (0o755 &&& mask)
  have hwr : writeFile fs (cleanJoin root e.name) (perm e.mode &&& mask) e.data = some fs := by
    unfold writeFile; rw [hp]; simp only; rw [setData_id _ _ _ _ hi hd]
  have hbq : (Kind.reg == Kind.dir) = false := rfl
  simp [tarOne, hk, hbq, hl, hg, hm, hwr, hs]

theorem tarOne_present_dir (fs : FS) (hw : WF fs) (root : P) (hr : GoodPath root) (hroot : root ≠ []) (mask : Nat)
    (e : Entry) (hk : e.kind = .dir) (hb : Below root (cleanJoin root e.name)) (m : Nat)
    (hp : fs.get (cleanJoin root e.name) = some (.dir m)) : tarOne fs root mask e = (fs, true) := by
  have hl : lexOK root (cleanJoin root e.name) true = true :=
    (lexOK_iff root _ hr (cleanJoin_good root e.name hr) true).mpr (Or.inl hb)
  have hg := present_guard fs hw root _ hroot hb _ hp (fun t h => by cases h)
  have hm := mkdirAll_id fs hw _ (perm e.mode &&& mask) m hp
  have hbq : (Kind.dir == Kind.dir) = true := rfl
  simp [tarOne, hk, hbq, hl, hg, hm]

/-- the entry is on disk already: a directory (with whatever mode) at a directory entry's path, a regular file with
    exactly the entry's bytes at a regular-file entry's path -/
def Present (fs : FS) (root : P) (e : Entry) : Prop :=
  (e.kind = .dir ∧ (cleanJoin root e.name = root ∨ Below root (cleanJoin root e.name)) ∧
    ∃ m, fs.get (cleanJoin root e.name) = some (.dir m)) ∨
  (e.kind = .reg ∧ e.short = false ∧ Below root (cleanJoin root e.name) ∧
    ∃ ino nd, fs.get (cleanJoin root e.name) = some (.file ino) ∧ fs.inodes[ino]? = some nd ∧ nd.data = e.data)

theorem tarOne_present (fs : FS) (hw : WF fs) (root : P) (hr : GoodPath root) (hroot : root ≠ []) (mask : Nat)
    (e : Entry) (h : Present fs root e) : tarOne fs root mask e = (fs, true) ∧ zipOne fs root mask e = (fs, true) := by
  rcases h with ⟨hk, hpos, m, hp⟩ | ⟨hk, hs, hb, ino, nd, hp, hi, hd⟩
  · rcases hpos with he | hb
    · rw [he] at hp; exact root_entry_noop fs hw root mask e hk he m hp
    · have := tarOne_present_dir fs hw root hr hroot mask e hk hb m hp
      exact ⟨this, by rw [zipOne_eq_tarOne fs root mask e (Or.inr (Or.inl hk))]; exact this⟩
  · have := tarOne_present_file fs hw root hr hroot mask e hk hs hb ino nd hp hi hd
    exact ⟨this, by rw [zipOne_eq_tarOne fs root mask e (Or.inl hk)]; exact this⟩

/-- an archive of files and directories that are all on disk already is extracted without error and without any
    change (both loops) -/
theorem extract_present (fs : FS) (hw : WF fs) (root : P) (hr : GoodPath root) (hroot : root ≠ []) (mask : Nat)
    (es : List Entry) (h : ∀ e ∈ es, Present fs root e) :
    tarExtract fs root mask es = (fs, true) ∧ zipExtract fs root mask es = (fs, true) := by
  induction es with
  | nil => exact ⟨rfl, rfl⟩
  | cons x xs ih =>
    obtain ⟨h1, h2⟩ := tarOne_present fs hw root hr hroot mask x (h x (by simp))
    obtain ⟨i1, i2⟩ := ih (fun e he => h e (by simp [he]))
    rw [tarExtract_cons, zipExtract_cons, h1, h2]
    exact ⟨i1, i2⟩

/-- a symbolic-link or hard-link entry whose path exists already (whatever is there) fails: the guard refuses a link
    as last component, `symlink`/`link` refuse everything else (`EEXIST`) -/
theorem tarOne_in_the_way (fs : FS) (root : P) (hr : GoodPath root) (hroot : root ≠ []) (mask : Nat) (e : Entry)
    (hk : e.kind = .symlink ∨ e.kind = .link) (hp : fs.get (cleanJoin root e.name) ≠ none) :
    (tarOne fs root mask e).2 = false := by
  rw [tarOne_fails_iff]; unfold TarFails
  by_cases hl : lexOK root (cleanJoin root e.name) (e.kind == .dir) = false
  · exact Or.inr (Or.inl hl)
  by_cases hg : ensureNoSymlinks fs root (cleanJoin root e.name) = false
  · exact Or.inr (Or.inr (Or.inl hg))
  have hpre : root <+: cleanJoin root e.name :=
    lexOK_prefix root _ hr (cleanJoin_good root e.name hr) _ (by simpa using hl)
  have hne := prefix_ne_nil root _ hroot hpre
  right; right; right; right
  refine ⟨Or.inr hk, ?_⟩
  cases h1 : mkdirAll fs (cleanJoin root e.name).dropLast (0o755 &&& mask) with
  | none => exact Or.inl rfl
  | some fs1 =>
    right
    refine ⟨fs1, rfl, ?_⟩
    have hself : fs1.get (cleanJoin root e.name) ≠ none := by
      rw [parent_self fs fs1 _ hne _ h1]; exact hp
    rcases hk with hk | hk
    · exact Or.inr (Or.inl ⟨hk, (symlinkAt_none_iff fs1 e.link _).mpr (Or.inr (Or.inl hself))⟩)
    · exact Or.inr (Or.inr ⟨hk, Or.inr (Or.inr ((linkAt_none_iff fs1 _ _).mpr (Or.inr (Or.inl hself))))⟩)

theorem zipOne_in_the_way (fs : FS) (root : P) (hr : GoodPath root) (hroot : root ≠ []) (mask : Nat) (e : Entry)
    (hk : e.kind = .symlink) (hp : fs.get (cleanJoin root e.name) ≠ none) : (zipOne fs root mask e).2 = false := by
  cases hs : e.short with
  | true => exact zipOne_symlink_short fs root mask e hk hs
  | false =>
    rw [zipOne_eq_tarOne fs root mask e (Or.inr (Or.inr ⟨hk, hs⟩))]
    exact tarOne_in_the_way fs root hr hroot mask e (Or.inl hk) hp

end Ex
