import Model.Extract
/-! Helper lemmas of C19 (core Lean only): the node table, path arithmetic and the textual prefix test, the effect
    relation `Sys` (every run of the extractors is a chain of five kinds of primitive effects, all of them at or below
    the root or — for `mkdir` — on the line through the root), and the invariants of these effects. -/
namespace Ex

/-! ### the node table -/

theorem get_put_other (fs : FS) (p q : P) (n : Nd) (h : q ≠ p) : (fs.put p n).get q = fs.get q := by
  unfold FS.get FS.put
  simp only
  rw [List.find?_append]
  have h1 : ([(p, n)] : List (P × Nd)).find? (fun x => x.1 == q) = none := by
    simp only [List.find?_cons, List.find?_nil]
    have : (p == q) = false := by simp; exact fun e => h e.symm
    simp [this]
  rw [h1, Option.or_none]
  congr 1
  induction fs.nodes with
  | nil => rfl
  | cons a l ih =>
    by_cases ha : a.1 = p
    · have : (a.1 != p) = false := by simp [ha]
      have hq : (a.1 == q) = false := by
        rw [ha]; simp; exact fun e => h e.symm
      simp [this, hq, ih]
    · have : (a.1 != p) = true := by simp [ha]
      simp only [List.filter_cons, this, if_true, List.find?_cons]
      split <;> simp_all

theorem get_put_same (fs : FS) (p : P) (n : Nd) : (fs.put p n).get p = some n := by
  unfold FS.get FS.put
  simp only
  rw [List.find?_append]
  have : (fs.nodes.filter (·.1 != p)).find? (fun x => x.1 == p) = none := by
    rw [List.find?_eq_none]; intro x hx; simp at hx; simp [hx.2]
  rw [this]; simp

theorem get_inodes (fs : FS) (a : Array Inode) (q : P) : ({ fs with inodes := a } : FS).get q = fs.get q := rfl
theorem put_inodes (fs : FS) (q : P) (n : Nd) : (fs.put q n).inodes = fs.inodes := rfl

/-! ### path arithmetic -/

def GoodComp (c : Comp) : Prop := c ≠ [] ∧ 47 ∉ c
/-- a clean absolute path: no empty component, no separator inside a component -/
def GoodPath (p : P) : Prop := ∀ c ∈ p, GoodComp c

theorem splitSlash_noslash (l : List Nat) : ∀ s ∈ splitSlash l, 47 ∉ s := by
  induction l with
  | nil => intro s hs; simp [splitSlash] at hs; subst hs; simp
  | cons c t ih =>
    intro s hs
    by_cases hc : c = 47
    · simp [splitSlash, hc] at hs
      rcases hs with rfl | hs
      · simp
      · exact ih s hs
    · simp only [splitSlash, hc, if_false] at hs
      cases hst : splitSlash t with
      | nil => rw [hst] at hs; simp at hs; subst hs; simp; exact fun e => hc e.symm
      | cons h r =>
        rw [hst] at hs ih
        simp at hs
        rcases hs with rfl | hs
        · have := ih h (by simp)
          simp; exact ⟨fun e => hc e.symm, this⟩
        · exact ih s (by simp [hs])

theorem cleanStep_good (acc : P) (seg : List Nat) (ha : GoodPath acc) (hs : 47 ∉ seg) : GoodPath (cleanStep acc seg) := by
  unfold cleanStep
  split
  · exact ha
  · rename_i h1
    split
    · intro c hc; rw [List.dropLast_eq_take] at hc; exact ha c (List.mem_of_mem_take hc)
    · intro c hc
      rcases List.mem_append.mp hc with h | h
      · exact ha c h
      · simp at h; subst h
        exact ⟨fun e => h1 (Or.inl e), hs⟩

theorem foldl_good (segs : List (List Nat)) (acc : P) (ha : GoodPath acc) (hs : ∀ s ∈ segs, 47 ∉ s) :
    GoodPath (segs.foldl cleanStep acc) := by
  induction segs generalizing acc with
  | nil => exact ha
  | cons s t ih =>
    simp only [List.foldl_cons]
    exact ih _ (cleanStep_good acc s ha (hs s (by simp))) (fun x hx => hs x (by simp [hx]))

/-- `filepath.Join` of a clean root and any name is clean -/
theorem cleanJoin_good (root : P) (name : List Nat) (hr : GoodPath root) : GoodPath (cleanJoin root name) :=
  foldl_good _ _ hr (splitSlash_noslash name)

theorem render_cons (c : Comp) (t : P) : render (c :: t) = 47 :: (c ++ render t) := by
  simp [render, List.flatMap_cons]

theorem render_head (t : P) : render t = [] ∨ ∃ y, render t = 47 :: y := by
  cases t with
  | nil => left; rfl
  | cons c t => right; exact ⟨_, render_cons c t⟩

theorem render_sep (t : P) : ∃ x, render t ++ [47] = 47 :: x := by
  cases t with
  | nil => exact ⟨[], rfl⟩
  | cons c t => exact ⟨c ++ render t ++ [47], by simp [render_cons]⟩

/-- two separator-free components, each followed by a separator or the end: a textual prefix forces them equal -/
theorem comp_prefix (r c x y : List Nat) (hr : 47 ∉ r) (hc : 47 ∉ c) (hy : y = [] ∨ ∃ y', y = 47 :: y')
    (h : (r ++ 47 :: x) <+: (c ++ y)) : r = c ∧ (47 :: x) <+: y := by
  induction r generalizing c with
  | nil =>
    cases c with
    | nil => exact ⟨rfl, by simpa using h⟩
    | cons b c' =>
      simp only [List.nil_append, List.cons_append, List.cons_prefix_cons] at h
      exact absurd h.1 (fun e => hc (by simp [e]))
  | cons a r' ih =>
    cases c with
    | nil =>
      simp only [List.nil_append, List.cons_append] at h
      rcases hy with rfl | ⟨y', rfl⟩
      · simp at h
      · rw [List.cons_prefix_cons] at h
        exact absurd h.1 (fun e => hr (by simp [e]))
    | cons b c' =>
      simp only [List.cons_append, List.cons_prefix_cons] at h
      have hr' : 47 ∉ r' := fun m => hr (by simp [m])
      have hc' : 47 ∉ c' := fun m => hc (by simp [m])
      obtain ⟨e1, h2⟩ := ih c' hr' hc' h.2
      exact ⟨by rw [h.1, e1], h2⟩

/-- **the textual prefix test is the component prefix test** (this is where the trailing separator matters) -/
theorem render_prefix (root path : P) (hr : GoodPath root) (hp : GoodPath path) :
    (render root ++ [47]) <+: render path ↔ ∃ c t, path = root ++ c :: t := by
  induction root generalizing path with
  | nil =>
    cases path with
    | nil => simp [render]
    | cons c t => simp [render]
  | cons r rs ih =>
    cases path with
    | nil => simp [render]
    | cons c t =>
      have hr1 : 47 ∉ r := (hr r (by simp)).2
      have hc1 : 47 ∉ c := (hp c (by simp)).2
      have hrs : GoodPath rs := fun x hx => hr x (by simp [hx])
      have ht : GoodPath t := fun x hx => hp x (by simp [hx])
      rw [render_cons, render_cons]
      simp only [List.cons_append, List.cons_prefix_cons, true_and, List.append_assoc]
      constructor
      · intro h
        obtain ⟨x, hx⟩ := render_sep rs
        rw [hx] at h
        obtain ⟨e, h2⟩ := comp_prefix r c x (render t) hr1 hc1 (render_head t) h
        rw [← hx] at h2
        obtain ⟨c', t', e'⟩ := (ih t hrs ht).mp h2
        exact ⟨c', t', by rw [e, e']⟩
      · rintro ⟨c', t', e⟩
        simp only [List.cons.injEq] at e
        obtain ⟨e1, e2⟩ := e
        subst e1
        have := (ih t hrs ht).mpr ⟨c', t', e2⟩
        exact (List.prefix_append_right_inj c).mpr this

theorem comp_eq (a b x y : List Nat) (ha : 47 ∉ a) (hb : 47 ∉ b) (hx : x = [] ∨ ∃ x', x = 47 :: x')
    (hy : y = [] ∨ ∃ y', y = 47 :: y') (h : a ++ x = b ++ y) : a = b ∧ x = y := by
  induction a generalizing b with
  | nil =>
    cases b with
    | nil => exact ⟨rfl, by simpa using h⟩
    | cons c b' =>
      simp only [List.nil_append, List.cons_append] at h
      rcases hx with rfl | ⟨x', rfl⟩
      · cases h
      · simp only [List.cons.injEq] at h
        exact absurd h.1.symm (fun e => hb (by simp [e]))
  | cons c a' ih =>
    cases b with
    | nil =>
      simp only [List.nil_append, List.cons_append] at h
      rcases hy with rfl | ⟨y', rfl⟩
      · cases h
      · simp only [List.cons.injEq] at h
        exact absurd h.1 (fun e => ha (by simp [e]))
    | cons d b' =>
      simp only [List.cons_append, List.cons.injEq] at h
      obtain ⟨e1, e2⟩ := ih b' (fun m => ha (by simp [m])) (fun m => hb (by simp [m])) h.2
      exact ⟨by rw [h.1, e1], e2⟩

/-- clean paths are determined by their text -/
theorem render_inj (p q : P) (hp : GoodPath p) (hq : GoodPath q) (h : render p = render q) : p = q := by
  induction p generalizing q with
  | nil =>
    cases q with
    | nil => rfl
    | cons c t => simp [render] at h
  | cons a p' ih =>
    cases q with
    | nil => simp [render] at h
    | cons b q' =>
      rw [render_cons, render_cons] at h
      simp only [List.cons.injEq, true_and] at h
      obtain ⟨e1, e2⟩ := comp_eq a b _ _ (hp a (by simp)).2 (hq b (by simp)).2 (render_head p') (render_head q') h
      rw [e1, ih q' (fun x hx => hp x (by simp [hx])) (fun x hx => hq x (by simp [hx])) e2]

theorem lexOK_iff (root path : P) (hr : GoodPath root) (hp : GoodPath path) (d : Bool) :
    lexOK root path d = true ↔ ((∃ c t, path = root ++ c :: t) ∨ (path = root ∧ d = true)) := by
  unfold lexOK
  rw [Bool.or_eq_true, List.isPrefixOf_iff_prefix, render_prefix root path hr hp, Bool.and_eq_true, beq_iff_eq]
  constructor
  · rintro (h | ⟨h1, h2⟩)
    · exact Or.inl h
    · exact Or.inr ⟨render_inj _ _ hp hr h1, h2⟩
  · rintro (h | ⟨h1, h2⟩)
    · exact Or.inl h
    · exact Or.inr ⟨by rw [h1], h2⟩

theorem lexOK_prefix (root path : P) (hr : GoodPath root) (hp : GoodPath path) (d : Bool)
    (h : lexOK root path d = true) : root <+: path := by
  rcases (lexOK_iff root path hr hp d).mp h with ⟨c, t, e⟩ | ⟨e, _⟩
  · exact ⟨c :: t, e.symm⟩
  · rw [e]; exact List.prefix_refl _

/-! ### the line through the root -/

/-- a path is *related* to the root when it is the root, below it, or one of its ancestors -/
def Related (root q : P) : Prop := q <+: root ∨ root <+: q

theorem take_related (root path : P) (h : root <+: path) (j : Nat) : Related root (path.take j) := by
  obtain ⟨t, rfl⟩ := h
  by_cases hj : j ≤ root.length
  · left
    rw [List.take_append_of_le_length hj]
    exact List.take_prefix j root
  · right
    have : root.length ≤ j := by omega
    rw [List.take_append, List.take_of_length_le this]
    exact List.prefix_append _ _

theorem take_dropLast_related (root path : P) (h : root <+: path) (j : Nat) : Related root (path.dropLast.take j) := by
  rw [List.dropLast_eq_take, List.take_take]
  exact take_related root path h _

theorem take_dropLast (p : P) (i : Nat) (hi : 1 ≤ i) (hl : i ≤ p.length) : (p.take i).dropLast = p.take (i - 1) := by
  rw [List.dropLast_eq_take, List.take_take, List.length_take]; congr 1; omega

/-! ### primitive effects -/

/-- the five things the extractors can do to the file system.  `mkdir` may happen anywhere on the line through the
    root (`MkdirAll` creates a missing destination and its missing ancestors), everything else happens at or below it. -/
inductive Eff (root : P) : FS → FS → Prop
  | mkdir (fs : FS) (q : P) (m : Nat) : fs.get q = none → parentIsDir fs q = true → Related root q →
      Eff root fs (fs.put q (.dir m))
  | create (fs : FS) (q : P) (data : List Nat) (mode : Nat) : root <+: q → fs.get q = none → parentIsDir fs q = true →
      Eff root fs (({ fs with inodes := fs.inodes.push { data := data, mode := mode } }).put q (.file fs.inodes.size))
  | overwrite (fs : FS) (q : P) (ino : Nat) (data : List Nat) : root <+: q → fs.get q = some (.file ino) →
      Eff root fs { fs with inodes := setData fs.inodes ino data }
  | symlink (fs : FS) (q : P) (t : List Nat) : root <+: q → fs.get q = none → parentIsDir fs q = true →
      Eff root fs (fs.put q (.symlink t))
  | hardlink (fs : FS) (q tgt : P) (ino : Nat) : root <+: q → root <+: tgt → fs.get tgt = some (.file ino) →
      fs.get q = none → parentIsDir fs q = true → Eff root fs (fs.put q (.file ino))

inductive Sys (root : P) : FS → FS → Prop
  | refl (fs : FS) : Sys root fs fs
  | step {fs fs1 fs2 : FS} : Eff root fs fs1 → Sys root fs1 fs2 → Sys root fs fs2

theorem Sys.trans {root : P} {a b c : FS} (h1 : Sys root a b) (h2 : Sys root b c) : Sys root a c := by
  induction h1 with
  | refl => exact h2
  | step e _ ih => exact Sys.step e (ih h2)

theorem Sys.one {root : P} {a b : FS} (e : Eff root a b) : Sys root a b := Sys.step e (Sys.refl b)

/-! ### the system calls are chains of effects -/

theorem parentIsDir_take (fs : FS) (p : P) (i : Nat) (hi : 1 ≤ i) (hl : i ≤ p.length)
    (hd : ∀ j, 1 ≤ j → j < i → ∃ m, fs.get (p.take j) = some (.dir m)) : parentIsDir fs (p.take i) = true := by
  unfold parentIsDir
  split
  · rfl
  · rename_i h2
    have hlen : (p.take i).length = i := by simp [List.length_take]; omega
    rw [take_dropLast p i hi hl]
    obtain ⟨m, hm⟩ := hd (i - 1) (by omega) (by omega)
    rw [hm]

theorem mkdirFrom_sys (root p : P) (mode : Nat) (hrel : ∀ j, Related root (p.take j)) (fuel i : Nat) (fs fs' : FS)
    (h : mkdirFrom p mode fuel i fs = some fs') (hi : 1 ≤ i) (hf : p.length + 2 ≤ fuel + i)
    (hd : ∀ j, 1 ≤ j → j < i → ∃ m, fs.get (p.take j) = some (.dir m)) :
    Sys root fs fs' ∧ ∀ j, 1 ≤ j → j ≤ p.length → ∃ m, fs'.get (p.take j) = some (.dir m) := by
  induction fuel generalizing i fs with
  | zero =>
    simp [mkdirFrom] at h; subst h
    exact ⟨Sys.refl _, fun j h1 h2 => hd j h1 (by omega)⟩
  | succ f ih =>
    simp only [mkdirFrom] at h
    split at h
    · simp at h; subst h
      exact ⟨Sys.refl _, fun j h1 h2 => hd j h1 (by omega)⟩
    · rename_i hle
      have hle : i ≤ p.length := by omega
      split at h
      · rename_i hnone
        have e : Eff root fs (fs.put (p.take i) (.dir mode)) :=
          Eff.mkdir fs _ mode hnone (parentIsDir_take fs p i hi hle hd) (hrel i)
        have := ih (i + 1) _ h (by omega) (by omega) (by
          intro j h1 h2
          by_cases hji : j = i
          · rw [hji, get_put_same]; exact ⟨_, rfl⟩
          · have hne : p.take j ≠ p.take i := by
              intro e; have := congrArg List.length e
              simp [List.length_take] at this; omega
            rw [get_put_other _ _ _ _ hne]; exact hd j h1 (by omega))
        exact ⟨Sys.step e this.1, this.2⟩
      · rename_i m hdir
        exact ih (i + 1) _ h (by omega) (by omega) (by
          intro j h1 h2
          by_cases hji : j = i
          · rw [hji]; exact ⟨_, hdir⟩
          · exact hd j h1 (by omega))
      · cases h

theorem mkdirAll_sys (root p : P) (mode : Nat) (hrel : ∀ j, Related root (p.take j)) (fs fs' : FS)
    (h : mkdirAll fs p mode = some fs') :
    Sys root fs fs' ∧ ∀ j, 1 ≤ j → j ≤ p.length → ∃ m, fs'.get (p.take j) = some (.dir m) :=
  mkdirFrom_sys root p mode hrel _ 1 fs fs' h (by omega) (by omega) (fun j h1 h2 => by omega)

theorem writeFile_sys (root p : P) (hp : root <+: p) (fs fs' : FS) (mode : Nat) (data : List Nat)
    (h : writeFile fs p mode data = some fs') : Sys root fs fs' := by
  unfold writeFile at h
  split at h
  · cases h
  · cases h
  · rename_i ino hg
    simp at h; subst h
    exact Sys.one (Eff.overwrite fs p ino data hp hg)
  · rename_i hg
    split at h
    · rename_i hpar
      simp at h; subst h
      exact Sys.one (Eff.create fs p data mode hp hg hpar)
    · cases h

theorem symlinkAt_sys (root p : P) (hp : root <+: p) (fs fs' : FS) (t : List Nat)
    (h : symlinkAt fs t p = some fs') : Sys root fs fs' := by
  unfold symlinkAt at h
  split at h
  · cases h
  · split at h
    · cases h
    · rename_i hg
      split at h
      · rename_i hpar
        simp at h; subst h
        exact Sys.one (Eff.symlink fs p t hp hg hpar)
      · cases h

theorem linkAt_sys (root p tgt : P) (hp : root <+: p) (ht : root <+: tgt) (fs fs' : FS)
    (h : linkAt fs tgt p = some fs') : Sys root fs fs' := by
  unfold linkAt at h
  split at h
  · rename_i ino hg
    split at h
    · cases h
    · rename_i hq
      split at h
      · rename_i hpar
        simp at h; subst h
        exact Sys.one (Eff.hardlink fs p tgt ino hp ht hg hq hpar)
      · cases h
  · cases h

end Ex
