import Model.RateLimiter
/-! Invariants of the rate limiter transition system `RL.Step` (all by induction over `RL.Reachable`).  Core Lean. -/
namespace RL

/-! ### small facts -/

theorem fits_iff (cap used : Nat → Nat) (ch : List Nat) (amt : Nat) :
    fits cap used ch amt = true ↔ ∀ x ∈ ch, used x + amt ≤ cap x := by
  simp [fits, List.all_eq_true]

theorem effCap_le_own (cap : Nat → Nat) (ch : List Nat) (own : Nat) : effCap cap ch own ≤ own := by
  unfold effCap
  induction ch generalizing own with
  | nil => exact Nat.le_refl _
  | cons y ys ih => exact Nat.le_trans (ih (min own (cap y))) (Nat.min_le_left _ _)

/-- within the effective cap = within the own cap and the cap of every limiter of the chain -/
theorem le_effCap_iff (cap : Nat → Nat) (ch : List Nat) (own a : Nat) :
    a ≤ effCap cap ch own ↔ a ≤ own ∧ ∀ x ∈ ch, a ≤ cap x := by
  unfold effCap
  induction ch generalizing own with
  | nil => simp
  | cons y ys ih =>
    simp only [List.foldl_cons, List.mem_cons, forall_eq_or_imp]
    rw [ih (min own (cap y)), Nat.le_min]
    constructor
    · rintro ⟨⟨h1, h2⟩, h3⟩; exact ⟨h1, h2, h3⟩
    · rintro ⟨h1, h2, h3⟩; exact ⟨⟨h1, h2⟩, h3⟩

theorem charge_le (cap used : Nat → Nat) (ch : List Nat) (amt : Nat) (h : ∀ x, used x ≤ cap x)
    (hf : fits cap used ch amt = true) : ∀ x, charge used ch amt x ≤ cap x := by
  intro x
  unfold charge
  split
  · rename_i hx; exact (fits_iff cap used ch amt).mp hf x hx
  · exact h x

theorem init_n_pos {c : Nat} {s : S} (h : Reachable c s) : 0 < s.n := by
  induction h with
  | init => exact Nat.one_pos
  | step s s' _ st ih =>
    cases st with
    | newChild => exact Nat.succ_pos _
    | _ => exact ih

/-! ### the lock: who holds it is determined by where the goroutines are (mutual exclusion) -/

/-- the ticker goroutine holds the lock exactly between its `Lock()` and `Unlock()`, the goroutine in root `Close`
    exactly between its `Lock()` and its `Unlock()` — in particular NOT while it is blocked on `done` -/
def LockInv (s : S) : Prop :=
  (s.holder = .ticker ↔ (s.tpc = .tcrit ∨ s.tpc = .tunl ∨ s.tpc = .dcrit ∨ s.tpc = .dunl)) ∧
  (s.holder = .closer ↔ (s.cpc = .crit ∨ s.cpc = .marked)) ∧ s.cpc ≠ .unl

theorem lockInv {c : Nat} {s : S} (h : Reachable c s) : LockInv s := by
  induction h with
  | init => simp [LockInv, init]
  | step s s' _ st ih =>
    obtain ⟨h1, h2, h3⟩ := ih
    cases st with
    | useNeg => exact ⟨h1, h2, h3⟩
    | apiLock h =>
      refine ⟨?_, ?_, h3⟩
      · simpa [lockApi] using (by rw [h] at h1; simpa using h1 : ¬ (s.tpc = .tcrit ∨ s.tpc = .tunl ∨ s.tpc = .dcrit ∨ s.tpc = .dunl))
      · simpa [lockApi] using (by rw [h] at h2; simpa using h2 : ¬ (s.cpc = .crit ∨ s.cpc = .marked))
    | apiRead h => rw [h] at h1 h2; simpa [LockInv, unlock] using And.intro h1 (And.intro h2 h3)
    | useClosed l hl h0 h => rw [h0] at h1 h2; simpa [LockInv, unlock, answer] using And.intro h1 (And.intro h2 h3)
    | useZero l hl h0 h => rw [h0] at h1 h2; simpa [LockInv, unlock, doUseZero] using And.intro h1 (And.intro h2 h3)
    | useTooBig l amt hl h0 h => rw [h0] at h1 h2; simpa [LockInv, unlock, answer] using And.intro h1 (And.intro h2 h3)
    | useGrant l amt hl ha h0 => rw [h0] at h1 h2; simpa [LockInv, unlock, doUseGrant] using And.intro h1 (And.intro h2 h3)
    | useWait l amt hl ha h0 => rw [h0] at h1 h2; simpa [LockInv, unlock, doUseWait] using And.intro h1 (And.intro h2 h3)
    | newChild p cp hp h0 => rw [h0] at h1 h2; simpa [LockInv, unlock, doNewChild] using And.intro h1 (And.intro h2 h3)
    | closeChild l hl hr h0 => rw [h0] at h1 h2; simpa [LockInv, unlock, doCloseChild] using And.intro h1 (And.intro h2 h3)
    | setCap l cp hl h0 => rw [h0] at h1 h2; simpa [LockInv, unlock, doSetCap] using And.intro h1 (And.intro h2 h3)
    | closeLock h0 hc => simp_all [LockInv, doCloseLock]
    | closeRoot h0 hc hp => simp_all [LockInv, doCloseRootMark]
    | closeSkip hc hp =>
      have hh : s.holder = .closer := h2.mpr (Or.inl hp)
      rw [hh] at h1; simp [LockInv, doCloseSkip]; simpa using h1
    | closeUnlock hp =>
      have hh : s.holder = .closer := h2.mpr (Or.inr hp)
      rw [hh] at h1; simp [LockInv, doCloseUnlock]; simpa using h1
    | tickFires ht => rw [ht] at h1; simp at h1; simp [LockInv, doTickFires, h1, h2, h3]
    | tickLock ht h0 => simp_all [LockInv, doTickLock]
    | tickRuns ht h0 => simp_all [LockInv, doTickRuns]
    | tickUnlock ht =>
      have hh : s.holder = .ticker := h1.mpr (Or.inr (Or.inl ht))
      rw [hh] at h2; simp [LockInv, doTickUnlock]; exact ⟨by simpa using h2, h3⟩
    | doneReceived ht hc =>
      rw [ht] at h1; rw [hc] at h2; simp at h1 h2
      simp [LockInv, doDoneReceived, h1, h2]
    | drainLock ht h0 => simp_all [LockInv, doDrainLock]
    | drain ht h0 => simp_all [LockInv, doDrain]
    | drainUnlock ht =>
      have hh : s.holder = .ticker := h1.mpr (Or.inr (Or.inr (Or.inr ht)))
      rw [hh] at h2; simp [LockInv, doDrainUnlock]; exact ⟨by simpa using h2, h3⟩

/-! ### capacity invariant on `used` -/

/-- as long as `SetCap` has not been called, no limiter has more charged to it than its capacity -/
def CapInv (s : S) : Prop := s.setCaps = 0 → ∀ x, s.used x ≤ s.cap x

theorem service_used_le (cap : Nat → Nat) (chain : Nat → List Nat) (closed : Nat → Bool) (p : Nat)
    (used : Nat → Nat) (w : List Req) (h : ∀ x, used x ≤ cap x) :
    ∀ x, (service cap chain closed p used w).used x ≤ cap x := by
  induction w generalizing used with
  | nil => simpa [service] using h
  | cons r rs ih =>
    unfold service
    split
    · exact ih used h
    · split
      · exact ih used h
      · split
        · rename_i hf; exact ih _ (charge_le cap used _ _ h hf.2)
        · exact ih used h

theorem capInv {c : Nat} {s : S} (h : Reachable c s) : CapInv s := by
  induction h with
  | init => intro _ x; exact Nat.zero_le _
  | step s s' _ st ih =>
    cases st with
    | useGrant l amt hl ha h0 h1 h2 h3 => intro hz; exact charge_le s.cap s.used _ _ (ih hz) h3
    | newChild p c hp h0 h1 =>
      intro hz x
      show upd s.used s.n 0 x ≤ upd s.cap s.n c x
      unfold upd
      split
      · exact Nat.zero_le _
      · exact ih hz x
    | tickRuns h1 h0 =>
      intro hz
      apply service_used_le
      intro x
      split
      · exact Nat.zero_le _
      · exact ih hz x
    | setCap l c hl h0 => intro hz; exact absurd hz (Nat.succ_ne_zero _)
    | _ => exact ih

/-! ### every request is waiting or has exactly one answer -/

def ids (s : S) : List Nat := s.waiting.map (·.id) ++ s.answered.map (·.1)

def ExactlyOnce (s : S) : Prop := ∀ id, (ids s).count id = if id < s.nextReq then 1 else 0

theorem service_ids (cap : Nat → Nat) (chain : Nat → List Nat) (closed : Nat → Bool) (p : Nat)
    (used : Nat → Nat) (w : List Req) (id : Nat) :
    ((service cap chain closed p used w).waiting.map (·.id)).count id
      + ((service cap chain closed p used w).answers.map (·.1)).count id = (w.map (·.id)).count id := by
  induction w generalizing used with
  | nil => simp [service]
  | cons r rs ih =>
    unfold service
    split
    · have := ih used
      simp only [List.map_cons, List.count_cons] at this ⊢
      omega
    · split
      · have := ih used
        simp only [List.map_cons, List.count_cons] at this ⊢
        omega
      · split
        · have := ih (charge used (chain r.lim) r.amt)
          simp only [List.map_cons, List.count_cons] at this ⊢
          omega
        · have := ih used
          simp only [List.map_cons, List.count_cons] at this ⊢
          omega

theorem fresh_count (n id : Nat) :
    (if (n == id) = true then 1 else 0) + (if id < n then 1 else 0) = if id < n + 1 then 1 else 0 := by
  by_cases h : n = id
  · subst h; simp
  · have : (n == id) = false := by simpa using h
    simp only [this, Bool.false_eq_true, if_false, Nat.zero_add]
    by_cases h2 : id < n
    · have : id < n + 1 := by omega
      simp [h2, this]
    · have : ¬ id < n + 1 := by omega
      simp [h2, this]

theorem exactlyOnce_answer (s : S) (a : Ans) (h : ExactlyOnce s) : ExactlyOnce (answer s a) := by
  intro id
  have hid := h id
  unfold ids at hid ⊢
  simp only [List.count_append] at hid
  show _ = if id < s.nextReq + 1 then 1 else 0
  simp only [answer, List.count_append, List.map_cons, List.count_cons]
  rw [← fresh_count]; omega

theorem exactlyOnce_useZero (s : S) (l : Nat) (h : ExactlyOnce s) : ExactlyOnce (doUseZero s l) := by
  intro id
  have hid := h id
  unfold ids at hid ⊢
  simp only [List.count_append] at hid
  show _ = if id < s.nextReq + 1 then 1 else 0
  simp only [doUseZero, List.count_append, List.map_cons, List.count_cons]
  rw [← fresh_count]; omega

theorem exactlyOnce_useGrant (s : S) (l amt : Nat) (h : ExactlyOnce s) : ExactlyOnce (doUseGrant s l amt) := by
  intro id
  have hid := h id
  unfold ids at hid ⊢
  simp only [List.count_append] at hid
  show _ = if id < s.nextReq + 1 then 1 else 0
  simp only [doUseGrant, List.count_append, List.map_cons, List.count_cons]
  rw [← fresh_count]; omega

theorem exactlyOnce_useWait (s : S) (l amt : Nat) (h : ExactlyOnce s) : ExactlyOnce (doUseWait s l amt) := by
  intro id
  have hid := h id
  unfold ids at hid ⊢
  simp only [List.count_append] at hid
  show _ = if id < s.nextReq + 1 then 1 else 0
  simp only [doUseWait, List.count_append, List.map_append, List.map_cons, List.map_nil, List.count_cons,
    List.count_nil]
  rw [← fresh_count]; omega

theorem exactlyOnce_step (s s' : S) (h : ExactlyOnce s) (st : Step s s') : ExactlyOnce s' := by
  cases st with
  | useNeg => exact exactlyOnce_answer s _ h
  | useZero l hl h0 h1 => exact exactlyOnce_useZero s l h
  | useClosed => exact exactlyOnce_answer s _ h
  | useTooBig => exact exactlyOnce_answer s _ h
  | useGrant l amt hl ha h0 h1 h2 h3 => exact exactlyOnce_useGrant s l amt h
  | useWait l amt hl ha h0 h1 h2 h3 => exact exactlyOnce_useWait s l amt h
  | tickRuns h1 h0 =>
    intro id
    have hid := h id
    unfold ids at hid ⊢
    simp only [List.count_append] at hid
    have := service_ids s.cap s.chain s.closed (s.ticks + 1) (fun x => if resets s x then 0 else s.used x) s.waiting id
    show _ = if id < s.nextReq then 1 else 0
    simp only [doTickRuns, List.count_append, List.map_append]
    omega
  | drain h1 h0 =>
    intro id
    have hid := h id
    unfold ids at hid ⊢
    simp only [List.count_append] at hid
    show _ = if id < s.nextReq then 1 else 0
    simp only [doDrain, List.count_append, List.map_append, List.map_map, List.map_nil, List.count_nil]
    have : (s.waiting.map ((fun x => x.1) ∘ fun r => (r.id, Ans.errClosed))) = s.waiting.map (·.id) := rfl
    rw [this]; omega
  | _ => exact h

theorem exactlyOnce {c : Nat} {s : S} (h : Reachable c s) : ExactlyOnce s := by
  induction h with
  | init => intro id; simp [ids, init]
  | step s s' _ st ih => exact exactlyOnce_step s s' ih st

/-! ### after root `Close` has marked the tree everything stays closed, and the queue ends empty -/

/-- the ticker goroutine has received `done` -/
def TDone (s : S) : Prop := s.tpc = .dlock ∨ s.tpc = .dcrit ∨ s.tpc = .dunl ∨ s.tpc = .tend

def AllClosed (s : S) : Prop := (s.cpc = .marked ∨ s.cpc = .send ∨ TDone s) → ∀ x, s.closed x = true

theorem allClosed {c : Nat} {s : S} (h : Reachable c s) : AllClosed s := by
  induction h with
  | init => intro h; simp [init, TDone] at h
  | step s s' _ st ih =>
    cases st with
    | newChild p cp hp h0 h1 =>
      intro h x
      have := ih h p
      rw [h1] at this; cases this
    | closeChild l hl hr h0 h1 =>
      intro h x
      show (s.closed x || decide (l ∈ s.chain x)) = true
      rw [ih h x]; rfl
    | closeLock h0 h2 =>
      intro h; apply ih
      rcases h with h | h | h
      · cases h
      · cases h
      · exact Or.inr (Or.inr h)
    | closeRoot h0 h1 h2 => intro _ x; rfl
    | closeSkip h1 h2 =>
      intro h; apply ih
      rcases h with h | h | h
      · cases h
      · cases h
      · exact Or.inr (Or.inr h)
    | closeUnlock h2 => intro _; exact ih (Or.inl h2)
    | tickFires h1 =>
      intro h; apply ih
      rcases h with h | h | h
      · exact Or.inl h
      · exact Or.inr (Or.inl h)
      · simp [TDone, doTickFires] at h
    | tickLock h1 h0 =>
      intro h; apply ih
      rcases h with h | h | h
      · exact Or.inl h
      · exact Or.inr (Or.inl h)
      · simp [TDone, doTickLock] at h
    | tickRuns h1 h0 =>
      intro h; apply ih
      rcases h with h | h | h
      · exact Or.inl h
      · exact Or.inr (Or.inl h)
      · simp [TDone, doTickRuns] at h
    | tickUnlock h1 =>
      intro h; apply ih
      rcases h with h | h | h
      · exact Or.inl h
      · exact Or.inr (Or.inl h)
      · simp [TDone, doTickUnlock] at h
    | doneReceived h1 h2 => intro _; exact ih (Or.inr (Or.inl h2))
    | drainLock h1 h0 => intro _; exact ih (Or.inr (Or.inr (Or.inl h1)))
    | drain h1 h0 => intro _; exact ih (Or.inr (Or.inr (Or.inr (Or.inl h1))))
    | drainUnlock h1 => intro _; exact ih (Or.inr (Or.inr (Or.inr (Or.inr (Or.inl h1)))))
    | _ => exact ih

/-- the goroutine has received `done` only if the closer has returned -/
theorem closer_returned {c : Nat} {s : S} (h : Reachable c s) : TDone s → s.cpc = .ret := by
  induction h with
  | init => intro h; simp [init, TDone] at h
  | step s s' _ st ih =>
    cases st with
    | closeLock h0 h2 => intro h; have := ih h; rw [h2] at this; cases this
    | closeRoot h0 h1 h2 => intro h; have := ih h; rw [h2] at this; cases this
    | closeSkip h1 h2 => intro _; rfl
    | closeUnlock h2 => intro h; have := ih h; rw [h2] at this; cases this
    | tickFires h1 => intro h; simp [TDone, doTickFires] at h
    | tickLock h1 h0 => intro h; simp [TDone, doTickLock] at h
    | tickRuns h1 h0 => intro h; simp [TDone, doTickRuns] at h
    | tickUnlock h1 => intro h; simp [TDone, doTickUnlock] at h
    | doneReceived h1 h2 => intro _; rfl
    | drainLock h1 h0 => intro _; exact ih (Or.inl h1)
    | drain h1 h0 => intro _; exact ih (Or.inr (Or.inl h1))
    | drainUnlock h1 => intro _; exact ih (Or.inr (Or.inr (Or.inl h1)))
    | _ => exact ih

/-- after the drain the queue is empty and stays empty -/
theorem waiting_empty_after_drain {c : Nat} {s : S} (h : Reachable c s) (he : s.tpc = .dunl ∨ s.tpc = .tend) :
    s.waiting = [] := by
  induction h with
  | init => simp [init] at he
  | step s s' hr st ih =>
    have hc := allClosed hr
    cases st with
    | useWait l amt hl ha h0 h1 h2 h3 =>
      have hd : TDone s := by rcases he with he | he; exact Or.inr (Or.inr (Or.inl he)); exact Or.inr (Or.inr (Or.inr he))
      have := hc (Or.inr (Or.inr hd)) l
      rw [h1] at this; cases this
    | tickFires h1 => simp [doTickFires] at he
    | tickLock h1 h0 => simp [doTickLock] at he
    | tickRuns h1 h0 => simp [doTickRuns] at he
    | tickUnlock h1 => simp [doTickUnlock] at he
    | doneReceived h1 h2 => simp [doDoneReceived] at he
    | drainLock h1 h0 => simp [doDrainLock] at he
    | drain h1 h0 => rfl
    | drainUnlock h1 => exact ih (Or.inl h1)
    | _ => exact ih he

theorem waiting_empty_at_end {c : Nat} {s : S} (h : Reachable c s) (he : s.tpc = .tend) : s.waiting = [] :=
  waiting_empty_after_drain h (Or.inr he)

/-! ### shape of the tree; `closed` is inherited downwards -/

structure Tree (s : S) : Prop where
  lt : ∀ l x, x ∈ s.chain l → x < s.n ∧ l < s.n
  self : ∀ l, l < s.n → l ∈ s.chain l
  root : ∀ l, l < s.n → 0 ∈ s.chain l
  trans : ∀ l x y, x ∈ s.chain l → y ∈ s.chain x → y ∈ s.chain l
  unl : ∀ y, s.unlinked y = true → s.closed y = true
  down : ∀ x y, s.closed y = true → y ∈ s.chain x → s.closed x = true

theorem tree_init (c : Nat) : Tree (init c) where
  lt := by
    intro l x h
    simp only [init] at h ⊢
    split at h
    · rename_i hl; subst hl; simp at h; subst h; exact ⟨Nat.one_pos, Nat.one_pos⟩
    · cases h
  self := by intro l hl; simp only [init] at hl ⊢; have : l = 0 := by omega
             subst this; simp
  root := by intro l hl; simp only [init] at hl ⊢; have : l = 0 := by omega
             subst this; simp
  trans := by
    intro l x y hx hy
    simp only [init] at hx hy ⊢
    by_cases hl : l = 0
    · subst hl
      simp at hx; subst hx; simpa using hy
    · simp [hl] at hx
  unl := by intro y h; simp [init] at h
  down := by intro x y h; simp [init] at h

theorem tree_newChild (s : S) (p c : Nat) (hp : p < s.n) (h1 : s.closed p = false) (t : Tree s) :
    Tree (doNewChild s p c) := by
  have hc : ∀ l, l ≠ s.n → (doNewChild s p c).chain l = s.chain l := by
    intro l hl; simp [doNewChild, upd, hl]
  have hn : (doNewChild s p c).chain s.n = s.n :: s.chain p := by simp [doNewChild, upd]
  have hcl : ∀ l, l ≠ s.n → (doNewChild s p c).closed l = s.closed l := by
    intro l hl; simp [doNewChild, upd, hl]
  have hcn : (doNewChild s p c).closed s.n = false := by simp [doNewChild, upd]
  have hun : ∀ l, l ≠ s.n → (doNewChild s p c).unlinked l = s.unlinked l := by
    intro l hl; simp [doNewChild, upd, hl]
  have hunn : (doNewChild s p c).unlinked s.n = false := by simp [doNewChild, upd]
  have hN : (doNewChild s p c).n = s.n + 1 := rfl
  refine ⟨?_, ?_, ?_, ?_, ?_, ?_⟩
  · intro l x hx
    rw [hN]
    by_cases hl : l = s.n
    · subst hl; rw [hn] at hx
      rcases List.mem_cons.mp hx with h | h
      · omega
      · have := (t.lt p x h).1; omega
    · rw [hc l hl] at hx
      have := t.lt l x hx; omega
  · intro l hl
    rw [hN] at hl
    by_cases h : l = s.n
    · subst h; rw [hn]; exact List.mem_cons_self
    · rw [hc l h]; exact t.self l (by omega)
  · intro l hl
    rw [hN] at hl
    by_cases h : l = s.n
    · subst h; rw [hn]; exact List.mem_cons_of_mem _ (t.root p hp)
    · rw [hc l h]; exact t.root l (by omega)
  · intro l x y hx hy
    by_cases hl : l = s.n
    · subst hl; rw [hn] at hx ⊢
      rcases List.mem_cons.mp hx with h | h
      · subst h; rw [hn] at hy; exact hy
      · have hxn : x ≠ s.n := by have := (t.lt p x h).1; omega
        rw [hc x hxn] at hy
        exact List.mem_cons_of_mem _ (t.trans p x y h hy)
    · rw [hc l hl] at hx ⊢
      have hxn : x ≠ s.n := by have := (t.lt l x hx).1; omega
      rw [hc x hxn] at hy
      exact t.trans l x y hx hy
  · intro y hy
    by_cases h : y = s.n
    · subst h; rw [hunn] at hy; cases hy
    · rw [hun y h] at hy; rw [hcl y h]; exact t.unl y hy
  · intro x y hy hx
    have hyn : y ≠ s.n := by intro h; subst h; rw [hcn] at hy; cases hy
    rw [hcl y hyn] at hy
    by_cases h : x = s.n
    · subst h; rw [hn] at hx
      rcases List.mem_cons.mp hx with h | h
      · exact absurd h hyn
      · have := t.down p y hy h
        rw [h1] at this; cases this
    · rw [hc x h] at hx; rw [hcl x h]; exact t.down x y hy hx

theorem tree_closeChild (s : S) (l : Nat) (hl : l < s.n) (t : Tree s) : Tree (doCloseChild s l) := by
  refine ⟨t.lt, t.self, t.root, t.trans, ?_, ?_⟩
  · intro y hy
    show (s.closed y || decide (l ∈ s.chain y)) = true
    by_cases h : y = l
    · subst h; simp [t.self y hl]
    · have : s.unlinked y = true := by simpa [doCloseChild, upd, h] using hy
      simp [t.unl y this]
  · intro x y hy hx
    have hy : (s.closed y || decide (l ∈ s.chain y)) = true := hy
    have hx : y ∈ s.chain x := hx
    show (s.closed x || decide (l ∈ s.chain x)) = true
    rcases Bool.or_eq_true_iff.mp hy with h | h
    · simp [t.down x y h hx]
    · have : l ∈ s.chain x := t.trans x y l hx (by simpa using h)
      simp [this]

theorem tree {c : Nat} {s : S} (h : Reachable c s) : Tree s := by
  induction h with
  | init => exact tree_init c
  | step s s' _ st ih =>
    cases st with
    | newChild p cp hp h0 h1 =>
      have t := tree_newChild s p cp hp h1 ih
      exact ⟨t.lt, t.self, t.root, t.trans, t.unl, t.down⟩
    | closeChild l hl hr h0 h1 =>
      have t := tree_closeChild s l hl ih
      exact ⟨t.lt, t.self, t.root, t.trans, t.unl, t.down⟩
    | closeRoot h0 h1 h2 => exact ⟨ih.lt, ih.self, ih.root, ih.trans, fun _ _ => rfl, fun _ _ _ _ => rfl⟩
    | _ => exact ⟨ih.lt, ih.self, ih.root, ih.trans, ih.unl, ih.down⟩

/-- an open limiter is reset by every tick, and so are all its ancestors -/
theorem open_resets {s : S} (t : Tree s) (l : Nat) (ho : s.closed l = false) : ∀ x ∈ s.chain l, resets s x = true := by
  intro x hx
  simp only [resets, List.all_eq_true]
  intro y hy
  have hyl : y ∈ s.chain l := t.trans l x y hx hy
  cases hu : s.unlinked y with
  | false => rfl
  | true =>
    have := t.down l y (t.unl y hu) hyl
    rw [ho] at this; cases this

/-- once closed, closed for ever -/
theorem closed_mono {s s' : S} (st : Step s s') (x : Nat) (hx : x < s.n) (h : s.closed x = true) : s'.closed x = true := by
  cases st with
  | newChild p c hp h0 h1 =>
    have : x ≠ s.n := by omega
    simpa [doNewChild, unlock, upd, this] using h
  | closeChild l hl hr h0 h1 => show (s.closed x || decide (l ∈ s.chain x)) = true; simp [h]
  | closeRoot => rfl
  | _ => exact h

/-! ### requests in the queue -/

def QueueOk (s : S) : Prop := ∀ r ∈ s.waiting, r.lim < s.n ∧ 0 < r.amt ∧ r.id < s.nextReq

theorem service_waiting_sub (cap : Nat → Nat) (chain : Nat → List Nat) (closed : Nat → Bool) (p : Nat)
    (used : Nat → Nat) (w : List Req) : (service cap chain closed p used w).waiting.Sublist w := by
  induction w generalizing used with
  | nil => simp [service]
  | cons r rs ih =>
    unfold service
    split
    · exact (ih used).cons r
    · split
      · exact (ih used).cons r
      · split
        · exact (ih _).cons r
        · exact (ih used).cons_cons r

theorem queueOk {c : Nat} {s : S} (h : Reachable c s) : QueueOk s := by
  induction h with
  | init => intro r hr; simp [init] at hr
  | step s s' _ st ih =>
    have bump : ∀ (s' : S), s'.waiting = s.waiting → s'.n = s.n → s'.nextReq = s.nextReq + 1 → QueueOk s' := by
      intro s' hw hn hq r hr
      rw [hw] at hr; have := ih r hr; rw [hn, hq]; omega
    cases st with
    | useNeg => exact bump _ rfl rfl rfl
    | useZero => exact bump _ rfl rfl rfl
    | useClosed => exact bump _ rfl rfl rfl
    | useTooBig => exact bump _ rfl rfl rfl
    | useGrant => exact bump _ rfl rfl rfl
    | useWait l amt hl ha h0 h1 h2 h3 =>
      intro r hr
      have hr : r ∈ s.waiting ++ [(⟨l, amt, s.nextReq⟩ : Req)] := hr
      show r.lim < s.n ∧ 0 < r.amt ∧ r.id < s.nextReq + 1
      rcases List.mem_append.mp hr with h | h
      · have := ih r h; omega
      · simp at h; subst h; exact ⟨hl, ha, Nat.lt_succ_self _⟩
    | newChild p cp hp h0 h1 =>
      intro r hr
      have := ih r hr
      show r.lim < s.n + 1 ∧ 0 < r.amt ∧ r.id < s.nextReq
      omega
    | tickRuns h1 h0 =>
      intro r hr
      exact ih r ((service_waiting_sub _ _ _ _ _ _).subset hr)
    | drain h1 h0 => intro r hr; cases hr
    | _ => exact ih

/-- the queue is in arrival order (request numbers strictly increase) -/
theorem queue_sorted {c : Nat} {s : S} (h : Reachable c s) : s.waiting.Pairwise (fun a b => a.id < b.id) := by
  induction h with
  | init => simp [init]
  | step s s' hr st ih =>
    cases st with
    | useWait l amt hl ha h0 h1 h2 h3 =>
      show (s.waiting ++ [(⟨l, amt, s.nextReq⟩ : Req)]).Pairwise _
      rw [List.pairwise_append]
      refine ⟨ih, List.pairwise_singleton _ _, ?_⟩
      intro a ha b hb
      simp at hb; subst hb
      exact (queueOk hr a ha).2.2
    | tickRuns h1 h0 => exact ih.sublist (service_waiting_sub _ _ _ _ _ _)
    | drain h1 h0 => exact List.Pairwise.nil
    | _ => exact ih

end RL
