import Model.RBHeap
set_option linter.unusedSimpArgs false
set_option linter.unusedVariables false
/-! C06 helper lemmas, part 5: ownership of an addressed tree by the memory of the pointer-level model
    (`Model/RBHeap.lean`).  Core tactics only.

    `AT` is a tree that also records at which address every node lives; `Owns t par s` says that the memory of `t`
    contains, at those addresses, exactly the nodes of `s` with the child links of `s` and with **every parent link
    pointing to the node above** (`par` above the root of `s`).  `Owns.frame`: ownership only looks at the addresses of
    the tree; `Owns.reparent`: the root may be given another parent link.  The rotations are in `RBHeapRot.lean`. -/
namespace RB

/-- a tree with the address of every node -/
inductive AT (K V : Type) where
  | nil
  | node (a : Nat) (c : Color) (l : AT K V) (k : K) (v : V) (r : AT K V)

namespace AT
variable {K V : Type}

def ptr : AT K V → Ptr
  | nil => none
  | node a .. => some a

def addrs : AT K V → List Nat
  | nil => []
  | node a _ l _ _ r => a :: (addrs l ++ addrs r)

/-- forget the addresses -/
def erase : AT K V → T K V
  | nil => .nil
  | node _ c l k v r => .node c (erase l) k v (erase r)

end AT

namespace PTree
variable {K V : Type}

/-- `t` with `f` applied to the node at index `i` -/
def mod (t : PTree K V) (i : Nat) (f : PNode K V → PNode K V) : PTree K V := { t with nodes := t.nodes.modify i f }

theorem get_mod (t : PTree K V) (i j : Nat) (f : PNode K V → PNode K V) :
    (t.mod i f).get (some j) = if i = j then (t.get (some j)).map f else t.get (some j) := by
  simp only [mod, get, Array.getElem?_modify]

@[simp] theorem root_mod (t : PTree K V) (i : Nat) (f : PNode K V → PNode K V) : (t.mod i f).root = t.root := rfl
@[simp] theorem count_mod (t : PTree K V) (i : Nat) (f : PNode K V → PNode K V) : (t.mod i f).count = t.count := rfl

theorem upd_of_isSome (t : PTree K V) (i : Nat) (f : PNode K V → PNode K V) (h : (t.get (some i)).isSome = true) :
    t.upd (some i) f = some (t.mod i f) := by
  simp only [get] at h
  have : i < t.nodes.size := by
    rcases Nat.lt_or_ge i t.nodes.size with h' | h'
    · exact h'
    · rw [Array.getElem?_eq_none h'] at h; simp at h
  simp [upd, mod, this]

@[simp] theorem get_none (t : PTree K V) : t.get none = none := rfl

/-- the memory of `t` holds the nodes of `s` at their addresses, linked as in `s`, every parent link pointing to the
    node above (`par` above the root of `s`) -/
def Owns (t : PTree K V) : Ptr → AT K V → Prop
  | _, .nil => True
  | par, .node a c l k v r =>
    t.get (some a) = some ⟨k, v, par, l.ptr, r.ptr, decide (c = .black)⟩ ∧ Owns t (some a) l ∧ Owns t (some a) r

/-- frame rule: `Owns` only looks at the addresses of the tree -/
theorem Owns.frame {t t' : PTree K V} : ∀ {s : AT K V} {par : Ptr},
    (∀ a ∈ s.addrs, t'.get (some a) = t.get (some a)) → Owns t par s → Owns t' par s
  | .nil, _, _, _ => trivial
  | .node a c l k v r, par, hf, ⟨h0, hl, hr⟩ => by
    refine ⟨?_, Owns.frame (fun b hb => hf b ?_) hl, Owns.frame (fun b hb => hf b ?_) hr⟩
    · rw [hf a (by simp [AT.addrs])]; exact h0
    · simp [AT.addrs, hb]
    · simp [AT.addrs, hb]

/-- the root of an owned tree may be given another parent link; below it the frame rule applies -/
theorem Owns.reparent {t t' : PTree K V} {s : AT K V} {par par' : Ptr}
    (hroot : ∀ a, s.ptr = some a → t'.get (some a) = (t.get (some a)).map fun x => { x with parent := par' })
    (hf : ∀ a ∈ s.addrs, s.ptr ≠ some a → t'.get (some a) = t.get (some a))
    (hnd : s.addrs.Nodup) (h : Owns t par s) : Owns t' par' s := by
  cases s with
  | nil => trivial
  | node a c l k v r =>
    obtain ⟨h0, hl, hr⟩ := h
    simp only [AT.addrs, List.nodup_cons, List.mem_append, not_or] at hnd
    refine ⟨?_, Owns.frame (fun b hb => hf b ?_ ?_) hl, Owns.frame (fun b hb => hf b ?_ ?_) hr⟩
    · rw [hroot a rfl, h0]; rfl
    · simp [AT.addrs, hb]
    · simp only [AT.ptr, ne_eq, Option.some.injEq]; intro e; subst e; exact hnd.1.1 hb
    · simp [AT.addrs, hb]
    · simp only [AT.ptr, ne_eq, Option.some.injEq]; intro e; subst e; exact hnd.1.2 hb

end PTree
end RB
