import Model.U128
import Mathlib.Tactic.Ring
import Mathlib.Tactic.NormNum
/-! C01 helper lemmas: value-level (`toNat`) specifications of add / sub / mul / compare of `Model/U128.lean`. -/
namespace U128

theorem toNat_lt (u : U128) : u.toNat < 2^128 := by
  unfold toNat; have := u.hi.isLt; have := u.lo.isLt; omega

theorem toNat_inj {u n : U128} (h : u.toNat = n.toNat) : u = n := by
  cases u with | mk a b => cases n with | mk c d =>
  unfold toNat at h; simp only at h
  have := a.isLt; have := b.isLt; have := c.isLt; have := d.isLt
  have h1 : a = c := BitVec.eq_of_toNat_eq (by omega)
  have h2 : b = d := BitVec.eq_of_toNat_eq (by omega)
  rw [h1, h2]

theorem eq_iff_toNat (u n : U128) : u = n ↔ u.toNat = n.toNat := ⟨fun h => by rw [h], toNat_inj⟩

theorem borrow_toNat (x y : Nat) : (if x < y then 1#64 else 0#64).toNat = if x < y then 1 else 0 := by
  split <;> rfl

theorem add_toNat (u n : U128) : (u.add n).toNat = (u.toNat + n.toNat) % 2^128 := by
  unfold add toNat add64
  have := u.hi.isLt; have := u.lo.isLt; have := n.hi.isLt; have := n.lo.isLt
  simp only [BitVec.toNat_add, BitVec.toNat_ofNat]
  simp; omega

theorem addW_toNat (u : U128) (n : W) : (u.addW n).toNat = (u.toNat + n.toNat) % 2^128 := by
  unfold addW toNat add64
  have := u.hi.isLt; have := u.lo.isLt; have := n.isLt
  simp only [BitVec.toNat_add, BitVec.toNat_ofNat]
  simp; omega

theorem inc_toNat (u : U128) : u.inc.toNat = (u.toNat + 1) % 2^128 := by
  unfold inc toNat add64
  have := u.hi.isLt; have := u.lo.isLt
  simp only [BitVec.toNat_add, BitVec.toNat_ofNat]
  simp; omega

theorem sub_toNat (u n : U128) : (u.sub n).toNat = (u.toNat + 2^128 - n.toNat) % 2^128 := by
  have := u.hi.isLt; have := u.lo.isLt; have := n.hi.isLt; have := n.lo.isLt
  simp only [sub, toNat, sub64, BitVec.toNat_sub, BitVec.toNat_ofNat, borrow_toNat]
  split <;> omega

theorem subW_toNat (u : U128) (n : W) : (u.subW n).toNat = (u.toNat + 2^128 - n.toNat) % 2^128 := by
  have := u.hi.isLt; have := u.lo.isLt; have := n.isLt
  simp only [subW, toNat, sub64, BitVec.toNat_sub, BitVec.toNat_ofNat, borrow_toNat]
  split <;> omega

theorem dec_toNat (u : U128) : u.dec.toNat = (u.toNat + 2^128 - 1) % 2^128 := by
  have := u.hi.isLt; have := u.lo.isLt
  simp only [dec, toNat, sub64, BitVec.toNat_sub, BitVec.toNat_ofNat, borrow_toNat]
  split <;> omega

theorem mul_toNat (u n : U128) : (u.mul n).toNat = (u.toNat * n.toNat) % 2^128 := by
  unfold mul toNat mul64
  have h1 := u.hi.isLt; have h2 := u.lo.isLt; have h3 := n.hi.isLt; have h4 := n.lo.isLt
  simp only [BitVec.toNat_add, BitVec.toNat_mul, BitVec.toNat_ofNat]
  generalize u.hi.toNat = a at *
  generalize u.lo.toNat = b at *
  generalize n.hi.toNat = c at *
  generalize n.lo.toNat = d at *
  have e : (a * 2^64 + b) * (c * 2^64 + d) = (a*c) * 2^128 + (a*d + b*c) * 2^64 + b*d := by ring
  rw [e]
  generalize a * c = ac
  generalize a * d = ad
  generalize b * c = bc
  generalize b * d = bd
  omega

theorem cmp_eq (u n : U128) : u.cmp n = if u.toNat < n.toNat then -1 else if u.toNat = n.toNat then 0 else 1 := by
  unfold cmp toNat
  have := u.hi.isLt; have := u.lo.isLt; have := n.hi.isLt; have := n.lo.isLt
  by_cases h : u.hi = n.hi
  · have e : u.hi.toNat = n.hi.toNat := by rw [h]
    simp only [h, if_true]
    split <;> split <;> (try split) <;> omega
  · have : u.hi.toNat ≠ n.hi.toNat := fun e => h (BitVec.eq_of_toNat_eq e)
    simp only [h, if_false]
    split <;> split <;> (try split) <;> omega

theorem w_eq_iff (x y : W) : x = y ↔ x.toNat = y.toNat := BitVec.toNat_inj.symm

macro "pred128" : tactic => `(tactic| (
  rw [Bool.eq_iff_iff]
  simp only [Bool.or_eq_true, Bool.and_eq_true, decide_eq_true_eq, w_eq_iff, BitVec.toNat_ofNat]
  unfold U128.toNat
  omega))

theorem lessThan_eq (u n : U128) : u.lessThan n = decide (u.toNat < n.toNat) := by
  have := u.hi.isLt; have := u.lo.isLt; have := n.hi.isLt; have := n.lo.isLt
  unfold lessThan; pred128
theorem lessThanOrEqual_eq (u n : U128) : u.lessThanOrEqual n = decide (u.toNat ≤ n.toNat) := by
  have := u.hi.isLt; have := u.lo.isLt; have := n.hi.isLt; have := n.lo.isLt
  unfold lessThanOrEqual; pred128
theorem greaterThan_eq (u n : U128) : u.greaterThan n = decide (u.toNat > n.toNat) := by
  have := u.hi.isLt; have := u.lo.isLt; have := n.hi.isLt; have := n.lo.isLt
  unfold greaterThan; pred128
theorem greaterThanOrEqual_eq (u n : U128) : u.greaterThanOrEqual n = decide (u.toNat ≥ n.toNat) := by
  have := u.hi.isLt; have := u.lo.isLt; have := n.hi.isLt; have := n.lo.isLt
  unfold greaterThanOrEqual; pred128
theorem equal_eq (u n : U128) : u.equal n = decide (u.toNat = n.toNat) := by
  have := u.hi.isLt; have := u.lo.isLt; have := n.hi.isLt; have := n.lo.isLt
  unfold equal; pred128

theorem lessThanW_eq (u : U128) (n : W) : u.lessThanW n = decide (u.toNat < n.toNat) := by
  have := u.hi.isLt; have := u.lo.isLt; have := n.isLt
  unfold lessThanW; pred128
theorem lessThanOrEqualW_eq (u : U128) (n : W) : u.lessThanOrEqualW n = decide (u.toNat ≤ n.toNat) := by
  have := u.hi.isLt; have := u.lo.isLt; have := n.isLt
  unfold lessThanOrEqualW; pred128
theorem greaterThanW_eq (u : U128) (n : W) : u.greaterThanW n = decide (u.toNat > n.toNat) := by
  have := u.hi.isLt; have := u.lo.isLt; have := n.isLt
  unfold greaterThanW; pred128
theorem greaterThanOrEqualW_eq (u : U128) (n : W) : u.greaterThanOrEqualW n = decide (u.toNat ≥ n.toNat) := by
  have := u.hi.isLt; have := u.lo.isLt; have := n.isLt
  unfold greaterThanOrEqualW; pred128
theorem equalW_eq (u : U128) (n : W) : u.equalW n = decide (u.toNat = n.toNat) := by
  have := u.hi.isLt; have := u.lo.isLt; have := n.isLt
  unfold equalW; pred128

theorem cmpW_eq (u : U128) (n : W) : u.cmpW n = if u.toNat < n.toNat then -1 else if u.toNat = n.toNat then 0 else 1 := by
  have := u.hi.isLt; have := u.lo.isLt; have := n.isLt
  unfold cmpW toNat
  split <;> split <;> (try split) <;> (try split) <;> omega

theorem isZero_eq (u : U128) : u.isZero = decide (u.toNat = 0) := by
  have := u.hi.isLt; have := u.lo.isLt
  unfold isZero
  rw [Bool.eq_iff_iff]
  simp only [decide_eq_true_eq, BitVec.or_eq_zero_iff, w_eq_iff, BitVec.toNat_ofNat]
  unfold toNat
  omega

theorem isUint64_eq (u : U128) : u.isUint64 = decide (u.toNat < 2^64) := by
  have := u.hi.isLt; have := u.lo.isLt
  unfold isUint64; pred128
theorem and_mask32 (x : W) : (x &&& mask32).toNat = x.toNat % 2^32 := by
  have : mask32.toNat = 2^32 - 1 := by decide
  rw [BitVec.toNat_and, this, Nat.and_two_pow_sub_one_eq_mod]
theorem shr32 (x : W) : (x >>> 32).toNat = x.toNat / 2^32 := by
  rw [BitVec.toNat_ushiftRight, Nat.shiftRight_eq_div_pow]

/-- the schoolbook high word: arithmetic core of `Mul64` -/
theorem mulhi_core (p00 p10 p01 p11 : Nat)
    (h00 : p00 ≤ (2^32-1)*(2^32-1)) (h10 : p10 ≤ (2^32-1)*(2^32-1)) (h01 : p01 ≤ (2^32-1)*(2^32-1)) :
    let t := p10 + p00 / 2^32
    p11 + t / 2^32 + (t % 2^32 + p01) / 2^32 = (p11 * 2^64 + (p10 + p01) * 2^32 + p00) / 2^64 := by
  intro t
  omega

theorem mulW_toNat (u : U128) (n : W) : (u.mulW n).toNat = (u.toNat * n.toNat) % 2^128 := by
  have hh := u.hi.isLt; have hl := u.lo.isLt; have hn := n.isLt
  simp only [mulW, toNat, BitVec.toNat_add, BitVec.toNat_mul, and_mask32, shr32]
  generalize hx0 : u.lo.toNat % 2^32 = x0
  generalize hx1 : u.lo.toNat / 2^32 = x1
  generalize hy0 : n.toNat % 2^32 = y0
  generalize hy1 : n.toNat / 2^32 = y1
  have bx0 : x0 ≤ 2^32 - 1 := by omega
  have bx1 : x1 ≤ 2^32 - 1 := by omega
  have by0 : y0 ≤ 2^32 - 1 := by omega
  have by1 : y1 ≤ 2^32 - 1 := by omega
  have h00 : x0 * y0 ≤ (2^32-1)*(2^32-1) := Nat.mul_le_mul bx0 by0
  have h10 : x1 * y0 ≤ (2^32-1)*(2^32-1) := Nat.mul_le_mul bx1 by0
  have h01 : x0 * y1 ≤ (2^32-1)*(2^32-1) := Nat.mul_le_mul bx0 by1
  have h11 : x1 * y1 ≤ (2^32-1)*(2^32-1) := Nat.mul_le_mul bx1 by1
  have core := mulhi_core (x0*y0) (x1*y0) (x0*y1) (x1*y1) h00 h10 h01
  have ea : u.lo.toNat = x1 * 2^32 + x0 := by omega
  have en : n.toNat = y1 * 2^32 + y0 := by omega
  have prod : u.lo.toNat * n.toNat = (x1*y1) * 2^64 + (x1*y0 + x0*y1) * 2^32 + x0*y0 := by
    rw [ea, en]; ring
  have e : (u.hi.toNat * 2^64 + u.lo.toNat) * n.toNat = (u.hi.toNat * n.toNat) * 2^64 + u.lo.toNat * n.toNat := by ring
  rw [e]
  generalize u.hi.toNat * n.toNat = hn' at *
  generalize x0 * y0 = p00 at *
  generalize x1 * y0 = p10 at *
  generalize x0 * y1 = p01 at *
  generalize x1 * y1 = p11 at *
  generalize u.lo.toNat * n.toNat = P at *
  simp only at core
  omega
end U128
