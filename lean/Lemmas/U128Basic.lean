import Model.U128
import Mathlib.Tactic.Ring
import Mathlib.Tactic.NormNum
/-! C01 helper lemmas: value-level (`toNat`) specifications of add / sub / mul / compare of `Model/U128.lean`. -/
namespace U128

theorem toNat_lt (u : U128) : u.toNat < 2^128 := by
  unfold toNat; have := u.hi.isLt; have := u.lo.isLt; omega

theorem toNat_inj {u n : U128} (h : u.toNat = n.toNat) : u = n := by
  cases u with | mk a b => cases n with | mk c d =>
  unfold toNat at h; simp only at h
  have := a.isLt; have := b.isLt; have := c.isLt; have := d.isLt
  have h1 : a = c := BitVec.eq_of_toNat_eq (by omega)
  have h2 : b = d := BitVec.eq_of_toNat_eq (by omega)
  rw [h1, h2]

theorem eq_iff_toNat (u n : U128) : u = n ↔ u.toNat = n.toNat := ⟨fun h => by rw [h], toNat_inj⟩

theorem borrow_toNat (x y : Nat) : (if x < y then 1#64 else 0#64).toNat = if x < y then 1 else 0 := by
  split <;> rfl

theorem add_toNat (u n : U128) : (u.add n).toNat = (u.toNat + n.toNat) % 2^128 := by
  unfold add toNat add64
  have := u.hi.isLt; have := u.lo.isLt; have := n.hi.isLt; have := n.lo.isLt
  simp only [BitVec.toNat_add, BitVec.toNat_ofNat]
  simp; omega

theorem addW_toNat (u : U128) (n : W) : (u.addW n).toNat = (u.toNat + n.toNat) % 2^128 := by
  unfold addW toNat add64
  have := u.hi.isLt; have := u.lo.isLt; have := n.isLt
  simp only [BitVec.toNat_add, BitVec.toNat_ofNat]
  simp; omega

theorem inc_toNat (u : U128) : u.inc.toNat = (u.toNat + 1) % 2^128 := by
  unfold inc toNat add64
  have := u.hi.isLt; have := u.lo.isLt
  simp only [BitVec.toNat_add, BitVec.toNat_ofNat]
  simp; omega

theorem sub_toNat (u n : U128) : (u.sub n).toNat = (u.toNat + 2^128 - n.toNat) % 2^128 := by
  unfold sub toNat sub64
  have := u.hi.isLt; have := u.lo.isLt; have := n.hi.isLt; have := n.lo.isLt
  simp only [BitVec.toNat_sub, BitVec.toNat_ofNat, BitVec.toNat_zero, Nat.add_zero, borrow_toNat]
  split <;> omega

theorem subW_toNat (u : U128) (n : W) : (u.subW n).toNat = (u.toNat + 2^128 - n.toNat) % 2^128 := by
  unfold subW toNat sub64
  have := u.hi.isLt; have := u.lo.isLt; have := n.isLt
  simp only [BitVec.toNat_sub, BitVec.toNat_ofNat, BitVec.toNat_zero, Nat.add_zero, borrow_toNat]
  split <;> omega

theorem dec_toNat (u : U128) : u.dec.toNat = (u.toNat + 2^128 - 1) % 2^128 := by
  unfold dec toNat sub64
  have := u.hi.isLt; have := u.lo.isLt
  simp only [BitVec.toNat_sub, BitVec.toNat_ofNat, BitVec.toNat_zero, Nat.add_zero, borrow_toNat]
  split <;> simp <;> omega

theorem mul_toNat (u n : U128) : (u.mul n).toNat = (u.toNat * n.toNat) % 2^128 := by
  unfold mul toNat mul64
  have h1 := u.hi.isLt; have h2 := u.lo.isLt; have h3 := n.hi.isLt; have h4 := n.lo.isLt
  simp only [BitVec.toNat_add, BitVec.toNat_mul, BitVec.toNat_ofNat]
  generalize u.hi.toNat = a at *
  generalize u.lo.toNat = b at *
  generalize n.hi.toNat = c at *
  generalize n.lo.toNat = d at *
  have e : (a * 2^64 + b) * (c * 2^64 + d) = (a*c) * 2^128 + (a*d + b*c) * 2^64 + b*d := by ring
  rw [e]
  generalize a * c = ac
  generalize a * d = ad
  generalize b * c = bc
  generalize b * d = bd
  omega

theorem cmp_eq (u n : U128) : u.cmp n = if u.toNat < n.toNat then -1 else if u.toNat = n.toNat then 0 else 1 := by
  unfold cmp toNat
  have := u.hi.isLt; have := u.lo.isLt; have := n.hi.isLt; have := n.lo.isLt
  by_cases h : u.hi = n.hi
  · have e : u.hi.toNat = n.hi.toNat := by rw [h]
    simp only [h, if_true]
    split <;> split <;> (try split) <;> omega
  · have : u.hi.toNat ≠ n.hi.toNat := fun e => h (BitVec.eq_of_toNat_eq e)
    simp only [h, if_false]
    split <;> split <;> (try split) <;> omega

end U128
