import Lemmas.TaskQueue2
/-! C15: termination after Shutdown.  A variant `mu` strictly decreases on every rule once `Shutdown` has been called,
    so — with deadlock-freedom — every run that does not simply stop while a rule is enabled reaches "Shutdown has
    returned" within `mu s + 1` steps, whatever the scheduler does (no fairness assumption is needed). Core Lean only. -/
namespace TQ

def pcw : PC → Nat
  | .fin => 0 | .ds => 1 | .fw => 2 | .dr _ => 3 | .sel => 4 | .sb2 => 4
  | .sd _ => 9 | .sb _ => 9 | .wr _ => 9 | .got _ => 10

/-- the variant: distance of every task and token from the end of the pipeline, plus the rank of the dispatcher -/
def mu (s : S) : Nat :=
  7 * s.inq.length + 5 * (liveBacklog s).length + 4 * s.tq.length + 3 * s.running.length + 2 * s.reporting + s.ready
    + pcw s.pc

theorem mu_step (c : Cfg) (s s' : S) (hs : 1 ≤ s.shut) (st : Step c s s') : mu s' < mu s ∧ 1 ≤ s'.shut := by
  unfold mu liveBacklog
  cases st <;> (try dsimp only [doSubmit, doTake, doFinish, doReport, doReady] at *)
  case submit p h1 h2 => omega
  case shutdown h1 => omega
  case take t rest h1 h2 => simp only [h1, List.length_cons]; omega
  case finish t ht =>
    have := List.length_erase_of_mem ht
    have hpos : 0 < s.running.length := List.length_pos_of_mem ht
    simp only [this]; omega
  case report h1 h2 => omega
  case recv t rest h1 h2 => simp only [h1, h2, lb, pcw, List.length_cons]; omega
  case closed h1 h2 h3 => simp only [h1, lb, pcw, List.drop_zero]; omega
  case selReadyEmpty h1 h2 h3 => omega
  case selReadyBacklog h1 h2 h3 => simp only [h1, lb, pcw]; omega
  case handoff t h1 h2 => simp only [h1, lb, pcw, List.length_append, List.length_cons, List.length_nil]; omega
  case toBacklog t h1 h2 h3 => simp only [h1, lb, pcw, List.length_append, List.length_cons, List.length_nil]; omega
  case toWait t h1 h2 h3 => simp only [h1, lb, pcw]; omega
  case waitReady t h1 h2 =>
    by_cases hb : s.backlog = []
    · simp only [hb, if_true, h1, lb, pcw, List.length_nil]; omega
    · simp only [hb, if_false, h1, lb, pcw]; omega
  case sendDirect t h1 h2 => simp only [h1, lb, pcw, List.length_append, List.length_cons, List.length_nil]; omega
  case sendBacklog t b rest h1 h2 h3 =>
    simp only [h1, h2, lb, pcw, List.length_append, List.length_cons, List.length_nil]; omega
  case sendBacklog2 b rest h1 h2 h3 =>
    simp only [h1, h2, lb, pcw, List.length_append, List.length_cons, List.length_nil]; omega
  case drainSend i b h1 h2 h3 =>
    have := drop_len _ _ _ h2
    simp only [h1, lb, pcw, List.length_append, List.length_cons, List.length_nil]; omega
  case drainReady i h1 h2 h3 => omega
  case drainDone i h1 h2 =>
    simp only [h1, lb, pcw, List.drop_eq_nil_of_le h2, List.length_nil]; omega
  case finalReady h1 h2 h3 => omega
  case finalClose h1 h2 => simp only [h1, lb, pcw]; omega
  case signalDone h1 h2 => simp only [h1, lb, pcw]; omega

/-- once Shutdown has returned it stays returned -/
theorem shut_two_stable (c : Cfg) (s s' : S) (st : Step c s s') (h : s.shut = 2) : s'.shut = 2 := by
  cases st <;> (try dsimp only [doSubmit, doTake, doFinish, doReport, doReady] at *) <;> first | exact h | omega | rfl

/-- the dispatcher returns from `process()` only through the hand-shake with Shutdown -/
def FinShut (s : S) : Prop := s.pc = .fin → s.shut = 2

theorem finShut (c : Cfg) (s : S) (h : Reachable c s) : FinShut s := by
  induction h with
  | init => intro h; simp at h
  | step s s' _ st ih =>
    cases st <;> simp_all [FinShut, doSubmit, doTake, doFinish, doReport, doReady]
    case waitReady t h1 h2 => by_cases hb : s.backlog = [] <;> simp [hb]

/-- a run: at every index a rule fires, or nothing is enabled and the state repeats -/
def IsRun (c : Cfg) (run : Nat → S) : Prop :=
  ∀ i, Step c (run i) (run (i + 1)) ∨ (run (i + 1) = run i ∧ ¬ ∃ s', Step c (run i) s')

theorem run_inv (c : Cfg) (hw : 1 ≤ c.workers) (s : S) (h : Reachable c s) (hs : 1 ≤ s.shut) (run : Nat → S)
    (h0 : run 0 = s) (hrun : IsRun c run) (i : Nat) :
    Reachable c (run i) ∧ 1 ≤ (run i).shut ∧ (mu (run i) + i ≤ mu s ∨ (run i).shut = 2) := by
  induction i with
  | zero => rw [h0]; exact ⟨h, hs, Or.inl (by omega)⟩
  | succ i ih =>
    obtain ⟨hr, hs1, hm⟩ := ih
    rcases hrun i with st | ⟨heq, hstuck⟩
    · have hm' := mu_step c _ _ hs1 st
      refine ⟨Reachable.step _ _ hr st, hm'.2, ?_⟩
      rcases hm with hm | hm
      · left; omega
      · right; exact shut_two_stable c _ _ st hm
    · rw [heq]
      refine ⟨hr, hs1, ?_⟩
      right
      -- nothing is enabled: by deadlock-freedom the dispatcher has returned, i.e. Shutdown has returned
      have hfin : (run i).pc = .fin := by
        cases hp : (run i).pc with
        | fin => rfl
        | _ => exact absurd (progress c hw (run i) hr hs1 (by rw [hp]; simp)) hstuck
      exact finShut c _ hr hfin

/-- **Shutdown returns**: after `Shutdown` has been called every run reaches `shut = 2` within `mu s + 1` steps -/
theorem shutdown_returns (c : Cfg) (hw : 1 ≤ c.workers) (s : S) (h : Reachable c s) (hs : 1 ≤ s.shut) (run : Nat → S)
    (h0 : run 0 = s) (hrun : IsRun c run) : (run (mu s + 1)).shut = 2 := by
  obtain ⟨_, _, hm⟩ := run_inv c hw s h hs run h0 hrun (mu s + 1)
  rcases hm with hm | hm
  · omega
  · exact hm

end TQ
