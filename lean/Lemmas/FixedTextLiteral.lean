import Lemmas.FixedTextLaws
/-! C04 helper lemmas, part 7: FromString on an arbitrary plain decimal literal. -/
namespace FixedText

/-! ### digit strings as numbers -/
theorem foldl_digits_acc (b : Str) (acc : Nat) :
    b.foldl (fun a c => a * 10 + (c - 48)) acc = acc * 10^b.length + parseDigits b := by
  induction b generalizing acc with
  | nil => simp [parseDigits]
  | cons c t ih =>
    simp only [List.foldl_cons, List.length_cons, parseDigits]
    rw [ih, ih (0 * 10 + (c - 48)), Nat.pow_succ]
    ring

theorem parseDigits_app (a b : Str) : parseDigits (a ++ b) = parseDigits a * 10^b.length + parseDigits b := by
  rw [parseDigits_append, foldl_digits_acc]

theorem parseDigits_cons (c : Nat) (t : Str) : parseDigits (c :: t) = (c - 48) * 10^t.length + parseDigits t := by
  rw [show (c :: t : Str) = [c] ++ t by rfl, parseDigits_app]
  simp [parseDigits]

theorem parseDigits_lt (d : Str) (h : ∀ c ∈ d, isDigit c = true) : parseDigits d < 10^d.length := by
  induction d with
  | nil => simp [parseDigits]
  | cons c t ih =>
    have hc := isDigit_bounds c (h c (by simp))
    have := ih (fun x hx => h x (by simp [hx]))
    rw [parseDigits_cons, List.length_cons, Nat.pow_succ]
    have : (c - 48) * 10^t.length ≤ 9 * 10^t.length := Nat.mul_le_mul_right _ (by omega)
    omega

theorem parseUnsigned_digits (d : Str) (hne : d ≠ []) (h : ∀ c ∈ d, isDigit c = true) :
    parseUnsigned d = some (parseDigits d) := by
  unfold parseUnsigned
  rw [if_neg]
  have : d.all isDigit = true := by rw [List.all_eq_true]; exact h
  simp [hne, this]

/-- the fraction `FromString` reads: the first `p` digits, zero-padded — i.e. ⌊0.fp · 10^p⌋ -/
theorem frac_take_spec (p : Nat) (fp : Str) (h : ∀ c ∈ fp, isDigit c = true) :
    parseDigits ((fp ++ List.replicate (p - fp.length) 48).take p) = parseDigits fp * 10^p / 10^fp.length := by
  have hpos : ∀ k, 0 < 10^k := fun k => Nat.pow_pos (by decide)
  by_cases hk : fp.length ≤ p
  · rw [List.take_of_length_le (by simp; omega), parseDigits_append_zeros]
    have e : 10^p = 10^(p - fp.length) * 10^fp.length := by rw [← Nat.pow_add]; congr 1; omega
    rw [e, ← Nat.mul_assoc, Nat.mul_div_cancel _ (hpos _)]
  · have hz : p - fp.length = 0 := by omega
    rw [hz, List.replicate_zero, List.append_nil]
    have hsplit := List.take_append_drop p fp
    have hd := parseDigits_lt (fp.drop p) (fun c hc => h c (List.mem_of_mem_drop hc))
    have hlen : (fp.drop p).length = fp.length - p := List.length_drop ..
    have hv : parseDigits fp = parseDigits (fp.take p) * 10^(fp.length - p) + parseDigits (fp.drop p) := by
      conv_lhs => rw [← hsplit]
      rw [parseDigits_app, hlen]
    have e : 10^fp.length = 10^p * 10^(fp.length - p) := by rw [← Nat.pow_add]; congr 1; omega
    rw [e, Nat.mul_comm (parseDigits fp), Nat.mul_div_mul_left _ _ (hpos p), hv, Nat.mul_comm,
      Nat.mul_add_div (hpos _), Nat.div_eq_of_lt (by rw [← hlen]; exact hd)]
    simp

theorem fracBuf_eq (p : Nat) (f : Str) :
    fracBuf p f = 49 :: (f ++ List.replicate (p - f.length) 48).take p := by
  unfold fracBuf
  have e : 1 + p - (49 :: f).length = p - f.length := by simp; omega
  rw [e, show 1 + p = p + 1 by omega]
  simp [List.take_succ_cons]

theorem parseSigned_fracBuf (p : Nat) (fp : Str) (h : ∀ c ∈ fp, isDigit c = true) :
    parseSigned (fracBuf p fp) = some ((10^p + parseDigits fp * 10^p / 10^fp.length : Nat) : Int) ∧
    parseDigits fp * 10^p / 10^fp.length < 10^p := by
  rw [fracBuf_eq]
  set g := (fp ++ List.replicate (p - fp.length) 48).take p with hg
  have hgd : ∀ c ∈ g, isDigit c = true := by
    intro c hc
    have := List.mem_of_mem_take hc
    rcases List.mem_append.mp this with h' | h'
    · exact h c h'
    · rw [List.mem_replicate] at h'; rw [h'.2]; decide
  have hgl : g.length = p := by rw [hg, List.length_take]; simp; omega
  have hlt := parseDigits_lt g hgd
  rw [hgl] at hlt
  have hspec := frac_take_spec p fp h
  rw [← hg] at hspec
  rw [← hspec]
  refine ⟨?_, hlt⟩
  rw [parseSigned_digit_head 49 _ (by decide), parseUnsigned_digits _ (by simp)
    (by intro c hc; rcases List.mem_cons.mp hc with h' | h'
        · rw [h']; decide
        · exact hgd c h')]
  have : parseDigits (49 :: g) = 10^p + parseDigits g := by
    rw [show (49 :: g : Str) = [49] ++ g by rfl, parseDigits_app, hgl]
    simp [parseDigits]
  rw [this]; rfl

/-! ### literals -/
inductive Sign where
  | none | minus | plus
deriving DecidableEq

def Sign.bytes : Sign → Str
  | .none => []
  | .minus => [45]
  | .plus => [43]

/-- sign, integer digits, optional '.' and fraction digits -/
def litText (sg : Sign) (ip : Str) (fo : Option Str) : Str :=
  sg.bytes ++ ip ++ (match fo with | none => [] | some fp => 46 :: fp)

/-- ⌊0.fp · 10^p⌋ -/
def fracVal (p : Nat) : Option Str → Nat
  | none => 0
  | some fp => parseDigits fp * 10^p / 10^fp.length

/-- the literal's value truncated toward zero to `p` places, as a raw value -/
def litVal (p : Nat) (sg : Sign) (ip : Str) (fo : Option Str) : Int :=
  if sg = .minus then -((parseDigits ip * 10^p + fracVal p fo : Nat) : Int)
  else ((parseDigits ip * 10^p + fracVal p fo : Nat) : Int)

/-- `[+-]? digit* ('.' digit*)?` with at least one digit -/
structure IsLiteral (sg : Sign) (ip : Str) (fo : Option Str) : Prop where
  ipd : ∀ c ∈ ip, isDigit c = true
  fpd : ∀ fp, fo = some fp → ∀ c ∈ fp, isDigit c = true
  one : ip ≠ [] ∨ ∃ fp, fo = some fp ∧ fp ≠ []

theorem C64.eq_of_fits {a b : Int} (ha : fits64 a = true) (hb : fits64 b = true) (h : C64 a b) : a = b := by
  have := C64.wrap_eq hb h
  rw [wrap64_of_fits a ha] at this
  exact this

theorem sign_ip_clean (sg : Sign) (ip : Str) (h : ∀ c ∈ ip, isDigit c = true) : Clean (sg.bytes ++ ip) := by
  intro c hc
  rcases List.mem_append.mp hc with h' | h'
  · cases sg <;> simp [Sign.bytes] at h' <;> simp [h']
  · exact Or.inl (h c h')

/-- the `switch parts[0]` on sign ++ digits: the integer part scaled (mod 2^64) and the sign flag -/
theorem head64_literal (m : Int) (sg : Sign) (ip : Str) (hd : ∀ c ∈ ip, isDigit c = true)
    (hfit : fits64 (if sg = .minus then -(parseDigits ip : Int) else parseDigits ip) = true) :
    ∃ hv, head64 m (sg.bytes ++ ip) = some (hv, decide (sg = .minus)) ∧ C64 hv (parseDigits ip * m) := by
  by_cases hip : ip = []
  · subst hip
    cases sg
    · exact ⟨0, by simp [Sign.bytes, head64], ⟨0, by simp [parseDigits]⟩⟩
    · exact ⟨0, by simp [Sign.bytes, head64], ⟨0, by simp [parseDigits]⟩⟩
    · exact ⟨0, by simp [Sign.bytes, head64], ⟨0, by simp [parseDigits]⟩⟩
  · obtain ⟨c, t, rfl⟩ := List.exists_cons_of_ne_nil hip
    have hc := isDigit_bounds c (hd c (by simp))
    have hpu := parseUnsigned_digits (c :: t) (by simp) hd
    cases sg
    · -- no sign
      simp only [Sign.bytes, List.nil_append] at hfit ⊢
      have hfit' : fits64 (parseDigits (c :: t) : Int) = true := by simpa using hfit
      have hps : parseInt64 (c :: t) = some (parseDigits (c :: t) : Int) := by
        unfold parseInt64
        rw [parseSigned_digit_head c t (hd c (by simp)), hpu]
        simp [hfit']
      refine ⟨wrap64 ((parseDigits (c :: t) : Int) * m), ?_, C64.wrap _⟩
      unfold head64
      rw [if_neg (by simp; omega), if_neg (by simp; omega), hps]
      simp only
      rw [if_neg (by omega)]
      simp; omega
    · -- '-'
      simp only [Sign.bytes, List.singleton_append] at hfit ⊢
      have hfit' : fits64 (-(parseDigits (c :: t) : Int)) = true := by simpa using hfit
      by_cases h48 : c :: t = [48]
      · rw [h48]
        exact ⟨0, by simp [head64], ⟨0, by simp [parseDigits]⟩⟩
      · have hps : parseInt64 (45 :: c :: t) = some (-(parseDigits (c :: t) : Int)) := by
          unfold parseInt64
          have : parseSigned (45 :: c :: t) = (parseUnsigned (c :: t)).map (fun n => -(n : Int)) := rfl
          rw [this, hpu]
          simp [hfit']
        unfold head64
        rw [if_neg (by simp), if_neg (by simp; intro h1 h2; exact h48 (by rw [h1, h2])), hps]
        simp only
        by_cases hn : -(parseDigits (c :: t) : Int) < 0
        · rw [if_pos hn]
          refine ⟨_, rfl, ?_⟩
          have : C64 (wrap64 (wrap64 (- -(parseDigits (c :: t) : Int)) * m)) ((- -(parseDigits (c :: t) : Int)) * m) :=
            C64.trans (C64.wrap _) (C64.mul _ (C64.wrap _))
          simpa using this
        · rw [if_neg hn]
          have h0 : (parseDigits (c :: t) : Int) = 0 := by omega
          refine ⟨_, rfl, ?_⟩
          have := C64.wrap (-(parseDigits (c :: t) : Int) * m)
          rw [h0] at this ⊢
          simpa using this
    · -- '+'
      simp only [Sign.bytes, List.singleton_append] at hfit ⊢
      have hfit' : fits64 (parseDigits (c :: t) : Int) = true := by simpa using hfit
      have hps : parseInt64 (43 :: c :: t) = some (parseDigits (c :: t) : Int) := by
        unfold parseInt64
        have : parseSigned (43 :: c :: t) = (parseUnsigned (c :: t)).map (fun n => (n : Int)) := rfl
        rw [this, hpu]
        simp [hfit']
      refine ⟨wrap64 ((parseDigits (c :: t) : Int) * m), ?_, C64.wrap _⟩
      unfold head64
      rw [if_neg (by simp), if_neg (by simp), hps]
      simp only
      rw [if_neg (by omega)]
      simp

theorem litText_ne (sg : Sign) (ip : Str) (h : ip ≠ []) : sg.bytes ++ ip ≠ [] := by
  simp [h]

/-- **FromString of a plain decimal literal whose truncated value is representable is that value** (f64) -/
theorem fromStr64_literal (p : Nat) (hp : p ≤ 18) (sg : Sign) (ip : Str) (fo : Option Str)
    (hl : IsLiteral sg ip fo) (hfit : fits64 (litVal p sg ip fo) = true) :
    fromStr64 p (10^p) (litText sg ip fo) = .ok (litVal p sg ip fo) := by
  have hpow : (1:Nat) ≤ 10^p := Nat.pow_pos (by decide)
  have hNX : parseDigits ip ≤ parseDigits ip * 10^p := Nat.le_mul_of_pos_right _ hpow
  have hV : ((parseDigits ip * 10^p + fracVal p fo : Nat) : Int) =
      (parseDigits ip : Int) * 10^p + (fracVal p fo : Int) := by push_cast; ring
  have hfitN : fits64 (if sg = .minus then -(parseDigits ip : Int) else parseDigits ip) = true := by
    unfold litVal at hfit
    simp only [fits64, Bool.and_eq_true, decide_eq_true_eq] at hfit ⊢
    split at hfit <;> rename_i hs <;> simp only [hs, if_true, if_false] <;> omega
  obtain ⟨hv, hhead, hC⟩ := head64_literal (10^p) sg ip hl.ipd hfitN
  have hvfit := head64_fits _ _ _ _ hhead
  unfold litVal at hfit ⊢
  rw [hV] at hfit ⊢
  cases fo with
  | none =>
    have hne : ip ≠ [] := by
      rcases hl.one with h | ⟨fp, h, _⟩
      · exact h
      · cases h
    unfold litText
    simp only [List.append_nil]
    rw [fromStr64_nodot p _ _ (sign_ip_clean sg ip hl.ipd) (litText_ne sg ip hne), hhead]
    simp only [tail64, fracVal, Nat.cast_zero, Int.add_zero] at hfit ⊢
    apply congrArg Res.ok
    by_cases hs : sg = .minus
    · simp only [hs, decide_true, if_true] at hfit ⊢
      exact C64.wrap_eq hfit (C64.neg hC)
    · simp only [hs, decide_false, if_false] at hfit ⊢
      simp only [Bool.false_eq_true, if_false]
      exact C64.eq_of_fits hvfit hfit hC
  | some fp =>
    obtain ⟨hps, hFlt⟩ := parseSigned_fracBuf p fp (hl.fpd fp rfl)
    simp only [fracVal] at hfit ⊢
    generalize hF : parseDigits fp * 10^p / 10^fp.length = F at *
    have hpi : parseInt64 (fracBuf p fp) = some ((10^p + F : Nat) : Int) := by
      unfold parseInt64
      rw [hps]
      have := pow10_le p hp
      have hf : fits64 ((10^p + F : Nat) : Int) = true := by
        simp only [fits64, Bool.and_eq_true, decide_eq_true_eq]
        omega
      show (if fits64 _ = true then some _ else none) = _
      rw [if_pos hf]
    unfold litText
    simp only
    rw [fromStr64_dot p _ _ _ (sign_ip_clean sg ip hl.ipd) (fun c hc => Or.inl (hl.fpd fp rfl c hc)), hhead]
    simp only [tail64, hpi] at hfit ⊢
    apply congrArg Res.ok
    have hsub : ((10^p + F : Nat) : Int) - 10^p = (F : Int) := by push_cast; ring
    rw [hsub]
    have hC2 : C64 (wrap64 (hv + (F : Int))) ((parseDigits ip : Int) * 10^p + (F : Int)) :=
      C64.trans (C64.wrap _) (C64.add hC (C64.refl _))
    by_cases hs : sg = .minus
    · simp only [hs, decide_true, if_true] at hfit ⊢
      exact C64.wrap_eq hfit (C64.neg hC2)
    · simp only [hs, decide_false, if_false] at hfit ⊢
      simp only [Bool.false_eq_true, if_false]
      exact C64.eq_of_fits (wrap64_fits _) hfit hC2

theorem head128_literal (m : Int) (sg : Sign) (ip : Str) (hd : ∀ c ∈ ip, isDigit c = true) :
    head128 m (sg.bytes ++ ip) = some ((parseDigits ip : Int) * m, decide (sg = .minus)) := by
  by_cases hip : ip = []
  · subst hip
    cases sg
    · simp [Sign.bytes, head128, parseDigits]
    · simp [Sign.bytes, head128, parseDigits]
    · simp [Sign.bytes, head128, parseDigits]
  · obtain ⟨c, t, rfl⟩ := List.exists_cons_of_ne_nil hip
    have hc := isDigit_bounds c (hd c (by simp))
    have hpu := parseUnsigned_digits (c :: t) (by simp) hd
    cases sg
    · simp only [Sign.bytes, List.nil_append]
      have hps : parseSigned (c :: t) = some (parseDigits (c :: t) : Int) := by
        rw [parseSigned_digit_head c t (hd c (by simp)), hpu]; rfl
      unfold head128
      rw [if_neg (by simp; omega), if_neg (by simp; omega), hps]
      simp only
      rw [if_neg (by omega)]
      simp; omega
    · simp only [Sign.bytes, List.singleton_append]
      by_cases h48 : c :: t = [48]
      · rw [h48]; simp [head128, parseDigits]
      · have hps : parseSigned (45 :: c :: t) = some (-(parseDigits (c :: t) : Int)) := by
          have : parseSigned (45 :: c :: t) = (parseUnsigned (c :: t)).map (fun n => -(n : Int)) := rfl
          rw [this, hpu]; rfl
        unfold head128
        rw [if_neg (by simp), if_neg (by simp; intro h1 h2; exact h48 (by rw [h1, h2])), hps]
        simp only
        by_cases hn : -(parseDigits (c :: t) : Int) < 0
        · rw [if_pos hn]; simp
        · rw [if_neg hn]
          have h0 : (parseDigits (c :: t) : Int) = 0 := by omega
          rw [h0]; simp
    · simp only [Sign.bytes, List.singleton_append]
      have hps : parseSigned (43 :: c :: t) = some (parseDigits (c :: t) : Int) := by
        have : parseSigned (43 :: c :: t) = (parseUnsigned (c :: t)).map (fun n => (n : Int)) := rfl
        rw [this, hpu]; rfl
      unfold head128
      rw [if_neg (by simp), if_neg (by simp), hps]
      simp only
      rw [if_neg (by omega)]
      simp

/-- **FromString of a plain decimal literal whose truncated value is representable is that value** (f128) -/
theorem fromStr128_literal (p : Nat) (sg : Sign) (ip : Str) (fo : Option Str)
    (hl : IsLiteral sg ip fo) (hfit : fits128 (litVal p sg ip fo) = true) :
    fromStr128 p (10^p) (litText sg ip fo) = .ok (litVal p sg ip fo) := by
  have hV : ((parseDigits ip * 10^p + fracVal p fo : Nat) : Int) =
      (parseDigits ip : Int) * 10^p + (fracVal p fo : Int) := by push_cast; ring
  have hhead := head128_literal (10^p) sg ip hl.ipd
  have hsat := sat128_of_fits _ hfit
  unfold litVal at hsat ⊢
  rw [hV] at hsat ⊢
  cases fo with
  | none =>
    have hne : ip ≠ [] := by
      rcases hl.one with h | ⟨fp, h, _⟩
      · exact h
      · cases h
    unfold litText
    simp only [List.append_nil]
    rw [fromStr128_nodot p _ _ (sign_ip_clean sg ip hl.ipd) (litText_ne sg ip hne), hhead]
    simp only [tail128, fracVal, Nat.cast_zero, Int.add_zero] at hsat ⊢
    apply congrArg Res.ok
    by_cases hs : sg = .minus
    · simp only [hs, decide_true, if_true] at hsat ⊢
      exact hsat
    · simp only [hs, decide_false, if_false] at hsat ⊢
      simp only [Bool.false_eq_true, if_false]
      exact hsat
  | some fp =>
    obtain ⟨hps, hFlt⟩ := parseSigned_fracBuf p fp (hl.fpd fp rfl)
    simp only [fracVal] at hsat ⊢
    generalize hF : parseDigits fp * 10^p / 10^fp.length = F at *
    unfold litText
    simp only
    rw [fromStr128_dot p _ _ _ (sign_ip_clean sg ip hl.ipd) (fun c hc => Or.inl (hl.fpd fp rfl c hc)), hhead]
    simp only [tail128, hps] at hsat ⊢
    apply congrArg Res.ok
    have hsub : (parseDigits ip : Int) * 10^p + ((10^p + F : Nat) : Int) - 10^p =
        (parseDigits ip : Int) * 10^p + (F : Int) := by push_cast; ring
    rw [hsub]
    by_cases hs : sg = .minus
    · simp only [hs, decide_true, if_true] at hsat ⊢
      exact hsat
    · simp only [hs, decide_false, if_false] at hsat ⊢
      simp only [Bool.false_eq_true, if_false]
      exact hsat

theorem litText_noComma (sg : Sign) (ip : Str) (fo : Option Str) (hl : IsLiteral sg ip fo) :
    stripCommas (litText sg ip fo) = litText sg ip fo := by
  apply stripCommas_id
  intro c hc
  unfold litText at hc
  rcases List.mem_append.mp hc with h | h
  · exact (clean_ne _ (sign_ip_clean sg ip hl.ipd) c h).1
  · cases fo with
    | none => simp at h
    | some fp =>
      rcases List.mem_cons.mp h with h' | h'
      · omega
      · have := isDigit_bounds c (hl.fpd fp rfl c h'); omega

theorem litText_ne_nil (sg : Sign) (ip : Str) (fo : Option Str) (hl : IsLiteral sg ip fo) : litText sg ip fo ≠ [] := by
  unfold litText
  rcases hl.one with h | ⟨fp, h, _⟩
  · simp [h]
  · subst h; simp

/-- separators anywhere (in particular where `Comma` puts them) do not change the result -/
theorem fromStr64_literal_commas (p : Nat) (hp : p ≤ 18) (sg : Sign) (ip : Str) (fo : Option Str)
    (hl : IsLiteral sg ip fo) (hfit : fits64 (litVal p sg ip fo) = true) (t : Str)
    (ht : stripCommas t = litText sg ip fo) : fromStr64 p (10^p) t = .ok (litVal p sg ip fo) := by
  have hne : t ≠ [] := by
    intro h; rw [stripCommas_nil_of_nil t h] at ht; exact litText_ne_nil sg ip fo hl ht.symm
  rw [fromStr64_congr p _ t (litText sg ip fo) hne (litText_ne_nil sg ip fo hl) (by rw [ht, litText_noComma sg ip fo hl])]
  exact fromStr64_literal p hp sg ip fo hl hfit

theorem fromStr128_literal_commas (p : Nat) (sg : Sign) (ip : Str) (fo : Option Str)
    (hl : IsLiteral sg ip fo) (hfit : fits128 (litVal p sg ip fo) = true) (t : Str)
    (ht : stripCommas t = litText sg ip fo) : fromStr128 p (10^p) t = .ok (litVal p sg ip fo) := by
  have hne : t ≠ [] := by
    intro h; rw [stripCommas_nil_of_nil t h] at ht; exact litText_ne_nil sg ip fo hl ht.symm
  rw [fromStr128_congr p _ t (litText sg ip fo) hne (litText_ne_nil sg ip fo hl) (by rw [ht, litText_noComma sg ip fo hl])]
  exact fromStr128_literal p sg ip fo hl hfit

/-! ### dispatch: plain literals never reach the float detour -/
theorem fromStr128_exp_iff (p : Nat) (m : Int) (s : Str) :
    fromStr128 p m s = .exp ↔ s ≠ [] ∧ hasExp (stripCommas s) = true := by
  unfold fromStr128
  split
  · rename_i h; simp [h]
  · rename_i h
    simp only
    split
    · rename_i he; simp [h, he]
    · rename_i he
      have : ¬ (hasExp (stripCommas s) = true) := he
      simp only [h, ne_eq, not_false_eq_true, true_and, this, iff_false]
      split
      · simp
      · unfold tail128
        split
        · simp
        · split <;> simp

theorem litText_noExp (sg : Sign) (ip : Str) (fo : Option Str) (hl : IsLiteral sg ip fo) :
    hasExp (litText sg ip fo) = false := by
  apply hasExp_false
  intro c hc
  unfold litText at hc
  rcases List.mem_append.mp hc with h | h
  · have := clean_ne _ (sign_ip_clean sg ip hl.ipd) c h; exact ⟨this.2.2.1, this.2.2.2⟩
  · cases fo with
    | none => simp at h
    | some fp =>
      rcases List.mem_cons.mp h with h' | h'
      · omega
      · have := isDigit_bounds c (hl.fpd fp rfl c h'); omega

/-- no plain literal (with or without separators), in any configuration, is dispatched to the `ParseFloat` branch -/
theorem literal_not_exp (p : Nat) (m : Int) (sg : Sign) (ip : Str) (fo : Option Str) (hl : IsLiteral sg ip fo)
    (t : Str) (ht : stripCommas t = litText sg ip fo) : fromStr64 p m t ≠ .exp ∧ fromStr128 p m t ≠ .exp := by
  have h : ¬ (hasExp (stripCommas t) = true) := by rw [ht, litText_noExp sg ip fo hl]; simp
  constructor
  · intro he; exact h ((fromStr64_exp_iff p m t).mp he).2
  · intro he; exact h ((fromStr128_exp_iff p m t).mp he).2

end FixedText
