import Lemmas.F64Round
/-! C02 float lemmas, part 2 (core Lean only): well-formed (decoded) values, comparisons against the range constants. -/
namespace GoSem.F64

/-- the invariant of every value decoded from a bit pattern -/
def WF : F64 → Prop
  | .fin _ m e => m < 2^53 ∧ -1074 ≤ e ∧ e ≤ 971 ∧ (2^52 ≤ m ∨ e = -1074)
  | _ => True

theorem decode_wf (n : Nat) : (decode n).WF := by
  unfold decode
  simp only []
  split
  · split <;> trivial
  · split
    · refine ⟨?_, by omega, by omega, Or.inr rfl⟩
      have : n % 2^52 < 2^52 := Nat.mod_lt _ (by decide)
      omega
    · rename_i h1 h2
      have h1' : n / 2^52 % 2048 ≠ 2047 := by simpa using h1
      have h2' : n / 2^52 % 2048 ≠ 0 := by simpa using h2
      have : n % 2^52 < 2^52 := Nat.mod_lt _ (by decide)
      refine ⟨by omega, ?_, ?_, Or.inl (by omega)⟩
      · simp only [Int.ofNat_eq_natCast]; omega
      · simp only [Int.ofNat_eq_natCast]; omega

theorem wf_neg {f : F64} (h : f.WF) : f.neg.WF := by
  cases f <;> simp_all [neg, WF]

theorem pow_pos' (k : Nat) : 0 < 2^k := Nat.pow_pos (by decide)

theorem ne_self_fin (s : Bool) (m : Nat) (e : Int) : ne (.fin s m e) (.fin s m e) = false := by
  simp [ne, eq, cmp]

def emin (e1 e2 : Int) : Int := if e1 ≤ e2 then e1 else e2

theorem le_fin (s1 s2 : Bool) (m1 m2 : Nat) (e1 e2 : Int) :
    le (.fin s1 m1 e1) (.fin s2 m2 e2) = decide (scaled s1 m1 e1 (emin e1 e2) ≤ scaled s2 m2 e2 (emin e1 e2)) := by
  unfold le cmp emin
  simp only []
  generalize scaled s1 m1 e1 (if e1 ≤ e2 then e1 else e2) = a
  generalize scaled s2 m2 e2 (if e1 ≤ e2 then e1 else e2) = b
  by_cases h1 : a < b
  · rw [if_pos h1, decide_eq_true (by omega)]
  · rw [if_neg h1]
    by_cases h2 : a = b
    · rw [if_pos h2, decide_eq_true (by omega)]
    · rw [if_neg h2, decide_eq_false (by omega)]

theorem lt_fin (s1 s2 : Bool) (m1 m2 : Nat) (e1 e2 : Int) :
    lt (.fin s1 m1 e1) (.fin s2 m2 e2) = decide (scaled s1 m1 e1 (emin e1 e2) < scaled s2 m2 e2 (emin e1 e2)) := by
  unfold lt cmp emin
  simp only []
  generalize scaled s1 m1 e1 (if e1 ≤ e2 then e1 else e2) = a
  generalize scaled s2 m2 e2 (if e1 ≤ e2 then e1 else e2) = b
  by_cases h1 : a < b
  · rw [if_pos h1, decide_eq_true h1]
  · rw [if_neg h1, decide_eq_false h1]
    by_cases h2 : a = b
    · rw [if_pos h2]
    · rw [if_neg h2]

theorem eq_fin (s1 s2 : Bool) (m1 m2 : Nat) (e1 e2 : Int) :
    eq (.fin s1 m1 e1) (.fin s2 m2 e2) = decide (scaled s1 m1 e1 (emin e1 e2) = scaled s2 m2 e2 (emin e1 e2)) := by
  unfold eq cmp emin
  simp only []
  generalize scaled s1 m1 e1 (if e1 ≤ e2 then e1 else e2) = a
  generalize scaled s2 m2 e2 (if e1 ≤ e2 then e1 else e2) = b
  by_cases h1 : a < b
  · rw [if_pos h1, decide_eq_false (by omega)]
  · rw [if_neg h1]
    by_cases h2 : a = b
    · rw [if_pos h2, decide_eq_true h2]
    · rw [if_neg h2, decide_eq_false h2]

theorem scaled_zero (e : Int) (he : -1074 ≤ e) : scaled false 0 (-1074) (emin e (-1074)) = 0 := by
  unfold scaled; simp

/-- sign and nullity of a scaled numerator -/
theorem scaled_sign (s : Bool) (m : Nat) (e em : Int) :
    (scaled s m e em ≤ 0 ↔ (s = true ∨ m = 0)) ∧ (scaled s m e em < 0 ↔ (s = true ∧ m ≠ 0)) ∧
      (scaled s m e em = 0 ↔ m = 0) := by
  unfold scaled
  have hp := pow_pos' (e - em).toNat
  by_cases hm : m = 0
  · subst hm; cases s <;> simp
  · have : 0 < m * 2^(e - em).toNat := Nat.mul_pos (by omega) hp
    generalize m * 2^(e - em).toNat = v at this
    cases s
    · simp only [Bool.false_eq_true, if_false, false_or, false_and, hm]
      exact ⟨⟨fun h => by omega, fun h => h.elim⟩, ⟨fun h => by omega, fun h => h.elim⟩, ⟨fun h => by omega, fun h => h.elim⟩⟩
    · simp only [if_true, true_or, true_and, hm]
      exact ⟨⟨fun _ => trivial, fun _ => by omega⟩, ⟨fun _ => hm, fun _ => by omega⟩,
        ⟨fun h => by omega, fun h => h.elim⟩⟩

/-- `f <= 0` for a finite value -/
theorem le_zero_fin (s : Bool) (m : Nat) (e : Int) (he : -1074 ≤ e) :
    le (.fin s m e) zero = (s || m == 0) := by
  unfold zero
  rw [le_fin, scaled_zero e he]
  have := (scaled_sign s m e (emin e (-1074))).1
  by_cases h : s = true ∨ m = 0
  · rw [decide_eq_true (this.mpr h)]; rcases h with h | h <;> simp [h]
  · rw [decide_eq_false (fun c => h (this.mp c))]
    have h1 : s = false := by cases s <;> simp_all
    have h2 : (m == 0) = false := by simp; exact fun c => h (Or.inr c)
    rw [h1, h2]; rfl

theorem eq_zero_fin (s : Bool) (m : Nat) (e : Int) (he : -1074 ≤ e) :
    eq (.fin s m e) zero = (m == 0) := by
  unfold zero
  rw [eq_fin, scaled_zero e he]
  have := (scaled_sign s m e (emin e (-1074))).2.2
  by_cases h : m = 0
  · rw [decide_eq_true (this.mpr h)]; simp [h]
  · rw [decide_eq_false (fun c => h (this.mp c))]; simp [h]

theorem lt_zero_fin (s : Bool) (m : Nat) (e : Int) (he : -1074 ≤ e) :
    lt (.fin s m e) zero = (s && m != 0) := by
  unfold zero
  rw [lt_fin, scaled_zero e he]
  have := (scaled_sign s m e (emin e (-1074))).2.1
  by_cases h : s = true ∧ m ≠ 0
  · rw [decide_eq_true (this.mpr h)]; simp [h.1, h.2]
  · rw [decide_eq_false (fun c => h (this.mp c))]
    cases s
    · rfl
    · have : m = 0 := by
        apply Classical.byContradiction; intro c; exact h ⟨rfl, c⟩
      simp [this]

theorem two_mul_le_pow (x k : Nat) : x * 2 ≤ x * 2^(k + 1) := by
  rw [Nat.pow_succ, ← Nat.mul_assoc, Nat.mul_right_comm]
  exact Nat.le_mul_of_pos_right _ (pow_pos' k)

/-- comparison of a positive well-formed value with a constant whose mantissa is all ones: decided by the exponents -/
theorem le_allOnes (m : Nat) (e E : Int) (hm : m < 2^53) (hn : 2^52 ≤ m ∨ e ≤ E) :
    le (.fin false m e) (.fin false (2^53 - 1) E) = decide (e ≤ E) := by
  rw [le_fin]
  unfold scaled emin
  simp only [Bool.false_eq_true, if_false]
  by_cases h : e ≤ E
  · rw [if_pos h, decide_eq_true h]
    have h0 : (e - e).toNat = 0 := by omega
    rw [h0, Nat.pow_zero, Nat.mul_one]
    have : m ≤ (2^53 - 1) * 2^(E - e).toNat :=
      Nat.le_trans (by omega) (Nat.le_mul_of_pos_right _ (pow_pos' _))
    rw [decide_eq_true (by omega)]
  · rw [if_neg h, decide_eq_false h]
    have h0 : (E - E).toNat = 0 := by omega
    rw [h0, Nat.pow_zero, Nat.mul_one]
    have hm52 : 2^52 ≤ m := by rcases hn with a | a <;> omega
    obtain ⟨k, hk⟩ : ∃ k, (e - E).toNat = k + 1 := ⟨(e - E).toNat - 1, by omega⟩
    have : m * 2 ≤ m * 2^(e - E).toNat := by rw [hk]; exact two_mul_le_pow m k
    rw [decide_eq_false (by omega)]

/-- comparison with 2^127 (mantissa 2^52, exponent 75) from above: decided by the exponents -/
theorem pow127_le (m : Nat) (e : Int) (hm : m < 2^53) (hn : 2^52 ≤ m ∨ e < 75) :
    le (.fin false (2^52) 75) (.fin false m e) = decide (75 ≤ e) := by
  rw [le_fin]
  unfold scaled emin
  simp only [Bool.false_eq_true, if_false]
  by_cases h : 75 ≤ e
  · rw [if_pos h, decide_eq_true h]
    have h0 : ((75:Int) - 75).toNat = 0 := by omega
    rw [h0, Nat.pow_zero, Nat.mul_one]
    have hm52 : 2^52 ≤ m := by rcases hn with a | a <;> omega
    have : 2^52 ≤ m * 2^(e - 75).toNat := Nat.le_trans hm52 (Nat.le_mul_of_pos_right _ (pow_pos' _))
    rw [decide_eq_true (by omega)]
  · rw [if_neg h, decide_eq_false h]
    have h0 : (e - e).toNat = 0 := by omega
    rw [h0, Nat.pow_zero, Nat.mul_one]
    obtain ⟨k, hk⟩ : ∃ k, ((75:Int) - e).toNat = k + 1 := ⟨((75:Int) - e).toNat - 1, by omega⟩
    have : 2^52 * 2 ≤ 2^52 * 2^((75:Int) - e).toNat := by rw [hk]; exact two_mul_le_pow _ k
    rw [decide_eq_false (by omega)]

/-- the same comparison between two negative values -/
theorem le_negPow127 (m : Nat) (e : Int) (hm : m < 2^53) (hn : 2^52 ≤ m ∨ e < 75) :
    le (.fin true m e) (.fin true (2^52) 75) = decide (75 ≤ e) := by
  have := pow127_le m e hm hn
  rw [le_fin] at this ⊢
  have hem : emin e 75 = emin 75 e := by unfold emin; split <;> split <;> omega
  rw [hem]
  unfold scaled at this ⊢
  simp only [Bool.false_eq_true, if_false, if_true] at this ⊢
  rw [← this]
  generalize (((2^52 * 2^((75:Int) - emin 75 e).toNat : Nat)) : Int) = A
  generalize ((m * 2^(e - emin 75 e).toNat : Nat) : Int) = B
  by_cases c : A ≤ B
  · rw [decide_eq_true c, decide_eq_true (by omega)]
  · rw [decide_eq_false c, decide_eq_false (by omega)]

end GoSem.F64
