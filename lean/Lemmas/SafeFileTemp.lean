import Lemmas.SafeFile
/-! Helper lemmas for the extension of C14: the loop of `CreateTemp`, `CreateWithMode`, a cleanup whose unlink fails,
    and the reduction of the complete calls (`writeFileFull`, `fileRunFull`) to the calls proved in `Lemmas/SafeFile.lean`.
    Core Lean only. -/
namespace Safe

/-! ## the wider action alphabet -/

theorem run2_append (u : Nat) (fs : FS) (a b : List Act2) : run2 u fs (a ++ b) = run2 u (run2 u fs a) b := by
  induction a generalizing fs with
  | nil => rfl
  | cons x a ih => simp [run2, ih]

theorem run2_map_base (u : Nat) (fs : FS) (l : List Act) : run2 u fs (l.map .base) = run u fs l := by
  induction l generalizing fs with
  | nil => rfl
  | cons a l ih => simp [run2, run, applyAct2, ih]

/-- a failed system call -/
def Act2.isFail : Act2 → Bool
  | .openFail _ _ _ => true
  | .unlinkFail _ => true
  | .base _ => false

theorem run2_fails (u : Nat) (fs : FS) (l : List Act2) (h : ∀ a ∈ l, a.isFail = true) : run2 u fs l = fs := by
  induction l generalizing fs with
  | nil => rfl
  | cons a l ih =>
    have ha := h a (by simp)
    have : applyAct2 u fs a = fs := by cases a <;> simp_all [Act2.isFail, applyAct2]
    simp only [run2, this]
    exact ih fs (fun b hb => h b (by simp [hb]))

/-- after a block of failed calls the state is what it was; a prefix that ends inside the block likewise -/
theorem run2_take_fails_append (u : Nat) (fs : FS) (fails rest : List Act2) (h : ∀ a ∈ fails, a.isFail = true) (k : Nat) :
    run2 u fs ((fails ++ rest).take k) = run2 u fs (rest.take (k - fails.length)) := by
  rw [List.take_append, run2_append, run2_fails u fs _ (fun a ha => h a (List.mem_of_mem_take ha))]

/-! ## the loop of `CreateTemp` -/

/-- every outcome of the loop: some failed `openat`s, then either the creation of a name that was free, or an error -/
theorem tempLoop_spec (mode : Nat) (names : Nat → Path) (faults : Nat → Option OpenFault) (fs : FS) :
    ∀ fuel i, ∃ fails : List Act2, (∀ a ∈ fails, ∃ p e, a = Act2.openFail p mode e) ∧
      ((∃ j, i ≤ j ∧ j < i + fuel ∧ tempLoop mode names faults fs fuel i =
            (.ok (names j), fails ++ [.base (.createExcl (names j) mode)]) ∧
          fs (names j) = none ∧ faults j = none ∧ fails.length = j - i) ∨
       ((tempLoop mode names faults fs fuel i).1 ≠ .errSep ∧ (∀ p, (tempLoop mode names faults fs fuel i).1 ≠ .ok p) ∧
          (tempLoop mode names faults fs fuel i).2 = fails ∧ fails.length ≤ fuel)) := by
  intro fuel
  induction fuel with
  | zero => intro i; exact ⟨[], by simp, Or.inr (by simp [tempLoop])⟩
  | succ fuel ih =>
    intro i
    unfold tempLoop
    by_cases hother : faults i = some .other
    · refine ⟨[.openFail (names i) mode false], ?_, Or.inr ?_⟩
      · intro a ha; simp at ha; exact ⟨_, _, ha⟩
      · simp [hother]
    · simp only [hother, if_false]
      by_cases hex : faults i = some .exist ∨ (fs (names i)).isSome = true
      · simp only [hex, if_true]
        by_cases hlim : i + 1 < 1000
        · simp only [hlim, if_true]
          obtain ⟨fails, hf, hcase⟩ := ih (i + 1)
          refine ⟨.openFail (names i) mode true :: fails, ?_, ?_⟩
          · intro a ha
            simp only [List.mem_cons] at ha
            rcases ha with rfl | ha
            · exact ⟨_, _, rfl⟩
            · exact hf a ha
          · rcases hcase with ⟨j, hij, hjl, heq, hfree, hnof, hlen⟩ | ⟨h1, h2, h3, h4⟩
            · left
              refine ⟨j, by omega, by omega, ?_, hfree, hnof, by simp; omega⟩
              rw [heq]; simp
            · right
              refine ⟨h1, h2, by rw [h3], by simp; omega⟩
        · simp only [hlim, if_false]
          refine ⟨[.openFail (names i) mode true], ?_, Or.inr ?_⟩
          · intro a ha; simp at ha; exact ⟨_, _, ha⟩
          · simp
      · simp only [hex, if_false]
        have hfree : fs (names i) = none := by
          cases h : fs (names i) with
          | none => rfl
          | some d => exact absurd (Or.inr (by simp [h])) hex
        have hnof : faults i = none := by
          cases h : faults i with
          | none => rfl
          | some o => cases o with
            | exist => exact absurd (Or.inl h) hex
            | other => exact absurd h hother
        exact ⟨[], by simp, Or.inl ⟨i, Nat.le_refl _, by omega, by simp, hfree, hnof, by simp⟩⟩

/-- the loop issues at most `fuel` system calls -/
theorem tempLoop_length (mode : Nat) (names : Nat → Path) (faults : Nat → Option OpenFault) (fs : FS) (fuel i : Nat) :
    (tempLoop mode names faults fs fuel i).2.length ≤ fuel := by
  obtain ⟨fails, _, hcase⟩ := tempLoop_spec mode names faults fs fuel i
  rcases hcase with ⟨j, hij, hjl, heq, _, _, hlen⟩ | ⟨_, _, h3, h4⟩
  · rw [heq]; simp; omega
  · rw [h3]; exact h4

/-- when every candidate collides (really, or by an injected EEXIST) the loop gives up after exactly the remaining
    number of attempts -/
theorem tempLoop_exhaust (mode : Nat) (names : Nat → Path) (faults : Nat → Option OpenFault) (fs : FS) :
    ∀ fuel i, fuel + i = 1000 → 0 < fuel →
      (∀ j, i ≤ j → j < 1000 → faults j ≠ some .other ∧ (faults j = some .exist ∨ (fs (names j)).isSome = true)) →
      (tempLoop mode names faults fs fuel i).1 = .errExist ∧ (tempLoop mode names faults fs fuel i).2.length = fuel ∧
      ∀ a ∈ (tempLoop mode names faults fs fuel i).2, ∃ p, a = Act2.openFail p mode true := by
  intro fuel
  induction fuel with
  | zero => intro i _ h; omega
  | succ fuel ih =>
    intro i hsum _ hall
    obtain ⟨hno, hex⟩ := hall i (Nat.le_refl _) (by omega)
    unfold tempLoop
    simp only [hno, if_false, hex, if_true]
    by_cases hlim : i + 1 < 1000
    · simp only [hlim, if_true]
      obtain ⟨h1, h2, h3⟩ := ih (i + 1) (by omega) (by omega) (fun j hj hj2 => hall j (by omega) hj2)
      refine ⟨h1, by simp [h2], ?_⟩
      intro a ha
      simp only [List.mem_cons] at ha
      rcases ha with rfl | ha
      · exact ⟨_, rfl⟩
      · exact h3 a ha
    · simp only [hlim, if_false]
      refine ⟨trivial, by simp; omega, ?_⟩
      intro a ha; simp at ha; exact ⟨_, ha⟩

/-! ## `CreateWithMode` -/

/-- the ways `createWithMode` can end -/
theorem createWithMode_spec (code : Str → Path) (tmpdir filename : Str) (mode : Nat) (rands : Nat → Nat)
    (faults : Nat → Option OpenFault) (fs : FS) :
    ∃ fails : List Act2, (∀ a ∈ fails, a.isFail = true) ∧ fails.length ≤ 1000 ∧
      ((∃ c j, validName filename = some c ∧ j < 1000 ∧ fails.length = j ∧
          createWithMode code tmpdir filename mode rands faults fs =
            (.ok { tmp := code (tempName tmpdir (dirOf c) safePattern (rands j)), dst := code c },
             fails ++ [.base (.createExcl (code (tempName tmpdir (dirOf c) safePattern (rands j))) mode)]) ∧
          fs (code (tempName tmpdir (dirOf c) safePattern (rands j))) = none ∧ faults j = none) ∨
       ((∀ f, (createWithMode code tmpdir filename mode rands faults fs).1 ≠ .ok f) ∧
          (createWithMode code tmpdir filename mode rands faults fs).2 = fails)) := by
  unfold createWithMode
  cases hv : validName filename with
  | none => exact ⟨[], by simp, by simp, Or.inr (by simp)⟩
  | some c =>
    simp only
    unfold createTemp
    have hns : hasSep safePattern = false := by decide
    simp only [hns, Bool.false_eq_true, if_false]
    obtain ⟨fails, hf, hcase⟩ := tempLoop_spec mode (fun i => code (tempName tmpdir (dirOf c) safePattern (rands i)))
      faults fs 1000 0
    have hfail : ∀ a ∈ fails, a.isFail = true := by
      intro a ha; obtain ⟨p, e, rfl⟩ := hf a ha; rfl
    rcases hcase with ⟨j, _, hjl, heq, hfree, hnof, hlen⟩ | ⟨h1, h2, h3, h4⟩
    · refine ⟨fails, hfail, by omega, Or.inl ⟨c, j, rfl, by omega, by omega, ?_, hfree, hnof⟩⟩
      rw [heq]
    · refine ⟨fails, hfail, h4, Or.inr ?_⟩
      generalize tempLoop mode (fun i => code (tempName tmpdir (dirOf c) safePattern (rands i))) faults fs 1000 0 = r
        at h1 h2 h3
      obtain ⟨r1, r2⟩ := r
      simp only at h1 h2 h3
      cases r1 with
      | ok p => exact absurd rfl (h2 p)
      | errSep => simp [h3]
      | errExist => simp [h3]
      | errOther => simp [h3]

/-! ## a cleanup whose unlink fails -/

/-- the actions of the first model with the `Remove` made to fail (or not) -/
def mapU (b : Bool) (l : List Act) : List Act2 :=
  l.map (fun a => match a with
    | .unlink p => rmAct p b
    | a => .base a)

theorem mapU_append (b : Bool) (x y : List Act) : mapU b (x ++ y) = mapU b x ++ mapU b y := by simp [mapU]

theorem mapU_false (l : List Act) : mapU false l = l.map .base := by
  unfold mapU
  apply List.map_congr_left
  intro a _
  cases a <;> simp [rmAct]

def isUnlink : Act → Bool
  | .unlink _ => true
  | _ => false

theorem mapU_noUnlink (b : Bool) (l : List Act) (h : ∀ a ∈ l, isUnlink a = false) : mapU b l = l.map .base := by
  unfold mapU
  apply List.map_congr_left
  intro a ha
  have := h a ha
  cases a <;> simp_all [isUnlink]

theorem onlyWrites_noUnlink (tmp : Path) (l : List Act) (h : OnlyWrites tmp l) : ∀ a ∈ l, isUnlink a = false := by
  intro a ha
  rcases h a ha with ⟨c, rfl⟩ | ⟨n, rfl⟩ <;> rfl

theorem commitU_eq (f : File) (a b c : Bool) :
    f.commitU a b c = ((f.commit a b).1, (f.commit a b).2.1, mapU c (f.commit a b).2.2) := by
  unfold File.commitU File.commit
  split
  · simp [mapU]
  · split
    · simp [mapU]
    · split
      · simp [mapU]
      · split
        · simp [mapU]
        · split <;> simp [mapU]

theorem closeU_eq (f : File) (a c : Bool) :
    (f.closeU a c).1 = (f.close a).1 ∧ (f.closeU a c).2.2 = mapU c (f.close a).2.2 ∧
    ((f.closeU a c).2.1 = (f.close a).2.1 ∨ (c = true ∧ (f.close a).2.1 = .ok ∧ (f.closeU a c).2.1 = .errno)) := by
  unfold File.closeU File.close
  split
  · simp [mapU]
  · split
    · simp [mapU]
    · split
      · simp [mapU]
      · split
        · simp [mapU]
        · cases c <;> simp [mapU]

/-- the actions of `BW.sys`, `BW.write`, `BW.flush` and of the callback are writes to the temporary file only -/
theorem sys_onlyWrites (f : File) (b : BW) (c : Bytes) : OnlyWrites f.tmp (b.sys f c).2 := by
  unfold BW.sys File.write
  intro a ha
  split at ha <;> split at ha <;> (try split at ha) <;> simp at ha <;> subst ha <;>
    first | exact Or.inl ⟨_, rfl⟩ | exact Or.inr ⟨_, rfl⟩

theorem onlyWrites_append (tmp : Path) (x y : List Act) (hx : OnlyWrites tmp x) (hy : OnlyWrites tmp y) :
    OnlyWrites tmp (x ++ y) := by
  intro a ha
  rcases List.mem_append.mp ha with h | h
  · exact hx a h
  · exact hy a h

theorem onlyWrites_nil (tmp : Path) : OnlyWrites tmp [] := by intro a ha; simp at ha

theorem bwWrite_onlyWrites (N : Nat) (f : File) (b : BW) (p : Bytes) : OnlyWrites f.tmp (b.write N f p).2 := by
  unfold BW.write
  split
  · exact onlyWrites_nil _
  · split
    · exact onlyWrites_nil _
    · split
      · exact sys_onlyWrites f b p
      · simp only
        split
        · exact sys_onlyWrites f _ _
        · split
          · exact sys_onlyWrites f _ _
          · exact onlyWrites_append _ _ _ (sys_onlyWrites f _ _) (sys_onlyWrites f _ _)

theorem bwFlush_onlyWrites (f : File) (b : BW) : OnlyWrites f.tmp (b.flush f).2 := by
  unfold BW.flush
  split
  · exact onlyWrites_nil _
  · split
    · exact onlyWrites_nil _
    · exact sys_onlyWrites f _ _

theorem callback_onlyWrites (N : Nat) (f : File) (cb : CbMode) (stop : Res) (ps : List Bytes) :
    ∀ (b : BW) (cbFail : Option Nat), OnlyWrites f.tmp (callback N f cb stop b cbFail ps).2.2 := by
  induction ps with
  | nil => intro b cbFail; simp [callback]; exact onlyWrites_nil _
  | cons p ps ih =>
    intro b cbFail
    unfold callback
    split
    · exact onlyWrites_nil _
    · simp only
      split
      · exact bwWrite_onlyWrites N f b p
      · split
        · exact bwWrite_onlyWrites N f b p
        · exact onlyWrites_append _ _ _ (bwWrite_onlyWrites N f b p) (ih _ _)

theorem writeAll_onlyWrites' (f : File) (cs : List Bytes) : ∀ o : Option Nat, OnlyWrites f.tmp (writeAll f cs o).2 := by
  induction cs with
  | nil => intro o; simp [writeAll]; exact onlyWrites_nil _
  | cons c cs ih =>
    intro o
    unfold writeAll
    have hw : ∀ b, OnlyWrites f.tmp (f.write c b).2 := by
      intro b a ha
      unfold File.write at ha
      split at ha <;> (try split at ha) <;> simp at ha <;> subst ha <;>
        first | exact Or.inl ⟨_, rfl⟩ | exact Or.inr ⟨_, rfl⟩
    split
    · exact hw true
    · exact onlyWrites_append _ _ _ (hw false) (ih _)

/-! ## the complete calls reduce to the calls of the first model -/

/-- once the temporary file exists, `writeFileFull` is `writeFile` behind the failed `openat`s, with the `Remove`
    of the cleanup path made to fail or not -/
theorem writeFileFull_eq (code : Str → Path) (tmpdir filename : Str) (N mode : Nat) (pieces : List Bytes) (cb : CbMode)
    (fault : Fault) (rands : Nat → Nat) (ofaults : Nat → Option OpenFault) (u : Bool) (fs : FS) (tmp dst : Path)
    (fails : List Act2)
    (hc : createWithMode code tmpdir filename mode rands ofaults fs =
      (.ok (openFile tmp dst), fails ++ [.base (.createExcl tmp mode)])) :
    writeFileFull code tmpdir filename N mode pieces cb fault rands ofaults u fs =
      (.res (writeFile tmp dst N mode pieces cb fault).1,
       fails ++ mapU u (writeFile tmp dst N mode pieces cb fault).2) := by
  unfold writeFileFull writeFile
  rw [hc]
  have hcreate : File.create tmp dst mode = (openFile tmp dst, [.createExcl tmp mode]) := rfl
  simp only [hcreate]
  have hcb := callback_onlyWrites N (openFile tmp dst) cb fault.stopRes pieces { failIn := fault.writeAt } fault.cbAt
  generalize callback N (openFile tmp dst) cb fault.stopRes { failIn := fault.writeAt } fault.cbAt pieces = c at hcb ⊢
  have hcm : mapU u c.2.2 = c.2.2.map .base := mapU_noUnlink u _ (onlyWrites_noUnlink tmp _ hcb)
  have hcons : ∀ l, mapU u (Act.createExcl tmp mode :: l) = Act2.base (.createExcl tmp mode) :: mapU u l :=
    fun l => by simp [mapU]
  obtain ⟨_, hcl2, _⟩ := closeU_eq (openFile tmp dst) false u
  by_cases h1 : c.2.1 ≠ .ok
  · rw [if_pos h1, if_pos h1]
    rw [hcl2]
    simp [mapU_append, hcm, hcons]
  · simp only [h1, if_false]
    have hfl := bwFlush_onlyWrites (openFile tmp dst) c.1
    generalize c.1.flush (openFile tmp dst) = fl at hfl ⊢
    have hfm : mapU u fl.2 = fl.2.map .base := mapU_noUnlink u _ (onlyWrites_noUnlink tmp _ hfl)
    by_cases h2 : fl.1.err = true
    · simp only [h2, if_true]
      rw [hcl2]
      simp [mapU_append, hcm, hcons, hfm]
    · simp only [h2, if_false]
      rw [commitU_eq]
      simp only
      obtain ⟨_, hm2, hm3⟩ := closeU_eq ((openFile tmp dst).commit (decide (fault = .close)) (decide (fault = .rename))).1
        false u
      -- after Commit the handle is committed: the deferred Close does nothing, with or without the unlink fault
      have hcomm : ((openFile tmp dst).commit (decide (fault = .close)) (decide (fault = .rename))).1.committed = true := by
        unfold File.commit openFile
        simp only [Bool.false_eq_true, if_false]
        split <;> (try split) <;> (try split) <;> simp
      have hres : (((openFile tmp dst).commit (decide (fault = .close)) (decide (fault = .rename))).1.closeU false u).2.1 =
          (((openFile tmp dst).commit (decide (fault = .close)) (decide (fault = .rename))).1.close false).2.1 := by
        simp [File.closeU, File.close, hcomm]
      rw [hm2, hres]
      simp [mapU_append, hcm, hcons, hfm, List.append_assoc]

/-- the same for the `safe.File` API used directly -/
theorem fileRunFull_eq (code : Str → Path) (tmpdir filename : Str) (mode : Nat) (pieces : List Bytes) (doCommit : Bool)
    (fault : Fault) (rands : Nat → Nat) (ofaults : Nat → Option OpenFault) (fs : FS) (tmp dst : Path)
    (fails : List Act2)
    (hc : createWithMode code tmpdir filename mode rands ofaults fs =
      (.ok (openFile tmp dst), fails ++ [.base (.createExcl tmp mode)])) :
    fileRunFull code tmpdir filename mode pieces doCommit fault rands ofaults false fs =
      (.res (fileRun tmp dst mode pieces doCommit fault).1,
       fails ++ (fileRun tmp dst mode pieces doCommit fault).2.map .base) := by
  unfold fileRunFull fileRun
  rw [hc]
  have hcreate : File.create tmp dst mode = (openFile tmp dst, [.createExcl tmp mode]) := rfl
  simp only [hcreate]
  generalize writeAll (openFile tmp dst) pieces fault.writeAt = w
  have hcl := closeU_eq (openFile tmp dst)
  by_cases h1 : w.1 ≠ .ok
  · rw [if_pos h1, if_pos h1]
    rw [(hcl false false).2.1, mapU_false]
    simp
  · simp only [h1, if_false]
    cases doCommit with
    | true =>
      simp only [if_true]
      rw [commitU_eq, mapU_false]
      simp only
      obtain ⟨_, hm2, hm3⟩ := closeU_eq ((openFile tmp dst).commit (decide (fault = .close)) (decide (fault = .rename))).1
        false false
      have hres : (((openFile tmp dst).commit (decide (fault = .close)) (decide (fault = .rename))).1.closeU false false).2.1 =
          (((openFile tmp dst).commit (decide (fault = .close)) (decide (fault = .rename))).1.close false).2.1 := by
        rcases hm3 with h | ⟨h, _, _⟩
        · exact h
        · cases h
      rw [hm2, hres, mapU_false]
      simp [List.append_assoc]
    | false =>
      simp only [Bool.false_eq_true, if_false]
      obtain ⟨_, h2, h3⟩ := hcl (decide (fault = .close)) false
      have hres : ((openFile tmp dst).closeU (decide (fault = .close)) false).2.1 =
          ((openFile tmp dst).close (decide (fault = .close))).2.1 := by
        rcases h3 with h | ⟨h, _, _⟩
        · exact h
        · cases h
      rw [h2, hres, mapU_false]
      simp

/-! ## a failing unlink: every state it can produce is a state of the run without the fault -/

/-- an action list in which an unlink occurs at most as the last action -/
def UnlinkLast (l : List Act) : Prop :=
  ∃ body, (∀ a ∈ body, isUnlink a = false) ∧ (l = body ∨ ∃ p, l = body ++ [.unlink p])

/-- **prefix simulation**: with the `Remove` failing, the state after any prefix of the actions is the state after
    some prefix of the actions of the same run without that fault -/
theorem mapU_prefix_sim (um : Nat) (fs : FS) (b : Bool) (l : List Act) (h : UnlinkLast l) (k : Nat) :
    ∃ k', run2 um fs ((mapU b l).take k) = run um fs (l.take k') := by
  obtain ⟨body, hbody, hl⟩ := h
  have hb : mapU b body = body.map .base := mapU_noUnlink b body hbody
  rcases hl with rfl | ⟨p, rfl⟩
  · refine ⟨k, ?_⟩
    rw [hb, ← List.map_take, run2_map_base]
  · rw [mapU_append, hb]
    by_cases hk : k ≤ (body.map Act2.base).length
    · refine ⟨k, ?_⟩
      rw [List.take_append_of_le_length hk, ← List.map_take, run2_map_base,
        List.take_append_of_le_length (by simpa using hk)]
    · rw [List.take_of_length_le (by simp [mapU] at hk ⊢; omega), run2_append, run2_map_base]
      cases b with
      | true =>
        refine ⟨body.length, ?_⟩
        simp [mapU, rmAct, run2, applyAct2]
      | false =>
        refine ⟨(body ++ [Act.unlink p]).length, ?_⟩
        rw [List.take_length]
        simp [mapU, rmAct, run2, applyAct2, run_append, run]

/-- the final state with the `Remove` failing: everything but the unlink has happened -/
theorem mapU_true_final (um : Nat) (fs : FS) (body : List Act) (hbody : ∀ a ∈ body, isUnlink a = false) (p : Path) :
    run2 um fs (mapU true (body ++ [.unlink p])) = run um fs body := by
  rw [mapU_append, mapU_noUnlink true body hbody, run2_append, run2_map_base]
  simp [mapU, rmAct, run2, applyAct2]

theorem tail_unlinkLast (tmp dst : Path) (pre tl : List Act) (hpre : ∀ a ∈ pre, isUnlink a = false)
    (htl : Tail tmp dst tl) : UnlinkLast (pre ++ tl) ∧
      (tl ≠ [.close tmp, .rename tmp dst] →
        ∃ body, (∀ a ∈ body, isUnlink a = false) ∧ pre ++ tl = body ++ [.unlink tmp] ∧
          ∀ a ∈ body, a ∈ pre ∨ a = .close tmp ∨ a = .closeFail tmp ∨ a = .renameFail tmp dst) := by
  have hx : ∀ (x : List Act), (∀ a ∈ x, isUnlink a = false) → ∀ a ∈ pre ++ x, isUnlink a = false := by
    intro x hx a ha
    rcases List.mem_append.mp ha with h | h
    · exact hpre a h
    · exact hx a h
  cases htl with
  | commit =>
    refine ⟨⟨pre ++ [.close tmp, .rename tmp dst], hx _ (by intro a ha; simp at ha; rcases ha with rfl | rfl <;> rfl),
      Or.inl rfl⟩, fun h => absurd rfl h⟩
  | abort =>
    have hb := hx [.close tmp] (by intro a ha; simp at ha; subst ha; rfl)
    refine ⟨⟨pre ++ [.close tmp], hb, Or.inr ⟨tmp, by simp⟩⟩, fun _ => ⟨pre ++ [.close tmp], hb, by simp, ?_⟩⟩
    intro a ha; simp at ha; rcases ha with h | rfl
    · exact Or.inl h
    · simp
  | closeFail =>
    have hb := hx [.closeFail tmp] (by intro a ha; simp at ha; subst ha; rfl)
    refine ⟨⟨pre ++ [.closeFail tmp], hb, Or.inr ⟨tmp, by simp⟩⟩, fun _ => ⟨pre ++ [.closeFail tmp], hb, by simp, ?_⟩⟩
    intro a ha; simp at ha; rcases ha with h | rfl
    · exact Or.inl h
    · simp
  | renameFail =>
    have hb := hx [.close tmp, .renameFail tmp dst] (by intro a ha; simp at ha; rcases ha with rfl | rfl <;> rfl)
    refine ⟨⟨pre ++ [.close tmp, .renameFail tmp dst], hb, Or.inr ⟨tmp, by simp⟩⟩,
      fun _ => ⟨pre ++ [.close tmp, .renameFail tmp dst], hb, by simp, ?_⟩⟩
    intro a ha; simp at ha; rcases ha with h | rfl | rfl
    · exact Or.inl h
    · simp
    · simp

/-- the actions of `writeFile` contain an unlink at most as their last action -/
theorem writeFile_unlinkLast (tmp dst : Path) (N mode : Nat) (pieces : List Bytes) (cb : CbMode) (fault : Fault) :
    UnlinkLast (writeFile tmp dst N mode pieces cb fault).2 := by
  rw [writeFile_closed]
  obtain ⟨ws, tl, hacts, hws, htl, _, _⟩ := writeFile_shape tmp dst N mode pieces fault
  rw [hacts]
  refine (tail_unlinkLast tmp dst ([.createExcl tmp mode] ++ ws) tl ?_ htl).1
  intro a ha
  rcases List.mem_append.mp ha with h | h
  · simp at h; subst h; rfl
  · exact onlyWrites_noUnlink tmp ws hws a h

/-! ## names -/

theorem char_toNat_lt (c : Char) : c.toNat < 1114112 := by
  have := c.valid
  simp only [Char.toNat]
  rcases this with h | ⟨_, h⟩
  · have : c.val.toNat < 55296 := h
    omega
  · exact h

/-- the naming of paths the driver uses is injective -/
theorem codeStr_inj : ∀ a b : Str, codeStr a = codeStr b → a = b := by
  intro a
  induction a with
  | nil =>
    intro b h
    cases b with
    | nil => rfl
    | cons d t => simp only [codeStr] at h; have := char_toNat_lt d; omega
  | cons c s ih =>
    intro b h
    cases b with
    | nil => simp only [codeStr] at h; have := char_toNat_lt c; omega
    | cons d t =>
      simp only [codeStr] at h
      have hc := char_toNat_lt c
      have hd := char_toNat_lt d
      have h1 : c.toNat = d.toNat := by omega
      have h2 : codeStr s = codeStr t := by omega
      rw [Char.toNat_inj.mp h1, ih t h2]

theorem digitChar_isDigit (d : Nat) (h : d < 10) : (Char.ofNat (48 + d)).isDigit = true := by
  have : d = 0 ∨ d = 1 ∨ d = 2 ∨ d = 3 ∨ d = 4 ∨ d = 5 ∨ d = 6 ∨ d = 7 ∨ d = 8 ∨ d = 9 := by omega
  rcases this with h | h | h | h | h | h | h | h | h | h <;> subst h <;> decide

theorem decimalAux_digits : ∀ fuel n, decimalAux fuel n ≠ [] ∧ ∀ c ∈ decimalAux fuel n, c.isDigit = true := by
  intro fuel
  induction fuel with
  | zero =>
    intro n
    simp only [decimalAux]
    refine ⟨by simp, ?_⟩
    intro c hc; simp at hc; subst hc
    exact digitChar_isDigit _ (Nat.mod_lt _ (by omega))
  | succ fuel ih =>
    intro n
    simp only [decimalAux]
    split
    · rename_i h
      refine ⟨by simp, ?_⟩
      intro c hc; simp at hc; subst hc
      exact digitChar_isDigit _ h
    · refine ⟨by simp, ?_⟩
      intro c hc
      rcases List.mem_append.mp hc with h | h
      · exact (ih _).2 c h
      · simp at h; subst h
        exact digitChar_isDigit _ (Nat.mod_lt _ (by omega))

/-- `strconv.Itoa` of a non-negative number: at least one character, decimal digits only -/
theorem decimal_digits (n : Nat) : decimal n ≠ [] ∧ ∀ c ∈ decimal n, c.isDigit = true := decimalAux_digits n n

/-! ## the File-API path with a failing unlink -/

/-- the actions of `fileRunFull`, with the `Remove` failing or not -/
theorem fileRunFull_acts (code : Str → Path) (tmpdir filename : Str) (mode : Nat) (pieces : List Bytes) (doCommit : Bool)
    (fault : Fault) (rands : Nat → Nat) (ofaults : Nat → Option OpenFault) (u : Bool) (fs : FS) (tmp dst : Path)
    (fails : List Act2)
    (hc : createWithMode code tmpdir filename mode rands ofaults fs =
      (.ok (openFile tmp dst), fails ++ [.base (.createExcl tmp mode)])) :
    (fileRunFull code tmpdir filename mode pieces doCommit fault rands ofaults u fs).2 =
      fails ++ mapU u (fileRun tmp dst mode pieces doCommit fault).2 ∧
    ((fileRunFull code tmpdir filename mode pieces doCommit fault rands ofaults u fs).1 =
        .res (fileRun tmp dst mode pieces doCommit fault).1 ∨
      (u = true ∧ doCommit = false ∧ (fileRun tmp dst mode pieces doCommit fault).1 = .ok ∧
        (fileRunFull code tmpdir filename mode pieces doCommit fault rands ofaults u fs).1 = .res .errno)) := by
  unfold fileRunFull fileRun
  rw [hc]
  have hcreate : File.create tmp dst mode = (openFile tmp dst, [.createExcl tmp mode]) := rfl
  simp only [hcreate]
  have hw := writeAll_onlyWrites' (openFile tmp dst) pieces fault.writeAt
  generalize writeAll (openFile tmp dst) pieces fault.writeAt = w at hw ⊢
  have hwm : mapU u w.2 = w.2.map .base := mapU_noUnlink u _ (onlyWrites_noUnlink tmp _ hw)
  have hcons : ∀ l, mapU u (Act.createExcl tmp mode :: l) = Act2.base (.createExcl tmp mode) :: mapU u l :=
    fun l => by simp [mapU]
  have hcl := closeU_eq (openFile tmp dst)
  by_cases h1 : w.1 ≠ .ok
  · rw [if_pos h1, if_pos h1]
    refine ⟨?_, Or.inl rfl⟩
    rw [(hcl false u).2.1]
    simp [mapU_append, hwm, hcons]
  · rw [if_neg h1, if_neg h1]
    cases doCommit with
    | true =>
      simp only [if_true]
      rw [commitU_eq]
      simp only
      obtain ⟨_, hm2, _⟩ := closeU_eq ((openFile tmp dst).commit (decide (fault = .close)) (decide (fault = .rename))).1
        false u
      have hcomm : ((openFile tmp dst).commit (decide (fault = .close)) (decide (fault = .rename))).1.committed = true := by
        unfold File.commit openFile
        simp only [Bool.false_eq_true, if_false]
        split <;> (try split) <;> (try split) <;> simp
      have hres : (((openFile tmp dst).commit (decide (fault = .close)) (decide (fault = .rename))).1.closeU false u).2.1 =
          (((openFile tmp dst).commit (decide (fault = .close)) (decide (fault = .rename))).1.close false).2.1 := by
        simp [File.closeU, File.close, hcomm]
      refine ⟨?_, Or.inl ?_⟩
      · rw [hm2]; simp [mapU_append, hwm, hcons, List.append_assoc]
      · rw [hres]
    | false =>
      simp only [Bool.false_eq_true, if_false]
      obtain ⟨_, h2, h3⟩ := hcl (decide (fault = .close)) u
      refine ⟨?_, ?_⟩
      · rw [h2]; simp [mapU_append, hwm, hcons]
      · rcases h3 with h | ⟨hu, hok, herr⟩
        · exact Or.inl (by rw [h])
        · exact Or.inr ⟨hu, trivial, hok, by rw [herr]⟩

/-- the actions of `fileRun` contain an unlink at most as their last action; a run that does not commit ends with the
    unlink of the temporary file, and everything before it names only the temporary file -/
theorem fileRun_unlinkLast (tmp dst : Path) (mode : Nat) (pieces : List Bytes) (doCommit : Bool) (fault : Fault) :
    UnlinkLast (fileRun tmp dst mode pieces doCommit fault).2 ∧
    (¬ ((fileRun tmp dst mode pieces doCommit fault).1 = .ok ∧ doCommit = true) →
      ∃ body, (∀ a ∈ body, isUnlink a = false) ∧ (fileRun tmp dst mode pieces doCommit fault).2 = body ++ [.unlink tmp] ∧
        ∀ a ∈ body, ∀ q, q ≠ tmp → q ∉ targets a) := by
  obtain ⟨ws, tl, hacts, hws, htl, hiff, _⟩ := fileRun_shape tmp dst mode pieces doCommit fault
  have hpre : ∀ a ∈ [Act.createExcl tmp mode] ++ ws, isUnlink a = false := by
    intro a ha
    rcases List.mem_append.mp ha with h | h
    · simp at h; subst h; rfl
    · exact onlyWrites_noUnlink tmp ws hws a h
  obtain ⟨h1, h2⟩ := tail_unlinkLast tmp dst _ tl hpre htl
  rw [hacts]
  refine ⟨h1, ?_⟩
  intro hno
  obtain ⟨body, hbody, hsplit, hmem⟩ := h2 (fun e => hno (hiff.mp e))
  refine ⟨body, hbody, hsplit, ?_⟩
  intro a ha q hq
  rcases hmem a ha with h | rfl | rfl | rfl
  · rcases List.mem_append.mp h with h | h
    · simp at h; subst h; simp [targets, hq]
    · exact onlyWrites_targets tmp q hq ws hws a h
  · simp [targets]
  · simp [targets]
  · simp [targets]

end Safe
