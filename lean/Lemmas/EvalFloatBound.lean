import Lemmas.EvalBound
import Lemmas.EvalFloatTree
/-! C09, robustness of the VALUE evaluator: `EvalFloat.evaluate` (parse, final reduction, tree walk with the floating-point
    operators, `replaceVariables`, the three shapes of function — one argument, `max`/`min` loop over `NextArg`, `if` —
    and the nested `EvaluateNew`) never reaches a Go panic and never runs out of its nesting budget: on a text
    without `$` with any resolver, and on any text with a resolver whose answers hold no `$`.  The parser, the
    substitution and `NextArg` parts are those of `Lemmas/EvalBound.lean`, `Lemmas/EvalInfix.lean`; only the tree walk
    is new.  Core Lean only. -/
namespace EvalFloat
open Eval

/-! ### the three shapes of function on an argument text without `$` -/

theorem evalToFloat_ne_panic (c : Cfg) (ev : Bytes → VR Val) (arg : Bytes) (h : ev arg ≠ .panic) :
    evalToFloat c ev arg ≠ .panic := by
  unfold evalToFloat
  split
  · exact floatFrom_ne_panic c _
  · simp
  · contradiction
  · simp

theorem fn1_ne_panic (c : Cfg) (ev : Bytes → VR Val) (f : Nat → VR Val) (hf : ∀ x, f x ≠ .panic) (args : Bytes)
    (h : ev args ≠ .panic) : fn1 c ev f args ≠ .panic := by
  unfold fn1
  have := evalToFloat_ne_panic c ev args h
  split
  · exact hf _
  · simp
  · contradiction
  · simp

theorem nextArg_snd_length_le (args : Bytes) : (nextArg args).2.length ≤ args.length := by
  by_cases h : args = []
  · subst h; simp [nextArg, nextArgGo]
  · exact Nat.le_of_lt (nextArg_length args h)

theorem foldArgs_ne_panic_clean (c : Cfg) (ev : Bytes → VR Val) (step : Nat → Nat → Nat) (M : Nat)
    (hev : ∀ a, (36 : Nat) ∉ a → a.length ≤ M → ev a ≠ .panic) (fuel : Nat) (acc : Nat) (args : Bytes)
    (hf : args.length < fuel) (hM : args.length ≤ M) (h36 : (36 : Nat) ∉ args) :
    foldArgs c ev step fuel acc args ≠ .panic := by
  induction fuel generalizing acc args with
  | zero => omega
  | succ n ih =>
    unfold foldArgs
    split
    · simp
    · rename_i hne
      obtain ⟨c1, c2⟩ := nextArg_clean args h36
      have h1 := evalToFloat_ne_panic c ev _
        (hev (nextArg args).1 c1 (by have := nextArg_fst_length args; omega))
      have h3 := nextArg_length args hne
      split
      · simp
      · contradiction
      · simp
      · exact ih _ (nextArg args).2 (by omega) (by omega) c2

theorem fnIf_ne_panic_clean (c : Cfg) (ev : Bytes → VR Val) (M : Nat)
    (hev : ∀ a, (36 : Nat) ∉ a → a.length ≤ M → ev a ≠ .panic) (args : Bytes) (hM : args.length ≤ M)
    (h36 : (36 : Nat) ∉ args) : fnIf c ev args ≠ .panic := by
  obtain ⟨c1, c2⟩ := nextArg_clean args h36
  obtain ⟨c3, c4⟩ := nextArg_clean _ c2
  obtain ⟨c5, _⟩ := nextArg_clean _ c4
  have l1 := nextArg_fst_length args
  have l2 := nextArg_snd_length_le args
  have l3 := nextArg_fst_length (nextArg args).2
  have l4 := nextArg_snd_length_le (nextArg args).2
  have l5 := nextArg_fst_length (nextArg (nextArg args).2).2
  have hpick : ∀ value : Nat,
      ev (nextArg (if SoftFloat.isZero c.fmt value = true then (nextArg (nextArg args).2).2 else (nextArg args).2)).1 ≠ .panic := by
    intro value
    split
    · exact hev _ c5 (by omega)
    · exact hev _ c3 (by omega)
  have h1 := hev (nextArg args).1 c1 (by omega)
  unfold fnIf
  split
  · simp
  · contradiction
  · simp
  · rename_i evaluated _
    have hff := floatFrom_ne_panic c evaluated
    simp only []
    split
    · exact hpick _
    · contradiction
    · simp
    · split
      · exact hpick _
      · simp

/-- a function of the table on a substituted argument text without `$`: every nested evaluation is on a piece of
    that text -/
theorem call_ne_panic_clean (c : Cfg) (ev : Bytes → VR Val) (M : Nat)
    (hev : ∀ a, (36 : Nat) ∉ a → a.length ≤ M → ev a ≠ .panic) (name args : Bytes) (hM : args.length ≤ M)
    (h36 : (36 : Nat) ∉ args) : call c ev name args ≠ .panic := by
  have h0 := hev args h36 hM
  unfold call
  refine ite_ne_panic _ _ _ (fn1_ne_panic c ev _ (by intro x; simp) args h0) ?_
  refine ite_ne_panic _ _ _ (fn1_ne_panic c ev _ (by intro x; simp) args h0) ?_
  refine ite_ne_panic _ _ _ (fn1_ne_panic c ev _ (by intro x; simp) args h0) ?_
  refine ite_ne_panic _ _ _ (fn1_ne_panic c ev _ (by intro x; simp) args h0) ?_
  refine ite_ne_panic _ _ _ (foldArgs_ne_panic_clean c ev _ M hev _ _ args (by omega) hM h36) ?_
  refine ite_ne_panic _ _ _ (foldArgs_ne_panic_clean c ev _ M hev _ _ args (by omega) hM h36) ?_
  refine ite_ne_panic _ _ _ (fnIf_ne_panic_clean c ev M hev args hM h36) ?_
  refine ite_ne_panic _ _ _ (fn1_ne_panic c ev _ (by intro x; simp) args h0) ?_
  simp

/-! ### the tree walk, text by text -/

/-- what the walk needs of the texts of the tree: substitution does not panic, and the function on a substituted
    argument text does not -/
def NodeSafe (c : Cfg) (ev : Bytes → VR Val) (rv : Bytes → R Bytes) : Node → Prop
  | .nil => True
  | .operand _ v => rv v ≠ .panic
  | .func _ name args => rv args ≠ .panic ∧ ∀ T, rv args = .ok T → call c ev name T ≠ .panic
  | .tree l r _ _ => NodeSafe c ev rv l ∧ NodeSafe c ev rv r

theorem nodeSafe_of_infix (c : Cfg) (ev : Bytes → VR Val) (rv : Bytes → R Bytes) (s : Bytes) (N : Nat)
    (hop : ∀ v, v <:+: s → rv v ≠ .panic)
    (hfn : ∀ name a, a <:+: s → a.length < N → ∀ T, rv a = .ok T → call c ev name T ≠ .panic)
    (n : Node) (hi : n.Infix s) (hl : n.ArgsLt N) : NodeSafe c ev rv n := by
  induction n with
  | nil => simp [NodeSafe]
  | operand un v => exact hop v hi
  | func un name args => exact ⟨hop args hi, hfn name args hi hl⟩
  | tree l r op un ihl ihr => exact ⟨ihl hi.1 hl.1, ihr hi.2 hl.2⟩

theorem evalNode_no_panic_safe (c : Cfg) (ev : Bytes → VR Val) (rv : Bytes → R Bytes) (n : Node) (hn : n.OK)
    (hs : NodeSafe c ev rv n) : evalNode c ev rv n ≠ .panic := by
  induction n with
  | nil => simp [evalNode]
  | operand un v =>
    unfold evalNode
    have : rv v ≠ .panic := hs
    split
    · simp
    · contradiction
    · rename_i x _
      have := applyUn_ne_panic c un (.str x)
      split
      · simp
      · simp
      · contradiction
      · simp
  | func un name args =>
    unfold evalNode
    have hs' : rv args ≠ .panic ∧ ∀ T, rv args = .ok T → call c ev name T ≠ .panic := hs
    have := hs'.1
    split
    · simp
    · contradiction
    · rename_i T hT
      have := hs'.2 T hT
      split
      · simp
      · contradiction
      · simp
      · rename_i v _
        have := applyUn_ne_panic c un v
        split
        · simp
        · simp
        · contradiction
        · simp
  | tree l r op un ihl ihr =>
    simp only [Node.OK] at hn
    obtain ⟨hnl, hnr, hop⟩ := hn
    have hs' : NodeSafe c ev rv l ∧ NodeSafe c ev rv r := hs
    have h1 := ihl hnl hs'.1
    have h2 := ihr hnr hs'.2
    unfold evalNode
    split
    · simp
    · contradiction
    · simp
    · split
      · simp
      · contradiction
      · simp
      · split
        · rename_i hc
          simp only [Bool.and_eq_true, Bool.not_eq_true'] at hc
          have hop' := hop (Node.ne_nil_of_isNil_false _ hc.1) (Node.ne_nil_of_isNil_false _ hc.2)
          split
          · contradiction
          · rename_i o
            split
            · simp
            · split
              · split
                · simp
                · rename_i hq
                  exact absurd hq (binary_ne_panic _ _ _ _)
                · simp
                · rename_i v _
                  have := applyUn_ne_panic c un v
                  split
                  · simp
                  · simp
                  · contradiction
                  · simp
              · simp
        · split
          · simp
          · rename_i x _
            split
            · rename_i u _
              have := unary_ne_panic c u.sym x
              split
              · simp
              · simp
              · contradiction
              · simp
            · split
              · rename_i o _
                have := unary_ne_panic c o.sym x
                split
                · simp
                · simp
                · contradiction
                · simp
              · simp

/-- `evaluate` one level down, given the texts of the parsed tree are safe -/
theorem evaluate_succ_no_panic (c : Cfg) (ops : List Op) (fns : List Bytes) (hne : SymsNonempty ops)
    (resolve : Option (Bytes → Bytes)) (d : Nat) (s : Bytes)
    (h : ∀ top, parseTop ops fns s = .ok (some top) →
      NodeSafe c (evaluate c ops fns resolve d) (replaceVariables resolve) top) :
    evaluate c ops fns resolve (d + 1) s ≠ .panic := by
  unfold evaluate
  have hp := parseTop_no_panic ops fns hne s
  cases hpt : parseTop ops fns s with
  | err => simp
  | panic => exact absurd hpt hp
  | ok o =>
    cases o with
    | none => simp
    | some top =>
      simp only []
      have := evalNode_no_panic_safe c _ _ top (parseTop_ok_node ops fns s top hpt) (h top hpt)
      split
      · simp
      · contradiction
      · simp
      · simp
      · simp

/-- **texts without `$`: the fixed evaluator never panics, whatever the resolver is** -/
theorem evaluate_no_panic_closed (c : Cfg) (ops : List Eval.Op) (fns : List Eval.Bytes)
    (hne : Eval.SymsNonempty ops) (resolve : Option (Eval.Bytes → Eval.Bytes)) :
    ∀ (d : Nat) (s : Eval.Bytes), (36 : Nat) ∉ s → s.length < d →
      EvalFloat.evaluate c ops fns resolve d s ≠ .panic := by
  intro d
  induction d with
  | zero => intro s _ hs; omega
  | succ d ih =>
    intro s h36 hs
    apply evaluate_succ_no_panic c ops fns hne
    intro top hpt
    refine nodeSafe_of_infix c _ _ s s.length ?_ ?_ top (parseTop_infix ops fns s top hpt)
      (parseTop_argsLt ops fns s top hpt)
    · intro v hv
      rw [replaceVariables_clean resolve v (fun hm => h36 (hv.subset hm))]
      simp
    · intro name a ha hl T hT
      have h36a : (36 : Nat) ∉ a := fun hm => h36 (ha.subset hm)
      rw [replaceVariables_clean resolve a h36a] at hT
      injection hT with hT
      subst hT
      exact call_ne_panic_clean c _ a.length (fun x hx hxl => ih x hx (by omega)) name a (Nat.le_refl _) h36a

/-- **resolvers whose answers hold no `$`**; `K` bounds the net growth per variable on the names that occur in `s` -/
theorem evaluate_no_panic_growth (c : Cfg) (ops : List Eval.Op) (fns : List Eval.Bytes)
    (hne : Eval.SymsNonempty ops) (resolve : Option (Eval.Bytes → Eval.Bytes)) (K : Nat) (s : Eval.Bytes)
    (hres : ∀ f, resolve = some f →
      (∀ n, (36 : Nat) ∉ f n) ∧ (∀ n, n <:+: s → (f n).length ≤ n.length + 1 + K)) :
    ∀ d, s.length * (K + 1) + 1 < d → EvalFloat.evaluate c ops fns resolve d s ≠ .panic := by
  intro d hd
  cases d with
  | zero => omega
  | succ d =>
    apply evaluate_succ_no_panic c ops fns hne
    intro top hpt
    have hsub : ∀ v, v <:+: s → ∀ f, resolve = some f →
        (∀ n, (36 : Nat) ∉ f n) ∧ (∀ n, n <:+: v → (f n).length ≤ n.length + 1 + K) :=
      fun v hv f hf => ⟨(hres f hf).1, fun n hn => (hres f hf).2 n (hn.trans hv)⟩
    refine nodeSafe_of_infix c _ _ s s.length ?_ ?_ top (parseTop_infix ops fns s top hpt)
      (parseTop_argsLt ops fns s top hpt)
    · intro v hv
      exact (replaceVariables_growth resolve K v (hsub v hv)).1
    · intro name a ha _ T hT
      obtain ⟨hT36, hTl⟩ := (replaceVariables_growth resolve K a (hsub a ha)).2 T hT
      have h1 : a.count 36 * K ≤ a.length * K := Nat.mul_le_mul_right K List.count_le_length
      have h2 : a.length * (K + 1) ≤ s.length * (K + 1) := Nat.mul_le_mul_right (K + 1) ha.length_le
      have h3 : a.length * (K + 1) = a.length * K + a.length := Nat.mul_succ _ _
      exact call_ne_panic_clean c _ T.length
        (fun x hx hxl => evaluate_no_panic_closed c ops fns hne resolve d x hx (by omega)) name T
        (Nat.le_refl _) hT36

/-- **termination for every resolver whose answers hold no `$`**: some finite nesting budget always suffices -/
theorem evaluate_terminates (c : Cfg) (ops : List Eval.Op) (fns : List Eval.Bytes) (hne : Eval.SymsNonempty ops)
    (resolve : Option (Eval.Bytes → Eval.Bytes)) (h36 : ∀ f, resolve = some f → ∀ n, (36 : Nat) ∉ f n)
    (s : Eval.Bytes) : ∃ D, ∀ d, D ≤ d → EvalFloat.evaluate c ops fns resolve d s ≠ .panic := by
  cases resolve with
  | none =>
    refine ⟨s.length * (0 + 1) + 2, fun d hd => ?_⟩
    exact evaluate_no_panic_growth c ops fns hne none 0 s (fun f hf => by cases hf) d (by omega)
  | some f =>
    refine ⟨s.length * (maxAnswer f s + 1) + 2, fun d hd => ?_⟩
    refine evaluate_no_panic_growth c ops fns hne (some f) (maxAnswer f s) s ?_ d (by omega)
    intro g hg
    injection hg with hg
    subst hg
    refine ⟨h36 f rfl, fun n hn => ?_⟩
    have := le_maxAnswer f s n hn
    omega

end EvalFloat
