import Lemmas.FixedTextLiteral
/-! C04 helper lemmas, part 10: `String()` is THE canonical literal of its value — any literal of canonical shape
    (no '+', no leading zero, no trailing fraction zero, at most `p` fraction digits, '-' only on a non-zero value) is the
    `String()` of the value it denotes. -/
namespace FixedText

/-- digit strings of the same length with the same value are equal -/
theorem digits_inj : ∀ (a b : Str), a.length = b.length → (∀ c ∈ a, isDigit c = true) → (∀ c ∈ b, isDigit c = true) →
    parseDigits a = parseDigits b → a = b
  | [], [], _, _, _, _ => rfl
  | [], _ :: _, h, _, _, _ => by simp at h
  | _ :: _, [], h, _, _, _ => by simp at h
  | c :: s, d :: t, hl, ha, hb, hv => by
    have hlen : s.length = t.length := by simpa using hl
    rw [parseDigits_cons, parseDigits_cons, hlen] at hv
    have hs := parseDigits_lt s (fun x hx => ha x (by simp [hx]))
    have ht := parseDigits_lt t (fun x hx => hb x (by simp [hx]))
    rw [hlen] at hs
    have hc := isDigit_bounds c (ha c (by simp))
    have hd := isDigit_bounds d (hb d (by simp))
    have hX : 0 < 10 ^ t.length := Nat.pow_pos (by decide)
    generalize 10 ^ t.length = X at *
    have h1 : ((c - 48) * X + parseDigits s) / X = c - 48 := by
      rw [Nat.mul_comm, Nat.mul_add_div hX, Nat.div_eq_of_lt hs]; simp
    have h2 : ((d - 48) * X + parseDigits t) / X = d - 48 := by
      rw [Nat.mul_comm, Nat.mul_add_div hX, Nat.div_eq_of_lt ht]; simp
    have hcd : c - 48 = d - 48 := by rw [← h1, ← h2, hv]
    have hcd' : c = d := by omega
    subst hcd'
    have hp : parseDigits s = parseDigits t := Nat.add_left_cancel hv
    rw [digits_inj s t hlen (fun x hx => ha x (by simp [hx])) (fun x hx => hb x (by simp [hx])) hp]

theorem natDigits_snoc (n d : Nat) (hd : d < 10) (h : 0 < n * 10 + d) :
    natDigits (n * 10 + d) = natDigits n ++ [d] := by
  obtain ⟨k, hk⟩ : ∃ k, n * 10 + d = k + 1 := ⟨n * 10 + d - 1, by omega⟩
  rw [hk, natDigits]
  have h1 : (k + 1) / 10 = n := by omega
  have h2 : (k + 1) % 10 = d := by omega
  rw [h1, h2]

theorem parseDigits_snoc (L : Str) (b : Nat) : parseDigits (L ++ [b]) = parseDigits L * 10 + (b - 48) := by
  rw [parseDigits_app]; simp [parseDigits]

/-- digits without a leading zero are the decimal digits of their value -/
theorem natDigits_parse : ∀ (n : Nat) (ip : Str), ip.length = n → (∀ c ∈ ip, isDigit c = true) → ip ≠ [] →
    ip.head? ≠ some 48 → 0 < parseDigits ip ∧ (natDigits (parseDigits ip)).map (48 + ·) = ip := by
  intro n
  induction n with
  | zero => intro ip hl _ hne; exact absurd (List.eq_nil_of_length_eq_zero hl) hne
  | succ n ih =>
    intro ip hl hd hne hh
    rcases List.eq_nil_or_concat ip with h | ⟨L, b, hLb⟩
    · exact absurd h hne
    · rw [List.concat_eq_append] at hLb
      subst hLb
      have hb := isDigit_bounds b (hd b (by simp))
      rw [parseDigits_snoc]
      by_cases hL : L = []
      · subst hL
        have hb48 : b ≠ 48 := by intro h; apply hh; simp [h]
        have hpos : 0 < parseDigits [] * 10 + (b - 48) := by simp [parseDigits]; omega
        refine ⟨hpos, ?_⟩
        rw [natDigits_snoc _ _ (by omega) hpos]
        simp [parseDigits, natDigits]; omega
      · have hlL : L.length = n := by simpa using hl
        have hhL : L.head? ≠ some 48 := by
          obtain ⟨c, t, rfl⟩ := List.exists_cons_of_ne_nil hL
          simpa using hh
        obtain ⟨hpos, hmap⟩ := ih L hlL (fun c hc => hd c (by simp [hc])) hL hhL
        have hpos' : 0 < parseDigits L * 10 + (b - 48) := by omega
        refine ⟨hpos', ?_⟩
        rw [natDigits_snoc _ _ (by omega) hpos', List.map_append, hmap]
        simp; omega

/-- **integer digits in canonical form are `natStr` of their value** -/
theorem natStr_parse (ip : Str) (hd : ∀ c ∈ ip, isDigit c = true) (hne : ip ≠ [])
    (hz : ip.head? = some 48 → ip = [48]) : natStr (parseDigits ip) = ip := by
  by_cases h : ip.head? = some 48
  · rw [hz h]; decide
  · obtain ⟨hpos, hmap⟩ := natDigits_parse ip.length ip rfl hd hne h
    unfold natStr
    rw [if_neg (by omega), hmap]

theorem parseDigits_digitsPad (p f : Nat) (hf : f < 10 ^ p) : parseDigits (digitsPad p f) = f := by
  have h := parseDigits_one_pad p f hf
  rw [parseDigits_cons, digitsPad_length] at h
  omega

theorem dropWhile_zeros (j : Nat) (r : Str) :
    (List.replicate j 48 ++ r).dropWhile (· = 48) = r.dropWhile (· = 48) := by
  induction j with
  | zero => simp
  | succ j ih => simp [List.replicate_succ, ih]

/-- zero stripping removes exactly the padding behind a fraction that does not end in '0' -/
theorem stripZeros_pad (fp : Str) (j : Nat) (hl : fp.getLast? ≠ some 48) :
    stripZeros (fp ++ List.replicate j 48) = fp := by
  unfold stripZeros
  rw [List.reverse_append, List.reverse_replicate, dropWhile_zeros]
  rcases List.eq_nil_or_concat fp with h | ⟨L, b, hLb⟩
  · subst h; simp
  · rw [List.concat_eq_append] at hLb
    subst hLb
    have hb : b ≠ 48 := by intro h; apply hl; simp [h]
    simp [hb]

/-- **fraction digits in canonical form are `fracStr` of their scaled value**, which is not zero -/
theorem fracStr_parse (p : Nat) (fp : Str) (hd : ∀ c ∈ fp, isDigit c = true) (hne : fp ≠ []) (hk : fp.length ≤ p)
    (hl : fp.getLast? ≠ some 48) :
    fracStr p (parseDigits fp * 10 ^ (p - fp.length)) = fp ∧ parseDigits fp * 10 ^ (p - fp.length) ≠ 0 ∧
    parseDigits fp * 10 ^ (p - fp.length) < 10 ^ p := by
  have hlt := parseDigits_lt fp hd
  have hpw : 10 ^ p = 10 ^ fp.length * 10 ^ (p - fp.length) := by
    rw [← Nat.pow_add]; congr 1; omega
  have hf : parseDigits fp * 10 ^ (p - fp.length) < 10 ^ p := by
    rw [hpw]; exact Nat.mul_lt_mul_of_lt_of_le hlt (Nat.le_refl _) (Nat.pow_pos (by decide))
  have hpad : digitsPad p (parseDigits fp * 10 ^ (p - fp.length)) = fp ++ List.replicate (p - fp.length) 48 := by
    apply digits_inj
    · rw [digitsPad_length]; simp; omega
    · exact digitsPad_all _ _
    · intro c hc
      rcases List.mem_append.mp hc with h | h
      · exact hd c h
      · rw [List.eq_of_mem_replicate h]; decide
    · rw [parseDigits_digitsPad _ _ hf, parseDigits_append_zeros]
  refine ⟨?_, ?_, hf⟩
  · unfold fracStr; rw [hpad, stripZeros_pad fp _ hl]
  · -- a fraction whose last digit is not '0' has a non-zero value
    rcases List.eq_nil_or_concat fp with h | ⟨L, b, hLb⟩
    · exact absurd h hne
    · rw [List.concat_eq_append] at hLb
      subst hLb
      have hb := isDigit_bounds b (hd b (by simp))
      have hb48 : b ≠ 48 := by intro h; apply hl; simp [h]
      rw [parseDigits_snoc]
      have : 0 < 10 ^ (p - (L ++ [b]).length) := Nat.pow_pos (by decide)
      have h2 : 0 < parseDigits L * 10 + (b - 48) := by omega
      exact Nat.ne_of_gt (Nat.mul_pos h2 this)

/-- a literal of canonical shape with respect to `p` places -/
structure IsCanonical (p : Nat) (sg : Sign) (ip : Str) (fo : Option Str) : Prop where
  noPlus : sg ≠ .plus
  ipd : ∀ c ∈ ip, isDigit c = true
  ipne : ip ≠ []
  lead : ip.head? = some 48 → ip = [48]
  frac : ∀ fp, fo = some fp → (∀ c ∈ fp, isDigit c = true) ∧ fp ≠ [] ∧ fp.length ≤ p ∧ fp.getLast? ≠ some 48
  negNonzero : sg = .minus → litVal p sg ip fo ≠ 0

/-- what follows the integer digits of a literal -/
def fracTail : Option Str → Str
  | none => []
  | some fp => 46 :: fp

theorem litText_tail (sg : Sign) (ip : Str) (fo : Option Str) : litText sg ip fo = sg.bytes ++ ip ++ fracTail fo := by
  cases fo <;> rfl

/-- **`String()` of the value of a canonical literal is that literal** -/
theorem toStr_canonical_unique (p : Nat) (sg : Sign) (ip : Str) (fo : Option Str) (h : IsCanonical p sg ip fo) :
    toStr (10 ^ p) (litVal p sg ip fo) = litText sg ip fo := by
  -- magnitude M = I·10^p + F with F < 10^p
  have hF : fracVal p fo < 10 ^ p ∧
      (if fracVal p fo = 0 then ([] : Str) else 46 :: fracStr p (fracVal p fo)) =
        fracTail fo := by
    cases fo with
    | none => exact ⟨Nat.pow_pos (by decide), rfl⟩
    | some fp =>
      obtain ⟨hd, hne, hk, hl⟩ := h.frac fp rfl
      obtain ⟨h1, h2, h3⟩ := fracStr_parse p fp hd hne hk hl
      have hv : fracVal p (some fp) = parseDigits fp * 10 ^ (p - fp.length) := by
        show parseDigits fp * 10 ^ p / 10 ^ fp.length = _
        have hpw : 10 ^ p = 10 ^ (p - fp.length) * 10 ^ fp.length := by
          rw [← Nat.pow_add]; congr 1; omega
        rw [hpw, ← Nat.mul_assoc, Nat.mul_div_cancel _ (Nat.pow_pos (by decide))]
      rw [hv]
      refine ⟨h3, ?_⟩
      rw [if_neg h2, h1]; rfl
  obtain ⟨hFlt, htail⟩ := hF
  rw [litText_tail]
  generalize fracTail fo = T at htail ⊢
  generalize hFv : fracVal p fo = F at *
  generalize hI : parseDigits ip = I at *
  have hX : (0 : Int) < 10 ^ p := pow10_pos p
  have hXn : 0 < 10 ^ p := Nat.pow_pos (by decide)
  have hcast : ((10 ^ p : Nat) : Int) = (10 : Int) ^ p := by push_cast; rfl
  -- quotient and remainder of the magnitude
  have hq : (I * 10 ^ p + F) / 10 ^ p = I := by
    rw [Nat.mul_comm, Nat.mul_add_div hXn, Nat.div_eq_of_lt hFlt]; simp
  have hr : (I * 10 ^ p + F) % 10 ^ p = F := by
    rw [Nat.mul_comm, Nat.mul_add_mod, Nat.mod_eq_of_lt hFlt]
  have hnat : natStr I = ip := by rw [← hI]; exact natStr_parse ip h.ipd h.ipne h.lead
  have hlv : litVal p sg ip fo = if sg = .minus then -((I * 10 ^ p + F : Nat) : Int) else ((I * 10 ^ p + F : Nat) : Int) := by
    unfold litVal; rw [hI, hFv]
  rw [toStr_decomp, hlv]
  have hneg := h.negNonzero
  rw [hlv] at hneg
  generalize hM : I * 10 ^ p + F = M at *
  have htd : ((M : Nat) : Int).tdiv (10 ^ p) = ((M / 10 ^ p : Nat) : Int) := by
    rw [← hcast, Int.tdiv_eq_ediv_of_nonneg (Int.natCast_nonneg _)]; rfl
  have htm : ((M : Nat) : Int).tmod (10 ^ p) = ((M % 10 ^ p : Nat) : Int) := by
    rw [← hcast, Int.tmod_eq_emod_of_nonneg (Int.natCast_nonneg _)]; rfl
  rw [← htail]
  by_cases hs : sg = .minus
  · subst hs
    simp only [if_true] at hneg ⊢
    have hMpos : 0 < M := by
      rcases Nat.eq_zero_or_pos M with h0 | h0
      · rw [h0] at hneg; simp at hneg
      · exact h0
    rw [Int.neg_tdiv, Int.neg_tmod, htd, htm, hq, hr]
    have h1 : (-((M : Nat) : Int) < 0) := by omega
    rw [if_pos h1]
    simp only [Int.natAbs_neg, Int.natAbs_natCast, Int.neg_eq_zero, Int.natCast_eq_zero, Sign.bytes, hnat]
  · have hsb : sg.bytes = [] := by
      cases sg with
      | none => rfl
      | minus => exact absurd rfl hs
      | plus => exact absurd rfl h.noPlus
    rw [if_neg hs, htd, htm, hq, hr, if_neg (by omega), hsb]
    simp only [Int.natAbs_natCast, Int.natCast_eq_zero, hnat]

end FixedText
