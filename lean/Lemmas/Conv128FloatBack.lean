import Lemmas.Conv128AsFloatUlp2
/-! C02 float lemmas, part 19 (core Lean only): below 2^53 the float64 rendering converts back to the identical value. -/
namespace Conv
open GoSem GoSem.F64

/-- a finite float whose exact value is the integer `z` truncates to `z` -/
theorem truncInt_of_valEq (s : Bool) (m : Nat) (e : Int) (z : Int) (h : ValEq (.fin s m e) z) :
    truncInt (.fin s m e) = z := by
  obtain ⟨he, hv⟩ := h
  rw [truncInt_fin]
  unfold truncNat
  by_cases hpos : e ≥ 0
  · rw [if_pos hpos]
    have e1 : (e + 1074).toNat = e.toNat + 1074 := by omega
    rw [e1, Int.pow_add, ← Int.mul_assoc] at hv
    have hp : ((2:Int)^1074) ≠ 0 := by
      have : (0:Int) < 2^1074 := Int.pow_pos (by decide)
      omega
    have := Int.eq_of_mul_eq_mul_right hp hv
    cases s
    · simp only [Bool.false_eq_true, if_false] at this ⊢
      rw [← this]; push_cast; rfl
    · simp only [if_true] at this ⊢
      rw [← this]; push_cast; rw [Int.neg_mul]
  · rw [if_neg hpos]
    let k := (-e).toNat
    have hk : k ≤ 1074 := by show (-e).toNat ≤ 1074; omega
    have e1 : (e + 1074).toNat = 1074 - k := by show (e + 1074).toNat = 1074 - (-e).toNat; omega
    have e2 : (2:Int)^1074 = 2^k * 2^(1074 - k) := by
      rw [← Int.pow_add]; congr 1; omega
    rw [e1, e2, ← Int.mul_assoc] at hv
    have hp : ((2:Int)^(1074 - k)) ≠ 0 := by
      have : (0:Int) < 2^(1074 - k) := Int.pow_pos (by decide)
      omega
    have hv' : (if s then -(m : Int) else (m : Int)) = z * 2^k := by
      have hv2 : (if s then -(m : Int) else (m : Int)) * ((2:Int)^(1074 - k)) = z * 2^k * 2^(1074 - k) := by exact_mod_cast hv
      exact Int.eq_of_mul_eq_mul_right hp hv2
    have hP : (0:Int) < 2^k := Int.pow_pos (by decide)
    show (if s = true then -((m / 2^k : Nat) : Int) else ((m / 2^k : Nat) : Int)) = z
    have hcast : ((m / 2^k : Nat) : Int) = (m : Int) / 2^k := by push_cast; rfl
    rw [hcast]
    cases s
    · simp only [Bool.false_eq_true, if_false] at hv' ⊢
      rw [hv', Int.mul_ediv_cancel z (by omega)]
    · simp only [if_true] at hv' ⊢
      have : (m : Int) = (-z) * 2^k := by rw [Int.neg_mul, ← hv']; omega
      rw [this, Int.mul_ediv_cancel (-z) (by omega)]; omega

/-- **`Uint128`: `FromFloat64 (AsFloat64 u) = u` below 2^53** -/
theorem U128.fromFloat64_asFloat64 (u : U128) (h : u.toNat < 2^53) : U128.fromFloat64 u.asFloat64 = .ok u := by
  obtain ⟨hv, m, e, hme, _⟩ := U128.asFloat64_exact u h
  obtain ⟨m', e', hme', e1, e2, z1, z2, _⟩ := U128.asFloat64_round u
  rw [hme] at hme' hv
  injection hme' with _ hm he
  subst hm; subst he
  rw [hme]
  by_cases hz : u.toNat = 0
  · have hm0 := z1 hz
    subst hm0
    have hu : u = U128.zero := U128.eq_of_toNat_eq (by rw [hz]; rfl)
    rw [hu]
    unfold U128.fromFloat64
    have : (F64.fin false 0 e).le F64.zero = true := by
      rw [le_zero_fin false 0 e e1]; simp
    rw [this]; rfl
  · obtain ⟨a, b⟩ := z2 hz
    have hwf : WF (.fin false m e) := ⟨b, e1, e2, Or.inl a⟩
    rw [U128.fromFloat64_fin false m e hwf, truncInt_of_valEq false m e _ hv]
    show Cv.ok (U128.fromBigInt u.asBigInt) = Cv.ok u
    rw [U128.fromBigInt_asBigInt]

/-- **`Int128`: `FromFloat64 (AsFloat64 i) = i` for |i| < 2^53** -/
theorem I128.fromFloat64_asFloat64 (i : I128) (h1 : -(2^53) < i.toInt) (h2 : i.toInt < 2^53) :
    I128.fromFloat64 i.asFloat64 = .ok i := by
  by_cases hz : i.toInt = 0
  · have hi : i = I128.zero := I128.eq_of_toInt_eq (by rw [hz]; rfl)
    rw [hi]; decide
  · obtain ⟨hv, m, e, hme, _⟩ := I128.asFloat64_exact i h1 h2
    obtain ⟨m', e', hme', e1, e2, _, z2, _⟩ := I128.asFloat64_round i
    rw [hme] at hme' hv
    injection hme' with _ hm he
    subst hm; subst he
    rw [hme]
    obtain ⟨a, b⟩ := z2 hz
    have hwf : WF (.fin (decide (i.toInt < 0)) m e) := ⟨b, e1, e2, Or.inl a⟩
    rw [I128.fromFloat64_fin _ m e hwf, truncInt_of_valEq _ m e _ hv, ← I128.asBigInt_eq, I128.fromBigInt_asBigInt]

end Conv
