import Model.I128
import Lemmas.U128Bits
import Lemmas.I128Basic
import Lemmas.GenAttr
import Mathlib.Tactic.SplitIfs
/-! C01, second tie: helper lemmas and the proof script used by `Props/C01Gen.lean` to identify the definitions that
    `gossa/ssagen` regenerates from the Go source on every run (`Generated/SSA_Num.lean`, namespace `Gen`) with the
    hand-written model (`Model/U128.lean`, `Model/I128.lean`).

    The script is meant to survive behaviour-preserving rewrites of the Go code: it never looks at the shape of the
    generated term.  It unfolds both sides, rewrites the few bit-level idioms of the source (sign test `x & signBit`,
    zero test `hi | lo == 0`, `int` comparisons) into linear arithmetic over `toNat`, splits every `if` of both sides
    (`split_ifs`: a condition that occurs on both sides is decided once) and closes each leaf by `rfl` or by `omega`
    after pushing `toNat` through the word operations.  Bit-level subterms (`&&&`, `<<<` …) are atoms for `omega`, so they
    have to occur in the same form on both sides, and so do the calls of `math/bits` (the contract terms `add64 sub64
    mul64` are not unfolded); arithmetic, comparisons and control flow may be rearranged freely. -/

namespace GenTie
abbrev W := BitVec 64

/-! ## bit-level idioms as arithmetic -/

theorem and_sign_eq_zero (x : W) : x &&& 9223372036854775808#64 = 0#64 ↔ x.toNat < 9223372036854775808 :=
  I128.sign_zero_iff x

theorem and_sign_ne_zero (x : W) : x &&& 9223372036854775808#64 ≠ 0#64 ↔ 9223372036854775808 ≤ x.toNat := by
  rw [Ne, and_sign_eq_zero]; omega

theorem zero_eq_and_sign (x : W) : 0#64 = x &&& 9223372036854775808#64 ↔ x.toNat < 9223372036854775808 := by
  rw [eq_comm, and_sign_eq_zero]

theorem and_sign_eq_and_sign (x y : W) :
    x &&& 9223372036854775808#64 = y &&& 9223372036854775808#64 ↔
      (x.toNat < 9223372036854775808 ↔ y.toNat < 9223372036854775808) := I128.sign_eq_iff x y

theorem or_eq_zero (x y : W) : x ||| y = 0#64 ↔ x.toNat = 0 ∧ y.toNat = 0 := by
  constructor
  · intro h
    have h1 : x = 0#64 := by
      apply BitVec.eq_of_getLsbD_eq; intro i hi
      have := congrArg (fun z => z.getLsbD i) h
      simp only [BitVec.getLsbD_or, BitVec.getLsbD_zero, Bool.or_eq_false_iff] at this
      simp [this.1]
    have h2 : y = 0#64 := by
      apply BitVec.eq_of_getLsbD_eq; intro i hi
      have := congrArg (fun z => z.getLsbD i) h
      simp only [BitVec.getLsbD_or, BitVec.getLsbD_zero, Bool.or_eq_false_iff] at this
      simp [this.2]
    rw [h1, h2]; exact ⟨rfl, rfl⟩
  · rintro ⟨h1, h2⟩
    have e1 : x = 0#64 := BitVec.eq_of_toNat_eq h1
    have e2 : y = 0#64 := BitVec.eq_of_toNat_eq h2
    rw [e1, e2]; rfl

/-- a Go `int` / `int64` read as a number: the two's-complement value of its 64-bit pattern -/
theorem toInt_eq (x : W) :
    x.toInt = if x.toNat < 9223372036854775808 then (x.toNat : Int) else (x.toNat : Int) - 18446744073709551616 := by
  rw [BitVec.toInt_eq_toNat_cond]
  have := x.isLt
  split <;> split <;> first | rfl | omega

theorem toInt_neg (x : W) : x.toInt < 0 ↔ 9223372036854775808 ≤ x.toNat := by
  rw [toInt_eq]; split <;> omega
theorem toInt_nonneg (x : W) : 0 ≤ x.toInt ↔ x.toNat < 9223372036854775808 := by
  rw [toInt_eq]; split <;> omega

theorem I128_eq (a b : I128) : a = b ↔ a.hi.toNat = b.hi.toNat ∧ a.lo.toNat = b.lo.toNat := by
  cases a; cases b
  simp only [I128.mk.injEq, BitVec.toNat_eq]

theorem U128_eq (a b : U128) : a = b ↔ a.hi.toNat = b.hi.toNat ∧ a.lo.toNat = b.lo.toNat := by
  cases a; cases b
  simp only [U128.mk.injEq, BitVec.toNat_eq]

/-! ## bounds of the `math/bits` contracts (the Go results are `int`s; they never wrap) -/

theorem clz_le (x : W) : U128.clz x ≤ 64 := by unfold U128.clz; omega

theorem ctzAux_le : ∀ (f x : Nat), U128.ctzAux f x ≤ f
  | 0, _ => by simp [U128.ctzAux]
  | f+1, x => by
    unfold U128.ctzAux; split
    · omega
    · have := ctzAux_le f (x / 2); omega

theorem ctz_le (x : W) : U128.ctz x ≤ 64 := by
  unfold U128.ctz; split
  · omega
  · exact ctzAux_le 64 _

theorem popAux_le : ∀ (f x : Nat), U128.popAux f x ≤ f
  | 0, _ => by simp [U128.popAux]
  | f+1, x => by
    unfold U128.popAux
    have := popAux_le f (x / 2); omega

theorem popcount_le (x : W) : U128.popcount x ≤ 64 := popAux_le 64 _

/-- the contract results as bounded numbers: `omega` knows `Fin.isLt`, so the `int` arithmetic on them cannot wrap -/
def len64F (x : W) : Fin 65 := ⟨U128.len64 x, by have := U128.len64_le x; omega⟩
def clzF (x : W) : Fin 65 := ⟨U128.clz x, by have := clz_le x; omega⟩
def ctzF (x : W) : Fin 65 := ⟨U128.ctz x, by have := ctz_le x; omega⟩
def popcountF (x : W) : Fin 65 := ⟨U128.popcount x, by have := popcount_le x; omega⟩
theorem len64_fin (x : W) : U128.len64 x = (len64F x).val := rfl
theorem clz_fin (x : W) : U128.clz x = (clzF x).val := rfl
theorem ctz_fin (x : W) : U128.ctz x = (ctzF x).val := rfl
theorem popcount_fin (x : W) : U128.popcount x = (popcountF x).val := rfl

/-- `x - k` on a Go `uint` that is known to be at least `k` (shift counts, bit indexes) -/
theorem toNat_sub_lit (x : W) (k : Nat) (h : k ≤ x.toNat) : (x - BitVec.ofNat 64 k).toNat = x.toNat - k := by
  have := x.isLt
  rw [BitVec.toNat_sub, BitVec.toNat_ofNat]
  have hk : k % 2^64 = k := Nat.mod_eq_of_lt (by omega)
  rw [hk]; omega
/-- `k - x` on a Go `uint` that is known to be at most `k` -/
theorem toNat_lit_sub (x : W) (k : Nat) (hk : k < 2^64) (h : x.toNat ≤ k) :
    (BitVec.ofNat 64 k - x).toNat = k - x.toNat := by
  have := x.isLt
  rw [BitVec.toNat_sub, BitVec.toNat_ofNat]
  have hk' : k % 2^64 = k := Nat.mod_eq_of_lt hk
  rw [hk']; omega

/-! ## model-side normal forms: the model's `Int` index instantiated with the value of a Go `int` word
    (statements about the hand-written model only; they do not change when the Go code changes) -/

theorem int_idx (i : W) (h : i.toNat < 9223372036854775808) :
    i.toInt.toNat = i.toNat ∧ (i.toInt - 64).toNat = i.toNat - 64 := by
  rw [toInt_eq]; simp only [h, if_true]; omega

/-- `Bit` of the model at an `int` index given by its 64-bit pattern -/
theorem bit_w (u : U128) (i : W) : U128.bit u i.toInt =
    if 127 < i.toNat then 0
    else if i.toNat < 64 then ((u.lo >>> i.toNat) &&& 1#64).toNat
    else ((u.hi >>> (i.toNat - 64)) &&& 1#64).toNat := by
  unfold U128.bit
  by_cases h : i.toNat < 9223372036854775808
  · rw [(int_idx i h).1, (int_idx i h).2]
    rw [toInt_eq]; simp only [h, if_true]
    split_ifs <;> first | rfl | omega
  · rw [toInt_eq]; simp only [h, if_false]
    split_ifs <;> first | rfl | omega

theorem setBit_w (u : U128) (i b : W) : U128.setBit u i.toInt b.toNat =
    if 127 < i.toNat then u
    else if b.toNat = 0 then
      if 64 ≤ i.toNat then ⟨u.hi &&& ~~~(1#64 <<< (i.toNat - 64)), u.lo⟩ else ⟨u.hi, u.lo &&& ~~~(1#64 <<< i.toNat)⟩
    else
      if 64 ≤ i.toNat then ⟨u.hi ||| (1#64 <<< (i.toNat - 64)), u.lo⟩ else ⟨u.hi, u.lo ||| (1#64 <<< i.toNat)⟩ := by
  unfold U128.setBit
  by_cases h : i.toNat < 9223372036854775808
  · rw [(int_idx i h).1, (int_idx i h).2]
    rw [toInt_eq]; simp only [h, if_true]
    split_ifs <;> first | rfl | omega
  · rw [toInt_eq]; simp only [h, if_false]
    split_ifs <;> first | rfl | omega

end GenTie

/-! ## the proof script -/

/-- rewrite the bit-level idioms, word equalities and `int` comparisons of the goal and of every hypothesis into
    linear arithmetic over `toNat` (two passes: the idioms first, then plain word equalities) -/
macro "gen_norm" : tactic => `(tactic| (
  (try simp only [GenTie.and_sign_eq_zero, GenTie.and_sign_ne_zero, GenTie.zero_eq_and_sign, GenTie.and_sign_eq_and_sign,
    GenTie.or_eq_zero, GenTie.toInt_neg, GenTie.toInt_nonneg, GenTie.I128_eq, GenTie.U128_eq,
    GenTie.len64_fin, GenTie.clz_fin, GenTie.ctz_fin, GenTie.popcount_fin, ne_eq, ge_iff_le, gt_iff_lt,
    BitVec.reduceAnd, decide_eq_true_eq, decide_eq_false_iff_not, Bool.decide_eq_true, decide_not, Bool.not_eq_true',
    Bool.or_eq_true, Bool.and_eq_true, Bool.not_eq_true, Bool.or_eq_false_iff, Bool.and_eq_false_imp,
    Bool.ite_eq_true_distrib, Bool.ite_eq_false_distrib] at *) <;>
  (try simp only [GenTie.toInt_eq, BitVec.toNat_eq, BitVec.reduceToNat, BitVec.reduceToInt, BitVec.reduceEq,
    BitVec.reduceNe, Nat.not_lt, Nat.not_le, Int.not_lt, Int.not_le, decide_eq_true_eq, Bool.or_eq_true,
    Bool.and_eq_true, Bool.not_eq_true', decide_eq_false_iff_not] at *)))

open Lean Elab Tactic Meta in
/-- `gen_guard n` fails when the goal and its hypotheses contain more than `n` occurrences of `%`, `/`, `*`, `<<<`,
    `>>>`: `omega` eliminates each of them with new variables and case splits and needs minutes to give up on an
    unprovable goal of that size (a changed `Mul64`, say); the script must fail fast instead -/
elab "gen_guard " n:num : tactic => withMainContext do
  let g ← getMainGoal
  let mut es := #[← instantiateMVars (← g.getType)]
  for d in ← getLCtx do
    if !d.isImplementationDetail then es := es.push (← instantiateMVars d.type)
  let cnt ← IO.mkRef 0
  for e in es do
    e.forEach fun s => do
      if s.getAppNumArgs == 6 && (s.isAppOf ``HMod.hMod || s.isAppOf ``HDiv.hDiv || s.isAppOf ``HMul.hMul ||
          s.isAppOf ``HShiftRight.hShiftRight || s.isAppOf ``HShiftLeft.hShiftLeft) then
        cnt.modify (· + 1)
  if (← IO.getEnv "GEN_GUARD_TRACE").isSome then logInfo m!"gen_guard count {← cnt.get}"
  if (← cnt.get) > n.getNat then throwError "gen_guard: {← cnt.get} arithmetic operators, too many for omega"

/-- close one leaf: syntactic identity, or linear arithmetic over `toNat` -/
macro "gen_leaf" : tactic => `(tactic| first
  | with_reducible rfl
  | omega
  | ((try simp (disch := omega) only [GenTie.toNat_sub_lit, GenTie.toNat_lit_sub, and_self, and_true, true_and] at *) <;>
     (try simp only [U128.mk.injEq, I128.mk.injEq, Prod.mk.injEq, Bool.true_eq, Bool.false_eq, iff_self,
        decide_eq_true_eq, decide_eq_false_iff_not, Bool.or_eq_true, Bool.and_eq_true, Bool.or_eq_false_iff,
        Bool.and_eq_false_imp, Bool.true_eq_false, Bool.false_eq_true, eq_self_iff_true, true_iff, iff_true,
        false_iff, iff_false, not_true_eq_false, not_false_eq_true,
        BitVec.toNat_eq, BitVec.toNat_ne, bitvec_to_nat, Int.toNat_natCast, Nat.reducePow,
        and_self, and_true, true_and] at *) <;> gen_guard 12 <;> omega)
  | (simp_all <;> gen_guard 12 <;> omega))

/-- one attempt: state a `Bool` equation as an equivalence, unfold every generated function (simp set `gen_def`) and
    the model definitions `defs` while turning `Bool` connectives into propositions, only then unfold the generated
    constants (`gen_const`) and the model constants `consts` (so that the `Decidable` instances under a `decide` still
    match when it is removed), normalise, split every `if`, close the leaves -/
syntax "gen_tie_core" "[" Lean.Parser.Tactic.simpLemma,* "]" "[" Lean.Parser.Tactic.simpLemma,* "]" : tactic
macro_rules
  | `(tactic| gen_tie_core [$ls,*] [$cs,*]) => `(tactic|
      (try with_reducible refine Bool.eq_iff_iff.mpr ?_) <;>
      (simp only [gen_def, $ls,*, Bool.and_eq_true, Bool.or_eq_true, decide_eq_true_eq, Bool.ite_eq_true_distrib,
        Bool.ite_eq_false_distrib, Bool.not_eq_true', decide_eq_false_iff_not, Bool.false_eq_true,
        Bool.true_eq_false, eq_self_iff_true]) <;>
      (try simp only [gen_const, $cs,*]) <;> gen_norm <;> (try split_ifs) <;> gen_leaf)

/-- `gen_tie [defs] [consts]`.  The `math/bits` contracts (`add64 sub64 mul64`) stay opaque terms: the Go code has to
    call them with the same arguments as the model does.  (Unfolding them into arithmetic as a second attempt proves
    more rewrites — `Dec` without `bits.Sub64`, say — but `omega` then needs minutes to give up on an unprovable goal,
    and a changed behaviour has to be reported within the time budget of the quick tier.) -/
syntax "gen_tie" "[" Lean.Parser.Tactic.simpLemma,* "]" ("[" Lean.Parser.Tactic.simpLemma,* "]")? : tactic
macro_rules
  | `(tactic| gen_tie []) => `(tactic| gen_tie_core [eq_self_iff_true] [eq_self_iff_true])
  | `(tactic| gen_tie [$ls,*]) => `(tactic| gen_tie_core [$ls,*] [eq_self_iff_true])
  | `(tactic| gen_tie [$ls,*] [$cs,*]) => `(tactic| gen_tie_core [$ls,*] [$cs,*])
