import Lemmas.FixedFloatRound
import Lemmas.FixedRat
import Lemmas.FixedBase

/-! C03 float paths, part 2: the four conversions of `Model/FixedFloat.lean` against the exact rational value.
    `fval` is the rational value of a finite binary64 datum, `value m r = r / m` the value of a raw scaled integer. -/
namespace Fixed.FloatLemmas
open GoSem.F64 Fixed.Rat

def sgn (s : Bool) : ℚ := if s then -1 else 1

/-- the rational value of a finite float (0 for NaN / ±Inf, which no theorem below evaluates) -/
def fval : Flt → ℚ
  | .fin s m e => sgn s * ((m : ℚ) * (2 : ℚ) ^ e)
  | _ => 0

theorem abs_sgn_mul (s : Bool) (x : ℚ) : |sgn s * x| = |x| := by
  unfold sgn; cases s <;> simp

theorem den_pos (e : ℤ) : 0 < den e := by
  obtain ⟨k, hk⟩ := den_pow e; rw [hk]; exact pow_pos' k

/-- `num m e / den e` is the value `m·2^e` -/
theorem num_den_val (m : ℕ) (e : ℤ) : ((num m e : ℕ) : ℚ) / ((den e : ℕ) : ℚ) = (m : ℚ) * (2 : ℚ) ^ e := by
  unfold num den
  by_cases he : e ≥ 0
  · rw [if_pos he, if_pos he]
    obtain ⟨n, rfl⟩ := Int.eq_ofNat_of_zero_le he
    simp only [Int.toNat_natCast]
    rw [zp_nat]; push_cast; ring
  · rw [if_neg he, if_neg he]
    obtain ⟨n, hn⟩ : ∃ n : ℕ, e = -(n : ℤ) := ⟨(-e).toNat, by omega⟩
    subst hn
    simp only [neg_neg, Int.toNat_natCast]
    rw [zpow_neg, zp_nat]; push_cast; rfl

/-- nearest-even rounding of a rational in the normal range: finite, relative error at most `2^-53` -/
theorem ofRat_val (neg : Bool) (A D : ℕ) (hA : 0 < A) (hD : 0 < D)
    (hlo : (2 : ℚ) ^ (-1022 : ℤ) ≤ (A : ℚ) / D) (hhi : (A : ℚ) / D < (2 : ℚ) ^ (1023 : ℤ)) :
    ∃ m e, ofRat neg A D = .fin neg m e ∧ |(m : ℚ) * (2 : ℚ) ^ e - (A : ℚ) / D| ≤ (A : ℚ) / D / 2 ^ 53 := by
  unfold ofRat
  rcases roundRatN_val neg A D hA hD with ⟨_, h⟩ | ⟨m, e, h1, _, _, _, _, h5⟩
  · exact absurd h (not_le.mpr hhi)
  · exact ⟨m, e, h1, h5 hlo⟩

/-! ## f64.As -/

/-- `f64.As[T, float64]` is finite and within `2^-53` (relative) of `raw / mult` -/
theorem f64_as_val (m a : ℤ) (hm : Mult m) (ha : fits64 a) :
    ∃ s mm e, F64.asFloat m a = .fin s mm e ∧
      |fval (F64.asFloat m a) - value m a| ≤ |value m a| / 2 ^ 53 := by
  have hm0 := hm.pos
  have hmle := hm.le
  unfold F64.asFloat ofSigned
  by_cases h0 : a = 0
  · subst h0
    refine ⟨false, 0, -1074, by simp, ?_⟩
    simp [fval, value]
  · have hb : (a == 0) = false := by simp [h0]
    rw [hb]
    simp only [Bool.false_eq_true, if_false]
    have hA : 0 < a.natAbs := by omega
    have hD : 0 < m.toNat := by omega
    have hmq : (0 : ℚ) < (m : ℚ) := by exact_mod_cast hm0
    have hDq : ((m.toNat : ℕ) : ℚ) = (m : ℚ) := by
      have : ((m.toNat : ℕ) : ℤ) = m := by omega
      exact_mod_cast this
    have hAq : ((a.natAbs : ℕ) : ℚ) = |(a : ℚ)| := by
      rw [Nat.cast_natAbs, Int.cast_abs]
    have hρ : ((a.natAbs : ℕ) : ℚ) / ((m.toNat : ℕ) : ℚ) = |value m a| := by
      rw [hAq, hDq]; unfold value; rw [abs_div, abs_of_pos hmq]
    have habs1 : (1 : ℚ) ≤ |(a : ℚ)| := by
      rw [← Int.cast_abs]; exact_mod_cast (Int.one_le_abs h0)
    have habs2 : |(a : ℚ)| ≤ 2 ^ 63 := by
      rw [← Int.cast_abs]
      have : |a| ≤ 2 ^ 63 := by unfold fits64 at ha; rw [abs_le]; omega
      exact_mod_cast this
    have hmle' : (m : ℚ) ≤ 10000000000000000 := by exact_mod_cast hmle
    have hm1 : (1 : ℚ) ≤ (m : ℚ) := by exact_mod_cast (show (1 : ℤ) ≤ m by omega)
    have hlo : (2 : ℚ) ^ (-1022 : ℤ) ≤ ((a.natAbs : ℕ) : ℚ) / ((m.toNat : ℕ) : ℚ) := by
      rw [hAq, hDq, le_div_iff₀ hmq]
      calc (2 : ℚ) ^ (-1022 : ℤ) * m ≤ (2 : ℚ) ^ (-54 : ℤ) * 10000000000000000 :=
            mul_le_mul (zp_le (by norm_num)) hmle' (le_of_lt hmq) (le_of_lt (zp_pos _))
        _ ≤ 1 := by norm_num
        _ ≤ _ := habs1
    have hhi : ((a.natAbs : ℕ) : ℚ) / ((m.toNat : ℕ) : ℚ) < (2 : ℚ) ^ (1023 : ℤ) := by
      rw [hAq, hDq, div_lt_iff₀ hmq]
      calc |(a : ℚ)| ≤ 2 ^ 63 := habs2
        _ < (2 : ℚ) ^ (1023 : ℤ) * 1 := by
            rw [mul_one]; exact_mod_cast (zp_lt_iff.mpr (show (63 : ℤ) < 1023 by norm_num))
        _ ≤ _ := mul_le_mul_of_nonneg_left hm1 (le_of_lt (zp_pos _))
    obtain ⟨mm, e, h1, h2⟩ := ofRat_val (decide (a < 0)) a.natAbs m.toNat hA hD hlo hhi
    refine ⟨_, mm, e, h1, ?_⟩
    rw [h1, hρ] at *
    -- value m a = sgn (a<0) * |value m a|
    have hv : value m a = sgn (decide (a < 0)) * |value m a| := by
      unfold sgn
      by_cases hn : a < 0
      · have : value m a < 0 := by unfold value; exact div_neg_of_neg_of_pos (by exact_mod_cast hn) hmq
        simp [hn, abs_of_neg this]
      · have : 0 ≤ value m a := by
          unfold value; exact div_nonneg (by exact_mod_cast (not_lt.mp hn)) (le_of_lt hmq)
        simp [hn, abs_of_nonneg this]
    unfold fval
    conv_lhs => rw [hv]
    rw [← mul_sub, abs_sgn_mul]
    exact h2

/-! ## facts about `|raw| / mult` shared by the `As` paths -/

theorem ratio_facts (m a : ℤ) (hm : Mult m) (h0 : a ≠ 0) :
    0 < a.natAbs ∧ 0 < m.toNat ∧ ((a.natAbs : ℕ) : ℚ) / ((m.toNat : ℕ) : ℚ) = |value m a| ∧
      (2 : ℚ) ^ (-54 : ℤ) ≤ |value m a| ∧ |value m a| ≤ |(a : ℚ)| ∧
      value m a = sgn (decide (a < 0)) * |value m a| := by
  have hm0 := hm.pos
  have hmle := hm.le
  have hmq : (0 : ℚ) < (m : ℚ) := by exact_mod_cast hm0
  have hDq : ((m.toNat : ℕ) : ℚ) = (m : ℚ) := by
    have : ((m.toNat : ℕ) : ℤ) = m := by omega
    exact_mod_cast this
  have hAq : ((a.natAbs : ℕ) : ℚ) = |(a : ℚ)| := by rw [Nat.cast_natAbs, Int.cast_abs]
  have habs1 : (1 : ℚ) ≤ |(a : ℚ)| := by
    rw [← Int.cast_abs]; exact_mod_cast (Int.one_le_abs h0)
  have hmle' : (m : ℚ) ≤ 10000000000000000 := by exact_mod_cast hmle
  have hm1 : (1 : ℚ) ≤ (m : ℚ) := by exact_mod_cast (show (1 : ℤ) ≤ m by omega)
  have hv : |value m a| = |(a : ℚ)| / m := by unfold value; rw [abs_div, abs_of_pos hmq]
  refine ⟨by omega, by omega, by rw [hAq, hDq, hv], ?_, ?_, ?_⟩
  · rw [hv, le_div_iff₀ hmq]
    calc (2 : ℚ) ^ (-54 : ℤ) * m ≤ (2 : ℚ) ^ (-54 : ℤ) * 10000000000000000 :=
          mul_le_mul_of_nonneg_left hmle' (le_of_lt (zp_pos _))
      _ ≤ 1 := by norm_num
      _ ≤ _ := habs1
  · rw [hv, div_le_iff₀ hmq]
    have : (0 : ℚ) ≤ |(a : ℚ)| := abs_nonneg _
    nlinarith
  · unfold sgn
    by_cases hn : a < 0
    · have : value m a < 0 := by unfold value; exact div_neg_of_neg_of_pos (by exact_mod_cast hn) hmq
      simp [hn, abs_of_neg this]
    · have : 0 ≤ value m a := by
        unfold value; exact div_nonneg (by exact_mod_cast (not_lt.mp hn)) (le_of_lt hmq)
      simp [hn, abs_of_nonneg this]

/-! ## f128.As -/

/-- `f128.As[T, float64]` (128-bit quotient, then the nearest float64) is finite and within `2^-52` (relative) of
    `raw / mult`; more precisely within `2^-53·(1 + 2^-128) + 2^-128` -/
theorem f128_as_val (m a : ℤ) (hm : Mult m) (ha : fits128 a) :
    ∃ s mm e, F128.asFloat m a = .fin s mm e ∧
      |fval (F128.asFloat m a) - value m a| ≤ |value m a| * (1 / 2 ^ 53 + 1 / 2 ^ 181 + 1 / 2 ^ 128) := by
  unfold F128.asFloat
  by_cases h0 : a = 0
  · subst h0
    refine ⟨false, 0, -1074, by simp [GoSem.F64.zero], ?_⟩
    simp [fval, value, GoSem.F64.zero]
  · have hb : (a == 0) = false := by simp [h0]
    rw [hb]
    simp only [Bool.false_eq_true, if_false]
    obtain ⟨hA, hD, hρ, hlo, hhi, hv⟩ := ratio_facts m a hm h0
    obtain ⟨p1, p2, p3, p4, p5⟩ := roundPrec_val 128 a.natAbs m.toNat (by norm_num) hA hD
    unfold F128.quo128
    simp only []
    generalize (roundPrec 128 a.natAbs m.toNat).1 = Q at *
    generalize (roundPrec 128 a.natAbs m.toNat).2 = E at *
    rw [hρ] at p3 p4 p5
    generalize hr : |value m a| = ρ at *
    have hρ0 : 0 < ρ := lt_of_lt_of_le (zp_pos _) hlo
    have hy := num_den_val Q E
    generalize hyy : (Q : ℚ) * (2 : ℚ) ^ E = y at *
    -- bounds on the 128-bit quotient
    have ha2 : |(a : ℚ)| ≤ 2 ^ 127 := by
      rw [← Int.cast_abs]
      have : |a| ≤ 2 ^ 127 := by unfold fits128 at ha; rw [abs_le]; omega
      exact_mod_cast this
    obtain ⟨y1, y2⟩ := abs_le.mp p3
    have k128 : ρ / 2 ^ 128 ≤ ρ / 2 := by
      apply div_le_div_of_nonneg_left (le_of_lt hρ0) (by norm_num) (by norm_num)
    have ylo : (2 : ℚ) ^ (-1022 : ℤ) ≤ y := by
      have h55 : (2 : ℚ) ^ (-55 : ℤ) = (2 : ℚ) ^ (-54 : ℤ) / 2 := by
        rw [show (-55 : ℤ) = -54 + -1 by norm_num, zp_add]; norm_num
      have : (2 : ℚ) ^ (-1022 : ℤ) ≤ (2 : ℚ) ^ (-54 : ℤ) / 2 := by
        rw [← h55]; exact zp_le (by norm_num)
      generalize (2 : ℚ) ^ (-1022 : ℤ) = c1 at *
      generalize (2 : ℚ) ^ (-54 : ℤ) = c2 at *
      generalize ρ / 2 ^ 128 = u at *
      linarith
    have yhi : y < (2 : ℚ) ^ (1023 : ℤ) := by
      have : (2 : ℚ) ^ (127 : ℕ) * 2 < (2 : ℚ) ^ (1023 : ℤ) := by
        have := zp_lt_iff.mpr (show (128 : ℤ) < 1023 by norm_num)
        have e : (2 : ℚ) ^ (128 : ℤ) = (2 : ℚ) ^ (127 : ℕ) * 2 := by norm_num
        rw [e] at this; exact this
      generalize (2 : ℚ) ^ (1023 : ℤ) = c1 at *
      generalize (2 : ℚ) ^ (127 : ℕ) = c2 at *
      generalize ρ / 2 ^ 128 = u at *
      linarith
    have hypos : 0 < y := lt_of_lt_of_le (zp_pos _) ylo
    have hNpos : 0 < num Q E := by
      rcases Nat.eq_zero_or_pos (num Q E) with h | h
      · rw [h] at hy; simp at hy; linarith
      · exact h
    rw [← hy] at ylo yhi
    obtain ⟨mm, e, h1, h2⟩ := ofRat_val (decide (a < 0)) (num Q E) (den E) hNpos (den_pos E) ylo yhi
    refine ⟨_, mm, e, h1, ?_⟩
    rw [h1, hy] at *
    unfold fval
    conv_lhs => rw [hv]
    rw [← mul_sub, abs_sgn_mul]
    obtain ⟨z1, z2⟩ := abs_le.mp h2
    have e1 : y / 2 ^ 53 ≤ ρ / 2 ^ 53 + ρ / 2 ^ 181 := by
      have : y ≤ ρ + ρ / 2 ^ 128 := by linarith
      have h53 : y / 2 ^ 53 ≤ (ρ + ρ / 2 ^ 128) / 2 ^ 53 :=
        div_le_div_of_nonneg_right this (by norm_num)
      have e2 : (ρ + ρ / 2 ^ 128) / 2 ^ 53 = ρ / 2 ^ 53 + ρ / 2 ^ 181 := by
        field_simp
      linarith
    rw [abs_le]
    constructor <;> linarith

/-! ## f128.From -/

/-- with `mult = 10^places`, `FromString` on the `places+1`-digit text drops the last digit -/
theorem parseDigits_eq (places n1 : ℕ) :
    F128.parseDigits ((10 : ℤ) ^ places) places n1 = ((n1 / 10 : ℕ) : ℤ) := by
  unfold F128.parseDigits
  simp only []
  have hdm := Nat.div_add_mod n1 (10 ^ (places + 1))
  generalize n1 / 10 ^ (places + 1) = ip at *
  generalize hf : n1 % 10 ^ (places + 1) = f1 at *
  have e10 : 10 ^ (places + 1) * ip = 10 * (10 ^ places * ip) := by rw [Nat.pow_succ]; ring
  have : n1 / 10 = 10 ^ places * ip + f1 / 10 := by
    rw [← hdm, e10, Nat.mul_add_div (by norm_num)]
  rw [this]
  push_cast
  ring

/-- the digits of `Text('f', places+1)`: the scaled magnitude rounded to the nearest integer -/
theorem textDigits_val (places m : ℕ) (e : ℤ) :
    |((F128.textDigits places m e : ℕ) : ℚ) - (m : ℚ) * (2 : ℚ) ^ e * 10 ^ (places + 1)| ≤ 1 / 2 := by
  unfold F128.textDigits
  simp only []
  have hd := den_pos e
  generalize hA : num m e * 10 ^ (places + 1) = A
  obtain ⟨_, g⟩ := roundQ_val (A / den e) (A % den e) (den e) hd (Nat.mod_lt _ hd)
  have hdm := Nat.div_add_mod A (den e)
  have hdq : ((den e : ℕ) : ℚ) ≠ 0 := by exact_mod_cast (ne_of_gt hd)
  have hq : ((A / den e : ℕ) : ℚ) + ((A % den e : ℕ) : ℚ) / ((den e : ℕ) : ℚ) = (A : ℚ) / ((den e : ℕ) : ℚ) := by
    rw [eq_div_iff hdq, add_mul, div_mul_cancel₀ _ hdq]
    have : (A : ℚ) = ((den e : ℕ) : ℚ) * ((A / den e : ℕ) : ℚ) + ((A % den e : ℕ) : ℚ) := by
      exact_mod_cast hdm.symm
    linarith
  rw [hq] at g
  have hv : (A : ℚ) / ((den e : ℕ) : ℚ) = (m : ℚ) * (2 : ℚ) ^ e * 10 ^ (places + 1) := by
    rw [← num_den_val, ← hA]; push_cast; ring
  rw [hv] at g
  exact g

/-- `f128.From` of a finite float, before saturation: less than one unit of the last place from the value
    (at most 19/20 of it) -/
theorem f128_from_mag (places m : ℕ) (e : ℤ) :
    |((F128.textDigits places m e / 10 : ℕ) : ℚ) - (m : ℚ) * (2 : ℚ) ^ e * 10 ^ places| ≤ 19 / 20 := by
  have g := textDigits_val places m e
  generalize F128.textDigits places m e = n1 at *
  have hdm := Nat.div_add_mod n1 10
  have hlt := Nat.mod_lt n1 (show 0 < 10 by norm_num)
  have h1 : (n1 : ℚ) = 10 * ((n1 / 10 : ℕ) : ℚ) + ((n1 % 10 : ℕ) : ℚ) := by exact_mod_cast hdm.symm
  have h2 : ((n1 % 10 : ℕ) : ℚ) ≤ 9 := by
    have : n1 % 10 ≤ 9 := by omega
    exact_mod_cast this
  have h3 : (0 : ℚ) ≤ ((n1 % 10 : ℕ) : ℚ) := by positivity
  have e10 : (m : ℚ) * (2 : ℚ) ^ e * 10 ^ (places + 1) = 10 * ((m : ℚ) * (2 : ℚ) ^ e * 10 ^ places) := by
    rw [pow_succ]; ring
  rw [e10] at g
  obtain ⟨g1, g2⟩ := abs_le.mp g
  rw [abs_le]
  constructor <;> linarith

theorem f128_from_val (p : ℕ × ℤ) (hp : p ∈ Facts.fixedConfigs) (x : Flt) (r : ℤ)
    (h : F128.fromFloat p.2 p.1 x = some r) (h1 : F128.minRaw < r) (h2 : r < F128.maxRaw) :
    |value p.2 r - fval x| ≤ 19 / 20 / (p.2 : ℚ) := by
  have htab : ∀ q ∈ Facts.fixedConfigs, q.2 = (10 : ℤ) ^ q.1 := by decide
  have hm := htab p hp
  have hpos : (0 : ℚ) < ((10 : ℤ) ^ p.1 : ℤ) := by positivity
  rw [hm] at h ⊢
  generalize p.1 = D at *
  cases x with
  | nan => simp [F128.fromFloat] at h
  | inf s =>
    simp only [F128.fromFloat, Option.some.injEq] at h
    subst h
    simp only [fval, value]
    simp only [Int.cast_zero, zero_div, sub_zero, abs_zero]
    positivity
  | fin s m e =>
    simp only [F128.fromFloat, Option.some.injEq] at h
    rw [parseDigits_eq] at h
    have g := f128_from_mag D m e
    generalize F128.textDigits D m e / 10 = v at *
    -- the result was not saturated
    have hr : r = if s then -(v : ℤ) else (v : ℤ) := by
      generalize (if s = true then -(v : ℤ) else (v : ℤ)) = w at h ⊢
      unfold F128.clamp at h
      unfold F128.minRaw at h1 h
      unfold F128.maxRaw at h2 h
      split at h
      · omega
      · split at h
        · omega
        · exact h.symm
    have hrq : (r : ℚ) = sgn s * (v : ℚ) := by
      rw [hr]; unfold sgn; cases s <;> simp
    unfold value fval
    rw [hrq]
    have hne : (((10 : ℤ) ^ D : ℤ) : ℚ) ≠ 0 := ne_of_gt hpos
    have e1 : sgn s * (v : ℚ) / (((10 : ℤ) ^ D : ℤ) : ℚ) - sgn s * ((m : ℚ) * (2 : ℚ) ^ e)
        = sgn s * (((v : ℚ) - (m : ℚ) * (2 : ℚ) ^ e * 10 ^ D) / (((10 : ℤ) ^ D : ℤ) : ℚ)) := by
      field_simp; push_cast; ring
    rw [e1, abs_sgn_mul, abs_div, abs_of_pos hpos]
    exact div_le_div_of_nonneg_right g (le_of_lt hpos)

/-! ## f64.From -/

/-- `float64(Multiplier[T]())` is exact in every configuration (`10^16 = 5·10^15 · 2`) -/
theorem multF_val (m : ℤ) (hm : Mult m) :
    ∃ mm me, F64.multF m = .fin false mm me ∧ (mm : ℚ) * (2 : ℚ) ^ me = (m : ℚ) ∧ mm ≠ 0 := by
  have hm0 := hm.pos
  have hcases : ∀ p ∈ Facts.fixedConfigs, p.2 < 9007199254740992 ∨ p.2 = 10000000000000000 := by decide
  obtain ⟨p, hp, rfl⟩ := hm
  unfold F64.multF ofInt
  have hb : (p.2 == 0) = false := by simp; omega
  have hn : decide (p.2 < 0) = false := by simp; omega
  rw [hb]
  simp only [Bool.false_eq_true, if_false]
  rw [hn]
  have hcast : (p.2 : ℚ) = ((p.2.natAbs : ℕ) : ℚ) := by
    rw [Nat.cast_natAbs, abs_of_pos hm0]
  rw [hcast]
  rcases hcases p hp with h | h
  · have hu : p.2.natAbs < 2 ^ 53 := by omega
    have hu0 : 0 < p.2.natAbs := by omega
    generalize p.2.natAbs = u at *
    have hl : u.log2 < 53 := (Nat.log2_lt (by omega)).mpr hu
    refine ⟨u * 2 ^ (52 - u.log2), (u.log2 : ℤ) - 52, ofNat_exact u hu0 hu, ?_, ?_⟩
    · push_cast
      have : (2 : ℚ) ^ (52 - u.log2) = (2 : ℚ) ^ (((52 - u.log2 : ℕ) : ℕ) : ℤ) := (zpow_natCast _ _).symm
      rw [this, mul_assoc, ← zp_add]
      have : (((52 - u.log2 : ℕ) : ℕ) : ℤ) + ((u.log2 : ℤ) - 52) = 0 := by omega
      rw [this]; simp
    · have := pow_pos' (52 - u.log2)
      exact Nat.ne_of_gt (Nat.mul_pos hu0 this)
  · have hu : p.2.natAbs = 10000000000000000 := by omega
    rw [hu]
    refine ⟨5000000000000000, 1, ?_, by norm_num, by norm_num⟩
    unfold ofRat
    rw [roundRatN_exact false 10000000000000000 1 5000000000000000 1 (by norm_num)
      (by unfold Exact; norm_num) (by norm_num) (by norm_num) (by norm_num) (by norm_num)]
    exact decode_encodeNormal false _ _ (by norm_num) (by norm_num) (by norm_num) (by norm_num)

/-- truncating a rounded positive value: less than one unit from the exact value when the float has fraction bits,
    and exactly the rounded value (relative error `2^-53`) when it is an integer -/
theorem trunc_bound (m' : ℕ) (e' : ℤ) (ρ : ℚ) (hn : 2 ^ 52 ≤ m' ∨ e' = -1074)
    (habs : |(m' : ℚ) * (2 : ℚ) ^ e' - ρ| ≤ (2 : ℚ) ^ e' / 2)
    (hrel : (2 : ℚ) ^ (-1022 : ℤ) ≤ ρ → |(m' : ℚ) * (2 : ℚ) ^ e' - ρ| ≤ ρ / 2 ^ 53) :
    |(((if e' ≥ 0 then m' * 2 ^ e'.toNat else m' / 2 ^ (-e').toNat : ℕ)) : ℚ) - ρ| < 1 ∨
    |(((if e' ≥ 0 then m' * 2 ^ e'.toNat else m' / 2 ^ (-e').toNat : ℕ)) : ℚ) - ρ| ≤ ρ / 2 ^ 53 := by
  obtain ⟨a1, a2⟩ := abs_le.mp habs
  by_cases he : e' ≥ 0
  · right
    rw [if_pos he]
    obtain ⟨n, rfl⟩ := Int.eq_ofNat_of_zero_le he
    simp only [Int.toNat_natCast]
    have hm52 : 2 ^ 52 ≤ m' := by rcases hn with h | h <;> omega
    have hm52q : ((2 ^ 52 : ℕ) : ℚ) ≤ (m' : ℚ) := by exact_mod_cast hm52
    have hcast : ((m' * 2 ^ n : ℕ) : ℚ) = (m' : ℚ) * (2 : ℚ) ^ (n : ℤ) := by rw [zp_nat]; push_cast; ring
    rw [hcast]
    apply hrel
    -- ρ ≥ P - 2^n/2 ≥ 2^n·(2^52 - 1/2) ≥ 1
    have h1 : (1 : ℚ) ≤ (2 : ℚ) ^ (n : ℤ) := by
      have := zp_le (show (0 : ℤ) ≤ (n : ℤ) by omega); simpa using this
    have hlow : (2 : ℚ) ^ (-1022 : ℤ) ≤ 1 := by
      have := zp_le (show (-1022 : ℤ) ≤ 0 by norm_num); simpa using this
    have hprod : ((2 ^ 52 : ℕ) : ℚ) * (2 : ℚ) ^ (n : ℤ) ≤ (m' : ℚ) * (2 : ℚ) ^ (n : ℤ) :=
      mul_le_mul_of_nonneg_right hm52q (by linarith)
    have k : ((2 ^ 52 : ℕ) : ℚ) = 4503599627370496 := by norm_num
    rw [k] at hprod
    generalize (2 : ℚ) ^ (-1022 : ℤ) = c at *
    generalize (2 : ℚ) ^ (n : ℤ) = u at *
    nlinarith
  · left
    rw [if_neg he]
    obtain ⟨n, hn'⟩ : ∃ n : ℕ, e' = -(n : ℤ) := ⟨(-e').toNat, by omega⟩
    subst hn'
    simp only [neg_neg, Int.toNat_natCast]
    have hn1 : 1 ≤ n := by omega
    have hdm := Nat.div_add_mod m' (2 ^ n)
    have hlt := Nat.mod_lt m' (pow_pos' n)
    have hP : (0 : ℚ) < ((2 ^ n : ℕ) : ℚ) := by exact_mod_cast (pow_pos' n)
    have h2n : (2 : ℚ) ≤ ((2 ^ n : ℕ) : ℚ) := by
      have : 2 ^ 1 ≤ 2 ^ n := Nat.pow_le_pow_right (by norm_num) hn1
      exact_mod_cast this
    have hm : (m' : ℚ) = ((2 ^ n : ℕ) : ℚ) * ((m' / 2 ^ n : ℕ) : ℚ) + ((m' % 2 ^ n : ℕ) : ℚ) := by
      exact_mod_cast hdm.symm
    have hrem : ((m' % 2 ^ n : ℕ) : ℚ) ≤ ((2 ^ n : ℕ) : ℚ) - 1 := by
      have : m' % 2 ^ n + 1 ≤ 2 ^ n := hlt
      have : ((m' % 2 ^ n + 1 : ℕ) : ℚ) ≤ ((2 ^ n : ℕ) : ℚ) := by exact_mod_cast this
      push_cast at this ⊢; linarith
    have hrem0 : (0 : ℚ) ≤ ((m' % 2 ^ n : ℕ) : ℚ) := by positivity
    have hu : (2 : ℚ) ^ (-(n : ℤ)) = 1 / ((2 ^ n : ℕ) : ℚ) := by rw [zpow_neg, zp_nat]; simp
    rw [hu] at a1 a2
    generalize ((2 ^ n : ℕ) : ℚ) = T at *
    generalize ((m' / 2 ^ n : ℕ) : ℚ) = k at *
    generalize ((m' % 2 ^ n : ℕ) : ℚ) = rem at *
    rw [hm] at a1 a2
    have hT : T ≠ 0 := ne_of_gt hP
    have e1 : (T * k + rem) * (1 / T) = k + rem / T := by field_simp
    rw [e1] at a1 a2
    have r1 : rem / T ≤ 1 - 1 / T := by
      rw [div_le_iff₀ hP]; field_simp; linarith
    have r0 : 0 ≤ rem / T := by positivity
    have t1 : 1 / T ≤ 1 / 2 := by
      rw [div_le_div_iff₀ hP (by norm_num)]; linarith
    have t0 : 0 < 1 / T := by positivity
    rw [abs_lt]
    constructor <;> linarith

theorem sInt_cast (s : Bool) (k : ℕ) : ((sInt s k : ℤ) : ℚ) = sgn s * (k : ℚ) := by
  unfold sInt sgn; cases s <;> simp

/-- **the product of `From` is one rounding**: `x * float64(mult)` for a finite non-zero `x` either overflows (only
    when `|x|·mult ≥ 2^1023`) or is a finite `m'·2^e'` of the same sign within half a unit `2^e'` of the exact product —
    within `2^-53` of it (relative) in the normal range -/
theorem mul_multF_val (m : ℤ) (hm : Mult m) (s : Bool) (mx : ℕ) (ex : ℤ) (hmx : mx ≠ 0) :
    0 < (mx : ℚ) * (2 : ℚ) ^ ex * m ∧
    ((GoSem.F64.mul (.fin s mx ex) (F64.multF m) = .inf s ∧ (2 : ℚ) ^ (1023 : ℤ) ≤ (mx : ℚ) * (2 : ℚ) ^ ex * m) ∨
     ∃ m' e', GoSem.F64.mul (.fin s mx ex) (F64.multF m) = .fin s m' e' ∧ (2 ^ 52 ≤ m' ∨ e' = -1074) ∧
      |(m' : ℚ) * (2 : ℚ) ^ e' - (mx : ℚ) * (2 : ℚ) ^ ex * m| ≤ (2 : ℚ) ^ e' / 2 ∧
      ((2 : ℚ) ^ (-1022 : ℤ) ≤ (mx : ℚ) * (2 : ℚ) ^ ex * m →
        |(m' : ℚ) * (2 : ℚ) ^ e' - (mx : ℚ) * (2 : ℚ) ^ ex * m| ≤ (mx : ℚ) * (2 : ℚ) ^ ex * m / 2 ^ 53)) := by
  obtain ⟨mm, me, hmf, hmv, hmm0⟩ := multF_val m hm
  have hmq : (0 : ℚ) < (m : ℚ) := by exact_mod_cast hm.pos
  rw [hmf]
  have hprod : GoSem.F64.mul (.fin s mx ex) (.fin false mm me)
      = ofRat s (num mx ex * num mm me) (den ex * den me) := by
    simp [GoSem.F64.mul, hmx, hmm0]
  rw [hprod]
  have hD : 0 < den ex * den me := Nat.mul_pos (den_pos _) (den_pos _)
  have hratio : ((num mx ex * num mm me : ℕ) : ℚ) / ((den ex * den me : ℕ) : ℚ)
      = (mx : ℚ) * (2 : ℚ) ^ ex * m := by
    push_cast
    rw [mul_div_mul_comm, num_den_val, num_den_val, hmv]
  have hρpos : (0 : ℚ) < (mx : ℚ) * (2 : ℚ) ^ ex * m := by
    have : (0 : ℚ) < (mx : ℚ) := by exact_mod_cast (Nat.pos_of_ne_zero hmx)
    have := zp_pos ex
    positivity
  have hA : 0 < num mx ex * num mm me := by
    rcases Nat.eq_zero_or_pos (num mx ex * num mm me) with h0 | h0
    · rw [h0, Nat.cast_zero, zero_div] at hratio; linarith
    · exact h0
  refine ⟨hρpos, ?_⟩
  unfold ofRat
  rcases roundRatN_val s _ _ hA hD with ⟨hi, hbig⟩ | ⟨m', e', hf, _, _, hn, habs, hrel⟩
  · rw [hratio] at hbig; exact Or.inl ⟨hi, hbig⟩
  · rw [hratio] at habs hrel; exact Or.inr ⟨m', e', hf, hn, habs, hrel⟩

theorem mul_multF_zero (m : ℤ) (hm : Mult m) (s : Bool) (ex : ℤ) :
    GoSem.F64.mul (.fin s 0 ex) (F64.multF m) = .fin s 0 (-1074) := by
  obtain ⟨mm, me, hmf, _, _⟩ := multF_val m hm
  rw [hmf]; simp [GoSem.F64.mul]

theorem truncInt_zero (s : Bool) : truncInt (.fin s 0 (-1074)) = 0 := by
  simp only [truncInt]
  rw [if_neg (by norm_num), Nat.zero_div]
  unfold sInt; split <;> simp

theorem toI64_zero (s : Bool) : toI64 (.fin s 0 (-1074)) = .ok 0 := by
  unfold toI64; rw [truncInt_zero]; simp [isFinite]

/-- **f64.From on a float**: whenever Go defines the conversion (`.ok r`), the raw result is less than one raw unit,
    or at most `2^-53` (relative), from the exact product `x · mult` -/
theorem f64_from_val (m : ℤ) (hm : Mult m) (x : Flt) (r : ℤ) (h : F64.fromFloat m x = .ok r) :
    |(r : ℚ) - fval x * m| < 1 ∨ |(r : ℚ) - fval x * m| ≤ |fval x * m| / 2 ^ 53 := by
  unfold F64.fromFloat at h
  cases x with
  | nan => simp [GoSem.F64.mul, toI64, isFinite] at h
  | inf s =>
    obtain ⟨mm, me, hmf, _, hmm0⟩ := multF_val m hm
    rw [hmf] at h
    simp [GoSem.F64.mul, toI64, isFinite, hmm0] at h
  | fin s mx ex =>
    by_cases hmx : mx = 0
    · subst hmx
      rw [mul_multF_zero m hm, toI64_zero] at h
      injection h with h'
      left; subst h'
      simp [fval]
    · obtain ⟨hρpos, ⟨hi, _⟩ | ⟨m', e', hf, hn, habs, hrel⟩⟩ := mul_multF_val m hm s mx ex hmx
      · rw [hi] at h; simp [toI64, isFinite] at h
      · rw [hf] at h
        have hr : r = sInt s (if e' ≥ 0 then m' * 2 ^ e'.toNat else m' / 2 ^ (-e').toNat) := by
          unfold toI64 at h
          split at h
          · injection h with h'; rw [← h']; rfl
          · cases h
        have hx : fval (.fin s mx ex) * m = sgn s * ((mx : ℚ) * (2 : ℚ) ^ ex * m) := by
          unfold fval; ring
        rw [hx, hr, sInt_cast, ← mul_sub, abs_sgn_mul, abs_sgn_mul, abs_of_pos hρpos]
        exact trunc_bound m' e' _ hn habs hrel

/-- **the domain contains every product up to 2^62**: if `|x|·mult ≤ 2^62` the conversion is defined -/
theorem f64_from_defined (m : ℤ) (hm : Mult m) (s : Bool) (mx : ℕ) (ex : ℤ)
    (hb : (mx : ℚ) * (2 : ℚ) ^ ex * m ≤ 2 ^ 62) : ∃ r, F64.fromFloat m (.fin s mx ex) = .ok r := by
  unfold F64.fromFloat
  by_cases hmx : mx = 0
  · subst hmx
    rw [mul_multF_zero m hm, toI64_zero]; exact ⟨0, rfl⟩
  · obtain ⟨hρpos, ⟨_, hbig⟩ | ⟨m', e', hf, hn, habs, _⟩⟩ := mul_multF_val m hm s mx ex hmx
    · exfalso
      have : (2 : ℚ) ^ (62 : ℕ) < (2 : ℚ) ^ (1023 : ℤ) := by
        exact_mod_cast (zp_lt_iff.mpr (show (62 : ℤ) < 1023 by norm_num))
      generalize (2 : ℚ) ^ (1023 : ℤ) = c at *
      linarith
    · rw [hf]
      generalize hρ : (mx : ℚ) * (2 : ℚ) ^ ex * m = ρ at *
      obtain ⟨a1, a2⟩ := abs_le.mp habs
      -- the truncated magnitude is below 2^63
      have hk : (if e' ≥ 0 then m' * 2 ^ e'.toNat else m' / 2 ^ (-e').toNat) < 2 ^ 63 := by
        by_cases he : e' ≥ 0
        · rw [if_pos he]
          obtain ⟨n, rfl⟩ := Int.eq_ofNat_of_zero_le he
          simp only [Int.toNat_natCast]
          have hm52 : 2 ^ 52 ≤ m' := by rcases hn with h | h <;> omega
          have hm52q : (4503599627370496 : ℚ) ≤ (m' : ℚ) := by exact_mod_cast hm52
          have hcast : ((m' * 2 ^ n : ℕ) : ℚ) = (m' : ℚ) * (2 : ℚ) ^ (n : ℤ) := by rw [zp_nat]; push_cast; ring
          have hu := zp_pos (n : ℤ)
          have : ((m' * 2 ^ n : ℕ) : ℚ) < ((2 ^ 63 : ℕ) : ℚ) := by
            rw [hcast]; push_cast
            generalize (2 : ℚ) ^ (n : ℤ) = u at *
            nlinarith
          exact_mod_cast this
        · rw [if_neg he]
          obtain ⟨n, hn'⟩ : ∃ n : ℕ, e' = -(n : ℤ) := ⟨(-e').toNat, by omega⟩
          subst hn'
          simp only [neg_neg, Int.toNat_natCast]
          have hP : (0 : ℚ) < ((2 ^ n : ℕ) : ℚ) := by exact_mod_cast (pow_pos' n)
          have h1 : (1 : ℚ) ≤ ((2 ^ n : ℕ) : ℚ) := by exact_mod_cast (pow_pos' n)
          have hu : (2 : ℚ) ^ (-(n : ℤ)) = 1 / ((2 ^ n : ℕ) : ℚ) := by rw [zpow_neg, zp_nat]; simp
          rw [hu] at a1 a2
          have hle : ((m' / 2 ^ n : ℕ) : ℚ) ≤ (m' : ℚ) * (1 / ((2 ^ n : ℕ) : ℚ)) := by
            rw [mul_one_div, le_div_iff₀ hP]
            have := Nat.div_mul_le_self m' (2 ^ n)
            exact_mod_cast this
          have hinv : 1 / ((2 ^ n : ℕ) : ℚ) ≤ 1 := by rw [div_le_one hP]; exact h1
          have : ((m' / 2 ^ n : ℕ) : ℚ) < ((2 ^ 63 : ℕ) : ℚ) := by
            push_cast
            generalize 1 / ((2 ^ n : ℕ) : ℚ) = u at *
            generalize ((m' / 2 ^ n : ℕ) : ℚ) = k at *
            linarith
          exact_mod_cast this
      refine ⟨sInt s (if e' ≥ 0 then m' * 2 ^ e'.toNat else m' / 2 ^ (-e').toNat), ?_⟩
      have htr : truncInt (.fin s m' e') = sInt s (if e' ≥ 0 then m' * 2 ^ e'.toNat else m' / 2 ^ (-e').toNat) := rfl
      unfold toI64
      rw [htr]
      generalize (if e' ≥ 0 then m' * 2 ^ e'.toNat else m' / 2 ^ (-e').toNat) = k at hk ⊢
      have h1 : -(2 ^ 63 : ℤ) ≤ sInt s k := by unfold sInt; split <;> omega
      have h2 : sInt s k < (2 ^ 63 : ℤ) := by unfold sInt; split <;> omega
      simp only [isFinite, Bool.true_and, Bool.and_eq_true, decide_eq_true_eq]
      rw [if_pos ⟨h1, h2⟩]

end Fixed.FloatLemmas
