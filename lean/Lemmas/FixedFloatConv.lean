import Lemmas.FixedFloatRound
import Lemmas.FixedRat
import Lemmas.FixedBase

/-! C03 float paths, part 2: the four conversions of `Model/FixedFloat.lean` against the exact rational value.
    `fval` is the rational value of a finite binary64 datum, `value m r = r / m` the value of a raw scaled integer. -/
namespace Fixed.FloatLemmas
open GoSem.F64 Fixed.Rat

def sgn (s : Bool) : ℚ := if s then -1 else 1

/-- the rational value of a finite float (0 for NaN / ±Inf, which no theorem below evaluates) -/
def fval : Flt → ℚ
  | .fin s m e => sgn s * ((m : ℚ) * (2 : ℚ) ^ e)
  | _ => 0

theorem abs_sgn_mul (s : Bool) (x : ℚ) : |sgn s * x| = |x| := by
  unfold sgn; cases s <;> simp

theorem den_pos (e : ℤ) : 0 < den e := by
  obtain ⟨k, hk⟩ := den_pow e; rw [hk]; exact pow_pos' k

/-- `num m e / den e` is the value `m·2^e` -/
theorem num_den_val (m : ℕ) (e : ℤ) : ((num m e : ℕ) : ℚ) / ((den e : ℕ) : ℚ) = (m : ℚ) * (2 : ℚ) ^ e := by
  unfold num den
  by_cases he : e ≥ 0
  · rw [if_pos he, if_pos he]
    obtain ⟨n, rfl⟩ := Int.eq_ofNat_of_zero_le he
    simp only [Int.toNat_natCast]
    rw [zp_nat]; push_cast; ring
  · rw [if_neg he, if_neg he]
    obtain ⟨n, hn⟩ : ∃ n : ℕ, e = -(n : ℤ) := ⟨(-e).toNat, by omega⟩
    subst hn
    simp only [neg_neg, Int.toNat_natCast]
    rw [zpow_neg, zp_nat]; push_cast; rfl

/-- nearest-even rounding of a rational in the normal range: finite, relative error at most `2^-53` -/
theorem ofRat_val (neg : Bool) (A D : ℕ) (hA : 0 < A) (hD : 0 < D)
    (hlo : (2 : ℚ) ^ (-1022 : ℤ) ≤ (A : ℚ) / D) (hhi : (A : ℚ) / D < (2 : ℚ) ^ (1023 : ℤ)) :
    ∃ m e, ofRat neg A D = .fin neg m e ∧ |(m : ℚ) * (2 : ℚ) ^ e - (A : ℚ) / D| ≤ (A : ℚ) / D / 2 ^ 53 := by
  unfold ofRat
  rcases roundRatN_val neg A D hA hD with ⟨_, h⟩ | ⟨m, e, h1, _, _, _, _, h5⟩
  · exact absurd h (not_le.mpr hhi)
  · exact ⟨m, e, h1, h5 hlo⟩

/-! ## f64.As -/

/-- `f64.As[T, float64]` is finite and within `2^-53` (relative) of `raw / mult` -/
theorem f64_as_val (m a : ℤ) (hm : Mult m) (ha : fits64 a) :
    ∃ s mm e, F64.asFloat m a = .fin s mm e ∧
      |fval (F64.asFloat m a) - value m a| ≤ |value m a| / 2 ^ 53 := by
  have hm0 := hm.pos
  have hmle := hm.le
  unfold F64.asFloat ofSigned
  by_cases h0 : a = 0
  · subst h0
    refine ⟨false, 0, -1074, by simp, ?_⟩
    simp [fval, value]
  · have hb : (a == 0) = false := by simp [h0]
    rw [hb]
    simp only [Bool.false_eq_true, if_false]
    have hA : 0 < a.natAbs := by omega
    have hD : 0 < m.toNat := by omega
    have hmq : (0 : ℚ) < (m : ℚ) := by exact_mod_cast hm0
    have hDq : ((m.toNat : ℕ) : ℚ) = (m : ℚ) := by
      have : ((m.toNat : ℕ) : ℤ) = m := by omega
      exact_mod_cast this
    have hAq : ((a.natAbs : ℕ) : ℚ) = |(a : ℚ)| := by
      rw [Nat.cast_natAbs, Int.cast_abs]
    have hρ : ((a.natAbs : ℕ) : ℚ) / ((m.toNat : ℕ) : ℚ) = |value m a| := by
      rw [hAq, hDq]; unfold value; rw [abs_div, abs_of_pos hmq]
    have habs1 : (1 : ℚ) ≤ |(a : ℚ)| := by
      rw [← Int.cast_abs]; exact_mod_cast (Int.one_le_abs h0)
    have habs2 : |(a : ℚ)| ≤ 2 ^ 63 := by
      rw [← Int.cast_abs]
      have : |a| ≤ 2 ^ 63 := by unfold fits64 at ha; rw [abs_le]; omega
      exact_mod_cast this
    have hmle' : (m : ℚ) ≤ 10000000000000000 := by exact_mod_cast hmle
    have hm1 : (1 : ℚ) ≤ (m : ℚ) := by exact_mod_cast (show (1 : ℤ) ≤ m by omega)
    have hlo : (2 : ℚ) ^ (-1022 : ℤ) ≤ ((a.natAbs : ℕ) : ℚ) / ((m.toNat : ℕ) : ℚ) := by
      rw [hAq, hDq, le_div_iff₀ hmq]
      calc (2 : ℚ) ^ (-1022 : ℤ) * m ≤ (2 : ℚ) ^ (-54 : ℤ) * 10000000000000000 :=
            mul_le_mul (zp_le (by norm_num)) hmle' (le_of_lt hmq) (le_of_lt (zp_pos _))
        _ ≤ 1 := by norm_num
        _ ≤ _ := habs1
    have hhi : ((a.natAbs : ℕ) : ℚ) / ((m.toNat : ℕ) : ℚ) < (2 : ℚ) ^ (1023 : ℤ) := by
      rw [hAq, hDq, div_lt_iff₀ hmq]
      calc |(a : ℚ)| ≤ 2 ^ 63 := habs2
        _ < (2 : ℚ) ^ (1023 : ℤ) * 1 := by
            rw [mul_one]; exact_mod_cast (zp_lt_iff.mpr (show (63 : ℤ) < 1023 by norm_num))
        _ ≤ _ := mul_le_mul_of_nonneg_left hm1 (le_of_lt (zp_pos _))
    obtain ⟨mm, e, h1, h2⟩ := ofRat_val (decide (a < 0)) a.natAbs m.toNat hA hD hlo hhi
    refine ⟨_, mm, e, h1, ?_⟩
    rw [h1, hρ] at *
    -- value m a = sgn (a<0) * |value m a|
    have hv : value m a = sgn (decide (a < 0)) * |value m a| := by
      unfold sgn
      by_cases hn : a < 0
      · have : value m a < 0 := by unfold value; exact div_neg_of_neg_of_pos (by exact_mod_cast hn) hmq
        simp [hn, abs_of_neg this]
      · have : 0 ≤ value m a := by
          unfold value; exact div_nonneg (by exact_mod_cast (not_lt.mp hn)) (le_of_lt hmq)
        simp [hn, abs_of_nonneg this]
    unfold fval
    conv_lhs => rw [hv]
    rw [← mul_sub, abs_sgn_mul]
    exact h2

/-! ## facts about `|raw| / mult` shared by the `As` paths -/

theorem ratio_facts (m a : ℤ) (hm : Mult m) (h0 : a ≠ 0) :
    0 < a.natAbs ∧ 0 < m.toNat ∧ ((a.natAbs : ℕ) : ℚ) / ((m.toNat : ℕ) : ℚ) = |value m a| ∧
      (2 : ℚ) ^ (-54 : ℤ) ≤ |value m a| ∧ |value m a| ≤ |(a : ℚ)| ∧
      value m a = sgn (decide (a < 0)) * |value m a| := by
  have hm0 := hm.pos
  have hmle := hm.le
  have hmq : (0 : ℚ) < (m : ℚ) := by exact_mod_cast hm0
  have hDq : ((m.toNat : ℕ) : ℚ) = (m : ℚ) := by
    have : ((m.toNat : ℕ) : ℤ) = m := by omega
    exact_mod_cast this
  have hAq : ((a.natAbs : ℕ) : ℚ) = |(a : ℚ)| := by rw [Nat.cast_natAbs, Int.cast_abs]
  have habs1 : (1 : ℚ) ≤ |(a : ℚ)| := by
    rw [← Int.cast_abs]; exact_mod_cast (Int.one_le_abs h0)
  have hmle' : (m : ℚ) ≤ 10000000000000000 := by exact_mod_cast hmle
  have hm1 : (1 : ℚ) ≤ (m : ℚ) := by exact_mod_cast (show (1 : ℤ) ≤ m by omega)
  have hv : |value m a| = |(a : ℚ)| / m := by unfold value; rw [abs_div, abs_of_pos hmq]
  refine ⟨by omega, by omega, by rw [hAq, hDq, hv], ?_, ?_, ?_⟩
  · rw [hv, le_div_iff₀ hmq]
    calc (2 : ℚ) ^ (-54 : ℤ) * m ≤ (2 : ℚ) ^ (-54 : ℤ) * 10000000000000000 :=
          mul_le_mul_of_nonneg_left hmle' (le_of_lt (zp_pos _))
      _ ≤ 1 := by norm_num
      _ ≤ _ := habs1
  · rw [hv, div_le_iff₀ hmq]
    have : (0 : ℚ) ≤ |(a : ℚ)| := abs_nonneg _
    nlinarith
  · unfold sgn
    by_cases hn : a < 0
    · have : value m a < 0 := by unfold value; exact div_neg_of_neg_of_pos (by exact_mod_cast hn) hmq
      simp [hn, abs_of_neg this]
    · have : 0 ≤ value m a := by
        unfold value; exact div_nonneg (by exact_mod_cast (not_lt.mp hn)) (le_of_lt hmq)
      simp [hn, abs_of_nonneg this]

/-! ## f128.As -/

/-- `f128.As[T, float64]` (128-bit quotient, then the nearest float64) is finite and within `2^-52` (relative) of
    `raw / mult`; more precisely within `2^-53·(1 + 2^-128) + 2^-128` -/
theorem f128_as_val (m a : ℤ) (hm : Mult m) (ha : fits128 a) :
    ∃ s mm e, F128.asFloat m a = .fin s mm e ∧
      |fval (F128.asFloat m a) - value m a| ≤ |value m a| * (1 / 2 ^ 53 + 1 / 2 ^ 181 + 1 / 2 ^ 128) := by
  unfold F128.asFloat
  by_cases h0 : a = 0
  · subst h0
    refine ⟨false, 0, -1074, by simp [GoSem.F64.zero], ?_⟩
    simp [fval, value, GoSem.F64.zero]
  · have hb : (a == 0) = false := by simp [h0]
    rw [hb]
    simp only [Bool.false_eq_true, if_false]
    obtain ⟨hA, hD, hρ, hlo, hhi, hv⟩ := ratio_facts m a hm h0
    obtain ⟨p1, p2, p3, p4, p5⟩ := roundPrec_val 128 a.natAbs m.toNat (by norm_num) hA hD
    unfold F128.quo128
    simp only []
    generalize (roundPrec 128 a.natAbs m.toNat).1 = Q at *
    generalize (roundPrec 128 a.natAbs m.toNat).2 = E at *
    rw [hρ] at p3 p4 p5
    generalize hr : |value m a| = ρ at *
    have hρ0 : 0 < ρ := lt_of_lt_of_le (zp_pos _) hlo
    have hy := num_den_val Q E
    generalize hyy : (Q : ℚ) * (2 : ℚ) ^ E = y at *
    -- bounds on the 128-bit quotient
    have ha2 : |(a : ℚ)| ≤ 2 ^ 127 := by
      rw [← Int.cast_abs]
      have : |a| ≤ 2 ^ 127 := by unfold fits128 at ha; rw [abs_le]; omega
      exact_mod_cast this
    obtain ⟨y1, y2⟩ := abs_le.mp p3
    have k128 : ρ / 2 ^ 128 ≤ ρ / 2 := by
      apply div_le_div_of_nonneg_left (le_of_lt hρ0) (by norm_num) (by norm_num)
    have ylo : (2 : ℚ) ^ (-1022 : ℤ) ≤ y := by
      have : (2 : ℚ) ^ (-1022 : ℤ) ≤ (2 : ℚ) ^ (-54 : ℤ) / 2 := by norm_num
      linarith
    have yhi : y < (2 : ℚ) ^ (1023 : ℤ) := by
      have : (2 : ℚ) ^ (127 : ℕ) * 2 < (2 : ℚ) ^ (1023 : ℤ) := by
        have := zp_lt_iff.mpr (show (128 : ℤ) < 1023 by norm_num)
        have e : (2 : ℚ) ^ (128 : ℤ) = (2 : ℚ) ^ (127 : ℕ) * 2 := by norm_num
        rw [e] at this; exact this
      linarith
    have hypos : 0 < y := lt_of_lt_of_le (zp_pos _) ylo
    have hNpos : 0 < num Q E := by
      rcases Nat.eq_zero_or_pos (num Q E) with h | h
      · rw [h] at hy; simp at hy; linarith
      · exact h
    rw [← hy] at ylo yhi
    obtain ⟨mm, e, h1, h2⟩ := ofRat_val (decide (a < 0)) (num Q E) (den E) hNpos (den_pos E) ylo yhi
    refine ⟨_, mm, e, h1, ?_⟩
    rw [h1, hy] at *
    unfold fval
    conv_lhs => rw [hv]
    rw [← mul_sub, abs_sgn_mul]
    obtain ⟨z1, z2⟩ := abs_le.mp h2
    have e1 : y / 2 ^ 53 ≤ ρ / 2 ^ 53 + ρ / 2 ^ 181 := by
      have : y ≤ ρ + ρ / 2 ^ 128 := by linarith
      have h53 : y / 2 ^ 53 ≤ (ρ + ρ / 2 ^ 128) / 2 ^ 53 :=
        div_le_div_of_nonneg_right this (by norm_num)
      have e2 : (ρ + ρ / 2 ^ 128) / 2 ^ 53 = ρ / 2 ^ 53 + ρ / 2 ^ 181 := by
        field_simp; norm_num
      linarith
    rw [abs_le]
    constructor <;> [skip; skip] <;> nlinarith [e1, y1, y2, z1, z2]

end Fixed.FloatLemmas
