import Lemmas.Extract
/-! C19: every run of the extractors is a chain of primitive effects (`tarOne_sys`, `zipOne_sys`, `extractWith_sys`),
    and the invariants of such chains: frame, monotonicity, well-formedness, inode frame; the guard. -/
namespace Ex

/-! ### the extractors only perform primitive effects at or below the root -/

theorem tarOne_sys (root : P) (hr : GoodPath root) (fs : FS) (mask : Nat) (e : Entry) :
    Sys root fs (tarOne fs root mask e).1 := by
  unfold tarOne
  split
  · exact Sys.refl _
  simp only []
  split
  · exact Sys.refl _
  rename_i hchk
  have hp : root <+: cleanJoin root e.name :=
    lexOK_prefix root _ hr (cleanJoin_good root e.name hr) _ (by simpa using hchk)
  split
  · exact Sys.refl _
  split
  · -- regular file
    split
    · exact Sys.refl _
    · rename_i fs1 h1
      have s1 := (mkdirAll_sys root _ _ (take_dropLast_related root _ hp) fs fs1 h1).1
      split
      · exact s1
      · rename_i fs2 h2; exact s1.trans (writeFile_sys root _ hp fs1 fs2 _ _ h2)
  · -- hard link
    split
    · exact Sys.refl _
    · rename_i fs1 h1
      have s1 := (mkdirAll_sys root _ _ (take_dropLast_related root _ hp) fs fs1 h1).1
      split
      · exact s1
      rename_i htchk
      have ht : root <+: cleanJoin root e.link :=
        lexOK_prefix root _ hr (cleanJoin_good root e.link hr) _ (by simpa using htchk)
      split
      · exact s1
      split
      · exact s1
      · rename_i fs2 h2; exact s1.trans (linkAt_sys root _ _ hp ht fs1 fs2 h2)
  · -- symbolic link
    split
    · exact Sys.refl _
    · rename_i fs1 h1
      have s1 := (mkdirAll_sys root _ _ (take_dropLast_related root _ hp) fs fs1 h1).1
      split
      · exact s1
      · rename_i fs2 h2; exact s1.trans (symlinkAt_sys root _ hp fs1 fs2 _ h2)
  · -- directory
    split
    · exact Sys.refl _
    · rename_i fs1 h1
      exact (mkdirAll_sys root _ _ (take_related root _ hp) fs fs1 h1).1
  · exact Sys.refl _

theorem zipOne_sys (root : P) (hr : GoodPath root) (fs : FS) (mask : Nat) (e : Entry) :
    Sys root fs (zipOne fs root mask e).1 := by
  unfold zipOne
  simp only []
  split
  · exact Sys.refl _
  rename_i hchk
  have hp : root <+: cleanJoin root e.name :=
    lexOK_prefix root _ hr (cleanJoin_good root e.name hr) _ (by simpa using hchk)
  split
  · exact Sys.refl _
  split
  · -- symbolic link
    split
    · exact Sys.refl _
    split
    · exact Sys.refl _
    · rename_i fs1 h1
      have s1 := (mkdirAll_sys root _ _ (take_dropLast_related root _ hp) fs fs1 h1).1
      split
      · exact s1
      · rename_i fs2 h2; exact s1.trans (symlinkAt_sys root _ hp fs1 fs2 _ h2)
  · -- directory
    split
    · exact Sys.refl _
    · rename_i fs1 h1
      exact (mkdirAll_sys root _ _ (take_related root _ hp) fs fs1 h1).1
  · -- the entry cannot be opened
    exact Sys.refl _
  · -- file
    split
    · exact Sys.refl _
    · rename_i fs1 h1
      have s1 := (mkdirAll_sys root _ _ (take_dropLast_related root _ hp) fs fs1 h1).1
      split
      · exact s1
      · rename_i fs2 h2; exact s1.trans (writeFile_sys root _ hp fs1 fs2 _ _ h2)

theorem extractWith_sys (root : P) (one : FS → Entry → FS × Bool) (h1 : ∀ fs e, Sys root fs (one fs e).1)
    (fs : FS) (es : List Entry) : Sys root fs (extractWith one fs es).1 := by
  induction es generalizing fs with
  | nil => exact Sys.refl _
  | cons e es ih =>
    unfold extractWith
    have := h1 fs e
    split
    · rename_i fs' h; rw [h] at this; exact this
    · rename_i fs' h; rw [h] at this; exact this.trans (ih fs')

/-! ### frame and monotonicity of the node table -/

theorem Eff.frame {root : P} {fs fs' : FS} (h : Eff root fs fs') (q : P) (hq : ¬ Related root q) :
    fs'.get q = fs.get q := by
  cases h with
  | mkdir q' m _ _ hrel => exact get_put_other _ _ _ _ (by intro e; subst e; exact hq hrel)
  | create q' data mode hp _ _ => rw [get_put_other _ _ _ _ (by intro e; subst e; exact hq (Or.inr hp))]; rfl
  | overwrite q' ino data _ _ => rfl
  | symlink q' t hp _ _ => exact get_put_other _ _ _ _ (by intro e; subst e; exact hq (Or.inr hp))
  | hardlink q' tgt ino hp _ _ _ _ => exact get_put_other _ _ _ _ (by intro e; subst e; exact hq (Or.inr hp))

theorem Sys.frame {root : P} {fs fs' : FS} (h : Sys root fs fs') (q : P) (hq : ¬ Related root q) :
    fs'.get q = fs.get q := by
  induction h with
  | refl => rfl
  | step e _ ih => rw [ih, e.frame q hq]

/-- nodes are never replaced or removed -/
theorem Eff.mono {root : P} {fs fs' : FS} (h : Eff root fs fs') (q : P) (n : Nd) (hg : fs.get q = some n) :
    fs'.get q = some n := by
  have ne : ∀ q', fs.get q' = none → q ≠ q' := fun q' hn e => by rw [e, hn] at hg; cases hg
  cases h with
  | mkdir q' m hn _ _ => rw [get_put_other _ _ _ _ (ne q' hn)]; exact hg
  | create q' data mode _ hn _ => rw [get_put_other _ _ _ _ (ne q' hn)]; exact hg
  | overwrite q' ino data _ _ => exact hg
  | symlink q' t _ hn _ => rw [get_put_other _ _ _ _ (ne q' hn)]; exact hg
  | hardlink q' tgt ino _ _ _ hn _ => rw [get_put_other _ _ _ _ (ne q' hn)]; exact hg

theorem Sys.mono {root : P} {fs fs' : FS} (h : Sys root fs fs') (q : P) (n : Nd) (hg : fs.get q = some n) :
    fs'.get q = some n := by
  induction h with
  | refl => exact hg
  | step e _ ih => exact ih (e.mono q n hg)

/-! ### well-formedness: every node's parent is a directory -/

def WF (fs : FS) : Prop := ∀ p, (fs.get p).isSome → 2 ≤ p.length → ∃ m, fs.get p.dropLast = some (.dir m)

theorem parentIsDir_spec (fs : FS) (p : P) (h : parentIsDir fs p = true) :
    2 ≤ p.length → ∃ m, fs.get p.dropLast = some (.dir m) := by
  intro h2
  unfold parentIsDir at h
  split at h
  · omega
  · split at h
    · rename_i m hm; exact ⟨m, hm⟩
    · cases h

theorem put_wf (fs : FS) (p : P) (n : Nd) (h : WF fs) (hnone : fs.get p = none)
    (hpar : parentIsDir fs p = true) : WF (fs.put p n) := by
  intro q hq hl
  have hdl : q.dropLast ≠ p := by
    intro e
    by_cases hqp : q = p
    · subst hqp; have := congrArg List.length e; simp at this; omega
    · rw [get_put_other _ _ _ _ hqp] at hq
      obtain ⟨m, hm⟩ := h q hq hl; rw [e, hnone] at hm; cases hm
  rw [get_put_other _ _ _ _ hdl]
  by_cases hqp : q = p
  · rw [hqp]; exact parentIsDir_spec fs p hpar (hqp ▸ hl)
  · rw [get_put_other _ _ _ _ hqp] at hq; exact h q hq hl

theorem Eff.wf {root : P} {fs fs' : FS} (h : Eff root fs fs') (hw : WF fs) : WF fs' := by
  cases h with
  | mkdir q' m hn hpar _ => exact put_wf _ _ _ hw hn hpar
  | create q' data mode _ hn hpar => exact put_wf _ _ _ (fun p hp hl => hw p hp hl) hn hpar
  | overwrite q' ino data _ _ => exact fun p hp hl => hw p hp hl
  | symlink q' t _ hn hpar => exact put_wf _ _ _ hw hn hpar
  | hardlink q' tgt ino _ _ _ hn hpar => exact put_wf _ _ _ hw hn hpar

theorem Sys.wf {root : P} {fs fs' : FS} (h : Sys root fs fs') (hw : WF fs) : WF fs' := by
  induction h with
  | refl => exact hw
  | step e _ ih => exact ih (e.wf hw)

/-! ### inode frame: contents and modes of files not linked below the root are never touched, and no inode from
    outside becomes linked below the root -/

def RefsBelow (root : P) (fs : FS) (ino : Nat) : Prop := ∃ p, root <+: p ∧ fs.get p = some (.file ino)

structure Fr (root : P) (fs fs' : FS) : Prop where
  refs : ∀ ino, RefsBelow root fs' ino → RefsBelow root fs ino ∨ fs.inodes.size ≤ ino
  keep : ∀ ino, ino < fs.inodes.size → ¬ RefsBelow root fs ino → fs'.inodes[ino]? = fs.inodes[ino]?
  size : fs.inodes.size ≤ fs'.inodes.size

theorem Fr.rfl' (root : P) (fs : FS) : Fr root fs fs := ⟨fun _ h => Or.inl h, fun _ _ _ => rfl, Nat.le_refl _⟩

theorem Fr.trans {root : P} {a b c : FS} (h1 : Fr root a b) (h2 : Fr root b c) : Fr root a c := by
  refine ⟨?_, ?_, Nat.le_trans h1.size h2.size⟩
  · intro ino h
    rcases h2.refs ino h with h | h
    · exact h1.refs ino h
    · exact Or.inr (Nat.le_trans h1.size h)
  · intro ino hlt hn
    have hb : ¬ RefsBelow root b ino := by
      intro hb
      rcases h1.refs ino hb with h | h
      · exact hn h
      · omega
    rw [h2.keep ino (Nat.lt_of_lt_of_le hlt h1.size) hb, h1.keep ino hlt hn]

theorem setData_size (a : Array Inode) (ino : Nat) (d : List Nat) : (setData a ino d).size = a.size := by
  unfold setData; split <;> simp

theorem setData_other (a : Array Inode) (ino i : Nat) (d : List Nat) (h : i ≠ ino) : (setData a ino d)[i]? = a[i]? := by
  unfold setData; split
  · rw [Array.getElem?_setIfInBounds_ne (fun e => h e.symm)]
  · rfl

theorem refs_put_nonfile (root : P) (fs : FS) (q : P) (n : Nd) (hn : ∀ i, n ≠ .file i) (ino : Nat)
    (h : RefsBelow root (fs.put q n) ino) : RefsBelow root fs ino := by
  obtain ⟨p, hp, hg⟩ := h
  by_cases e : p = q
  · rw [e, get_put_same] at hg; cases hg; exact absurd rfl (hn ino)
  · rw [get_put_other _ _ _ _ e] at hg; exact ⟨p, hp, hg⟩

theorem Eff.fr {root : P} {fs fs' : FS} (h : Eff root fs fs') : Fr root fs fs' := by
  cases h with
  | mkdir q m _ _ _ =>
    exact ⟨fun ino h => Or.inl (refs_put_nonfile root fs q _ (fun i e => by cases e) ino h), fun _ _ _ => rfl, Nat.le_refl _⟩
  | symlink q t _ _ _ =>
    exact ⟨fun ino h => Or.inl (refs_put_nonfile root fs q _ (fun i e => by cases e) ino h), fun _ _ _ => rfl, Nat.le_refl _⟩
  | create q data mode hq hn _ =>
    refine ⟨?_, ?_, ?_⟩
    · rintro ino ⟨p, hp, hg⟩
      by_cases e : p = q
      · rw [e, get_put_same] at hg; cases hg; exact Or.inr (Nat.le_refl _)
      · rw [get_put_other _ _ _ _ e] at hg; exact Or.inl ⟨p, hp, hg⟩
    · intro ino hlt _
      show (fs.inodes.push _)[ino]? = _
      rw [Array.getElem?_push]; simp; omega
    · show fs.inodes.size ≤ (fs.inodes.push _).size
      simp
  | overwrite q ino data hq hg =>
    refine ⟨fun i h => Or.inl h, ?_, ?_⟩
    · intro i _ hn
      show (setData fs.inodes ino data)[i]? = _
      exact setData_other _ _ _ _ (fun e => hn (e ▸ ⟨q, hq, hg⟩))
    · show fs.inodes.size ≤ (setData fs.inodes ino data).size
      rw [setData_size]; exact Nat.le_refl _
  | hardlink q tgt ino hq ht hg hn _ =>
    refine ⟨?_, fun _ _ _ => rfl, Nat.le_refl _⟩
    rintro i ⟨p, hp, hgp⟩
    by_cases e : p = q
    · rw [e, get_put_same] at hgp; cases hgp; exact Or.inl ⟨tgt, ht, hg⟩
    · rw [get_put_other _ _ _ _ e] at hgp; exact Or.inl ⟨p, hp, hgp⟩

theorem Sys.fr {root : P} {fs fs' : FS} (h : Sys root fs fs') : Fr root fs fs' := by
  induction h with
  | refl => exact Fr.rfl' _ _
  | step e _ ih => exact e.fr.trans ih

/-! ### what the guard establishes -/

theorem none_below (fs : FS) (hw : WF fs) (p : P) (i : Nat) (hi : 1 ≤ i) (hnone : fs.get (p.take i) = none) :
    ∀ j, i ≤ j → j ≤ p.length → fs.get (p.take j) = none := by
  intro j hij hj
  induction j with
  | zero => omega
  | succ k ih =>
    by_cases hk : i = k + 1
    · rw [← hk]; exact hnone
    · have hprev := ih (by omega) (by omega)
      cases hg : fs.get (p.take (k+1)) with
      | none => rfl
      | some n =>
        obtain ⟨m, hm⟩ := hw (p.take (k+1)) (by simp [hg]) (by simp [List.length_take]; omega)
        rw [take_dropLast p (k+1) (by omega) hj] at hm
        simp at hm; rw [hprev] at hm; cases hm

theorem noSymFrom_spec (fs : FS) (hw : WF fs) (p : P) (fuel i : Nat) (hi : 1 ≤ i) (hf : p.length + 2 ≤ fuel + i)
    (h : noSymFrom fs p fuel i = true) :
    ∀ j, i ≤ j → j ≤ p.length → ∀ t, fs.get (p.take j) ≠ some (.symlink t) := by
  induction fuel generalizing i with
  | zero => intro j h1 h2; omega
  | succ f ih =>
    simp only [noSymFrom] at h
    split at h
    · intro j h1 h2; omega
    · intro j h1 h2 t
      cases hg : fs.get (p.take i) with
      | none => rw [none_below fs hw p i hi hg j h1 h2]; simp
      | some n =>
        rw [hg] at h
        cases n with
        | symlink t' => simp at h
        | dir m =>
          by_cases hji : j = i
          · rw [hji, hg]; simp
          · exact ih (i+1) (by omega) (by omega) h j (by omega) h2 t
        | file ino =>
          simp at h
          have hji : j = i := by omega
          rw [hji, hg]; simp

end Ex
