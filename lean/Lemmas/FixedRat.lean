import Mathlib.Data.Rat.Floor
import Mathlib.Tactic.Linarith
import Mathlib.Tactic.Ring
import Mathlib.Tactic.Positivity
import Lemmas.FixedSpec

/-! C03: rational restatement.  A raw scaled integer `r` denotes the rational `r / m` (`m = 10^D`).  `Int.tdiv` on the
    raw integers is truncation toward zero of the exact rational result to D decimal places. -/
namespace Fixed.Rat
open Fixed.Spec

/-- the value denoted by a raw scaled integer -/
def value (m r : ℤ) : ℚ := (r : ℚ) / (m : ℚ)

/-- truncation of a rational toward zero -/
def truncQ (x : ℚ) : ℤ := if 0 ≤ x then ⌊x⌋ else ⌈x⌉

/-- truncation toward zero to D places (`m = 10^D`), as a raw scaled integer -/
def truncTo (m : ℤ) (x : ℚ) : ℤ := truncQ (x * m)

/-- nearest integer, halves away from zero -/
def roundQ (x : ℚ) : ℤ := if 0 ≤ x then ⌊x + 1 / 2⌋ else ⌈x - 1 / 2⌉

theorem truncQ_div_pos (n d : ℤ) (hd : 0 < d) : truncQ ((n : ℚ) / d) = n.tdiv d := by
  obtain ⟨h1, h2, h3, h4, h5⟩ := tdivmod_char n d hd
  have hdq : (0 : ℚ) < d := by exact_mod_cast hd
  have hn : (n : ℚ) = (n.tdiv d : ℤ) * d + (n.tmod d : ℤ) := by exact_mod_cast h1
  have h2q : -(d : ℚ) < (n.tmod d : ℤ) := by exact_mod_cast h2
  have h3q : ((n.tmod d : ℤ) : ℚ) < d := by exact_mod_cast h3
  unfold truncQ
  by_cases hx : 0 ≤ n
  · have hxq : (0 : ℚ) ≤ (n : ℚ) / d := div_nonneg (by exact_mod_cast hx) (le_of_lt hdq)
    have hr : (0 : ℚ) ≤ (n.tmod d : ℤ) := by exact_mod_cast (h4 hx).1
    rw [if_pos hxq, Int.floor_eq_iff]
    constructor
    · rw [le_div_iff₀ hdq]; linarith
    · rw [div_lt_iff₀ hdq]; linarith
  · have hx' : n < 0 := not_le.mp hx
    have hxq : ¬ (0 : ℚ) ≤ (n : ℚ) / d := by
      rw [not_le]; exact div_neg_of_neg_of_pos (by exact_mod_cast hx') hdq
    have hr : ((n.tmod d : ℤ) : ℚ) ≤ 0 := by exact_mod_cast (h5 (le_of_lt hx')).1
    rw [if_neg hxq, Int.ceil_eq_iff]
    constructor
    · rw [lt_div_iff₀ hdq]; linarith
    · rw [div_le_iff₀ hdq]; linarith

/-- truncation toward zero of an integer quotient is `Int.tdiv`, for every sign of the divisor -/
theorem truncQ_div (n d : ℤ) (hd : d ≠ 0) : truncQ ((n : ℚ) / d) = n.tdiv d := by
  by_cases h : 0 < d
  · exact truncQ_div_pos n d h
  · have hneg : 0 < -d := by omega
    have := truncQ_div_pos (-n) (-d) hneg
    rw [Int.neg_tdiv_neg] at this
    rw [← this]; congr 1; push_cast; rw [neg_div_neg_eq]

/-- **Mul**: the raw result `(a·b) tdiv m` denotes the exact product of the values truncated toward zero to D places -/
theorem mul_value (m a b : ℤ) (hm : 0 < m) : fxMul m a b = truncTo m (value m a * value m b) := by
  have hmq : (m : ℚ) ≠ 0 := by exact_mod_cast (ne_of_gt hm)
  unfold fxMul truncTo value
  rw [← truncQ_div (a * b) m (ne_of_gt hm)]
  congr 1; push_cast; field_simp

/-- **Div**: the raw result `(a·m) tdiv b` denotes the exact quotient of the values truncated toward zero to D places -/
theorem div_value (m a b : ℤ) (hm : 0 < m) (hb : b ≠ 0) : fxDiv m a b = truncTo m (value m a / value m b) := by
  have hmq : (m : ℚ) ≠ 0 := by exact_mod_cast (ne_of_gt hm)
  have hbq : (b : ℚ) ≠ 0 := by exact_mod_cast hb
  unfold fxDiv truncTo value
  rw [← truncQ_div (a * m) b hb]
  congr 1; push_cast; field_simp

/-- **Trunc**: the value of `Trunc a` is the integer part (toward zero) of the value of `a` -/
theorem trunc_value (m a : ℤ) (hm : 0 < m) : value m (fxTrunc m a) = truncQ (value m a) := by
  have hmq : (m : ℚ) ≠ 0 := by exact_mod_cast (ne_of_gt hm)
  unfold value fxTrunc
  rw [truncQ_div a m (ne_of_gt hm)]
  push_cast; field_simp

/-- **Mod**: the value of the truncated remainder is `x − y·trunc(x/y)` on the values -/
theorem mod_value (m a b : ℤ) (hm : 0 < m) (hb : b ≠ 0) :
    value m (a.tmod b) = value m a - value m b * truncQ (value m a / value m b) := by
  have hmq : (m : ℚ) ≠ 0 := by exact_mod_cast (ne_of_gt hm)
  have hbq : (b : ℚ) ≠ 0 := by exact_mod_cast hb
  have e : value m a / value m b = (a : ℚ) / b := by unfold value; field_simp
  rw [e, truncQ_div a b hb]
  have h1 : ((a.tmod b : ℤ) : ℚ) = a - b * (a.tdiv b : ℤ) := by
    have := Int.tmod_add_tdiv_mul a b
    have : a.tmod b = a - b * a.tdiv b := by
      have e2 : a.tdiv b * b = b * a.tdiv b := Int.mul_comm _ _
      omega
    rw [this]; push_cast; ring
  unfold value
  rw [h1]; field_simp

/-- **Round**: the value of `Round a` is the nearest integer to the value of `a`, halves away from zero -/
theorem round_value (m a : ℤ) (hm : 0 < m) (hev : m = 2 * m.tdiv 2) :
    value m (fxRound m a) = roundQ (value m a) := by
  obtain ⟨h1, h2, h3, h4, h5⟩ := tdivmod_char a m hm
  have hmq : (0 : ℚ) < m := by exact_mod_cast hm
  have hmne : (m : ℚ) ≠ 0 := ne_of_gt hmq
  have hevq : (m : ℚ) = 2 * (m.tdiv 2 : ℤ) := by exact_mod_cast hev
  have haq : (a : ℚ) = (a.tdiv m : ℤ) * m + (a.tmod m : ℤ) := by exact_mod_cast h1
  have h2q : -(m : ℚ) < (a.tmod m : ℤ) := by exact_mod_cast h2
  have h3q : ((a.tmod m : ℤ) : ℚ) < m := by exact_mod_cast h3
  have hx : value m a * m = a := by unfold value; field_simp
  have key : ∀ k z : ℤ, fxRound m a = k * m → z = k → value m (fxRound m a) = z := by
    intro k z e1 e2; rw [e2]; unfold value; rw [e1]; push_cast; field_simp
  have hp : ∀ c : ℚ, (value m a + c) * m = a + c * m := by intro c; rw [add_mul, hx]
  have e : a - a.tdiv m * m = a.tmod m := by linarith
  have hpos : 0 < m.tdiv 2 := by omega
  unfold roundQ
  by_cases hx0 : 0 ≤ a
  · have hxq : (0 : ℚ) ≤ value m a := div_nonneg (by exact_mod_cast hx0) (le_of_lt hmq)
    have hr : (0 : ℚ) ≤ (a.tmod m : ℤ) := by exact_mod_cast (h4 hx0).1
    rw [if_pos hxq]
    by_cases c1 : a.tmod m ≥ m.tdiv 2
    · have c1q : ((m.tdiv 2 : ℤ) : ℚ) ≤ (a.tmod m : ℤ) := by exact_mod_cast c1
      apply key (a.tdiv m + 1)
      · unfold fxRound fxTrunc; rw [e, if_pos c1]; ring
      · rw [Int.floor_eq_iff]
        constructor
        · apply le_of_mul_le_mul_right _ hmq; rw [hp]; push_cast; linarith
        · apply lt_of_mul_lt_mul_right _ (le_of_lt hmq); rw [hp]; push_cast; linarith
    · have c1q : ((a.tmod m : ℤ) : ℚ) < (m.tdiv 2 : ℤ) := by exact_mod_cast not_le.mp c1
      have c2 : ¬ a.tmod m ≤ -(m.tdiv 2) := by have := (h4 hx0).1; omega
      apply key (a.tdiv m)
      · unfold fxRound fxTrunc; rw [e, if_neg c1, if_neg c2]
      · rw [Int.floor_eq_iff]
        constructor
        · apply le_of_mul_le_mul_right _ hmq; rw [hp]; linarith
        · apply lt_of_mul_lt_mul_right _ (le_of_lt hmq); rw [hp]; linarith
  · have hx' : a < 0 := not_le.mp hx0
    have hxq : ¬ (0 : ℚ) ≤ value m a := by
      rw [not_le]; exact div_neg_of_neg_of_pos (by exact_mod_cast hx') hmq
    have hr : ((a.tmod m : ℤ) : ℚ) ≤ 0 := by exact_mod_cast (h5 (le_of_lt hx')).1
    have c1 : ¬ a.tmod m ≥ m.tdiv 2 := by have := (h5 (le_of_lt hx')).1; omega
    rw [if_neg hxq]
    have hp' : ∀ c : ℚ, (value m a - c) * m = a - c * m := by intro c; rw [sub_mul, hx]
    by_cases c2 : a.tmod m ≤ -(m.tdiv 2)
    · have c2q : ((a.tmod m : ℤ) : ℚ) ≤ -((m.tdiv 2 : ℤ) : ℚ) := by exact_mod_cast c2
      apply key (a.tdiv m - 1)
      · unfold fxRound fxTrunc; rw [e, if_neg c1, if_pos c2]; ring
      · rw [Int.ceil_eq_iff]
        constructor
        · apply lt_of_mul_lt_mul_right _ (le_of_lt hmq); rw [hp']; push_cast; linarith
        · apply le_of_mul_le_mul_right _ hmq; rw [hp']; push_cast; linarith
    · have c2q : -((m.tdiv 2 : ℤ) : ℚ) < (a.tmod m : ℤ) := by exact_mod_cast not_le.mp c2
      apply key (a.tdiv m)
      · unfold fxRound fxTrunc; rw [e, if_neg c1, if_neg c2]
      · rw [Int.ceil_eq_iff]
        constructor
        · apply lt_of_mul_lt_mul_right _ (le_of_lt hmq); rw [hp']; linarith
        · apply le_of_mul_le_mul_right _ hmq; rw [hp']; linarith

/-- **Ceil**: the value of `Ceil a` is the least integer ≥ the value of `a` -/
theorem ceil_value (m a : ℤ) (hm : 0 < m) : value m (fxCeil m a) = ⌈value m a⌉ := by
  obtain ⟨⟨k, hk⟩, h1, h2⟩ := ceil_spec m a hm
  have hmq : (0 : ℚ) < m := by exact_mod_cast hm
  have hmne : (m : ℚ) ≠ 0 := ne_of_gt hmq
  rw [hk] at h1 h2
  have h1q : (a : ℚ) ≤ k * m := by exact_mod_cast h1
  have h2q : (k : ℚ) * m < a + m := by exact_mod_cast h2
  have : ⌈value m a⌉ = k := by
    rw [Int.ceil_eq_iff]; unfold value
    constructor
    · rw [lt_div_iff₀ hmq]; linarith
    · rw [div_le_iff₀ hmq]; exact h1q
  rw [this, hk]; unfold value; push_cast; field_simp

/-- the order of the values is the order of the raw integers -/
theorem value_lt_iff (m a b : ℤ) (hm : 0 < m) : value m a < value m b ↔ a < b := by
  have hmq : (0 : ℚ) < m := by exact_mod_cast hm
  unfold value
  rw [div_lt_div_iff_of_pos_right hmq]; exact_mod_cast Iff.rfl

theorem value_eq_iff (m a b : ℤ) (hm : 0 < m) : value m a = value m b ↔ a = b := by
  have hmq : (m : ℚ) ≠ 0 := by exact_mod_cast (ne_of_gt hm)
  unfold value
  rw [div_left_inj' hmq]; exact_mod_cast Iff.rfl

end Fixed.Rat
