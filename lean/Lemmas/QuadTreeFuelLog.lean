import Lemmas.QuadTreeFuel
/-! Logarithmic depth bound for integer quadtrees: the measure `W + H` of `Lemmas/QuadTreeFuel.lean` proves termination
    but is useless as a fuel bound for the histories that are run (squares of side 2^60).  Here the same development is
    repeated with the measure "1 + number of halvings (rounding up) that take the longer side to 1": every non-empty child
    of a splitting node — the `hw × hw` child 0 included — has a longer side of at most half (rounded up) the longer side
    of its parent, so a node whose sides are at most `2^k` is at most `k + 1` levels deep, fuel `k + 2` never runs out
    and the result does not depend on the fuel beyond that.  Definitions live in `QT.LogFuel` and shadow the `W + H`
    versions of the same names.  Core Lean only. -/
namespace QT
namespace LogFuel
open Geom

/-- number of halvings (rounding down) that take `n` to `0`: the bit length -/
def lg : Nat → Nat
  | 0 => 0
  | n + 1 => lg ((n + 1) / 2) + 1
decreasing_by omega

theorem lg_succ (n : Nat) (h : 1 ≤ n) : lg n = lg (n / 2) + 1 := by
  cases n with
  | zero => omega
  | succ k => rw [lg]

theorem lg_mono : ∀ (b a : Nat), a ≤ b → lg a ≤ lg b := by
  intro b
  induction b using Nat.strongRecOn with
  | _ b ih =>
    intro a h
    cases a with
    | zero => simp [lg]
    | succ a =>
      rw [lg_succ (a + 1) (by omega), lg_succ b (by omega)]
      have := ih (b / 2) (by omega) ((a + 1) / 2) (by omega)
      omega

theorem lg_le_of_lt_pow (k n : Nat) (h : n < 2 ^ k) : lg n ≤ k := by
  induction k generalizing n with
  | zero => have : n = 0 := by simpa using h
            subst this; simp [lg]
  | succ k ih =>
    cases n with
    | zero => simp [lg]
    | succ n =>
      rw [lg_succ (n + 1) (by omega)]
      have : (n + 1) / 2 < 2 ^ k := by rw [Nat.pow_succ] at h; omega
      have := ih _ this
      omega

/-- `1 +` the number of ceil-halvings that take the longer side to 1 -/
def meas (r : RI) : Nat := lg ((max r.w r.h).toNat - 1) + 1

/-- what a split node knows about one child: an empty child is an untouched leaf, a non-empty child is smaller -/
def CO (r : RI) (c : Node RI) : Prop :=
  (c.rect.empty = true → c.depth = 0) ∧ (c.rect.empty = false → meas c.rect < meas r)

def Good : Node RI → Prop
  | .leaf _ _ => True
  | .split r _ c0 c1 c2 c3 =>
    r.empty = false ∧ (Good c0 ∧ CO r c0) ∧ (Good c1 ∧ CO r c1) ∧ (Good c2 ∧ CO r c2) ∧ (Good c3 ∧ CO r c3)

/-- a good node is no deeper than the logarithmic measure of its rectangle -/
theorem depth_le_meas (n : Node RI) (h : Good n) (hr : n.rect.empty = false) : n.depth ≤ meas n.rect := by
  induction n with
  | leaf r cs => simp [Node.depth]
  | split r cs c0 c1 c2 c3 ih0 ih1 ih2 ih3 =>
    obtain ⟨hne, ⟨g0, e0, m0⟩, ⟨g1, e1, m1⟩, ⟨g2, e2, m2⟩, ⟨g3, e3, m3⟩⟩ := h
    have hp := nonempty_pos r hne
    have hm : 1 ≤ meas r := by unfold meas; omega
    have k : ∀ c : Node RI, Good c → (c.rect.empty = true → c.depth = 0) → (c.rect.empty = false → meas c.rect < meas r) →
        (Good c → c.rect.empty = false → c.depth ≤ meas c.rect) → c.depth + 1 ≤ meas r := by
      intro c g e m ih
      cases hc : c.rect.empty with
      | true => have := e hc; omega
      | false => have := m hc; have := ih g hc; omega
    have k0 := k c0 g0 e0 m0 ih0
    have k1 := k c1 g1 e1 m1 ih1
    have k2 := k c2 g2 e2 m2 ih2
    have k3 := k c3 g3 e3 m3 ih3
    simp only [Node.depth, Node.rect]
    omega

/-- the measure step: the longer side of a non-empty child is at most half (rounded up) the longer side of its parent -/
theorem quadrants_meas (r : RI) (hr : r.empty = false) (hs : canSplit halfInt r = true) :
    let q := quadrants halfInt r
    (q.1.empty = false → meas q.1 < meas r) ∧ (q.2.1.empty = false → meas q.2.1 < meas r) ∧
    (q.2.2.1.empty = false → meas q.2.2.1 < meas r) ∧ (q.2.2.2.empty = false → meas q.2.2.2 < meas r) := by
  have hw := nonempty_pos r hr
  have e1 : halfInt r.w = r.w / 2 := by
    unfold halfInt; exact Int.tdiv_eq_ediv_of_nonneg (by omega)
  have e2 : halfInt r.h = r.h / 2 := by
    unfold halfInt; exact Int.tdiv_eq_ediv_of_nonneg (by omega)
  simp only [canSplit, e1, e2, Bool.not_eq_true', Bool.and_eq_false_iff, decide_eq_false_iff_not, Int.not_le] at hs
  have hm : 1 ≤ (max r.w r.h).toNat - 1 := by omega
  have key : ∀ c : RI, 0 < c.w → 0 < c.h → (max c.w c.h).toNat - 1 ≤ ((max r.w r.h).toNat - 1) / 2 → meas c < meas r := by
    intro c _ _ h
    unfold meas
    rw [lg_succ _ hm]
    have := lg_mono _ _ h
    omega
  simp only [quadrants, e1, e2, Rect.empty, Bool.or_eq_false_iff, decide_eq_false_iff_not, Int.not_le]
  refine ⟨fun h => key _ h.1 h.2 ?_, fun h => key _ h.1 h.2 ?_, fun h => key _ h.1 h.2 ?_, fun h => key _ h.1 h.2 ?_⟩ <;>
    (simp only []; omega)

/-- what we need to know about the recursive inserter -/
def GoodIns (ins : Node RI → Item RI → Node RI) : Prop :=
  ∀ c it, Good c → c.rect.empty = false → Good (ins c it) ∧ (ins c it).rect = c.rect

theorem addHere_good : GoodIns Node.addHere := by
  intro c it hc _
  cases c with
  | leaf r cs => exact ⟨trivial, rfl⟩
  | split r cs c0 c1 c2 c3 => exact ⟨hc, rfl⟩

theorem child_step (ins : Node RI → Item RI → Node RI) (hins : GoodIns ins) (r : RI) (c : Node RI) (it : Item RI)
    (hg : Good c ∧ CO r c) (hc : c.rect.contains it.rect = true) : Good (ins c it) ∧ CO r (ins c it) := by
  have hne := contains_nonempty _ _ hc
  obtain ⟨a, b⟩ := hins c it hg.1 hne
  refine ⟨a, ?_, ?_⟩
  · rw [b, hne]; intro h; cases h
  · rw [b]; exact hg.2.2

theorem route_good (ins : Node RI → Item RI → Node RI) (hins : GoodIns ins) : GoodIns (Node.route ins) := by
  intro n it hn _
  cases n with
  | leaf r cs => exact ⟨trivial, rfl⟩
  | split r cs c0 c1 c2 c3 =>
    obtain ⟨hne, h0, h1, h2, h3⟩ := hn
    simp only [Node.route]
    split
    · rename_i hc; exact ⟨⟨hne, child_step ins hins r c0 it h0 hc, h1, h2, h3⟩, rfl⟩
    · split
      · rename_i hc; exact ⟨⟨hne, h0, child_step ins hins r c1 it h1 hc, h2, h3⟩, rfl⟩
      · split
        · rename_i hc; exact ⟨⟨hne, h0, h1, child_step ins hins r c2 it h2 hc, h3⟩, rfl⟩
        · split
          · rename_i hc; exact ⟨⟨hne, h0, h1, h2, child_step ins hins r c3 it h3 hc⟩, rfl⟩
          · exact ⟨⟨hne, h0, h1, h2, h3⟩, rfl⟩

theorem fold_good (g : Node RI → Item RI → Node RI) (hg : GoodIns g) (cs : List (Item RI)) (acc : Node RI)
    (hacc : Good acc) (hr : acc.rect.empty = false) :
    Good (cs.foldl g acc) ∧ (cs.foldl g acc).rect = acc.rect := by
  induction cs generalizing acc with
  | nil => exact ⟨hacc, rfl⟩
  | cons c cs ih =>
    obtain ⟨a, b⟩ := hg acc c hacc hr
    obtain ⟨a', b'⟩ := ih (g acc c) a (by rw [b]; exact hr)
    exact ⟨a', by rw [List.foldl_cons, b', b]⟩

/-- **insertion keeps every subtree within its measure**, for every threshold and every fuel -/
theorem insert_good (threshold fuel : Nat) : GoodIns (Node.insert (R := RI) threshold fuel) := by
  induction fuel with
  | zero => intro c it hc hr; simpa [Node.insert] using addHere_good c it hc hr
  | succ f ih =>
    intro n it hn hr
    simp only [Node.insert]
    have key : ∀ n' : Node RI, Good n' → n'.rect = n.rect →
        Good (Node.route (Node.insert threshold f) n' it) ∧ (Node.route (Node.insert threshold f) n' it).rect = n.rect := by
      intro n' h1 h2
      obtain ⟨a, b⟩ := route_good _ ih n' it h1 (by rw [h2]; exact hr)
      exact ⟨a, by rw [b, h2]⟩
    cases n with
    | split r cs c0 c1 c2 c3 => exact key _ hn rfl
    | leaf r cs =>
      simp only
      split
      · rename_i hsplit
        have hr' : r.empty = false := hr
        have hcs : canSplit halfInt r = true := hsplit.2
        obtain ⟨m0, m1, m2, m3⟩ := quadrants_meas r hr' hcs
        have hq : RectOps.quadrants r = quadrants halfInt r := rfl
        have hacc : Good (Node.split r [] (Node.leaf (RectOps.quadrants r).1 []) (Node.leaf (RectOps.quadrants r).2.1 [])
            (Node.leaf (RectOps.quadrants r).2.2.1 []) (Node.leaf (RectOps.quadrants r).2.2.2 [])) := by
          rw [hq]
          exact ⟨hr', ⟨trivial, fun _ => rfl, m0⟩, ⟨trivial, fun _ => rfl, m1⟩, ⟨trivial, fun _ => rfl, m2⟩,
            ⟨trivial, fun _ => rfl, m3⟩⟩
        obtain ⟨q1, q2⟩ := fold_good (Node.route (Node.insert threshold f)) (route_good _ ih) cs _ hacc hr'
        exact key _ q1 q2
      · exact key _ hn rfl

theorem reorgFold_good (rect : RI) (threshold fuel : Nat) (l : List (Item RI)) (s : Node RI × List (Item RI))
    (hg : Good s.1) (hr : s.1.rect = rect) (hne : rect.empty = false) :
    Good (l.foldl (Tree.reorgStep rect threshold fuel) s).1 ∧ (l.foldl (Tree.reorgStep rect threshold fuel) s).1.rect = rect := by
  induction l generalizing s with
  | nil => exact ⟨hg, hr⟩
  | cons c t ih =>
    simp only [List.foldl_cons]
    unfold Tree.reorgStep
    split
    · obtain ⟨a, b⟩ := insert_good threshold fuel s.1 c hg (by rw [hr]; exact hne)
      exact ih (Node.insert threshold fuel s.1 c, s.2) a (by rw [b, hr])
    · exact ih (s.1, s.2 ++ [c]) hg hr

/-- removal changes neither the shape nor any rectangle -/
theorem remove_shape (id : Nat) (b : RI) (n n' : Node RI) (h : Node.remove id b n = some n') :
    n'.rect = n.rect ∧ n'.depth = n.depth ∧ (Good n → Good n') := by
  induction n generalizing n' with
  | leaf r cs =>
    simp only [Node.remove] at h
    cases hs : Node.swapRemove cs id with
    | none => rw [hs] at h; simp at h
    | some cs' =>
      rw [hs] at h; simp only [Option.map_some, Option.some.injEq] at h; subst h
      exact ⟨rfl, rfl, fun _ => trivial⟩
  | split r cs c0 c1 c2 c3 ih0 ih1 ih2 ih3 =>
    simp only [Node.remove] at h
    have co : ∀ c c' : Node RI, c'.rect = c.rect → c'.depth = c.depth → CO r c → CO r c' := by
      intro c c' e1 e2 hc
      exact ⟨fun he => by rw [e2]; exact hc.1 (by rw [← e1]; exact he), fun he => by rw [e1]; exact hc.2 (by rw [← e1]; exact he)⟩
    cases hs : Node.swapRemove cs id with
    | some cs' =>
      rw [hs] at h; simp only [Option.some.injEq] at h; subst h
      exact ⟨rfl, rfl, fun g => g⟩
    | none =>
      rw [hs] at h
      simp only at h
      split at h
      · cases h0 : Node.remove id b c0 with
        | some c0' =>
          rw [h0] at h; simp only [Option.some.injEq] at h; subst h
          obtain ⟨e1, e2, g⟩ := ih0 c0' h0
          exact ⟨rfl, by simp only [Node.depth, e2], fun ⟨hne, a0, a1, a2, a3⟩ => ⟨hne, ⟨g a0.1, co _ _ e1 e2 a0.2⟩, a1, a2, a3⟩⟩
        | none =>
          rw [h0] at h; simp only at h
          cases h1 : Node.remove id b c1 with
          | some c1' =>
            rw [h1] at h; simp only [Option.some.injEq] at h; subst h
            obtain ⟨e1, e2, g⟩ := ih1 c1' h1
            exact ⟨rfl, by simp only [Node.depth, e2], fun ⟨hne, a0, a1, a2, a3⟩ => ⟨hne, a0, ⟨g a1.1, co _ _ e1 e2 a1.2⟩, a2, a3⟩⟩
          | none =>
            rw [h1] at h; simp only at h
            cases h2 : Node.remove id b c2 with
            | some c2' =>
              rw [h2] at h; simp only [Option.some.injEq] at h; subst h
              obtain ⟨e1, e2, g⟩ := ih2 c2' h2
              exact ⟨rfl, by simp only [Node.depth, e2], fun ⟨hne, a0, a1, a2, a3⟩ => ⟨hne, a0, a1, ⟨g a2.1, co _ _ e1 e2 a2.2⟩, a3⟩⟩
            | none =>
              rw [h2] at h; simp only at h
              cases h3 : Node.remove id b c3 with
              | some c3' =>
                rw [h3] at h; simp only [Option.some.injEq] at h; subst h
                obtain ⟨e1, e2, g⟩ := ih3 c3' h3
                exact ⟨rfl, by simp only [Node.depth, e2], fun ⟨hne, a0, a1, a2, a3⟩ => ⟨hne, a0, a1, a2, ⟨g a3.1, co _ _ e1 e2 a3.2⟩⟩⟩
              | none => rw [h3] at h; cases h
      · cases h


/-! ### the result of insertion does not depend on the fuel once it exceeds the measure -/

/-- two inserters agree on every good non-empty node of measure below `m` -/
def Agree (ins ins' : Node RI → Item RI → Node RI) (m : Nat) : Prop :=
  ∀ c it, Good c → c.rect.empty = false → meas c.rect < m → ins c it = ins' c it

theorem route_congr (ins ins' : Node RI → Item RI → Node RI) (n : Node RI) (it : Item RI) (hn : Good n)
    (ha : Agree ins ins' (meas n.rect)) : Node.route ins n it = Node.route ins' n it := by
  cases n with
  | leaf r cs => rfl
  | split r cs c0 c1 c2 c3 =>
    obtain ⟨_, h0, h1, h2, h3⟩ := hn
    have k : ∀ c : Node RI, Good c ∧ CO r c → c.rect.contains it.rect = true → ins c it = ins' c it := by
      intro c hc hcon
      have hne := contains_nonempty _ _ hcon
      exact ha c it hc.1 hne (hc.2.2 hne)
    simp only [Node.route]
    split
    · rename_i hc; rw [k c0 h0 hc]
    · split
      · rename_i hc; rw [k c1 h1 hc]
      · split
        · rename_i hc; rw [k c2 h2 hc]
        · split
          · rename_i hc; rw [k c3 h3 hc]
          · rfl

theorem fold_route_congr (ins ins' : Node RI → Item RI → Node RI) (hg : GoodIns ins) (cs : List (Item RI))
    (acc : Node RI) (hacc : Good acc) (hr : acc.rect.empty = false) (ha : Agree ins ins' (meas acc.rect)) :
    cs.foldl (fun a one => Node.route ins a one) acc = cs.foldl (fun a one => Node.route ins' a one) acc := by
  induction cs generalizing acc with
  | nil => rfl
  | cons c cs ih =>
    simp only [List.foldl_cons]
    rw [← route_congr ins ins' acc c hacc ha]
    obtain ⟨a, b⟩ := route_good ins hg acc c hacc hr
    exact ih _ a (by rw [b]; exact hr) (by rw [b]; exact ha)

/-- **fuel independence**: on a good non-empty integer node, any two fuels that are at least the logarithmic measure of its rectangle
    give the same result — the fuel-0 fallback is never reached, the fuelled recursion computes what the unbounded
    Go recursion computes -/
theorem insert_fuel_indep (threshold : Nat) (f f' : Nat) (n : Node RI) (it : Item RI) (hn : Good n)
    (hr : n.rect.empty = false) (h1 : meas n.rect ≤ f) (h2 : meas n.rect ≤ f') :
    Node.insert threshold f n it = Node.insert threshold f' n it := by
  induction f generalizing f' n it with
  | zero =>
    have := nonempty_pos _ hr
    unfold meas at h1; omega
  | succ f ih =>
    cases f' with
    | zero =>
      have := nonempty_pos _ hr
      unfold meas at h2; omega
    | succ f' =>
      have hagree : Agree (Node.insert threshold f) (Node.insert threshold f') (meas n.rect) := by
        intro c x hc hne hm
        exact ih f' c x hc hne (by omega) (by omega)
      simp only [Node.insert]
      cases n with
      | split r cs c0 c1 c2 c3 => exact route_congr _ _ _ it hn hagree
      | leaf r cs =>
        simp only
        split
        · rename_i hsplit
          have hr' : r.empty = false := hr
          obtain ⟨m0, m1, m2, m3⟩ := quadrants_meas r hr' hsplit.2
          have hq : RectOps.quadrants r = quadrants halfInt r := rfl
          have hacc : Good (Node.split r [] (Node.leaf (RectOps.quadrants r).1 []) (Node.leaf (RectOps.quadrants r).2.1 [])
              (Node.leaf (RectOps.quadrants r).2.2.1 []) (Node.leaf (RectOps.quadrants r).2.2.2 [])) := by
            rw [hq]
            exact ⟨hr', ⟨trivial, fun _ => rfl, m0⟩, ⟨trivial, fun _ => rfl, m1⟩, ⟨trivial, fun _ => rfl, m2⟩,
              ⟨trivial, fun _ => rfl, m3⟩⟩
          have e := fold_route_congr _ _ (insert_good threshold f) cs _ hacc hr' hagree
          rw [← e]
          obtain ⟨q1, q2⟩ := fold_good (Node.route (Node.insert threshold f)) (route_good _ (insert_good threshold f)) cs _ hacc hr'
          exact route_congr _ _ _ it q1 (by rw [q2]; exact hagree)
        · exact route_congr _ _ _ it hn hagree


/-- sides of at most `2^k` give a measure of at most `k + 1` -/
theorem meas_le_of_sides (r : RI) (k : Nat) (hw : r.w ≤ 2 ^ k) (hh : r.h ≤ 2 ^ k) : meas r ≤ k + 1 := by
  unfold meas
  have : (max r.w r.h).toNat - 1 < 2 ^ k := by
    have h2 : (0 : Int) < 2 ^ k := Int.pow_pos (by omega)
    have : ((2 ^ k : Nat) : Int) = (2 : Int) ^ k := by simp
    omega
  have := lg_le_of_lt_pow k _ this
  omega

end LogFuel
end QT
