import Model.Eval
/-! C09: the evaluator state between calls — `Evaluate` on a used evaluator equals `Evaluate` on a fresh one because
    `parse` resets both stacks first. Core only. -/
namespace Eval

/-- the reset empties both stacks whatever they held -/
theorem reset_eq (old : St) : old.reset = {} := rfl

/-- `parse` on ANY old state is `parse` on a fresh evaluator -/
theorem parseOn_eq (ops : List Op) (fns : List Bytes) (old : St) (s : Bytes) : parseOn ops fns old s = parse ops fns s := by
  unfold parseOn parse
  rw [reset_eq]

/-- the result of `Evaluate` on a used evaluator is the result of the fresh `evaluate` with the same budget -/
theorem evaluateReuse_snd (ops : List Op) (fns : List Bytes) (resolve : Option (Bytes → Bytes)) (old : St) (s : Bytes) :
    (evaluateReuse ops fns resolve old s).2 = evaluate ops fns resolve (driverBudget s + 1) s := by
  unfold evaluateReuse evaluateWith evaluate parseTop
  rw [parseOn_eq]
  cases parse ops fns s with
  | err => rfl
  | panic => rfl
  | ok st =>
    simp only
    cases finish (st.ops.length + 1) st with
    | err => rfl
    | panic => rfl
    | ok st' =>
      simp only
      cases st'.opds.head? with
      | none => rfl
      | some top => rfl

end Eval
