import Lemmas.BitSet
/-! C08: the repository's SWAR routine `countSetBits` is the population count, on every 64-bit word.

Kernel-only proof by byte lanes.  A word is `lanes [b0, …, b7]` (`b_i < 256`).  Masked shifts act lane by lane
(`lanes_shift_and`), additions and the subtraction are linear in the lanes and never carry out of a byte because the
partial sums are small (per-byte facts `byte_facts`, decided by the kernel on the 256 byte values), the multiplication
by `0x0101…01` followed by `>>> 56` adds the eight byte counts (at most 64 < 256, so no carry reaches the top byte). -/
namespace BS

/-! ### byte lanes -/

/-- little-endian value of a list of byte lanes -/
def lanes : List Nat → Nat
  | [] => 0
  | b :: bs => b + 256 * lanes bs

/-- a masked shift by `s < 8` acts separately on the lowest byte lane and on the rest, when the lane mask `ml` only
    selects bits the shift has not pulled in from the next lane -/
theorem shift_and_split (s lo hi ml mh : Nat) (hlo : lo < 256) (hml : ml < 2 ^ (8 - s)) :
    ((lo + 256 * hi) >>> s) &&& (ml + 256 * mh) = ((lo >>> s) &&& ml) + 256 * ((hi >>> s) &&& mh) := by
  have hml8 : ml < 2 ^ 8 := Nat.lt_of_lt_of_le hml (Nat.pow_le_pow_right (by decide : 2 > 0) (by omega : 8 - s ≤ 8))
  have hl : (lo >>> s) &&& ml < 2 ^ 8 := Nat.and_lt_two_pow _ hml8
  have e1 : lo + 256 * hi = 2 ^ 8 * hi + lo := by omega
  have e2 : ml + 256 * mh = 2 ^ 8 * mh + ml := by omega
  have e3 : ((lo >>> s) &&& ml) + 256 * ((hi >>> s) &&& mh) = 2 ^ 8 * ((hi >>> s) &&& mh) + ((lo >>> s) &&& ml) := by
    omega
  rw [e1, e2, e3]
  apply Nat.eq_of_testBit_eq
  intro j
  rw [Nat.testBit_and, Nat.testBit_shiftRight, Nat.testBit_two_pow_mul_add _ (show lo < 2 ^ 8 from hlo),
    Nat.testBit_two_pow_mul_add _ hml8, Nat.testBit_two_pow_mul_add _ hl, Nat.testBit_and, Nat.testBit_and,
    Nat.testBit_shiftRight, Nat.testBit_shiftRight]
  by_cases hj : j < 8
  · simp only [hj, if_true]
    by_cases hsj : s + j < 8
    · simp only [hsj, if_true]
    · simp only [hsj, if_false]
      have h1 : ml.testBit j = false :=
        Nat.testBit_lt_two_pow (Nat.lt_of_lt_of_le hml (Nat.pow_le_pow_right (by decide : 2 > 0) (by omega : 8 - s ≤ j)))
      have h2 : lo.testBit (s + j) = false :=
        Nat.testBit_lt_two_pow (Nat.lt_of_lt_of_le hlo (Nat.pow_le_pow_right (by decide : 2 > 0) (by omega : 8 ≤ s + j)))
      rw [h1, h2]; simp
  · have hsj : ¬ s + j < 8 := by omega
    simp only [hj, hsj, if_false]
    have : s + j - 8 = s + (j - 8) := by omega
    rw [this]

/-- masked shifts act lane by lane -/
theorem lanes_shift_and (s c : Nat) (hc : c < 2 ^ (8 - s)) : ∀ (bs : List Nat), (∀ b ∈ bs, b < 256) →
    (lanes bs >>> s) &&& lanes (List.replicate bs.length c) = lanes (bs.map fun b => (b >>> s) &&& c) := by
  intro bs
  induction bs with
  | nil => intro _; simp [lanes]
  | cons b bs ih =>
    intro h
    simp only [List.length_cons, List.replicate_succ, List.map_cons, lanes]
    rw [shift_and_split s b (lanes bs) c _ (h b (List.mem_cons_self ..)) hc,
      ih (fun b' hb' => h b' (List.mem_cons_of_mem _ hb'))]

/-! ### the number of one bits, on `Nat` -/

/-- number of one bits among the lowest `k` bits of a natural number -/
def cbN (n : Nat) : Nat → Nat
  | 0 => 0
  | k + 1 => cbN n k + (if n.testBit k then 1 else 0)

theorem countBits_eq_cbN (w : W) (k : Nat) : countBits w k = cbN w.toNat k := by
  induction k with
  | zero => rfl
  | succ k ih => simp only [countBits, cbN, ih, BitVec.getLsbD]

/-- the count splits at a byte boundary -/
theorem cbN_split (b m : Nat) (hb : b < 256) (k : Nat) : cbN (b + 256 * m) (8 + k) = cbN b 8 + cbN m k := by
  have e : b + 256 * m = 2 ^ 8 * m + b := by omega
  have hb' : b < 2 ^ 8 := hb
  induction k with
  | zero =>
    simp only [cbN, Nat.add_zero, e, Nat.testBit_two_pow_mul_add _ hb']
    simp
  | succ k ih =>
    show cbN (b + 256 * m) (8 + k) + (if (b + 256 * m).testBit (8 + k) then 1 else 0)
      = cbN b 8 + (cbN m k + (if m.testBit k then 1 else 0))
    rw [ih, e, Nat.testBit_two_pow_mul_add _ hb']
    have h1 : ¬ 8 + k < 8 := by omega
    have h2 : 8 + k - 8 = k := by omega
    simp only [h1, if_false, h2]
    omega

/-- the population count of a word is the sum of the population counts of its byte lanes -/
theorem cbN_lanes : ∀ (bs : List Nat), (∀ b ∈ bs, b < 256) →
    cbN (lanes bs) (8 * bs.length) = (bs.map fun b => cbN b 8).sum := by
  intro bs
  induction bs with
  | nil => intro _; rfl
  | cons b bs ih =>
    intro h
    have e : 8 * (b :: bs).length = 8 + 8 * bs.length := by simp only [List.length_cons]; omega
    rw [e]
    simp only [lanes, List.map_cons, List.sum_cons]
    rw [cbN_split b _ (h b (List.mem_cons_self ..)), ih (fun b' hb' => h b' (List.mem_cons_of_mem _ hb'))]

theorem all_lt_map (f : Nat → Nat) (hf : ∀ b, b < 256 → f b < 256) (bs : List Nat) (h : ∀ b ∈ bs, b < 256) :
    ∀ b ∈ bs.map f, b < 256 := by
  intro b hb
  obtain ⟨a, ha, rfl⟩ := List.mem_map.mp hb
  exact hf a (h a ha)

/-! ### what the stages do to one byte lane -/

/-- `(x >>> 1) & 0x55` on one byte -/
def m1 (b : Nat) : Nat := (b >>> 1) &&& 0x55
/-- stage 1 on one byte: four 2-bit sums -/
def s1 (b : Nat) : Nat := b - m1 b
/-- stage 2 on one byte: two nibble sums -/
def s2 (b : Nat) : Nat := ((s1 b >>> 2) &&& 0x33) + (s1 b &&& 0x33)
/-- stages 3 and 4 on one byte: the number of one bits of the byte -/
def pcb (b : Nat) : Nat := s2 b % 16 + s2 b / 16

set_option maxRecDepth 200000 in
/-- the kernel evaluates the byte-lane versions of the stages on all 256 byte values -/
theorem byte_facts : ∀ b, b < 256 →
    m1 b ≤ b ∧ s2 b % 16 ≤ 4 ∧ s2 b / 16 ≤ 4 ∧ pcb b = cbN b 8 := by decide

/-! ### the routine, stage by stage, on words and on their values -/

def w1 (x : W) : W := x - ((x >>> 1) &&& 0x5555555555555555#64)
def w2 (x : W) : W := ((x >>> 2) &&& 0x3333333333333333#64) + (x &&& 0x3333333333333333#64)
def w3 (x : W) : W := x + (x >>> 4)
def w4 (x : W) : W := x &&& 0x0f0f0f0f0f0f0f0f#64
def w5 (x : W) : Nat := ((x * 0x0101010101010101#64) >>> 56).toNat

/-- `countSetBits` is the composition of its five statements -/
theorem countSetBits_stages (x : W) : countSetBits x = Int.ofNat (w5 (w4 (w3 (w2 (w1 x))))) := rfl

def n1 (n : Nat) : Nat := (2 ^ 64 - ((n >>> 1) &&& 0x5555555555555555) + n) % 2 ^ 64
def n2 (a : Nat) : Nat := (((a >>> 2) &&& 0x3333333333333333) + (a &&& 0x3333333333333333)) % 2 ^ 64
def n3 (b : Nat) : Nat := (b + (b >>> 4)) % 2 ^ 64
def n4 (c : Nat) : Nat := c &&& 0x0f0f0f0f0f0f0f0f
def n5 (d : Nat) : Nat := ((d * 0x0101010101010101) % 2 ^ 64) >>> 56

theorem w1_toNat (x : W) : (w1 x).toNat = n1 x.toNat := by
  unfold w1 n1
  simp only [BitVec.toNat_ushiftRight, BitVec.toNat_and, BitVec.toNat_sub, BitVec.toNat_ofNat]
theorem w2_toNat (x : W) : (w2 x).toNat = n2 x.toNat := by
  unfold w2 n2
  simp only [BitVec.toNat_ushiftRight, BitVec.toNat_and, BitVec.toNat_add, BitVec.toNat_ofNat]
theorem w3_toNat (x : W) : (w3 x).toNat = n3 x.toNat := by
  unfold w3 n3
  simp only [BitVec.toNat_ushiftRight, BitVec.toNat_add]
theorem w4_toNat (x : W) : (w4 x).toNat = n4 x.toNat := by
  unfold w4 n4
  simp only [BitVec.toNat_and, BitVec.toNat_ofNat]
theorem w5_toNat (x : W) : w5 x = n5 x.toNat := by
  have h01 : (0x0101010101010101#64).toNat = 0x0101010101010101 := by decide
  unfold w5 n5
  rw [BitVec.toNat_ushiftRight, BitVec.toNat_mul, h01]

/-- the value computed by `countSetBits`, as a function of the value of the word -/
theorem countSetBits_eq_nat (x : W) : countSetBits x = Int.ofNat (n5 (n4 (n3 (n2 (n1 x.toNat))))) := by
  rw [countSetBits_stages, w5_toNat, w4_toNat, w3_toNat, w2_toNat, w1_toNat]

theorem exists_bytes (n : Nat) (h : n < 2 ^ 64) : ∃ b0 b1 b2 b3 b4 b5 b6 b7 : Nat,
    (b0 < 256 ∧ b1 < 256 ∧ b2 < 256 ∧ b3 < 256 ∧ b4 < 256 ∧ b5 < 256 ∧ b6 < 256 ∧ b7 < 256)
    ∧ n = lanes [b0, b1, b2, b3, b4, b5, b6, b7] :=
  ⟨n % 256, n / 256 % 256, n / 256 ^ 2 % 256, n / 256 ^ 3 % 256, n / 256 ^ 4 % 256, n / 256 ^ 5 % 256,
    n / 256 ^ 6 % 256, n / 256 ^ 7 % 256, by omega, by simp only [lanes]; omega⟩

/-! ### the stages on eight byte lanes -/

theorem mask8 (s c : Nat) (hc : c < 2 ^ (8 - s)) (bs : List Nat) (hlen : bs.length = 8) (hall : ∀ b ∈ bs, b < 256) :
    (lanes bs >>> s) &&& lanes (List.replicate 8 c) = lanes (bs.map fun b => (b >>> s) &&& c) := by
  rw [← hlen]; exact lanes_shift_and s c hc bs hall

theorem all8 (b0 b1 b2 b3 b4 b5 b6 b7 : Nat)
    (h : b0 < 256 ∧ b1 < 256 ∧ b2 < 256 ∧ b3 < 256 ∧ b4 < 256 ∧ b5 < 256 ∧ b6 < 256 ∧ b7 < 256) :
    ∀ b ∈ [b0, b1, b2, b3, b4, b5, b6, b7], b < 256 := by
  intro b hb
  simp only [List.mem_cons, List.mem_nil_iff, or_false] at hb
  omega

theorem e55 : 0x5555555555555555 = lanes (List.replicate 8 0x55) := by decide
theorem e33 : 0x3333333333333333 = lanes (List.replicate 8 0x33) := by decide
theorem e0f : 0x0f0f0f0f0f0f0f0f = lanes (List.replicate 8 0x0f) := by decide

/-- stage 1 works lane by lane: no borrow crosses a byte boundary -/
theorem n1_lanes (b0 b1 b2 b3 b4 b5 b6 b7 : Nat)
    (h : b0 < 256 ∧ b1 < 256 ∧ b2 < 256 ∧ b3 < 256 ∧ b4 < 256 ∧ b5 < 256 ∧ b6 < 256 ∧ b7 < 256) :
    n1 (lanes [b0, b1, b2, b3, b4, b5, b6, b7]) = lanes [s1 b0, s1 b1, s1 b2, s1 b3, s1 b4, s1 b5, s1 b6, s1 b7] := by
  have L := mask8 1 0x55 (by decide) _ rfl (all8 _ _ _ _ _ _ _ _ h)
  unfold n1
  rw [e55, L]
  simp only [List.map, lanes, s1, m1]
  have f0 := (byte_facts b0 h.1).1
  have f1 := (byte_facts b1 h.2.1).1
  have f2 := (byte_facts b2 h.2.2.1).1
  have f3 := (byte_facts b3 h.2.2.2.1).1
  have f4 := (byte_facts b4 h.2.2.2.2.1).1
  have f5 := (byte_facts b5 h.2.2.2.2.2.1).1
  have f6 := (byte_facts b6 h.2.2.2.2.2.2.1).1
  have f7 := (byte_facts b7 h.2.2.2.2.2.2.2).1
  simp only [m1] at f0 f1 f2 f3 f4 f5 f6 f7
  omega

/-- stage 2 works lane by lane: the nibble sums stay inside their byte -/
theorem n2_lanes (b0 b1 b2 b3 b4 b5 b6 b7 : Nat)
    (h : b0 < 256 ∧ b1 < 256 ∧ b2 < 256 ∧ b3 < 256 ∧ b4 < 256 ∧ b5 < 256 ∧ b6 < 256 ∧ b7 < 256) :
    n2 (lanes [s1 b0, s1 b1, s1 b2, s1 b3, s1 b4, s1 b5, s1 b6, s1 b7])
      = lanes [s2 b0, s2 b1, s2 b2, s2 b3, s2 b4, s2 b5, s2 b6, s2 b7] := by
  have hs : ∀ b, s1 b ≤ b := fun b => Nat.sub_le _ _
  have hall : ∀ b ∈ [s1 b0, s1 b1, s1 b2, s1 b3, s1 b4, s1 b5, s1 b6, s1 b7], b < 256 :=
    all8 _ _ _ _ _ _ _ _ ⟨Nat.lt_of_le_of_lt (hs _) h.1, Nat.lt_of_le_of_lt (hs _) h.2.1,
      Nat.lt_of_le_of_lt (hs _) h.2.2.1, Nat.lt_of_le_of_lt (hs _) h.2.2.2.1, Nat.lt_of_le_of_lt (hs _) h.2.2.2.2.1,
      Nat.lt_of_le_of_lt (hs _) h.2.2.2.2.2.1, Nat.lt_of_le_of_lt (hs _) h.2.2.2.2.2.2.1,
      Nat.lt_of_le_of_lt (hs _) h.2.2.2.2.2.2.2⟩
  have La := mask8 2 0x33 (by decide) _ rfl hall
  have Lb := mask8 0 0x33 (by decide) _ rfl hall
  simp only [Nat.shiftRight_zero] at Lb
  unfold n2
  rw [e33, La, Lb]
  simp only [List.map, lanes, s2]
  have f0 := (byte_facts b0 h.1).2
  have f1 := (byte_facts b1 h.2.1).2
  have f2 := (byte_facts b2 h.2.2.1).2
  have f3 := (byte_facts b3 h.2.2.2.1).2
  have f4 := (byte_facts b4 h.2.2.2.2.1).2
  have f5 := (byte_facts b5 h.2.2.2.2.2.1).2
  have f6 := (byte_facts b6 h.2.2.2.2.2.2.1).2
  have f7 := (byte_facts b7 h.2.2.2.2.2.2.2).2
  simp only [s2] at f0 f1 f2 f3 f4 f5 f6 f7
  omega

/-- stages 3 and 4: each byte ends up holding the sum of its two nibbles; what the unmasked shift drags in from the
    next lane lands in the high nibble and is masked away -/
theorem n34_lanes (t0 t1 t2 t3 t4 t5 t6 t7 : Nat)
    (h0 : t0 % 16 ≤ 4 ∧ t0 / 16 ≤ 4) (h1 : t1 % 16 ≤ 4 ∧ t1 / 16 ≤ 4) (h2 : t2 % 16 ≤ 4 ∧ t2 / 16 ≤ 4)
    (h3 : t3 % 16 ≤ 4 ∧ t3 / 16 ≤ 4) (h4 : t4 % 16 ≤ 4 ∧ t4 / 16 ≤ 4) (h5 : t5 % 16 ≤ 4 ∧ t5 / 16 ≤ 4)
    (h6 : t6 % 16 ≤ 4 ∧ t6 / 16 ≤ 4) (h7 : t7 % 16 ≤ 4 ∧ t7 / 16 ≤ 4) :
    n4 (n3 (lanes [t0, t1, t2, t3, t4, t5, t6, t7]))
      = lanes [t0 % 16 + t0 / 16, t1 % 16 + t1 / 16, t2 % 16 + t2 / 16, t3 % 16 + t3 / 16,
               t4 % 16 + t4 / 16, t5 % 16 + t5 / 16, t6 % 16 + t6 / 16, t7 % 16 + t7 / 16] := by
  have e3 : n3 (lanes [t0, t1, t2, t3, t4, t5, t6, t7])
      = lanes [t0 % 16 + t0 / 16 + 16 * (t0 / 16 + t1 % 16), t1 % 16 + t1 / 16 + 16 * (t1 / 16 + t2 % 16),
               t2 % 16 + t2 / 16 + 16 * (t2 / 16 + t3 % 16), t3 % 16 + t3 / 16 + 16 * (t3 / 16 + t4 % 16),
               t4 % 16 + t4 / 16 + 16 * (t4 / 16 + t5 % 16), t5 % 16 + t5 / 16 + 16 * (t5 / 16 + t6 % 16),
               t6 % 16 + t6 / 16 + 16 * (t6 / 16 + t7 % 16), t7 % 16 + t7 / 16 + 16 * (t7 / 16)] := by
    unfold n3
    rw [Nat.shiftRight_eq_div_pow]
    simp only [lanes]
    omega
  have L := mask8 0 0x0f (by decide) _ rfl (all8
    (t0 % 16 + t0 / 16 + 16 * (t0 / 16 + t1 % 16)) (t1 % 16 + t1 / 16 + 16 * (t1 / 16 + t2 % 16))
    (t2 % 16 + t2 / 16 + 16 * (t2 / 16 + t3 % 16)) (t3 % 16 + t3 / 16 + 16 * (t3 / 16 + t4 % 16))
    (t4 % 16 + t4 / 16 + 16 * (t4 / 16 + t5 % 16)) (t5 % 16 + t5 / 16 + 16 * (t5 / 16 + t6 % 16))
    (t6 % 16 + t6 / 16 + 16 * (t6 / 16 + t7 % 16)) (t7 % 16 + t7 / 16 + 16 * (t7 / 16)) (by omega))
  have hand : ∀ u : Nat, u &&& 0x0f = u % 16 := fun u => Nat.and_two_pow_sub_one_eq_mod u 4
  simp only [Nat.shiftRight_zero, hand] at L
  rw [e3]
  unfold n4
  rw [e0f, L]
  have hm : ∀ a c : Nat, a ≤ 8 → (a + 16 * c) % 16 = a := by intro a c h; omega
  have g0 := hm (t0 % 16 + t0 / 16) (t0 / 16 + t1 % 16) (by omega)
  have g1 := hm (t1 % 16 + t1 / 16) (t1 / 16 + t2 % 16) (by omega)
  have g2 := hm (t2 % 16 + t2 / 16) (t2 / 16 + t3 % 16) (by omega)
  have g3 := hm (t3 % 16 + t3 / 16) (t3 / 16 + t4 % 16) (by omega)
  have g4 := hm (t4 % 16 + t4 / 16) (t4 / 16 + t5 % 16) (by omega)
  have g5 := hm (t5 % 16 + t5 / 16) (t5 / 16 + t6 % 16) (by omega)
  have g6 := hm (t6 % 16 + t6 / 16) (t6 / 16 + t7 % 16) (by omega)
  have g7 := hm (t7 % 16 + t7 / 16) (t7 / 16) (by omega)
  simp only [List.map, g0, g1, g2, g3, g4, g5, g6, g7]

/-- stage 5: the multiplication accumulates the eight byte counts in the top byte; nothing carries into it -/
theorem n5_lanes (p0 p1 p2 p3 p4 p5 p6 p7 : Nat)
    (h : p0 ≤ 8 ∧ p1 ≤ 8 ∧ p2 ≤ 8 ∧ p3 ≤ 8 ∧ p4 ≤ 8 ∧ p5 ≤ 8 ∧ p6 ≤ 8 ∧ p7 ≤ 8) :
    n5 (lanes [p0, p1, p2, p3, p4, p5, p6, p7]) = p0 + p1 + p2 + p3 + p4 + p5 + p6 + p7 := by
  have hq : lanes [p0, p1, p2, p3, p4, p5, p6, p7] * 0x0101010101010101
      = 2 ^ 64 * (p1 + p2 + p3 + p4 + p5 + p6 + p7 + 256 * (p2 + p3 + p4 + p5 + p6 + p7
          + 256 * (p3 + p4 + p5 + p6 + p7 + 256 * (p4 + p5 + p6 + p7 + 256 * (p5 + p6 + p7
          + 256 * (p6 + p7 + 256 * p7))))))
        + (2 ^ 56 * (p0 + p1 + p2 + p3 + p4 + p5 + p6 + p7)
          + (p0 + 256 * (p0 + p1 + 256 * (p0 + p1 + p2 + 256 * (p0 + p1 + p2 + p3 + 256 * (p0 + p1 + p2 + p3 + p4
            + 256 * (p0 + p1 + p2 + p3 + p4 + p5 + 256 * (p0 + p1 + p2 + p3 + p4 + p5 + p6)))))))) := by
    simp only [lanes]
    omega
  unfold n5
  rw [hq, Nat.mul_add_mod, Nat.shiftRight_eq_div_pow]
  clear hq
  generalize hL : p0 + 256 * (p0 + p1 + 256 * (p0 + p1 + p2 + 256 * (p0 + p1 + p2 + p3 + 256 * (p0 + p1 + p2 + p3 + p4
            + 256 * (p0 + p1 + p2 + p3 + p4 + p5 + 256 * (p0 + p1 + p2 + p3 + p4 + p5 + p6)))))) = low
  have h1 : low < 2 ^ 56 := by omega
  clear hL
  generalize hT : p0 + p1 + p2 + p3 + p4 + p5 + p6 + p7 = tot
  have h2 : tot ≤ 64 := by omega
  omega

/-! ### the theorem -/

/-- the five stages compute the number of one bits of every value below `2^64` -/
theorem swar_nat (n : Nat) (hn : n < 2 ^ 64) : n5 (n4 (n3 (n2 (n1 n)))) = cbN n 64 := by
  obtain ⟨b0, b1, b2, b3, b4, b5, b6, b7, h, rfl⟩ := exists_bytes n hn
  have f0 := byte_facts b0 h.1
  have f1 := byte_facts b1 h.2.1
  have f2 := byte_facts b2 h.2.2.1
  have f3 := byte_facts b3 h.2.2.2.1
  have f4 := byte_facts b4 h.2.2.2.2.1
  have f5 := byte_facts b5 h.2.2.2.2.2.1
  have f6 := byte_facts b6 h.2.2.2.2.2.2.1
  have f7 := byte_facts b7 h.2.2.2.2.2.2.2
  have g : ∀ b, b < 256 → s2 b % 16 ≤ 4 ∧ s2 b / 16 ≤ 4 := fun b hb => ⟨(byte_facts b hb).2.1, (byte_facts b hb).2.2.1⟩
  rw [n1_lanes _ _ _ _ _ _ _ _ h, n2_lanes _ _ _ _ _ _ _ _ h,
    n34_lanes _ _ _ _ _ _ _ _ (g _ h.1) (g _ h.2.1) (g _ h.2.2.1) (g _ h.2.2.2.1) (g _ h.2.2.2.2.1)
      (g _ h.2.2.2.2.2.1) (g _ h.2.2.2.2.2.2.1) (g _ h.2.2.2.2.2.2.2)]
  have hpc : cbN (lanes [b0, b1, b2, b3, b4, b5, b6, b7]) 64
      = cbN b0 8 + (cbN b1 8 + (cbN b2 8 + (cbN b3 8 + (cbN b4 8 + (cbN b5 8 + (cbN b6 8 + (cbN b7 8 + 0))))))) :=
    cbN_lanes _ (all8 _ _ _ _ _ _ _ _ h)
  rw [hpc, ← f0.2.2.2, ← f1.2.2.2, ← f2.2.2.2, ← f3.2.2.2, ← f4.2.2.2, ← f5.2.2.2, ← f6.2.2.2, ← f7.2.2.2]
  show n5 (lanes [pcb b0, pcb b1, pcb b2, pcb b3, pcb b4, pcb b5, pcb b6, pcb b7]) = _
  have hp : ∀ b, b < 256 → pcb b ≤ 8 := by intro b hb; have := g b hb; unfold pcb; omega
  rw [n5_lanes _ _ _ _ _ _ _ _ ⟨hp _ h.1, hp _ h.2.1, hp _ h.2.2.1, hp _ h.2.2.2.1, hp _ h.2.2.2.2.1,
    hp _ h.2.2.2.2.2.1, hp _ h.2.2.2.2.2.2.1, hp _ h.2.2.2.2.2.2.2⟩]
  omega

/-- **the repository's SWAR routine is the population count**, on every 64-bit word -/
theorem countSetBits_eq_popcount (x : W) : countSetBits x = Int.ofNat (popcount x) := by
  rw [countSetBits_eq_nat, swar_nat _ x.isLt]
  unfold popcount
  rw [countBits_eq_cbN]

end BS
