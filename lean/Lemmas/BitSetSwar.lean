import Lemmas.BitSet
/-! C08: the repository's SWAR routine `countSetBits` is the population count, on every 64-bit word.

Kernel-only proof by byte lanes.  A word is `lanes [b0, …, b7]` (`b_i < 256`).  Masked shifts act lane by lane
(`lanes_shift_and`), additions and the subtraction are linear in the lanes and never carry out of a byte because the
partial sums are small (per-byte facts `byte_facts`, decided by the kernel on the 256 byte values), the multiplication
by `0x0101…01` followed by `>>> 56` adds the eight byte counts (at most 64 < 256, so no carry reaches the top byte). -/
namespace BS

/-! ### byte lanes -/

/-- little-endian value of a list of byte lanes -/
def lanes : List Nat → Nat
  | [] => 0
  | b :: bs => b + 256 * lanes bs

/-- a masked shift by `s < 8` acts separately on the lowest byte lane and on the rest, when the lane mask `ml` only
    selects bits the shift has not pulled in from the next lane -/
theorem shift_and_split (s lo hi ml mh : Nat) (hlo : lo < 256) (hml : ml < 2 ^ (8 - s)) :
    ((lo + 256 * hi) >>> s) &&& (ml + 256 * mh) = ((lo >>> s) &&& ml) + 256 * ((hi >>> s) &&& mh) := by
  have hml8 : ml < 2 ^ 8 := Nat.lt_of_lt_of_le hml (Nat.pow_le_pow_right (by decide : 2 > 0) (by omega : 8 - s ≤ 8))
  have hl : (lo >>> s) &&& ml < 2 ^ 8 := Nat.and_lt_two_pow _ hml8
  have e1 : lo + 256 * hi = 2 ^ 8 * hi + lo := by omega
  have e2 : ml + 256 * mh = 2 ^ 8 * mh + ml := by omega
  have e3 : ((lo >>> s) &&& ml) + 256 * ((hi >>> s) &&& mh) = 2 ^ 8 * ((hi >>> s) &&& mh) + ((lo >>> s) &&& ml) := by
    omega
  rw [e1, e2, e3]
  apply Nat.eq_of_testBit_eq
  intro j
  rw [Nat.testBit_and, Nat.testBit_shiftRight, Nat.testBit_two_pow_mul_add _ (show lo < 2 ^ 8 from hlo),
    Nat.testBit_two_pow_mul_add _ hml8, Nat.testBit_two_pow_mul_add _ hl, Nat.testBit_and, Nat.testBit_and,
    Nat.testBit_shiftRight, Nat.testBit_shiftRight]
  by_cases hj : j < 8
  · simp only [hj, if_true]
    by_cases hsj : s + j < 8
    · simp only [hsj, if_true]
    · simp only [hsj, if_false]
      have h1 : ml.testBit j = false :=
        Nat.testBit_lt_two_pow (Nat.lt_of_lt_of_le hml (Nat.pow_le_pow_right (by decide : 2 > 0) (by omega : 8 - s ≤ j)))
      have h2 : lo.testBit (s + j) = false :=
        Nat.testBit_lt_two_pow (Nat.lt_of_lt_of_le hlo (Nat.pow_le_pow_right (by decide : 2 > 0) (by omega : 8 ≤ s + j)))
      rw [h1, h2]; simp
  · have hsj : ¬ s + j < 8 := by omega
    simp only [hj, hsj, if_false]
    have : s + j - 8 = s + (j - 8) := by omega
    rw [this]

/-- masked shifts act lane by lane -/
theorem lanes_shift_and (s c : Nat) (hc : c < 2 ^ (8 - s)) : ∀ (bs : List Nat), (∀ b ∈ bs, b < 256) →
    (lanes bs >>> s) &&& lanes (List.replicate bs.length c) = lanes (bs.map fun b => (b >>> s) &&& c) := by
  intro bs
  induction bs with
  | nil => intro _; simp [lanes]
  | cons b bs ih =>
    intro h
    simp only [List.length_cons, List.replicate_succ, List.map_cons, lanes]
    rw [shift_and_split s b (lanes bs) c _ (h b (List.mem_cons_self ..)) hc,
      ih (fun b' hb' => h b' (List.mem_cons_of_mem _ hb'))]

/-! ### the number of one bits, on `Nat` -/

/-- number of one bits among the lowest `k` bits of a natural number -/
def cbN (n : Nat) : Nat → Nat
  | 0 => 0
  | k + 1 => cbN n k + (if n.testBit k then 1 else 0)

theorem countBits_eq_cbN (w : W) (k : Nat) : countBits w k = cbN w.toNat k := by
  induction k with
  | zero => rfl
  | succ k ih => simp only [countBits, cbN, ih, BitVec.getLsbD]

/-- the count splits at a byte boundary -/
theorem cbN_split (b m : Nat) (hb : b < 256) (k : Nat) : cbN (b + 256 * m) (8 + k) = cbN b 8 + cbN m k := by
  have e : b + 256 * m = 2 ^ 8 * m + b := by omega
  have hb' : b < 2 ^ 8 := hb
  induction k with
  | zero =>
    simp only [cbN, Nat.add_zero, e, Nat.testBit_two_pow_mul_add _ hb']
    simp
  | succ k ih =>
    show cbN (b + 256 * m) (8 + k) + (if (b + 256 * m).testBit (8 + k) then 1 else 0)
      = cbN b 8 + (cbN m k + (if m.testBit k then 1 else 0))
    rw [ih, e, Nat.testBit_two_pow_mul_add _ hb']
    have h1 : ¬ 8 + k < 8 := by omega
    have h2 : 8 + k - 8 = k := by omega
    simp only [h1, if_false, h2]
    omega

/-- the population count of a word is the sum of the population counts of its byte lanes -/
theorem cbN_lanes : ∀ (bs : List Nat), (∀ b ∈ bs, b < 256) →
    cbN (lanes bs) (8 * bs.length) = (bs.map fun b => cbN b 8).sum := by
  intro bs
  induction bs with
  | nil => intro _; rfl
  | cons b bs ih =>
    intro h
    have e : 8 * (b :: bs).length = 8 + 8 * bs.length := by simp only [List.length_cons]; omega
    rw [e]
    simp only [lanes, List.map_cons, List.sum_cons]
    rw [cbN_split b _ (h b (List.mem_cons_self ..)), ih (fun b' hb' => h b' (List.mem_cons_of_mem _ hb'))]

theorem all_lt_map (f : Nat → Nat) (hf : ∀ b, b < 256 → f b < 256) (bs : List Nat) (h : ∀ b ∈ bs, b < 256) :
    ∀ b ∈ bs.map f, b < 256 := by
  intro b hb
  obtain ⟨a, ha, rfl⟩ := List.mem_map.mp hb
  exact hf a (h a ha)

/-! ### what the stages do to one byte lane -/

/-- `(x >>> 1) & 0x55` on one byte -/
def m1 (b : Nat) : Nat := (b >>> 1) &&& 0x55
/-- stage 1 on one byte: four 2-bit sums -/
def s1 (b : Nat) : Nat := b - m1 b
/-- stage 2 on one byte: two nibble sums -/
def s2 (b : Nat) : Nat := ((s1 b >>> 2) &&& 0x33) + ((s1 b >>> 0) &&& 0x33)
/-- stages 3 and 4 on one byte: the number of one bits of the byte -/
def pcb (b : Nat) : Nat := s2 b % 16 + s2 b / 16

set_option maxRecDepth 200000 in
/-- the kernel evaluates the byte-lane versions of the stages on all 256 byte values -/
theorem byte_facts : ∀ b, b < 256 →
    m1 b ≤ b ∧ s2 b % 16 ≤ 4 ∧ s2 b / 16 ≤ 4 ∧ pcb b = cbN b 8 := by decide

/-! ### the routine on `Nat` -/

/-- `countSetBits` on the value of the word (every `BitVec` operation replaced by its `toNat` form) -/
def swarN (n : Nat) : Nat :=
  let a := (2 ^ 64 - ((n >>> 1) &&& 0x5555555555555555) + n) % 2 ^ 64
  let b := (((a >>> 2) &&& 0x3333333333333333) + (a &&& 0x3333333333333333)) % 2 ^ 64
  let c := (b + (b >>> 4)) % 2 ^ 64
  let d := c &&& 0x0f0f0f0f0f0f0f0f
  let e := (d * 0x0101010101010101) % 2 ^ 64
  e >>> 56

theorem countSetBits_eq_swarN (x : W) : countSetBits x = Int.ofNat (swarN x.toNat) := by
  unfold countSetBits swarN
  simp only [BitVec.toNat_ushiftRight, BitVec.toNat_mul, BitVec.toNat_and, BitVec.toNat_add, BitVec.toNat_sub,
    BitVec.toNat_ofNat]
  rfl

theorem exists_bytes (n : Nat) (h : n < 2 ^ 64) : ∃ b0 b1 b2 b3 b4 b5 b6 b7 : Nat,
    (b0 < 256 ∧ b1 < 256 ∧ b2 < 256 ∧ b3 < 256 ∧ b4 < 256 ∧ b5 < 256 ∧ b6 < 256 ∧ b7 < 256)
    ∧ n = lanes [b0, b1, b2, b3, b4, b5, b6, b7] :=
  ⟨n % 256, n / 256 % 256, n / 256 ^ 2 % 256, n / 256 ^ 3 % 256, n / 256 ^ 4 % 256, n / 256 ^ 5 % 256,
    n / 256 ^ 6 % 256, n / 256 ^ 7 % 256, by omega, by simp only [lanes]; omega⟩

end BS
