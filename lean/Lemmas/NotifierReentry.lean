import Model.NotifierReentry
import Lemmas.NotifierDelivery
/-! C17, re-entrant targets: the loops of `Nt.stepRe` (world threaded through the delivery loop, a callback may perform a
    complete exported call) in closed form: the outer call makes exactly the callbacks of its snapshot, the nested
    call's events are spliced in right after the first re-entrant callback, the world is that of the two calls in
    sequence. -/
namespace Nt

/-- the events of one callback of the snapshot when nothing is called back -/
def cbEv (pan : Nat → Bool) (n : Nat) (c : Event × Nat) : List Event :=
  if pan c.2 && reports? n then [c.1, Event.recovered n c.2] else [c.1]

/-- the events of a snapshot delivered to targets that do not call back -/
def plain (pan : Nat → Bool) (n : Nat) (cs : List (Event × Nat)) : List Event := cs.flatMap (cbEv pan n)

theorem cbRe_run (pan : Nat → Bool) (n : Nat) (c : Event × Nat) (st : ReSt) :
    (cbRe pan n c st).2 =
      ⟨c.1 :: (fire pan c.1 st).2 ++ (if pan c.2 && reports? n then [Event.recovered n c.2] else []), none⟩ := by
  unfold cbRe frame callTargetWith recovery reports?
  cases hp : pan c.2 <;> cases hh : handlerKind n <;> simp [Run.skip, frame, callHandler, recoveryNil]

theorem fire_none (pan : Nat → Bool) (e : Event) (w : World) : fire pan e (w, none) = ((w, none), []) := rfl

theorem fire_quiet (pan : Nat → Bool) (e : Event) (st : ReSt) (h : reentersOn e = false) : fire pan e st = (st, []) := by
  unfold fire
  cases st.2 <;> simp [h]

theorem fire_armed (pan : Nat → Bool) (e : Event) (w : World) (op : Op) (h : reentersOn e = true) :
    fire pan e (w, some op) = (((step pan w op).1, none), (step pan w op).2) := by
  simp [fire, h]

theorem cbEv_eq (pan : Nat → Bool) (n : Nat) (c : Event × Nat) :
    cbEv pan n c = c.1 :: (if pan c.2 && reports? n then [Event.recovered n c.2] else []) := by
  unfold cbEv; split <;> rfl

/-- nobody armed: the threaded loop is the plain loop -/
theorem loopRe_unarmed (pan : Nat → Bool) (n : Nat) (cs : List (Event × Nat)) (w : World) :
    loopRe (cbRe pan n) cs (w, none) = ((w, none), ⟨plain pan n cs, none⟩) := by
  induction cs with
  | nil => rfl
  | cons c cs ih =>
    have h1 : (cbRe pan n c (w, none)).1 = (w, none) := rfl
    have h2 := cbRe_run pan n c (w, none)
    rw [fire_none] at h2
    simp only [loopRe, h2, h1, ih, plain, List.flatMap_cons, cbEv_eq]
    simp

theorem reentersOn_cbEv (pan : Nat → Bool) (n : Nat) (c : Event × Nat) (h : reentersOn c.1 = false) :
    ∀ x ∈ cbEv pan n c, reentersOn x = false := by
  intro x hx
  unfold cbEv at hx
  split at hx
  · simp only [List.mem_cons, List.not_mem_nil, or_false] at hx
    rcases hx with rfl | rfl
    · exact h
    · rfl
  · simp only [List.mem_cons, List.not_mem_nil, or_false] at hx
    subst hx; exact h

theorem any_plain (pan : Nat → Bool) (n : Nat) (cs : List (Event × Nat)) :
    (plain pan n cs).any reentersOn = cs.any (fun c => reentersOn c.1) := by
  induction cs with
  | nil => rfl
  | cons c cs ih =>
    simp only [plain, List.flatMap_cons, List.any_append, List.any_cons] at ih ⊢
    rw [ih, cbEv_eq]
    cases (pan c.2 && reports? n) <;> simp [reentersOn]

/-- an operation armed: world, arm and trace of the threaded loop -/
theorem loopRe_armed (pan : Nat → Bool) (n : Nat) (op : Op) (cs : List (Event × Nat)) (w : World) :
    (loopRe (cbRe pan n) cs (w, some op)).1 =
      (if cs.any (fun c => reentersOn c.1) then ((step pan w op).1, none) else (w, some op)) ∧
    (loopRe (cbRe pan n) cs (w, some op)).2.out = none ∧
    ∃ pre post, plain pan n cs = pre ++ post ∧
      (loopRe (cbRe pan n) cs (w, some op)).2.trace =
        pre ++ (if cs.any (fun c => reentersOn c.1) then (step pan w op).2 else []) ++ post ∧
      (cs.any (fun c => reentersOn c.1) = true →
        ∃ pre' e, pre = pre' ++ [e] ∧ reentersOn e = true ∧ ∀ x ∈ pre', reentersOn x = false) := by
  induction cs with
  | nil => exact ⟨rfl, rfl, [], [], rfl, rfl, fun h => by cases h⟩
  | cons c cs ih =>
    have h2 := cbRe_run pan n c (w, some op)
    cases hr : reentersOn c.1 with
    | true =>
      have hf := fire_armed pan c.1 w op hr
      have h1 : (cbRe pan n c (w, some op)).1 = ((step pan w op).1, none) := by unfold cbRe; rw [hf]
      rw [hf] at h2
      simp only [loopRe, h2, h1, loopRe_unarmed, List.any_cons, hr, Bool.true_or, if_true]
      refine ⟨trivial, trivial, [c.1], (if pan c.2 && reports? n then [Event.recovered n c.2] else []) ++ plain pan n cs, ?_, ?_,
        fun _ => ⟨[], c.1, rfl, hr, fun x hx => by cases hx⟩⟩
      · simp [plain, List.flatMap_cons, cbEv_eq]
      · simp
    | false =>
      have hf := fire_quiet pan c.1 (w, some op) hr
      have h1 : (cbRe pan n c (w, some op)).1 = (w, some op) := by unfold cbRe; rw [hf]
      rw [hf] at h2
      obtain ⟨i1, i2, pre, post, i3, i4, i5⟩ := ih
      simp only [loopRe, h2, h1, List.any_cons, hr, Bool.false_or]
      refine ⟨i1, i2, cbEv pan n c ++ pre, post, ?_, ?_, fun hfired => ?_⟩
      · simp only [plain, List.flatMap_cons] at i3 ⊢
        rw [i3, List.append_assoc]
      · rw [i4, cbEv_eq]; simp
      · obtain ⟨pre', e, j1, j2, j3⟩ := i5 hfired
        refine ⟨cbEv pan n c ++ pre', e, by rw [j1, List.append_assoc], j2, fun x hx => ?_⟩
        rcases List.mem_append.mp hx with hx | hx
        · exact reentersOn_cbEv pan n c hr x hx
        · exact j3 x hx

theorem plain_handleCbs (pan : Nat → Bool) (n : Nat) (name : Name) (ds : List (Int × Nat)) :
    plain pan n (handleCbs n name ds) = deliverAll pan n name ds := by
  unfold plain handleCbs deliverAll
  induction ds with
  | nil => rfl
  | cons d ds ih => simp only [List.map_cons, List.flatMap_cons, ih]; rfl

theorem plain_batchCbs (pan : Nat → Bool) (n : Nat) (b : Bool) (ts : List Nat) :
    plain pan n (batchCbs n b ts) = batchAll pan n b ts := by
  unfold plain batchCbs batchAll
  induction ts with
  | nil => rfl
  | cons d ds ih => simp only [List.map_cons, List.flatMap_cons, ih]; rfl

/-- with nothing armed `stepRe` is `step` -/
theorem stepRe_unarmed (pan : Nat → Bool) (w : World) (op : Op) :
    stepRe pan (w, none) op = (((step pan w op).1, none), (step pan w op).2) := by
  cases op with
  | notify n raw => simp only [stepRe, loopRe_unarmed, plain_handleCbs, step, deliverX_spec]
  | startBatch n => simp only [stepRe, loopRe_unarmed, plain_batchCbs, step, batchX_spec]
  | endBatch n => simp only [stepRe, loopRe_unarmed, plain_batchCbs, step, batchX_spec]
  | _ => rfl

/-- the shape of a re-entrant execution: `base` = the events of the outer call alone, `nested` = those of the call made
    from inside the first re-entrant callback -/
def Spliced (base nested out : List Event) (fired : Bool) : Prop :=
  ∃ pre post, base = pre ++ post ∧ out = pre ++ (if fired then nested else []) ++ post ∧
    (fired = true → ∃ pre' e, pre = pre' ++ [e] ∧ reentersOn e = true ∧ ∀ x ∈ pre', reentersOn x = false)

theorem spliced_nil (nested : List Event) : Spliced [] nested [] false :=
  ⟨[], [], rfl, rfl, fun h => by cases h⟩

/-- **an exported call during which a target calls back** (operation `op'` armed): the world afterwards is that of the
    two calls one after the other, the arm is consumed iff a re-entrant callback was made, and the events are those of
    the outer call alone with the nested call's events spliced in after the first re-entrant callback -/
theorem stepRe_armed (pan : Nat → Bool) (w : World) (op op' : Op) :
    (stepRe pan (w, some op') op).1 =
      (if (step pan w op).2.any reentersOn then ((step pan (step pan w op).1 op').1, none)
       else ((step pan w op).1, some op')) ∧
    Spliced (step pan w op).2 (step pan (step pan w op).1 op').2 (stepRe pan (w, some op') op).2
      ((step pan w op).2.any reentersOn) := by
  cases op with
  | notify n raw =>
    obtain ⟨a, _, pre, post, c, d, e⟩ := loopRe_armed pan n op' (handleCbs n (normalize raw) (notify (w n) raw)) w
    have hs : step pan w (.notify n raw) = (w, plain pan n (handleCbs n (normalize raw) (notify (w n) raw))) := by
      simp only [step, deliverX_spec, plain_handleCbs]
    simp only [hs, any_plain]
    exact ⟨a, pre, post, c, d, e⟩
  | startBatch n =>
    obtain ⟨a, _, pre, post, c, d, e⟩ :=
      loopRe_armed pan n op' (batchCbs n true (startBatch (w n)).2) (w.set n (startBatch (w n)).1)
    have hs : step pan w (.startBatch n) =
        (w.set n (startBatch (w n)).1, plain pan n (batchCbs n true (startBatch (w n)).2)) := by
      simp only [step, batchX_spec, plain_batchCbs]
    simp only [hs, any_plain]
    exact ⟨a, pre, post, c, d, e⟩
  | endBatch n =>
    obtain ⟨a, _, pre, post, c, d, e⟩ :=
      loopRe_armed pan n op' (batchCbs n false (endBatch (w n)).2) (w.set n (endBatch (w n)).1)
    have hs : step pan w (.endBatch n) =
        (w.set n (endBatch (w n)).1, plain pan n (batchCbs n false (endBatch (w n)).2)) := by
      simp only [step, batchX_spec, plain_batchCbs]
    simp only [hs, any_plain]
    exact ⟨a, pre, post, c, d, e⟩
  | register n t p raws => exact ⟨rfl, spliced_nil _⟩
  | unregister n t => exact ⟨rfl, spliced_nil _⟩
  | setEnabled n b => exact ⟨rfl, spliced_nil _⟩
  | reset n => exact ⟨rfl, spliced_nil _⟩
  | merge n m =>
    have he : (step pan w (.merge n m)).2 = [] := by simp only [step]; split <;> rfl
    refine ⟨?_, ?_⟩
    · simp only [he, List.any_nil]; rfl
    · show Spliced (step pan w (.merge n m)).2 _ (step pan w (.merge n m)).2 _
      rw [he]; exact spliced_nil _

/-- a history of exported calls with arming in between: `arm op'` replaces the armed operation -/
inductive ReOp where
  | call (op : Op)
  | arm (op : Op)

def runRe (pan : Nat → Bool) : ReSt → List ReOp → ReSt × List Event
  | st, [] => (st, [])
  | st, .arm op :: l => runRe pan (st.1, some op) l
  | st, .call op :: l =>
    let r := stepRe pan st op
    let r' := runRe pan r.1 l
    (r'.1, r.2 ++ r'.2)

/-- the sequential history a re-entrant history amounts to: the armed operation is inserted right after the call during
    which it fired -/
def flatRe (pan : Nat → Bool) : ReSt → List ReOp → List Op
  | _, [] => []
  | st, .arm op :: l => flatRe pan (st.1, some op) l
  | st, .call op :: l =>
    match st.2 with
    | some op' =>
      if (step pan st.1 op).2.any reentersOn then op :: op' :: flatRe pan (stepRe pan st op).1 l
      else op :: flatRe pan (stepRe pan st op).1 l
    | none => op :: flatRe pan (stepRe pan st op).1 l

theorem runRe_world (pan : Nat → Bool) (l : List ReOp) (st : ReSt) :
    (runRe pan st l).1.1 = (runFrom pan st.1 (flatRe pan st l)).1 := by
  induction l generalizing st with
  | nil => rfl
  | cons o l ih =>
    cases o with
    | arm op => simp only [runRe, flatRe]; exact ih _
    | call op =>
      obtain ⟨w, a⟩ := st
      cases a with
      | none =>
        simp only [runRe, flatRe, runFrom]
        rw [ih]
        rw [stepRe_unarmed]
      | some op' =>
        have h := (stepRe_armed pan w op op').1
        simp only [runRe, flatRe]
        rw [ih]
        by_cases hf : (step pan w op).2.any reentersOn = true
        · simp only [hf, if_true] at h ⊢
          simp only [runFrom, h]
        · have hf' : (step pan w op).2.any reentersOn = false := by simpa using hf
          simp only [hf', Bool.false_eq_true, if_false] at h ⊢
          simp only [runFrom, h]
/-- world of the contrast `C17.live_revalidation_refuted`: targets 6 (re-entrant, priority 5) and 0 (priority 1) are
    registered for "a" with notifier 0 -/
def reWorld : World := (run nobody [.register 0 6 5 [[97]], .register 0 0 1 [[97]]]).1

theorem notify_reWorld : notify (reWorld 0) [97] = [(5, 6), (1, 0)] := by
  simp [reWorld, notify, delivery, run, runFrom, step, World.set, World.init, register, normNames, normalize, splitDots,
    regStep, registerOne, addName, assocSet, assocGet, setIns, batchCapable, gather, gatherStep, prefixes, overlay,
    List.mergeSort, byPriority]

end Nt
