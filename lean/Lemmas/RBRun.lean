import Lemmas.RBOrder
set_option linter.unusedSimpArgs false
set_option linter.unusedVariables false
/-! C06 helper lemmas, part 3: bounded traversals as list operations; refinement over arbitrary histories. -/
namespace RB
namespace T
variable {K V σ : Type}

theorem dropWhile_none {α : Type} (p : α → Bool) (l : List α) (h : ∀ e ∈ l, p e = false) : l.dropWhile p = l := by
  cases l with
  | nil => rfl
  | cons a l => simp [List.dropWhile_cons, h a (by simp)]

/-- `traverseEqualOrGreater` visits the in-order sequence from the first entry whose key is not below `key` -/
theorem traverseGE_eq {cmp : K → K → Ordering} (hc : TotalPreorder cmp) (key : K) (f : σ → K → V → σ × Bool)
    (t : T K V) (s : σ) (n : Nat) (hs : Sorted cmp t) :
    ((traverseGE cmp key f t s n).1, (traverseGE cmp key f t s n).2.1)
      = Spec.visit f ((inorder t).dropWhile (fun e => cmp key e.1 == .gt)) s := by
  induction t generalizing s n with
  | nil => rfl
  | node c l k v r ihl ihr =>
    obtain ⟨hsl, hsr, hl, hr⟩ := hs.node
    unfold traverseGE
    split
    · rename_i hle
      have hx : (fun e : K × V => cmp key e.1 == .gt) (k, v) = false := by simpa using hle
      obtain ⟨_, e2⟩ := takeWhile_append_stop (fun e : K × V => cmp key e.1 == .gt) (inorder l) (k, v) (inorder r) hx
      simp only [inorder, e2, visit_append]
      have ih := ihl s (n + 1) hsl
      rcases hl1 : traverseGE cmp key f l s (n + 1) with ⟨s1, b1, n1⟩
      rw [hl1] at ih
      simp only at ih
      rw [← ih]
      cases b1 with
      | false => simp
      | true =>
        simp only [Spec.visit]
        rcases hf : f s1 k v with ⟨s2, b2⟩
        cases b2 with
        | false => simp
        | true =>
          simp only
          have hR : (inorder r).dropWhile (fun e : K × V => cmp key e.1 == .gt) = inorder r := by
            apply dropWhile_none
            intro e he
            have := hc.trans key k e.1 hle (hr e he)
            simpa using this
          have := ihr s2 n1 hsr
          rw [hR] at this
          exact this
    · rename_i hgt
      have hgt' : cmp key k = .gt := by
        cases hk : cmp key k with
        | gt => rfl
        | lt => exact absurd (by rw [hk]; simp) hgt
        | eq => exact absurd (by rw [hk]; simp) hgt
      have hall : ∀ a ∈ inorder l ++ [(k, v)], (fun e : K × V => cmp key e.1 == .gt) a = true := by
        intro a ha
        simp only [List.mem_append, List.mem_singleton] at ha
        rcases ha with ha | rfl
        · have := hc.gt_of_gt_of_ge hgt' (hl a ha)
          simp [this]
        · simp [hgt']
      have e0 : inorder (node c l k v r) = (inorder l ++ [(k, v)]) ++ inorder r := by simp [inorder]
      rw [e0, List.dropWhile_append_of_pos hall]
      exact ihr s (n + 1) hsr

/-- `traverseEqualOrLess` visits the reversed in-order sequence from the first entry whose key is not above `key` -/
theorem traverseLE_eq {cmp : K → K → Ordering} (hc : TotalPreorder cmp) (key : K) (f : σ → K → V → σ × Bool)
    (t : T K V) (s : σ) (n : Nat) (hs : Sorted cmp t) :
    ((traverseLE cmp key f t s n).1, (traverseLE cmp key f t s n).2.1)
      = Spec.visit f ((inorder t).reverse.dropWhile (fun e => cmp key e.1 == .lt)) s := by
  induction t generalizing s n with
  | nil => rfl
  | node c l k v r ihl ihr =>
    obtain ⟨hsl, hsr, hl, hr⟩ := hs.node
    have erev : (inorder (node c l k v r)).reverse = (inorder r).reverse ++ (k, v) :: (inorder l).reverse := by
      simp [inorder, List.reverse_append]
    unfold traverseLE
    split
    · rename_i hge
      have hx : (fun e : K × V => cmp key e.1 == .lt) (k, v) = false := by simpa using hge
      obtain ⟨_, e2⟩ := takeWhile_append_stop (fun e : K × V => cmp key e.1 == .lt) (inorder r).reverse (k, v)
        (inorder l).reverse hx
      rw [erev, e2]
      simp only [visit_append]
      have ih := ihr s (n + 1) hsr
      rcases hr1 : traverseLE cmp key f r s (n + 1) with ⟨s1, b1, n1⟩
      rw [hr1] at ih
      simp only at ih
      rw [← ih]
      cases b1 with
      | false => simp
      | true =>
        simp only [Spec.visit]
        rcases hf : f s1 k v with ⟨s2, b2⟩
        cases b2 with
        | false => simp
        | true =>
          simp only
          have hL : (inorder l).reverse.dropWhile (fun e : K × V => cmp key e.1 == .lt) = (inorder l).reverse := by
            apply dropWhile_none
            intro e he
            have := hc.not_lt_of_ge_of_ge hge (hl e (List.mem_reverse.mp he))
            simpa using this
          have := ihl s2 n1 hsl
          rw [hL] at this
          exact this
    · rename_i hlt
      have hlt' : cmp key k = .lt := by
        cases hk : cmp key k with
        | lt => rfl
        | gt => exact absurd (by rw [hk]; simp) hlt
        | eq => exact absurd (by rw [hk]; simp) hlt
      have hall : ∀ a ∈ (inorder r).reverse ++ [(k, v)], (fun e : K × V => cmp key e.1 == .lt) a = true := by
        intro a ha
        simp only [List.mem_append, List.mem_singleton, List.mem_reverse] at ha
        rcases ha with ha | rfl
        · have := hc.lt_of_lt_of_le hlt' (hr a ha)
          simp [this]
        · simp [hlt']
      have e0 : (inorder r).reverse ++ (k, v) :: (inorder l).reverse
          = ((inorder r).reverse ++ [(k, v)]) ++ (inorder l).reverse := by simp
      rw [erev, e0, List.dropWhile_append_of_pos hall]
      exact ihl s (n + 1) hsl

/-- the balance invariants of a red-black tree: equal black height, no red node with a red child, black root -/
def Inv (t : T K V) : Prop := balB t ∧ noRR t ∧ t.isRed = false

end T

namespace Spec
variable {K V : Type}

theorem length_insert (cmp : K → K → Ordering) (l : List (K × V)) (k : K) (v : V) :
    (insert cmp l k v).length = l.length + 1 := by
  have := congrArg List.length (List.takeWhile_append_dropWhile (p := fun e : K × V => cmp k e.1 != .lt) (l := l))
  simp only [List.length_append] at this
  simp only [insert, List.length_append, List.length_cons]
  omega

end Spec

namespace Tree
variable {K V : Type}

/-- the refinement relation between a tree object and the specification list -/
structure Good (cmp : K → K → Ordering) (t : Tree K V) (l : List (K × V)) : Prop where
  inorder : T.inorder t.root = l
  inv : T.Inv t.root
  sorted : T.Sorted cmp t.root
  count : t.count = l.length

theorem empty_good (cmp : K → K → Ordering) : Good cmp (empty : Tree K V) [] :=
  ⟨rfl, ⟨by simp [empty, T.balB], by simp [empty, T.noRR], rfl⟩, T.Sorted.nil, rfl⟩

theorem apply_good {cmp : K → K → Ordering} (hc : TotalPreorder cmp) (t : Tree K V) (l : List (K × V)) (op : Op K V)
    (h : Good cmp t l) : Good cmp (t.apply cmp op) (Spec.apply cmp l op) := by
  obtain ⟨hi, ⟨hb, hn, hr⟩, hs, hcnt⟩ := h
  cases op with
  | ins k v =>
    simp only [apply, insert, Spec.apply]
    refine ⟨?_, ?_, ?_, ?_⟩
    · simp only; rw [T.insert_inorder hc _ _ _ hs, hi]
    · exact T.insert_inv cmp t.root k v hb hn
    · exact T.insert_sorted hc _ _ _ hs
    · simp only; rw [Spec.length_insert, hcnt]
  | rem k =>
    simp only [apply, remove, Spec.apply]
    have hfind := T.find_eq hc t.root k hs
    cases hf : T.find cmp t.root k with
    | none =>
      simp only
      rw [hf] at hfind
      have hno := List.find?_eq_none.mp hfind.symm
      rw [hi] at hno
      have : Spec.remove cmp l k = l := List.eraseP_of_forall_not hno
      rw [this]
      exact ⟨hi, ⟨hb, hn, hr⟩, hs, hcnt⟩
    | some e =>
      simp only
      rw [hf] at hfind
      have hmem : e ∈ l := by rw [← hi]; exact List.mem_of_find?_eq_some hfind.symm
      have hp : (fun e : K × V => cmp k e.1 == .eq) e = true :=
        List.find?_some (p := fun e : K × V => cmp k e.1 == .eq) hfind.symm
      refine ⟨?_, ?_, ?_, ?_⟩
      · simp only; rw [T.remove_inorder hc _ _ hs, hi]
      · exact T.remove_inv cmp t.root k hb hn
      · exact T.remove_sorted hc _ _ hs
      · simp only [Spec.remove]
        rw [List.length_eraseP_of_mem hmem hp, hcnt]

theorem foldl_good {cmp : K → K → Ordering} (hc : TotalPreorder cmp) (ops : List (Op K V)) (t : Tree K V)
    (l : List (K × V)) (h : Good cmp t l) : Good cmp (ops.foldl (apply cmp) t) (ops.foldl (Spec.apply cmp) l) := by
  induction ops generalizing t l with
  | nil => exact h
  | cons op ops ih => exact ih _ _ (apply_good hc t l op h)

theorem run_good {cmp : K → K → Ordering} (hc : TotalPreorder cmp) (ops : List (Op K V)) :
    Good cmp (run cmp ops) (Spec.run cmp ops) :=
  foldl_good hc ops _ _ (empty_good cmp)

end Tree
/-! ### the integer order is a total preorder (used for the compare functions of the correspondence run) -/
theorem int_cmp_lt (a b : Int) (h : a < b) : compare a b = .lt := by simp [compare, compareOfLessAndEq, h]
theorem int_cmp_eq (a : Int) : compare a a = .eq := by simp [compare, compareOfLessAndEq]
theorem int_cmp_gt (a b : Int) (h : b < a) : compare a b = .gt := by
  have h1 : ¬ a < b := by omega
  have h2 : ¬ a = b := by omega
  simp [compare, compareOfLessAndEq, h1, h2]
theorem int_cmp_swap (a b : Int) : compare b a = (compare a b).swap := by
  rcases Int.lt_trichotomy a b with h | h | h
  · rw [int_cmp_lt a b h, int_cmp_gt b a h]; rfl
  · subst h; rw [int_cmp_eq]; rfl
  · rw [int_cmp_gt a b h, int_cmp_lt b a h]; rfl
theorem int_cmp_le_iff (a b : Int) : compare a b ≠ .gt ↔ a ≤ b := by
  rcases Int.lt_trichotomy a b with h | h | h
  · rw [int_cmp_lt a b h]; simp; omega
  · subst h; rw [int_cmp_eq]; simp
  · rw [int_cmp_gt a b h]; simp; omega
theorem int_totalPreorder : TotalPreorder (fun a b : Int => compare a b) :=
  ⟨int_cmp_swap, fun a b c => by rw [int_cmp_le_iff, int_cmp_le_iff, int_cmp_le_iff]; omega⟩

/-! ### the bounded traversals compare each node at most once -/
namespace T
variable {K V σ : Type}
theorem traverseGE_cmps (cmp : K → K → Ordering) (key : K) (f : σ → K → V → σ × Bool) (t : T K V) (s : σ) (n : Nat) :
    n ≤ (traverseGE cmp key f t s n).2.2 ∧ (traverseGE cmp key f t s n).2.2 ≤ n + size t := by
  induction t generalizing s n with
  | nil => simp [traverseGE, size]
  | node c l k v r ihl ihr =>
    unfold traverseGE
    simp only [size]
    split
    · have h1 := ihl s (n + 1)
      rcases hl1 : traverseGE cmp key f l s (n + 1) with ⟨s1, b1, n1⟩
      rw [hl1] at h1
      simp only at h1
      cases b1 with
      | false => simp only; omega
      | true =>
        simp only
        rcases hf : f s1 k v with ⟨s2, b2⟩
        cases b2 with
        | false => simp only; omega
        | true =>
          simp only
          have h2 := ihr s2 n1
          omega
    · have h2 := ihr s (n + 1)
      omega
theorem traverseLE_cmps (cmp : K → K → Ordering) (key : K) (f : σ → K → V → σ × Bool) (t : T K V) (s : σ) (n : Nat) :
    n ≤ (traverseLE cmp key f t s n).2.2 ∧ (traverseLE cmp key f t s n).2.2 ≤ n + size t := by
  induction t generalizing s n with
  | nil => simp [traverseLE, size]
  | node c l k v r ihl ihr =>
    unfold traverseLE
    simp only [size]
    split
    · have h1 := ihr s (n + 1)
      rcases hl1 : traverseLE cmp key f r s (n + 1) with ⟨s1, b1, n1⟩
      rw [hl1] at h1
      simp only at h1
      cases b1 with
      | false => simp only; omega
      | true =>
        simp only
        rcases hf : f s1 k v with ⟨s2, b2⟩
        cases b2 with
        | false => simp only; omega
        | true =>
          simp only
          have h2 := ihl s2 n1
          omega
    · have h2 := ihl s (n + 1)
      omega
end T
end RB
