import Lemmas.MutexLin
import Model.TraceProto
/-! Synchronous mode: the micro-steps of `sink.Write` compute the sequential `write`; consequences of
    `Mutex.linearizable_fun`.  Core-only. -/
namespace TraceSync
open Mutex

theorem runs_write (errAt : Nat → Bool) : ∀ (line : Bytes) (s : Sink),
    Runs (sys errAt) { rest := line } s (errAt s.calls) { out := s.out ++ line, calls := s.calls + 1 }
  | [], s => by
    refine Runs.step (by simp [sys]) ?_
    have h : Runs (sys errAt) { rest := [], result := some (errAt s.calls) } { s with calls := s.calls + 1 }
        (errAt s.calls) { s with calls := s.calls + 1 } := Runs.fin rfl
    simpa [sys] using h
  | b :: bs, s => by
    refine Runs.step (by simp [sys]) ?_
    have := runs_write errAt bs { s with out := s.out ++ [b] }
    simpa [sys, List.append_assoc] using this


/-- the bytes of a sequence of (goroutine, line) pairs, one line after the other -/
def lines (l : List (Nat × Bytes)) : Bytes := (l.map (·.2)).flatten

/-- the results of a sequence of `Write` calls when the first one is the sink's call number `n` -/
def resultsFrom (errAt : Nat → Bool) : Nat → List (Nat × Bytes) → List (Nat × Bytes × Bool)
  | _, [] => []
  | n, (t, line) :: l => (t, line, errAt n) :: resultsFrom errAt (n + 1) l

theorem seqExec_write (errAt : Nat → Bool) : ∀ (l : List (Nat × Bytes)) (s : Sink),
    seqExec (write errAt) s l =
      (resultsFrom errAt s.calls l, { out := s.out ++ lines l, calls := s.calls + l.length })
  | [], s => by simp [seqExec, resultsFrom, lines]
  | (t, line) :: l, s => by
    simp only [seqExec, seqExec_write errAt l, write, resultsFrom, lines, List.map_cons, List.flatten_cons,
      List.length_cons, List.append_assoc]
    simp only [Nat.add_assoc, Nat.add_comm 1]

/-- inside `Write`: what has reached the sink so far is a prefix of the line, after everything that was there before -/
theorem reach_prefix (errAt : Nat → Bool) (line : Bytes) (sm : Sink) (k : K) (s : Sink)
    (h : Reach (sys errAt) { rest := line } sm k s) :
    ∃ pre, s.out = sm.out ++ pre ∧ pre ++ k.rest = line := by
  induction h with
  | refl => exact ⟨[], by simp, by simp⟩
  | tail h' hd ih =>
    obtain ⟨pre, h1, h2⟩ := ih
    rename_i k' s'
    cases hr : k'.rest with
    | nil => exact ⟨pre, by simp [sys, hr, h1], by simp [sys, hr]; rw [hr] at h2; simpa using h2⟩
    | cons b bs =>
      refine ⟨pre ++ [b], by simp [sys, hr, h1], ?_⟩
      rw [hr] at h2
      simp [sys, hr, ← h2]

end TraceSync
