import Lemmas.TaskQueue3
/-! C15: the threaded model `TQW` (Model/TaskQueue.lean): `tnext` = `TStep`; simulation by `TQ.Step`; the invariants that
    tie the worker threads to the bookkeeping; derived bound, recovery, handler calls, liveness. Core Lean only. -/
set_option linter.unusedSimpArgs false
namespace TQW
open TQ

/-! ### `tnext` and `TStep` are the same relation -/

theorem tnext_sound (v : Variant) (c : Cfg) (s s' : TS) (l : TLabel) (h : tnext v c s l = some s') : TStep v c s s' := by
  cases l <;> simp only [tnext] at h
  case q l =>
    split at h
    · cases h
    · next hw =>
      cases hn : next (noH c) s.q l with
      | none => rw [hn] at h; cases h
      | some q' =>
        rw [hn] at h; cases h
        exact TStep.other s l q' (by simpa using hw) hn
  case take i =>
    split at h
    · next t rest hi hq => cases h; exact TStep.take s i t rest hi hq
    · cases h
  case ret i =>
    split at h
    · next t hi =>
      split at h
      · cases h
      · next hp => cases h; exact TStep.ret s i t hi hp
    · cases h
  case panic i =>
    split at h
    · next t hi =>
      split at h
      · next hp => cases h; exact TStep.panic s i t hi hp
      · cases h
    · cases h
  case recoverH i =>
    split at h
    · next t hi =>
      split at h
      · next hg => cases h; exact TStep.recoverH s i t hi hg.1 hg.2
      · cases h
    · cases h
  case recoverN i =>
    split at h
    · next t hi =>
      split at h
      · next hg => cases h; exact TStep.recoverN s i t hi hg.1 hg.2
      · cases h
    · cases h
  case die i =>
    split at h
    · next t hi =>
      split at h
      · next hg => cases h; exact TStep.die s i t hi hg
      · cases h
    · cases h
  case handlerRet i =>
    split at h
    · next t hi => cases h; exact TStep.handlerRet s i t hi
    · cases h
  case handlerPanic i =>
    split at h
    · next t hi => cases h; exact TStep.handlerPanic s i t hi
    · cases h
  case guardRecover i =>
    split at h
    · next t hi => cases h; exact TStep.guardRecover s i t hi
    · cases h
  case report i =>
    split at h
    · next hi =>
      split at h
      · next hg => cases h; exact TStep.report s i hi hg
      · cases h
    · cases h
  case nestedSubmit i =>
    split at h
    · next t k hi =>
      split at h
      · next hg => cases h; exact TStep.nestedSubmit s i t k hi hg.1 hg.2
      · cases h
    · cases h
  case dispStart =>
    split at h
    · next i hp =>
      split at h
      · next b hb =>
        split at h
        · next hg => cases h; exact TStep.dispStart s i b hp hb hg.1 hg.2.1 hg.2.2.1 hg.2.2.2
        · cases h
      · cases h
    · cases h
  case dispEnd =>
    split at h
    · next b i hd hp => cases h; exact TStep.dispEnd s i b hd hp
    · cases h

theorem tnext_complete (v : Variant) (c : Cfg) (s s' : TS) (h : TStep v c s s') : ∃ l, tnext v c s l = some s' := by
  cases h
  case other l q' hl h => exact ⟨.q l, by simp [tnext, hl, h]⟩
  case take i t rest hi hq => exact ⟨.take i, by simp [tnext, hi, hq]⟩
  case ret i t hi hp => exact ⟨.ret i, by simp [tnext, hi, hp]⟩
  case panic i t hi hp => exact ⟨.panic i, by simp [tnext, hi, hp]⟩
  case recoverH i t hi hv hh => exact ⟨.recoverH i, by simp [tnext, hi, hv, hh]⟩
  case recoverN i t hi hv hh => exact ⟨.recoverN i, by simp [tnext, hi, hv, hh]⟩
  case die i t hi hv => exact ⟨.die i, by simp [tnext, hi, hv]⟩
  case handlerRet i t hi => exact ⟨.handlerRet i, by simp [tnext, hi]⟩
  case handlerPanic i t hi => exact ⟨.handlerPanic i, by simp [tnext, hi]⟩
  case guardRecover i t hi => exact ⟨.guardRecover i, by simp [tnext, hi]⟩
  case report i hi hr => exact ⟨.report i, by simp [tnext, hi, hr]⟩
  case nestedSubmit i t k hi h1 h2 => exact ⟨.nestedSubmit i, by simp [tnext, hi, h1, h2]⟩
  case dispStart i b hp hb hv hd hw hf => exact ⟨.dispStart, by simp [tnext, hp, hb, hv, hd, hw, hf]⟩
  case dispEnd i b hd hp => exact ⟨.dispEnd, by simp [tnext, hd, hp]⟩

theorem tstep_iff_tnext (v : Variant) (c : Cfg) (s s' : TS) : TStep v c s s' ↔ ∃ l, tnext v c s l = some s' :=
  ⟨tnext_complete v c s s', fun ⟨l, h⟩ => tnext_sound v c s s' l h⟩

theorem treachable_trunLabels (v : Variant) (c : Cfg) (ls : List TLabel) (s s' : TS) (hs : TReachable v c s)
    (h : trunLabels v c s ls = some s') : TReachable v c s' := by
  induction ls generalizing s with
  | nil => simp [trunLabels] at h; subst h; exact hs
  | cons l ls ih =>
    simp only [trunLabels] at h
    split at h
    · next s1 h1 => exact ih s1 (TReachable.step s s1 hs (tnext_sound v c s s1 l h1)) h
    · cases h

/-! ### counting worker threads -/

def cnt (f : W → Nat) : List W → Nat
  | [] => 0
  | w :: r => f w + cnt f r

def wrun : W → Nat | .running _ _ => 1 | _ => 0
def wmid : W → Nat | .unwinding _ | .handling _ | .unwindingH _ | .reporting => 1 | _ => 0
def widle : W → Nat | .idle => 1 | _ => 0
def wdead : W → Nat | .dead => 1 | _ => 0
/-- distance of a thread from `ready <- true` beyond what the bookkeeping counts (for the termination variant) -/
def wextra : W → Nat | .unwinding _ => 3 | .handling _ => 2 | .unwindingH _ => 1 | _ => 0

theorem cnt_append (f : W → Nat) (a b : List W) : cnt f (a ++ b) = cnt f a + cnt f b := by
  induction a with
  | nil => simp [cnt]
  | cons w a ih => simp [cnt, ih]; omega

theorem runningOf_append (a b : List W) : runningOf (a ++ b) = runningOf a ++ runningOf b := by
  induction a with
  | nil => simp [runningOf]
  | cons w a ih => cases w <;> simp [runningOf, ih]

theorem runningOf_length (ws : List W) : (runningOf ws).length = cnt wrun ws := by
  induction ws with
  | nil => rfl
  | cons w a ih => cases w <;> simp [runningOf, cnt, wrun, ih] <;> omega

theorem cnt_total (ws : List W) : cnt wrun ws + cnt wmid ws + cnt widle ws + cnt wdead ws = ws.length := by
  induction ws with
  | nil => rfl
  | cons w a ih => cases w <;> simp [cnt, wrun, wmid, widle, wdead] <;> omega

/-- the thread at index i, and the list with that thread replaced -/
theorem split_at (ws : List W) (i : Nat) (w w' : W) (h : ws[i]? = some w) :
    ∃ a b, ws = a ++ w :: b ∧ ws.set i w' = a ++ w' :: b := by
  induction ws generalizing i with
  | nil => simp at h
  | cons x r ih =>
    cases i with
    | zero => simp at h; subst h; exact ⟨[], r, rfl, rfl⟩
    | succ i =>
      simp at h
      obtain ⟨a, b, h1, h2⟩ := ih i h
      exact ⟨x :: a, b, by simp [h1], by simp [h2]⟩

theorem exists_of_cnt_pos (f : W → Nat) (ws : List W) (h : 0 < cnt f ws) : ∃ (i : Nat) (w : W), ws[i]? = some w ∧ 0 < f w := by
  induction ws with
  | nil => simp [cnt] at h
  | cons x r ih =>
    by_cases hx : 0 < f x
    · exact ⟨0, x, rfl, hx⟩
    · have : 0 < cnt f r := by simp only [cnt] at h; omega
      obtain ⟨i, w, h1, h2⟩ := ih this
      exact ⟨i + 1, w, by simpa using h1, h2⟩

theorem exists_running_of_mem (ws : List W) (t : Nat) (h : t ∈ runningOf ws) :
    ∃ (i k : Nat), ws[i]? = some (W.running t k) := by
  induction ws with
  | nil => simp [runningOf] at h
  | cons x r ih =>
    cases x
    case running t' k =>
      simp only [runningOf, List.mem_cons] at h
      rcases h with h | h
      · subst h; exact ⟨0, k, rfl⟩
      · obtain ⟨i, k', hi⟩ := ih h; exact ⟨i + 1, k', by simpa using hi⟩
    all_goals
      simp only [runningOf] at h
      obtain ⟨i, k', hi⟩ := ih h
      exact ⟨i + 1, k', by simpa using hi⟩

/-! ### non-worker rules do not touch the workers' bookkeeping -/

theorem next_keeps (c : Cfg) (q q' : S) (l : Label) (hl : isWorker l = false) (h : next c q l = some q') :
    q'.running = q.running ∧ q'.reporting = q.reporting := by
  cases l
  case take => simp [isWorker] at hl
  case finish t => simp [isWorker] at hl
  case report => simp [isWorker] at hl
  all_goals
    simp only [next] at h
    (repeat' split at h) <;> first | (cases h; exact ⟨rfl, rfl⟩) | cases h

/-! ### the threads and the bookkeeping; simulation by `TQ.Step` -/

/-- what ties the worker threads to the bookkeeping fields of the shared part (for programs that recover in `runTask`
    and whose dispatcher does not run tasks; tasks may or may not submit to their own queue) -/
structure Link (c : Cfg) (s : TS) : Prop where
  perm : s.q.running.Perm (runningOf s.ws)
  rep : s.q.reporting = cnt wmid s.ws
  len : s.ws.length = c.workers
  nodead : cnt wdead s.ws = 0
  nodexec : s.dexec = none

theorem link_init (c : Cfg) : Link c (init c) := by
  have h : ∀ n, runningOf (List.replicate n W.idle) = [] ∧ cnt wmid (List.replicate n W.idle) = 0 ∧
      cnt wdead (List.replicate n W.idle) = 0 := by
    intro n
    induction n with
    | zero => exact ⟨rfl, rfl, rfl⟩
    | succ n ih => simp [List.replicate_succ, runningOf, cnt, wmid, wdead, ih]
  refine ⟨?_, ?_, ?_, ?_, rfl⟩
  · simp [init, (h c.workers).1]
  · simp [init, (h c.workers).2.1]
  · simp [init]
  · simp [init, (h c.workers).2.2]

/-- every step of the threaded program is a step of `TQ.Step` on the shared part, or leaves it unchanged (recovery and
    handler steps), and keeps the link -/
theorem sim_step (v : Variant) (c : Cfg) (hv : v.recovers = true) (hd : v.dispatcherRuns = false) (s s' : TS)
    (L : Link c s) (st : TStep v c s s') :
    ((Step (noH c) s.q s'.q ∧ cnt wextra s'.ws ≤ cnt wextra s.ws + 3) ∨
     (s'.q = s.q ∧ cnt wextra s'.ws < cnt wextra s.ws)) ∧ Link c s' := by
  obtain ⟨Lp, Lr, Ll, Ld, Lx⟩ := L
  cases st
  case other l q' hl h =>
    have hk := next_keeps (noH c) s.q q' l hl h
    refine ⟨Or.inl ⟨next_sound _ _ _ _ h, Nat.le_add_right _ _⟩, ?_, ?_, Ll, Ld, Lx⟩
    · show q'.running.Perm (runningOf s.ws); rw [hk.1]; exact Lp
    · show q'.reporting = cnt wmid s.ws; rw [hk.2]; exact Lr
  case take i t rest hi hq =>
    obtain ⟨a, b, h1, h2⟩ := split_at s.ws i .idle (.running t (v.nest t)) hi
    have htot := cnt_total s.ws
    have hlen := runningOf_length s.ws
    have hidle : 1 ≤ cnt widle s.ws := by rw [h1, cnt_append]; simp [cnt, widle]; omega
    have hguard : s.q.running.length + s.q.reporting < (noH c).workers := by
      have := Lp.length_eq
      show _ < c.workers
      omega
    refine ⟨Or.inl ⟨Step.take s.q t rest hq hguard, (by show cnt wextra (s.ws.set i _) ≤ _; rw [h2, cnt_append, h1, cnt_append]; simp [cnt, wextra] <;> omega)⟩, ?_, ?_, ?_, ?_, Lx⟩
    · show (t :: s.q.running).Perm (runningOf (s.ws.set i _))
      rw [h2, runningOf_append]
      simp only [runningOf]
      have : s.q.running.Perm (runningOf a ++ runningOf b) := by
        have := Lp; rw [h1, runningOf_append] at this; simpa [runningOf] using this
      exact (List.Perm.cons t this).trans List.perm_middle.symm
    · show s.q.reporting = cnt wmid (s.ws.set i _)
      rw [h2, cnt_append, Lr, h1, cnt_append]; simp [cnt, wmid]
    · simpa using Ll
    · show cnt wdead (s.ws.set i _) = 0
      rw [h2, cnt_append]; rw [h1, cnt_append] at Ld; simpa [cnt, wdead] using Ld
  case ret i t hi hp =>
    obtain ⟨a, b, h1, h2⟩ := split_at s.ws i (.running t 0) .reporting hi
    have hperm : s.q.running.Perm (t :: (runningOf a ++ runningOf b)) := by
      have := Lp; rw [h1, runningOf_append] at this
      simp only [runningOf] at this
      exact this.trans List.perm_middle
    have hmem : t ∈ s.q.running := hperm.mem_iff.mpr (by simp)
    refine ⟨Or.inl ⟨Step.finish s.q t hmem, (by show cnt wextra (s.ws.set i _) ≤ _; rw [h2, cnt_append, h1, cnt_append]; simp [cnt, wextra] <;> omega)⟩, ?_, ?_, ?_, ?_, Lx⟩
    · show (s.q.running.erase t).Perm (runningOf (s.ws.set i _))
      rw [h2, runningOf_append]
      simp only [runningOf]
      have := hperm.erase t
      simpa using this
    · show s.q.reporting + 1 = cnt wmid (s.ws.set i _)
      rw [h2, cnt_append, Lr, h1, cnt_append]; simp [cnt, wmid]; omega
    · simpa using Ll
    · show cnt wdead (s.ws.set i _) = 0
      rw [h2, cnt_append]; rw [h1, cnt_append] at Ld; simpa [cnt, wdead] using Ld
  case panic i t hi hp =>
    obtain ⟨a, b, h1, h2⟩ := split_at s.ws i (.running t 0) (.unwinding t) hi
    have hperm : s.q.running.Perm (t :: (runningOf a ++ runningOf b)) := by
      have := Lp; rw [h1, runningOf_append] at this
      simp only [runningOf] at this
      exact this.trans List.perm_middle
    have hmem : t ∈ s.q.running := hperm.mem_iff.mpr (by simp)
    refine ⟨Or.inl ⟨Step.finish s.q t hmem, (by show cnt wextra (s.ws.set i _) ≤ _; rw [h2, cnt_append, h1, cnt_append]; simp [cnt, wextra] <;> omega)⟩, ?_, ?_, ?_, ?_, Lx⟩
    · show (s.q.running.erase t).Perm (runningOf (s.ws.set i _))
      rw [h2, runningOf_append]
      simp only [runningOf]
      have := hperm.erase t
      simpa using this
    · show s.q.reporting + 1 = cnt wmid (s.ws.set i _)
      rw [h2, cnt_append, Lr, h1, cnt_append]; simp [cnt, wmid]; omega
    · simpa using Ll
    · show cnt wdead (s.ws.set i _) = 0
      rw [h2, cnt_append]; rw [h1, cnt_append] at Ld; simpa [cnt, wdead] using Ld
  case recoverH i t hi hv' hh =>
    obtain ⟨a, b, h1, h2⟩ := split_at s.ws i (.unwinding t) (.handling t) hi
    refine ⟨Or.inr ⟨rfl, (by show cnt wextra (s.ws.set i _) < _; rw [h2, cnt_append, h1, cnt_append]; simp [cnt, wextra] <;> omega)⟩, ?_, ?_, ?_, ?_, Lx⟩
    · show s.q.running.Perm (runningOf (s.ws.set i _))
      rw [h2, runningOf_append]; rw [h1, runningOf_append] at Lp; simpa [runningOf] using Lp
    · show s.q.reporting = cnt wmid (s.ws.set i _)
      rw [h2, cnt_append, Lr, h1, cnt_append]; simp [cnt, wmid]
    · simpa using Ll
    · show cnt wdead (s.ws.set i _) = 0
      rw [h2, cnt_append]; rw [h1, cnt_append] at Ld; simpa [cnt, wdead] using Ld
  case recoverN i t hi hv' hh =>
    obtain ⟨a, b, h1, h2⟩ := split_at s.ws i (.unwinding t) .reporting hi
    refine ⟨Or.inr ⟨rfl, (by show cnt wextra (s.ws.set i _) < _; rw [h2, cnt_append, h1, cnt_append]; simp [cnt, wextra] <;> omega)⟩, ?_, ?_, ?_, ?_, Lx⟩
    · show s.q.running.Perm (runningOf (s.ws.set i _))
      rw [h2, runningOf_append]; rw [h1, runningOf_append] at Lp; simpa [runningOf] using Lp
    · show s.q.reporting = cnt wmid (s.ws.set i _)
      rw [h2, cnt_append, Lr, h1, cnt_append]; simp [cnt, wmid]
    · simpa using Ll
    · show cnt wdead (s.ws.set i _) = 0
      rw [h2, cnt_append]; rw [h1, cnt_append] at Ld; simpa [cnt, wdead] using Ld
  case die i t hi hv' => rw [hv] at hv'; cases hv'
  case handlerRet i t hi =>
    obtain ⟨a, b, h1, h2⟩ := split_at s.ws i (.handling t) .reporting hi
    refine ⟨Or.inr ⟨rfl, (by show cnt wextra (s.ws.set i _) < _; rw [h2, cnt_append, h1, cnt_append]; simp [cnt, wextra] <;> omega)⟩, ?_, ?_, ?_, ?_, Lx⟩
    · show s.q.running.Perm (runningOf (s.ws.set i _))
      rw [h2, runningOf_append]; rw [h1, runningOf_append] at Lp; simpa [runningOf] using Lp
    · show s.q.reporting = cnt wmid (s.ws.set i _)
      rw [h2, cnt_append, Lr, h1, cnt_append]; simp [cnt, wmid]
    · simpa using Ll
    · show cnt wdead (s.ws.set i _) = 0
      rw [h2, cnt_append]; rw [h1, cnt_append] at Ld; simpa [cnt, wdead] using Ld
  case handlerPanic i t hi =>
    obtain ⟨a, b, h1, h2⟩ := split_at s.ws i (.handling t) (.unwindingH t) hi
    refine ⟨Or.inr ⟨rfl, (by show cnt wextra (s.ws.set i _) < _; rw [h2, cnt_append, h1, cnt_append]; simp [cnt, wextra] <;> omega)⟩, ?_, ?_, ?_, ?_, Lx⟩
    · show s.q.running.Perm (runningOf (s.ws.set i _))
      rw [h2, runningOf_append]; rw [h1, runningOf_append] at Lp; simpa [runningOf] using Lp
    · show s.q.reporting = cnt wmid (s.ws.set i _)
      rw [h2, cnt_append, Lr, h1, cnt_append]; simp [cnt, wmid]
    · simpa using Ll
    · show cnt wdead (s.ws.set i _) = 0
      rw [h2, cnt_append]; rw [h1, cnt_append] at Ld; simpa [cnt, wdead] using Ld
  case guardRecover i t hi =>
    obtain ⟨a, b, h1, h2⟩ := split_at s.ws i (.unwindingH t) .reporting hi
    refine ⟨Or.inr ⟨rfl, (by show cnt wextra (s.ws.set i _) < _; rw [h2, cnt_append, h1, cnt_append]; simp [cnt, wextra] <;> omega)⟩, ?_, ?_, ?_, ?_, Lx⟩
    · show s.q.running.Perm (runningOf (s.ws.set i _))
      rw [h2, runningOf_append]; rw [h1, runningOf_append] at Lp; simpa [runningOf] using Lp
    · show s.q.reporting = cnt wmid (s.ws.set i _)
      rw [h2, cnt_append, Lr, h1, cnt_append]; simp [cnt, wmid]
    · simpa using Ll
    · show cnt wdead (s.ws.set i _) = 0
      rw [h2, cnt_append]; rw [h1, cnt_append] at Ld; simpa [cnt, wdead] using Ld
  case report i hi hr =>
    obtain ⟨a, b, h1, h2⟩ := split_at s.ws i .reporting .idle hi
    have hpos : 0 < s.q.reporting := by rw [Lr, h1, cnt_append]; simp [cnt, wmid]; omega
    refine ⟨Or.inl ⟨Step.report s.q hpos hr, (by show cnt wextra (s.ws.set i _) ≤ _; rw [h2, cnt_append, h1, cnt_append]; simp [cnt, wextra] <;> omega)⟩, ?_, ?_, ?_, ?_, Lx⟩
    · show s.q.running.Perm (runningOf (s.ws.set i _))
      rw [h2, runningOf_append]; rw [h1, runningOf_append] at Lp; simpa [runningOf] using Lp
    · show s.q.reporting - 1 = cnt wmid (s.ws.set i _)
      rw [h2, cnt_append, Lr, h1, cnt_append]; simp [cnt, wmid]; omega
    · simpa using Ll
    · show cnt wdead (s.ws.set i _) = 0
      rw [h2, cnt_append]; rw [h1, cnt_append] at Ld; simpa [cnt, wdead] using Ld
  case nestedSubmit i t k hi h1' h2' =>
    obtain ⟨a, b, h1, h2⟩ := split_at s.ws i (.running t (k + 1)) (.running t k) hi
    refine ⟨Or.inl ⟨Step.submit s.q false h1' h2', (by show cnt wextra (s.ws.set i _) ≤ _; rw [h2, cnt_append, h1, cnt_append]; simp [cnt, wextra] <;> omega)⟩, ?_, ?_, ?_, ?_, Lx⟩
    · show s.q.running.Perm (runningOf (s.ws.set i _))
      rw [h2, runningOf_append]; rw [h1, runningOf_append] at Lp; simpa [runningOf] using Lp
    · show s.q.reporting = cnt wmid (s.ws.set i _)
      rw [h2, cnt_append, Lr, h1, cnt_append]; simp [cnt, wmid]
    · simpa using Ll
    · show cnt wdead (s.ws.set i _) = 0
      rw [h2, cnt_append]; rw [h1, cnt_append] at Ld; simpa [cnt, wdead] using Ld
  case dispStart i b hp hb hv' hd' hw hf => rw [hd] at hv'; cases hv'
  case dispEnd i b hd' hp => rw [Lx] at hd'; cases hd'

/-- **simulation**: the shared part of every reachable state of the threaded program is a reachable state of `TQ.Step`
    (so every invariant of Lemmas/TaskQueue*.lean holds of it), and the link holds -/
theorem simulation (v : Variant) (c : Cfg) (hv : v.recovers = true) (hd : v.dispatcherRuns = false) (s : TS)
    (h : TReachable v c s) : Reachable (noH c) s.q ∧ Link c s := by
  induction h with
  | init => exact ⟨Reachable.init, link_init c⟩
  | step s s' _ st ih =>
    obtain ⟨h1, h2⟩ := sim_step v c hv hd s s' ih.2 st
    refine ⟨?_, h2⟩
    rcases h1 with h1 | h1
    · exact Reachable.step _ _ ih.1 h1.1
    · rw [h1.1]; exact ih.1

end TQW
