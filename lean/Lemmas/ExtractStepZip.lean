import Lemmas.ExtractStepTar
/-! C19: one iteration of the zip loop on a ready path, kind by kind, and the two loops' entry conditions. -/
namespace Ex

/-- what the tar loop needs of a single entry: one of the four extracted kinds, complete payload, and a symbolic
    link has a non-empty target (`symlink("", p)` is `ENOENT`) -/
def TarEntryOK (e : Entry) : Prop :=
  (e.kind = .reg ∨ e.kind = .dir ∨ e.kind = .symlink ∨ e.kind = .link) ∧ e.short = false ∧
  (e.kind = .symlink → e.link ≠ [])

/-- what the zip loop needs of a single entry: the kind is what `zipKind` yields (file, directory, symbolic link),
    the payload is readable (no checksum error), a symbolic link's payload (= target) is non-empty -/
def ZipEntryOK (e : Entry) : Prop :=
  (e.kind = .reg ∨ e.kind = .dir ∨ e.kind = .symlink) ∧ e.short = false ∧ (e.kind = .symlink → e.link ≠ [])

/-- `zipKind` yields only these three kinds -/
theorem zipKind_cases (s d : Bool) (name : List Nat) :
    zipKind s d name = .reg ∨ zipKind s d name = .dir ∨ zipKind s d name = .symlink := by
  unfold zipKind
  split
  · exact Or.inr (Or.inr rfl)
  · split
    · exact Or.inr (Or.inl rfl)
    · exact Or.inl rfl

theorem tarOne_step (root : P) (hr : GoodPath root) (mask : Nat) (fs : FS) (e : Entry) (hw : WF fs)
    (hok : TarEntryOK e) (hrd : Ready fs root (cleanJoin root e.name))
    (hlk : e.kind = .link → ∃ ino, fs.get (cleanJoin root e.link) = some (.file ino) ∧
      ∃ c t, cleanJoin root e.link = root ++ c :: t) :
    Step root mask e fs (tarOne fs root mask e) := by
  obtain ⟨hk, hs, hl⟩ := hok
  rcases hk with hk | hk | hk | hk
  · exact tarOne_reg_step fs root hr mask e hk hs hrd
  · exact tarOne_dir_step fs root hr mask e hk hrd
  · exact tarOne_symlink_step fs root hr mask e hk (hl hk) hrd
  · obtain ⟨ino, h1, h2⟩ := hlk hk
    exact tarOne_link_step fs hw root hr mask e hk ino h1 h2 hrd

theorem zipOne_dir_step (fs : FS) (root : P) (hr : GoodPath root) (mask : Nat) (e : Entry) (hk : e.kind = .dir)
    (hrd : Ready fs root (cleanJoin root e.name)) : Step root mask e fs (zipOne fs root mask e) := by
  have hg := hrd.guard
  have hl : ∀ d, lexOK root (cleanJoin root e.name) d = true := hrd.lex hr (cleanJoin_good root e.name hr)
  obtain ⟨fs1, hmk, hch, hino, hdirs⟩ := mkdirAll_ok fs (cleanJoin root e.name) (perm e.mode &&& mask) hrd.mk_self
  have hres : zipOne fs root mask e = (fs1, true) := by
    simp [zipOne, hl, hg, hk, hmk]
  rw [hres]
  have hlen : 1 ≤ (cleanJoin root e.name).length := by have := below_len hrd.below; omega
  have hnode : fs1.get (cleanJoin root e.name) = some (.dir (perm e.mode &&& mask)) :=
    mkdirFrom_last _ _ _ 1 fs fs1 hmk hlen (Nat.le_refl _) (by omega) hrd.absent
  have hpm : pmode e = perm e.mode := by simp [pmode, hk]
  refine ⟨rfl, ⟨_, hnode, ?_⟩, ?_, ?_, ?_, ?_⟩
  · refine ⟨fun h => ?_, fun _ => rfl, fun h => ?_, fun h => ?_⟩ <;> (rw [hk] at h; cases h)
  · intro q _; rw [hpm]; exact hch q
  · intro i _; show fs1.inodes[i]? = _; rw [hino]
  · show fs.inodes.size ≤ fs1.inodes.size; rw [hino]; exact Nat.le_refl _
  · intro h; rw [hk] at h; cases h

theorem zipOne_reg_step (fs : FS) (root : P) (hr : GoodPath root) (mask : Nat) (e : Entry) (hk : e.kind = .reg)
    (hs : e.short = false) (hrd : Ready fs root (cleanJoin root e.name)) :
    Step root mask e fs (zipOne fs root mask e) := by
  have hg := hrd.guard
  have hl : ∀ d, lexOK root (cleanJoin root e.name) d = true := hrd.lex hr (cleanJoin_good root e.name hr)
  obtain ⟨fs1, hmk, hino, habs1, hpar1, hch⟩ := parent_phase fs root mask _ hrd
  have hw : writeFile fs1 (cleanJoin root e.name) (perm e.mode &&& mask) e.data =
      some (({ fs1 with inodes := fs1.inodes.push { data := e.data, mode := perm e.mode &&& mask } }).put
        (cleanJoin root e.name) (.file fs1.inodes.size)) := by
    simp [writeFile, habs1, hpar1]
  have hres : zipOne fs root mask e =
      ((({ fs1 with inodes := fs1.inodes.push { data := e.data, mode := perm e.mode &&& mask } }).put
        (cleanJoin root e.name) (.file fs1.inodes.size)), true) := by
    simp [zipOne, hl, hg, hk, hmk, hw, hs]
  rw [hres]
  have hpm : pmode e = 0o755 := by simp [pmode, hk]
  refine ⟨rfl, ⟨_, get_put_same _ _ _, ?_⟩, ?_, ?_, ?_, ?_⟩
  · refine ⟨fun _ => ⟨fs1.inodes.size, { data := e.data, mode := perm e.mode &&& mask }, rfl, ?_, rfl, rfl⟩,
      fun h => ?_, fun h => ?_, fun h => ?_⟩
    · show (fs1.inodes.push _)[fs1.inodes.size]? = _
      simp
    all_goals (rw [hk] at h; cases h)
  · intro q hq
    rw [hpm]
    show (FS.put _ _ _).get q = _ ∨ _ ∧ (FS.put _ _ _).get q = _ ∧ _
    rw [get_put_other _ _ _ _ hq, get_inodes]
    exact change_parent fs fs1 _ _ hch q
  · intro i hi
    show (fs1.inodes.push _)[i]? = _
    rw [hino, Array.getElem?_push]; simp; omega
  · show fs.inodes.size ≤ (fs1.inodes.push _).size
    rw [Array.size_push, hino]; omega
  · intro _; show (FS.put _ _ _).get _ = _
    rw [get_put_same, hino]

theorem zipOne_symlink_step (fs : FS) (root : P) (hr : GoodPath root) (mask : Nat) (e : Entry)
    (hk : e.kind = .symlink) (hs : e.short = false) (hlk : e.link ≠ []) (hrd : Ready fs root (cleanJoin root e.name)) :
    Step root mask e fs (zipOne fs root mask e) := by
  have hg := hrd.guard
  have hl : ∀ d, lexOK root (cleanJoin root e.name) d = true := hrd.lex hr (cleanJoin_good root e.name hr)
  obtain ⟨fs1, hmk, hino, habs1, hpar1, hch⟩ := parent_phase fs root mask _ hrd
  have hw : symlinkAt fs1 e.link (cleanJoin root e.name) = some (fs1.put (cleanJoin root e.name) (.symlink e.link)) := by
    simp [symlinkAt, hlk, habs1, hpar1]
  have hres : zipOne fs root mask e = (fs1.put (cleanJoin root e.name) (.symlink e.link), true) := by
    simp [zipOne, hl, hg, hk, hmk, hw, hs]
  rw [hres]
  have hpm : pmode e = 0o755 := by simp [pmode, hk]
  refine ⟨rfl, ⟨_, get_put_same _ _ _, ?_⟩, ?_, ?_, ?_, ?_⟩
  · refine ⟨fun h => ?_, fun h => ?_, fun _ => rfl, fun h => ?_⟩ <;> (rw [hk] at h; cases h)
  · intro q hq
    rw [hpm]
    show (FS.put _ _ _).get q = _ ∨ _ ∧ (FS.put _ _ _).get q = _ ∧ _
    rw [get_put_other _ _ _ _ hq]
    exact change_parent fs fs1 _ _ hch q
  · intro i _; show (FS.put _ _ _).inodes[i]? = _; rw [put_inodes, hino]
  · show fs.inodes.size ≤ (FS.put _ _ _).inodes.size; rw [put_inodes, hino]; exact Nat.le_refl _
  · intro h; rw [hk] at h; cases h

theorem zipOne_step (root : P) (hr : GoodPath root) (mask : Nat) (fs : FS) (e : Entry)
    (hok : ZipEntryOK e) (hrd : Ready fs root (cleanJoin root e.name)) :
    Step root mask e fs (zipOne fs root mask e) := by
  obtain ⟨hk, hs, hl⟩ := hok
  rcases hk with hk | hk | hk
  · exact zipOne_reg_step fs root hr mask e hk hs hrd
  · exact zipOne_dir_step fs root hr mask e hk hrd
  · exact zipOne_symlink_step fs root hr mask e hk hs (hl hk) hrd

end Ex
