import Lemmas.ExtractRepro
/-! C19: exact one-entry behaviour.  When the path of an entry is absent, lies strictly below the root and every
    existing proper prefix of it is a directory (`Ready`), one iteration of the tar / zip loop succeeds and its effect
    is known exactly (`Step`): the entry's node appears at its path, every other change is the creation of a missing
    parent directory, no allocated inode is touched. -/
namespace Ex

/-! ### `MkdirAll`: success and exact change -/

/-- every change made by `MkdirAll(p, mode)` is the creation of a directory with `mode` at a non-empty prefix of `p` -/
def MkChange (fs fs1 : FS) (p : P) (mode : Nat) : Prop :=
  ∀ q, fs1.get q = fs.get q ∨ (fs.get q = none ∧ fs1.get q = some (.dir mode) ∧ q <+: p ∧ q ≠ [])

theorem take_ne_nil (p : P) (i : Nat) (hi : 1 ≤ i) (hl : i ≤ p.length) : p.take i ≠ [] := by
  intro e
  have := congrArg List.length e
  rw [List.length_take, List.length_nil] at this
  omega

theorem take_ne_take (p : P) (i j : Nat) (hi : i ≤ p.length) (hj : j ≤ p.length) (h : i ≠ j) : p.take j ≠ p.take i := by
  intro e
  have := congrArg List.length e
  rw [List.length_take, List.length_take] at this
  omega

theorem mkdirFrom_change (p : P) (mode : Nat) (fuel i : Nat) (fs fs' : FS) (hi : 1 ≤ i)
    (h : mkdirFrom p mode fuel i fs = some fs') : MkChange fs fs' p mode := by
  induction fuel generalizing i fs with
  | zero => simp [mkdirFrom] at h; subst h; exact fun q => Or.inl rfl
  | succ f ih =>
    simp only [mkdirFrom] at h
    split at h
    · simp at h; subst h; exact fun q => Or.inl rfl
    · rename_i hle
      have hle : i ≤ p.length := by omega
      split at h
      · rename_i hnone
        intro q
        by_cases hq : q = p.take i
        · subst hq
          rcases ih (i+1) _ (by omega) h (p.take i) with h1 | ⟨h1, _⟩
          · rw [get_put_same] at h1
            exact Or.inr ⟨hnone, h1, List.take_prefix _ _, take_ne_nil p i hi hle⟩
          · rw [get_put_same] at h1; cases h1
        · rcases ih (i+1) _ (by omega) h q with h1 | ⟨h1, h2⟩
          · rw [get_put_other _ _ _ _ hq] at h1; exact Or.inl h1
          · rw [get_put_other _ _ _ _ hq] at h1; exact Or.inr ⟨h1, h2⟩
      · exact ih (i+1) _ (by omega) h
      · cases h

theorem mkdirFrom_ok (p : P) (mode : Nat) (fuel i : Nat) (fs : FS)
    (hd : ∀ j, i ≤ j → j ≤ p.length → fs.get (p.take j) = none ∨ ∃ m, fs.get (p.take j) = some (.dir m)) :
    ∃ fs', mkdirFrom p mode fuel i fs = some fs' := by
  induction fuel generalizing i fs with
  | zero => exact ⟨fs, rfl⟩
  | succ f ih =>
    simp only [mkdirFrom]
    split
    · exact ⟨fs, rfl⟩
    · rename_i hle
      have hle : i ≤ p.length := by omega
      rcases hd i (Nat.le_refl _) hle with hn | ⟨m, hm⟩
      · rw [hn]
        simp only
        apply ih
        intro j h1 h2
        rw [get_put_other _ _ _ _ (take_ne_take p i j hle h2 (by omega))]
        exact hd j (by omega) h2
      · rw [hm]
        simp only
        exact ih _ _ (fun j h1 h2 => hd j (by omega) h2)

theorem mkdirAll_ok (fs : FS) (p : P) (mode : Nat)
    (hd : ∀ j, 1 ≤ j → j ≤ p.length → fs.get (p.take j) = none ∨ ∃ m, fs.get (p.take j) = some (.dir m)) :
    ∃ fs1, mkdirAll fs p mode = some fs1 ∧ MkChange fs fs1 p mode ∧ fs1.inodes = fs.inodes ∧
      ∀ j, 1 ≤ j → j ≤ p.length → ∃ m, fs1.get (p.take j) = some (.dir m) := by
  obtain ⟨fs1, h⟩ := mkdirFrom_ok p mode (p.length + 1) 1 fs hd
  exact ⟨fs1, h, mkdirFrom_change p mode _ 1 fs fs1 (Nat.le_refl _) h, mkdirFrom_inodes _ _ _ _ _ _ h,
    (mkdirAll_self_sys fs fs1 p mode h).2⟩

/-! ### the guard succeeds on a path whose existing proper prefixes are directories -/

theorem noSymFrom_true (fs : FS) (p : P) (fuel i : Nat)
    (hd : ∀ j, i ≤ j → j ≤ p.length → fs.get (p.take j) = none ∨ (∃ m, fs.get (p.take j) = some (.dir m)) ∨
      (j = p.length ∧ ∃ ino, fs.get (p.take j) = some (.file ino))) :
    noSymFrom fs p fuel i = true := by
  induction fuel generalizing i with
  | zero => simp [noSymFrom]
  | succ f ih =>
    simp only [noSymFrom]
    split
    · rfl
    · rename_i hle
      have hle : i ≤ p.length := by omega
      rcases hd i (Nat.le_refl _) hle with hn | ⟨m, hm⟩ | ⟨hl, ino, hf⟩
      · rw [hn]
      · rw [hm]; simp only
        exact ih _ (fun j h1 h2 => hd j (by omega) h2)
      · rw [hf]; simp [hl]

theorem ensureNoSymlinks_true (fs : FS) (root p : P) (hne : p ≠ root)
    (hroot : fs.get root = none ∨ ∃ m, fs.get root = some (.dir m))
    (hd : ∀ j, root.length + 1 ≤ j → j ≤ p.length → fs.get (p.take j) = none ∨ (∃ m, fs.get (p.take j) = some (.dir m)) ∨
      (j = p.length ∧ ∃ ino, fs.get (p.take j) = some (.file ino))) :
    ensureNoSymlinks fs root p = true := by
  unfold ensureNoSymlinks
  rw [if_neg hne]
  rcases hroot with hm | ⟨m, hm⟩ <;> rw [hm] <;> exact noSymFrom_true fs p _ _ hd

/-! ### well-formed trees: every non-empty proper prefix of an existing path is a directory -/

theorem wf_prefix_dir (fs : FS) (hw : WF fs) (p : P) (n : Nd) (hp : fs.get p = some n) (j : Nat) (h1 : 1 ≤ j)
    (h2 : j < p.length) : ∃ m, fs.get (p.take j) = some (.dir m) := by
  have hex : ∀ k, 1 ≤ k → k ≤ p.length → (fs.get (p.take k)).isSome := by
    intro k hk1 hk2
    cases hg : fs.get (p.take k) with
    | some _ => rfl
    | none =>
      have := none_below fs hw p k hk1 hg p.length hk2 (Nat.le_refl _)
      rw [List.take_length, hp] at this; cases this
  obtain ⟨m, hm⟩ := hw (p.take (j + 1)) (hex (j + 1) (by omega) (by omega)) (by simp [List.length_take]; omega)
  rw [take_dropLast p (j + 1) (by omega) (by omega)] at hm
  exact ⟨m, hm⟩

/-! ### what an entry is to become -/

/-- the mode `MkdirAll` gives to the missing parents of an entry: a directory entry hands its own mode to
    `MkdirAll(path)`, every other entry calls `MkdirAll(Dir(path), 0o755 & mask)` -/
def pmode (e : Entry) : Nat := if e.kind = .dir then perm e.mode else 0o755

/-- node `n` (in the tree `fs'`) is entry `e` as recorded -/
def NodeOf (root : P) (mask : Nat) (fs' : FS) (e : Entry) (n : Nd) : Prop :=
  (e.kind = .reg → ∃ ino nd, n = .file ino ∧ fs'.inodes[ino]? = some nd ∧ nd.data = e.data ∧
      nd.mode = perm e.mode &&& mask) ∧
  (e.kind = .dir → n = .dir (perm e.mode &&& mask)) ∧
  (e.kind = .symlink → n = .symlink e.link) ∧
  (e.kind = .link → ∃ ino, n = .file ino ∧ fs'.get (cleanJoin root e.link) = some (.file ino))

/-- the path `p` can take a new entry: strictly below the root (a directory, or missing), absent, and every existing
    proper prefix is a directory -/
structure Ready (fs : FS) (root p : P) : Prop where
  below : ∃ c t, p = root ++ c :: t
  rootdir : fs.get root = none ∨ ∃ m, fs.get root = some (.dir m)
  absent : fs.get p = none
  pre : ∀ j, 1 ≤ j → j < p.length → fs.get (p.take j) = none ∨ ∃ m, fs.get (p.take j) = some (.dir m)

/-- the exact effect of one successful iteration (`fs` before, `r` the result) -/
structure Step (root : P) (mask : Nat) (e : Entry) (fs : FS) (r : FS × Bool) : Prop where
  ok : r.2 = true
  node : ∃ n, r.1.get (cleanJoin root e.name) = some n ∧ NodeOf root mask r.1 e n
  change : ∀ q, q ≠ cleanJoin root e.name → r.1.get q = fs.get q ∨
    (fs.get q = none ∧ r.1.get q = some (.dir (pmode e &&& mask)) ∧ q <+: cleanJoin root e.name ∧ q ≠ [])
  keep : ∀ i, i < fs.inodes.size → r.1.inodes[i]? = fs.inodes[i]?
  size : fs.inodes.size ≤ r.1.inodes.size
  fresh : e.kind = .reg → r.1.get (cleanJoin root e.name) = some (.file fs.inodes.size)

theorem Ready.ne_root {fs : FS} {root p : P} (h : Ready fs root p) : p ≠ root := by
  obtain ⟨c, t, e⟩ := h.below
  intro e'
  have := congrArg List.length (e.symm.trans e')
  simp at this

theorem Ready.guard {fs : FS} {root p : P} (h : Ready fs root p) : ensureNoSymlinks fs root p = true := by
  refine ensureNoSymlinks_true fs root p h.ne_root h.rootdir (fun j h1 h2 => ?_)
  by_cases hj : j = p.length
  · left; rw [hj, List.take_length]; exact h.absent
  · rcases h.pre j (by omega) (by omega) with hn | hm
    · exact Or.inl hn
    · exact Or.inr (Or.inl hm)

theorem Ready.lex {fs : FS} {root p : P} (h : Ready fs root p) (hr : GoodPath root) (hp : GoodPath p) (d : Bool) :
    lexOK root p d = true :=
  (lexOK_iff root p hr hp d).mpr (Or.inl h.below)

theorem Ready.mk_self {fs : FS} {root p : P} (h : Ready fs root p) :
    ∀ j, 1 ≤ j → j ≤ p.length → fs.get (p.take j) = none ∨ ∃ m, fs.get (p.take j) = some (.dir m) := by
  intro j h1 h2
  by_cases hj : j = p.length
  · left; rw [hj, List.take_length]; exact h.absent
  · exact h.pre j h1 (by omega)

theorem Ready.mk_parent {fs : FS} {root p : P} (h : Ready fs root p) :
    ∀ j, 1 ≤ j → j ≤ p.dropLast.length → fs.get (p.dropLast.take j) = none ∨ ∃ m, fs.get (p.dropLast.take j) = some (.dir m) := by
  intro j h1 h2
  simp only [List.length_dropLast] at h2
  have : p.dropLast.take j = p.take j := by
    rw [List.dropLast_eq_take, List.take_take]; congr 1; omega
  rw [this]
  exact h.pre j h1 (by omega)

/-- after `MkdirAll(Dir(p))` on a ready path: `p` is still absent, its parent is a directory -/
theorem parent_made (fs fs1 : FS) (p : P) (hne : p ≠ []) (mode : Nat) (h1 : mkdirAll fs p.dropLast mode = some fs1)
    (hdirs : ∀ j, 1 ≤ j → j ≤ p.dropLast.length → ∃ m, fs1.get (p.dropLast.take j) = some (.dir m))
    (habs : fs.get p = none) : fs1.get p = none ∧ parentIsDir fs1 p = true := by
  refine ⟨mkdirAll_parent_none fs fs1 p mode hne h1 habs, ?_⟩
  unfold parentIsDir
  split
  · rfl
  · rename_i hl
    obtain ⟨m, hm⟩ := hdirs p.dropLast.length (by simp only [List.length_dropLast]; omega) (Nat.le_refl _)
    rw [List.take_length] at hm
    rw [hm]

theorem change_parent (fs fs1 : FS) (p : P) (mode : Nat) (hc : MkChange fs fs1 p.dropLast mode) (q : P) :
    fs1.get q = fs.get q ∨ (fs.get q = none ∧ fs1.get q = some (.dir mode) ∧ q <+: p ∧ q ≠ []) := by
  rcases hc q with h | ⟨h1, h2, h3, h4⟩
  · exact Or.inl h
  · exact Or.inr ⟨h1, h2, h3.trans (List.dropLast_prefix p), h4⟩

end Ex
