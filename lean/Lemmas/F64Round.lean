import GoSem.F64
/-! C02/C03 float lemmas, part 1 (core Lean only): `roundRatN` is exact on representable quotients (normal range),
    `decode ∘ encodeNormal`, `float64(u)` exact below 2^53.  Type-checked during design (DESIGN.md Appendix C). -/
namespace GoSem.F64

/-- a/d = m * 2^e, without fractions -/
def Exact (a d m : Nat) (e : Int) : Prop :=
  if e ≥ 0 then a = m * (d * 2^e.toNat) else a * 2^(-e).toNat = m * d

theorem mk_exact (a d m : Nat) (e : Int) (hd : 0 < d) (h : Exact a d m e) :
    (mk a d e).1 = m ∧ (mk a d e).2.1 = 0 ∧ 0 < (mk a d e).2.2 := by
  unfold Exact at h; unfold mk
  split
  · rename_i he; rw [if_pos he] at h
    have hp : 0 < d * 2^e.toNat := Nat.mul_pos hd (Nat.pow_pos (by omega))
    subst h
    exact ⟨Nat.mul_div_cancel _ hp, Nat.mul_mod_left _ _, hp⟩
  · rename_i he; rw [if_neg he] at h
    rw [h]
    exact ⟨Nat.mul_div_cancel _ hd, Nat.mul_mod_left _ _, hd⟩

/-- the quotient one exponent too high is the halved mantissa -/
theorem mk_succ (a d m : Nat) (e : Int) (hd : 0 < d) (h : Exact a d m e) : (mk a d (e + 1)).1 = m / 2 := by
  unfold Exact at h; unfold mk
  by_cases he : e ≥ 0
  · rw [if_pos he] at h
    have : e + 1 ≥ 0 := by omega
    rw [if_pos this]
    simp only
    have e1 : (e + 1).toNat = e.toNat + 1 := by omega
    rw [e1, Nat.pow_succ, ← Nat.mul_assoc, h]
    have hp : 0 < d * 2^e.toNat := Nat.mul_pos hd (Nat.pow_pos (by omega))
    rw [← Nat.div_div_eq_div_mul, Nat.mul_div_cancel _ hp]
  · rw [if_neg he] at h
    by_cases he1 : e + 1 ≥ 0
    · have e0 : e = -1 := by omega
      subst e0
      rw [if_pos he1]
      simp only [Int.reduceNeg, Int.neg_neg, Int.reduceToNat, Nat.pow_one, Int.reduceAdd, Int.toNat_zero, Nat.pow_zero, Nat.mul_one] at h ⊢
      -- a * 2 = m * d  →  a / d = m / 2
      have : a = m * d / 2 := by omega
      rw [this, Nat.div_div_eq_div_mul, Nat.mul_comm 2 d, ← Nat.div_div_eq_div_mul, Nat.mul_div_cancel _ hd]
    · rw [if_neg he1]
      simp only
      have e1 : (-e).toNat = (-(e + 1)).toNat + 1 := by omega
      rw [e1, Nat.pow_succ, ← Nat.mul_assoc] at h
      have : a * 2 ^ (-(e + 1)).toNat = m * d / 2 := by omega
      rw [this, Nat.div_div_eq_div_mul, Nat.mul_comm 2 d, ← Nat.div_div_eq_div_mul, Nat.mul_div_cancel _ hd]

theorem lt_of_pow_lt {x y : Nat} (h : 2^x < 2^y) : x < y := (Nat.pow_lt_pow_iff_right (by decide)).mp h

theorem log_bounds (n : Nat) (hn : n ≠ 0) : 2^n.log2 ≤ n ∧ n < 2^(n.log2 + 1) :=
  ⟨Nat.log2_self_le hn, Nat.lt_log2_self⟩

/-- the first exponent guess is right or one too high -/
theorem e0_range (a d m : Nat) (e : Int) (hd : 0 < d) (h : Exact a d m e) (hm1 : 2^52 ≤ m) (hm2 : m < 2^53) :
    (a.log2 : Int) - d.log2 - 52 = e ∨ (a.log2 : Int) - d.log2 - 52 = e + 1 := by
  have hmpos : 0 < m := Nat.lt_of_lt_of_le (Nat.pow_pos (by decide)) hm1
  obtain ⟨hd1, hd2⟩ := log_bounds d (by omega)
  unfold Exact at h
  by_cases he : e ≥ 0
  · rw [if_pos he] at h
    have hpk : 0 < 2^e.toNat := Nat.pow_pos (by decide)
    have ha : a ≠ 0 := by rw [h]; exact Nat.ne_of_gt (Nat.mul_pos hmpos (Nat.mul_pos hd hpk))
    obtain ⟨ha1, ha2⟩ := log_bounds a ha
    have lo : 2^(52 + d.log2 + e.toNat) < 2^(a.log2 + 1) := by
      calc 2^(52 + d.log2 + e.toNat) = 2^52 * (2^d.log2 * 2^e.toNat) := by rw [Nat.pow_add, Nat.pow_add, Nat.mul_assoc]
        _ ≤ m * (d * 2^e.toNat) := Nat.mul_le_mul hm1 (Nat.mul_le_mul_right _ hd1)
        _ = a := h.symm
        _ < _ := ha2
    have hi : 2^a.log2 < 2^(53 + (d.log2 + 1) + e.toNat) := by
      calc 2^a.log2 ≤ a := ha1
        _ = m * (d * 2^e.toNat) := h
        _ < 2^53 * (2^(d.log2+1) * 2^e.toNat) :=
            Nat.mul_lt_mul'' hm2 (Nat.mul_lt_mul_of_pos_right hd2 hpk)
        _ = _ := by simp only [Nat.pow_add, Nat.mul_assoc]
    have := lt_of_pow_lt lo
    have := lt_of_pow_lt hi
    omega
  · rw [if_neg he] at h
    have hpk : 0 < 2^(-e).toNat := Nat.pow_pos (by decide)
    have ha : a ≠ 0 := by
      intro e0; rw [e0, Nat.zero_mul] at h
      exact Nat.ne_of_gt (Nat.mul_pos hmpos hd) h.symm
    obtain ⟨ha1, ha2⟩ := log_bounds a ha
    have lo : 2^(52 + d.log2) < 2^(a.log2 + 1 + (-e).toNat) := by
      calc 2^(52 + d.log2) = 2^52 * 2^d.log2 := by rw [Nat.pow_add]
        _ ≤ m * d := Nat.mul_le_mul hm1 hd1
        _ = a * 2^(-e).toNat := h.symm
        _ < 2^(a.log2+1) * 2^(-e).toNat := Nat.mul_lt_mul_of_pos_right ha2 hpk
        _ = _ := by simp only [Nat.pow_add, Nat.mul_assoc]
    have hi : 2^(a.log2 + (-e).toNat) < 2^(53 + (d.log2 + 1)) := by
      calc 2^(a.log2 + (-e).toNat) = 2^a.log2 * 2^(-e).toNat := by rw [Nat.pow_add]
        _ ≤ a * 2^(-e).toNat := Nat.mul_le_mul_right _ ha1
        _ = m * d := h
        _ < 2^53 * 2^(d.log2+1) := Nat.mul_lt_mul'' hm2 hd2
        _ = _ := by simp only [Nat.pow_add, Nat.mul_assoc]
    have := lt_of_pow_lt lo
    have := lt_of_pow_lt hi
    omega

theorem chooseE_exact (a d m : Nat) (e : Int) (hd : 0 < d) (h : Exact a d m e) (hm1 : 2^52 ≤ m) (hm2 : m < 2^53)
    (he1 : -1074 ≤ e) : chooseE a d = e := by
  unfold chooseE
  simp only
  rcases e0_range a d m e hd h hm1 hm2 with h0 | h0
  · rw [h0, (mk_exact a d m e hd h).1]
    rw [if_neg (by omega), if_neg (by omega), if_neg (by omega)]
  · rw [h0, mk_succ a d m e hd h]
    have : m / 2 < 2^52 := by
      have : (2:Nat)^53 = 2 * 2^52 := by decide
      omega
    rw [if_neg (by omega), if_pos this, if_neg (by omega)]
    omega

/-- **rounding is exact on representable quotients (normal range)** -/
theorem roundRatN_exact (neg : Bool) (a d m : Nat) (e : Int) (hd : 0 < d) (h : Exact a d m e)
    (hm1 : 2^52 ≤ m) (hm2 : m < 2^53) (he1 : -1074 ≤ e) (he2 : e ≤ 971) :
    roundRatN neg a d = encodeNormal neg m e := by
  have hmpos : 0 < m := Nat.lt_of_lt_of_le (Nat.pow_pos (by decide)) hm1
  have ha : a ≠ 0 := by
    intro e0; unfold Exact at h; subst e0
    split at h
    · exact Nat.ne_of_gt (Nat.mul_pos hmpos (Nat.mul_pos hd (Nat.pow_pos (by decide)))) h.symm
    · rw [Nat.zero_mul] at h; exact Nat.ne_of_gt (Nat.mul_pos hmpos hd) h.symm
  unfold roundRatN
  have : (a == 0) = false := by simp [ha]
  rw [this]
  simp only [Bool.false_eq_true, if_false]
  rw [chooseE_exact a d m e hd h hm1 hm2 he1]
  obtain ⟨h1, h2, h3⟩ := mk_exact a d m e hd h
  rw [h1, h2]
  have hq : roundQ m 0 (mk a d e).2.2 = m := by
    unfold roundQ
    rw [if_neg (by omega)]
    have : (2 * 0 == (mk a d e).2.2) = false := by simp; omega
    rw [this]; simp
  rw [hq]
  unfold finish
  have hge : ¬ (m ≥ 2^53) := by omega
  simp only [if_neg hge]
  rw [if_neg (by omega), if_neg (by omega)]


theorem decode_encodeNormal (neg : Bool) (m : Nat) (e : Int) (hm1 : 2^52 ≤ m) (hm2 : m < 2^53)
    (he1 : -1074 ≤ e) (he2 : e ≤ 971) : decode (encodeNormal neg m e) = .fin neg m e := by
  obtain ⟨k, hk⟩ : ∃ k : Nat, (e + 1075).toNat = k ∧ 1 ≤ k ∧ k ≤ 2046 ∧ e = (k : Int) - 1075 := ⟨(e+1075).toNat, rfl, by omega, by omega, by omega⟩
  unfold decode encodeNormal signBit
  simp only []
  rw [hk.1]
  obtain ⟨_, hk1, hk2, hke⟩ := hk
  have p52 : (2:Nat)^52 = 4503599627370496 := by decide
  have p53 : (2:Nat)^53 = 9007199254740992 := by decide
  have p63 : (2:Nat)^63 = 9223372036854775808 := by decide
  rw [p52, p53] at *
  rw [p63]
  cases neg
  · simp only [Bool.false_eq_true, if_false, Nat.zero_add]
    have h1 : (k * 4503599627370496 + (m - 4503599627370496)) / 4503599627370496 % 2048 = k := by omega
    have h2 : (k * 4503599627370496 + (m - 4503599627370496)) % 4503599627370496 = m - 4503599627370496 := by omega
    have h3 : (k * 4503599627370496 + (m - 4503599627370496)) / 9223372036854775808 = 0 := by omega
    simp only [h1, h2, h3]
    have : (k == 2047) = false := by simp; omega
    have h0 : (k == 0) = false := by simp; omega
    simp only [this, h0, Bool.false_eq_true, if_false]
    have e1 : m - 4503599627370496 + 4503599627370496 = m := by omega
    have e2 : Int.ofNat k - 1075 = e := by simp only [Int.ofNat_eq_natCast]; omega
    rw [e1, e2]; simp
  · simp only [if_true]
    have h1 : (9223372036854775808 + k * 4503599627370496 + (m - 4503599627370496)) / 4503599627370496 % 2048 = k := by omega
    have h2 : (9223372036854775808 + k * 4503599627370496 + (m - 4503599627370496)) % 4503599627370496 = m - 4503599627370496 := by omega
    have h3 : (9223372036854775808 + k * 4503599627370496 + (m - 4503599627370496)) / 9223372036854775808 = 1 := by omega
    simp only [h1, h2, h3]
    have : (k == 2047) = false := by simp; omega
    have h0 : (k == 0) = false := by simp; omega
    simp only [this, h0, Bool.false_eq_true, if_false]
    have e1 : m - 4503599627370496 + 4503599627370496 = m := by omega
    have e2 : Int.ofNat k - 1075 = e := by simp only [Int.ofNat_eq_natCast]; omega
    rw [e1, e2]; simp

/-- **float64(u) is exact below 2^53** (the `u.hi == 0` branch of `AsFloat64` for small values, and every
    `float64(intConstant)` of the fixed-point packages) -/
theorem ofNat_exact (u : Nat) (h0 : 0 < u) (h : u < 2^53) :
    decode (roundRatN false u 1) = .fin false (u * 2^(52 - u.log2)) ((u.log2 : Int) - 52) := by
  have hu : u ≠ 0 := by omega
  obtain ⟨l1, l2⟩ := log_bounds u hu
  have hl : u.log2 < 53 := (Nat.log2_lt hu).mpr h
  have hm1 : 2^52 ≤ u * 2^(52 - u.log2) := by
    calc 2^52 = 2^u.log2 * 2^(52 - u.log2) := by rw [← Nat.pow_add]; congr 1; omega
      _ ≤ _ := Nat.mul_le_mul_right _ l1
  have hm2 : u * 2^(52 - u.log2) < 2^53 := by
    calc u * 2^(52 - u.log2) < 2^(u.log2 + 1) * 2^(52 - u.log2) := Nat.mul_lt_mul_of_pos_right l2 (Nat.pow_pos (by decide))
      _ = 2^53 := by rw [← Nat.pow_add]; congr 1; omega
  have hex : Exact u 1 (u * 2^(52 - u.log2)) ((u.log2 : Int) - 52) := by
    unfold Exact
    split
    · rename_i hge
      have : u.log2 = 52 := by omega
      simp [this]
    · have : (-((u.log2 : Int) - 52)).toNat = 52 - u.log2 := by omega
      rw [this, Nat.mul_one]
  rw [roundRatN_exact false u 1 _ _ (by decide) hex hm1 hm2 (by omega) (by omega)]
  exact decode_encodeNormal false _ _ hm1 hm2 (by omega) (by omega)


end GoSem.F64
