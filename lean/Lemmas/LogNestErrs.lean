import Lemmas.LogHandlersErrs
import Lemmas.LogEntry
/-! C13, nested fan-out handlers on the errs heap: the value an INNER `multilog.Handle` returns (nil, or one aggregate
built by its own accumulation) is flattened, in order, by the accumulation of the handler above. Core only. -/
namespace ML
open Errs Rec

theorem accumulate_ext (h : Heap) (rets : List Val) (hwf : WF h) (hids : ∀ id, Val.ref id ∈ rets → id < h.size) :
    Ext h (accumulate h rets).1 := by
  have hfr := accumulate_frame h rets hwf hids
  refine ⟨(accumulate_items h rets hwf hids).2, ?_, hfr⟩
  rcases Nat.lt_or_ge (accumulate h rets).1.size h.size with hlt | hge
  · have := hfr _ hlt
    rw [get_of_lt h _ hlt] at this
    have hn : (accumulate h rets).1[(accumulate h rets).1.size]? = none := by simp
    rw [hn] at this; cases this
  · exact hge

/-- what the inner `Handle` hands back reads, on the heap it leaves behind, as exactly the errors of its own
    deliveries, in order — whether it is nil (then there were none) or the aggregate -/
theorem returned_items (h : Heap) (ri : List Val) (hwf : WF h) (hri : ∀ id, Val.ref id ∈ ri → id < h.size) :
    argItems (accumulate h ri).1 (returned h ri) = ri.flatMap (argItems h) ∧
    (∀ id, returned h ri = .ref id → id < (accumulate h ri).1.size) := by
  by_cases hn : returned h ri = .nilIface
  · have := (returned_nil_iff h ri hwf hri).mp hn
    refine ⟨?_, fun id hid => by rw [hn] at hid; cases hid⟩
    rw [hn]
    have h0 : ri.flatMap (argItems h) = [] := by simpa [List.flatMap_eq_nil_iff] using this
    rw [h0]; simp [argItems, isNil]
  · obtain ⟨r, hr, hit⟩ := returned_ref h ri hwf hri hn
    refine ⟨by rw [hr]; simpa [argItems] using hit, fun id hid => ?_⟩
    unfold returned at hr hid
    rcases accumulate_shape h ri hwf hri with hs | ⟨a, hs, ha, hne⟩
    · rw [hs] at hr; simp [errorOrNil] at hr
    · rw [hs] at hid
      simp only [errorOrNil, hne] at hid
      have : a = id := by simpa using hid
      rw [← this]; exact ha

/-- NESTED accumulation flattens: the outer handler's deliveries returned `a`, then an inner fan-out handler ran (its
    own deliveries returned `ri`, its `Handle` returned `returned h ri`), then `b`.  The aggregate the outer handler ends
    with holds exactly the errors of `a`, of the inner deliveries and of `b`, in that order — the same items as the flat
    handler over all the leaves — and every error value that existed before is untouched. -/
theorem nested_accumulate_flattens (h : Heap) (a ri b : List Val) (hwf : WF h)
    (ha : ∀ id, Val.ref id ∈ a → id < h.size) (hri : ∀ id, Val.ref id ∈ ri → id < h.size)
    (hb : ∀ id, Val.ref id ∈ b → id < h.size) :
    argItems (accumulate (accumulate h ri).1 (a ++ [returned h ri] ++ b)).1
        (accumulate (accumulate h ri).1 (a ++ [returned h ri] ++ b)).2 =
      (a ++ ri ++ b).flatMap (argItems h) ∧
    (∀ i, i < h.size → (accumulate (accumulate h ri).1 (a ++ [returned h ri] ++ b)).1[i]? = h[i]?) := by
  have x := accumulate_ext h ri hwf hri
  obtain ⟨hv, hvid⟩ := returned_items h ri hwf hri
  have hids2 : ∀ id, Val.ref id ∈ a ++ [returned h ri] ++ b → id < (accumulate h ri).1.size := by
    intro id hid
    simp only [List.mem_append, List.mem_singleton] at hid
    rcases hid with (hid | hid) | hid
    · exact Nat.lt_of_lt_of_le (ha id hid) x.sz
    · exact hvid id hid.symm
    · exact Nat.lt_of_lt_of_le (hb id hid) x.sz
  obtain ⟨hit, _⟩ := accumulate_items (accumulate h ri).1 (a ++ [returned h ri] ++ b) x.wf hids2
  have hold : ∀ l : List Val, (∀ id, Val.ref id ∈ l → id < h.size) →
      l.flatMap (argItems (accumulate h ri).1) = l.flatMap (argItems h) := by
    intro l hl
    induction l with
    | nil => rfl
    | cons v l ih =>
      simp only [List.flatMap_cons]
      rw [x.argItems hwf v (fun id e => hl id (by rw [e]; exact List.mem_cons_self ..)),
        ih (fun id hid => hl id (List.mem_cons_of_mem _ hid))]
  refine ⟨?_, fun i hi => ?_⟩
  · rw [hit]
    simp only [List.flatMap_append, List.flatMap_cons, List.flatMap_nil, List.append_nil]
    rw [hold a ha, hold b hb, hv]
  · rw [accumulate_frame _ _ x.wf hids2 i (Nat.lt_of_lt_of_le hi x.sz), x.fr i hi]

end ML
