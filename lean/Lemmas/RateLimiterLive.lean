import Lemmas.RateLimiterFifo
/-! Termination of root `Close` on infinite runs under explicit scheduler fairness.  Core Lean. -/
namespace RL

theorem cpc_send_next {s s' : S} (st : Step s s') (h : s.cpc = .send) : s'.cpc = .send ∨ s'.cpc = .ret := by
  cases st with
  | closeRoot h0 h1 h2 => rw [h] at h2; cases h2
  | doneReceived => exact Or.inr rfl
  | _ => exact Or.inl h

/-- scheduler fairness, (1): a ticker goroutine that waits for the lock (which is free, `lockFree`) eventually runs
    its critical section and is back at its `select` -/
def TickerScheduled (run : Nat → S) : Prop := ∀ i, (run i).tpc = .tlock → ∃ j, i ≤ j ∧ (run j).tpc = .sel

/-- scheduler fairness, (2): a `select` that finds the `done` sender ready again and again eventually takes that case
    (Go's `select` chooses uniformly among the ready cases) -/
def SelectFair (run : Nat → S) : Prop :=
  ∀ i, (∀ j, i ≤ j → ∃ k, j ≤ k ∧ (run k).tpc = .sel ∧ (run k).cpc = .send) → ∃ k, i ≤ k ∧ (run k).cpc = .ret

theorem close_terminates_fair (c : Nat) (run : Nat → S) (h0 : run 0 = init c) (hs : ∀ i, Step (run i) (run (i + 1)))
    (f1 : TickerScheduled run) (f2 : SelectFair run) :
    ∀ i, (run i).cpc = .send → ∃ j, i ≤ j ∧ (run j).cpc = .ret := by
  intro i hi
  apply Classical.byContradiction
  intro hno
  have hno' : ∀ j, i ≤ j → (run j).cpc ≠ .ret := fun j hj h => hno ⟨j, hj, h⟩
  have reach : ∀ j, Reachable c (run j) := by
    intro j
    induction j with
    | zero => rw [h0]; exact .init
    | succ j ih => exact .step _ _ ih (hs j)
  have stay : ∀ j, i ≤ j → (run j).cpc = .send := by
    intro j hj
    induction j with
    | zero =>
      have : i = 0 := by omega
      subst this; exact hi
    | succ j ih =>
      by_cases h : i ≤ j
      · rcases cpc_send_next (hs j) (ih h) with h' | h'
        · exact h'
        · exact absurd h' (hno' (j + 1) hj)
      · have : i = j + 1 := by omega
        subst this; exact hi
  apply hno
  apply f2 i
  intro j hj
  have hsend := stay j hj
  cases ht : (run j).tpc with
  | sel => exact ⟨j, Nat.le_refl _, ht, hsend⟩
  | tlock =>
    obtain ⟨k, hk, hk2⟩ := f1 j ht
    exact ⟨k, hk, hk2, stay k (by omega)⟩
  | dlock =>
    have := closer_returned (reach j) (Or.inr ht)
    rw [hsend] at this; cases this
  | tend =>
    have := closer_returned (reach j) (Or.inl ht)
    rw [hsend] at this; cases this

end RL
