import Lemmas.RateLimiterFifo
/-! Termination of root `Close` on infinite runs under fairness assumptions about the SCHEDULER only.  Core Lean. -/
namespace RL

/-! ### what a step can do to the three positions -/

theorem cpc_next {s s' : S} (st : Step s s') :
    s'.cpc = s.cpc ∨ (s.cpc = .idle ∧ s'.cpc = .crit) ∨ (s.cpc = .crit ∧ (s'.cpc = .marked ∨ s'.cpc = .ret)) ∨
    (s.cpc = .marked ∧ s'.cpc = .send) ∨ (s.cpc = .send ∧ s' = doDoneReceived s) := by
  cases st with
  | closeLock h0 h2 => exact Or.inr (Or.inl ⟨h2, rfl⟩)
  | closeRoot h0 h1 h2 => exact Or.inr (Or.inr (Or.inl ⟨h2, Or.inl rfl⟩))
  | closeSkip h1 h2 => exact Or.inr (Or.inr (Or.inl ⟨h2, Or.inr rfl⟩))
  | closeUnlock h2 => exact Or.inr (Or.inr (Or.inr (Or.inl ⟨h2, rfl⟩)))
  | doneReceived h1 h2 => exact Or.inr (Or.inr (Or.inr (Or.inr ⟨h2, rfl⟩)))
  | _ => exact Or.inl rfl

theorem tpc_next {s s' : S} (st : Step s s') :
    s'.tpc = s.tpc ∨ (s.tpc = .sel ∧ (s'.tpc = .tlock ∨ s'.tpc = .dlock)) ∨ (s.tpc = .tlock ∧ s'.tpc = .tcrit) ∨
    (s.tpc = .tcrit ∧ s'.tpc = .tunl) ∨ (s.tpc = .tunl ∧ s'.tpc = .sel) ∨ (s.tpc = .dlock ∧ s'.tpc = .dcrit) ∨
    (s.tpc = .dcrit ∧ s'.tpc = .dunl) ∨ (s.tpc = .dunl ∧ s'.tpc = .tend) := by
  cases st with
  | tickFires h => exact Or.inr (Or.inl ⟨h, Or.inl rfl⟩)
  | doneReceived h1 h2 => exact Or.inr (Or.inl ⟨h1, Or.inr rfl⟩)
  | tickLock h1 h0 => exact Or.inr (Or.inr (Or.inl ⟨h1, rfl⟩))
  | tickRuns h1 h0 => exact Or.inr (Or.inr (Or.inr (Or.inl ⟨h1, rfl⟩)))
  | tickUnlock h1 => exact Or.inr (Or.inr (Or.inr (Or.inr (Or.inl ⟨h1, rfl⟩))))
  | drainLock h1 h0 => exact Or.inr (Or.inr (Or.inr (Or.inr (Or.inr (Or.inl ⟨h1, rfl⟩)))))
  | drain h1 h0 => exact Or.inr (Or.inr (Or.inr (Or.inr (Or.inr (Or.inr (Or.inl ⟨h1, rfl⟩))))))
  | drainUnlock h1 => exact Or.inr (Or.inr (Or.inr (Or.inr (Or.inr (Or.inr (Or.inr ⟨h1, rfl⟩))))))
  | _ => exact Or.inl rfl

/-- an API holder keeps the lock or releases it -/
theorem api_next {c : Nat} {s s' : S} (h : Reachable c s) (st : Step s s') (ha : s.holder = .api) :
    s'.holder = .api ∨ s'.holder = .free := by
  obtain ⟨h1, h2, h3⟩ := lockInv h
  cases st with
  | useNeg => exact Or.inl ha
  | apiLock h => rw [ha] at h; cases h
  | closeLock h0 => rw [ha] at h0; cases h0
  | closeRoot h0 => rw [ha] at h0; cases h0
  | closeSkip hc hp => have := h2.mpr (Or.inl hp); rw [ha] at this; cases this
  | closeUnlock hp => have := h2.mpr (Or.inr hp); rw [ha] at this; cases this
  | tickFires => exact Or.inl ha
  | tickLock ht h0 => rw [ha] at h0; cases h0
  | tickRuns ht h0 => rw [ha] at h0; cases h0
  | tickUnlock ht => have := h1.mpr (Or.inr (Or.inl ht)); rw [ha] at this; cases this
  | doneReceived => exact Or.inl ha
  | drainLock ht h0 => rw [ha] at h0; cases h0
  | drain ht h0 => rw [ha] at h0; cases h0
  | drainUnlock ht => have := h1.mpr (Or.inr (Or.inr (Or.inr ht))); rw [ha] at this; cases this
  | _ => exact Or.inr rfl

/-! ### runs and the fairness of the scheduler -/

structure IsRun (c : Nat) (run : Nat → S) : Prop where
  start : run 0 = init c
  step : ∀ i, Step (run i) (run (i + 1))

theorem IsRun.reach {c : Nat} {run : Nat → S} (r : IsRun c run) : ∀ j, Reachable c (run j) := by
  intro j
  induction j with
  | zero => rw [r.start]; exact .init
  | succ j ih => exact .step _ _ ih (r.step j)

/-- a goroutine that is inside a critical section of its own (it holds the lock and needs nobody) is scheduled: the
    API holder finishes, the ticker goroutine and the closer move on -/
structure HoldersRun (run : Nat → S) : Prop where
  api : ∀ i, (run i).holder = .api → ∃ j, i ≤ j ∧ (run j).holder ≠ .api
  ticker : ∀ i, ((run i).tpc = .tcrit ∨ (run i).tpc = .tunl) → ∃ j, i ≤ j ∧ (run j).tpc ≠ (run i).tpc
  closer : ∀ i, ((run i).cpc = .crit ∨ (run i).cpc = .marked) → ∃ j, i ≤ j ∧ (run j).cpc ≠ (run i).cpc

/-- the lock is fair to the ticker goroutine (`sync.Mutex` hands the lock to a starving waiter): if it waits for the
    lock and finds it free again and again, it eventually takes it (the step `tickLock`) -/
def LockFair (run : Nat → S) : Prop :=
  ∀ i, (∀ j, i ≤ j → ∃ k, j ≤ k ∧ (run k).tpc = .tlock ∧ (run k).holder = .free) →
    ∃ k, i ≤ k ∧ (run k).tpc = .tlock ∧ (run (k + 1)).tpc = .tcrit

/-- `select` is fair (it chooses uniformly among the ready cases): if the `done` case is ready again and again — the
    goroutine at its `select`, the closer blocked on its send — the hand-over (the step `doneReceived`) is eventually
    taken -/
def SelectFair (run : Nat → S) : Prop :=
  ∀ i, (∀ j, i ≤ j → ∃ k, j ≤ k ∧ (run k).tpc = .sel ∧ (run k).cpc = .send) →
    ∃ k, i ≤ k ∧ (run k).tpc = .sel ∧ (run k).cpc = .send ∧ run (k + 1) = doDoneReceived (run k)

/-- the first index after `i` at which `P` stops holding -/
theorem first_change (P : Nat → Prop) (i j : Nat) (hij : i ≤ j) (hi : P i) (hj : ¬ P j) :
    ∃ m, i ≤ m ∧ m < j ∧ P m ∧ ¬ P (m + 1) := by
  induction j with
  | zero => have : i = 0 := by omega
            subst this; exact absurd hi hj
  | succ j ih =>
    by_cases hP : P j
    · by_cases hle : i ≤ j
      · exact ⟨j, hle, Nat.lt_succ_self j, hP, hj⟩
      · have : i = j + 1 := by omega
        subst this; exact absurd hi hj
    · by_cases hle : i ≤ j
      · obtain ⟨m, h1, h2, h3, h4⟩ := ih hle hP
        exact ⟨m, h1, by omega, h3, h4⟩
      · have : i = j + 1 := by omega
        subst this; exact absurd hi hj

section live
variable {c : Nat} {run : Nat → S} (r : IsRun c run) (hr : HoldersRun run) (lf : LockFair run)
include r hr lf

/-- while the closer stays blocked on `done`, the ticker goroutine comes back to its `select` from wherever it is -/
theorem ticker_reaches_select (i : Nat) (stay : ∀ j, i ≤ j → (run j).cpc = .send) :
    ∀ j, i ≤ j → ∃ k, j ≤ k ∧ (run k).tpc = .sel := by
  -- from `tunl`
  have fromTunl : ∀ j, i ≤ j → (run j).tpc = .tunl → ∃ k, j ≤ k ∧ (run k).tpc = .sel := by
    intro j _ ht
    obtain ⟨j', hj', hne⟩ := hr.ticker j (Or.inr ht)
    rw [ht] at hne
    obtain ⟨m, h1, _, h3, h4⟩ := first_change (fun n => (run n).tpc = .tunl) j j' hj' ht hne
    refine ⟨m + 1, by omega, ?_⟩
    rcases tpc_next (r.step m) with h | h | h | h | h | h | h | h
    · exact absurd (h.trans h3) h4
    · rw [h3] at h; cases h.1
    · rw [h3] at h; cases h.1
    · rw [h3] at h; cases h.1
    · exact h.2
    · rw [h3] at h; cases h.1
    · rw [h3] at h; cases h.1
    · rw [h3] at h; cases h.1
  -- from `tcrit`
  have fromTcrit : ∀ j, i ≤ j → (run j).tpc = .tcrit → ∃ k, j ≤ k ∧ (run k).tpc = .sel := by
    intro j hj ht
    obtain ⟨j', hj', hne⟩ := hr.ticker j (Or.inl ht)
    rw [ht] at hne
    obtain ⟨m, h1, _, h3, h4⟩ := first_change (fun n => (run n).tpc = .tcrit) j j' hj' ht hne
    have hnext : (run (m + 1)).tpc = .tunl := by
      rcases tpc_next (r.step m) with h | h | h | h | h | h | h | h
      · exact absurd (h.trans h3) h4
      · rw [h3] at h; cases h.1
      · rw [h3] at h; cases h.1
      · exact h.2
      · rw [h3] at h; cases h.1
      · rw [h3] at h; cases h.1
      · rw [h3] at h; cases h.1
      · rw [h3] at h; cases h.1
    obtain ⟨k, hk, hs⟩ := fromTunl (m + 1) (by omega) hnext
    exact ⟨k, by omega, hs⟩
  -- from `tlock`: the lock is free again and again, so the fair lock lets the goroutine in
  have fromTlock : ∀ j, i ≤ j → (run j).tpc = .tlock → ∃ k, j ≤ k ∧ (run k).tpc = .sel := by
    intro j hj ht
    -- either the goroutine leaves `tlock` at some point (then it is at `tcrit`) …
    by_cases hleave : ∃ j', j ≤ j' ∧ (run j').tpc ≠ .tlock
    · obtain ⟨j', hj', hne⟩ := hleave
      obtain ⟨m, h1, _, h3, h4⟩ := first_change (fun n => (run n).tpc = .tlock) j j' hj' ht hne
      have hnext : (run (m + 1)).tpc = .tcrit := by
        rcases tpc_next (r.step m) with h | h | h | h | h | h | h | h
        · exact absurd (h.trans h3) h4
        · rw [h3] at h; cases h.1
        · exact h.2
        · rw [h3] at h; cases h.1
        · rw [h3] at h; cases h.1
        · rw [h3] at h; cases h.1
        · rw [h3] at h; cases h.1
        · rw [h3] at h; cases h.1
      obtain ⟨k, hk, hs⟩ := fromTcrit (m + 1) (by omega) hnext
      exact ⟨k, by omega, hs⟩
    · -- … or it waits for ever; then the lock is free again and again and `LockFair` contradicts the waiting
      exfalso
      have hstay : ∀ j', j ≤ j' → (run j').tpc = .tlock := by
        intro j' hj'
        apply Classical.byContradiction
        intro hne
        exact hleave ⟨j', hj', hne⟩
      have hfree : ∀ j', j ≤ j' → ∃ k, j' ≤ k ∧ (run k).tpc = .tlock ∧ (run k).holder = .free := by
        intro j' hj'
        obtain ⟨h1, h2, _⟩ := lockInv (r.reach j')
        cases hq : (run j').holder with
        | free => exact ⟨j', Nat.le_refl _, hstay j' hj', hq⟩
        | ticker =>
          have := hstay j' hj'
          rcases h1.mp hq with h | h | h | h <;> rw [this] at h <;> cases h
        | closer =>
          have := stay j' (by omega)
          rcases h2.mp hq with h | h <;> rw [this] at h <;> cases h
        | api =>
          obtain ⟨j'', hj'', hne⟩ := hr.api j' hq
          obtain ⟨m, m1, _, m3, m4⟩ := first_change (fun n => (run n).holder = .api) j' j'' hj'' hq hne
          rcases api_next (r.reach m) (r.step m) m3 with h | h
          · exact absurd h m4
          · exact ⟨m + 1, by omega, hstay (m + 1) (by omega), h⟩
      obtain ⟨k, hk, _, hk2⟩ := lf j hfree
      have := hstay (k + 1) (by omega)
      rw [this] at hk2; cases hk2
  intro j hj
  have hsend := stay j hj
  cases ht : (run j).tpc with
  | sel => exact ⟨j, Nat.le_refl _, ht⟩
  | tlock => exact fromTlock j hj ht
  | tcrit => exact fromTcrit j hj ht
  | tunl => exact fromTunl j hj ht
  | dlock => have := closer_returned (r.reach j) (Or.inl ht); rw [hsend] at this; cases this
  | dcrit => have := closer_returned (r.reach j) (Or.inr (Or.inl ht)); rw [hsend] at this; cases this
  | dunl => have := closer_returned (r.reach j) (Or.inr (Or.inr (Or.inl ht))); rw [hsend] at this; cases this
  | tend => have := closer_returned (r.reach j) (Or.inr (Or.inr (Or.inr ht))); rw [hsend] at this; cases this

/-- root `Close` blocked on `done` returns -/
theorem send_returns (sf : SelectFair run) (i : Nat) (hi : (run i).cpc = .send) : ∃ j, i ≤ j ∧ (run j).cpc = .ret := by
  apply Classical.byContradiction
  intro hno
  have stay : ∀ j, i ≤ j → (run j).cpc = .send := by
    intro j hj
    induction j with
    | zero => have : i = 0 := by omega
              subst this; exact hi
    | succ j ih =>
      by_cases h : i ≤ j
      · rcases cpc_next (r.step j) with h' | h' | h' | h' | h'
        · rw [h']; exact ih h
        · rw [ih h] at h'; cases h'.1
        · rw [ih h] at h'; cases h'.1
        · rw [ih h] at h'; cases h'.1
        · exfalso; apply hno; refine ⟨j + 1, hj, ?_⟩; rw [h'.2]; rfl
      · have : i = j + 1 := by omega
        subst this; exact hi
  have again : ∀ j, i ≤ j → ∃ k, j ≤ k ∧ (run k).tpc = .sel ∧ (run k).cpc = .send := by
    intro j hj
    obtain ⟨k, hk, hs⟩ := ticker_reaches_select r hr lf i stay j hj
    exact ⟨k, hk, hs, stay k (by omega)⟩
  obtain ⟨k, hk, _, _, hstep⟩ := sf i again
  apply hno
  refine ⟨k + 1, by omega, ?_⟩
  rw [hstep]; rfl

/-- root `Close` returns from wherever it is inside `Close` -/
theorem close_returns_fair (sf : SelectFair run) (i : Nat)
    (hi : (run i).cpc = .crit ∨ (run i).cpc = .marked ∨ (run i).cpc = .send) : ∃ j, i ≤ j ∧ (run j).cpc = .ret := by
  have fromMarked : ∀ i, (run i).cpc = .marked → ∃ j, i ≤ j ∧ (run j).cpc = .ret := by
    intro i hm
    obtain ⟨j', hj', hne⟩ := hr.closer i (Or.inr hm)
    rw [hm] at hne
    obtain ⟨m, h1, _, h3, h4⟩ := first_change (fun n => (run n).cpc = .marked) i j' hj' hm hne
    have hnext : (run (m + 1)).cpc = .send := by
      rcases cpc_next (r.step m) with h | h | h | h | h
      · exact absurd (h.trans h3) h4
      · rw [h3] at h; cases h.1
      · rw [h3] at h; cases h.1
      · exact h.2
      · rw [h3] at h; cases h.1
    obtain ⟨j, hj, hret⟩ := send_returns r hr lf sf (m + 1) hnext
    exact ⟨j, by omega, hret⟩
  rcases hi with hc | hc | hc
  · obtain ⟨j', hj', hne⟩ := hr.closer i (Or.inl hc)
    rw [hc] at hne
    obtain ⟨m, h1, _, h3, h4⟩ := first_change (fun n => (run n).cpc = .crit) i j' hj' hc hne
    rcases cpc_next (r.step m) with h | h | h | h | h
    · exact absurd (h.trans h3) h4
    · rw [h3] at h; cases h.1
    · rcases h.2 with h | h
      · obtain ⟨j, hj, hret⟩ := fromMarked (m + 1) h
        exact ⟨j, by omega, hret⟩
      · exact ⟨m + 1, by omega, h⟩
    · rw [h3] at h; cases h.1
    · rw [h3] at h; cases h.1
  · exact fromMarked i hc
  · exact send_returns r hr lf sf i hc

end live

end RL
