import Lemmas.FixedTextComma
/-! C04 helper lemmas, part 6: Comma round trip, totality / range of FromString, integer CheckedAs. -/
namespace FixedText

theorem toStr_ne_nil (p : Nat) (raw : Int) : toStr (10^p) raw ≠ [] := by
  intro h
  rw [toStr_decomp] at h
  simp only [List.append_eq_nil_iff] at h
  exact natStr_ne_nil _ h.1.2

/-- removing the separators from `Comma()` gives `String()` back -/
theorem comma_strip (p : Nat) (raw : Int) : stripCommas (comma (10^p) raw) = toStr (10^p) raw := by
  obtain ⟨hne, hip, _, hfpd, _, _, hfp0⟩ := toStr_canonical p raw
  unfold comma
  rw [toStr_decomp]
  generalize hfp : (if raw.tmod (10^p) = 0 then [] else fracStr p (raw.tmod (10^p)).natAbs) = fp at *
  have htl : (if raw.tmod (10^p) = 0 then [] else 46 :: fracStr p (raw.tmod (10^p)).natAbs) =
      (if fp = [] then [] else 46 :: fp) := by
    by_cases h0 : raw.tmod (10^p) = 0
    · rw [if_pos h0, if_pos (hfp0.mpr h0)]
    · rw [if_neg h0, if_neg (fun h => h0 (hfp0.mp h)), ← hfp, if_neg h0]
  rw [htl]
  have hfp46 : ∀ c ∈ fp, c ≠ 46 := fun c hc => by have := isDigit_bounds c (hfpd c hc); omega
  have h := commaNum_eval (decide (raw < 0)) _ fp hip hne hfp46
  simp only [decide_eq_true_eq] at h
  rw [h, stripCommas_append, stripCommas_append,
    commaBody_strip _ (fun c hc => by have := isDigit_bounds c (hip c hc); omega)]
  congr 1
  · congr 1
    split <;> simp [stripCommas]
  · apply stripCommas_id
    intro c hc
    split at hc
    · simp at hc
    · rcases List.mem_cons.mp hc with h' | h'
      · omega
      · have := isDigit_bounds c (hfpd c h'); omega

theorem stripCommas_nil_of_nil (s : Str) (h : s = []) : stripCommas s = [] := by subst h; rfl

theorem comma_ne_nil (p : Nat) (raw : Int) : comma (10^p) raw ≠ [] := by
  intro h
  have := comma_strip p raw
  rw [stripCommas_nil_of_nil _ h] at this
  exact toStr_ne_nil p raw this.symm

theorem toStr_noComma (p : Nat) (raw : Int) : stripCommas (toStr (10^p) raw) = toStr (10^p) raw := by
  obtain ⟨hne, hip, _, hfpd, _, _, hfp0⟩ := toStr_canonical p raw
  apply stripCommas_id
  intro c hc
  rw [toStr_decomp] at hc
  rcases List.mem_append.mp hc with h | h
  · rcases List.mem_append.mp h with h | h
    · split at h <;> simp at h; omega
    · have := isDigit_bounds c (hip c h); omega
  · by_cases h0 : raw.tmod (10^p) = 0
    · rw [if_pos h0] at h; simp at h
    · rw [if_neg h0] at h hfpd
      rcases List.mem_cons.mp h with h' | h'
      · omega
      · have := isDigit_bounds c (hfpd c h'); omega

/-- FromString only looks at the text with the commas removed -/
theorem fromStr64_congr (p : Nat) (m : Int) (s t : Str) (hs : s ≠ []) (ht : t ≠ [])
    (h : stripCommas s = stripCommas t) : fromStr64 p m s = fromStr64 p m t := by
  unfold fromStr64
  rw [if_neg hs, if_neg ht]
  simp only [h]

theorem fromStr128_congr (p : Nat) (m : Int) (s t : Str) (hs : s ≠ []) (ht : t ≠ [])
    (h : stripCommas s = stripCommas t) : fromStr128 p m s = fromStr128 p m t := by
  unfold fromStr128
  rw [if_neg hs, if_neg ht]
  simp only [h]

theorem fromStr64_comma (p : Nat) (raw : Int) :
    fromStr64 p (10^p) (comma (10^p) raw) = fromStr64 p (10^p) (toStr (10^p) raw) :=
  fromStr64_congr p _ _ _ (comma_ne_nil p raw) (toStr_ne_nil p raw) (by rw [comma_strip, toStr_noComma])

theorem fromStr128_comma (p : Nat) (raw : Int) :
    fromStr128 p (10^p) (comma (10^p) raw) = fromStr128 p (10^p) (toStr (10^p) raw) :=
  fromStr128_congr p _ _ _ (comma_ne_nil p raw) (toStr_ne_nil p raw) (by rw [comma_strip, toStr_noComma])

theorem fromStr64_commaPlus (p : Nat) (raw : Int) :
    fromStr64 p (10^p) (43 :: comma (10^p) raw) = fromStr64 p (10^p) (43 :: toStr (10^p) raw) :=
  fromStr64_congr p _ _ _ (by simp) (by simp) (by
    have e : ∀ s : Str, stripCommas (43 :: s) = 43 :: stripCommas s := fun s => by simp [stripCommas]
    rw [e, e, comma_strip, toStr_noComma])

theorem fromStr128_commaPlus (p : Nat) (raw : Int) :
    fromStr128 p (10^p) (43 :: comma (10^p) raw) = fromStr128 p (10^p) (43 :: toStr (10^p) raw) :=
  fromStr128_congr p _ _ _ (by simp) (by simp) (by
    have e : ∀ s : Str, stripCommas (43 :: s) = 43 :: stripCommas s := fun s => by simp [stripCommas]
    rw [e, e, comma_strip, toStr_noComma])

/-! ### totality and range -/
theorem head64_fits (m : Int) (p0 : Str) (v : Int) (n : Bool) (h : head64 m p0 = some (v, n)) : fits64 v = true := by
  unfold head64 at h
  split at h
  · cases h; decide
  · split at h
    · cases h; decide
    · split at h
      · cases h
      · split at h <;> cases h <;> exact wrap64_fits _

theorem tail64_total (p : Nat) (m v : Int) (n : Bool) (fo : Option Str) (hv : fits64 v = true) :
    tail64 p m v n fo = .err ∨ ∃ w, tail64 p m v n fo = .ok w ∧ fits64 w = true := by
  unfold tail64
  split
  · right
    refine ⟨_, rfl, ?_⟩
    split
    · exact wrap64_fits _
    · exact hv
  · split
    · left; rfl
    · right
      refine ⟨_, rfl, ?_⟩
      split <;> exact wrap64_fits _

theorem fromStr64_total (p : Nat) (m : Int) (s : Str) :
    fromStr64 p m s = .err ∨ fromStr64 p m s = .exp ∨ ∃ v, fromStr64 p m s = .ok v ∧ fits64 v = true := by
  unfold fromStr64
  split
  · left; rfl
  · simp only
    split
    · right; left; rfl
    · split
      · left; rfl
      · rename_i value neg heq
        rcases tail64_total p m value neg _ (head64_fits _ _ _ _ heq) with h | h
        · left; exact h
        · right; right; exact h

theorem sat128_fits (z : Int) : fits128 (sat128 z) = true := by
  simp only [fits128, Bool.and_eq_true, decide_eq_true_eq]
  unfold sat128
  split
  · split <;> omega
  · split <;> omega

theorem fromStr128_total (p : Nat) (m : Int) (s : Str) :
    fromStr128 p m s = .err ∨ fromStr128 p m s = .exp ∨ ∃ v, fromStr128 p m s = .ok v ∧ fits128 v = true := by
  unfold fromStr128
  split
  · left; rfl
  · simp only
    split
    · right; left; rfl
    · split
      · left; rfl
      · unfold tail128
        split
        · right; right; exact ⟨_, rfl, sat128_fits _⟩
        · split
          · left; rfl
          · right; right; exact ⟨_, rfl, sat128_fits _⟩

/-- the exponent branch is taken exactly for non-empty inputs that contain 'e' or 'E' -/
theorem fromStr64_exp_iff (p : Nat) (m : Int) (s : Str) :
    fromStr64 p m s = .exp ↔ s ≠ [] ∧ hasExp (stripCommas s) = true := by
  unfold fromStr64
  split
  · rename_i h; simp [h]
  · rename_i h
    simp only
    split
    · rename_i he; simp [h, he]
    · rename_i he
      have : ¬ (hasExp (stripCommas s) = true) := he
      simp only [h, ne_eq, not_false_eq_true, true_and, this, iff_false]
      split
      · simp
      · unfold tail64
        split
        · simp
        · split <;> simp

end FixedText
