import Model.LogHandlers
/-! Helper definitions and lemmas for C13 (core Lean only).

`TLSpec` is the declarative SPECIFICATION of a record line: the attribute forest is flattened, without any walk state,
into `Piece`s carrying the full dotted name; `TLSpec.line` renders them.  `format_eq_line` proves that the stateful
walk of `tracelog.go` (`TL.format`) produces exactly that. -/

namespace ML

theorem handle_gen (cs : List Child) (level : Int) (r0 : Result) :
    (cs.foldl (stepR level) r0).deliveries = r0.deliveries ++ (cs.filter (·.enabled level)).map (·.id) ∧
    (cs.foldl (stepR level) r0).errors = r0.errors ++ (cs.filter (·.enabled level)).filterMap runChild := by
  induction cs generalizing r0 with
  | nil => simp
  | cons c cs ih =>
    simp only [List.foldl_cons]
    obtain ⟨h1, h2⟩ := ih (stepR level r0 c)
    rw [h1, h2]
    by_cases he : c.enabled level = true
    · simp only [stepR, he, if_true, List.filter_cons_of_pos, List.map_cons, List.filterMap_cons]
      constructor
      · simp [List.append_assoc]
      · cases runChild c <;> simp [addErr, List.append_assoc]
    · have he' : c.enabled level = false := by simpa using he
      simp only [stepR, he', Bool.false_eq_true, if_false]
      rw [List.filter_cons_of_neg (by simp [he'])]
      exact ⟨rfl, rfl⟩

theorem foldl_stepExc_true (level : Int) : ∀ (cs : List Child) (r : Result),
    cs.foldl (stepExc true level) { res := r, unwound := false } =
      { res := cs.foldl (stepR level) r, unwound := false }
  | [], r => rfl
  | c :: cs, r => by
    simp only [List.foldl_cons]
    have : stepExc true level { res := r, unwound := false } c = { res := stepR level r c, unwound := false } := by
      unfold stepExc stepR
      by_cases he : c.enabled level = true
      · cases ho : c.outcome <;> simp [he, ho, runChild, addErr]
      · simp [he]
    rw [this]
    exact foldl_stepExc_true level cs _

end ML

namespace TLSpec
open TL

/-- what one attribute contributes to the line -/
inductive Piece where
  /-- a non-empty, non-group attribute: ` name=tok`, `name` being the dot-joined groups in force followed by the key -/
  | kv (name tok : Bytes)
  /-- a non-empty group: prints nothing itself, but (like any printed attribute) calls for the ` |` separator -/
  | opener
  /-- a stack carrier that is picked up as the record's stack (the last one wins) -/
  | stack (trace : Bytes)

mutual
/-- the pieces of one attribute under the prefix `p` (no walk state: the prefix is passed down, never restored) -/
def pieces (p : Bytes) : Attr → List Piece
  | .leaf k t => [.kv (p ++ k) t]
  | .empty => []
  | .group k kids => if kids.isEmpty then [] else .opener :: piecesL (p ++ (k ++ [46])) kids
  | .stack k tr fb => if p = [] ∧ k = stackKey then [.stack tr] else pieces p fb
def piecesL (p : Bytes) : List Attr → List Piece
  | [] => []
  | a :: as => pieces p a ++ piecesL p as
end

def Piece.visible : Piece → Bool
  | .kv _ _ => true
  | .opener => true
  | .stack _ => false
def Piece.text : Piece → Bytes
  | .kv n t => [32] ++ n ++ [61] ++ t
  | _ => []
def Piece.trace? : Piece → Option Bytes
  | .stack t => some t
  | _ => none

def anyVisible (ps : List Piece) : Bool := ps.any Piece.visible
def texts (ps : List Piece) : Bytes := ps.flatMap Piece.text
def lastStack (ps : List Piece) : Option Bytes := (ps.filterMap Piece.trace?).getLast?

/-- the effect of a list of pieces on the walk state of tracelog.go -/
def applyPieces (s : FSt) (ps : List Piece) : FSt :=
  { buf := s.buf ++ ((if s.needBar && anyVisible ps then [32, 124] else []) ++ texts ps),
    group := s.group,
    needBar := s.needBar && !anyVisible ps,
    stackErr := (lastStack ps).or s.stackErr }

theorem texts_of_not_visible (ps : List Piece) (h : anyVisible ps = false) : texts ps = [] := by
  induction ps with
  | nil => rfl
  | cons p ps ih =>
    simp only [anyVisible, List.any_cons, Bool.or_eq_false_iff] at h
    cases p <;> simp_all [texts, Piece.text, Piece.visible, anyVisible]

theorem lastStack_append (a b : List Piece) : lastStack (a ++ b) = (lastStack b).or (lastStack a) := by
  simp only [lastStack, List.filterMap_append]
  cases h : (List.filterMap Piece.trace? b).getLast? with
  | none =>
    have : List.filterMap Piece.trace? b = [] := by simpa using h
    simp [this]
  | some x =>
    rw [List.getLast?_append, h]

theorem applyPieces_append (s : FSt) (a b : List Piece) :
    applyPieces (applyPieces s a) b = applyPieces s (a ++ b) := by
  obtain ⟨buf, group, needBar, stackErr⟩ := s
  simp only [applyPieces, lastStack_append]
  have hv : anyVisible (a ++ b) = (anyVisible a || anyVisible b) := by simp [anyVisible]
  have ht : texts (a ++ b) = texts a ++ texts b := by simp [texts]
  rw [hv, ht]
  rcases Bool.eq_false_or_eq_true (anyVisible a) with ha | ha <;>
  rcases Bool.eq_false_or_eq_true (anyVisible b) with hb | hb <;>
  cases needBar <;> simp [ha, hb, Option.or_assoc, texts_of_not_visible]


theorem applyPieces_nil (s : FSt) : applyPieces s [] = s := by
  obtain ⟨buf, group, needBar, stackErr⟩ := s
  simp [applyPieces, anyVisible, texts, lastStack]

@[simp] theorem applyPieces_group (s : FSt) (ps : List Piece) : (applyPieces s ps).group = s.group := rfl

mutual
theorem appendAttr_eq : ∀ (a : Attr) (s : FSt), appendAttr s a = applyPieces s (pieces s.group a)
  | .leaf k t, s => by
    obtain ⟨buf, group, needBar, stackErr⟩ := s
    cases needBar <;>
      simp [appendAttr, pieces, applyPieces, writeKV, addBar, anyVisible, texts, lastStack, Piece.visible, Piece.text,
        Piece.trace?]
  | .empty, s => by simp [appendAttr, pieces, applyPieces_nil]
  | .stack k tr fb, s => by
    by_cases h : s.group = [] ∧ k = stackKey
    · obtain ⟨buf, group, needBar, stackErr⟩ := s
      simp only at h
      simp [appendAttr, pieces, h, applyPieces, anyVisible, texts, lastStack, Piece.visible, Piece.text, Piece.trace?]
    · rw [appendAttr, pieces, if_neg h, if_neg h]
      exact appendAttr_eq fb s
  | .group k kids, s => by
    by_cases hk : kids.isEmpty = true
    · simp [appendAttr, pieces, hk, applyPieces_nil]
    · rw [appendAttr, pieces, if_neg hk, if_neg hk]
      have ih := appendAttrs_eq kids (addGroup (addBar s) k)
      simp only [ih]
      obtain ⟨buf, group, needBar, stackErr⟩ := s
      cases needBar <;>
        simp [applyPieces, addGroup, addBar, anyVisible, texts, lastStack, Piece.visible, Piece.text, Piece.trace?]
theorem appendAttrs_eq : ∀ (as : List Attr) (s : FSt), appendAttrs s as = applyPieces s (piecesL s.group as)
  | [], s => by simp [appendAttrs, piecesL, applyPieces_nil]
  | a :: as, s => by
    rw [appendAttrs, piecesL, appendAttr_eq a s, appendAttrs_eq as, applyPieces_append, applyPieces_group]
end


/-- the dot-joined names of the groups opened by `WithGroup`, given the prefix `p` in force before -/
def prefixE (p : Bytes) : List Entry → Bytes
  | [] => p
  | .grp g :: es => prefixE (if g ≠ [] then p ++ (g ++ [46]) else p) es
  | .attrs _ :: es => prefixE p es

/-- the pieces contributed by the handler's entries (attributes given to `WithAttrs`) -/
def piecesE (p : Bytes) : List Entry → List Piece
  | [] => []
  | .grp g :: es => piecesE (if g ≠ [] then p ++ (g ++ [46]) else p) es
  | .attrs as :: es => piecesL p as ++ piecesE p es

def setGroup (s : FSt) (g : Bytes) : FSt := { s with group := g }

theorem applyPieces_setGroup (s : FSt) (g : Bytes) (ps : List Piece) :
    applyPieces (setGroup s g) ps = setGroup (applyPieces s ps) g := rfl

theorem foldl_entries : ∀ (es : List Entry) (s : FSt),
    es.foldl appendEntry s = setGroup (applyPieces s (piecesE s.group es)) (prefixE s.group es)
  | [], s => by
    obtain ⟨buf, group, needBar, stackErr⟩ := s
    simp [piecesE, prefixE, applyPieces_nil, setGroup]
  | .grp g :: es, s => by
    rw [List.foldl_cons, foldl_entries es]
    by_cases hg : g = []
    · simp [appendEntry, hg, piecesE, prefixE]
    · have : appendEntry s (.grp g) = setGroup s (s.group ++ (g ++ [46])) := by
        simp [appendEntry, hg, addGroup, setGroup]
      rw [this]
      simp [piecesE, prefixE, hg, setGroup, applyPieces]
  | .attrs as :: es, s => by
    rw [List.foldl_cons, foldl_entries es]
    simp only [appendEntry, appendAttrs_eq, applyPieces_group, applyPieces_append, piecesE, prefixE]

/-- everything the record line is assembled from: the handler's own attributes, then the record's, the latter under
    all the groups the handler opened -/
def allPieces (entries : List Entry) (r : Record) : List Piece :=
  piecesE [] entries ++ piecesL (prefixE [] entries) r.attrs

/-- the main line (without the line feed) -/
def mainLine (names : List (Int × Bytes)) (entries : List Entry) (r : Record) : Bytes :=
  header names r ++ ((if anyVisible (allPieces entries r) then [32, 124] else []) ++ texts (allPieces entries r))

/-- SPECIFICATION of the bytes of one record -/
def line (names : List (Int × Bytes)) (entries : List Entry) (r : Record) : Bytes :=
  match lastStack (allPieces entries r) with
  | some tr => mainLine names entries r ++ [10] ++ tr ++ [10]
  | none => mainLine names entries r ++ [10]

theorem walk_eq (names : List (Int × Bytes)) (entries : List Entry) (r : Record) :
    walk names entries r =
      setGroup (applyPieces { buf := header names r } (allPieces entries r)) (prefixE [] entries) := by
  unfold walk
  rw [foldl_entries, appendAttrs_eq]
  simp only [allPieces, ← applyPieces_append]
  rfl

theorem format_eq_line (names : List (Int × Bytes)) (entries : List Entry) (r : Record) :
    format names entries r = line names entries r := by
  unfold format line mainLine
  rw [walk_eq]
  simp only [setGroup, applyPieces, Bool.true_and, Option.or_none]
  cases lastStack (allPieces entries r) <;> rfl

end TLSpec

namespace TL

/-- a slice header that refers to an array of the store (or is the nil slice) -/
def Store.valid (σ : Store) (s : Slice) : Prop := s.arr < σ.arrays.length ∨ s.len = 0

theorem Store.view_len0 (σ : Store) (s : Slice) (h : s.len = 0) : σ.view s = [] := by
  simp [Store.view, h]

theorem Store.derive_frame (σ : Store) (s : Slice) (e : Entry) (s' : Slice) (h : σ.valid s') :
    (σ.derive s e).1.valid s' ∧ (σ.derive s e).1.view s' = σ.view s' := by
  rcases h with h | h
  · constructor
    · left; simp [Store.derive]; omega
    · simp [Store.derive, Store.view, List.getElem?_append_left h]
  · exact ⟨Or.inr h, by rw [Store.view_len0 _ _ h, Store.view_len0 _ _ h]⟩

theorem Store.derive_new (σ : Store) (s : Slice) (e : Entry) :
    (σ.derive s e).1.valid (σ.derive s e).2 ∧ (σ.derive s e).1.view (σ.derive s e).2 = σ.view s ++ [e] := by
  constructor
  · left; simp [Store.derive]
  · simp only [Store.derive, Store.view, List.getElem?_append_right (Nat.le_refl _), Nat.sub_self,
      List.getElem?_cons_zero, Option.getD_some]
    exact List.take_of_length_le (Nat.le_refl _)

/-! ### the bounded FIFO of buffered mode under arbitrary schedules of producer and consumer steps -/

inductive BOp where
  | send (x : Bytes)     -- a `Handle` call reaches the `select`
  | take                 -- the delivery goroutine receives
  | finish               -- its `sink.Write` returns
  | drain                -- it runs until nothing is pending

/-- bookkeeping of a run: what was written to the sink, what was accepted, what was dropped -/
structure Run where
  buf : Buf
  written : List Bytes := []
  accepted : List Bytes := []
  dropped : List Bytes := []

def Run.step (t : Run) : BOp → Run
  | .send x =>
    if (t.buf.send x).2 then { t with buf := (t.buf.send x).1, accepted := t.accepted ++ [x] }
    else { t with buf := (t.buf.send x).1, dropped := t.dropped ++ [x] }
  | .take => { t with buf := t.buf.take }
  | .finish => { t with buf := t.buf.finish.1, written := t.written ++ t.buf.finish.2 }
  | .drain => { t with buf := t.buf.drain.1, written := t.written ++ t.buf.drain.2 }

def sentOf : List BOp → List Bytes
  | [] => []
  | .send x :: ops => x :: sentOf ops
  | _ :: ops => sentOf ops

def Buf.pending (b : Buf) : List Bytes := b.inflight.toList ++ b.queue

/-- the invariant: written ++ pending = accepted, the queue respects its capacity, the capacity never changes -/
def Run.Inv (c : Nat) (t : Run) : Prop :=
  t.written ++ t.buf.pending = t.accepted ∧ t.buf.queue.length ≤ c ∧ t.buf.cap = c

theorem Run.step_inv (c : Nat) (t : Run) (op : BOp) (h : t.Inv c) : (t.step op).Inv c := by
  obtain ⟨h1, h2, h3⟩ := h
  obtain ⟨⟨cap, inflight, queue⟩, written, accepted, dropped⟩ := t
  simp only [Buf.pending] at h1 h2 h3 ⊢
  subst h3
  cases op with
  | send x =>
    by_cases hq : queue.length < cap
    · simp [Run.step, Buf.send, hq, Run.Inv, Buf.pending, ← h1]; omega
    · simp [Run.step, Buf.send, hq, Run.Inv, Buf.pending, ← h1]; omega
  | take =>
    cases inflight with
    | some y => simp [Run.step, Buf.take, Run.Inv, Buf.pending, ← h1]; omega
    | none =>
      cases queue with
      | nil => simp [Run.step, Buf.take, Run.Inv, Buf.pending, ← h1]
      | cons q qs => simp [Run.step, Buf.take, Run.Inv, Buf.pending, ← h1] at h2 ⊢; omega
  | finish =>
    cases inflight with
    | some y => simp [Run.step, Buf.finish, Run.Inv, Buf.pending, ← h1]; omega
    | none => simp [Run.step, Buf.finish, Run.Inv, Buf.pending, ← h1]; omega
  | drain => simp [Run.step, Buf.drain, Run.Inv, Buf.pending, ← h1]

theorem Run.foldl_inv (c : Nat) (ops : List BOp) (t : Run) (h : t.Inv c) : (ops.foldl Run.step t).Inv c := by
  induction ops generalizing t with
  | nil => exact h
  | cons op ops ih => exact ih _ (Run.step_inv c t op h)

theorem Run.accepted_sublist (ops : List BOp) (t : Run) :
    ∃ more, (ops.foldl Run.step t).accepted = t.accepted ++ more ∧ more.Sublist (sentOf ops) := by
  induction ops generalizing t with
  | nil => exact ⟨[], by simp, List.Sublist.refl _⟩
  | cons op ops ih =>
    obtain ⟨more, hm, hs⟩ := ih (t.step op)
    cases op with
    | send x =>
      by_cases hq : (t.buf.send x).2 = true
      · refine ⟨x :: more, ?_, ?_⟩
        · simp only [Run.step, hq, if_true] at hm
          simp [Run.step, hq, hm]
        · simpa [sentOf] using hs
      · refine ⟨more, ?_, ?_⟩
        · simp only [Run.step, hq, Bool.false_eq_true, if_false] at hm
          simp [Run.step, hq, hm]
        · simp only [sentOf]; exact List.Sublist.cons _ hs
    | take => exact ⟨more, by simpa [Run.step] using hm, by simpa [sentOf] using hs⟩
    | finish => exact ⟨more, by simpa [Run.step] using hm, by simpa [sentOf] using hs⟩
    | drain => exact ⟨more, by simpa [Run.step] using hm, by simpa [sentOf] using hs⟩

end TL

namespace ML
open TL

/-- a derivation step that appends the entry `e` to the child's list in a fresh array -/
def Appends (f : Store → TL.Handler → Store × TL.Handler × Bool) (e : Entry) : Prop :=
  ∀ σ c, f σ c = ((σ.derive c.list e).1, { c with list := (σ.derive c.list e).2 }, false)

/-- relation between a child and its derivation -/
def Derived (σ σ' : Store) (e : Entry) (c c' : TL.Handler) : Prop :=
  σ'.view c'.list = σ.view c.list ++ [e] ∧ σ'.valid c'.list ∧
  c'.level = c.level ∧ c'.names = c.names ∧ c'.sink = c.sink

/-- pointwise `Derived`, same length -/
def AllDerived (σ σ' : Store) (e : Entry) : List TL.Handler → List TL.Handler → Prop
  | [], [] => True
  | c :: cs, c' :: cs' => Derived σ σ' e c c' ∧ AllDerived σ σ' e cs cs'
  | _, _ => False

theorem AllDerived.rebase (σ0 σ σ' : Store) (e : Entry) : ∀ (cs cs' : List TL.Handler),
    (∀ d ∈ cs, σ.view d.list = σ0.view d.list) → AllDerived σ σ' e cs cs' → AllDerived σ0 σ' e cs cs'
  | [], [], _, _ => trivial
  | [], _ :: _, _, h => h.elim
  | _ :: _, [], _, h => h.elim
  | c :: cs, c' :: cs', hv, h => by
    obtain ⟨⟨h1, h2⟩, h3⟩ := h
    refine ⟨⟨?_, h2⟩, AllDerived.rebase σ0 σ σ' e cs cs' (fun d hd => hv d (List.mem_cons_of_mem _ hd)) h3⟩
    rw [h1, hv c (List.mem_cons_self ..)]

theorem AllDerived.get (σ σ' : Store) (e : Entry) : ∀ (cs cs' : List TL.Handler), AllDerived σ σ' e cs cs' →
    cs'.length = cs.length ∧ ∀ (i : Nat) c c', cs[i]? = some c → cs'[i]? = some c' → Derived σ σ' e c c'
  | [], [], _ => ⟨rfl, by simp⟩
  | [], _ :: _, h => h.elim
  | _ :: _, [], h => h.elim
  | c :: cs, c' :: cs', h => by
    obtain ⟨h1, h2⟩ := h
    obtain ⟨l, g⟩ := AllDerived.get σ σ' e cs cs' h2
    refine ⟨by simp [l], ?_⟩
    intro i d d' hd hd'
    cases i with
    | zero => simp at hd hd'; subst hd hd'; exact h1
    | succ i => simp at hd hd'; exact g i d d' hd hd'

theorem mapDerive_spec (f : Store → TL.Handler → Store × TL.Handler × Bool) (e : Entry) (hf : Appends f e) :
    ∀ (cs : List TL.Handler) (σ : Store), (∀ c ∈ cs, σ.valid c.list) →
      (∀ s, σ.valid s → (mapDerive f σ cs).1.valid s ∧ (mapDerive f σ cs).1.view s = σ.view s) ∧
      AllDerived σ (mapDerive f σ cs).1 e cs (mapDerive f σ cs).2
  | [], σ, _ => by simp [mapDerive, AllDerived]
  | c :: cs, σ, hv => by
    have hc := hf σ c
    have frame1 := Store.derive_frame σ c.list e
    have new1 := Store.derive_new σ c.list e
    have hv' : ∀ d ∈ cs, (σ.derive c.list e).1.valid d.list := fun d hd =>
      (frame1 d.list (hv d (List.mem_cons_of_mem _ hd))).1
    obtain ⟨frame2, rel⟩ := mapDerive_spec f e hf cs (σ.derive c.list e).1 hv'
    simp only [mapDerive, hc]
    refine ⟨fun s hs => ?_, ?_, ?_⟩
    · have a := frame1 s hs
      have b := frame2 s a.1
      exact ⟨b.1, b.2.trans a.2⟩
    · have b := frame2 _ new1.1
      exact ⟨b.2.trans new1.2, b.1, rfl, rfl, rfl⟩
    · exact AllDerived.rebase σ _ _ e cs _
        (fun d hd => (frame1 d.list (hv d (List.mem_cons_of_mem _ hd))).2) rel

/-- a derivation step that returns the child itself -/
theorem mapDerive_same (f : Store → TL.Handler → Store × TL.Handler × Bool) (hf : ∀ σ c, f σ c = (σ, c, true)) :
    ∀ (cs : List TL.Handler) (σ : Store), mapDerive f σ cs = (σ, cs)
  | [], σ => rfl
  | c :: cs, σ => by simp [mapDerive, hf, mapDerive_same f hf cs σ]

end ML

namespace TLSpec
open TL

mutual
/-- no value offering `StackError()` anywhere inside -/
def carrierFree : Attr → Bool
  | .leaf _ _ => true
  | .empty => true
  | .stack _ _ _ => false
  | .group _ kids => carrierFreeL kids
def carrierFreeL : List Attr → Bool
  | [] => true
  | a :: as => carrierFree a && carrierFreeL as
end

mutual
theorem carrierFree_noStack : ∀ (a : Attr) (p : Bytes), carrierFree a = true → (pieces p a).filterMap Piece.trace? = []
  | .leaf _ _, _, _ => by simp [pieces, Piece.trace?]
  | .empty, _, _ => by simp [pieces]
  | .stack _ _ _, _, h => by simp [carrierFree] at h
  | .group k kids, p, h => by
    by_cases hk : kids.isEmpty = true
    · simp [pieces, hk]
    · rw [pieces, if_neg hk]
      simp only [carrierFree] at h
      rw [List.filterMap_cons]
      simp only [Piece.trace?]
      exact carrierFreeL_noStack kids _ h
theorem carrierFreeL_noStack : ∀ (as : List Attr) (p : Bytes), carrierFreeL as = true →
    (piecesL p as).filterMap Piece.trace? = []
  | [], _, _ => by simp [piecesL]
  | a :: as, p, h => by
    simp only [carrierFreeL, Bool.and_eq_true] at h
    simp [piecesL, carrierFree_noStack a p h.1, carrierFreeL_noStack as p h.2]
end

theorem piecesL_append (p : Bytes) : ∀ (a b : List Attr), piecesL p (a ++ b) = piecesL p a ++ piecesL p b
  | [], b => by simp [piecesL]
  | x :: a, b => by simp [piecesL, piecesL_append p a b]

theorem lastStack_of_last_carrier (entries : List Entry) (r : Record) (pre post : List Attr) (tr : Bytes) (fb : Attr)
    (hg : prefixE [] entries = []) (hr : r.attrs = pre ++ [.stack stackKey tr fb] ++ post)
    (hp : carrierFreeL post = true) : lastStack (allPieces entries r) = some tr := by
  unfold allPieces
  rw [hg, hr, piecesL_append, piecesL_append]
  have h1 : piecesL [] [Attr.stack stackKey tr fb] = [Piece.stack tr] := by simp [piecesL, pieces]
  rw [h1]
  simp [lastStack, List.filterMap_append, carrierFreeL_noStack post [] hp, Piece.trace?]

end TLSpec
