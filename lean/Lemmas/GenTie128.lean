import Props.C01Gen
import Lemmas.Fixed128
import Lemmas.GenTieFixed
import Lemmas.GenNumModel
import Generated.SSA_F128
/-! C03, translator tie for `xmath/fixed/f128`: the bridge between the regenerated definitions
    (`Generated/SSA_F128.lean`: an `f128.Int[T]` is a record around a `num.Int128`, and its methods call the regenerated
    `Gen.Int128_*` of `Generated/SSA_Num.lean`) and the hand-written model (`Model/Fixed.lean`, `Fixed.F128.*`: raw values
    are `Int`s reduced by `wrap128`).  Every lemma is `Props/C01Gen.lean` (regenerated definition = model function of
    C01) followed by the specification of that model function proved in `Props/C01.lean`. -/
namespace GenTie128
open Fixed
abbrev W := BitVec 64

theorem wrap128_eq (z : Int) : I128.wrap128 z = Fixed.wrap128 z := by
  unfold I128.wrap128 Fixed.wrap128; norm_num

theorem fits (a : I128) : fits128 a.toInt := by
  have := I128.toInt_range a; unfold fits128; norm_num at this; omega

theorem toInt_add (a b : I128) : (Gen.Int128_Add a b).toInt = F128.add a.toInt b.toInt := by
  rw [C01Gen.Int128_Add_eq, C01.iadd_spec, wrap128_eq]; rfl
theorem toInt_sub (a b : I128) : (Gen.Int128_Sub a b).toInt = F128.sub a.toInt b.toInt := by
  rw [C01Gen.Int128_Sub_eq, C01.isub_spec, wrap128_eq]; rfl
theorem toInt_mul (a b : I128) : (Gen.Int128_Mul a b).toInt = F128.mulI a.toInt b.toInt := by
  rw [C01Gen.Int128_Mul_eq, C01.imul_spec, wrap128_eq]; rfl

theorem negI_eq (x : Int) (h : fits128 x) : F128.negI x = Fixed.wrap128 (-x) := by
  unfold F128.negI F128.minRaw Fixed.wrap128; unfold fits128 at h
  split <;> omega
theorem toInt_neg (a : I128) : (Gen.Int128_Neg a).toInt = F128.negI a.toInt := by
  rw [C01Gen.Int128_Neg_eq, C01.neg_spec, wrap128_eq, negI_eq _ (fits a)]
theorem toInt_abs (a : I128) : (Gen.Int128_Abs a).toInt = F128.absI a.toInt := by
  rw [C01Gen.Int128_Abs_eq, C01.abs_spec, wrap128_eq]
  have h := fits a
  unfold F128.absI Fixed.wrap128; unfold fits128 at h
  split <;> omega

theorem int64Val_eq (n : W) : I128.int64Val n = n.toInt := by
  unfold I128.int64Val; rw [GenTie.toInt_eq]; have := n.isLt
  split <;> split <;> omega
theorem toInt_from64 (n : W) : (Gen.Int128From64 n).toInt = n.toInt := by
  rw [C01Gen.Int128From64_eq, (C01.ifrom64_spec n).1, int64Val_eq]

theorem toInt_cmp (a b : I128) : (Gen.Int128_Cmp a b).toInt = F128.cmp a.toInt b.toInt := by
  rw [C01Gen.Int128_Cmp_eq, C01.icmp_spec]; unfold F128.cmp
  split_ifs <;> omega
theorem toInt_sign (a : I128) :
    (Gen.Int128_Sign a).toInt = if a.toInt < 0 then -1 else if a.toInt = 0 then 0 else 1 := by
  rw [C01Gen.Int128_Sign_eq, C01.sign_spec]
theorem gt_eq (a b : I128) : Gen.Int128_GreaterThan a b = F128.gt a.toInt b.toInt := by
  rw [C01Gen.Int128_GreaterThan_eq, C01.igt_spec]; rfl
theorem ge_eq (a b : I128) : Gen.Int128_GreaterThanOrEqual a b = F128.ge a.toInt b.toInt := by
  rw [C01Gen.Int128_GreaterThanOrEqual_eq, C01.ige_spec]; rfl
theorem lt_eq (a b : I128) : Gen.Int128_LessThan a b = F128.lt a.toInt b.toInt := by
  rw [C01Gen.Int128_LessThan_eq, C01.ilt_spec]; rfl
theorem le_eq (a b : I128) : Gen.Int128_LessThanOrEqual a b = F128.le a.toInt b.toInt := by
  rw [C01Gen.Int128_LessThanOrEqual_eq, C01.ile_spec]; rfl
theorem eq_eq (a b : I128) : Gen.Int128_Equal a b = F128.eq a.toInt b.toInt := by
  rw [C01Gen.Int128_Equal_eq, C01.ieq_spec]; rfl
theorem isZero_eq (a : I128) : Gen.Int128_IsZero a = decide (a.toInt = 0) := by
  rw [C01Gen.Int128_IsZero_eq]
  have h := I128.isZero_iff a
  have h2 := I128.toNat_as_int a
  have h3 := fits a; unfold fits128 at h3
  unfold I128.isZero
  by_cases hz : a.hi ||| a.lo = 0#64
  · simp only [hz, decide_true]; have := h.mp hz; simp only [true_eq_decide_iff]; omega
  · simp only [hz, decide_false]; have : a.toU.toNat ≠ 0 := fun e => hz (h.mpr e)
    simp only [false_eq_decide_iff]; omega

/-- the quotient of the model of `f128` (sign-magnitude around the unsigned division, by contract) is the truncated
    quotient reduced mod 2^128 -/
theorem quo_eq_wrap (i n : Int) (hi : fits128 i) (hn : fits128 n) (hn0 : n ≠ 0) :
    F128.quo i n = Fixed.wrap128 (i.tdiv n) := by
  by_cases hq : fits128 (i.tdiv n)
  · rw [F128.quo_eq hi hn hq, wrap128_of_fits hq]
  · -- only `MinInt128 / -1` is not representable
    have e : (i.tdiv n).natAbs = i.natAbs / n.natAbs := Int.natAbs_tdiv i n
    have l1 := Nat.div_le_self i.natAbs n.natAbs
    have l2 : 2 ≤ n.natAbs → i.natAbs / n.natAbs ≤ i.natAbs / 2 := fun h => Nat.div_le_div_left h (by omega)
    have l3 : n.natAbs = 1 → i.natAbs / n.natAbs = i.natAbs := fun h => by rw [h, Nat.div_one]
    generalize i.natAbs / n.natAbs = Q at e l1 l2 l3
    generalize hT : i.tdiv n = T at e hq ⊢
    unfold fits128 at hi hn hq
    have h1 : i = -170141183460469231731687303715884105728 := by omega
    have h2 : n = -1 := by
      by_contra hne
      by_cases hn1 : n = 1
      · subst hn1; rw [Int.tdiv_one] at hT; omega
      · omega
    subst h1; subst h2; subst hT; decide

/-- `Int128.Div` (the model function of C01, total form) is the quotient of the f128 model for a non-zero divisor -/
theorem toInt_div (a n : I128) (h : n.toInt ≠ 0) : (GenNum.Int128_Div a n).toInt = F128.quo a.toInt n.toInt := by
  obtain ⟨q, r, e, hq, _⟩ := C01.idivMod_spec a n h
  have hd : a.div n = .ok q := by rw [(C01.idiv_eq_fst_divMod a n).1, e]; rfl
  unfold GenNum.Int128_Div; rw [hd]; simp only
  rw [hq, wrap128_eq, quo_eq_wrap _ _ (fits a) (fits n) h]

/-- `Int128.Mod` (the model function of C01, total form) is the truncated remainder for a non-zero divisor -/
theorem toInt_mod (a n : I128) (h : n.toInt ≠ 0) : (GenNum.Int128_Mod a n).toInt = a.toInt.tmod n.toInt := by
  obtain ⟨q, r, e, _, hr⟩ := C01.idivMod_spec a n h
  have hd : a.mod n = .ok r := by rw [(C01.idiv_eq_fst_divMod a n).2.1, e]; rfl
  unfold GenNum.Int128_Mod; rw [hd]; simp only
  exact hr

theorem divMod_fst (a n : I128) : (GenNum.Int128_DivMod a n).1 = GenNum.Int128_Div a n := by
  unfold GenNum.Int128_DivMod GenNum.Int128_Div
  rw [(C01.idiv_eq_fst_divMod a n).1]
  cases I128.divMod a n <;> rfl
theorem divMod_snd (a n : I128) : (GenNum.Int128_DivMod a n).2 = GenNum.Int128_Mod a n := by
  unfold GenNum.Int128_DivMod GenNum.Int128_Mod
  rw [(C01.idiv_eq_fst_divMod a n).2.1]
  cases I128.divMod a n <;> rfl
theorem data_eq (a b : Gen.F128_Int) : a = b ↔ a.data.toInt = b.data.toInt := by
  cases a; cases b
  simp only [Gen.F128_Int.mk.injEq]
  exact ⟨fun h => by rw [h], I128.toInt_inj⟩
theorem zero_toInt : (⟨0#64, 0#64⟩ : I128).toInt = 0 := by decide
theorem data_ite (c : Prop) [Decidable c] (a b : Gen.F128_Int) :
    (if c then a else b).data = if c then a.data else b.data := by split <;> rfl
theorem toInt_ite (c : Prop) [Decidable c] (a b : I128) :
    (if c then a else b).toInt = if c then a.toInt else b.toInt := by split <;> rfl

/-- `t.Multiplier() / 2` computed on the `int64` (a rewrite that halves the multiplier before widening it) -/
theorem sdiv2 (M : BitVec 64) (h : 0 < M.toInt) : (BitVec.sdiv M 2#64).toInt = M.toInt / 2 := by
  rw [BitVec.toInt_sdiv_of_ne_or_ne _ _ (Or.inr (by decide))]
  simp only [BitVec.reduceToInt]
  rw [Int.tdiv_eq_ediv_of_nonneg (by omega)]

theorem quo2 (m : Int) (h : 0 < m) (hf : fits128 m) : F128.quo m 2 = m / 2 := by
  simp only [fits128] at hf
  unfold F128.quo F128.toU Fixed.wrap128
  simp only [show ¬ m < 0 by omega, show ¬ (2:Int) < 0 by omega, if_false, decide_false, bne_self_eq_false,
    Bool.false_eq_true]
  have e1 : m % 340282366920938463463374607431768211456 = m := Int.emod_eq_of_lt (by omega) (by omega)
  have e2 : (2 : Int) % 340282366920938463463374607431768211456 = 2 := by decide
  rw [e1, e2]
  omega

end GenTie128

/-! ## the proof script -/

/-- `fq_tie [the generated definition under study, the `_eq` theorems of its callees, facts] [model definitions]`:
    unfold the definition under study and rewrite its callees into the model (`Props/C03Gen128.lean` proves the theorems
    bottom-up, so a callee is already known to be its model function), push `toInt` through the `num.Int128` operations
    (`GenTie128.toInt_add` …: the regenerated `Gen.Int128_*` are the model functions of C01, whose specifications are
    proved there), unfold whatever helper of the f128 file is left (`gen_local`), unfold the model side, and close by `rfl`, or by
    splitting every `if` and linear arithmetic with the comparison functions of the model unfolded (last: also `add`,
    `sub` and `wrap128`, for a rewrite that tests the sign of a remainder instead of comparing with the whole part) -/
syntax "fq_tie" "[" Lean.Parser.Tactic.simpLemma,* "]" "[" Lean.Parser.Tactic.simpLemma,* "]" : tactic
macro_rules
  | `(tactic| fq_tie [$ls,*] []) => `(tactic| fq_tie [$ls,*] [eq_self_iff_true])
  | `(tactic| fq_tie [$ls,*] [$ms,*]) => `(tactic|
      (simp only [$ls,*, $ms,*, GenTie128.toInt_add, GenTie128.toInt_sub, GenTie128.toInt_mul, GenTie128.toInt_neg,
        GenTie128.toInt_abs, GenTie128.toInt_from64, GenTie128.toInt_cmp, GenTie128.toInt_sign, GenTie128.gt_eq,
        GenTie128.ge_eq, GenTie128.lt_eq, GenTie128.le_eq, GenTie128.eq_eq, GenTie128.isZero_eq, GenTie128.divMod_fst, GenTie128.divMod_snd, GenTie128.toInt_div,
        GenTie128.toInt_mod, GenTie128.data_eq, GenTie128.zero_toInt, GenTie128.data_ite, GenTie128.toInt_ite, ne_eq, BitVec.reduceToInt,
        Int.reduceEq, Int.reduceNe,
        not_false_eq_true, not_true_eq_false, Bool.not_eq_true', decide_eq_true_eq, decide_eq_false_iff_not]) <;>
      (try simp only [gen_local, gen_const, $ls,*, $ms,*, GenTie128.toInt_add, GenTie128.toInt_sub, GenTie128.toInt_mul,
        GenTie128.toInt_neg, GenTie128.toInt_abs, GenTie128.toInt_from64, GenTie128.toInt_cmp, GenTie128.toInt_sign,
        GenTie128.gt_eq, GenTie128.ge_eq, GenTie128.lt_eq, GenTie128.le_eq, GenTie128.eq_eq, GenTie128.isZero_eq,
        GenTie128.divMod_fst, GenTie128.divMod_snd, GenTie128.toInt_div, GenTie128.toInt_mod, GenTie128.data_eq, GenTie128.zero_toInt, GenTie128.data_ite,
        GenTie128.toInt_ite, ne_eq, BitVec.reduceToInt, Int.reduceEq, Int.reduceNe, not_false_eq_true,
        not_true_eq_false]) <;>
      (try simp only [$ms,*]) <;>
      first
      | with_reducible rfl
      | ((try split_ifs) <;> first | with_reducible rfl | omega)
      | ((try simp only [Fixed.F128.gt, Fixed.F128.ge, Fixed.F128.lt, Fixed.F128.le, Fixed.F128.eq, Fixed.F128.neg, Fixed.F128.cmp,
            decide_eq_true_eq, decide_eq_false_iff_not, Bool.not_eq_true', ne_eq, Bool.and_eq_true, Bool.or_eq_true,
            Bool.decide_eq_true] at *) <;>
         (try split_ifs) <;> first | with_reducible rfl | omega)
      | ((try simp only [Fixed.F128.gt, Fixed.F128.ge, Fixed.F128.lt, Fixed.F128.le, Fixed.F128.eq, Fixed.F128.neg, Fixed.F128.cmp,
            Fixed.F128.add, Fixed.F128.sub, Fixed.wrap128, decide_eq_true_eq, decide_eq_false_iff_not,
            Bool.not_eq_true', ne_eq, Bool.and_eq_true, Bool.or_eq_true, Bool.decide_eq_true, gt_iff_lt, ge_iff_le]
            at *) <;>
         (try split_ifs) <;> first | with_reducible rfl | (gen_guard 24 <;> omega)))
