import Lemmas.EvalLex
/-! C09: `parse (render e) = tree e` — the token-level theorem (`EvalTok`) composed with the lexing bridge (`EvalLex`). -/
namespace Eval

/-- the operators of the expression come from the table, signs are unary operators, operands are atoms -/
def E.In (ops : List Op) (fns : List Bytes) : E → Prop
  | .atom u x => (∀ v, u = some v → v ∈ ops ∧ v.un = true) ∧ AtomOK ops x
  | .paren u e => (∀ v, u = some v → v ∈ ops ∧ v.un = true) ∧ e.In ops fns
  | .bin o l r => o ∈ ops ∧ l.In ops fns ∧ r.In ops fns
  | .call u f b args => (∀ v, u = some v → v ∈ ops ∧ v.un = true) ∧ AtomOK ops f ∧ f ∈ fns ∧ Blank b ∧ Bal args

def FollowOK (cont : List Tok) : Prop := cont = [] ∨ ∃ o ts', cont = .sym o :: ts'

theorem sym_next (ops : List Op) (hL : LexTable ops) (u : Op) (hu : u ∈ ops) (h61 : u.sym.head? ≠ some 61)
    (ts : List Tok) : NextNot61 (.sym u :: ts) :=
  ⟨hL.ne u hu, h61⟩

theorem lp_head (lp : Op) (hlp : lp.sym = LP) : lp.sym.head? ≠ some 61 := by rw [hlp]; decide

theorem atom_next (ops : List Op) (hL : LexTable ops) (x : Bytes) (hx : AtomOK ops x) (ts : List Tok) :
    NextNot61 (.opd x :: ts) := by
  refine ⟨hx.1, ?_⟩
  cases hxe : x with
  | nil => exact absurd hxe hx.1
  | cons c t =>
    have := atomScan_head ops c t (hxe ▸ hx.2.2.1)
    simp only [Tok.bytes, List.head?_cons, ne_eq, Option.some.injEq]
    intro h; subst h
    rw [hL.eq61] at this; exact Bool.noConfusion this

/-- an expression starts with a token that does not begin with `=` -/
theorem call_next (ops : List Op) (hL : LexTable ops) (f b args : Bytes) (hf : AtomOK ops f) (ts : List Tok) :
    NextNot61 (.call f b args :: ts) := by
  have := atom_next ops hL f hf ts
  cases hfe : f with
  | nil => exact absurd hfe hf.1
  | cons c t =>
    rw [hfe] at this
    exact ⟨by simp [Tok.bytes], by simpa [Tok.bytes] using this.2⟩

theorem toks_next (ops : List Op) (fns : List Bytes) (hL : LexTable ops) (lp rp : Op) (hlpm : lp ∈ ops)
    (hlp : lp.sym = LP) (e : E) (hin : e.In ops fns) (cont : List Tok) : NextNot61 (e.toks lp rp ++ cont) := by
  induction e generalizing cont with
  | atom u x =>
    cases u with
    | none => exact atom_next ops hL x hin.2 _
    | some v =>
      obtain ⟨hv, hvu⟩ := hin.1 v rfl
      exact sym_next ops hL v hv (hL.un61 v hv hvu) _
  | call u f b args =>
    cases u with
    | none => exact call_next ops hL f b args hin.2.1 _
    | some v =>
      obtain ⟨hv, hvu⟩ := hin.1 v rfl
      exact sym_next ops hL v hv (hL.un61 v hv hvu) _
  | paren u e _ =>
    cases u with
    | none => simpa [E.toks, unTok] using sym_next ops hL lp hlpm (lp_head lp hlp) _
    | some v =>
      obtain ⟨hv, hvu⟩ := hin.1 v rfl
      simpa [E.toks, unTok] using sym_next ops hL v hv (hL.un61 v hv hvu) _
  | bin o l r ihl _ =>
    have := ihl hin.2.1 ([Tok.sym o] ++ r.toks lp rp ++ cont)
    simpa [E.toks, List.append_assoc] using this

/-- the token list of an expression is lexable in front of anything that may follow an operand -/
theorem lexOK_toks (ops : List Op) (fns : List Bytes) (hL : LexTable ops) (lp rp : Op) (hlpm : lp ∈ ops)
    (hrpm : rp ∈ ops) (hlp : lp.sym = LP) (hrp : rp.sym = RP) (e : E) (hin : e.In ops fns) (cont : List Tok)
    (hf : FollowOK cont) (hc : LexOK ops fns cont) : LexOK ops fns (e.toks lp rp ++ cont) := by
  induction e generalizing cont with
  | atom u x =>
    cases u with
    | none => exact ⟨hin.2, hf, hc⟩
    | some v =>
      obtain ⟨hv, _⟩ := hin.1 v rfl
      exact ⟨hv, Or.inr (atom_next ops hL x hin.2 _), hin.2, hf, hc⟩
  | call u f b args =>
    obtain ⟨hu, hfa, hfn, hb, ha⟩ := hin
    cases u with
    | none => exact ⟨hfa, hfn, hb, ha, hc⟩
    | some v =>
      obtain ⟨hv, _⟩ := hu v rfl
      exact ⟨hv, Or.inr (call_next ops hL f b args hfa _), hfa, hfn, hb, ha, hc⟩
  | paren u e ih =>
    have hclose : LexOK ops fns (Tok.sym rp :: cont) := ⟨hrpm, Or.inl hrp, hc⟩
    have hinner : LexOK ops fns (e.toks lp rp ++ Tok.sym rp :: cont) :=
      ih hin.2 (Tok.sym rp :: cont) (Or.inr ⟨rp, cont, rfl⟩) hclose
    have hopen : LexOK ops fns (Tok.sym lp :: (e.toks lp rp ++ Tok.sym rp :: cont)) :=
      ⟨hlpm, Or.inr (toks_next ops fns hL lp rp hlpm hlp e hin.2 _), hinner⟩
    cases u with
    | none => simpa [E.toks, unTok, List.append_assoc] using hopen
    | some v =>
      obtain ⟨hv, _⟩ := hin.1 v rfl
      have : LexOK ops fns (Tok.sym v :: Tok.sym lp :: (e.toks lp rp ++ Tok.sym rp :: cont)) :=
        ⟨hv, Or.inr (sym_next ops hL lp hlpm (lp_head lp hlp) _), hopen⟩
      simpa [E.toks, unTok, List.append_assoc] using this
  | bin o l r ihl ihr =>
    obtain ⟨ho, hl, hr⟩ := hin
    have h1 : LexOK ops fns (r.toks lp rp ++ cont) := ihr hr cont hf hc
    have h2 : LexOK ops fns (Tok.sym o :: (r.toks lp rp ++ cont)) :=
      ⟨ho, Or.inr (toks_next ops fns hL lp rp hlpm hlp r hr _), h1⟩
    have h3 := ihl hl (Tok.sym o :: (r.toks lp rp ++ cont)) (Or.inr ⟨o, _, rfl⟩) h2
    simpa [E.toks, List.append_assoc] using h3

/-- **parse ∘ render = tree**, character level, any blank layout: binary operators of the table with the usual
    precedence/associativity side condition `WF`, signs before atoms and parentheses, parentheses, atoms -/
theorem parseTop_render (ops : List Op) (fns : List Bytes) (hL : LexTable ops) (lp rp : Op) (hlpm : lp ∈ ops)
    (hrpm : rp ∈ ops) (hP : ParenTable ops lp rp) (e : E) (hw : e.WF lp.prec)
    (hin : e.In ops fns) (ws : Nat → Bytes) (hws : ∀ k, Blank (ws k)) :
    parseTop ops fns (render ws 0 (e.toks lp rp)) = .ok (some e.toTree) := by
  have hlp := hP.lpS
  have hrp := hP.rpS
  have hlu := hP.lpU
  obtain ⟨m, h1, h2⟩ := runToks_toks lp rp hlp hlu hrp e hw
  have hlex : LexOK ops fns (e.toks lp rp) := by
    have := lexOK_toks ops fns hL lp rp hlpm hrpm hlp hrp e hin [] (Or.inl rfl) trivial
    simpa using this
  have hb := parseLoop_render ops fns hL lp rp hP ws hws (e.toks lp rp) 0 ⟨{}, false, none⟩ m [] rfl (fun _ => stopPre_nil) hlex h1
  unfold parseTop parse
  rw [hb]
  unfold topOf at h2
  exact h2


/-! ### evaluating the tree with symbolic operators gives the bracketed expression -/

/-- "(l op r)", "(op x)": the value of the expression when every operator just brackets its operands -/
def E.str : E → Bytes
  | .atom u x => applyUn u x
  | .bin o l r => paren2 o l.str r.str
  | .paren none e => e.str
  | .paren (some v) e => paren1 v e.str
  | .call _ _ _ _ => []      -- the value of a call depends on the argument text: `X.str` in `Lemmas/EvalFull.lean`

/-- binary operators have `Evaluate`, signs have `EvaluateUnary`, operands contain no `$` -/
def E.Evaluable : E → Prop
  | .atom _ x => (36 : Nat) ∉ x
  | .bin o l r => o.bin = true ∧ l.Evaluable ∧ r.Evaluable
  | .paren u e => unOK u ∧ e.Evaluable
  | .call _ _ _ _ => False   -- calls are evaluated at the level of the full language (`Lemmas/EvalFull.lean`)

theorem splitDollar_none (x : Bytes) (h : (36 : Nat) ∉ x) : splitDollar x = none := by
  induction x with
  | nil => rfl
  | cons c t ih =>
    have hc : (c == 36) = false := by
      have : c ≠ 36 := fun e => h (by simp [e])
      simpa using this
    simp [splitDollar, hc, ih (fun hm => h (by simp [hm]))]

theorem replaceVariables_id (resolve : Option (Bytes → Bytes)) (x : Bytes) (h : (36 : Nat) ∉ x) :
    replaceVariables resolve x = .ok x := by
  unfold replaceVariables
  simp [replaceVars, splitDollar_none x h]

theorem toTree_isNil (e : E) : e.toTree.isNil = false := by
  cases e with
  | atom u x => rfl
  | bin o l r => rfl
  | call u f b args => rfl
  | paren u e =>
    cases u with
    | none =>
      simp only [E.toTree, wrapN]
      exact toTree_isNil e
    | some v => rfl

/-- evaluating the expression tree applies each operator once to the values of its operands, a sign to its operand -/
theorem eval_tree (ev : Bytes → R Bytes) (resolve : Option (Bytes → Bytes)) (e : E) (he : e.Evaluable) :
    evalNode ev (replaceVariables resolve) e.toTree = .ok (some e.str) := by
  induction e with
  | atom u x => simp [E.toTree, evalNode, replaceVariables_id resolve x he, E.str]
  | call u f b args => exact absurd he id
  | bin o l r ihl ihr =>
    obtain ⟨hb, hl, hr⟩ := he
    simp [E.toTree, evalNode, ihl hl, ihr hr, toTree_isNil, hb, E.str, applyUn]
  | paren u e ih =>
    obtain ⟨hu, he'⟩ := he
    cases u with
    | none => simpa [E.toTree, wrapN, E.str] using ih he'
    | some v =>
      have hv : v.un = true := hu
      simp [E.toTree, wrapN, evalNode, ih he', toTree_isNil, Node.isNil, Option.filter, hv, E.str]

/-- `Evaluate` (symbolic operators) of a rendered well-formed expression is its bracketed form -/
theorem evaluate_render (ops : List Op) (fns : List Bytes) (resolve : Option (Bytes → Bytes)) (hL : LexTable ops)
    (lp rp : Op) (hlpm : lp ∈ ops) (hrpm : rp ∈ ops) (hP : ParenTable ops lp rp)
    (e : E) (hw : e.WF lp.prec) (hin : e.In ops fns) (he : e.Evaluable) (ws : Nat → Bytes) (hws : ∀ k, Blank (ws k))
    (depth : Nat) :
    evaluate ops fns resolve (depth + 1) (render ws 0 (e.toks lp rp)) = .ok e.str := by
  simp only [evaluate, parseTop_render ops fns hL lp rp hlpm hrpm hP e hw hin ws hws,
    eval_tree _ resolve e he]

/-- the argument texts a function sees: `for arguments != "" { arg, arguments = NextArg(arguments) }` -/
def splitArgs : Nat → Bytes → List Bytes
  | 0, _ => []
  | fuel + 1, args => if args = [] then [] else (nextArg args).1 :: splitArgs fuel (nextArg args).2

def joinComma : List Bytes → Bytes
  | [] => []
  | [x] => x
  | x :: y :: t => x ++ [44] ++ joinComma (y :: t)


theorem nextArgGo_flat (a b : Bytes) (ha : ∀ c ∈ a, c ≠ 40 ∧ c ≠ 41 ∧ c ≠ 44) :
    nextArgGo 0 (a ++ 44 :: b) = some (a, b) := by
  induction a with
  | nil => simp [nextArgGo]
  | cons c t ih =>
    obtain ⟨h1, h2, h3⟩ := ha c (by simp)
    have e1 : (c == 40) = false := by simpa using h1
    have e2 : (c == 41) = false := by simpa using h2
    have e3 : (c == 44) = false := by simpa using h3
    simp [nextArgGo, e1, e2, e3, ih (fun x hx => ha x (by simp [hx]))]

end Eval
