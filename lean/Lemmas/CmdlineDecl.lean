import Lemmas.Cmdline
/-! the flag spellings of a declared `*bool` option are valid from the declarations alone; `Parse` with built-in options -/
namespace Cmd

theorem name_ne_nil (incl : Bool) (decls : List Decl) (es : Entries) (hb : build incl decls = some es) (i : Nat)
    (d : Decl) (hd : decls[i]? = some d) (n : Str) (hn : d.name = some n) : n ≠ [] := by
  intro e
  subst e
  unfold build at hb
  split at hb
  · cases hb
  · rename_i hany
    apply hany
    simp only [List.any_eq_true]
    exact ⟨d, List.mem_of_getElem? hd, by simp [hn]⟩

theorem accepts_flag (orc : Oracle) (incl : Bool) (decls : List Decl) (i : Nat) (d : Decl) (hd : decls[i]? = some d)
    (hk : d.kind.isBool = true) : acceptsOf orc incl decls (firstUserId + i) strTrue = true := by
  rw [acceptsOf_user orc incl decls i d hd]
  have hb : d.kind.base = .bool := by
    unfold Kind.isBool at hk
    simp only [Bool.and_eq_true, beq_iff_eq] at hk
    exact hk.1
  rw [hb]
  simp [typed, parseBool, strTrue, Kind.supported, hb]

/-- `--flag` and `-f` of a declared `*bool` option -/
theorem declared_flag_valid (orc : Oracle) (incl : Bool) (decls : List Decl) (es : Entries)
    (hb : build incl decls = some es) (i : Nat) (d : Decl) (hd : decls[i]? = some d) (hk : d.kind.isBool = true) :
    (∀ n, d.name = some n → 61 ∉ n →
      (Spell.flagLong n ⟨firstUserId + i, true⟩).Valid (tableOf es) (acceptsOf orc incl decls)) ∧
    (0 < d.single → d.single ≤ 1114111 → (d.single < 55296 ∨ 57343 < d.single) → d.single ≠ 45 →
      (Spell.flags [(encodeRune d.single, ⟨firstUserId + i, true⟩)]).Valid (tableOf es) (acceptsOf orc incl decls)) := by
  have ha := accepts_flag orc incl decls i d hd hk
  constructor
  · intro n hn heq
    have ht := (build_spec incl decls es hb i d hd).2 n hn
    rw [hk] at ht
    exact ⟨⟨ht, rfl, heq, name_ne_nil incl decls es hb i d hd n hn⟩, by simpa [Spell.accepted, Spell.last] using ha⟩
  · intro h0 h1 hs h45
    have ht := (build_spec incl decls es hb i d hd).1 (by omega)
    rw [hk] at ht
    have hr := isRune_encodeRune d.single (by omega) h1 hs
    have hh : (flagKeys [(encodeRune d.single, (⟨firstUserId + i, true⟩ : Opt))]).head? ≠ some 45 := by
      simpa [flagKeys] using encodeRune_head d.single h45
    refine ⟨⟨by simp, ?_, hh⟩, by simp [Spell.accepted, Spell.last]⟩
    intro x hx
    simp only [List.mem_singleton] at hx
    subst hx
    exact ⟨ht, rfl, hr, ha⟩

/-- `Parse` of a valid vector, built-in options allowed among the assignments: the help / version decision is made on
    exactly the spelled assignments -/
theorem parse_render_finish (orc : Oracle) (incl : Bool) (decls : List Decl) (files : Files) (es : Entries)
    (hb : build incl decls = some es) (sps : List Spell)
    (hv : ∀ sp ∈ sps, sp.Valid (tableOf es) (acceptsOf orc incl decls)) (t : Tail) (ht : t.OK) :
    parse orc incl decls files (sps.flatMap Spell.args ++ t.args) = finish (.ok ⟨sps.flatMap Spell.sets, t.rest⟩) := by
  unfold parse
  rw [hb]
  simp only
  unfold scan
  rw [run_render (tableOf es) _ files sps hv t ht]
  simp

theorem finish_help (a : PAcc) (h : ∃ s ∈ a.sets, s.1 = idHelp) : finish (.ok a) = .help := by
  obtain ⟨s, hs, he⟩ := h
  have : a.sets.any (fun s => s.1 == idHelp) = true := by
    rw [List.any_eq_true]; exact ⟨s, hs, by simp [he]⟩
  simp [finish, this]


/-! ### `GeneralValue.String()` -/

def sepStep (buf e : Str) : Str := (if buf = [] then buf else buf ++ [44, 32]) ++ e

theorem foldl_sep_ne (es : List Str) : ∀ buf : Str, buf ≠ [] →
    es.foldl sepStep buf = buf ++ es.flatMap (fun x => [44, 32] ++ x) := by
  induction es with
  | nil => intro buf _; simp
  | cons e es ih =>
    intro buf hb
    have hne : sepStep buf e ≠ [] := by simp [sepStep, hb]
    rw [List.foldl_cons, ih _ hne]
    simp [sepStep, hb]

/-- the text of a slice value: the elements joined with ", ", except that EMPTY LEADING elements leave no trace (the
    separator is only written into a non-empty buffer) -/
theorem gvString_slice (b : Base) (elems : List Str) :
    gvString ⟨b, true⟩ elems =
      (match elems.dropWhile (fun e => e.isEmpty) with
       | [] => []
       | e :: es => e ++ es.flatMap (fun x => [44, 32] ++ x)) := by
  have hfold : ∀ l : List Str, gvString ⟨b, true⟩ l = l.foldl sepStep [] := by intro l; rfl
  rw [hfold]
  induction elems with
  | nil => rfl
  | cons e es ih =>
    by_cases he : e = []
    · subst he
      simpa [sepStep] using ih
    · have hemp : e.isEmpty = false := by cases e <;> simp_all
      rw [List.foldl_cons]
      have h1 : sepStep [] e = e := by simp [sepStep]
      rw [h1, foldl_sep_ne es e he]
      simp [List.dropWhile, hemp]

theorem gvSet_scalar (k : Kind) (hs : k.slice = false) (elems : List Str) (raw : Str) :
    gvSet k elems raw = (vText k.base raw).map (fun t => [t]) := by
  simp [gvSet, hs]

/-! ### what a failing `Set` leaves behind -/

/-- a `Set` that fails in a case that goes through a temporary (every type but `*bool`, `*int64`, `*uint64`, and every
    slice type) leaves the variable exactly as it was -/
theorem gvSetFull_fail_keeps (k : Kind) (elems : List Str) (raw : Str) (h : gvSet k elems raw = none) :
    gvSetFull false k elems raw = (elems, false) ∧
    (k.slice = true → ∀ direct, gvSetFull direct k elems raw = (elems, false)) := by
  constructor
  · simp [gvSetFull, h, failStore]
  · intro hs direct
    simp [gvSetFull, h, failStore, hs]

/-- a failing `Set` on a `*bool` stores `false`, on a `*int64` a value of the type (0 or a limit) -/
theorem gvSetFull_fail_direct_bool (elems : List Str) (raw : Str) (h : gvSet ⟨.bool, false⟩ elems raw = none) :
    gvSetFull true ⟨.bool, false⟩ elems raw = ([ofString "false"], false) := by
  simp [gvSetFull, h, failStore]

end Cmd
