import Lemmas.QuadTreeTree
import Lemmas.QuadTreeFuelRat
import Lemmas.QuadTreeGeom
import Lemmas.QuadTreeSim
/-! Lifting the rational depth bound (`Lemmas/QuadTreeFuelRat.lean`) to whole histories of the `QuadTree` wrapper: if
    every inserted non-empty rectangle lies in a box and is at least `m` wide, the root is a good node inside the box,
    so no node is ever deeper than `k` once the box is narrower than `m · 2^k`. -/
namespace QT
open Geom

/-- every inserted non-empty rectangle lies within `box` and is at least `m` wide -/
def InBoxQ (m : Rat) (box : RQ) : Op RQ → Prop
  | .insert it => it.rect.empty = true ∨ (box.contains it.rect = true ∧ m ≤ it.rect.w)
  | _ => True

structure FInvQ (m : Rat) (box : RQ) (t : Tree RQ) : Prop where
  root : ∀ r, t.root = some r → GoodQ m r ∧ box.contains r.rect = true
  items : ∀ it ∈ t.all, box.contains it.rect = true ∧ m ≤ it.rect.w

theorem union_withinQ (box a b : RQ) (h1 : box.contains a = true) (h2 : box.contains b = true) :
    box.contains (a.union b) = true := by
  rw [Rect.contains_iff_Contains] at *
  have hu := Rect.union_not_empty a b h1.2.1 h2.2.1
  exact Rect.Contains_of_covers _ _ h1.1 hu (Rect.union_smallest_edges a b box h1.2.1 h2.2.1
    (Rect.covers_of_Contains _ _ h1) (Rect.covers_of_Contains _ _ h2))

theorem fold_union_boxQ (box : RQ) (l : List (Item RQ)) (hl : ∀ it ∈ l, box.contains it.rect = true) (acc : RQ)
    (hacc : acc.empty = true ∨ box.contains acc = true) (hne : l ≠ [] ∨ box.contains acc = true) :
    box.contains (l.foldl (fun (r : RQ) (one : Item RQ) => RectOps.union r one.rect) acc) = true := by
  induction l generalizing acc with
  | nil =>
    rcases hne with h | h
    · exact absurd rfl h
    · exact h
  | cons c t ih =>
    simp only [List.foldl_cons]
    have hc := hl c (by simp)
    have hcne : c.rect.empty = false := by
      have := (Rect.contains_iff_Contains box c.rect).mp hc
      exact (Rect.empty_false_iff _).mpr this.2.1
    have hstep : box.contains (RectOps.union acc c.rect) = true := by
      rcases hacc with h | h
      · have : RectOps.union acc c.rect = c.rect := lawsRat.union_empty_left acc c.rect h hcne
        rw [this]; exact hc
      · exact union_withinQ box acc c.rect h hc
    exact ih (fun it hit => hl it (by simp [hit])) _ (Or.inr hstep) (Or.inr hstep)

/-- the root that `Reorganize` builds -/
theorem reorganize_rootQ (m : Rat) (box : RQ) (fuel : Nat) (t : Tree RQ)
    (hitems : ∀ it ∈ t.all, box.contains it.rect = true ∧ m ≤ it.rect.w) :
    ∀ r, (t.reorganize fuel).root = some r → GoodQ m r ∧ box.contains r.rect = true := by
  intro r hr
  unfold Tree.reorganize at hr
  simp only at hr
  split at hr
  · cases hr
  · rename_i hemp
    simp only [Option.some.injEq] at hr
    have hne : t.all ≠ [] := by intro e; rw [e] at hemp; simp at hemp
    have hb := fold_union_boxQ box t.all (fun it hit => (hitems it hit).1) RectOps.zero (Or.inl lawsRat.zero_empty)
      (Or.inl hne)
    obtain ⟨a, b⟩ := reorgFold_goodQ m (t.all.foldl (fun (r : RQ) (one : Item RQ) => RectOps.union r one.rect) RectOps.zero)
      t.thr fuel t.all (fun x hx => (hitems x hx).2)
      (Node.leaf (t.all.foldl (fun (r : RQ) (one : Item RQ) => RectOps.union r one.rect) RectOps.zero) [], [])
      (fun x hx => by simp at hx) rfl
    subst hr
    exact ⟨a, by rw [b]; exact hb⟩

/-- removal keeps a rational tree good and its rectangle -/
theorem remove_goodQ (m : Rat) (id : Nat) (b : RQ) (n n' : Node RQ) (h : Node.remove id b n = some n') (hg : GoodQ m n) :
    GoodQ m n' ∧ n'.rect = n.rect := by
  induction n generalizing n' with
  | leaf r cs =>
    simp only [Node.remove] at h
    cases hs : Node.swapRemove cs id with
    | none => rw [hs] at h; simp at h
    | some cs' =>
      rw [hs] at h; simp only [Option.map_some, Option.some.injEq] at h; subst h
      exact ⟨fun x hx => hg x (swapRemove_sub cs cs' id hs x hx), rfl⟩
  | split r cs c0 c1 c2 c3 ih0 ih1 ih2 ih3 =>
    obtain ⟨hcs, hw, ⟨g0, e0⟩, ⟨g1, e1⟩, ⟨g2, e2⟩, ⟨g3, e3⟩⟩ := hg
    simp only [Node.remove] at h
    cases hs : Node.swapRemove cs id with
    | some cs' =>
      rw [hs] at h; simp only [Option.some.injEq] at h; subst h
      exact ⟨⟨fun x hx => hcs x (swapRemove_sub cs cs' id hs x hx), hw, ⟨g0, e0⟩, ⟨g1, e1⟩, ⟨g2, e2⟩, ⟨g3, e3⟩⟩, rfl⟩
    | none =>
      rw [hs] at h
      simp only at h
      split at h
      · cases h0 : Node.remove id b c0 with
        | some c0' =>
          rw [h0] at h; simp only [Option.some.injEq] at h; subst h
          obtain ⟨a, e⟩ := ih0 c0' h0 g0
          exact ⟨⟨hcs, hw, ⟨a, by rw [e]; exact e0⟩, ⟨g1, e1⟩, ⟨g2, e2⟩, ⟨g3, e3⟩⟩, rfl⟩
        | none =>
          rw [h0] at h; simp only at h
          cases h1 : Node.remove id b c1 with
          | some c1' =>
            rw [h1] at h; simp only [Option.some.injEq] at h; subst h
            obtain ⟨a, e⟩ := ih1 c1' h1 g1
            exact ⟨⟨hcs, hw, ⟨g0, e0⟩, ⟨a, by rw [e]; exact e1⟩, ⟨g2, e2⟩, ⟨g3, e3⟩⟩, rfl⟩
          | none =>
            rw [h1] at h; simp only at h
            cases h2 : Node.remove id b c2 with
            | some c2' =>
              rw [h2] at h; simp only [Option.some.injEq] at h; subst h
              obtain ⟨a, e⟩ := ih2 c2' h2 g2
              exact ⟨⟨hcs, hw, ⟨g0, e0⟩, ⟨g1, e1⟩, ⟨a, by rw [e]; exact e2⟩, ⟨g3, e3⟩⟩, rfl⟩
            | none =>
              rw [h2] at h; simp only at h
              cases h3 : Node.remove id b c3 with
              | some c3' =>
                rw [h3] at h; simp only [Option.some.injEq] at h; subst h
                obtain ⟨a, e⟩ := ih3 c3' h3 g3
                exact ⟨⟨hcs, hw, ⟨g0, e0⟩, ⟨g1, e1⟩, ⟨g2, e2⟩, ⟨a, by rw [e]; exact e3⟩⟩, rfl⟩
              | none => rw [h3] at h; cases h
      · cases h

theorem apply_finvQ (bounds : Nat → RQ) (m : Rat) (box : RQ) (fuel : Nat) (t : Tree RQ) (h : TInv bounds t)
    (hf : FInvQ m box t) (op : Op RQ) (hop : OpOK bounds op) (hbox : InBoxQ m box op) : FInvQ m box (t.apply fuel op) := by
  cases op with
  | insert it =>
    simp only [Tree.apply]
    cases he : RectOps.empty it.rect with
    | true =>
      have : t.insert fuel it = t := by simp [Tree.insert, he]
      rw [this]; exact hf
    | false =>
      have hin : box.contains it.rect = true ∧ m ≤ it.rect.w := by
        rcases hbox with hb | hb
        · have he' : it.rect.empty = false := he
          rw [he'] at hb; cases hb
        · exact hb
      obtain ⟨_, hp⟩ := insert_ok bounds fuel t h it hop he
      have hitems : ∀ x ∈ (t.insert fuel it).all, box.contains x.rect = true ∧ m ≤ x.rect.w := by
        intro x hx
        rcases List.mem_cons.mp (hp.subset hx) with e | e
        · subst e; exact hin
        · exact hf.items x e
      refine ⟨?_, hitems⟩
      have hout : ∀ (t1 : Tree RQ), t1.root = t.root → t1.outside = t.outside ++ [it] →
          ∀ r, (if t1.outside.length > t1.thr then t1.reorganize fuel else t1).root = some r →
            GoodQ m r ∧ box.contains r.rect = true := by
        intro t1 e1 e2 r hr
        split at hr
        · refine reorganize_rootQ m box fuel t1 ?_ r hr
          intro x hx
          rw [all_eq, e1, e2] at hx
          rcases List.mem_append.mp hx with e | e
          · rcases List.mem_append.mp e with e | e
            · exact hf.items x (by rw [all_eq]; exact List.mem_append_left _ e)
            · simp only [List.mem_singleton] at e; subst e; exact hin
          · exact hf.items x (by rw [all_eq]; exact List.mem_append_right _ e)
        · exact hf.root r (e1 ▸ hr)
      unfold Tree.insert
      rw [if_neg (by simp [he])]
      simp only
      cases hroot : t.root with
      | none => simp only; exact hout _ hroot.symm rfl
      | some r0 =>
        simp only
        split
        · rename_i hc
          intro r hr
          simp only [Option.some.injEq] at hr
          obtain ⟨g, hb⟩ := hf.root r0 hroot
          obtain ⟨a, b⟩ := insert_goodQ m t.nodeThr fuel r0 it g hc hin.2
          subst hr
          exact ⟨a, by rw [b]; exact hb⟩
        · exact hout _ hroot.symm rfl
  | remove id b =>
    simp only [Tree.apply]
    have hb : b = bounds id := hop
    subst hb
    obtain ⟨_, c⟩ := remove_ok bounds t h id
    have hitems : ∀ x ∈ (t.remove id (bounds id)).all, box.contains x.rect = true ∧ m ≤ x.rect.w := by
      intro x hx
      rcases c with ⟨y, _, hp⟩ | ⟨he, _⟩
      · exact hf.items x (hp.symm.subset (List.mem_cons_of_mem _ hx))
      · rw [he] at hx; exact hf.items x hx
    refine ⟨?_, hitems⟩
    unfold Tree.remove
    cases ho : Node.swapRemove t.outside id with
    | some o' => simp only; exact hf.root
    | none =>
      simp only
      cases hroot : t.root with
      | none => simp only; intro r hr; rw [hroot] at hr; cases hr
      | some r0 =>
        simp only
        cases hr : Node.remove id (bounds id) r0 with
        | some r' =>
          simp only
          intro r hr'
          simp only [Option.some.injEq] at hr'
          obtain ⟨g, hb⟩ := hf.root r0 hroot
          obtain ⟨hg, e1⟩ := remove_goodQ m id (bounds id) r0 r' hr g
          subst hr'
          exact ⟨hg, by rw [e1]; exact hb⟩
        | none =>
          simp only
          intro r hr'; rw [hroot] at hr'; exact hf.root r (by rw [hroot]; exact hr')
  | reorganize =>
    simp only [Tree.apply]
    exact ⟨reorganize_rootQ m box fuel t hf.items, fun x hx => hf.items x ((reorganize_perm fuel t).subset hx)⟩
  | clear =>
    simp only [Tree.apply]
    exact ⟨fun r hr => by simp [Tree.clear] at hr, fun x hx => by simp [Tree.clear, Tree.all] at hx⟩
  | setThreshold k =>
    simp only [Tree.apply]
    exact ⟨hf.root, hf.items⟩

theorem run_finvQ (bounds : Nat → RQ) (m : Rat) (box : RQ) (fuel : Nat) (k : Int) (ops : List (Op RQ))
    (hops : ∀ op ∈ ops, OpOK bounds op) (hbox : ∀ op ∈ ops, InBoxQ m box op) : FInvQ m box (Tree.run fuel k ops) := by
  have aux : ∀ (ops : List (Op RQ)) (t : Tree RQ), (∀ op ∈ ops, OpOK bounds op) → (∀ op ∈ ops, InBoxQ m box op) →
      TInv bounds t → FInvQ m box t → FInvQ m box (ops.foldl (Tree.apply fuel) t) := by
    intro ops
    induction ops with
    | nil => intro t _ _ _ hf; exact hf
    | cons op rest ih =>
      intro t ho hb ht hf
      simp only [List.foldl_cons]
      exact ih _ (fun o h => ho o (by simp [h])) (fun o h => hb o (by simp [h]))
        (apply_ok bounds fuel t ht op (ho op (by simp))).1
        (apply_finvQ bounds m box fuel t ht hf op (ho op (by simp)) (hb op (by simp)))
  exact aux ops _ hops hbox (empty_inv bounds k)
    ⟨fun r hr => by simp [Tree.empty] at hr, fun x hx => by simp [Tree.empty, Tree.all] at hx⟩

end QT
