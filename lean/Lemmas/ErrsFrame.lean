import Lemmas.Errs
/-! C11: `Append` writes nothing but `next` links — on ANY heap, with ANY aliasing (no `WF`, no `NoAlias`).  Core-only. -/
namespace Errs

/-- the two nodes agree in everything but the link -/
def SameButNext (n m : ENode) : Prop := n.msg = m.msg ∧ n.cause = m.cause ∧ n.hasStack = m.hasStack ∧ n.wrapped = m.wrapped

/-- `h'` is `h` with more cells and possibly other links -/
def OnlyLinks (h h' : Heap) : Prop :=
  h.size ≤ h'.size ∧ ∀ (i : Nat) (n : ENode), h[i]? = some n → ∃ m, h'[i]? = some m ∧ SameButNext n m

theorem OnlyLinks.refl (h : Heap) : OnlyLinks h h := ⟨Nat.le_refl _, fun _ n hn => ⟨n, hn, rfl, rfl, rfl, rfl⟩⟩

theorem OnlyLinks.trans {a b c : Heap} (h1 : OnlyLinks a b) (h2 : OnlyLinks b c) : OnlyLinks a c := by
  refine ⟨Nat.le_trans h1.1 h2.1, ?_⟩
  intro i n hn
  obtain ⟨m, hm, s1⟩ := h1.2 i n hn
  obtain ⟨k, hk, s2⟩ := h2.2 i m hm
  exact ⟨k, hk, s1.1.trans s2.1, s1.2.1.trans s2.2.1, s1.2.2.1.trans s2.2.2.1, s1.2.2.2.trans s2.2.2.2⟩

theorem onlyLinks_push (h : Heap) (x : ENode) : OnlyLinks h (h.push x) := by
  refine ⟨by simp, ?_⟩
  intro i n hn
  have hi : i < h.size := (Array.getElem?_eq_some_iff.mp hn).1
  exact ⟨n, by simp [Array.getElem?_push, Nat.ne_of_lt hi, hn], rfl, rfl, rfl, rfl⟩

theorem onlyLinks_append (h : Heap) (X : Array ENode) : OnlyLinks h (h ++ X) := by
  refine ⟨by simp, ?_⟩
  intro i n hn
  have hi : i < h.size := (Array.getElem?_eq_some_iff.mp hn).1
  exact ⟨n, by rw [Array.getElem?_append_left hi]; exact hn, rfl, rfl, rfl, rfl⟩

theorem onlyLinks_setNext (h : Heap) (e j : Nat) : OnlyLinks h (setNext h e j) := by
  refine ⟨by rw [setNext_size]; exact Nat.le_refl _, ?_⟩
  intro i n hn
  unfold setNext
  rw [Array.getElem?_modify, hn]
  by_cases he : e = i
  · exact ⟨{ n with next := some j }, by simp [he], rfl, rfl, rfl, rfl⟩
  · exact ⟨n, by simp [he], rfl, rfl, rfl, rfl⟩

theorem onlyLinks_argNode (h : Heap) (a : Val) : OnlyLinks h (argNode h a).1 := by
  cases a with
  | ref id =>
    by_cases he : isEmpty h id = true
    · simp only [argNode, he, if_true]; exact OnlyLinks.refl h
    · simp only [argNode, he]; unfold copyChain; exact onlyLinks_append h _
  | nilIface => exact OnlyLinks.refl h
  | typedNil => exact OnlyLinks.refl h
  | foreignNil => exact OnlyLinks.refl h
  | plain u m => exact onlyLinks_push h _
  | fwrap u m i => exact onlyLinks_push h _

theorem onlyLinks_appendLoop : ∀ (args : List Val) (h : Heap) (root cur : Option Nat) (log : List Nat),
    OnlyLinks h (appendLoop h root cur log args).1 := by
  intro args
  induction args with
  | nil => intro h root cur log; exact OnlyLinks.refl h
  | cons a as ih =>
    intro h root cur log
    have hA := onlyLinks_argNode h a
    rcases hE : argNode h a with ⟨h1, _ | n, w⟩
    · rw [hE] at hA; simp only [appendLoop, hE]; exact hA.trans (ih _ _ _ _)
    · rw [hE] at hA
      cases cur with
      | none => simp only [appendLoop, hE]; exact hA.trans (ih _ _ _ _)
      | some e => simp only [appendLoop, hE]; exact (hA.trans (onlyLinks_setNext _ _ _)).trans (ih _ _ _ _)

theorem onlyLinks_appendFull (h : Heap) (acc : Val) (args : List Val) : OnlyLinks h (append h acc args).1 := by
  cases acc with
  | ref id =>
    by_cases he : isEmpty h id = true
    · simp only [append, he, if_true]; exact onlyLinks_appendLoop _ _ _ _ _
    · simp only [append, he]; exact onlyLinks_appendLoop _ _ _ _ _
  | nilIface => exact onlyLinks_appendLoop _ _ _ _ _
  | typedNil => exact onlyLinks_appendLoop _ _ _ _ _
  | foreignNil => exact onlyLinks_appendLoop _ _ _ _ _
  | plain u m => exact (onlyLinks_push h _).trans (onlyLinks_appendLoop _ _ _ _ _)
  | fwrap u m i => exact (onlyLinks_push h _).trans (onlyLinks_appendLoop _ _ _ _ _)

end Errs
