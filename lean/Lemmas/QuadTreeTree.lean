import Lemmas.QuadTreeNode
/-! Tree-level refinement of the quadtree model: the `QuadTree` wrapper (`outside` list, automatic `Reorganize`,
    `Remove`, `Size`) against a multiset of ids.  Core Lean only; the rectangle laws enter through `RectLaws`. -/
namespace QT
variable {R P : Type} [L : RectOps R P]

/-- every stored item carries the bounds of its id (the package's contract: `Bounds()` is constant while stored)
    and is non-empty -/
def Keyed (bounds : Nat → R) (l : List (Item R)) : Prop :=
  ∀ it ∈ l, it.rect = bounds it.id ∧ L.empty it.rect = false

/-- the representation invariant of `QuadTree` -/
structure TInv (bounds : Nat → R) (t : Tree R) : Prop where
  root : ∀ r, t.root = some r → Node.Inv r
  keyed : Keyed bounds t.all
  count : t.count = (t.all.length : Int)

def ids (l : List (Item R)) : List Nat := l.map (·.id)

/-- an operation respects the contract: an object's bounds are those of its id -/
def OpOK (bounds : Nat → R) : Op R → Prop
  | .insert it => it.rect = bounds it.id
  | .remove id b => b = bounds id
  | _ => True

/-- the specification: a multiset of ids -/
def specApply (s : List Nat) : Op R → List Nat
  | .insert it => if L.empty it.rect then s else it.id :: s
  | .remove id _ => s.erase id
  | .reorganize => s
  | .clear => []
  | .setThreshold _ => s

def specRun (ops : List (Op R)) : List Nat := ops.foldl specApply []

theorem specApply_perm (s s' : List Nat) (h : s.Perm s') (op : Op R) : (specApply s op).Perm (specApply s' op) := by
  cases op with
  | insert it => simp only [specApply]; split; exact h; exact h.cons _
  | remove id b => exact h.erase id
  | reorganize => exact h
  | clear => exact List.Perm.refl _
  | setThreshold k => exact h

theorem Keyed.perm {bounds : Nat → R} {l l' : List (Item R)} (h : Keyed bounds l) (hp : l'.Perm l) : Keyed bounds l' :=
  fun it hit => h it (hp.subset hit)

/-- the union of all bounds contains each of them -/
theorem fold_union_contains [H : RectLaws R P] (l : List (Item R)) (hl : ∀ it ∈ l, L.empty it.rect = false) (acc : R) :
    (L.empty acc = false → L.contains (l.foldl (fun r one => L.union r one.rect) acc) acc = true) ∧
    ∀ it ∈ l, L.contains (l.foldl (fun r one => L.union r one.rect) acc) it.rect = true := by
  induction l generalizing acc with
  | nil => exact ⟨fun h => H.contains_refl acc h, fun it hit => by simp at hit⟩
  | cons c t ih =>
    have hc := hl c (by simp)
    have ht : ∀ it ∈ t, L.empty it.rect = false := fun it hit => hl it (by simp [hit])
    simp only [List.foldl_cons]
    obtain ⟨i1, i2⟩ := ih ht (L.union acc c.rect)
    cases hacc : L.empty acc with
    | true =>
      have hu : L.union acc c.rect = c.rect := H.union_empty_left acc c.rect hacc hc
      rw [hu] at i1 i2 ⊢
      refine ⟨fun h => by simp at h, ?_⟩
      intro it hit
      rcases List.mem_cons.mp hit with e | e
      · subst e; exact i1 hc
      · exact i2 it e
    | false =>
      obtain ⟨u1, u2⟩ := H.union_contains acc c.rect hacc hc
      have hne := (H.contains_nonempty _ _ u1).1
      refine ⟨fun _ => H.contains_trans _ _ _ (i1 hne) u1, ?_⟩
      intro it hit
      rcases List.mem_cons.mp hit with e | e
      · subst e; exact H.contains_trans _ _ _ (i1 hne) u2
      · exact i2 it e

def rootAll : Option (Node R) → List (Item R)
  | some r => r.all
  | none => []

theorem all_eq (t : Tree R) : t.all = t.outside ++ rootAll t.root := by
  unfold Tree.all rootAll; cases t.root <;> rfl

theorem all_mk (r : Option (Node R)) (o : List (Item R)) (a : Int) (b : Nat) (c : Int) :
    (Tree.mk r o a b c).all = o ++ rootAll r := all_eq _

theorem tinv_of (bounds : Nat → R) (t' : Tree R) (l : List (Item R)) (hk : Keyed bounds l) (hp : t'.all.Perm l)
    (hc : t'.count = (l.length : Int)) (hr : ∀ r, t'.root = some r → Node.Inv r) : TInv bounds t' :=
  ⟨hr, hk.perm hp, by rw [hc, hp.length_eq]⟩

/-- the re-insertion loop of `Reorganize`, whatever the guard decides for each item -/
theorem reorgFold_ok (rect : R) (threshold fuel : Nat) (l : List (Item R)) (s : Node R × List (Item R))
    (hinv : Node.Inv s.1) (hr : s.1.rect = rect) :
    let res := l.foldl (Tree.reorgStep rect threshold fuel) s
    Node.Inv res.1 ∧ res.1.rect = rect ∧ (res.2 ++ res.1.all).Perm (l ++ (s.2 ++ s.1.all)) := by
  induction l generalizing s with
  | nil => exact ⟨hinv, hr, List.Perm.refl _⟩
  | cons c t ih =>
    simp only [List.foldl_cons]
    unfold Tree.reorgStep
    split
    · rename_i hc
      obtain ⟨i1, i2, i3⟩ := Node.insert_ok threshold fuel s.1 c hinv (by rw [hr]; exact hc)
      obtain ⟨a, b, d⟩ := ih (Node.insert threshold fuel s.1 c, s.2) i1 (by rw [i3, hr])
      refine ⟨a, b, d.trans ?_⟩
      simp only [List.cons_append]
      have h1 : (s.2 ++ (Node.insert threshold fuel s.1 c).all).Perm (c :: (s.2 ++ s.1.all)) :=
        (i2.append_left s.2).trans List.perm_middle
      exact (h1.append_left t).trans List.perm_middle
    · obtain ⟨a, b, d⟩ := ih (s.1, s.2 ++ [c]) hinv hr
      refine ⟨a, b, d.trans ?_⟩
      simp only [List.cons_append]
      have h1 : ((s.2 ++ [c]) ++ s.1.all).Perm (c :: (s.2 ++ s.1.all)) := by
        have : (s.2 ++ [c]).Perm (c :: s.2) := List.perm_append_singleton c s.2
        simpa using this.append_right s.1.all
      exact (h1.append_left t).trans List.perm_middle

/-- `Reorganize` keeps the stored multiset — no invariant needed -/
theorem reorganize_perm (fuel : Nat) (t : Tree R) : (t.reorganize fuel).all.Perm t.all := by
  unfold Tree.reorganize
  simp only
  split
  · rename_i hemp
    have hnil : t.all = [] := by simpa using hemp
    have ha : (Tree.mk none [] t.threshold t.nodeThr t.count : Tree R).all = [] := by rw [all_mk]; rfl
    rw [ha, hnil]
  · have hleaf : Node.Inv (Node.leaf (t.all.foldl (fun r one => L.union r one.rect) L.zero) ([] : List (Item R))) := by
      intro x hx; simp at hx
    obtain ⟨_, _, q3⟩ := reorgFold_ok (t.all.foldl (fun r one => L.union r one.rect) L.zero) t.thr fuel t.all
      (Node.leaf (t.all.foldl (fun r one => L.union r one.rect) L.zero) [], []) hleaf rfl
    rw [all_mk]; simp only [rootAll]
    simpa [Node.all] using q3

theorem reorganize_ok (bounds : Nat → R) (fuel : Nat) (t : Tree R) (h : TInv bounds t) :
    TInv bounds (t.reorganize fuel) ∧ (t.reorganize fuel).all.Perm t.all := by
  unfold Tree.reorganize
  simp only
  split
  · rename_i hemp
    have hnil : t.all = [] := by simpa using hemp
    have ha : (Tree.mk none [] t.threshold t.nodeThr t.count : Tree R).all = [] := by rw [all_mk]; rfl
    refine ⟨tinv_of bounds _ t.all h.keyed (by rw [ha, hnil]) h.count ?_, by rw [ha, hnil]⟩
    intro r hr; cases hr
  · have hleaf : Node.Inv (Node.leaf (t.all.foldl (fun r one => L.union r one.rect) L.zero) ([] : List (Item R))) := by
      intro x hx; simp at hx
    obtain ⟨q1, _, q3⟩ := reorgFold_ok (t.all.foldl (fun r one => L.union r one.rect) L.zero) t.thr fuel t.all
      (Node.leaf (t.all.foldl (fun r one => L.union r one.rect) L.zero) [], []) hleaf rfl
    have hp : ∀ (n : Node R) (o : List (Item R)), (o ++ n.all).Perm (t.all ++ ([] ++ Node.all (Node.leaf
        (t.all.foldl (fun r one => L.union r one.rect) L.zero) ([] : List (Item R))))) →
        (Tree.mk (some n) o t.threshold t.thr t.count : Tree R).all.Perm t.all := by
      intro n o hh
      rw [all_mk]; simp only [rootAll]
      simpa [Node.all] using hh
    refine ⟨tinv_of bounds _ t.all h.keyed (hp _ _ q3) h.count ?_, hp _ _ q3⟩
    intro r hr
    simp only [Option.some.injEq] at hr
    subst hr; exact q1

/-- in exact arithmetic the guard of `Reorganize` always holds: the union rectangle contains every stored item, so
    nothing is sent to the outside list (the guard only matters when the union is rounded) -/
theorem reorganize_guard_exact [H : RectLaws R P] (bounds : Nat → R) (t : Tree R) (h : TInv bounds t) :
    ∀ it ∈ t.all, L.contains (t.all.foldl (fun r one => L.union r one.rect) L.zero) it.rect = true :=
  (fold_union_contains t.all (fun it hit => (h.keyed it hit).2) L.zero).2

theorem insert_ok (bounds : Nat → R) (fuel : Nat) (t : Tree R) (h : TInv bounds t) (it : Item R)
    (hit : it.rect = bounds it.id) (hne : L.empty it.rect = false) :
    TInv bounds (t.insert fuel it) ∧ (t.insert fuel it).all.Perm (it :: t.all) := by
  have hkeyed : Keyed bounds (it :: t.all) := by
    intro x hx
    rcases List.mem_cons.mp hx with e | e
    · subst e; exact ⟨hit, hne⟩
    · exact h.keyed x e
  -- the path through the outside list
  have hout : ∀ (t1 : Tree R), t1.root = t.root → t1.outside = t.outside ++ [it] → t1.count = t.count + 1 →
      TInv bounds (if t1.outside.length > t1.thr then t1.reorganize fuel else t1) ∧
      (if t1.outside.length > t1.thr then t1.reorganize fuel else t1).all.Perm (it :: t.all) := by
    intro t1 e1 e2 e3
    have hp1 : t1.all.Perm (it :: t.all) := by
      rw [all_eq, all_eq, e1, e2]
      have : (t.outside ++ [it]).Perm (it :: t.outside) := List.perm_append_singleton it t.outside
      simpa using this.append_right _
    have hinv1 : TInv bounds t1 := by
      refine ⟨fun r hr => h.root r (e1 ▸ hr), hkeyed.perm hp1, ?_⟩
      rw [e3, h.count, hp1.length_eq]; simp
    split
    · obtain ⟨a, b⟩ := reorganize_ok bounds fuel t1 hinv1
      exact ⟨a, b.trans hp1⟩
    · exact ⟨hinv1, hp1⟩
  unfold Tree.insert
  rw [if_neg (by simp [hne])]
  simp only
  cases hroot : t.root with
  | none =>
    simp only
    exact hout _ hroot.symm rfl rfl
  | some r =>
    simp only
    split
    · rename_i hc
      obtain ⟨i1, i2, i3⟩ := Node.insert_ok t.nodeThr fuel r it (h.root r hroot) hc
      have hp : (t.outside ++ (Node.insert t.nodeThr fuel r it).all).Perm (it :: t.all) := by
        rw [all_eq, hroot]
        simp only [rootAll]
        exact (i2.append_left t.outside).trans List.perm_middle
      have ha : ∀ (n : Node R) (o : List (Item R)) (a : Int) (b : Nat) (c : Int),
          (Tree.mk (some n) o a b c : Tree R).all = o ++ n.all := by
        intro n o a b c; rw [all_mk]; simp [rootAll]
      refine ⟨tinv_of bounds _ (it :: t.all) hkeyed (by rw [ha]; exact hp) ?_ ?_, by rw [ha]; exact hp⟩
      · show t.count + 1 = _
        rw [h.count]; simp
      · intro r' hr'
        simp only [Option.some.injEq] at hr'
        subst hr'; exact i1
    · exact hout _ hroot.symm rfl rfl

theorem swapRemove_none (cs : List (Item R)) (id : Nat) (h : Node.swapRemove cs id = none) :
    ∀ x ∈ cs, x.id ≠ id := by
  intro x hx hid
  have := Node.swapRemove_some cs id x hx hid
  rw [h] at this; simp at this

theorem remove_ok (bounds : Nat → R) (t : Tree R) (h : TInv bounds t) (id : Nat) :
    TInv bounds (t.remove id (bounds id)) ∧
    ((∃ x, x.id = id ∧ t.all.Perm (x :: (t.remove id (bounds id)).all)) ∨
     ((t.remove id (bounds id)).all = t.all ∧ ∀ x ∈ t.all, x.id ≠ id)) := by
  have shrink : ∀ (t' : Tree R) (x : Item R), t.all.Perm (x :: t'.all) → t'.count = t.count - 1 →
      (∀ r, t'.root = some r → Node.Inv r) → TInv bounds t' := by
    intro t' x hp hc hr
    refine ⟨hr, fun y hy => h.keyed y (hp.symm.subset (List.mem_cons_of_mem _ hy)), ?_⟩
    rw [hc, h.count, hp.length_eq]; simp
  unfold Tree.remove
  cases ho : Node.swapRemove t.outside id with
  | some o' =>
    simp only
    obtain ⟨x, hx, hp⟩ := Node.swapRemove_perm t.outside o' id ho
    have hp' : t.all.Perm (x :: (Tree.mk t.root o' t.threshold t.nodeThr (t.count - 1)).all) := by
      rw [all_eq, all_mk]; simpa using hp.append_right _
    exact ⟨shrink _ x hp' rfl (fun r hr => h.root r hr), Or.inl ⟨x, hx, hp'⟩⟩
  | none =>
    simp only
    have hout := swapRemove_none t.outside id ho
    cases hroot : t.root with
    | none =>
      simp only
      refine ⟨h, Or.inr ⟨trivial, ?_⟩⟩
      intro x hx
      rw [all_eq, hroot] at hx
      exact hout x (by simpa [rootAll] using hx)
    | some r =>
      simp only
      cases hr : Node.remove id (bounds id) r with
      | some r' =>
        simp only
        obtain ⟨_, hinv, x, hx, hp⟩ := Node.remove_ok id (bounds id) r r' hr
        have hp' : t.all.Perm (x :: (Tree.mk (some r') t.outside t.threshold t.nodeThr (t.count - 1)).all) := by
          rw [all_eq, all_mk, hroot]
          simp only [rootAll]
          exact (hp.append_left t.outside).trans List.perm_middle
        refine ⟨shrink _ x hp' rfl ?_, Or.inl ⟨x, hx, hp'⟩⟩
        intro r'' hr''
        simp only [Option.some.injEq] at hr''
        subst hr''; exact hinv (h.root r hroot)
      | none =>
        simp only
        refine ⟨h, Or.inr ⟨trivial, ?_⟩⟩
        intro x hx hid
        rw [all_eq, hroot] at hx
        simp only [rootAll] at hx
        rcases List.mem_append.mp hx with e | e
        · exact hout x e hid
        · have hk := (h.keyed x (by rw [all_eq, hroot]; exact List.mem_append_right _ e)).1
          have := Node.remove_complete id (bounds id) r (h.root r hroot) x e hid (by rw [hk, hid])
          rw [hr] at this; simp at this

theorem empty_inv (bounds : Nat → R) (k : Int) : TInv bounds (Tree.empty k : Tree R) :=
  ⟨fun r hr => by simp [Tree.empty] at hr, fun it hit => by simp [Tree.empty, Tree.all] at hit, by simp [Tree.empty, Tree.all]⟩

/-- one operation: the invariant is kept and the ids stored afterwards are the specification's -/
theorem apply_ok (bounds : Nat → R) (fuel : Nat) (t : Tree R) (h : TInv bounds t) (op : Op R) (hop : OpOK bounds op) :
    TInv bounds (t.apply fuel op) ∧ (ids (t.apply fuel op).all).Perm (specApply (ids t.all) op) := by
  cases op with
  | insert it =>
    simp only [Tree.apply, specApply]
    cases he : L.empty it.rect with
    | true =>
      have : t.insert fuel it = t := by simp [Tree.insert, he]
      rw [this]; exact ⟨h, by simp⟩
    | false =>
      obtain ⟨a, b⟩ := insert_ok bounds fuel t h it hop he
      refine ⟨a, ?_⟩
      have := b.map (·.id)
      simpa [ids] using this
  | remove id b =>
    simp only [Tree.apply, specApply]
    have hb : b = bounds id := hop
    subst hb
    obtain ⟨a, c⟩ := remove_ok bounds t h id
    refine ⟨a, ?_⟩
    rcases c with ⟨x, hx, hp⟩ | ⟨he, hno⟩
    · have h1 : (ids t.all).Perm (id :: ids (t.remove id (bounds id)).all) := by
        have := hp.map (·.id); simpa [ids, hx] using this
      have h2 := h1.erase id
      rw [List.erase_cons_head] at h2
      exact h2.symm
    · rw [he]
      have : id ∉ ids t.all := by
        intro hm
        simp only [ids, List.mem_map] at hm
        obtain ⟨x, hx, hid⟩ := hm
        exact hno x hx hid
      rw [List.erase_of_not_mem this]
  | reorganize =>
    simp only [Tree.apply, specApply]
    obtain ⟨a, b⟩ := reorganize_ok bounds fuel t h
    exact ⟨a, b.map _⟩
  | clear =>
    simp only [Tree.apply, specApply]
    refine ⟨⟨fun r hr => by simp [Tree.clear] at hr, fun it hit => by simp [Tree.clear, Tree.all] at hit,
      by simp [Tree.clear, Tree.all]⟩, by simp [Tree.clear, Tree.all, ids]⟩
  | setThreshold k =>
    simp only [Tree.apply, specApply]
    exact ⟨⟨h.root, h.keyed, h.count⟩, List.Perm.refl _⟩

theorem run_ok_aux (bounds : Nat → R) (fuel : Nat) (ops : List (Op R)) (hops : ∀ op ∈ ops, OpOK bounds op)
    (t : Tree R) (s : List Nat) (h : TInv bounds t) (hs : (ids t.all).Perm s) :
    TInv bounds (ops.foldl (Tree.apply fuel) t) ∧ (ids (ops.foldl (Tree.apply fuel) t).all).Perm (ops.foldl specApply s) := by
  induction ops generalizing t s with
  | nil => exact ⟨h, hs⟩
  | cons op rest ih =>
    simp only [List.foldl_cons]
    obtain ⟨a, b⟩ := apply_ok bounds fuel t h op (hops op (by simp))
    exact ih (fun o ho => hops o (by simp [ho])) _ _ a (b.trans (specApply_perm _ _ hs op))

/-- after any history the invariant holds and the stored ids are the specification's multiset -/
theorem run_ok (bounds : Nat → R) (fuel : Nat) (k : Int) (ops : List (Op R)) (hops : ∀ op ∈ ops, OpOK bounds op) :
    TInv bounds (Tree.run fuel k ops) ∧ (ids (Tree.run fuel k ops).all).Perm (specRun ops) :=
  run_ok_aux bounds fuel ops hops _ _ (empty_inv bounds k) (by simp [ids, Tree.empty, Tree.all])

/-! queries -/
theorem tree_find_perm (bounds : Nat → R) (t : Tree R) (h : TInv bounds t) (pr : R → Bool) (f : Item R → Bool)
    (hpr : ∀ (a : R) (it : Item R), L.contains a it.rect = true → f it = true → pr a = true) :
    (t.find pr f).Perm (t.all.filter f) := by
  unfold Tree.find
  rw [all_eq, List.filter_append]
  cases hroot : t.root with
  | none => simp [rootAll]
  | some r =>
    simp only [rootAll]
    rw [Node.find_eq_filter pr f hpr r (h.root r hroot)]
    exact List.perm_append_comm

theorem tree_any_eq (t : Tree R) (pr : R → Bool) (f : Item R → Bool) :
    t.any pr f = !(t.find pr f).isEmpty := by
  unfold Tree.any Tree.find
  rw [Node.isEmpty_app, Node.any_eq_filter_nonempty]
  cases t.root with
  | none => simp
  | some r => simp [Node.any_eq_find_nonempty]

/-- a keyed item is determined by its id -/
theorem keyed_filter_ids (bounds : Nat → R) (l : List (Item R)) (hk : Keyed bounds l) (f : Item R → Bool) :
    ids (l.filter f) = (ids l).filter (fun i => f ⟨i, bounds i⟩) := by
  induction l with
  | nil => rfl
  | cons c t ih =>
    have hc : c = ⟨c.id, bounds c.id⟩ := by
      have := (hk c (by simp)).1
      cases c; simp_all
    have iht := ih (fun x hx => hk x (by simp [hx]))
    simp only [ids] at iht ⊢
    simp only [List.filter_cons, List.map_cons]
    rw [← hc]
    split <;> simp [iht]

end QT
