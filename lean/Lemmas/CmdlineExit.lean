import Model.Cmdline
/-! Lemmas about the `atexit` registry model (`AtExit.*`, Model/Cmdline.lean): what `Exit` runs is the snapshot, the
    snapshot after a history of `Register` / `Unregister` calls is given by a declarative reading of the history. -/
namespace AtExit

/-- the log of the exit loop is the snapshot itself: nothing an exit function does (panic, recursive `Exit`, `Register`,
    `Unregister`) adds, removes or reorders a function -/
theorem runAll_eq (acts : Nat → Act) (ids : List Nat) (fs : List Nat) : ∀ s : St, runAll acts ids s fs = fs := by
  induction fs with
  | nil => intro s; rfl
  | cons f fs ih => intro s; simp [runAll, ih]

theorem exit_eq (acts : Nat → Act) (ids : List Nat) (s : St) (status : Nat) (h : s.exiting = false) :
    exit acts ids s status = some ((s.pairs.map (·.2)).reverse, status) := by
  simp [exit, h, runAll_eq]

/-- DECLARATIVE reading of a history: the functions that are registered when the history ends, in registration order.
    `n` = number of `Register` calls in front of the list; the n-th registration (0-based) is still there at the end
    iff no LATER operation unregisters the id it was given (`unreg n`; an `unreg n` in front of it names an id that had
    not been handed out yet and does nothing) -/
def liveFrom (n : Nat) : List Op → List Nat
  | [] => []
  | .reg f :: t => if Op.unreg n ∈ t then liveFrom (n + 1) t else f :: liveFrom (n + 1) t
  | .unreg _ :: t => liveFrom n t

/-- the registry invariant after `n` registrations: the ids handed out are 1 … n in order, the next one is n+1, every
    registered pair carries one of them -/
structure Inv (p : St × List Nat) (n : Nat) : Prop where
  ids : p.2 = (List.range n).map (· + 1)
  next : p.1.nextID = n + 1
  bound : ∀ q ∈ p.1.pairs, 1 ≤ q.1 ∧ q.1 ≤ n
  notExiting : p.1.exiting = false

theorem inv_init : Inv (({} : St), ([] : List Nat)) 0 :=
  ⟨by simp, rfl, by intro q hq; simp at hq, rfl⟩

theorem inv_reg (p : St × List Nat) (n f : Nat) (h : Inv p n) : Inv (applyOp p (.reg f)) (n + 1) := by
  obtain ⟨h1, h2, h3, h4⟩ := h
  refine ⟨?_, ?_, ?_, ?_⟩
  · simp [applyOp, register, h1, h2, List.range_succ]
  · simp [applyOp, register, h2]
  · intro q hq
    simp only [applyOp, register, List.mem_append, List.mem_singleton] at hq
    rcases hq with hq | hq
    · have := h3 q hq; omega
    · subst hq; simp [h2]
  · simp [applyOp, register, h4]

theorem ids_get (p : St × List Nat) (n k : Nat) (h : Inv p n) : p.2[k]? = if k < n then some (k + 1) else none := by
  rw [h.ids]
  by_cases hk : k < n <;> simp [hk]

theorem inv_unreg (p : St × List Nat) (n k : Nat) (h : Inv p n) : Inv (applyOp p (.unreg k)) n := by
  have hg := ids_get p n k h
  obtain ⟨h1, h2, h3, h4⟩ := h
  by_cases hk : k < n
  · simp only [hk, if_true] at hg
    refine ⟨?_, ?_, ?_, ?_⟩ <;> simp only [applyOp, hg, unregister]
    · exact h1
    · exact h2
    · intro q hq
      exact h3 q (List.mem_filter.mp hq).1
    · exact h4
  · simp only [hk, if_false] at hg
    refine ⟨?_, ?_, ?_, ?_⟩ <;> simp only [applyOp, hg]
    · exact h1
    · exact h2
    · exact h3
    · exact h4

/-- the functions registered at the end of a history `t` that starts in a state with `n` registrations behind it:
    those of the present pairs that no operation of `t` unregisters, then the survivors among the registrations of `t` -/
theorem final_pairs (t : List Op) : ∀ (p : St × List Nat) (n : Nat), Inv p n →
    (t.foldl applyOp p).1.pairs.map (·.2) =
      (p.1.pairs.filter (fun q => decide (Op.unreg (q.1 - 1) ∉ t))).map (·.2) ++ liveFrom n t := by
  induction t with
  | nil =>
    intro p n _
    have : ∀ l : List (Nat × Nat), l.filter (fun _ => true) = l := by
      intro l; induction l with
      | nil => rfl
      | cons a l ih => simp [List.filter, ih]
    simp [liveFrom, this]
  | cons op t ih =>
    intro p n h
    cases op with
    | reg f =>
      rw [List.foldl_cons, ih _ (n + 1) (inv_reg p n f h)]
      have hp : (applyOp p (.reg f)).1.pairs = p.1.pairs ++ [(n + 1, f)] := by
        simp [applyOp, register, h.next]
      rw [hp, List.filter_append, List.map_append, List.append_assoc]
      congr 1
      · congr 1
        apply List.filter_congr
        intro q _
        simp
      · by_cases hm : Op.unreg n ∈ t <;> simp [liveFrom, hm]
    | unreg k =>
      rw [List.foldl_cons, ih _ n (inv_unreg p n k h)]
      simp only [liveFrom]
      congr 2
      have hg := ids_get p n k h
      by_cases hk : k < n
      · simp only [hk, if_true] at hg
        simp only [applyOp, hg, unregister, List.filter_filter]
        apply List.filter_congr
        intro q hq
        have hb := h.bound q hq
        by_cases hq1 : q.1 = k + 1
        · simp [hq1]
        · have : q.1 - 1 ≠ k := by omega
          simp [hq1, this]
      · simp only [hk, if_false] at hg
        simp only [applyOp, hg]
        apply List.filter_congr
        intro q hq
        have hb := h.bound q hq
        have : q.1 - 1 ≠ k := by omega
        simp [this]

theorem inv_applyOps (t : List Op) : ∀ (p : St × List Nat) (n : Nat), Inv p n →
    ∃ m, Inv (t.foldl applyOp p) m ∧ n ≤ m := by
  induction t with
  | nil => intro p n h; exact ⟨n, h, Nat.le_refl _⟩
  | cons op t ih =>
    intro p n h
    cases op with
    | reg f =>
      obtain ⟨m, hm, hle⟩ := ih _ (n + 1) (inv_reg p n f h)
      exact ⟨m, hm, by omega⟩
    | unreg k => exact ih _ n (inv_unreg p n k h)

/-- the whole behaviour of a process: the history, then `Exit(status)` -/
theorem runHistory_eq (acts : Nat → Act) (ops : List Op) (status : Nat) :
    runHistory acts ops status = some ((liveFrom 0 ops).reverse, status) := by
  obtain ⟨m, hm, _⟩ := inv_applyOps ops _ 0 inv_init
  have := final_pairs ops _ 0 inv_init
  simp only [List.filter_nil, List.map_nil, List.nil_append] at this
  unfold runHistory applyOps
  rw [exit_eq _ _ _ _ hm.notExiting, this]

/-- the ids `Register` hands out are 1, 2, 3 … : never reused, so an `Unregister` can only ever hit the registration it
    was given the id of -/
theorem ids_eq (ops : List Op) : ∃ m, (applyOps ops).2 = (List.range m).map (· + 1) := by
  obtain ⟨m, hm, _⟩ := inv_applyOps ops _ 0 inv_init
  exact ⟨m, hm.ids⟩

end AtExit
