import Model.TraceProto
import Model.LogHandlers
/-! C13: the two models of buffered mode connected.  `TL.Buf` (`Buf.send` / `take` / `finish`, run by `TL.deliver` for the
`log` stream) is the ABSTRACTION of the protocol state of `TraceProto` (run for the `sched` stream): forget who produced
an item and keep its bytes.  Every protocol step is the corresponding `Buf` operation on the abstraction. Core only. -/
namespace TraceProto

/-- the bounded FIFO a protocol state amounts to -/
def absBuf (cfg : Config) (s : State) : TL.Buf :=
  { cap := cfg.cap,
    inflight := match s.cons with | .writing x => some x.line | _ => none,
    queue := s.chan.map (·.line) }

/-- formatting touches neither the channel nor the delivery goroutine -/
theorem fmt_refines (cfg : Config) (s : State) (p : Nat) : absBuf cfg (step cfg s (.fmt p)) = absBuf cfg s := by
  simp only [step]
  cases hp : s.prods[p]? with
  | none => rfl
  | some pr =>
    obtain ⟨next, pending⟩ := pr
    cases pending with
    | some it => rfl
    | none =>
      cases hl : cfg.line p next with
      | none => simp only [hl]
      | some l => simp only [hl]; rfl

/-- the `select` of producer `p` holding the formatted item `it` IS `Buf.send` of its bytes; it is accepted exactly
    when `Buf.send` says so -/
theorem send_refines (cfg : Config) (s : State) (p : Nat) (pr : Prod) (it : Item)
    (hp : s.prods[p]? = some pr) (hpen : pr.pending = some it) :
    absBuf cfg (step cfg s (.send p)) = ((absBuf cfg s).send it.line).1 ∧
    (step cfg s (.send p)).events = s.events ++ [⟨it, s.chan.length, ((absBuf cfg s).send it.line).2⟩] := by
  simp only [step, hp, hpen]
  by_cases hlt : s.chan.length < cfg.cap
  · simp [absBuf, TL.Buf.send, hlt]
  · simp [absBuf, TL.Buf.send, hlt]

/-- a receive of the (living) delivery goroutine IS `Buf.take` -/
theorem recv_refines (cfg : Config) (s : State) (hd : s.cons ≠ .dead) :
    absBuf cfg (step cfg s .recv) = (absBuf cfg s).take := by
  obtain ⟨prods, chan, cons, writes, events⟩ := s
  simp only [step]
  cases cons with
  | dead => exact absurd rfl hd
  | idle => cases chan <;> simp [absBuf, TL.Buf.take]
  | writing x => cases chan <;> simp [absBuf, TL.Buf.take]

/-- the return of `sink.Write` IS `Buf.finish`: the item in flight, and only it, has been written -/
theorem finish_refines (cfg : Config) (s : State) :
    absBuf cfg (step cfg s (.finish .ok)) = (absBuf cfg s).finish.1 ∧
    (step cfg s (.finish .ok)).writes.map (·.line) = s.writes.map (·.line) ++ (absBuf cfg s).finish.2 := by
  obtain ⟨prods, chan, cons, writes, events⟩ := s
  simp only [step]
  cases cons <;> simp [absBuf, TL.Buf.finish]

/-- a whole `Handle` call of producer `p` (format, then the `select`), nobody else moving in between, IS `Buf.send` of
    the formatted line: the buffered branch of `TL.deliver` starts with exactly this operation -/
theorem handle_refines (cfg : Config) (s : State) (p : Nat) (pr : Prod) (l : Bytes)
    (hp : s.prods[p]? = some pr) (hidle : pr.pending = none) (hl : cfg.line p pr.next = some l) :
    absBuf cfg (run cfg s [.fmt p, .send p]) = ((absBuf cfg s).send l).1 := by
  have hf : step cfg s (.fmt p) =
      { s with prods := s.prods.set p { next := pr.next + 1, pending := some ⟨p, pr.next, l⟩ } } := by
    simp only [step, hp, hidle, hl]
  have hlen : p < s.prods.length := by
    rcases Nat.lt_or_ge p s.prods.length with h | h
    · exact h
    · rw [List.getElem?_eq_none h] at hp; cases hp
  have hp' : (step cfg s (.fmt p)).prods[p]? = some { next := pr.next + 1, pending := some ⟨p, pr.next, l⟩ } := by
    rw [hf]; simp [hlen]
  have h1 := (send_refines cfg (step cfg s (.fmt p)) p _ ⟨p, pr.next, l⟩ hp' rfl).1
  simp only [run, List.foldl_cons, List.foldl_nil]
  rw [h1, fmt_refines]

end TraceProto

namespace TL

/-- `n` rounds of the delivery goroutine's loop: `Write` returns, the next item is received -/
def Buf.settle : Nat → Buf → Buf × List Bytes
  | 0, b => (b, [])
  | n + 1, b => ((Buf.settle n b.finish.1.take).1, b.finish.2 ++ (Buf.settle n b.finish.1.take).2)

/-- the macro-step `Buf.drain` of `TL.deliver` ("the sink is not stalled: everything pending gets written") is nothing
    but the loop `finish; take` run until the channel is empty -/
theorem Buf.drain_is_settle (cap : Nat) : ∀ (q : List Bytes) (i : Option Bytes),
    Buf.settle (q.length + 1) { cap := cap, inflight := i, queue := q } =
      Buf.drain { cap := cap, inflight := i, queue := q }
  | [], i => by cases i <;> simp [Buf.settle, Buf.finish, Buf.take, Buf.drain]
  | x :: qs, i => by
    have ih := Buf.drain_is_settle cap qs (some x)
    cases i <;> simp [Buf.settle, Buf.finish, Buf.take, Buf.drain] at ih ⊢ <;> simp [ih]

end TL
