import Model.RWMutex
import Lemmas.MutexLin
/-! # Linearizability of the readers-writer bracket machine (`Model/RWMutex.lean`).  Core-only.

Main result `RW.linearizable`: under every schedule — also while several readers are inside their brackets — the shared
state (whenever no writer is inside) and the results of all finished brackets are those of the one-at-a-time execution
in ACQUISITION order, provided the micro-steps compute the reference function and read brackets never change the
shared state (`RW.ReadOnly`). -/
namespace RW
open Mutex

variable {σ Op κ ρ : Type}

theorem seqExec_snoc (run : Op → σ → ρ × σ) (s : σ) (l : List (Nat × Op)) (t : Nat) (op : Op) :
    seqExec run s (l ++ [(t, op)]) =
      ((seqExec run s l).1 ++ [(t, op, (run op (seqExec run s l).2).1)], (run op (seqExec run s l).2).2) := by
  induction l generalizing s with
  | nil => rfl
  | cons x l ih =>
    obtain ⟨u, o⟩ := x
    simp only [List.cons_append, seqExec]
    rw [ih]

theorem seqExec_app (run : Op → σ → ρ × σ) (s : σ) (a b : List (Nat × Op)) :
    seqExec run s (a ++ b) =
      ((seqExec run s a).1 ++ (seqExec run (seqExec run s a).2 b).1, (seqExec run (seqExec run s a).2 b).2) := by
  induction a generalizing s with
  | nil => rfl
  | cons x l ih =>
    obtain ⟨u, o⟩ := x
    simp only [List.cons_append, seqExec]
    rw [ih]

/-- the control states of read brackets: entered by every read operation, closed under micro-steps, and no micro-step
    from them changes the shared state -/
structure ReadOnly (S : Sys σ Op κ ρ) (isRead : Op → Bool) (RO : κ → Prop) : Prop where
  start : ∀ op, isRead op = true → RO (S.start op)
  step : ∀ k s, RO k → (S.micro k s).2 = s ∧ RO (S.micro k s).1

theorem runs_ro {S : Sys σ Op κ ρ} {isRead : Op → Bool} {RO : κ → Prop} (hro : ReadOnly S isRead RO)
    {k s r s'} (h : Runs S k s r s') (hk : RO k) : s' = s := by
  induction h with
  | fin _ => rfl
  | @step k s r s' _ _ ih =>
    have := hro.step k s hk
    rw [ih this.2, this.1]

theorem Runs.of_done {S : Sys σ Op κ ρ} {k s r s' r'} (h : Runs S k s r s') (hd : S.done k = some r') :
    r = r' ∧ s' = s := by
  cases h with
  | fin hd' => rw [hd] at hd'; cases hd'; exact ⟨rfl, rfl⟩
  | step hn _ => rw [hd] at hn; cases hn

theorem Runs.of_not_done {S : Sys σ Op κ ρ} {k s r s'} (h : Runs S k s r s') (hd : S.done k = none) :
    Runs S (S.micro k s).1 (S.micro k s).2 r s' := by
  cases h with
  | fin hd' => rw [hd] at hd'; cases hd'
  | step _ h' => exact h'

/-- the invariant of all reachable configurations -/
structure Inv (S : Sys σ Op κ ρ) (isRead : Op → Bool) (run : Op → σ → ρ × σ) (RO : κ → Prop) (s₀ : σ)
    (progs : Nat → List Op) (c : Config σ Op κ ρ) : Prop where
  ord : ∀ t, opsOf t c.acq ++ (c.threads t).todo = progs t
  free : c.writer = none → c.shared = (seqExec run s₀ c.acq).2
  idle : ∀ t, (c.threads t).cur = none → (c.threads t).res = resOf t (seqExec run s₀ c.acq).1
  excl : ∀ t, c.writer = some t → c.readers = []
  inRead : ∀ t op k, (c.threads t).cur = some (op, k) → isRead op = true →
    t ∈ c.readers ∧ RO k ∧
      ∃ r, resOf t (seqExec run s₀ c.acq).1 = (c.threads t).res ++ [r] ∧ Runs S k c.shared r c.shared
  inWrite : ∀ t op k, (c.threads t).cur = some (op, k) → isRead op = false →
    c.writer = some t ∧
      ∃ r, resOf t (seqExec run s₀ c.acq).1 = (c.threads t).res ++ [r] ∧
        Runs S k c.shared r (seqExec run s₀ c.acq).2
  rdrs : ∀ t, t ∈ c.readers → ∃ op k, (c.threads t).cur = some (op, k) ∧ isRead op = true
  wrtr : ∀ t, c.writer = some t → ∃ op k, (c.threads t).cur = some (op, k) ∧ isRead op = false

theorem inv_init (S : Sys σ Op κ ρ) (isRead : Op → Bool) (run : Op → σ → ρ × σ) (RO : κ → Prop) (s₀ : σ)
    (progs : Nat → List Op) : Inv S isRead run RO s₀ progs (init s₀ progs) where
  ord := fun t => by simp [init, opsOf]
  free := fun _ => rfl
  idle := fun t _ => by simp [init, seqExec, resOf]
  excl := fun _ _ => rfl
  inRead := fun t op k h => by simp [init] at h
  inWrite := fun t op k h => by simp [init] at h
  rdrs := fun t h => by simp [init] at h
  wrtr := fun t h => by simp [init] at h

section step
set_option linter.unusedSectionVars false
variable (S : Sys σ Op κ ρ) (isRead : Op → Bool) (run : Op → σ → ρ × σ) (RO : κ → Prop)
  (hrun : ∀ op s, Runs S (S.start op) s (run op s).1 (run op s).2) (hro : ReadOnly S isRead RO)
  (s₀ : σ) (progs : Nat → List Op)
include hrun hro

/-- a thread with nothing in progress enters a READ bracket -/
theorem inv_acquire_read (c : Config σ Op κ ρ) (t : Nat) (op : Op) (rest : List Op)
    (hi : Inv S isRead run RO s₀ progs c) (hcur : (c.threads t).cur = none) (htodo : (c.threads t).todo = op :: rest)
    (hr : isRead op = true) (hw : c.writer = none) :
    Inv S isRead run RO s₀ progs { c with
      readers := t :: c.readers,
      threads := upd c.threads t { c.threads t with todo := rest, cur := some (op, S.start op) },
      acq := c.acq ++ [(t, op)] } := by
  have hsh := hi.free hw
  have hR := hrun op (seqExec run s₀ c.acq).2
  have hsame : (run op (seqExec run s₀ c.acq).2).2 = (seqExec run s₀ c.acq).2 := runs_ro hro hR (hro.start op hr)
  constructor
  · intro u
    by_cases hu : u = t
    · subst hu
      simp only [upd_same, opsOf_append, opsOf_single_same, List.append_assoc, List.singleton_append]
      rw [← htodo]; exact hi.ord u
    · simp only [upd_other _ _ _ _ hu, opsOf_append, opsOf_single_other _ _ _ hu, List.append_nil]
      exact hi.ord u
  · intro _
    show c.shared = (seqExec run s₀ (c.acq ++ [(t, op)])).2
    rw [seqExec_snoc]; simp only; rw [hsame]; exact hsh
  · intro u hcu
    by_cases hu : u = t
    · subst hu; simp [upd_same] at hcu
    · simp only [upd_other _ _ _ _ hu] at hcu ⊢
      rw [seqExec_snoc]; simp only
      rw [resOf_append, resOf_single_other _ _ _ _ hu, List.append_nil]
      exact hi.idle u hcu
  · intro u hwu; simp only at hwu; rw [hw] at hwu; cases hwu
  · intro u op' k hcu hru
    by_cases hu : u = t
    · subst hu
      simp only [upd_same, Option.some.injEq, Prod.mk.injEq] at hcu
      obtain ⟨rfl, rfl⟩ := hcu
      refine ⟨List.mem_cons_self, hro.start _ hr, (run op (seqExec run s₀ c.acq).2).1, ?_, ?_⟩
      · simp only [upd_same]
        rw [seqExec_snoc]; simp only
        rw [resOf_append, resOf_single_same, hi.idle u hcur]
      · show Runs S (S.start op) c.shared _ c.shared
        rw [hsh]
        have := hR; rw [hsame] at this; exact this
    · simp only [upd_other _ _ _ _ hu] at hcu ⊢
      obtain ⟨h1, h2, r, h3, h4⟩ := hi.inRead u op' k hcu hru
      refine ⟨List.mem_cons_of_mem _ h1, h2, r, ?_, h4⟩
      rw [seqExec_snoc]; simp only
      rw [resOf_append, resOf_single_other _ _ _ _ hu, List.append_nil]; exact h3
  · intro u op' k hcu hru
    by_cases hu : u = t
    · subst hu
      simp only [upd_same, Option.some.injEq, Prod.mk.injEq] at hcu
      obtain ⟨rfl, rfl⟩ := hcu
      rw [hr] at hru; cases hru
    · simp only [upd_other _ _ _ _ hu] at hcu
      have := (hi.inWrite u op' k hcu hru).1
      rw [hw] at this; cases this
  · intro u hmem
    by_cases hu : u = t
    · subst hu; exact ⟨op, S.start op, by simp [upd_same], hr⟩
    · simp only [upd_other _ _ _ _ hu]
      simp only [List.mem_cons] at hmem
      rcases hmem with h | h
      · exact absurd h hu
      · exact hi.rdrs u h
  · intro u hwu; simp only at hwu; rw [hw] at hwu; cases hwu

/-- a thread with nothing in progress enters a WRITE bracket (nobody is inside) -/
theorem inv_acquire_write (c : Config σ Op κ ρ) (t : Nat) (op : Op) (rest : List Op)
    (hi : Inv S isRead run RO s₀ progs c) (hcur : (c.threads t).cur = none) (htodo : (c.threads t).todo = op :: rest)
    (hr : isRead op = false) (hw : c.writer = none) (hrd : c.readers = []) :
    Inv S isRead run RO s₀ progs { c with
      writer := some t,
      threads := upd c.threads t { c.threads t with todo := rest, cur := some (op, S.start op) },
      acq := c.acq ++ [(t, op)] } := by
  have hsh := hi.free hw
  have hR := hrun op (seqExec run s₀ c.acq).2
  constructor
  · intro u
    by_cases hu : u = t
    · subst hu
      simp only [upd_same, opsOf_append, opsOf_single_same, List.append_assoc, List.singleton_append]
      rw [← htodo]; exact hi.ord u
    · simp only [upd_other _ _ _ _ hu, opsOf_append, opsOf_single_other _ _ _ hu, List.append_nil]
      exact hi.ord u
  · intro h; cases h
  · intro u hcu
    by_cases hu : u = t
    · subst hu; simp [upd_same] at hcu
    · simp only [upd_other _ _ _ _ hu] at hcu ⊢
      rw [seqExec_snoc]; simp only
      rw [resOf_append, resOf_single_other _ _ _ _ hu, List.append_nil]
      exact hi.idle u hcu
  · intro _ _; exact hrd
  · intro u op' k hcu hru
    by_cases hu : u = t
    · subst hu
      simp only [upd_same, Option.some.injEq, Prod.mk.injEq] at hcu
      obtain ⟨rfl, rfl⟩ := hcu
      rw [hr] at hru; cases hru
    · simp only [upd_other _ _ _ _ hu] at hcu
      have := (hi.inRead u op' k hcu hru).1
      rw [hrd] at this; cases this
  · intro u op' k hcu hru
    by_cases hu : u = t
    · subst hu
      simp only [upd_same, Option.some.injEq, Prod.mk.injEq] at hcu
      obtain ⟨rfl, rfl⟩ := hcu
      refine ⟨rfl, (run op (seqExec run s₀ c.acq).2).1, ?_, ?_⟩
      · simp only [upd_same]
        rw [seqExec_snoc]; simp only
        rw [resOf_append, resOf_single_same, hi.idle u hcur]
      · show Runs S (S.start op) c.shared _ (seqExec run s₀ (c.acq ++ [(u, op)])).2
        rw [seqExec_snoc, hsh]; exact hR
    · simp only [upd_other _ _ _ _ hu] at hcu
      have := (hi.inWrite u op' k hcu hru).1
      rw [hw] at this; cases this
  · intro u hmem; simp only at hmem; rw [hrd] at hmem; cases hmem
  · intro u hwu
    simp only [Option.some.injEq] at hwu
    subst hwu
    exact ⟨op, S.start op, by simp [upd_same], hr⟩

omit hrun hro in
/-- a thread leaves its bracket -/
theorem inv_release (c : Config σ Op κ ρ) (t : Nat) (op : Op) (k : κ) (r' : ρ)
    (hi : Inv S isRead run RO s₀ progs c) (hcur : (c.threads t).cur = some (op, k)) (hd : S.done k = some r') :
    Inv S isRead run RO s₀ progs { c with
      writer := if isRead op then c.writer else none,
      readers := if isRead op then c.readers.filter (fun u => u != t) else c.readers,
      threads := upd c.threads t { c.threads t with cur := none, res := (c.threads t).res ++ [r'] } } := by
  cases hr : isRead op with
  | true =>
    obtain ⟨_, _, r, hres, hruns⟩ := hi.inRead t op k hcur hr
    obtain ⟨e, _⟩ := Runs.of_done hruns hd
    subst e
    simp only [if_true]
    constructor
    · intro u
      by_cases hu : u = t
      · subst hu; simp only [upd_same]; exact hi.ord u
      · simp only [upd_other _ _ _ _ hu]; exact hi.ord u
    · exact hi.free
    · intro u hcu
      by_cases hu : u = t
      · subst hu; simp only [upd_same]; exact hres.symm
      · simp only [upd_other _ _ _ _ hu] at hcu ⊢; exact hi.idle u hcu
    · intro u hwu; simp only at hwu; rw [hi.excl u hwu]; rfl
    · intro u op' k' hcu hru
      by_cases hu : u = t
      · subst hu; simp [upd_same] at hcu
      · simp only [upd_other _ _ _ _ hu] at hcu ⊢
        obtain ⟨h1, h2⟩ := hi.inRead u op' k' hcu hru
        exact ⟨List.mem_filter.mpr ⟨h1, by simp [hu]⟩, h2⟩
    · intro u op' k' hcu hru
      by_cases hu : u = t
      · subst hu; simp [upd_same] at hcu
      · simp only [upd_other _ _ _ _ hu] at hcu ⊢
        exact hi.inWrite u op' k' hcu hru
    · intro u hmem
      obtain ⟨h1, h2⟩ := List.mem_filter.mp hmem
      have hu : u ≠ t := by simpa using h2
      simp only [upd_other _ _ _ _ hu]
      exact hi.rdrs u h1
    · intro u hwu
      simp only at hwu
      by_cases hu : u = t
      · subst hu
        obtain ⟨op', k', h1, h2⟩ := hi.wrtr u hwu
        rw [hcur] at h1; cases h1; rw [hr] at h2; cases h2
      · simp only [upd_other _ _ _ _ hu]; exact hi.wrtr u hwu
  | false =>
    obtain ⟨hwt, r, hres, hruns⟩ := hi.inWrite t op k hcur hr
    obtain ⟨e, hs⟩ := Runs.of_done hruns hd
    subst e
    have hrd := hi.excl t hwt
    simp only [Bool.false_eq_true, if_false]
    constructor
    · intro u
      by_cases hu : u = t
      · subst hu; simp only [upd_same]; exact hi.ord u
      · simp only [upd_other _ _ _ _ hu]; exact hi.ord u
    · intro _; exact hs.symm
    · intro u hcu
      by_cases hu : u = t
      · subst hu; simp only [upd_same]; exact hres.symm
      · simp only [upd_other _ _ _ _ hu] at hcu ⊢; exact hi.idle u hcu
    · intro u hwu; cases hwu
    · intro u op' k' hcu hru
      by_cases hu : u = t
      · subst hu; simp [upd_same] at hcu
      · simp only [upd_other _ _ _ _ hu] at hcu
        have := (hi.inRead u op' k' hcu hru).1
        rw [hrd] at this; cases this
    · intro u op' k' hcu hru
      by_cases hu : u = t
      · subst hu; simp [upd_same] at hcu
      · simp only [upd_other _ _ _ _ hu] at hcu
        have := (hi.inWrite u op' k' hcu hru).1
        rw [hwt] at this; cases this; exact absurd rfl hu
    · intro u hmem; simp only at hmem; rw [hrd] at hmem; cases hmem
    · intro u hwu; cases hwu

/-- a thread inside its bracket takes a micro-step -/
theorem inv_micro (c : Config σ Op κ ρ) (t : Nat) (op : Op) (k : κ)
    (hi : Inv S isRead run RO s₀ progs c) (hcur : (c.threads t).cur = some (op, k)) (hd : S.done k = none) :
    Inv S isRead run RO s₀ progs { c with
      shared := (S.micro k c.shared).2,
      threads := upd c.threads t { c.threads t with cur := some (op, (S.micro k c.shared).1) } } := by
  cases hr : isRead op with
  | true =>
    obtain ⟨hmem, hk, r, hres, hruns⟩ := hi.inRead t op k hcur hr
    obtain ⟨hsame, hk'⟩ := hro.step k c.shared hk
    have hruns' := Runs.of_not_done hruns hd
    simp only [hsame]
    rw [hsame] at hruns'
    constructor
    · intro u
      by_cases hu : u = t
      · subst hu; simp only [upd_same]; exact hi.ord u
      · simp only [upd_other _ _ _ _ hu]; exact hi.ord u
    · exact hi.free
    · intro u hcu
      by_cases hu : u = t
      · subst hu; simp [upd_same] at hcu
      · simp only [upd_other _ _ _ _ hu] at hcu ⊢; exact hi.idle u hcu
    · exact hi.excl
    · intro u op' k' hcu hru
      by_cases hu : u = t
      · subst hu
        simp only [upd_same, Option.some.injEq, Prod.mk.injEq] at hcu
        obtain ⟨rfl, rfl⟩ := hcu
        simp only [upd_same]
        exact ⟨hmem, hk', r, hres, hruns'⟩
      · simp only [upd_other _ _ _ _ hu] at hcu ⊢
        exact hi.inRead u op' k' hcu hru
    · intro u op' k' hcu hru
      by_cases hu : u = t
      · subst hu
        simp only [upd_same, Option.some.injEq, Prod.mk.injEq] at hcu
        obtain ⟨rfl, rfl⟩ := hcu
        rw [hr] at hru; cases hru
      · simp only [upd_other _ _ _ _ hu] at hcu ⊢
        exact hi.inWrite u op' k' hcu hru
    · intro u hm
      by_cases hu : u = t
      · subst hu; exact ⟨op, (S.micro k c.shared).1, by simp [upd_same], hr⟩
      · simp only [upd_other _ _ _ _ hu]; exact hi.rdrs u hm
    · intro u hwu
      by_cases hu : u = t
      · subst hu
        obtain ⟨op', k', h1, h2⟩ := hi.wrtr u hwu
        rw [hcur] at h1; cases h1; rw [hr] at h2; cases h2
      · simp only [upd_other _ _ _ _ hu]; exact hi.wrtr u hwu
  | false =>
    obtain ⟨hwt, r, hres, hruns⟩ := hi.inWrite t op k hcur hr
    have hrd := hi.excl t hwt
    have hruns' := Runs.of_not_done hruns hd
    constructor
    · intro u
      by_cases hu : u = t
      · subst hu; simp only [upd_same]; exact hi.ord u
      · simp only [upd_other _ _ _ _ hu]; exact hi.ord u
    · intro h; simp only at h; rw [hwt] at h; cases h
    · intro u hcu
      by_cases hu : u = t
      · subst hu; simp [upd_same] at hcu
      · simp only [upd_other _ _ _ _ hu] at hcu ⊢; exact hi.idle u hcu
    · exact hi.excl
    · intro u op' k' hcu hru
      by_cases hu : u = t
      · subst hu
        simp only [upd_same, Option.some.injEq, Prod.mk.injEq] at hcu
        obtain ⟨rfl, rfl⟩ := hcu
        rw [hr] at hru; cases hru
      · simp only [upd_other _ _ _ _ hu] at hcu
        have := (hi.inRead u op' k' hcu hru).1
        rw [hrd] at this; cases this
    · intro u op' k' hcu hru
      by_cases hu : u = t
      · subst hu
        simp only [upd_same, Option.some.injEq, Prod.mk.injEq] at hcu
        obtain ⟨rfl, rfl⟩ := hcu
        simp only [upd_same]
        exact ⟨hwt, r, hres, hruns'⟩
      · simp only [upd_other _ _ _ _ hu] at hcu
        have := (hi.inWrite u op' k' hcu hru).1
        rw [hwt] at this; cases this; exact absurd rfl hu
    · intro u hm; simp only at hm; rw [hrd] at hm; cases hm
    · intro u hwu
      simp only at hwu
      rw [hwt] at hwu; cases hwu
      exact ⟨op, (S.micro k c.shared).1, by simp [upd_same], hr⟩

theorem inv_step (c c' : Config σ Op κ ρ) (t : Nat) (hi : Inv S isRead run RO s₀ progs c)
    (h : step S isRead c t = some c') : Inv S isRead run RO s₀ progs c' := by
  unfold step at h
  cases hcur : (c.threads t).cur with
  | none =>
    rw [hcur] at h; simp only at h
    cases htodo : (c.threads t).todo with
    | nil => rw [htodo] at h; cases h
    | cons op rest =>
      rw [htodo] at h; simp only at h
      by_cases had : admits isRead c op = true
      · rw [if_pos had] at h
        cases h
        unfold admits at had
        cases hr : isRead op with
        | true =>
          rw [hr] at had; simp only [if_true, Option.isNone_iff_eq_none] at had
          simp only [if_true]
          exact inv_acquire_read S isRead run RO hrun hro s₀ progs c t op rest hi hcur htodo hr had
        | false =>
          rw [hr] at had
          simp only [Bool.false_eq_true, if_false, Bool.and_eq_true, Option.isNone_iff_eq_none,
            List.isEmpty_iff] at had
          simp only [Bool.false_eq_true, if_false]
          exact inv_acquire_write S isRead run RO hrun hro s₀ progs c t op rest hi hcur htodo hr had.1 had.2
      · rw [if_neg had] at h; cases h
  | some ok =>
    obtain ⟨op, k⟩ := ok
    rw [hcur] at h; simp only at h
    cases hd : S.done k with
    | some r' =>
      rw [hd] at h; simp only at h; cases h
      exact inv_release S isRead run RO s₀ progs c t op k r' hi hcur hd
    | none =>
      rw [hd] at h; simp only at h; cases h
      exact inv_micro S isRead run RO hrun hro s₀ progs c t op k hi hcur hd

theorem inv_exec (sch : List Nat) (c c' : Config σ Op κ ρ) (hi : Inv S isRead run RO s₀ progs c)
    (h : exec S isRead c sch = some c') : Inv S isRead run RO s₀ progs c' := by
  induction sch generalizing c with
  | nil => simp only [exec, Option.some.injEq] at h; subst h; exact hi
  | cons t ts ih =>
    simp only [exec] at h
    cases hs : step S isRead c t with
    | none => rw [hs] at h; cases h
    | some c1 =>
      rw [hs] at h
      exact ih c1 (inv_step S isRead run RO hrun hro s₀ progs c c1 t hi hs) h

/-- **Linearizability under a readers-writer lock.**  If the micro-steps of every operation compute `run` and read
    brackets never change the shared state, then under EVERY schedule, in EVERY reachable configuration — readers may
    still be inside their brackets —:
    (1) whenever no writer is inside, the shared state is that of calling `run` one operation at a time in
        acquisition order;
    (2) every thread that is outside a bracket has obtained exactly the results that this one-at-a-time execution gives
        to its operations;
    (3) the acquisition order respects every thread's program order;
    (4) a writer is alone: while it is inside, no reader is. -/
theorem linearizable (sch : List Nat) (c : Config σ Op κ ρ) (he : exec S isRead (init s₀ progs) sch = some c) :
    (c.writer = none → c.shared = (seqExec run s₀ c.acq).2) ∧
    (∀ t, (c.threads t).cur = none → (c.threads t).res = resOf t (seqExec run s₀ c.acq).1) ∧
    (∀ t, opsOf t c.acq ++ (c.threads t).todo = progs t) ∧
    (∀ t, c.writer = some t → c.readers = []) := by
  have hi := inv_exec S isRead run RO hrun hro s₀ progs sch _ c (inv_init S isRead run RO s₀ progs) he
  exact ⟨hi.free, hi.idle, hi.ord, hi.excl⟩

/-- every thread inside a read bracket will obtain, whatever the others do meanwhile, the result the one-at-a-time
    execution gives to that bracket (its last acquisition) -/
theorem reader_result_fixed (sch : List Nat) (c : Config σ Op κ ρ) (he : exec S isRead (init s₀ progs) sch = some c)
    (t : Nat) (op : Op) (k : κ) (hcur : (c.threads t).cur = some (op, k)) (hr : isRead op = true) :
    ∃ r, resOf t (seqExec run s₀ c.acq).1 = (c.threads t).res ++ [r] ∧ Runs S k c.shared r c.shared := by
  have hi := inv_exec S isRead run RO hrun hro s₀ progs sch _ c (inv_init S isRead run RO s₀ progs) he
  exact (hi.inRead t op k hcur hr).2.2

end step

end RW
