import Lemmas.QuadTreeNode
import Lemmas.GeomRect
import Mathlib.Tactic.Positivity
/-! Depth bound for exact-rational (float64 without rounding) quadtrees: every child is exactly half as wide as its
    parent, and a node is only ever split while an item of width at least `m` is being routed into it, so a tree whose
    root is narrower than `m · 2^k` is at most `k` levels deep. -/
namespace QT
open Geom

abbrev RQ := Rect Rat

/-- all stored items are at least `m` wide, every split node is at least `m` wide and its children half as wide -/
def GoodQ (m : Rat) : Node RQ → Prop
  | .leaf _ cs => ∀ it ∈ cs, m ≤ it.rect.w
  | .split r cs c0 c1 c2 c3 =>
    (∀ it ∈ cs, m ≤ it.rect.w) ∧ m ≤ r.w ∧ (GoodQ m c0 ∧ c0.rect.w = r.w / 2) ∧ (GoodQ m c1 ∧ c1.rect.w = r.w / 2) ∧
      (GoodQ m c2 ∧ c2.rect.w = r.w / 2) ∧ (GoodQ m c3 ∧ c3.rect.w = r.w / 2)

theorem contains_width (a b : RQ) (h : a.contains b = true) : b.w ≤ a.w := by
  rw [Rect.contains_iff_Contains] at h
  obtain ⟨_, _, h1, _, h3, _⟩ := h
  simp only [Rect.right] at h3
  linarith

/-- a good node narrower than `m · 2^k` is at most `k` levels deep -/
theorem depthQ (m : Rat) (n : Node RQ) (h : GoodQ m n) : ∀ k : Nat, n.rect.w < m * 2 ^ k → n.depth ≤ k := by
  induction n with
  | leaf r cs => intro k _; simp [Node.depth]
  | split r cs c0 c1 c2 c3 ih0 ih1 ih2 ih3 =>
    intro k hk
    obtain ⟨_, hw, ⟨g0, e0⟩, ⟨g1, e1⟩, ⟨g2, e2⟩, ⟨g3, e3⟩⟩ := h
    simp only [Node.rect] at hk
    cases k with
    | zero => simp at hk; linarith
    | succ k =>
      have hh : r.w / 2 < m * 2 ^ k := by
        rw [pow_succ] at hk; linarith
      have k0 := ih0 g0 k (by rw [e0]; exact hh)
      have k1 := ih1 g1 k (by rw [e1]; exact hh)
      have k2 := ih2 g2 k (by rw [e2]; exact hh)
      have k3 := ih3 g3 k (by rw [e3]; exact hh)
      simp only [Node.depth]
      omega

def GoodInsQ (m : Rat) (ins : Node RQ → Item RQ → Node RQ) : Prop :=
  ∀ c it, GoodQ m c → c.rect.contains it.rect = true → m ≤ it.rect.w → GoodQ m (ins c it) ∧ (ins c it).rect = c.rect

theorem mem_snoc {m : Rat} {cs : List (Item RQ)} {it : Item RQ} (h : ∀ x ∈ cs, m ≤ x.rect.w) (hi : m ≤ it.rect.w) :
    ∀ x ∈ cs ++ [it], m ≤ x.rect.w := by
  intro x hx
  rcases List.mem_append.mp hx with e | e
  · exact h x e
  · simp only [List.mem_singleton] at e; subst e; exact hi

theorem addHere_goodQ (m : Rat) (c : Node RQ) (it : Item RQ) (hc : GoodQ m c) (hi : m ≤ it.rect.w) :
    GoodQ m (Node.addHere c it) ∧ (Node.addHere c it).rect = c.rect := by
  cases c with
  | leaf r cs => exact ⟨mem_snoc hc hi, rfl⟩
  | split r cs c0 c1 c2 c3 =>
    obtain ⟨h, rest⟩ := hc
    exact ⟨⟨mem_snoc h hi, rest⟩, rfl⟩

/-- routing needs no containment hypothesis of its own: the children are only entered through their `Contains` test -/
theorem route_goodQ (m : Rat) (ins : Node RQ → Item RQ → Node RQ) (hins : GoodInsQ m ins) (n : Node RQ) (it : Item RQ)
    (hn : GoodQ m n) (hi : m ≤ it.rect.w) : GoodQ m (Node.route ins n it) ∧ (Node.route ins n it).rect = n.rect := by
  cases n with
  | leaf r cs => exact ⟨mem_snoc hn hi, rfl⟩
  | split r cs c0 c1 c2 c3 =>
    obtain ⟨hcs, hw, ⟨g0, e0⟩, ⟨g1, e1⟩, ⟨g2, e2⟩, ⟨g3, e3⟩⟩ := hn
    simp only [Node.route]
    split
    · rename_i hc
      obtain ⟨a, b⟩ := hins c0 it g0 hc hi
      exact ⟨⟨hcs, hw, ⟨a, by rw [b]; exact e0⟩, ⟨g1, e1⟩, ⟨g2, e2⟩, ⟨g3, e3⟩⟩, rfl⟩
    · split
      · rename_i hc
        obtain ⟨a, b⟩ := hins c1 it g1 hc hi
        exact ⟨⟨hcs, hw, ⟨g0, e0⟩, ⟨a, by rw [b]; exact e1⟩, ⟨g2, e2⟩, ⟨g3, e3⟩⟩, rfl⟩
      · split
        · rename_i hc
          obtain ⟨a, b⟩ := hins c2 it g2 hc hi
          exact ⟨⟨hcs, hw, ⟨g0, e0⟩, ⟨g1, e1⟩, ⟨a, by rw [b]; exact e2⟩, ⟨g3, e3⟩⟩, rfl⟩
        · split
          · rename_i hc
            obtain ⟨a, b⟩ := hins c3 it g3 hc hi
            exact ⟨⟨hcs, hw, ⟨g0, e0⟩, ⟨g1, e1⟩, ⟨g2, e2⟩, ⟨a, by rw [b]; exact e3⟩⟩, rfl⟩
          · exact ⟨⟨mem_snoc hcs hi, hw, ⟨g0, e0⟩, ⟨g1, e1⟩, ⟨g2, e2⟩, ⟨g3, e3⟩⟩, rfl⟩

theorem fold_route_goodQ (m : Rat) (ins : Node RQ → Item RQ → Node RQ) (hins : GoodInsQ m ins) (cs : List (Item RQ))
    (hcs : ∀ x ∈ cs, m ≤ x.rect.w) (acc : Node RQ) (hacc : GoodQ m acc) :
    GoodQ m (cs.foldl (fun a one => Node.route ins a one) acc) ∧
      (cs.foldl (fun a one => Node.route ins a one) acc).rect = acc.rect := by
  induction cs generalizing acc with
  | nil => exact ⟨hacc, rfl⟩
  | cons c cs ih =>
    obtain ⟨a, b⟩ := route_goodQ m ins hins acc c hacc (hcs c (by simp))
    obtain ⟨a', b'⟩ := ih (fun x hx => hcs x (by simp [hx])) _ a
    exact ⟨a', by rw [List.foldl_cons, b', b]⟩

/-- **insertion keeps the rational tree good**, for every threshold and fuel -/
theorem insert_goodQ (m : Rat) (threshold fuel : Nat) : GoodInsQ m (Node.insert (R := RQ) threshold fuel) := by
  induction fuel with
  | zero => intro c it hc _ hi; simpa [Node.insert] using addHere_goodQ m c it hc hi
  | succ f ih =>
    intro n it hn hcon hi
    simp only [Node.insert]
    cases n with
    | split r cs c0 c1 c2 c3 => exact route_goodQ m _ ih _ it hn hi
    | leaf r cs =>
      simp only
      split
      · have hw : m ≤ r.w := le_trans hi (contains_width r it.rect hcon)
        have hq : RectOps.quadrants r = quadrants halfRat r := rfl
        have hacc : GoodQ m (Node.split r [] (Node.leaf (RectOps.quadrants r).1 []) (Node.leaf (RectOps.quadrants r).2.1 [])
            (Node.leaf (RectOps.quadrants r).2.2.1 []) (Node.leaf (RectOps.quadrants r).2.2.2 [])) := by
          rw [hq]
          have e : r.w - halfRat r.w = r.w / 2 := by unfold halfRat; ring
          refine ⟨fun x hx => by simp at hx, hw, ⟨fun x hx => by simp at hx, rfl⟩, ⟨fun x hx => by simp at hx, ?_⟩,
            ⟨fun x hx => by simp at hx, rfl⟩, ⟨fun x hx => by simp at hx, ?_⟩⟩
          · simp only [quadrants, Node.rect]; exact e
          · simp only [quadrants, Node.rect]; exact e
        obtain ⟨q1, q2⟩ := fold_route_goodQ m (Node.insert threshold f) ih cs hn _ hacc
        obtain ⟨a, b⟩ := route_goodQ m _ ih _ it q1 hi
        exact ⟨a, by rw [b, q2]; rfl⟩
      · exact route_goodQ m _ ih _ it hn hi

/-- the re-insertion loop of `Reorganize` -/
theorem reorgFold_goodQ (m : Rat) (rect : RQ) (threshold fuel : Nat) (l : List (Item RQ)) (hl : ∀ x ∈ l, m ≤ x.rect.w)
    (s : Node RQ × List (Item RQ)) (hg : GoodQ m s.1) (hr : s.1.rect = rect) :
    GoodQ m (l.foldl (Tree.reorgStep rect threshold fuel) s).1 ∧ (l.foldl (Tree.reorgStep rect threshold fuel) s).1.rect = rect := by
  induction l generalizing s with
  | nil => exact ⟨hg, hr⟩
  | cons c t ih =>
    simp only [List.foldl_cons]
    unfold Tree.reorgStep
    split
    · rename_i hc
      obtain ⟨a, b⟩ := insert_goodQ m threshold fuel s.1 c hg (by rw [hr]; exact hc) (hl c (by simp))
      exact ih (fun x hx => hl x (by simp [hx])) (Node.insert threshold fuel s.1 c, s.2) a (by rw [b, hr])
    · exact ih (fun x hx => hl x (by simp [hx])) (s.1, s.2 ++ [c]) hg hr

end QT
