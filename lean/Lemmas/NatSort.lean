import Model.NatSort
/-! C20 helper lemmas and the main order theorems (restated in Props/C20.lean). -/
namespace NatSort

theorem cmpNat_eq_iff (a b : Nat) : cmpNat a b = .eq ↔ a = b := by
  unfold cmpNat; split
  · constructor
    · intro h; cases h
    · intro h; omega
  · split
    · constructor
      · intro h; cases h
      · intro h; omega
    · constructor
      · intro _; omega
      · intro _; rfl

theorem cmpBytes_eq_iff (a b : List Nat) : cmpBytes a b = .eq ↔ a = b := by
  induction a generalizing b with
  | nil => cases b <;> simp [cmpBytes]
  | cons x s ih =>
    cases b with
    | nil => simp [cmpBytes]
    | cons y t =>
      simp only [cmpBytes]
      split
      · constructor
        · intro h; cases h
        · intro h; simp at h; omega
      · split
        · constructor
          · intro h; cases h
          · intro h; simp at h; omega
        · have : x = y := by omega
          subst this; simp [ih]

theorem loop_eq (ci : Bool) (a b : List Nat) : ncmpLoop ci a b = cmpKeysO (key ci a) (key ci b) := by
  fun_induction ncmpLoop ci a b with
  | case1 s2 => cases s2 <;> simp [key, cmpKeysO]
  | case2 s1 hs1 =>
    cases s1 with
    | nil => simp at hs1
    | cons c t => unfold key; split <;> simp [cmpKeysO, key]
  | case3 c1 t1 c2 t2 hne =>
    unfold key
    by_cases h1 : isDigit c1 = true <;> by_cases h2 : isDigit c2 = true <;> simp_all [cmpKeysO, cmpChunk]
  | case4 c1 t1 c2 t2 hne hd hf =>
    have h2 : isDigit c2 = false := by simp_all
    unfold key
    simp [hd, h2, cmpKeysO, cmpChunk]
    intro h
    have := (cmpNat_eq_iff (fold ci c1) (fold ci c2)).mp h
    simp_all
  | case5 c1 t1 c2 t2 hne hd hf ih =>
    have h2 : isDigit c2 = false := by simp_all
    have hf' : fold ci c1 = fold ci c2 := by simpa using hf
    rw [ih]
    conv => rhs; unfold key
    simp [hd, h2, cmpKeysO, cmpChunk, hf', (cmpNat_eq_iff _ _).mpr rfl]
  | case6 c1 t1 c2 t2 hne hd hl =>
    have h1 : isDigit c1 = true := by simpa using hd
    have h2 : isDigit c2 = true := by simp_all
    conv => rhs; unfold key
    simp only [h1, h2, dite_true, cmpKeysO, cmpChunk]
    have hl' : (dg (c1 :: t1)).length ≠ (dg (c2 :: t2)).length := by simpa using hl
    have : cmpNat (dg (c1 :: t1)).length (dg (c2 :: t2)).length ≠ .eq := fun h => hl' ((cmpNat_eq_iff _ _).mp h)
    simp_all
  | case7 c1 t1 c2 t2 hne hd hl hn =>
    have h1 : isDigit c1 = true := by simpa using hd
    have h2 : isDigit c2 = true := by simp_all
    conv => rhs; unfold key
    simp only [h1, h2, dite_true, cmpKeysO, cmpChunk]
    have hn' : dg (c1 :: t1) ≠ dg (c2 :: t2) := by simpa using hn
    have : cmpBytes (dg (c1 :: t1)) (dg (c2 :: t2)) ≠ .eq := fun h => hn' ((cmpBytes_eq_iff _ _).mp h)
    simp_all
  | case8 c1 t1 c2 t2 hne hd hl hn hz =>
    have h1 : isDigit c1 = true := by simpa using hd
    have h2 : isDigit c2 = true := by simp_all
    conv => rhs; unfold key
    simp only [h1, h2, dite_true, cmpKeysO, cmpChunk]
    have hz' : zc (c1 :: t1) ≠ zc (c2 :: t2) := by simpa using hz
    have : cmpNat (zc (c1 :: t1)) (zc (c2 :: t2)) ≠ .eq := fun h => hz' ((cmpNat_eq_iff _ _).mp h)
    simp_all
  | case9 c1 t1 c2 t2 hne hd hl hn hz ih =>
    have h1 : isDigit c1 = true := by simpa using hd
    have h2 : isDigit c2 = true := by simp_all
    rw [ih]
    conv => rhs; unfold key
    simp only [h1, h2, dite_true, cmpKeysO, cmpChunk]
    have e1 : dg (c1 :: t1) = dg (c2 :: t2) := by simpa using hn
    have e2 : zc (c1 :: t1) = zc (c2 :: t2) := by simpa using hz
    simp_all [(cmpNat_eq_iff _ _).mpr rfl]

/-! ### order facts on the pieces -/
theorem cmpNat_swap (a b : Nat) : cmpNat b a = (cmpNat a b).swap := by
  unfold cmpNat
  by_cases h1 : a < b <;> by_cases h2 : b < a <;> simp [h1, h2, Ordering.swap] <;> omega

theorem cmpBytes_swap (a b : List Nat) : cmpBytes b a = (cmpBytes a b).swap := by
  induction a generalizing b with
  | nil => cases b <;> simp [cmpBytes, Ordering.swap]
  | cons x s ih =>
    cases b with
    | nil => simp [cmpBytes, Ordering.swap]
    | cons y t =>
      simp only [cmpBytes]
      by_cases h1 : x < y <;> by_cases h2 : y < x <;> simp [h1, h2, Ordering.swap, ih] <;> omega

theorem cmpChunk_swap (a b : Chunk) : cmpChunk b a = (cmpChunk a b).swap := by
  cases a <;> cases b
  · rename_i n1 z1 n2 z2
    simp only [cmpChunk]
    by_cases hl : n1.length = n2.length
    · by_cases hn : n1 = n2
      · subst hn; simp [cmpNat_swap z1 z2]
      · have hn' : n2 ≠ n1 := fun h => hn h.symm
        simp [hl, hn, hn', cmpBytes_swap n1 n2]
    · have hl' : n2.length ≠ n1.length := fun h => hl h.symm
      simp [hl, hl', cmpNat_swap n1.length n2.length]
  · rfl
  · rfl
  · exact cmpNat_swap _ _

theorem cmpChunk_eq_iff (a b : Chunk) : cmpChunk a b = .eq ↔ a = b := by
  cases a <;> cases b <;> simp only [cmpChunk]
  · rename_i n1 z1 n2 z2
    by_cases hl : n1.length = n2.length
    · by_cases hn : n1 = n2
      · subst hn; simp [cmpNat_eq_iff]
      · simp [hl, hn, cmpBytes_eq_iff]
    · have : n1 ≠ n2 := fun h => hl (by rw [h])
      simp [hl, this, cmpNat_eq_iff]
  · simp
  · simp
  · simp [cmpNat_eq_iff]

theorem cmpKeysO_swap (s t : List Chunk) : cmpKeysO t s = (cmpKeysO s t).map Ordering.swap := by
  induction s generalizing t with
  | nil => cases t <;> simp [cmpKeysO]
  | cons a s ih =>
    cases t with
    | nil => simp [cmpKeysO]
    | cons b t =>
      simp only [cmpKeysO, cmpChunk_swap a b]
      by_cases h : cmpChunk a b = .eq
      · simp [h, Ordering.swap, ih]
      · have : (cmpChunk a b).swap ≠ .eq := by
          cases hc : cmpChunk a b <;> simp_all [Ordering.swap]
        simp [h, this]

theorem cmpKeysO_ne_eq (s t : List Chunk) : cmpKeysO s t ≠ some .eq := by
  induction s generalizing t with
  | nil => cases t <;> simp [cmpKeysO]
  | cons a s ih =>
    cases t with
    | nil => simp [cmpKeysO]
    | cons b t =>
      simp only [cmpKeysO]
      by_cases h : cmpChunk a b = .eq
      · simp [h]; exact ih t
      · simp [h]

/-- the public function: antisymmetry -/
theorem ncmp_swap (a b : List Nat) (ci : Bool) : ncmp b a ci = (ncmp a b ci).swap := by
  unfold ncmp
  rw [loop_eq ci b a, loop_eq ci a b, loop_eq false b a, loop_eq false a b,
      cmpKeysO_swap (key ci a) (key ci b), cmpKeysO_swap (key false a) (key false b)]
  cases h1 : cmpKeysO (key ci a) (key ci b) with
  | some r => simp
  | none =>
    simp only [Option.map_none]
    by_cases hl : a.length = b.length
    · have hl' : b.length = a.length := hl.symm
      rw [if_pos hl, if_pos hl']
      cases ci with
      | false => simp [Ordering.swap]
      | true =>
        cases h2 : cmpKeysO (key false a) (key false b) with
        | some r => simp
        | none => simp only [Option.map_none]; exact cmpNat_swap _ _
    · have hl' : ¬ b.length = a.length := fun h => hl h.symm
      rw [if_neg hl, if_neg hl']
      exact cmpNat_swap a.length b.length


/-! ### cmp = eq ↔ identical -/
theorem dropZeros_recon (l : List Nat) : List.replicate (dropZeros l).1 48 ++ (dropZeros l).2 = l := by
  induction l with
  | nil => simp [dropZeros]
  | cons c t ih =>
    by_cases h : c = 48
    · subst h; simp [dropZeros, List.replicate_succ, ih]
    · have : dropZeros (c :: t) = (0, c :: t) := by
        unfold dropZeros; split
        · rename_i heq; simp at heq; exact absurd heq.1 h
        · rfl
      simp [this]
theorem takeDigits_recon (l : List Nat) : (takeDigits l).1 ++ (takeDigits l).2 = l := by
  induction l with
  | nil => simp [takeDigits]
  | cons c t ih => simp only [takeDigits]; split <;> simp [ih]
theorem recon (l : List Nat) : List.replicate (zc l) 48 ++ dg l ++ rs l = l := by
  unfold zc dg rs
  rw [List.append_assoc, takeDigits_recon, dropZeros_recon]
theorem parts_len (l : List Nat) : zc l + (dg l).length + (rs l).length = l.length := by
  have := congrArg List.length (recon l)
  simp at this; omega

theorem fold_false (c : Nat) : fold false c = c := by simp [fold]

theorem loop_none_eq (a b : List Nat) (h : ncmpLoop false a b = none) (hl : a.length = b.length) : a = b := by
  fun_induction ncmpLoop false a b with
  | case1 s2 => cases s2 <;> simp_all
  | case2 s1 hs1 => cases s1 <;> simp_all
  | case3 c1 t1 c2 t2 hne => simp at h
  | case4 c1 t1 c2 t2 hne hd hf => simp at h
  | case5 c1 t1 c2 t2 hne hd hf ih =>
    have hf' : c1 = c2 := by simpa [fold_false] using hf
    subst hf'
    have := ih h (by simpa using hl)
    rw [this]
  | case6 c1 t1 c2 t2 hne hd hl' => simp at h
  | case7 c1 t1 c2 t2 hne hd hl' hn => simp at h
  | case8 c1 t1 c2 t2 hne hd hl' hn hz => simp at h
  | case9 c1 t1 c2 t2 hne hd hl' hn hz ih =>
    have e1 : dg (c1 :: t1) = dg (c2 :: t2) := by simpa using hn
    have e2 : zc (c1 :: t1) = zc (c2 :: t2) := by simpa using hz
    have p1 := parts_len (c1 :: t1)
    have p2 := parts_len (c2 :: t2)
    have hrl : (rs (c1 :: t1)).length = (rs (c2 :: t2)).length := by
      rw [e1, e2] at p1; omega
    have e3 := ih h hrl
    rw [← recon (c1 :: t1), ← recon (c2 :: t2), e1, e2, e3]

theorem cmpKeysO_refl (k : List Chunk) : cmpKeysO k k = none := by
  induction k with
  | nil => simp [cmpKeysO]
  | cons a k ih => simp [cmpKeysO, (cmpChunk_eq_iff a a).mpr rfl, ih]

theorem ncmp_eq_iff (a b : List Nat) (ci : Bool) : ncmp a b ci = .eq ↔ a = b := by
  constructor
  · intro h
    unfold ncmp at h
    have ne1 : ∀ r, ncmpLoop ci a b = some r → r ≠ .eq := by
      intro r hr hre; subst hre; rw [loop_eq] at hr; exact cmpKeysO_ne_eq _ _ hr
    have ne2 : ∀ r, ncmpLoop false a b = some r → r ≠ .eq := by
      intro r hr hre; subst hre; rw [loop_eq] at hr; exact cmpKeysO_ne_eq _ _ hr
    cases h1 : ncmpLoop ci a b with
    | some r => rw [h1] at h; simp at h; exact absurd h (ne1 r h1)
    | none =>
      rw [h1] at h; simp only at h
      by_cases hl : a.length = b.length
      · rw [if_pos hl] at h
        cases ci with
        | false => exact loop_none_eq a b h1 hl
        | true =>
          simp only [if_true] at h
          cases h2 : ncmpLoop false a b with
          | some r => rw [h2] at h; simp at h; exact absurd h (ne2 r h2)
          | none => exact loop_none_eq a b h2 hl
      · rw [if_neg hl] at h
        exact absurd ((cmpNat_eq_iff _ _).mp h) hl
  · intro h
    subst h
    unfold ncmp
    rw [loop_eq ci a a, loop_eq false a a, cmpKeysO_refl, cmpKeysO_refl]
    simp [(cmpNat_eq_iff _ _).mpr rfl]


/-! ### transitivity -/
def csize : Chunk → Nat | .num n z => z + n.length | .byte _ => 1

def lexCmp : List Chunk → List Chunk → Ordering
  | [], [] => .eq
  | [], _ :: _ => .lt
  | _ :: _, [] => .gt
  | a :: s, b :: t => (cmpChunk a b).then (lexCmp s t)

theorem key_size (ci : Bool) (s : List Nat) : ((key ci s).map csize).sum = s.length := by
  fun_induction key ci s with
  | case1 => simp
  | case2 c t h ih =>
    have := parts_len (c :: t)
    simp [csize, ih] at *; omega
  | case3 c t h ih => simp [csize, ih]; omega

theorem key_pos (ci : Bool) (s : List Nat) : ∀ c ∈ key ci s, 1 ≤ csize c := by
  fun_induction key ci s with
  | case1 => simp
  | case2 c t h ih =>
    intro x hx
    simp at hx
    rcases hx with hx | hx
    · subst hx
      have p := parts_len (c :: t)
      have d := digit_progress c t h
      simp [csize, rs] at *; omega
    · exact ih x hx
  | case3 c t h ih =>
    intro x hx
    simp at hx
    rcases hx with hx | hx
    · subst hx; simp [csize]
    · exact ih x hx

theorem cmpNat_lt_iff (a b : Nat) : cmpNat a b = .lt ↔ a < b := by
  unfold cmpNat; split
  · simp [*]
  · split <;> simp [*]
theorem cmpNat_add_left (k a b : Nat) : cmpNat (k + a) (k + b) = cmpNat a b := by
  unfold cmpNat
  by_cases h1 : a < b <;> by_cases h2 : b < a <;> simp [h1, h2] <;> omega

/-- `cmpKeysO` followed by the byte-length comparison is the lexicographic comparison of the keys -/
theorem lex_of_O (k1 k2 : List Chunk) (p1 : ∀ c ∈ k1, 1 ≤ csize c) (p2 : ∀ c ∈ k2, 1 ≤ csize c) :
    (match cmpKeysO k1 k2 with
     | some r => r
     | none => cmpNat ((k1.map csize).sum) ((k2.map csize).sum)) = lexCmp k1 k2 := by
  induction k1 generalizing k2 with
  | nil =>
    cases k2 with
    | nil => simp [cmpKeysO, lexCmp, cmpNat]
    | cons b t =>
      have := p2 b (by simp)
      simp only [cmpKeysO, lexCmp, List.map_nil, List.sum_nil, List.map_cons, List.sum_cons]
      exact (cmpNat_lt_iff _ _).mpr (by omega)
  | cons a s ih =>
    cases k2 with
    | nil =>
      have := p1 a (by simp)
      simp only [cmpKeysO, lexCmp, List.map_nil, List.sum_nil, List.map_cons, List.sum_cons]
      have h := cmpNat_swap (csize a + (s.map csize).sum) 0
      have : cmpNat 0 (csize a + (s.map csize).sum) = .lt := (cmpNat_lt_iff _ _).mpr (by omega)
      rw [cmpNat_swap 0 _, this]; rfl
    | cons b t =>
      simp only [cmpKeysO, lexCmp]
      by_cases h : cmpChunk a b = .eq
      · have hab := (cmpChunk_eq_iff a b).mp h
        subst hab
        simp only [h, bne_self_eq_false, Bool.false_eq_true, if_false, Ordering.then, List.map_cons, List.sum_cons,
          cmpNat_add_left]
        exact ih t (fun c hc => p1 c (by simp [hc])) (fun c hc => p2 c (by simp [hc]))
      · have : (cmpChunk a b != .eq) = true := by simpa using h
        simp only [this, if_true]
        cases hc : cmpChunk a b <;> simp_all [Ordering.then]

theorem ncmp_lex (a b : List Nat) (ci : Bool) :
    ncmp a b ci = (lexCmp (key ci a) (key ci b)).then (if ci then lexCmp (key false a) (key false b) else .eq) := by
  have L := fun c => lex_of_O (key c a) (key c b) (key_pos c a) (key_pos c b)
  simp only [key_size] at L
  unfold ncmp
  rw [loop_eq ci a b, loop_eq false a b]
  have L1 := L ci
  have L2 := L false
  cases h1 : cmpKeysO (key ci a) (key ci b) with
  | some r =>
    rw [h1] at L1; simp only at L1
    have : r ≠ .eq := fun h => cmpKeysO_ne_eq _ _ (h ▸ h1)
    rw [← L1]; cases r <;> simp_all [Ordering.then]
  | none =>
    rw [h1] at L1; simp only at L1
    rw [← L1]
    by_cases hl : a.length = b.length
    · rw [if_pos hl, hl, (cmpNat_eq_iff _ _).mpr rfl]
      simp only [Ordering.then]
      cases ci with
      | false => simp
      | true =>
        simp only [if_true]
        cases h2 : cmpKeysO (key false a) (key false b) with
        | some r => rw [h2] at L2; simpa using L2
        | none => rw [h2] at L2; simp only at L2; rw [← L2, hl]; simp [(cmpNat_eq_iff _ _).mpr rfl]
    · rw [if_neg hl]
      have : cmpNat a.length b.length ≠ .eq := fun h => hl ((cmpNat_eq_iff _ _).mp h)
      cases hc : cmpNat a.length b.length <;> simp_all [Ordering.then]


theorem cmpNat_lt_trans {a b c : Nat} (h1 : cmpNat a b = .lt) (h2 : cmpNat b c = .lt) : cmpNat a c = .lt := by
  rw [cmpNat_lt_iff] at *; omega

theorem cmpBytes_lt_trans : ∀ (a b c : List Nat), cmpBytes a b = .lt → cmpBytes b c = .lt → cmpBytes a c = .lt
  | [], [], _, h1, _ => by simp [cmpBytes] at h1
  | [], _ :: _, [], _, h2 => by simp [cmpBytes] at h2
  | [], _ :: _, _ :: _, _, _ => by simp [cmpBytes]
  | _ :: _, [], _, h1, _ => by simp [cmpBytes] at h1
  | _ :: _, _ :: _, [], _, h2 => by simp [cmpBytes] at h2
  | x :: s, y :: t, z :: u, h1, h2 => by
    simp only [cmpBytes] at *
    by_cases hxy : x < y
    · by_cases hyz : y < z
      · have : x < z := by omega
        simp [this]
      · by_cases hzy : z < y
        · simp [hyz, hzy] at h2
        · have : y = z := by omega
          subst this; simp [hxy]
    · by_cases hyx : y < x
      · simp [hxy, hyx] at h1
      · have hxy' : x = y := by omega
        subst hxy'
        simp only [hxy, if_false] at h1
        by_cases hyz : x < z
        · simp [hyz]
        · by_cases hzy : z < x
          · simp [hyz, hzy] at h2
          · simp only [hyz, hzy, if_false] at h2 ⊢
            exact cmpBytes_lt_trans s t u h1 h2

theorem cmpBytes_lt_ne {a b : List Nat} (h : cmpBytes a b = .lt) : a ≠ b := by
  intro e; subst e
  have := (cmpBytes_eq_iff a a).mpr rfl
  rw [this] at h; cases h

theorem num_lt_iff (n1 : List Nat) (z1 : Nat) (n2 : List Nat) (z2 : Nat) :
    cmpChunk (.num n1 z1) (.num n2 z2) = .lt ↔
      n1.length < n2.length ∨ (n1.length = n2.length ∧ (cmpBytes n1 n2 = .lt ∨ (n1 = n2 ∧ z1 < z2))) := by
  simp only [cmpChunk]
  by_cases hl : n1.length = n2.length
  · by_cases hn : n1 = n2
    · subst hn; simp [cmpNat_lt_iff, (cmpBytes_eq_iff n1 n1).mpr rfl]
    · simp [hl, hn]
  · simp [hl, cmpNat_lt_iff]

theorem cmpChunk_lt_trans (a b c : Chunk) (h1 : cmpChunk a b = .lt) (h2 : cmpChunk b c = .lt) : cmpChunk a c = .lt := by
  match a, b, c, h1, h2 with
  | .num _ _, .num _ _, .byte _, _, _ => rfl
  | .num _ _, .byte _, .byte _, _, _ => rfl
  | .num _ _, .byte _, .num _ _, _, h2 => simp [cmpChunk] at h2
  | .byte _, .num _ _, _, h1, _ => simp [cmpChunk] at h1
  | .byte _, .byte _, .num _ _, _, h2 => simp [cmpChunk] at h2
  | .byte x, .byte y, .byte z, h1, h2 => simp only [cmpChunk] at *; exact cmpNat_lt_trans h1 h2
  | .num n1 z1, .num n2 z2, .num n3 z3, h1, h2 =>
    have e1 := (num_lt_iff n1 z1 n2 z2).mp h1
    have e2 := (num_lt_iff n2 z2 n3 z3).mp h2
    apply (num_lt_iff n1 z1 n3 z3).mpr
    rcases e1 with e1 | ⟨l1, e1⟩
    · rcases e2 with e2 | ⟨l2, _⟩
      · exact Or.inl (by omega)
      · exact Or.inl (by omega)
    · rcases e2 with e2 | ⟨l2, e2⟩
      · exact Or.inl (by omega)
      · refine Or.inr ⟨by omega, ?_⟩
        rcases e1 with e1 | ⟨q1, w1⟩
        · rcases e2 with e2 | ⟨q2, _⟩
          · exact Or.inl (cmpBytes_lt_trans _ _ _ e1 e2)
          · subst q2; exact Or.inl e1
        · subst q1
          rcases e2 with e2 | ⟨q2, w2⟩
          · exact Or.inl e2
          · subst q2; exact Or.inr ⟨rfl, by omega⟩

theorem lexCmp_eq_iff (k1 k2 : List Chunk) : lexCmp k1 k2 = .eq ↔ k1 = k2 := by
  induction k1 generalizing k2 with
  | nil => cases k2 <;> simp [lexCmp]
  | cons a s ih =>
    cases k2 with
    | nil => simp [lexCmp]
    | cons b t =>
      simp only [lexCmp]
      cases h : cmpChunk a b with
      | eq =>
        have := (cmpChunk_eq_iff a b).mp h
        subst this; simp [Ordering.then, ih]
      | lt =>
        have : a ≠ b := fun e => by rw [(cmpChunk_eq_iff a b).mpr e] at h; cases h
        simp [Ordering.then, this]
      | gt =>
        have : a ≠ b := fun e => by rw [(cmpChunk_eq_iff a b).mpr e] at h; cases h
        simp [Ordering.then, this]

theorem lexCmp_lt_trans : ∀ (a b c : List Chunk), lexCmp a b = .lt → lexCmp b c = .lt → lexCmp a c = .lt
  | [], [], _, h1, _ => by simp [lexCmp] at h1
  | [], _ :: _, [], _, h2 => by simp [lexCmp] at h2
  | [], _ :: _, _ :: _, _, _ => by simp [lexCmp]
  | _ :: _, [], _, h1, _ => by simp [lexCmp] at h1
  | _ :: _, _ :: _, [], _, h2 => by simp [lexCmp] at h2
  | x :: s, y :: t, z :: u, h1, h2 => by
    simp only [lexCmp] at *
    cases hxy : cmpChunk x y with
    | gt => rw [hxy] at h1; simp [Ordering.then] at h1
    | lt =>
      cases hyz : cmpChunk y z with
      | gt => rw [hyz] at h2; simp [Ordering.then] at h2
      | lt => rw [cmpChunk_lt_trans x y z hxy hyz]; rfl
      | eq =>
        have := (cmpChunk_eq_iff y z).mp hyz
        subst this; rw [hxy]; rfl
    | eq =>
      have := (cmpChunk_eq_iff x y).mp hxy
      subst this
      rw [hxy] at h1; simp only [Ordering.then] at h1
      cases hyz : cmpChunk x z with
      | gt => rw [hyz] at h2; simp [Ordering.then] at h2
      | lt => rfl
      | eq =>
        rw [hyz] at h2; simp only [Ordering.then] at h2 ⊢
        exact lexCmp_lt_trans s t u h1 h2

/-- `≤` is transitive (stated as "not greater"), for both case modes -/
theorem ncmp_trans (a b c : List Nat) (ci : Bool)
    (h1 : ncmp a b ci ≠ .gt) (h2 : ncmp b c ci ≠ .gt) : ncmp a c ci ≠ .gt := by
  -- a ≤ b means lt or eq; eq means identical strings
  cases e1 : ncmp a b ci with
  | gt => exact absurd e1 h1
  | eq => have := (ncmp_eq_iff a b ci).mp e1; subst this; exact h2
  | lt =>
    cases e2 : ncmp b c ci with
    | gt => exact absurd e2 h2
    | eq => have := (ncmp_eq_iff b c ci).mp e2; subst this; rw [e1]; simp
    | lt =>
      -- strict case through the lexicographic characterisation
      rw [ncmp_lex] at e1 e2 ⊢
      cases f1 : lexCmp (key ci a) (key ci b) with
      | gt => rw [f1] at e1; simp [Ordering.then] at e1
      | lt =>
        cases f2 : lexCmp (key ci b) (key ci c) with
        | gt => rw [f2] at e2; simp [Ordering.then] at e2
        | lt => rw [lexCmp_lt_trans _ _ _ f1 f2]; simp [Ordering.then]
        | eq =>
          have := (lexCmp_eq_iff _ _).mp f2
          rw [← this, f1]; simp [Ordering.then]
      | eq =>
        have k12 := (lexCmp_eq_iff _ _).mp f1
        rw [f1] at e1; simp only [Ordering.then] at e1
        rw [k12]
        cases f2 : lexCmp (key ci b) (key ci c) with
        | gt => rw [f2] at e2; simp [Ordering.then] at e2
        | lt => simp [Ordering.then]
        | eq =>
          rw [f2] at e2; simp only [Ordering.then] at e2 ⊢
          cases ci with
          | false => simp at e1
          | true =>
            simp only [if_true] at e1 e2 ⊢
            rw [lexCmp_lt_trans _ _ _ e1 e2]; simp


end NatSort
