import Model.NatSort
/-! C20 helper lemmas and the main order theorems (restated in Props/C20.lean). -/
namespace NatSort

theorem cmpNat_eq_iff (a b : Nat) : cmpNat a b = .eq ↔ a = b := by
  unfold cmpNat; split
  · constructor
    · intro h; cases h
    · intro h; omega
  · split
    · constructor
      · intro h; cases h
      · intro h; omega
    · constructor
      · intro _; omega
      · intro _; rfl

theorem cmpBytes_eq_iff (a b : List Nat) : cmpBytes a b = .eq ↔ a = b := by
  induction a generalizing b with
  | nil => cases b <;> simp [cmpBytes]
  | cons x s ih =>
    cases b with
    | nil => simp [cmpBytes]
    | cons y t =>
      simp only [cmpBytes]
      split
      · constructor
        · intro h; cases h
        · intro h; simp at h; omega
      · split
        · constructor
          · intro h; cases h
          · intro h; simp at h; omega
        · have : x = y := by omega
          subst this; simp [ih]

theorem loop_eq (ci : Bool) (a b : List Nat) : ncmpLoop ci a b = cmpKeysO (key ci a) (key ci b) := by
  fun_induction ncmpLoop ci a b with
  | case1 s2 => cases s2 <;> simp [key, cmpKeysO]
  | case2 s1 hs1 =>
    cases s1 with
    | nil => simp at hs1
    | cons c t => unfold key; split <;> simp [cmpKeysO, key]
  | case3 c1 t1 c2 t2 hne =>
    unfold key
    by_cases h1 : isDigit c1 = true <;> by_cases h2 : isDigit c2 = true <;> simp_all [cmpKeysO, cmpChunk]
  | case4 c1 t1 c2 t2 hne hd hf =>
    have h2 : isDigit c2 = false := by simp_all
    unfold key
    simp [hd, h2, cmpKeysO, cmpChunk]
    intro h
    have := (cmpNat_eq_iff (fold ci c1) (fold ci c2)).mp h
    simp_all
  | case5 c1 t1 c2 t2 hne hd hf ih =>
    have h2 : isDigit c2 = false := by simp_all
    have hf' : fold ci c1 = fold ci c2 := by simpa using hf
    rw [ih]
    conv => rhs; unfold key
    simp [hd, h2, cmpKeysO, cmpChunk, hf', (cmpNat_eq_iff _ _).mpr rfl]
  | case6 c1 t1 c2 t2 hne hd hl =>
    have h1 : isDigit c1 = true := by simpa using hd
    have h2 : isDigit c2 = true := by simp_all
    conv => rhs; unfold key
    simp only [h1, h2, dite_true, cmpKeysO, cmpChunk]
    have hl' : (dg (c1 :: t1)).length ≠ (dg (c2 :: t2)).length := by simpa using hl
    have : cmpNat (dg (c1 :: t1)).length (dg (c2 :: t2)).length ≠ .eq := fun h => hl' ((cmpNat_eq_iff _ _).mp h)
    simp_all
  | case7 c1 t1 c2 t2 hne hd hl hn =>
    have h1 : isDigit c1 = true := by simpa using hd
    have h2 : isDigit c2 = true := by simp_all
    conv => rhs; unfold key
    simp only [h1, h2, dite_true, cmpKeysO, cmpChunk]
    have hn' : dg (c1 :: t1) ≠ dg (c2 :: t2) := by simpa using hn
    have : cmpBytes (dg (c1 :: t1)) (dg (c2 :: t2)) ≠ .eq := fun h => hn' ((cmpBytes_eq_iff _ _).mp h)
    simp_all
  | case8 c1 t1 c2 t2 hne hd hl hn hz =>
    have h1 : isDigit c1 = true := by simpa using hd
    have h2 : isDigit c2 = true := by simp_all
    conv => rhs; unfold key
    simp only [h1, h2, dite_true, cmpKeysO, cmpChunk]
    have hz' : zc (c1 :: t1) ≠ zc (c2 :: t2) := by simpa using hz
    have : cmpNat (zc (c1 :: t1)) (zc (c2 :: t2)) ≠ .eq := fun h => hz' ((cmpNat_eq_iff _ _).mp h)
    simp_all
  | case9 c1 t1 c2 t2 hne hd hl hn hz ih =>
    have h1 : isDigit c1 = true := by simpa using hd
    have h2 : isDigit c2 = true := by simp_all
    rw [ih]
    conv => rhs; unfold key
    simp only [h1, h2, dite_true, cmpKeysO, cmpChunk]
    have e1 : dg (c1 :: t1) = dg (c2 :: t2) := by simpa using hn
    have e2 : zc (c1 :: t1) = zc (c2 :: t2) := by simpa using hz
    simp_all [(cmpNat_eq_iff _ _).mpr rfl]

/-! ### order facts on the pieces -/
theorem cmpNat_swap (a b : Nat) : cmpNat b a = (cmpNat a b).swap := by
  unfold cmpNat
  by_cases h1 : a < b <;> by_cases h2 : b < a <;> simp [h1, h2, Ordering.swap] <;> omega

theorem cmpBytes_swap (a b : List Nat) : cmpBytes b a = (cmpBytes a b).swap := by
  induction a generalizing b with
  | nil => cases b <;> simp [cmpBytes, Ordering.swap]
  | cons x s ih =>
    cases b with
    | nil => simp [cmpBytes, Ordering.swap]
    | cons y t =>
      simp only [cmpBytes]
      by_cases h1 : x < y <;> by_cases h2 : y < x <;> simp [h1, h2, Ordering.swap, ih] <;> omega

theorem cmpChunk_swap (a b : Chunk) : cmpChunk b a = (cmpChunk a b).swap := by
  cases a <;> cases b
  · rename_i n1 z1 n2 z2
    simp only [cmpChunk]
    by_cases hl : n1.length = n2.length
    · by_cases hn : n1 = n2
      · subst hn; simp [cmpNat_swap z1 z2]
      · have hn' : n2 ≠ n1 := fun h => hn h.symm
        simp [hl, hn, hn', cmpBytes_swap n1 n2]
    · have hl' : n2.length ≠ n1.length := fun h => hl h.symm
      simp [hl, hl', cmpNat_swap n1.length n2.length]
  · rfl
  · rfl
  · exact cmpNat_swap _ _

theorem cmpChunk_eq_iff (a b : Chunk) : cmpChunk a b = .eq ↔ a = b := by
  cases a <;> cases b <;> simp only [cmpChunk]
  · rename_i n1 z1 n2 z2
    by_cases hl : n1.length = n2.length
    · by_cases hn : n1 = n2
      · subst hn; simp [cmpNat_eq_iff]
      · simp [hl, hn, cmpBytes_eq_iff]
    · have : n1 ≠ n2 := fun h => hl (by rw [h])
      simp [hl, this, cmpNat_eq_iff]
  · simp
  · simp
  · simp [cmpNat_eq_iff]

theorem cmpKeysO_swap (s t : List Chunk) : cmpKeysO t s = (cmpKeysO s t).map Ordering.swap := by
  induction s generalizing t with
  | nil => cases t <;> simp [cmpKeysO]
  | cons a s ih =>
    cases t with
    | nil => simp [cmpKeysO]
    | cons b t =>
      simp only [cmpKeysO, cmpChunk_swap a b]
      by_cases h : cmpChunk a b = .eq
      · simp [h, Ordering.swap, ih]
      · have : (cmpChunk a b).swap ≠ .eq := by
          cases hc : cmpChunk a b <;> simp_all [Ordering.swap]
        simp [h, this]

theorem cmpKeysO_ne_eq (s t : List Chunk) : cmpKeysO s t ≠ some .eq := by
  induction s generalizing t with
  | nil => cases t <;> simp [cmpKeysO]
  | cons a s ih =>
    cases t with
    | nil => simp [cmpKeysO]
    | cons b t =>
      simp only [cmpKeysO]
      by_cases h : cmpChunk a b = .eq
      · simp [h]; exact ih t
      · simp [h]

/-- the public function: antisymmetry -/
theorem ncmp_swap (a b : List Nat) (ci : Bool) : ncmp b a ci = (ncmp a b ci).swap := by
  unfold ncmp
  rw [loop_eq ci b a, loop_eq ci a b, loop_eq false b a, loop_eq false a b,
      cmpKeysO_swap (key ci a) (key ci b), cmpKeysO_swap (key false a) (key false b)]
  cases h1 : cmpKeysO (key ci a) (key ci b) with
  | some r => simp
  | none =>
    simp only [Option.map_none]
    by_cases hl : a.length = b.length
    · have hl' : b.length = a.length := hl.symm
      rw [if_pos hl, if_pos hl']
      cases ci with
      | false => simp [Ordering.swap]
      | true =>
        cases h2 : cmpKeysO (key false a) (key false b) with
        | some r => simp
        | none => simp only [Option.map_none]; exact cmpNat_swap _ _
    · have hl' : ¬ b.length = a.length := fun h => hl h.symm
      rw [if_neg hl, if_neg hl']
      exact cmpNat_swap a.length b.length


/-! ### cmp = eq ↔ identical -/
theorem dropZeros_recon (l : List Nat) : List.replicate (dropZeros l).1 48 ++ (dropZeros l).2 = l := by
  induction l with
  | nil => simp [dropZeros]
  | cons c t ih =>
    by_cases h : c = 48
    · subst h; simp [dropZeros, List.replicate_succ, ih]
    · have : dropZeros (c :: t) = (0, c :: t) := by
        unfold dropZeros; split
        · rename_i heq; simp at heq; exact absurd heq.1 h
        · rfl
      simp [this]
theorem takeDigits_recon (l : List Nat) : (takeDigits l).1 ++ (takeDigits l).2 = l := by
  induction l with
  | nil => simp [takeDigits]
  | cons c t ih => simp only [takeDigits]; split <;> simp [ih]
theorem recon (l : List Nat) : List.replicate (zc l) 48 ++ dg l ++ rs l = l := by
  unfold zc dg rs
  rw [List.append_assoc, takeDigits_recon, dropZeros_recon]
theorem parts_len (l : List Nat) : zc l + (dg l).length + (rs l).length = l.length := by
  have := congrArg List.length (recon l)
  simp at this; omega

theorem fold_false (c : Nat) : fold false c = c := by simp [fold]

theorem loop_none_eq (a b : List Nat) (h : ncmpLoop false a b = none) (hl : a.length = b.length) : a = b := by
  fun_induction ncmpLoop false a b with
  | case1 s2 => cases s2 <;> simp_all
  | case2 s1 hs1 => cases s1 <;> simp_all
  | case3 c1 t1 c2 t2 hne => simp at h
  | case4 c1 t1 c2 t2 hne hd hf => simp at h
  | case5 c1 t1 c2 t2 hne hd hf ih =>
    have hf' : c1 = c2 := by simpa [fold_false] using hf
    subst hf'
    have := ih h (by simpa using hl)
    rw [this]
  | case6 c1 t1 c2 t2 hne hd hl' => simp at h
  | case7 c1 t1 c2 t2 hne hd hl' hn => simp at h
  | case8 c1 t1 c2 t2 hne hd hl' hn hz => simp at h
  | case9 c1 t1 c2 t2 hne hd hl' hn hz ih =>
    have e1 : dg (c1 :: t1) = dg (c2 :: t2) := by simpa using hn
    have e2 : zc (c1 :: t1) = zc (c2 :: t2) := by simpa using hz
    have p1 := parts_len (c1 :: t1)
    have p2 := parts_len (c2 :: t2)
    have hrl : (rs (c1 :: t1)).length = (rs (c2 :: t2)).length := by
      rw [e1, e2] at p1; omega
    have e3 := ih h hrl
    rw [← recon (c1 :: t1), ← recon (c2 :: t2), e1, e2, e3]

theorem cmpKeysO_refl (k : List Chunk) : cmpKeysO k k = none := by
  induction k with
  | nil => simp [cmpKeysO]
  | cons a k ih => simp [cmpKeysO, (cmpChunk_eq_iff a a).mpr rfl, ih]

theorem ncmp_eq_iff (a b : List Nat) (ci : Bool) : ncmp a b ci = .eq ↔ a = b := by
  constructor
  · intro h
    unfold ncmp at h
    have ne1 : ∀ r, ncmpLoop ci a b = some r → r ≠ .eq := by
      intro r hr hre; subst hre; rw [loop_eq] at hr; exact cmpKeysO_ne_eq _ _ hr
    have ne2 : ∀ r, ncmpLoop false a b = some r → r ≠ .eq := by
      intro r hr hre; subst hre; rw [loop_eq] at hr; exact cmpKeysO_ne_eq _ _ hr
    cases h1 : ncmpLoop ci a b with
    | some r => rw [h1] at h; simp at h; exact absurd h (ne1 r h1)
    | none =>
      rw [h1] at h; simp only at h
      by_cases hl : a.length = b.length
      · rw [if_pos hl] at h
        cases ci with
        | false => exact loop_none_eq a b h1 hl
        | true =>
          simp only [if_true] at h
          cases h2 : ncmpLoop false a b with
          | some r => rw [h2] at h; simp at h; exact absurd h (ne2 r h2)
          | none => exact loop_none_eq a b h2 hl
      · rw [if_neg hl] at h
        exact absurd ((cmpNat_eq_iff _ _).mp h) hl
  · intro h
    subst h
    unfold ncmp
    rw [loop_eq ci a a, loop_eq false a a, cmpKeysO_refl, cmpKeysO_refl]
    simp [(cmpNat_eq_iff _ _).mpr rfl]


/-! ### transitivity -/
def csize : Chunk → Nat | .num n z => z + n.length | .byte _ => 1

def lexCmp : List Chunk → List Chunk → Ordering
  | [], [] => .eq
  | [], _ :: _ => .lt
  | _ :: _, [] => .gt
  | a :: s, b :: t => (cmpChunk a b).then (lexCmp s t)

theorem key_size (ci : Bool) (s : List Nat) : ((key ci s).map csize).sum = s.length := by
  fun_induction key ci s with
  | case1 => simp
  | case2 c t h ih =>
    have := parts_len (c :: t)
    simp [csize, ih] at *; omega
  | case3 c t h ih => simp [csize, ih]; omega

theorem key_pos (ci : Bool) (s : List Nat) : ∀ c ∈ key ci s, 1 ≤ csize c := by
  fun_induction key ci s with
  | case1 => simp
  | case2 c t h ih =>
    intro x hx
    simp at hx
    rcases hx with hx | hx
    · subst hx
      have p := parts_len (c :: t)
      have d := digit_progress c t h
      simp [csize, rs] at *; omega
    · exact ih x hx
  | case3 c t h ih =>
    intro x hx
    simp at hx
    rcases hx with hx | hx
    · subst hx; simp [csize]
    · exact ih x hx

theorem cmpNat_lt_iff (a b : Nat) : cmpNat a b = .lt ↔ a < b := by
  unfold cmpNat; split
  · simp [*]
  · split <;> simp [*]
theorem cmpNat_add_left (k a b : Nat) : cmpNat (k + a) (k + b) = cmpNat a b := by
  unfold cmpNat
  by_cases h1 : a < b <;> by_cases h2 : b < a <;> simp [h1, h2] <;> omega

/-- `cmpKeysO` followed by the byte-length comparison is the lexicographic comparison of the keys -/
theorem lex_of_O (k1 k2 : List Chunk) (p1 : ∀ c ∈ k1, 1 ≤ csize c) (p2 : ∀ c ∈ k2, 1 ≤ csize c) :
    (match cmpKeysO k1 k2 with
     | some r => r
     | none => cmpNat ((k1.map csize).sum) ((k2.map csize).sum)) = lexCmp k1 k2 := by
  induction k1 generalizing k2 with
  | nil =>
    cases k2 with
    | nil => simp [cmpKeysO, lexCmp, cmpNat]
    | cons b t =>
      have := p2 b (by simp)
      simp only [cmpKeysO, lexCmp, List.map_nil, List.sum_nil, List.map_cons, List.sum_cons]
      exact (cmpNat_lt_iff _ _).mpr (by omega)
  | cons a s ih =>
    cases k2 with
    | nil =>
      have := p1 a (by simp)
      simp only [cmpKeysO, lexCmp, List.map_nil, List.sum_nil, List.map_cons, List.sum_cons]
      have h := cmpNat_swap (csize a + (s.map csize).sum) 0
      have : cmpNat 0 (csize a + (s.map csize).sum) = .lt := (cmpNat_lt_iff _ _).mpr (by omega)
      rw [cmpNat_swap 0 _, this]; rfl
    | cons b t =>
      simp only [cmpKeysO, lexCmp]
      by_cases h : cmpChunk a b = .eq
      · have hab := (cmpChunk_eq_iff a b).mp h
        subst hab
        simp only [h, bne_self_eq_false, Bool.false_eq_true, if_false, Ordering.then, List.map_cons, List.sum_cons,
          cmpNat_add_left]
        exact ih t (fun c hc => p1 c (by simp [hc])) (fun c hc => p2 c (by simp [hc]))
      · have : (cmpChunk a b != .eq) = true := by simpa using h
        simp only [this, if_true]
        cases hc : cmpChunk a b <;> simp_all [Ordering.then]

theorem ncmp_lex (a b : List Nat) (ci : Bool) :
    ncmp a b ci = (lexCmp (key ci a) (key ci b)).then (if ci then lexCmp (key false a) (key false b) else .eq) := by
  have L := fun c => lex_of_O (key c a) (key c b) (key_pos c a) (key_pos c b)
  simp only [key_size] at L
  unfold ncmp
  rw [loop_eq ci a b, loop_eq false a b]
  have L1 := L ci
  have L2 := L false
  cases h1 : cmpKeysO (key ci a) (key ci b) with
  | some r =>
    rw [h1] at L1; simp only at L1
    have : r ≠ .eq := fun h => cmpKeysO_ne_eq _ _ (h ▸ h1)
    rw [← L1]; cases r <;> simp_all [Ordering.then]
  | none =>
    rw [h1] at L1; simp only at L1
    rw [← L1]
    by_cases hl : a.length = b.length
    · rw [if_pos hl, hl, (cmpNat_eq_iff _ _).mpr rfl]
      simp only [Ordering.then]
      cases ci with
      | false => simp
      | true =>
        simp only [if_true]
        cases h2 : cmpKeysO (key false a) (key false b) with
        | some r => rw [h2] at L2; simpa using L2
        | none => rw [h2] at L2; simp only at L2; rw [← L2, hl]; simp [(cmpNat_eq_iff _ _).mpr rfl]
    · rw [if_neg hl]
      have : cmpNat a.length b.length ≠ .eq := fun h => hl ((cmpNat_eq_iff _ _).mp h)
      cases hc : cmpNat a.length b.length <;> simp_all [Ordering.then]


theorem cmpNat_lt_trans {a b c : Nat} (h1 : cmpNat a b = .lt) (h2 : cmpNat b c = .lt) : cmpNat a c = .lt := by
  rw [cmpNat_lt_iff] at *; omega

theorem cmpBytes_lt_trans : ∀ (a b c : List Nat), cmpBytes a b = .lt → cmpBytes b c = .lt → cmpBytes a c = .lt
  | [], [], _, h1, _ => by simp [cmpBytes] at h1
  | [], _ :: _, [], _, h2 => by simp [cmpBytes] at h2
  | [], _ :: _, _ :: _, _, _ => by simp [cmpBytes]
  | _ :: _, [], _, h1, _ => by simp [cmpBytes] at h1
  | _ :: _, _ :: _, [], _, h2 => by simp [cmpBytes] at h2
  | x :: s, y :: t, z :: u, h1, h2 => by
    simp only [cmpBytes] at *
    by_cases hxy : x < y
    · by_cases hyz : y < z
      · have : x < z := by omega
        simp [this]
      · by_cases hzy : z < y
        · simp [hyz, hzy] at h2
        · have : y = z := by omega
          subst this; simp [hxy]
    · by_cases hyx : y < x
      · simp [hxy, hyx] at h1
      · have hxy' : x = y := by omega
        subst hxy'
        simp only [hxy, if_false] at h1
        by_cases hyz : x < z
        · simp [hyz]
        · by_cases hzy : z < x
          · simp [hyz, hzy] at h2
          · simp only [hyz, hzy, if_false] at h2 ⊢
            exact cmpBytes_lt_trans s t u h1 h2

theorem cmpBytes_lt_ne {a b : List Nat} (h : cmpBytes a b = .lt) : a ≠ b := by
  intro e; subst e
  have := (cmpBytes_eq_iff a a).mpr rfl
  rw [this] at h; cases h

theorem num_lt_iff (n1 : List Nat) (z1 : Nat) (n2 : List Nat) (z2 : Nat) :
    cmpChunk (.num n1 z1) (.num n2 z2) = .lt ↔
      n1.length < n2.length ∨ (n1.length = n2.length ∧ (cmpBytes n1 n2 = .lt ∨ (n1 = n2 ∧ z1 < z2))) := by
  simp only [cmpChunk]
  by_cases hl : n1.length = n2.length
  · by_cases hn : n1 = n2
    · subst hn; simp [cmpNat_lt_iff, (cmpBytes_eq_iff n1 n1).mpr rfl]
    · simp [hl, hn]
  · simp [hl, cmpNat_lt_iff]

theorem cmpChunk_lt_trans (a b c : Chunk) (h1 : cmpChunk a b = .lt) (h2 : cmpChunk b c = .lt) : cmpChunk a c = .lt := by
  match a, b, c, h1, h2 with
  | .num _ _, .num _ _, .byte _, _, _ => rfl
  | .num _ _, .byte _, .byte _, _, _ => rfl
  | .num _ _, .byte _, .num _ _, _, h2 => simp [cmpChunk] at h2
  | .byte _, .num _ _, _, h1, _ => simp [cmpChunk] at h1
  | .byte _, .byte _, .num _ _, _, h2 => simp [cmpChunk] at h2
  | .byte x, .byte y, .byte z, h1, h2 => simp only [cmpChunk] at *; exact cmpNat_lt_trans h1 h2
  | .num n1 z1, .num n2 z2, .num n3 z3, h1, h2 =>
    have e1 := (num_lt_iff n1 z1 n2 z2).mp h1
    have e2 := (num_lt_iff n2 z2 n3 z3).mp h2
    apply (num_lt_iff n1 z1 n3 z3).mpr
    rcases e1 with e1 | ⟨l1, e1⟩
    · rcases e2 with e2 | ⟨l2, _⟩
      · exact Or.inl (by omega)
      · exact Or.inl (by omega)
    · rcases e2 with e2 | ⟨l2, e2⟩
      · exact Or.inl (by omega)
      · refine Or.inr ⟨by omega, ?_⟩
        rcases e1 with e1 | ⟨q1, w1⟩
        · rcases e2 with e2 | ⟨q2, _⟩
          · exact Or.inl (cmpBytes_lt_trans _ _ _ e1 e2)
          · subst q2; exact Or.inl e1
        · subst q1
          rcases e2 with e2 | ⟨q2, w2⟩
          · exact Or.inl e2
          · subst q2; exact Or.inr ⟨rfl, by omega⟩

theorem lexCmp_eq_iff (k1 k2 : List Chunk) : lexCmp k1 k2 = .eq ↔ k1 = k2 := by
  induction k1 generalizing k2 with
  | nil => cases k2 <;> simp [lexCmp]
  | cons a s ih =>
    cases k2 with
    | nil => simp [lexCmp]
    | cons b t =>
      simp only [lexCmp]
      cases h : cmpChunk a b with
      | eq =>
        have := (cmpChunk_eq_iff a b).mp h
        subst this; simp [Ordering.then, ih]
      | lt =>
        have : a ≠ b := fun e => by rw [(cmpChunk_eq_iff a b).mpr e] at h; cases h
        simp [Ordering.then, this]
      | gt =>
        have : a ≠ b := fun e => by rw [(cmpChunk_eq_iff a b).mpr e] at h; cases h
        simp [Ordering.then, this]

theorem lexCmp_lt_trans : ∀ (a b c : List Chunk), lexCmp a b = .lt → lexCmp b c = .lt → lexCmp a c = .lt
  | [], [], _, h1, _ => by simp [lexCmp] at h1
  | [], _ :: _, [], _, h2 => by simp [lexCmp] at h2
  | [], _ :: _, _ :: _, _, _ => by simp [lexCmp]
  | _ :: _, [], _, h1, _ => by simp [lexCmp] at h1
  | _ :: _, _ :: _, [], _, h2 => by simp [lexCmp] at h2
  | x :: s, y :: t, z :: u, h1, h2 => by
    simp only [lexCmp] at *
    cases hxy : cmpChunk x y with
    | gt => rw [hxy] at h1; simp [Ordering.then] at h1
    | lt =>
      cases hyz : cmpChunk y z with
      | gt => rw [hyz] at h2; simp [Ordering.then] at h2
      | lt => rw [cmpChunk_lt_trans x y z hxy hyz]; rfl
      | eq =>
        have := (cmpChunk_eq_iff y z).mp hyz
        subst this; rw [hxy]; rfl
    | eq =>
      have := (cmpChunk_eq_iff x y).mp hxy
      subst this
      rw [hxy] at h1; simp only [Ordering.then] at h1
      cases hyz : cmpChunk x z with
      | gt => rw [hyz] at h2; simp [Ordering.then] at h2
      | lt => rfl
      | eq =>
        rw [hyz] at h2; simp only [Ordering.then] at h2 ⊢
        exact lexCmp_lt_trans s t u h1 h2

/-- `≤` is transitive (stated as "not greater"), for both case modes -/
theorem ncmp_trans (a b c : List Nat) (ci : Bool)
    (h1 : ncmp a b ci ≠ .gt) (h2 : ncmp b c ci ≠ .gt) : ncmp a c ci ≠ .gt := by
  -- a ≤ b means lt or eq; eq means identical strings
  cases e1 : ncmp a b ci with
  | gt => exact absurd e1 h1
  | eq => have := (ncmp_eq_iff a b ci).mp e1; subst this; exact h2
  | lt =>
    cases e2 : ncmp b c ci with
    | gt => exact absurd e2 h2
    | eq => have := (ncmp_eq_iff b c ci).mp e2; subst this; rw [e1]; simp
    | lt =>
      -- strict case through the lexicographic characterisation
      rw [ncmp_lex] at e1 e2 ⊢
      cases f1 : lexCmp (key ci a) (key ci b) with
      | gt => rw [f1] at e1; simp [Ordering.then] at e1
      | lt =>
        cases f2 : lexCmp (key ci b) (key ci c) with
        | gt => rw [f2] at e2; simp [Ordering.then] at e2
        | lt => rw [lexCmp_lt_trans _ _ _ f1 f2]; simp [Ordering.then]
        | eq =>
          have := (lexCmp_eq_iff _ _).mp f2
          rw [← this, f1]; simp [Ordering.then]
      | eq =>
        have k12 := (lexCmp_eq_iff _ _).mp f1
        rw [f1] at e1; simp only [Ordering.then] at e1
        rw [k12]
        cases f2 : lexCmp (key ci b) (key ci c) with
        | gt => rw [f2] at e2; simp [Ordering.then] at e2
        | lt => simp [Ordering.then]
        | eq =>
          rw [f2] at e2; simp only [Ordering.then] at e2 ⊢
          cases ci with
          | false => simp at e1
          | true =>
            simp only [if_true] at e1 e2 ⊢
            rw [lexCmp_lt_trans _ _ _ e1 e2]; simp

/-! ## the remaining clauses: prefix, digit/non-digit, bytewise, numeric value -/

/-! ### dropZeros / takeDigits basics -/
theorem dropZeros_ne48 (c : Nat) (t : List Nat) (h : c ≠ 48) : dropZeros (c :: t) = (0, c :: t) := by
  unfold dropZeros; split
  · rename_i heq; simp at heq; exact absurd heq.1 h
  · rfl

theorem dropZeros_head (l : List Nat) : (dropZeros l).2.head? ≠ some 48 := by
  induction l with
  | nil => simp [dropZeros]
  | cons c t ih =>
    by_cases h : c = 48
    · subst h; simpa [dropZeros] using ih
    · rw [dropZeros_ne48 c t h]; simpa using h

theorem takeDigits_digits (l : List Nat) : ∀ c ∈ (takeDigits l).1, isDigit c = true := by
  induction l with
  | nil => simp [takeDigits]
  | cons c t ih =>
    simp only [takeDigits]; split
    · intro x hx
      simp at hx
      rcases hx with hx | hx
      · subst hx; assumption
      · exact ih x hx
    · simp

theorem takeDigits_head (l : List Nat) (h : l.head? ≠ some 48) : (takeDigits l).1.head? ≠ some 48 := by
  cases l with
  | nil => simp [takeDigits]
  | cons c t =>
    simp only [takeDigits]; split
    · simpa using h
    · simp

/-- the digit run of a key chunk consists of digits only … -/
theorem dg_digits (l : List Nat) : ∀ c ∈ dg l, isDigit c = true := takeDigits_digits _
/-- … and never starts with the byte `'0'` -/
theorem dg_head (l : List Nat) : (dg l).head? ≠ some 48 := takeDigits_head _ (dropZeros_head l)

/-! ### dropZeros / takeDigits on appends -/
theorem dropZeros_append (a s : List Nat) :
    dropZeros (a ++ s) =
      if (dropZeros a).2 = [] then ((dropZeros a).1 + (dropZeros s).1, (dropZeros s).2)
      else ((dropZeros a).1, (dropZeros a).2 ++ s) := by
  induction a with
  | nil => simp [dropZeros]
  | cons c t ih =>
    by_cases h : c = 48
    · subst h
      simp only [List.cons_append, dropZeros, ih]
      split <;> simp <;> omega
    · rw [List.cons_append, dropZeros_ne48 c (t ++ s) h, dropZeros_ne48 c t h]; simp

theorem takeDigits_append (a s : List Nat) :
    takeDigits (a ++ s) =
      if (takeDigits a).2 = [] then ((takeDigits a).1 ++ (takeDigits s).1, (takeDigits s).2)
      else ((takeDigits a).1, (takeDigits a).2 ++ s) := by
  induction a with
  | nil => simp [takeDigits]
  | cons c t ih =>
    simp only [List.cons_append, takeDigits]
    by_cases h : isDigit c = true
    · simp only [h, if_true, ih]
      split <;> simp
    · simp [h]

/-! ### a proper prefix sorts first -/
theorem takeDigits_fst_nil (l : List Nat) (h : (takeDigits l).1 = []) : (takeDigits l).2 = l := by
  have := takeDigits_recon l
  rw [h] at this; simpa using this

/-- appending `s` to `a` either leaves the leading number chunk of `a` unchanged (and `s` goes to the rest) or makes
    the leading number chunk strictly larger -/
theorem chunk_append (a s : List Nat) :
    (zc (a ++ s) = zc a ∧ dg (a ++ s) = dg a ∧ rs (a ++ s) = rs a ++ s) ∨
      cmpChunk (.num (dg a) (zc a)) (.num (dg (a ++ s)) (zc (a ++ s))) = .lt := by
  unfold zc dg rs
  rw [dropZeros_append]
  by_cases h1 : (dropZeros a).2 = []
  · simp only [h1, if_true]
    by_cases h2 : (takeDigits (dropZeros s).2).1 = []
    · by_cases h3 : (dropZeros s).1 = 0
      · left
        have r := dropZeros_recon s
        rw [h3] at r
        simp only [List.replicate_zero, List.nil_append] at r
        rw [r] at h2 ⊢
        simp [h3, takeDigits, h2, takeDigits_fst_nil s h2]
      · right
        rw [num_lt_iff]
        right
        simp [takeDigits, h2]; omega
    · right
      rw [num_lt_iff]
      left
      simp [takeDigits]
      exact List.length_pos_iff.mpr h2
  · simp only [h1, if_false]
    rw [takeDigits_append]
    by_cases h2 : (takeDigits (dropZeros a).2).2 = []
    · simp only [h2, if_true]
      by_cases h3 : (takeDigits s).1 = []
      · left; simp [h3, takeDigits_fst_nil s h3]
      · right
        rw [num_lt_iff]
        left
        have := List.length_pos_iff.mpr h3
        simp; omega
    · left; simp [h2]

theorem key_ne_nil (ci : Bool) (s : List Nat) (h : s ≠ []) : key ci s ≠ [] := by
  cases s with
  | nil => exact absurd rfl h
  | cons c t => unfold key; split <;> simp

theorem key_prefix_lt (ci : Bool) (a s : List Nat) (hs : s ≠ []) : lexCmp (key ci a) (key ci (a ++ s)) = .lt := by
  fun_induction key ci a with
  | case1 =>
    have := key_ne_nil ci s hs
    simp only [List.nil_append]
    cases hk : key ci s with
    | nil => exact absurd hk this
    | cons _ _ => simp [lexCmp]
  | case2 c t h ih =>
    have e : key ci (c :: t ++ s) =
        Chunk.num (dg (c :: t ++ s)) (zc (c :: t ++ s)) :: key ci (rs (c :: t ++ s)) := by
      rw [List.cons_append, key]; simp [h]
    rw [e]
    simp only [lexCmp]
    rcases chunk_append (c :: t) s with ⟨e1, e2, e3⟩ | hlt
    · rw [e1, e2, e3, (cmpChunk_eq_iff _ _).mpr rfl]
      simpa [Ordering.then] using ih
    · rw [hlt]; rfl
  | case3 c t h ih =>
    have e : key ci (c :: t ++ s) = Chunk.byte (fold ci c) :: key ci (t ++ s) := by
      rw [List.cons_append, key]; simp [h]
    rw [e]
    simp only [lexCmp, (cmpChunk_eq_iff _ _).mpr rfl]
    simpa [Ordering.then] using ih

/-- a proper prefix sorts first, in both case modes -/
theorem ncmp_prefix (a s : List Nat) (ci : Bool) (hs : s ≠ []) : ncmp a (a ++ s) ci = .lt := by
  rw [ncmp_lex, key_prefix_lt ci a s hs]; rfl

/-! ### keys of concatenations; common prefixes -/
theorem rs_nil_digits (p : List Nat) (h : rs p = []) : ∀ c ∈ p, isDigit c = true := by
  intro c hc
  rw [← recon p, h] at hc
  simp only [List.append_nil, List.mem_append, List.mem_replicate] at hc
  rcases hc with ⟨_, hc⟩ | hc
  · subst hc; rfl
  · exact dg_digits p c hc

theorem rs_getLast (p : List Nat) (c : Nat) (h : (rs p).getLast? = some c) : p.getLast? = some c := by
  have r := recon p
  rw [← r, List.getLast?_append, h]; rfl

/-- if `a` does not end inside a digit run that `s` continues, appending `s` leaves the leading chunk of `a` alone -/
theorem chunk_append_sep (a s : List Nat)
    (h : rs a ≠ [] ∨ ∀ c, s.head? = some c → isDigit c = false) :
    zc (a ++ s) = zc a ∧ dg (a ++ s) = dg a ∧ rs (a ++ s) = rs a ++ s := by
  rcases h with h | h
  · unfold zc dg rs at *
    have h1 : (dropZeros a).2 ≠ [] := by
      intro e; rw [e] at h; simp [takeDigits] at h
    rw [dropZeros_append, if_neg h1]
    simp only
    rw [takeDigits_append, if_neg h]
    simp
  · cases s with
    | nil => simp
    | cons d u =>
      have hd : isDigit d = false := h d rfl
      have hd48 : d ≠ 48 := by intro e; subst e; simp [isDigit] at hd
      have t1 : takeDigits (d :: u) = ([], d :: u) := by simp [takeDigits, hd]
      unfold zc dg rs
      rw [dropZeros_append, dropZeros_ne48 d u hd48]
      by_cases h1 : (dropZeros a).2 = []
      · simp [h1, t1, takeDigits]
      · simp only [h1, if_false]
        rw [takeDigits_append, t1]
        split <;> simp_all

theorem key_append (ci : Bool) (p x : List Nat)
    (h : (∀ c, p.getLast? = some c → isDigit c = false) ∨ (∀ c, x.head? = some c → isDigit c = false)) :
    key ci (p ++ x) = key ci p ++ key ci x := by
  fun_induction key ci p with
  | case1 => simp
  | case2 c t hd ih =>
    have hc : rs (c :: t) ≠ [] ∨ ∀ c, x.head? = some c → isDigit c = false := by
      rcases h with h | h
      · left
        intro hnil
        have hall := rs_nil_digits (c :: t) hnil
        have hl : (c :: t).getLast? = some ((c :: t).getLast (by simp)) := List.getLast?_eq_some_getLast (by simp)
        have := h _ hl
        have := hall _ (List.getLast_mem (l := c :: t) (by simp))
        simp_all
      · exact Or.inr h
    obtain ⟨e1, e2, e3⟩ := chunk_append_sep (c :: t) x hc
    have e : key ci (c :: t ++ x) =
        Chunk.num (dg (c :: t ++ x)) (zc (c :: t ++ x)) :: key ci (rs (c :: t ++ x)) := by
      rw [List.cons_append, key]; simp [hd]
    rw [e, e1, e2, e3, ih (h.imp (fun h1 c' hl => h1 c' (rs_getLast _ _ hl)) id)]
    simp
  | case3 c t hd ih =>
    have e : key ci (c :: t ++ x) = Chunk.byte (fold ci c) :: key ci (t ++ x) := by
      rw [List.cons_append, key]; simp [hd]
    rw [e, ih (h.imp (fun h1 c' hl => h1 c' (by
      cases t with
      | nil => simp at hl
      | cons d u => simpa [List.getLast?_cons_cons] using hl)) id)]
    simp

theorem lexCmp_append_left (k x y : List Chunk) : lexCmp (k ++ x) (k ++ y) = lexCmp x y := by
  induction k with
  | nil => rfl
  | cons a k ih => simp [lexCmp, (cmpChunk_eq_iff a a).mpr rfl, Ordering.then, ih]

/-- a common prefix that does not end in a digit can be cancelled -/
theorem ncmp_common_prefix (p a b : List Nat) (ci : Bool) (h : ∀ c, p.getLast? = some c → isDigit c = false) :
    ncmp (p ++ a) (p ++ b) ci = ncmp a b ci := by
  simp only [ncmp_lex, key_append _ p _ (Or.inl h), lexCmp_append_left]

/-! ### digits sort before other bytes -/
theorem ncmp_digit_nondigit (c1 c2 : Nat) (s t : List Nat) (ci : Bool)
    (h1 : isDigit c1 = true) (h2 : isDigit c2 = false) : ncmp (c1 :: s) (c2 :: t) ci = .lt := by
  unfold ncmp ncmpLoop; simp [h1, h2]

/-! ### strings without digits compare bytewise -/
theorem key_nodigit (ci : Bool) (a : List Nat) (h : ∀ c ∈ a, isDigit c = false) :
    key ci a = a.map (fun c => Chunk.byte (fold ci c)) := by
  induction a with
  | nil => simp [key]
  | cons c t ih =>
    have hc : isDigit c = false := h c (by simp)
    rw [key]; simp [hc, ih (fun x hx => h x (by simp [hx]))]

theorem cmpBytes_cons (x y : Nat) (s t : List Nat) :
    cmpBytes (x :: s) (y :: t) = (cmpNat x y).then (cmpBytes s t) := by
  simp only [cmpBytes, cmpNat]
  by_cases h1 : x < y <;> by_cases h2 : x > y <;> simp [h1, h2, Ordering.then]

theorem lexCmp_bytes (a b : List Nat) : lexCmp (a.map Chunk.byte) (b.map Chunk.byte) = cmpBytes a b := by
  induction a generalizing b with
  | nil => cases b <;> simp [lexCmp, cmpBytes]
  | cons x s ih =>
    cases b with
    | nil => simp [lexCmp, cmpBytes]
    | cons y t => simp only [List.map_cons, lexCmp, cmpChunk, cmpBytes_cons, ih]

theorem ncmp_nodigit (a b : List Nat) (ci : Bool)
    (ha : ∀ c ∈ a, isDigit c = false) (hb : ∀ c ∈ b, isDigit c = false) :
    ncmp a b ci =
      (cmpBytes (a.map (fold ci)) (b.map (fold ci))).then (if ci then cmpBytes a b else .eq) := by
  have m : ∀ (c : Bool) (l : List Nat),
      l.map (fun x => Chunk.byte (fold c x)) = (l.map (fold c)).map Chunk.byte := by
    intro c l; simp
  rw [ncmp_lex, key_nodigit ci a ha, key_nodigit ci b hb, key_nodigit false a ha, key_nodigit false b hb]
  simp only [m, lexCmp_bytes]
  have f : ∀ l : List Nat, l.map (fold false) = l := by
    intro l; induction l with
    | nil => rfl
    | cons x l ih => simp [fold_false, ih]
  rw [f, f]

/-- `cmpBytes` is Lean's own lexicographic order on lists of bytes -/
theorem cmpBytes_lt_iff (a b : List Nat) : cmpBytes a b = .lt ↔ a < b := by
  induction a generalizing b with
  | nil => cases b <;> simp [cmpBytes]
  | cons x s ih =>
    cases b with
    | nil => simp [cmpBytes]
    | cons y t =>
      rw [List.cons_lt_cons_iff, ← ih]
      simp only [cmpBytes]
      by_cases h1 : x < y
      · simp [h1]
      · by_cases h2 : x > y
        · simp [h1, h2]; omega
        · have : x = y := by omega
          simp [this]

/-! ### digit runs compare by numeric value -/
/-- decimal value of a list of digit bytes (most significant first) -/
def val : List Nat → Nat
  | [] => 0
  | c :: t => (c - 48) * 10 ^ t.length + val t

/-- Horner form: appending a digit multiplies by ten and adds it -/
theorem val_snoc (l : List Nat) (c : Nat) : val (l ++ [c]) = val l * 10 + (c - 48) := by
  induction l with
  | nil => simp [val]
  | cons x l ih =>
    simp only [List.cons_append, val, ih, List.length_append, List.length_cons, List.length_nil, Nat.pow_succ,
      Nat.add_mul, Nat.mul_assoc]
    omega

theorem val_lt (l : List Nat) (h : ∀ c ∈ l, isDigit c = true) : val l < 10 ^ l.length := by
  induction l with
  | nil => simp [val]
  | cons c t ih =>
    have hc : c - 48 ≤ 9 := by
      have := h c (by simp); simp [isDigit] at this; omega
    have i := ih (fun x hx => h x (by simp [hx]))
    have m := Nat.mul_le_mul_right (10 ^ t.length) hc
    simp only [val, List.length_cons, Nat.pow_succ]
    omega

theorem val_ge (c : Nat) (t : List Nat) (hc : isDigit c = true) (h0 : c ≠ 48) : 10 ^ t.length ≤ val (c :: t) := by
  have h1 : 1 ≤ c - 48 := by simp [isDigit] at hc; omega
  have m := Nat.mul_le_mul_right (10 ^ t.length) h1
  simp only [val]; omega

theorem val_zeros (n : Nat) (l : List Nat) : val (List.replicate n 48 ++ l) = val l := by
  induction n with
  | zero => simp
  | succ n ih => simp [List.replicate_succ, val, ih]

/-- on digit strings of the same length, the bytewise comparison is the comparison of the values -/
theorem cmpBytes_val (a b : List Nat) (hl : a.length = b.length)
    (ha : ∀ c ∈ a, isDigit c = true) (hb : ∀ c ∈ b, isDigit c = true) :
    cmpBytes a b = cmpNat (val a) (val b) := by
  induction a generalizing b with
  | nil => cases b <;> simp_all [cmpBytes, cmpNat, val]
  | cons x s ih =>
    cases b with
    | nil => simp at hl
    | cons y t =>
      have hl' : s.length = t.length := by simpa using hl
      have hx := ha x (by simp)
      have hy := hb y (by simp)
      have hs := fun c hc => ha c (List.mem_cons_of_mem x hc)
      have ht := fun c hc => hb c (List.mem_cons_of_mem y hc)
      have ls := val_lt s hs
      have lt := val_lt t ht
      simp only [isDigit, Bool.and_eq_true, decide_eq_true_eq] at hx hy
      rw [hl'] at ls
      simp only [cmpBytes, val, hl']
      by_cases h1 : x < y
      · have m := Nat.mul_le_mul_right (10 ^ t.length) (show x - 48 + 1 ≤ y - 48 by omega)
        rw [Nat.add_mul] at m
        rw [if_pos h1]; symm; rw [cmpNat_lt_iff]; omega
      · by_cases h2 : x > y
        · have m := Nat.mul_le_mul_right (10 ^ t.length) (show y - 48 + 1 ≤ x - 48 by omega)
          rw [Nat.add_mul] at m
          rw [if_neg h1, if_pos h2]; symm
          rw [cmpNat_swap, (cmpNat_lt_iff _ _).mpr (by omega)]; rfl
        · have : x = y := by omega
          subst this
          rw [if_neg h1, if_neg h2, ih t hl' hs ht, cmpNat_add_left]

/-- two number chunks whose digit runs have no leading zero compare by VALUE first, whatever the lengths of the runs;
    equal values are ordered by the number of leading zeros, fewer first -/
theorem cmpChunk_num_val (n1 n2 : List Nat) (z1 z2 : Nat)
    (d1 : ∀ c ∈ n1, isDigit c = true) (d2 : ∀ c ∈ n2, isDigit c = true)
    (l1 : n1.head? ≠ some 48) (l2 : n2.head? ≠ some 48) :
    cmpChunk (.num n1 z1) (.num n2 z2) = (cmpNat (val n1) (val n2)).then (cmpNat z1 z2) := by
  -- a shorter run without leading zero has the smaller value
  have short : ∀ (a b : List Nat), (∀ c ∈ a, isDigit c = true) → (∀ c ∈ b, isDigit c = true) →
      b.head? ≠ some 48 → a.length < b.length → val a < val b := by
    intro a b da db lb hlt
    cases b with
    | nil => simp at hlt
    | cons y t =>
      have g := val_ge y t (db y (by simp)) (by simpa using lb)
      have u := val_lt a da
      have p : 10 ^ a.length ≤ 10 ^ t.length := Nat.pow_le_pow_right (by omega) (by simp at hlt; omega)
      omega
  simp only [cmpChunk]
  by_cases hl : n1.length = n2.length
  · by_cases hn : n1 = n2
    · subst hn; simp [(cmpNat_eq_iff _ _).mpr rfl, Ordering.then]
    · have hb : cmpBytes n1 n2 ≠ .eq := fun e => hn ((cmpBytes_eq_iff _ _).mp e)
      rw [cmpBytes_val n1 n2 hl d1 d2] at hb
      simp only [hl, bne_self_eq_false, Bool.false_eq_true, if_false, bne_iff_ne, ne_eq, hn, not_false_eq_true, if_true]
      rw [cmpBytes_val n1 n2 hl d1 d2]
      cases hc : cmpNat (val n1) (val n2) <;> simp_all [Ordering.then]
  · have hl' : (n1.length != n2.length) = true := by simpa using hl
    rw [if_pos hl']
    rcases Nat.lt_or_gt_of_ne hl with h | h
    · rw [(cmpNat_lt_iff _ _).mpr h, (cmpNat_lt_iff _ _).mpr (short n1 n2 d1 d2 l2 h)]; rfl
    · rw [cmpNat_swap, (cmpNat_lt_iff _ _).mpr h, cmpNat_swap (val n2) (val n1),
        (cmpNat_lt_iff _ _).mpr (short n2 n1 d2 d1 l1 h)]; rfl

/-! ### string-level forms of the numeric rule -/
theorem takeDigits_zeros (n : Nat) (l : List Nat) :
    takeDigits (List.replicate n 48 ++ l) = (List.replicate n 48 ++ (takeDigits l).1, (takeDigits l).2) := by
  induction n with
  | zero => simp
  | succ n ih => simp [List.replicate_succ, takeDigits, isDigit, ih]

/-- the maximal digit prefix of `l` is `zc l` zeros followed by `dg l`; what follows it is `rs l` -/
theorem takeDigits_eq (l : List Nat) : takeDigits l = (List.replicate (zc l) 48 ++ dg l, rs l) := by
  conv => lhs; rw [← dropZeros_recon l]
  rw [takeDigits_zeros]; rfl

/-- the value of the whole digit run (leading zeros included) is the value of its significant digits -/
theorem val_run (l : List Nat) : val (takeDigits l).1 = val (dg l) := by
  rw [takeDigits_eq, val_zeros]

theorem key_digit_cons (ci : Bool) (c : Nat) (t : List Nat) (h : isDigit c = true) :
    key ci (c :: t) = Chunk.num (dg (c :: t)) (zc (c :: t)) :: key ci (rs (c :: t)) := by
  rw [key]; simp [h]

/-- two strings that both start with a digit: the leading numbers are compared by value, then by number of
    leading zeros, and only then the remainders are compared -/
theorem ncmp_digit_head (c1 c2 : Nat) (t1 t2 : List Nat) (ci : Bool)
    (h1 : isDigit c1 = true) (h2 : isDigit c2 = true) :
    ncmp (c1 :: t1) (c2 :: t2) ci =
      ((cmpNat (val (takeDigits (c1 :: t1)).1) (val (takeDigits (c2 :: t2)).1)).then
        (cmpNat (zc (c1 :: t1)) (zc (c2 :: t2)))).then
        (ncmp (takeDigits (c1 :: t1)).2 (takeDigits (c2 :: t2)).2 ci) := by
  rw [val_run, val_run, takeDigits_eq, takeDigits_eq]
  simp only
  rw [← cmpChunk_num_val _ _ _ _ (dg_digits _) (dg_digits _) (dg_head _) (dg_head _)]
  simp only [ncmp_lex, key_digit_cons _ _ _ h1, key_digit_cons _ _ _ h2, lexCmp]
  cases cmpChunk (Chunk.num (dg (c1 :: t1)) (zc (c1 :: t1))) (Chunk.num (dg (c2 :: t2)) (zc (c2 :: t2))) <;>
    cases ci <;> simp [Ordering.then]

theorem takeDigits_all (l : List Nat) (h : ∀ c ∈ l, isDigit c = true) : takeDigits l = (l, []) := by
  induction l with
  | nil => simp [takeDigits]
  | cons c t ih =>
    simp [takeDigits, h c (by simp), ih (fun x hx => h x (by simp [hx]))]

theorem zc_pos_of_val_zero (b : List Nat) (hne : b ≠ []) (hb : ∀ c ∈ b, isDigit c = true) (hv : val b = 0) :
    0 < zc b := by
  have e := takeDigits_eq b
  rw [takeDigits_all b hb] at e
  injection e with e1 e2
  have hv' : val (dg b) = 0 := by rw [← val_zeros (zc b) (dg b), ← e1]; exact hv
  cases hd : dg b with
  | nil =>
    rw [hd] at e1
    cases hz : zc b with
    | zero => rw [hz] at e1; simp at e1; exact absurd e1 hne
    | succ n => omega
  | cons y t =>
    have g := val_ge y t (dg_digits b y (by simp [hd])) (by have := dg_head b; rw [hd] at this; simpa using this)
    have : 0 < 10 ^ t.length := Nat.pow_pos (by omega)
    rw [hd] at hv'; omega

theorem ncmp_nil_left (b : List Nat) (ci : Bool) (h : b ≠ []) : ncmp [] b ci = .lt := by
  simpa using ncmp_prefix [] b ci h

/-- whole strings that are digit runs: compare the values, then the numbers of leading zeros -/
theorem ncmp_digits (a b : List Nat) (ci : Bool)
    (ha : ∀ c ∈ a, isDigit c = true) (hb : ∀ c ∈ b, isDigit c = true) :
    ncmp a b ci = (cmpNat (val a) (val b)).then (cmpNat (zc a) (zc b)) := by
  have nilcase : ∀ (b : List Nat), b ≠ [] → (∀ c ∈ b, isDigit c = true) →
      (cmpNat (val []) (val b)).then (cmpNat (zc []) (zc b)) = .lt := by
    intro b hne hb
    by_cases hv : val b = 0
    · have := zc_pos_of_val_zero b hne hb hv
      rw [hv]
      simp only [val, (cmpNat_eq_iff _ _).mpr, Ordering.then]
      exact (cmpNat_lt_iff _ _).mpr (by simpa [zc, dropZeros] using this)
    · rw [(cmpNat_lt_iff _ _).mpr (by simp only [val]; omega)]; rfl
  cases a with
  | nil =>
    cases b with
    | nil => simp [ncmp, ncmpLoop, cmpNat, Ordering.then]
    | cons y t => rw [ncmp_nil_left _ _ (by simp), nilcase _ (by simp) hb]
  | cons x s =>
    cases b with
    | nil =>
      rw [ncmp_swap, ncmp_nil_left _ _ (by simp), cmpNat_swap, cmpNat_swap (zc _), ← Ordering.swap_then,
        nilcase _ (by simp) ha]
    | cons y t =>
      rw [ncmp_digit_head x y s t ci (ha x (by simp)) (hb y (by simp)), takeDigits_all _ ha, takeDigits_all _ hb]
      simp [ncmp, ncmpLoop, cmpNat]


/-- every number chunk of a key satisfies the hypotheses of `cmpChunk_num_val` -/
theorem key_num_wf (ci : Bool) (s : List Nat) :
    ∀ n z, Chunk.num n z ∈ key ci s → (∀ c ∈ n, isDigit c = true) ∧ n.head? ≠ some 48 := by
  fun_induction key ci s with
  | case1 => simp
  | case2 c t h ih =>
    intro n z hm
    simp only [List.mem_cons, Chunk.num.injEq] at hm
    rcases hm with ⟨e1, _⟩ | hm
    · subst e1; exact ⟨dg_digits _, dg_head _⟩
    · exact ih n z hm
  | case3 c t h ih =>
    intro n z hm
    simp only [List.mem_cons, reduceCtorEq, false_or] at hm
    exact ih n z hm

end NatSort
