import Lemmas.NotifierBatch
/-! C17: batch nesting when the notifier is disabled and re-enabled INSIDE a StartBatch/EndBatch pair.  `StartBatch` and
    `EndBatch` do nothing at all on a disabled notifier (no level change), so the pair structure is the one of the calls
    made while enabled; the matching end must itself be made while enabled.  (`Reset` inside a pair ends the batch
    without any `BatchMode(false)`: `Nt.reset_abandons_batch`.) -/
namespace Nt

/-- `mid` read for notifier `n` at relative depth `d` while `n`'s enabled flag is `e`: Start/End of `n` count only while
    `n` is enabled, `SetEnabled n b` switches the flag, `Reset n` is excluded; at the end every counted start is matched
    and `n` is enabled again -/
def matchedE (n : Nat) : Nat → Bool → List Op → Bool
  | d, e, [] => d == 0 && e
  | d, e, .startBatch i :: ops =>
    if i = n then (if e then matchedE n (d + 1) e ops else matchedE n d e ops) else matchedE n d e ops
  | d, e, .endBatch i :: ops =>
    if i = n then (if e then (decide (0 < d) && matchedE n (d - 1) e ops) else matchedE n d e ops) else matchedE n d e ops
  | d, e, .reset i :: ops => decide (i ≠ n) && matchedE n d e ops
  | d, e, .setEnabled i b :: ops => if i = n then matchedE n d b ops else matchedE n d e ops
  | d, e, _ :: ops => matchedE n d e ops

/-- the restricted notion is the special case without `SetEnabled` of `n` -/
theorem matchedE_of_matched (n : Nat) (mid : List Op) (d : Nat) (h : matched n d mid = true) :
    matchedE n d true mid = true := by
  induction mid generalizing d with
  | nil => simpa [matched, matchedE] using h
  | cons op ops ih =>
    cases op with
    | startBatch i =>
      simp only [matched, matchedE, if_true] at h ⊢
      split at h
      · rename_i hi; simp only [hi, if_true]; exact ih _ h
      · rename_i hi; simp only [hi, if_false]; exact ih _ h
    | endBatch i =>
      simp only [matched, matchedE, if_true] at h ⊢
      split at h
      · rename_i hi
        simp only [hi, if_true, Bool.and_eq_true, decide_eq_true_eq] at h ⊢
        exact ⟨h.1, ih _ h.2⟩
      · rename_i hi; simp only [hi, if_false]; exact ih _ h
    | reset i =>
      simp only [matched, matchedE, Bool.and_eq_true, decide_eq_true_eq] at h ⊢
      exact ⟨h.1, ih _ h.2⟩
    | setEnabled i b =>
      simp only [matched, matchedE, Bool.and_eq_true, decide_eq_true_eq] at h ⊢
      simp only [h.1, if_false]
      exact ih _ h.2
    | register i t p raws => simp only [matched, matchedE] at h ⊢; exact ih _ h
    | unregister i t => simp only [matched, matchedE] at h ⊢; exact ih _ h
    | merge i m => simp only [matched, matchedE] at h ⊢; exact ih _ h
    | notify i raw => simp only [matched, matchedE] at h ⊢; exact ih _ h

theorem nest_innerE (pan : Nat → Bool) (n : Nat) (mid : List Op) (w : World) (d : Nat) (e : Bool) (c : List Nat)
    (he : (w n).enabled = e) (hl : (w n).level = d + 1) (hc : (w n).current = c) (hm : matchedE n d e mid = true) :
    ((runFrom pan w mid).1 n).enabled = true ∧ ((runFrom pan w mid).1 n).level = 1 ∧
    ((runFrom pan w mid).1 n).current = c ∧ NoBatchEvents n (runFrom pan w mid).2 := by
  induction mid generalizing w d e with
  | nil =>
    simp only [matchedE, Bool.and_eq_true, beq_iff_eq] at hm
    obtain ⟨hd, hen⟩ := hm
    subst hd; subst hen
    exact ⟨he, hl, hc, by intro e h; cases h⟩
  | cons op ops ih =>
    simp only [runFrom]
    rw [step_spec]
    have keep : ∀ (w' : World) (evs : List Event), Frame (w n) (w' n) → NoBatchEvents n evs → matchedE n d e ops = true →
        ((runFrom pan w' ops).1 n).enabled = true ∧ ((runFrom pan w' ops).1 n).level = 1 ∧
        ((runFrom pan w' ops).1 n).current = c ∧ NoBatchEvents n (evs ++ (runFrom pan w' ops).2) := by
      intro w' evs hf hn hm'
      obtain ⟨a, b, c', e'⟩ := ih w' d e (by rw [hf.1]; exact he) (by rw [hf.2.1]; exact hl) (by rw [hf.2.2]; exact hc) hm'
      exact ⟨a, b, c', noBatch_append n _ _ hn e'⟩
    have nil_ok : NoBatchEvents n [] := by intro e h; cases h
    have frame_set : ∀ (i : Nat) (s : NSt), (i = n → Frame (w n) s) → Frame (w n) ((w.set i s) n) := by
      intro i s hs
      unfold World.set
      split
      · rename_i h; exact hs h.symm
      · exact ⟨rfl, rfl, rfl⟩
    cases op with
    | register i t p raws =>
      exact keep _ _ (frame_set i _ (fun e => e ▸ frame_register _ _ _ _)) nil_ok (by simpa [matchedE] using hm)
    | unregister i t =>
      exact keep _ _ (frame_set i _ (fun e => e ▸ frame_unregister _ _)) nil_ok (by simpa [matchedE] using hm)
    | merge i m =>
      simp only [stepSpec]
      split
      · exact keep _ _ ⟨rfl, rfl, rfl⟩ nil_ok (by simpa [matchedE] using hm)
      · exact keep _ _ (frame_set i _ (fun e => e ▸ frame_mergeFrom _ _)) nil_ok (by simpa [matchedE] using hm)
    | notify i raw =>
      exact keep _ _ ⟨rfl, rfl, rfl⟩ (noBatch_deliverAll _ _ _ _ _) (by simpa [matchedE] using hm)
    | reset i =>
      simp only [matchedE, Bool.and_eq_true, decide_eq_true_eq] at hm
      exact keep _ _ (frame_set i _ (fun e => absurd e hm.1)) nil_ok hm.2
    | setEnabled i b =>
      simp only [matchedE] at hm
      by_cases hi : i = n
      · subst hi
        simp only [if_true] at hm
        have := ih (w.set i (setEnabled (w i) b)) d b (by simp [World.set, setEnabled]) (by simp [World.set, setEnabled, hl])
          (by simp [World.set, setEnabled, hc]) hm
        simpa [stepSpec] using this
      · simp only [hi, if_false] at hm
        exact keep _ _ (frame_set i _ (fun e => absurd e hi)) nil_ok hm
    | startBatch i =>
      simp only [matchedE] at hm
      by_cases hi : i = n
      · subst hi
        simp only [if_true] at hm
        cases e with
        | true =>
          simp only [if_true] at hm
          have hs : startBatch (w i) = ({ (w i) with level := d + 2 }, []) := by
            unfold startBatch; simp [he, hl]
          simp only [stepSpec, hs]
          have := ih (w.set i { (w i) with level := d + 2 }) (d + 1) true (by simp [World.set, he]) (by simp [World.set])
            (by simp [World.set, hc]) hm
          simpa [batchAll] using this
        | false =>
          simp only [Bool.false_eq_true, if_false] at hm
          have hs : startBatch (w i) = (w i, []) := by unfold startBatch; simp [he]
          simp only [stepSpec, hs]
          have := keep (w.set i (w i)) [] (frame_set i _ (fun _ => ⟨rfl, rfl, rfl⟩)) nil_ok hm
          simpa [batchAll] using this
      · simp only [hi, if_false] at hm
        exact keep _ _ (frame_set i _ (fun e => absurd e hi)) (noBatch_batchAll_other _ _ _ hi _ _) hm
    | endBatch i =>
      simp only [matchedE] at hm
      by_cases hi : i = n
      · subst hi
        simp only [if_true] at hm
        cases e with
        | true =>
          simp only [if_true, Bool.and_eq_true, decide_eq_true_eq] at hm
          obtain ⟨hd, hm⟩ := hm
          have hs : endBatch (w i) = ({ (w i) with level := d }, []) := by
            unfold endBatch
            have : ¬ d = 0 := by omega
            simp [he, hl, this]
          simp only [stepSpec, hs]
          have := ih (w.set i { (w i) with level := d }) (d - 1) true (by simp [World.set, he]) (by simp [World.set]; omega)
            (by simp [World.set, hc]) hm
          simpa [batchAll] using this
        | false =>
          simp only [Bool.false_eq_true, if_false] at hm
          have hs : endBatch (w i) = (w i, []) := by unfold endBatch; simp [he]
          simp only [stepSpec, hs]
          have := keep (w.set i (w i)) [] (frame_set i _ (fun _ => ⟨rfl, rfl, rfl⟩)) nil_ok hm
          simpa [batchAll] using this
      · simp only [hi, if_false] at hm
        exact keep _ _ (frame_set i _ (fun e => absurd e hi)) (noBatch_batchAll_other _ _ _ hi _ _) hm

/-- **nesting with disabled stretches**: like `nest_outer`, for every `mid` that is well nested in the sense of
    `matchedE` (the notifier may be disabled and re-enabled inside the pair; what is called while it is disabled does
    not count) -/
theorem nest_outerE (pan : Nat → Bool) (w : World) (hw : WInv w) (n : Nat) (mid : List Op)
    (he : (w n).enabled = true) (hl : (w n).level = 0) (hm : matchedE n 0 true mid = true) :
    (step pan w (.startBatch n)).2 = batchAll pan n true (w n).batch ∧
    NoBatchEvents n (runFrom pan (step pan w (.startBatch n)).1 mid).2 ∧
    (step pan (runFrom pan (step pan w (.startBatch n)).1 mid).1 (.endBatch n)).2 = batchAll pan n false (w n).batch ∧
    ((step pan (runFrom pan (step pan w (.startBatch n)).1 mid).1 (.endBatch n)).1 n).level = 0 := by
  have hidle := (hw n).idle hl
  have hs : (startBatch (w n)).2 = (w n).batch ∧ (startBatch (w n)).1.enabled = true ∧
      (startBatch (w n)).1.level = 1 ∧ (startBatch (w n)).1.current = (w n).batch := by
    unfold startBatch
    by_cases hb : (w n).batch = []
    · simp [he, hl, hb, hidle]
    · simp [he, hl, hb]
  obtain ⟨s1, s2, s3, s4⟩ := hs
  have hin := nest_innerE pan n mid ((w.set n (startBatch (w n)).1)) 0 true (w n).batch
    (by simp [World.set, s2]) (by simp [World.set, s3]) (by simp [World.set, s4]) hm
  obtain ⟨i1, i2, i3, i4⟩ := hin
  simp only [step_spec]
  refine ⟨by simp [stepSpec, s1], by simpa [stepSpec] using i4, ?_, ?_⟩
  · simp only [stepSpec] at i1 i2 i3 ⊢
    have : (endBatch ((runFrom pan (w.set n (startBatch (w n)).1) mid).1 n)).2 = (w n).batch := by
      unfold endBatch; simp [i1, i2, i3]
    rw [this]
  · simp only [stepSpec] at i1 i2 i3 ⊢
    unfold endBatch; simp [i1, i2, World.set]

theorem endBatch_enabled (s : NSt) : (endBatch s).1.enabled = s.enabled := by
  unfold endBatch
  split
  · simp only; split <;> rfl
  · rfl

/-- after the matching end the notifier is enabled (the pair was closed while enabled) -/
theorem nest_outerE_enabled (pan : Nat → Bool) (w : World) (n : Nat) (mid : List Op)
    (he : (w n).enabled = true) (hl : (w n).level = 0) (hm : matchedE n 0 true mid = true) :
    ((step pan (runFrom pan (step pan w (.startBatch n)).1 mid).1 (.endBatch n)).1 n).enabled = true := by
  have hs : (startBatch (w n)).1.enabled = true ∧ (startBatch (w n)).1.level = 1 := by
    unfold startBatch
    by_cases hb : (w n).batch = []
    · simp [he, hl, hb]
    · simp [he, hl, hb]
  have hin := nest_innerE pan n mid ((w.set n (startBatch (w n)).1)) 0 true _
    (by simp [World.set, hs.1]) (by simp [World.set, hs.2]) rfl hm
  simp only [step_spec, stepSpec, World.set, if_true] at hin ⊢
  rw [endBatch_enabled]
  exact hin.1

/-- `Reset` in the middle of a batch abandons it: level 0, no current batch, so the `EndBatch` that was meant to match
    the outer `StartBatch` is an unmatched one and calls nobody — the targets that got `BatchMode(true)` never get
    `BatchMode(false)` for that batch; and the same for an `EndBatch` made while the notifier is disabled, which does not
    even lower the level -/
theorem reset_abandons_batch (s : NSt) :
    endBatch (reset s) = (reset s, []) ∧ (reset s).level = 0 ∧ (reset s).current = [] ∧
    endBatch (setEnabled s false) = (setEnabled s false, []) ∧ startBatch (setEnabled s false) = (setEnabled s false, []) := by
  refine ⟨by simp [endBatch, reset], rfl, rfl, by simp [endBatch, setEnabled], by simp [startBatch, setEnabled]⟩

end Nt
