import Lemmas.SafeFileKinds
/-! C14: `WriteFileWithMode` against the kernel with node kinds (lemmas for `Props/C14KindsWF.lean`). -/
namespace Safe

theorem runK_map_append (u : Nat) (fs : KFS) (a b : List Act) :
    runK u fs ((a ++ b).map Act2.base) = runK u (runK u fs (a.map Act2.base)) (b.map Act2.base) := by
  rw [List.map_append, runK_append]

/-- the temporary file after the chunks have been written -/
theorem tmp_contentK (u : Nat) (tmp : Path) (cs : List Bytes) :
    ∀ (fs : KFS) (d : FileData), fs tmp = some (.file d) →
      runK u fs ((cs.map (Act.write tmp)).map Act2.base) tmp = some (.file ⟨d.content ++ cs.flatten, d.mode⟩) := by
  induction cs with
  | nil => intro fs d h; simp [runK, h]
  | cons c cs ih =>
    intro fs d h
    simp only [List.map_cons, runK, applyActK, h]
    rw [ih _ ⟨d.content ++ c, d.mode⟩ (by simp [KFS.set])]
    simp [List.append_assoc]

theorem onlyWrites_targets2 (tmp q : Path) (hq : q ≠ tmp) (l : List Act) (h : OnlyWrites tmp l) :
    ∀ a ∈ l.map Act2.base, q ∉ targets2 a := by
  intro a ha
  obtain ⟨x, hx, rfl⟩ := List.mem_map.mp ha
  exact onlyWrites_targets tmp q hq l h x hx

end Safe
