import Lemmas.RBInv
set_option linter.unusedSimpArgs false
set_option linter.unusedVariables false
/-! C06 helper lemmas, part 2: the in-order sequence.  Insertion is stable insertion, removal erases the first
    equal entry, `find`/`first`/`last`/traversals are the list operations on the in-order sequence.  Core tactics only. -/
namespace RB

/-- hypothesis on the user's compare function: a total preorder (distinguishable keys may compare equal) -/
structure TotalPreorder {K : Type} (cmp : K → K → Ordering) : Prop where
  /-- swapping the arguments swaps the answer -/
  swap : ∀ a b, cmp b a = (cmp a b).swap
  /-- `≤` (= "not greater") is transitive -/
  trans : ∀ a b c, cmp a b ≠ .gt → cmp b c ≠ .gt → cmp a c ≠ .gt

namespace TotalPreorder
variable {K : Type} {cmp : K → K → Ordering}

theorem refl (h : TotalPreorder cmp) (a : K) : cmp a a = .eq := by
  have := h.swap a a
  cases hc : cmp a a <;> simp_all [Ordering.swap]

theorem gt_iff (h : TotalPreorder cmp) (a b : K) : cmp a b = .gt ↔ cmp b a = .lt := by
  rw [h.swap a b]; cases cmp a b <;> simp [Ordering.swap]

theorem lt_iff (h : TotalPreorder cmp) (a b : K) : cmp a b = .lt ↔ cmp b a = .gt := by
  rw [h.swap a b]; cases cmp a b <;> simp [Ordering.swap]

theorem eq_iff (h : TotalPreorder cmp) (a b : K) : cmp a b = .eq ↔ cmp b a = .eq := by
  rw [h.swap a b]; cases cmp a b <;> simp [Ordering.swap]

/-- key < k ≤ e → key < e -/
theorem lt_of_lt_of_le (h : TotalPreorder cmp) {a b c : K} (h1 : cmp a b = .lt) (h2 : cmp b c ≠ .gt) :
    cmp a c = .lt := by
  have hac : cmp a c ≠ .gt := h.trans a b c (by rw [h1]; simp) h2
  cases hc : cmp a c with
  | lt => rfl
  | gt => exact absurd hc hac
  | eq =>
    exfalso
    have hca : cmp c a ≠ .gt := by rw [(h.eq_iff a c).mp hc]; simp
    have hba := h.trans b c a h2 hca
    exact hba ((h.lt_iff a b).mp h1)

/-- a ≤ b < c → a < c -/
theorem lt_of_le_of_lt (h : TotalPreorder cmp) {a b c : K} (h1 : cmp a b ≠ .gt) (h2 : cmp b c = .lt) :
    cmp a c = .lt := by
  have hac : cmp a c ≠ .gt := h.trans a b c h1 (by rw [h2]; simp)
  cases hc : cmp a c with
  | lt => rfl
  | gt => exact absurd hc hac
  | eq =>
    exfalso
    have hca : cmp c a ≠ .gt := by rw [(h.eq_iff a c).mp hc]; simp
    have hcb := h.trans c a b hca h1
    exact hcb ((h.lt_iff b c).mp h2)

/-- e ≤ k < key → key > e -/
theorem gt_of_gt_of_ge (h : TotalPreorder cmp) {key k e : K} (h1 : cmp key k = .gt) (h2 : cmp e k ≠ .gt) :
    cmp key e = .gt := by
  have := h.lt_of_le_of_lt h2 ((h.gt_iff key k).mp h1)
  exact (h.gt_iff key e).mpr this

/-- e ≤ k ≤ key → ¬ key < e -/
theorem not_lt_of_ge_of_ge (h : TotalPreorder cmp) {key k e : K} (h1 : cmp key k ≠ .lt) (h2 : cmp e k ≠ .gt) :
    cmp key e ≠ .lt := by
  have hk : cmp k key ≠ .gt := fun hc => h1 ((h.gt_iff k key).mp hc)
  have := h.trans e k key h2 hk
  intro hc
  exact this ((h.lt_iff key e).mp hc)

end TotalPreorder

namespace T
variable {K V σ : Type}

/-- search-tree order, stated on the in-order sequence (duplicates may sit on both sides of a node) -/
def Sorted (cmp : K → K → Ordering) (t : T K V) : Prop :=
  (inorder t).Pairwise (fun a b => cmp a.1 b.1 ≠ .gt)

theorem Sorted.nil {cmp : K → K → Ordering} : Sorted cmp (nil : T K V) := by simp [Sorted, inorder]

theorem Sorted.node {cmp : K → K → Ordering} {c : Color} {l : T K V} {k : K} {v : V} {r : T K V}
    (h : Sorted cmp (node c l k v r)) :
    Sorted cmp l ∧ Sorted cmp r ∧ (∀ e ∈ inorder l, cmp e.1 k ≠ .gt) ∧ (∀ e ∈ inorder r, cmp k e.1 ≠ .gt) := by
  unfold Sorted at h ⊢
  simp only [inorder, List.pairwise_append, List.pairwise_cons] at h
  obtain ⟨h1, ⟨h2, h3⟩, h4⟩ := h
  refine ⟨h1, h3, ?_, h2⟩
  intro e he
  exact h4 e he (k, v) (by simp)

/-! ### structural facts -/

theorem inorder_setBlack (t : T K V) : inorder t.setBlack = inorder t := by cases t <;> rfl
theorem inorder_rotL (t : T K V) : inorder (rotL t) = inorder t := by
  rcases t with _ | ⟨c, l, k, v, r⟩
  · rfl
  · rcases r with _ | ⟨rc, rl, rk, rv, rr⟩ <;> simp [rotL, inorder, List.append_assoc]
theorem inorder_rotR (t : T K V) : inorder (rotR t) = inorder t := by
  rcases t with _ | ⟨c, l, k, v, r⟩
  · rfl
  · rcases l with _ | ⟨lc, ll, lk, lv, lr⟩ <;> simp [rotR, inorder, List.append_assoc]

theorem size_eq_length (t : T K V) : size t = (inorder t).length := by
  induction t with
  | nil => rfl
  | node c l k v r ihl ihr => simp [size, inorder, ihl, ihr]; omega

theorem inorder_fixViol (x : T K V) (s s' : Side) : inorder (fixViol x s s').1 = inorder x := by
  rcases x with _ | ⟨c, l, k, v, r⟩
  · rfl
  · cases s <;> simp only [fixViol] <;> split <;>
      simp [inorder, inorder_setBlack, inorder_rotL, inorder_rotR] <;>
      (try (split <;> simp [inorder_rotL, inorder_rotR]))

theorem inorder_afterChild (c : Color) (l : T K V) (k : K) (v : V) (r : T K V) (s : Side) (st : St) :
    inorder (afterChild c l k v r s st).1 = inorder l ++ (k, v) :: inorder r := by
  cases st with
  | ok => rfl
  | fresh => simp only [afterChild]; split <;> rfl
  | viol s' => simp only [afterChild]; rw [inorder_fixViol]; rfl

/-! ### list facts -/

theorem takeWhile_append_stop {α : Type} (p : α → Bool) (L : List α) (x : α) (R : List α) (hx : p x = false) :
    (L ++ x :: R).takeWhile p = L.takeWhile p ∧ (L ++ x :: R).dropWhile p = L.dropWhile p ++ x :: R := by
  induction L with
  | nil => simp [List.takeWhile, List.dropWhile, hx]
  | cons a L ih =>
    by_cases ha : p a = true
    · simp [List.takeWhile, List.dropWhile, ha, ih.1, ih.2]
    · have ha' : p a = false := by simpa using ha
      simp [List.takeWhile, List.dropWhile, ha']

theorem eraseP_append_keep {α : Type} (p : α → Bool) (L M : List α)
    (h : (∀ e ∈ M, ¬ p e = true) ∨ (∃ e ∈ L, p e = true)) :
    (L ++ M).eraseP p = L.eraseP p ++ M := by
  rcases h with h | ⟨e, he, hp⟩
  · by_cases hL : ∃ e ∈ L, p e = true
    · obtain ⟨e, he, hp⟩ := hL
      exact List.eraseP_append_left hp M he
    · have hL' : ∀ b ∈ L, ¬ p b = true := fun b hb hpb => hL ⟨b, hb, hpb⟩
      rw [List.eraseP_append_right M hL', List.eraseP_of_forall_not h, List.eraseP_of_forall_not hL']
  · exact List.eraseP_append_left hp M he

/-! ### insertion is stable insertion -/

theorem ins_inorder {cmp : K → K → Ordering} (hc : TotalPreorder cmp) (t : T K V) (key : K) (val : V)
    (hs : Sorted cmp t) : inorder (ins cmp t key val).1 = Spec.insert cmp (inorder t) key val := by
  induction t with
  | nil => simp [ins, inorder, Spec.insert]
  | node c l k v r ihl ihr =>
    obtain ⟨hsl, hsr, hl, hr⟩ := hs.node
    unfold ins
    split
    · rename_i hlt
      have ih := ihl hsl
      generalize ins cmp l key val = p at ih ⊢
      obtain ⟨l', st⟩ := p
      simp only [inorder_afterChild]
      simp only at ih
      have hx : (fun e : K × V => cmp key e.1 != .lt) (k, v) = false := by simp [hlt]
      obtain ⟨e1, e2⟩ := takeWhile_append_stop (fun e : K × V => cmp key e.1 != .lt) (inorder l) (k, v) (inorder r) hx
      simp only [inorder, Spec.insert, e1, e2, ih]
      simp [Spec.insert, List.append_assoc]
    · rename_i hge
      have ih := ihr hsr
      generalize ins cmp r key val = p at ih ⊢
      obtain ⟨r', st⟩ := p
      simp only [inorder_afterChild]
      simp only at ih
      have hall : ∀ a ∈ inorder l ++ [(k, v)], (fun e : K × V => cmp key e.1 != .lt) a = true := by
        intro a ha
        simp only [List.mem_append, List.mem_singleton] at ha
        rcases ha with ha | rfl
        · have := hc.not_lt_of_ge_of_ge hge (hl a ha)
          simpa using this
        · simpa using hge
      have e0 : inorder (node c l k v r) = (inorder l ++ [(k, v)]) ++ inorder r := by simp [inorder]
      rw [e0, ih]
      simp only [Spec.insert, List.takeWhile_append_of_pos hall, List.dropWhile_append_of_pos hall]
      simp [List.append_assoc]

theorem insert_inorder {cmp : K → K → Ordering} (hc : TotalPreorder cmp) (t : T K V) (key : K) (val : V)
    (hs : Sorted cmp t) : inorder (insert cmp t key val) = Spec.insert cmp (inorder t) key val := by
  unfold insert; rw [inorder_setBlack]; exact ins_inorder hc t key val hs

/-- the result of a stable insertion into a sorted list is sorted -/
theorem spec_insert_sorted {cmp : K → K → Ordering} (hc : TotalPreorder cmp) (l : List (K × V)) (k : K) (v : V)
    (hs : l.Pairwise (fun a b => cmp a.1 b.1 ≠ .gt)) :
    (Spec.insert cmp l k v).Pairwise (fun a b => cmp a.1 b.1 ≠ .gt) := by
  induction l with
  | nil => simp [Spec.insert]
  | cons a l ih =>
    rw [List.pairwise_cons] at hs
    obtain ⟨ha, hl⟩ := hs
    have ih := ih hl
    by_cases hp : cmp k a.1 = .lt
    · -- the new entry goes in front: k < a ≤ everything
      have : Spec.insert cmp (a :: l) k v = (k, v) :: a :: l := by
        simp [Spec.insert, List.takeWhile_cons, List.dropWhile_cons, hp]
      rw [this, List.pairwise_cons, List.pairwise_cons]
      refine ⟨?_, ha, hl⟩
      intro b hb
      simp only [List.mem_cons] at hb
      rcases hb with rfl | hb
      · simp [hp]
      · have := hc.lt_of_lt_of_le hp (ha b hb)
        simp [this]
    · have e : Spec.insert cmp (a :: l) k v = a :: Spec.insert cmp l k v := by
        simp [Spec.insert, List.takeWhile_cons, List.dropWhile_cons, hp]
      rw [e, List.pairwise_cons]
      refine ⟨?_, ih⟩
      intro b hb
      have hb' : b = (k, v) ∨ b ∈ l := by
        simp only [Spec.insert, List.mem_append, List.mem_cons] at hb
        rcases hb with hb | rfl | hb
        · exact Or.inr ((List.takeWhile_sublist _).subset hb)
        · exact Or.inl rfl
        · exact Or.inr ((List.dropWhile_sublist _).subset hb)
      rcases hb' with rfl | hb'
      · intro hgt
        exact hp ((hc.gt_iff a.1 k).mp hgt)
      · exact ha b hb'

theorem insert_sorted {cmp : K → K → Ordering} (hc : TotalPreorder cmp) (t : T K V) (key : K) (val : V)
    (hs : Sorted cmp t) : Sorted cmp (insert cmp t key val) := by
  unfold Sorted
  rw [insert_inorder hc t key val hs]
  exact spec_insert_sorted hc _ _ _ hs

/-! ### find is `List.find?` on the in-order sequence -/

theorem find_eq {cmp : K → K → Ordering} (hc : TotalPreorder cmp) (t : T K V) (key : K) (hs : Sorted cmp t) :
    find cmp t key = (inorder t).find? (fun e => cmp key e.1 == .eq) := by
  induction t with
  | nil => rfl
  | node c l k v r ihl ihr =>
    obtain ⟨hsl, hsr, hl, hr⟩ := hs.node
    simp only [find, inorder, List.find?_append]
    cases hk : cmp key k with
    | lt =>
      simp only
      have hnone : List.find? (fun e : K × V => cmp key e.1 == .eq) ((k, v) :: inorder r) = none := by
        rw [List.find?_eq_none]
        intro x hx
        simp only [List.mem_cons] at hx
        rcases hx with rfl | hx
        · simp [hk]
        · have := hc.lt_of_lt_of_le hk (hr x hx)
          simp [this]
      rw [hnone, ihl hsl]; simp
    | gt =>
      simp only
      have hnone : List.find? (fun e : K × V => cmp key e.1 == .eq) (inorder l) = none := by
        rw [List.find?_eq_none]
        intro x hx
        have := hc.gt_of_gt_of_ge hk (hl x hx)
        simp [this]
      rw [hnone, ihr hsr]
      simp [List.find?, hk]
    | eq =>
      simp only
      rw [ihl hsl]
      cases hf : List.find? (fun e : K × V => cmp key e.1 == .eq) (inorder l) with
      | some e => simp
      | none => simp [List.find?, hk]

theorem findCmps_le_height (cmp : K → K → Ordering) (t : T K V) (key : K) : findCmps cmp t key ≤ height t := by
  induction t with
  | nil => simp [findCmps, height]
  | node c l k v r ihl ihr =>
    simp only [findCmps, height]
    cases cmp key k <;> simp only <;> omega

theorem insPath_le_height (cmp : K → K → Ordering) (t : T K V) (key : K) : insPath cmp t key ≤ height t := by
  induction t with
  | nil => simp [insPath, height]
  | node c l k v r ihl ihr =>
    simp only [insPath, height]
    split <;> omega

theorem insertCmps_le (cmp : K → K → Ordering) (t : T K V) (key : K) : insertCmps cmp t key ≤ height t + 1 := by
  unfold insertCmps
  split
  · omega
  · have := insPath_le_height cmp t key; omega

/-! ### removal erases the first equal entry -/

theorem setBlack_node (c : Color) (l : T K V) (k : K) (v : V) (r : T K V) :
    (node c l k v r).setBlack = node .black l k v r := rfl

theorem inorder_fixDefBlackSib (x : T K V) (s : Side) : inorder (fixDefBlackSib x s).1 = inorder x := by
  unfold fixDefBlackSib
  split
  · rename_i c l k v sc sl sk sv sr
    split
    · split <;> simp [inorder, inorder_setBlack]
    · split
      · rename_i h2 h1
        rcases sl with _ | ⟨c1, l1, k1, v1, r1⟩
        · exfalso; apply h2; rw [h1]; rfl
        · simp [rotR, rotL, setBlack_node, inorder, inorder_setBlack, List.append_assoc]
      · simp [rotL, inorder, inorder_setBlack, List.append_assoc]
  · rename_i c sc sl sk sv sr k v r
    split
    · split <;> simp [inorder, inorder_setBlack]
    · split
      · rename_i h2 h1
        rcases sr with _ | ⟨c1, l1, k1, v1, r1⟩
        · exfalso; apply h2; rw [h1]; rfl
        · simp [rotR, rotL, setBlack_node, inorder, inorder_setBlack, List.append_assoc]
      · simp [rotR, inorder, inorder_setBlack, List.append_assoc]
  · rfl

theorem inorder_fixDef (x : T K V) (s : Side) : inorder (fixDef x s).1 = inorder x := by
  unfold fixDef
  split
  · rename_i c l k v r
    split
    · rename_i hred
      rcases r with _ | ⟨rc, rl, rk, rv, rr⟩
      · simp [isRed] at hred
      · simp only [setBlack, rotL]
        have := inorder_fixDefBlackSib (node .red l k v rl) .L
        generalize fixDefBlackSib (node .red l k v rl) .L = p at this ⊢
        obtain ⟨tl', b⟩ := p
        simp only at this
        simp [inorder, this, List.append_assoc]
    · exact inorder_fixDefBlackSib _ _
  · rename_i c l k v r
    split
    · rename_i hred
      rcases l with _ | ⟨lc, ll, lk, lv, lr⟩
      · simp [isRed] at hred
      · simp only [setBlack, rotR]
        have := inorder_fixDefBlackSib (node .red lr k v r) .R
        generalize fixDefBlackSib (node .red lr k v r) .R = p at this ⊢
        obtain ⟨tr', b⟩ := p
        simp only at this
        simp [inorder, this, List.append_assoc]
    · exact inorder_fixDefBlackSib _ _
  · rfl

theorem inorder_spliceOut (c : Color) (child : T K V) : inorder (spliceOut c child).1 = inorder child := by
  unfold spliceOut
  split
  · rfl
  · split
    · exact inorder_setBlack _
    · rfl

theorem delMin_inorder (t : T K V) (mk : K) (mv : V) (t' : T K V) (d : Bool) (h : delMin t = some (mk, mv, t', d)) :
    inorder t = (mk, mv) :: inorder t' := by
  induction t generalizing mk mv t' d with
  | nil => simp [delMin] at h
  | node c l k v r ihl _ =>
    rcases l with _ | ⟨lc, ll, lk, lv, lr⟩
    · simp only [delMin] at h
      have hs := inorder_spliceOut c r
      generalize spliceOut c r = p at h hs
      obtain ⟨t0, d0⟩ := p
      simp only [Option.some.injEq, Prod.mk.injEq] at h
      obtain ⟨rfl, rfl, rfl, rfl⟩ := h
      simp only at hs
      simp [inorder, hs]
    · simp only [delMin] at h
      cases hm : delMin (node lc ll lk lv lr) with
      | none => rw [hm] at h; cases h
      | some q =>
        obtain ⟨mk0, mv0, l', d0⟩ := q
        rw [hm] at h
        have ih := ihl mk0 mv0 l' d0 hm
        simp only at h
        split at h
        · have hf := inorder_fixDef (node c l' k v r) .L
          generalize fixDef (node c l' k v r) .L = p at h hf
          obtain ⟨t0, d1⟩ := p
          simp only [Option.some.injEq, Prod.mk.injEq] at h
          obtain ⟨rfl, rfl, rfl, rfl⟩ := h
          simp only at hf
          rw [hf]
          simp only [inorder] at ih ⊢
          rw [ih]; rfl
        · simp only [Option.some.injEq, Prod.mk.injEq] at h
          obtain ⟨rfl, rfl, rfl, rfl⟩ := h
          simp only [inorder] at ih ⊢
          rw [ih]; rfl

theorem delMin_ne_none (t : T K V) (h : t ≠ nil) : delMin t ≠ none := by
  induction t with
  | nil => exact absurd rfl h
  | node c l k v r ihl _ =>
    rcases l with _ | ⟨lc, ll, lk, lv, lr⟩
    · simp [delMin]
    · simp only [delMin]
      have := ihl (by simp)
      cases hm : delMin (node lc ll lk lv lr) with
      | none => exact absurd hm this
      | some q =>
        obtain ⟨a, b, c', d⟩ := q
        simp only
        split <;> simp

theorem inorder_combine_L (c : Color) (l' : T K V) (k : K) (v : V) (r : T K V) (d : Bool) :
    inorder (if d = true then fixDef (node c l' k v r) .L else (node c l' k v r, false)).1
      = inorder l' ++ (k, v) :: inorder r := by
  split
  · rw [inorder_fixDef]; rfl
  · rfl

theorem inorder_combine_R (c : Color) (l : T K V) (k : K) (v : V) (r' : T K V) (d : Bool) :
    inorder (if d = true then fixDef (node c l k v r') .R else (node c l k v r', false)).1
      = inorder l ++ (k, v) :: inorder r' := by
  split
  · rw [inorder_fixDef]; rfl
  · rfl

/-- **removal erases exactly the first entry (in traversal order) whose key compares equal** — nothing if there is none -/
theorem del_inorder {cmp : K → K → Ordering} (hc : TotalPreorder cmp) (t : T K V) (key : K) (hs : Sorted cmp t) :
    inorder (del cmp t key).1 = Spec.remove cmp (inorder t) key := by
  induction t with
  | nil => simp [del, inorder, Spec.remove]
  | node c l k v r ihl ihr =>
    obtain ⟨hsl, hsr, hl, hr⟩ := hs.node
    have ihl := ihl hsl
    have ihr := ihr hsr
    have hfind := find_eq hc l key hsl
    unfold del
    split
    · -- the search continues in the left subtree
      rename_i hcond
      generalize del cmp l key = p at ihl ⊢
      obtain ⟨l', d⟩ := p
      simp only at ihl ⊢
      rw [inorder_combine_L, ihl]
      simp only [inorder, Spec.remove]
      rw [eraseP_append_keep]
      rcases hcond with hlt | ⟨heq, hsome⟩
      · left
        intro e he
        simp only [List.mem_cons] at he
        rcases he with rfl | he
        · simp [hlt]
        · have := hc.lt_of_lt_of_le hlt (hr e he)
          simp [this]
      · right
        rw [hfind] at hsome
        cases hf : List.find? (fun e : K × V => cmp key e.1 == .eq) (inorder l) with
        | none => rw [hf] at hsome; simp at hsome
        | some e =>
          exact ⟨e, List.mem_of_find?_eq_some hf, List.find?_some (p := fun e : K × V => cmp key e.1 == .eq) hf⟩
    · rename_i hncond
      have hnlt : cmp key k ≠ .lt := fun h => hncond (Or.inl h)
      split
      · -- key > k
        rename_i hgt
        generalize del cmp r key = p at ihr ⊢
        obtain ⟨r', d⟩ := p
        simp only at ihr ⊢
        rw [inorder_combine_R, ihr]
        simp only [inorder, Spec.remove]
        have hno : ∀ b ∈ inorder l ++ [(k, v)], ¬ (fun e : K × V => cmp key e.1 == .eq) b = true := by
          intro b hb
          simp only [List.mem_append, List.mem_singleton] at hb
          rcases hb with hb | rfl
          · have := hc.gt_of_gt_of_ge hgt (hl b hb)
            simp [this]
          · simp [hgt]
        have e0 : inorder l ++ (k, v) :: inorder r = (inorder l ++ [(k, v)]) ++ inorder r := by simp
        rw [e0, List.eraseP_append_right _ hno]
        simp
      · -- key = k and no equal entry on the left: this node goes
        rename_i hngt
        have heq : cmp key k = .eq := by
          cases hk : cmp key k with
          | lt => exact absurd hk hnlt
          | gt => exact absurd hk hngt
          | eq => rfl
        have hnol : ∀ b ∈ inorder l, ¬ (fun e : K × V => cmp key e.1 == .eq) b = true := by
          have hn : (find cmp l key).isSome = false := by
            cases hh : (find cmp l key).isSome with
            | false => rfl
            | true => exact absurd (Or.inr ⟨heq, hh⟩) hncond
          rw [hfind] at hn
          have : List.find? (fun e : K × V => cmp key e.1 == .eq) (inorder l) = none := by
            cases hf : List.find? (fun e : K × V => cmp key e.1 == .eq) (inorder l) with
            | none => rfl
            | some e => rw [hf] at hn; simp at hn
          exact List.find?_eq_none.mp this
        have hgoal : Spec.remove cmp (inorder (node c l k v r)) key = inorder l ++ inorder r := by
          simp only [inorder, Spec.remove]
          rw [List.eraseP_append_right _ hnol, List.eraseP_cons_of_pos (by simp [heq])]
        rw [hgoal]
        split
        · simp [inorder, inorder_spliceOut]
        · simp [inorder, inorder_spliceOut]
        · rename_i hl0 hr0
          cases hm : delMin r with
          | none =>
            exfalso
            rcases r with _ | ⟨rc, rl, rk, rv, rr⟩
            · exact hr0 rfl
            · exact delMin_ne_none _ (by simp) hm
          | some q =>
            obtain ⟨mk, mv, r', d⟩ := q
            have hmin := delMin_inorder r mk mv r' d hm
            simp only
            rw [inorder_combine_R, hmin]

theorem remove_inorder {cmp : K → K → Ordering} (hc : TotalPreorder cmp) (t : T K V) (key : K) (hs : Sorted cmp t) :
    inorder (remove cmp t key) = Spec.remove cmp (inorder t) key := by
  unfold remove; rw [inorder_setBlack]; exact del_inorder hc t key hs

theorem remove_sorted {cmp : K → K → Ordering} (hc : TotalPreorder cmp) (t : T K V) (key : K) (hs : Sorted cmp t) :
    Sorted cmp (remove cmp t key) := by
  unfold Sorted
  rw [remove_inorder hc t key hs]
  exact List.Pairwise.sublist List.eraseP_sublist hs

/-! ### First / Last -/

theorem first_eq (t : T K V) : first t = (inorder t).head? := by
  induction t with
  | nil => rfl
  | node c l k v r ihl _ =>
    rcases l with _ | ⟨lc, ll, lk, lv, lr⟩
    · simp [first, inorder]
    · simp only [first, ihl]
      simp [inorder, List.head?_append]

theorem getLast?_append_cons_of_ne_nil {α : Type} (A : List α) (x : α) (B : List α) (h : B ≠ []) :
    (A ++ x :: B).getLast? = B.getLast? := by
  cases B with
  | nil => exact absurd rfl h
  | cons b B =>
    rw [List.getLast?_append, List.getLast?_cons_cons]
    cases hb : (b :: B).getLast? with
    | none => simp at hb
    | some y => simp

theorem last_eq (t : T K V) : last t = (inorder t).getLast? := by
  induction t with
  | nil => rfl
  | node c l k v r _ ihr =>
    rcases r with _ | ⟨rc, rl, rk, rv, rr⟩
    · simp [last, inorder]
    · simp only [last, ihr]
      have hne : inorder (node rc rl rk rv rr) ≠ [] := by simp [inorder]
      rw [show inorder (node c l k v (node rc rl rk rv rr)) = inorder l ++ (k, v) :: inorder (node rc rl rk rv rr) from rfl,
        getLast?_append_cons_of_ne_nil _ _ _ hne]

/-! ### traversals -/

theorem visit_append (f : σ → K → V → σ × Bool) (A B : List (K × V)) (s : σ) :
    Spec.visit f (A ++ B) s =
      (match Spec.visit f A s with
       | (s1, false) => (s1, false)
       | (s1, true) => Spec.visit f B s1) := by
  induction A generalizing s with
  | nil => simp [Spec.visit]
  | cons a A ih =>
    obtain ⟨k, v⟩ := a
    simp only [List.cons_append, Spec.visit]
    rcases hf : f s k v with ⟨s1, b⟩
    cases b with
    | false => simp
    | true => simp [ih]

theorem traverse_eq (f : σ → K → V → σ × Bool) (t : T K V) (s : σ) :
    traverse f t s = Spec.visit f (inorder t) s := by
  induction t generalizing s with
  | nil => rfl
  | node c l k v r ihl ihr =>
    simp only [traverse, inorder, visit_append, ihl]
    rcases hv : Spec.visit f (inorder l) s with ⟨s1, b⟩
    cases b with
    | false => simp
    | true =>
      simp only [Spec.visit]
      rcases hf : f s1 k v with ⟨s2, b2⟩
      cases b2 with
      | false => simp
      | true => simp [ihr]

theorem reverseTraverse_eq (f : σ → K → V → σ × Bool) (t : T K V) (s : σ) :
    reverseTraverse f t s = Spec.visit f (inorder t).reverse s := by
  induction t generalizing s with
  | nil => rfl
  | node c l k v r ihl ihr =>
    simp only [reverseTraverse, inorder, List.reverse_append, List.reverse_cons, List.append_assoc, visit_append, ihr]
    rcases hv : Spec.visit f (inorder r).reverse s with ⟨s1, b⟩
    cases b with
    | false => simp
    | true =>
      simp only [List.singleton_append, Spec.visit]
      rcases hf : f s1 k v with ⟨s2, b2⟩
      cases b2 with
      | false => simp
      | true => simp [ihl]

end T
end RB
