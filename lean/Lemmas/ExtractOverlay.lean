import Lemmas.ExtractOnly
/-! C19: extraction into an ARBITRARY tree — the overlay specification.  `overlayStep` says declaratively (no loops,
    no guard, no error handling) what one successful iteration does to any tree; `tarOne_overlay` / `zipOne_overlay`
    prove it of the model for every tree, every root and every entry, `tarExtract_overlay` / `zipExtract_overlay` fold
    it over an error-free run.  Which iterations are not successful is `tarOne_fails_iff` / `zipOne_fails_iff`. -/
namespace Ex

/-- a file system at the specification level: a function from paths to nodes, and the inode table -/
structure Tree where
  get : P → Option Nd
  inodes : Array Inode

def FS.view (fs : FS) : Tree := ⟨fs.get, fs.inodes⟩

theorem Tree.eq_of {a b : Tree} (h1 : ∀ q, a.get q = b.get q) (h2 : a.inodes = b.inodes) : a = b := by
  cases a; cases b
  simp only [Tree.mk.injEq]
  exact ⟨funext h1, h2⟩

/-- the kinds of entry that put something on disk (every other tar type flag is skipped) -/
def Entry.creates (e : Entry) : Prop := e.kind = .reg ∨ e.kind = .dir ∨ e.kind = .symlink ∨ e.kind = .link

instance (e : Entry) : Decidable e.creates := by unfold Entry.creates; infer_instance

/-- the node a successful iteration puts at the entry's own path when nothing was there: a new inode for a regular
    file, a directory with the recorded mode masked, the link with its target verbatim, the node of the (in-root)
    target for a hard link -/
def newNode (t : Tree) (root : P) (mask : Nat) (e : Entry) : Option Nd :=
  match e.kind with
  | .reg => some (.file t.inodes.size)
  | .dir => some (.dir (perm e.mode &&& mask))
  | .symlink => some (.symlink e.link)
  | .link => t.get (cleanJoin root e.link)
  | _ => none

/-- what exists is kept; at the absent path `p` appears `nn`; every absent non-empty proper prefix of `p` becomes a
    directory with mode `dm` -/
def stepGet (t : Tree) (p : P) (nn : Option Nd) (dm : Nat) (q : P) : Option Nd :=
  match t.get q with
  | some n => some n
  | none => if q = p then nn else if q <+: p ∧ q ≠ [] then some (.dir dm) else none

/-- **one successful iteration, declaratively** (tar; zip on its three kinds).  Nothing that exists is replaced or
    removed.  A regular-file entry on an existing file rewrites that file's inode (content replaced, mode kept, every
    hard link of it sees the new content), on an absent path it allocates a new inode with the masked mode.  Missing
    ancestors get `pmode e & mask` (`0o755 & mask`, or the directory entry's own masked mode).  Skipped type flags
    change nothing. -/
def overlayStep (root : P) (mask : Nat) (t : Tree) (e : Entry) : Tree :=
  if e.creates then
    { get := stepGet t (cleanJoin root e.name) (newNode t root mask e) (pmode e &&& mask)
      inodes :=
        if e.kind = .reg then
          (match t.get (cleanJoin root e.name) with
           | some (.file ino) => setData t.inodes ino e.data
           | _ => t.inodes.push { data := e.data, mode := perm e.mode &&& mask })
        else t.inodes }
  else t

/-! ### `MkdirAll`, exactly -/

theorem mkdirAll_exact (fs fs1 : FS) (p : P) (mode : Nat) (h : mkdirAll fs p mode = some fs1) (q : P) :
    fs1.get q = match fs.get q with
      | some n => some n
      | none => if q <+: p ∧ q ≠ [] then some (.dir mode) else none := by
  have hc := mkdirFrom_change p mode _ 1 fs fs1 (Nat.le_refl _) h
  have hd := (mkdirAll_self_sys fs fs1 p mode h).2
  cases hq : fs.get q with
  | some n =>
    simp only
    rcases hc q with h1 | ⟨h1, _⟩
    · rw [h1, hq]
    · rw [hq] at h1; cases h1
  | none =>
    simp only
    by_cases hpre : q <+: p ∧ q ≠ []
    · rw [if_pos hpre]
      have e := List.prefix_iff_eq_take.mp hpre.1
      have hl1 : 1 ≤ q.length := List.length_pos_iff.mpr hpre.2
      obtain ⟨m, hm⟩ := hd q.length hl1 hpre.1.length_le
      rw [← e] at hm
      rcases hc q with h1 | ⟨_, h2, _⟩
      · rw [h1, hq] at hm; cases hm
      · exact h2
    · rw [if_neg hpre]
      rcases hc q with h1 | ⟨_, _, h3, h4⟩
      · rw [h1, hq]
      · exact absurd ⟨h3, h4⟩ hpre

theorem not_prefix_dropLast (p : P) (hne : p ≠ []) : ¬ p <+: p.dropLast := by
  intro h
  have := h.length_le
  have hp : 0 < p.length := List.length_pos_iff.mpr hne
  simp at this; omega

theorem prefix_dropLast_iff (p q : P) (hqp : q ≠ p) : q <+: p.dropLast ↔ q <+: p := by
  constructor
  · intro h; exact h.trans (List.dropLast_prefix p)
  · intro h
    rw [List.dropLast_eq_take]
    have hlt : q.length < p.length := prefix_lt h hqp
    rw [List.prefix_iff_eq_take] at h ⊢
    rw [List.take_take, Nat.min_eq_left (by omega : q.length ≤ p.length - 1)]
    exact h

/-- after `MkdirAll(Dir(p))`: the tree is the old one plus the missing proper prefixes of `p` -/
theorem parent_exact (fs fs1 : FS) (p : P) (hne : p ≠ []) (m : Nat) (h1 : mkdirAll fs p.dropLast m = some fs1) (q : P) :
    fs1.get q = match fs.get q with
      | some n => some n
      | none => if q = p then none else if q <+: p ∧ q ≠ [] then some (.dir m) else none := by
  rw [mkdirAll_exact fs fs1 _ m h1 q]
  cases fs.get q with
  | some n => rfl
  | none =>
    simp only
    by_cases hqp : q = p
    · rw [if_pos hqp, if_neg]
      rintro ⟨h, _⟩; rw [hqp] at h; exact not_prefix_dropLast p hne h
    · simp only [if_neg hqp, prefix_dropLast_iff p q hqp]

theorem parent_self (fs fs1 : FS) (p : P) (hne : p ≠ []) (m : Nat) (h1 : mkdirAll fs p.dropLast m = some fs1) :
    fs1.get p = fs.get p := by
  rw [parent_exact fs fs1 p hne m h1 p]
  cases fs.get p with
  | some n => rfl
  | none => simp

/-- parent phase, then a new node at the absent path `p` -/
theorem parent_put_get (fs fs1 x : FS) (p : P) (hne : p ≠ []) (m : Nat) (h1 : mkdirAll fs p.dropLast m = some fs1)
    (hx : ∀ q, x.get q = fs1.get q) (hn : fs1.get p = none) (n : Nd) (q : P) :
    (x.put p n).get q = stepGet fs.view p (some n) m q := by
  have hp0 : fs.get p = none := by rw [← parent_self fs fs1 p hne m h1]; exact hn
  unfold stepGet FS.view
  simp only
  by_cases hqp : q = p
  · subst hqp; rw [get_put_same, hp0]; simp
  · rw [get_put_other _ _ _ _ hqp, hx, parent_exact fs fs1 p hne m h1 q]
    cases fs.get q with
    | some a => rfl
    | none => simp only [if_neg hqp]

/-- parent phase when the path `p` exists already: nothing is put at `p` -/
theorem parent_keep_get (fs fs1 : FS) (p : P) (hne : p ≠ []) (m : Nat) (h1 : mkdirAll fs p.dropLast m = some fs1)
    (x : Nd) (hp : fs.get p = some x) (nn : Option Nd) (q : P) :
    fs1.get q = stepGet fs.view p nn m q := by
  unfold stepGet FS.view
  simp only
  rw [parent_exact fs fs1 p hne m h1 q]
  cases hq : fs.get q with
  | some a => rfl
  | none =>
    have hqp : q ≠ p := by intro e; rw [e, hp] at hq; cases hq
    simp only [if_neg hqp]

/-- `MkdirAll(p, m)` as a step -/
theorem self_get (fs fs1 : FS) (p : P) (hne : p ≠ []) (m : Nat) (h1 : mkdirAll fs p m = some fs1) (q : P) :
    fs1.get q = stepGet fs.view p (some (.dir m)) m q := by
  unfold stepGet FS.view
  simp only
  rw [mkdirAll_exact fs fs1 p m h1 q]
  cases fs.get q with
  | some a => rfl
  | none =>
    simp only
    by_cases hqp : q = p
    · rw [if_pos hqp, if_pos]; rw [hqp]; exact ⟨List.prefix_refl _, hne⟩
    · rw [if_neg hqp]

/-! ### one successful iteration is `overlayStep` -/

theorem pmode_nondir (e : Entry) (hk : e.kind ≠ .dir) : pmode e = 0o755 := by
  unfold pmode; rw [if_neg hk]

theorem tarOne_overlay (fs : FS) (root : P) (hr : GoodPath root) (hroot : root ≠ []) (mask : Nat) (e : Entry)
    (r : FS × Bool) (h : tarOne fs root mask e = r) (hok : r.2 = true) :
    r.1.view = overlayStep root mask fs.view e := by
  unfold tarOne at h
  split at h
  · subst h; cases hok
  simp only [] at h
  split at h
  · subst h; cases hok
  rename_i hchk
  have hp : root <+: cleanJoin root e.name :=
    lexOK_prefix root _ hr (cleanJoin_good root e.name hr) _ (by simpa using hchk)
  have hne := prefix_ne_nil root _ hroot hp
  split at h
  · subst h; cases hok
  split at h
  · -- regular file
    rename_i hk
    have hcr : e.creates := Or.inl hk
    have hpm : pmode e = 0o755 := pmode_nondir e (by rw [hk]; decide)
    split at h
    · subst h; cases hok
    rename_i fs1 h1
    split at h
    · subst h; cases hok
    rename_i fs2 h2
    subst h
    have e1 : fs1.inodes = fs.inodes := mkdirFrom_inodes _ _ _ _ _ _ h1
    unfold overlayStep; rw [if_pos hcr, hpm]
    unfold writeFile at h2
    split at h2
    · cases h2
    · cases h2
    · rename_i ino hg
      simp at h2; subst h2
      have hg0 : fs.get (cleanJoin root e.name) = some (.file ino) := by
        rw [← parent_self fs fs1 _ hne _ h1]; exact hg
      apply Tree.eq_of
      · intro q
        exact parent_keep_get fs fs1 _ hne _ h1 _ hg0 _ q
      · show setData fs1.inodes ino e.data = _
        simp only [if_pos hk, FS.view, hg0, e1]
    · rename_i hg
      split at h2
      · simp at h2; subst h2
        have hg0 : fs.get (cleanJoin root e.name) = none := by
          rw [← parent_self fs fs1 _ hne _ h1]; exact hg
        apply Tree.eq_of
        · intro q
          have hn : newNode fs.view root mask e = some (.file fs1.inodes.size) := by
            simp [newNode, hk, FS.view, e1]
          rw [hn]
          exact parent_put_get fs fs1 _ _ hne _ h1 (fun q => rfl) hg _ q
        · show fs1.inodes.push _ = _
          simp only [if_pos hk, FS.view, hg0, e1]
      · cases h2
  · -- hard link
    rename_i hk
    have hcr : e.creates := Or.inr (Or.inr (Or.inr hk))
    have hpm : pmode e = 0o755 := pmode_nondir e (by rw [hk]; decide)
    split at h
    · subst h; cases hok
    rename_i fs1 h1
    split at h
    · subst h; cases hok
    split at h
    · subst h; cases hok
    split at h
    · subst h; cases hok
    rename_i fs2 h2
    subst h
    have e1 : fs1.inodes = fs.inodes := mkdirFrom_inodes _ _ _ _ _ _ h1
    unfold overlayStep; rw [if_pos hcr, hpm]
    unfold linkAt at h2
    split at h2
    · rename_i ino hg
      split at h2
      · cases h2
      · rename_i hq
        split at h2
        · simp at h2; subst h2
          have ht0 := mkdirAll_files fs fs1 _ _ h1 _ ino hg
          apply Tree.eq_of
          · intro q
            have hn : newNode fs.view root mask e = some (.file ino) := by
              simp [newNode, hk, FS.view, ht0]
            rw [hn]
            exact parent_put_get fs fs1 _ _ hne _ h1 (fun q => rfl) hq _ q
          · show fs1.inodes = _
            have : e.kind ≠ .reg := by rw [hk]; decide
            simp only [if_neg this, FS.view, e1]
        · cases h2
    · cases h2
  · -- symbolic link
    rename_i hk
    have hcr : e.creates := Or.inr (Or.inr (Or.inl hk))
    have hpm : pmode e = 0o755 := pmode_nondir e (by rw [hk]; decide)
    split at h
    · subst h; cases hok
    rename_i fs1 h1
    split at h
    · subst h; cases hok
    rename_i fs2 h2
    subst h
    have e1 : fs1.inodes = fs.inodes := mkdirFrom_inodes _ _ _ _ _ _ h1
    unfold overlayStep; rw [if_pos hcr, hpm]
    unfold symlinkAt at h2
    split at h2
    · cases h2
    · split at h2
      · cases h2
      · rename_i hq
        split at h2
        · simp at h2; subst h2
          apply Tree.eq_of
          · intro q
            have hn : newNode fs.view root mask e = some (.symlink e.link) := by simp [newNode, hk]
            rw [hn]
            exact parent_put_get fs fs1 _ _ hne _ h1 (fun q => rfl) hq _ q
          · show fs1.inodes = _
            have : e.kind ≠ .reg := by rw [hk]; decide
            simp only [if_neg this, FS.view, e1]
        · cases h2
  · -- directory
    rename_i hk
    have hcr : e.creates := Or.inr (Or.inl hk)
    have hpm : pmode e = perm e.mode := by unfold pmode; rw [if_pos hk]
    split at h
    · subst h; cases hok
    rename_i fs1 h1
    subst h
    unfold overlayStep; rw [if_pos hcr, hpm]
    apply Tree.eq_of
    · intro q
      have hn : newNode fs.view root mask e = some (.dir (perm e.mode &&& mask)) := by simp [newNode, hk]
      rw [hn]
      exact self_get fs fs1 _ hne _ h1 q
    · show fs1.inodes = _
      have : e.kind ≠ .reg := by rw [hk]; decide
      simp only [if_neg this, FS.view]
      exact mkdirFrom_inodes _ _ _ _ _ _ h1
  · -- skipped type flags
    rename_i k1 k2 k3 k4
    subst h
    unfold overlayStep
    rw [if_neg]
    rintro (h' | h' | h' | h')
    · exact k1 h'
    · exact k4 h'
    · exact k3 h'
    · exact k2 h'

theorem zipOne_overlay (fs : FS) (root : P) (hr : GoodPath root) (hroot : root ≠ []) (mask : Nat) (e : Entry)
    (hk : e.kind = .reg ∨ e.kind = .dir ∨ e.kind = .symlink) (hok : (zipOne fs root mask e).2 = true) :
    (zipOne fs root mask e).1.view = overlayStep root mask fs.view e := by
  have hx : e.kind = .reg ∨ e.kind = .dir ∨ (e.kind = .symlink ∧ e.short = false) := by
    rcases hk with h | h | h
    · exact Or.inl h
    · exact Or.inr (Or.inl h)
    · refine Or.inr (Or.inr ⟨h, ?_⟩)
      cases hs : e.short with
      | false => rfl
      | true => rw [zipOne_symlink_short fs root mask e h hs] at hok; cases hok
  rw [zipOne_eq_tarOne fs root mask e hx] at hok ⊢
  exact tarOne_overlay fs root hr hroot mask e _ rfl hok

/-! ### an error-free run is the fold of `overlayStep` -/

theorem tarExtract_overlay (root : P) (hr : GoodPath root) (hroot : root ≠ []) (mask : Nat) (es : List Entry) (fs : FS)
    (hok : (tarExtract fs root mask es).2 = true) :
    (tarExtract fs root mask es).1.view = es.foldl (overlayStep root mask) fs.view := by
  induction es generalizing fs with
  | nil => rfl
  | cons x xs ih =>
    rw [tarExtract_cons] at hok ⊢
    by_cases hb : (tarOne fs root mask x).2 = true
    · rw [if_pos hb] at hok ⊢
      rw [List.foldl_cons, ← tarOne_overlay fs root hr hroot mask x _ rfl hb]
      exact ih _ hok
    · rw [if_neg hb] at hok; cases hok

theorem zipExtract_overlay (root : P) (hr : GoodPath root) (hroot : root ≠ []) (mask : Nat) (es : List Entry) (fs : FS)
    (hk : ∀ e ∈ es, e.kind = .reg ∨ e.kind = .dir ∨ e.kind = .symlink)
    (hok : (zipExtract fs root mask es).2 = true) :
    (zipExtract fs root mask es).1.view = es.foldl (overlayStep root mask) fs.view := by
  have heq := zipExtract_eq_tarExtract root mask es fs hk hok
  rw [heq] at hok ⊢
  exact tarExtract_overlay root hr hroot mask es fs hok

/-! ### skipped type flags -/

theorem tarOne_other (fs : FS) (root : P) (mask : Nat) (e : Entry) (hk : e.kind = .other) :
    tarOne fs root mask e =
      (fs, lexOK root (cleanJoin root e.name) false && ensureNoSymlinks fs root (cleanJoin root e.name)) := by
  have hb : (Kind.other == Kind.dir) = false := rfl
  cases h1 : lexOK root (cleanJoin root e.name) false <;>
    cases h2 : ensureNoSymlinks fs root (cleanJoin root e.name) <;> simp [tarOne, hk, hb, h1, h2]

theorem tarExtract_filter (root : P) (mask : Nat) (es : List Entry) (fs : FS)
    (hok : (tarExtract fs root mask es).2 = true) :
    tarExtract fs root mask (es.filter (fun e => e.kind != .other)) = tarExtract fs root mask es := by
  induction es generalizing fs with
  | nil => rfl
  | cons x xs ih =>
    rw [tarExtract_cons] at hok
    by_cases hb : (tarOne fs root mask x).2 = true
    · rw [if_pos hb] at hok
      by_cases hk : x.kind = .other
      · have hf : (x.kind != Kind.other) = false := by rw [hk]; rfl
        rw [List.filter_cons, hf]
        simp only [Bool.false_eq_true, if_false]
        rw [tarExtract_cons, if_pos hb]
        have h1 : (tarOne fs root mask x).1 = fs := by rw [tarOne_other fs root mask x hk]
        rw [h1] at hok ⊢
        exact ih fs hok
      · have hf : (x.kind != Kind.other) = true := by
          cases hx : x.kind <;> first | rfl | exact absurd hx hk
        rw [List.filter_cons, hf]
        simp only [if_true]
        rw [tarExtract_cons, tarExtract_cons, if_pos hb, if_pos hb]
        exact ih _ hok
    · rw [if_neg hb] at hok; cases hok

/-! ### the closed form: what exists stays, the first entry that needs an absent path decides what appears there -/

theorem overlayStep_get (root : P) (mask : Nat) (t : Tree) (e : Entry) (hc : e.creates) (q : P) :
    (overlayStep root mask t e).get q =
      stepGet t (cleanJoin root e.name) (newNode t root mask e) (pmode e &&& mask) q := by
  unfold overlayStep; rw [if_pos hc]

theorem overlayStep_keep (root : P) (mask : Nat) (t : Tree) (e : Entry) (q : P) (n : Nd) (h : t.get q = some n) :
    (overlayStep root mask t e).get q = some n := by
  unfold overlayStep
  split
  · show stepGet t _ _ _ q = some n
    unfold stepGet; rw [h]
  · exact h

theorem overlay_keep (root : P) (mask : Nat) (es : List Entry) (t : Tree) (q : P) (n : Nd) (h : t.get q = some n) :
    (es.foldl (overlayStep root mask) t).get q = some n := by
  induction es generalizing t with
  | nil => exact h
  | cons x xs ih => exact ih _ (overlayStep_keep root mask t x q n h)

theorem overlayStep_untouched (root : P) (mask : Nat) (t : Tree) (e : Entry) (q : P) (h : t.get q = none)
    (hnt : ¬ (e.creates ∧ q <+: cleanJoin root e.name)) : (overlayStep root mask t e).get q = none := by
  unfold overlayStep
  split
  · rename_i hc
    have hnp : ¬ q <+: cleanJoin root e.name := fun h' => hnt ⟨hc, h'⟩
    have hqp : q ≠ cleanJoin root e.name := fun e' => hnp (e' ▸ List.prefix_refl _)
    show stepGet t _ _ _ q = none
    unfold stepGet; rw [h]; simp only
    rw [if_neg hqp, if_neg (fun h' => hnp h'.1)]
  · exact h

theorem overlay_untouched (root : P) (mask : Nat) (es : List Entry) (t : Tree) (q : P) (h : t.get q = none)
    (hnt : ∀ e ∈ es, ¬ (e.creates ∧ q <+: cleanJoin root e.name)) :
    (es.foldl (overlayStep root mask) t).get q = none := by
  induction es generalizing t with
  | nil => exact h
  | cons x xs ih =>
    exact ih _ (overlayStep_untouched root mask t x q h (hnt x (by simp))) (fun e he => hnt e (by simp [he]))

/-- **the first entry that needs an absent path creates it**: as a directory with that entry's parent mode when the
    path is a proper prefix of the entry's path — later entries (a directory entry for this very path with another
    mode included) do not change it -/
theorem overlay_first_parent (root : P) (mask : Nat) (l1 : List Entry) (e : Entry) (l2 : List Entry) (t : Tree) (q : P)
    (hq : t.get q = none) (hne : q ≠ [])
    (hl1 : ∀ e' ∈ l1, ¬ (e'.creates ∧ q <+: cleanJoin root e'.name))
    (hc : e.creates) (hpre : q <+: cleanJoin root e.name) (hqp : q ≠ cleanJoin root e.name) :
    ((l1 ++ e :: l2).foldl (overlayStep root mask) t).get q = some (.dir (pmode e &&& mask)) := by
  rw [List.foldl_append, List.foldl_cons]
  apply overlay_keep
  have h1 := overlay_untouched root mask l1 t q hq hl1
  rw [overlayStep_get root mask _ e hc]
  unfold stepGet; rw [h1]; simp only
  rw [if_neg hqp, if_pos ⟨hpre, hne⟩]

/-- … and as the entry's own node when the path is the entry's path -/
theorem overlay_first_self (root : P) (mask : Nat) (l1 : List Entry) (e : Entry) (l2 : List Entry) (t : Tree)
    (hq : t.get (cleanJoin root e.name) = none)
    (hl1 : ∀ e' ∈ l1, ¬ (e'.creates ∧ cleanJoin root e.name <+: cleanJoin root e'.name))
    (hc : e.creates) (n : Nd) (hn : newNode (l1.foldl (overlayStep root mask) t) root mask e = some n) :
    ((l1 ++ e :: l2).foldl (overlayStep root mask) t).get (cleanJoin root e.name) = some n := by
  rw [List.foldl_append, List.foldl_cons]
  apply overlay_keep
  have h1 := overlay_untouched root mask l1 t _ hq hl1
  rw [overlayStep_get root mask _ e hc]
  unfold stepGet; rw [h1]; simp only
  rw [if_pos trivial]; exact hn

/-! ### a failing iteration -/

theorem parent_view (fs fs1 : FS) (p : P) (hne : p ≠ []) (m : Nat) (h1 : mkdirAll fs p.dropLast m = some fs1) :
    fs1.view = ⟨stepGet fs.view p none m, fs.inodes⟩ := by
  apply Tree.eq_of
  · intro q
    show fs1.get q = stepGet fs.view p none m q
    rw [parent_exact fs fs1 p hne m h1 q]; rfl
  · exact mkdirFrom_inodes _ _ _ _ _ _ h1

theorem overlayStep_short (root : P) (mask : Nat) (t : Tree) (e : Entry) :
    overlayStep root mask t { e with short := false } = overlayStep root mask t e := rfl

/-- **what a failing iteration leaves**: nothing; or the missing parent directories of the entry (the primitive call
    on the entry's own path failed after `MkdirAll`); or — regular file whose payload could not be copied in full —
    exactly what the successful iteration leaves, with the bytes that could be copied as content -/
theorem tarOne_failed_effect (fs : FS) (root : P) (hr : GoodPath root) (hroot : root ≠ []) (mask : Nat) (e : Entry)
    (r : FS × Bool) (h : tarOne fs root mask e = r) (hf : r.2 = false) :
    r.1 = fs ∨
    ((e.kind = .reg ∨ e.kind = .symlink ∨ e.kind = .link) ∧
      r.1.view = ⟨stepGet fs.view (cleanJoin root e.name) none (0o755 &&& mask), fs.inodes⟩) ∨
    (e.kind = .reg ∧ e.short = true ∧ r.1.view = overlayStep root mask fs.view e) := by
  unfold tarOne at h
  split at h
  · subst h; exact Or.inl rfl
  rename_i hcor
  simp only [] at h
  split at h
  · subst h; exact Or.inl rfl
  rename_i hchk
  have hp : root <+: cleanJoin root e.name :=
    lexOK_prefix root _ hr (cleanJoin_good root e.name hr) _ (by simpa using hchk)
  have hne := prefix_ne_nil root _ hroot hp
  split at h
  · subst h; exact Or.inl rfl
  rename_i hguard
  split at h
  · rename_i hk
    split at h
    · subst h; exact Or.inl rfl
    rename_i fs1 h1
    split at h
    · subst h; exact Or.inr (Or.inl ⟨Or.inl hk, parent_view fs fs1 _ hne _ h1⟩)
    rename_i fs2 h2
    subst h
    have hs : e.short = true := by simpa using hf
    refine Or.inr (Or.inr ⟨hk, hs, ?_⟩)
    have hl : lexOK root (cleanJoin root e.name) false = true := by
      have hb : (e.kind == Kind.dir) = false := by rw [hk]; rfl
      rw [hb] at hchk; simpa using hchk
    have hg : ensureNoSymlinks fs root (cleanJoin root e.name) = true := by simpa using hguard
    have hb : (Kind.reg == Kind.dir) = false := rfl
    have h' : tarOne fs root mask { e with short := false } = (fs2, true) := by
      simp [tarOne, hk, hb, hl, hg, h1, h2]
    have := tarOne_overlay fs root hr hroot mask { e with short := false } _ h' rfl
    rw [overlayStep_short] at this
    exact this
  · rename_i hk
    split at h
    · subst h; exact Or.inl rfl
    rename_i fs1 h1
    have hmid : (e.kind = .reg ∨ e.kind = .symlink ∨ e.kind = .link) ∧
        fs1.view = ⟨stepGet fs.view (cleanJoin root e.name) none (0o755 &&& mask), fs.inodes⟩ :=
      ⟨Or.inr (Or.inr hk), parent_view fs fs1 _ hne _ h1⟩
    split at h
    · subst h; exact Or.inr (Or.inl hmid)
    split at h
    · subst h; exact Or.inr (Or.inl hmid)
    split at h
    · subst h; exact Or.inr (Or.inl hmid)
    · subst h; cases hf
  · rename_i hk
    split at h
    · subst h; exact Or.inl rfl
    rename_i fs1 h1
    split at h
    · subst h; exact Or.inr (Or.inl ⟨Or.inr (Or.inl hk), parent_view fs fs1 _ hne _ h1⟩)
    · subst h; cases hf
  · split at h
    · subst h; exact Or.inl rfl
    · subst h; cases hf
  · subst h; cases hf

/-! ### an entry that names the destination itself (`./`) -/

theorem mkdirFrom_id (p : P) (mode : Nat) (fuel i : Nat) (fs : FS)
    (hd : ∀ j, i ≤ j → j ≤ p.length → ∃ m, fs.get (p.take j) = some (.dir m)) :
    mkdirFrom p mode fuel i fs = some fs := by
  induction fuel generalizing i with
  | zero => rfl
  | succ f ih =>
    simp only [mkdirFrom]
    split
    · rfl
    · obtain ⟨m, hm⟩ := hd i (Nat.le_refl _) (by omega)
      rw [hm]
      exact ih (i + 1) (fun j h1 h2 => hd j (by omega) h2)

/-- `MkdirAll` of an existing directory in a well-formed tree changes nothing -/
theorem mkdirAll_id (fs : FS) (hw : WF fs) (p : P) (mode m : Nat) (hp : fs.get p = some (.dir m)) :
    mkdirAll fs p mode = some fs := by
  apply mkdirFrom_id
  intro j h1 h2
  by_cases hj : j = p.length
  · rw [hj, List.take_length]; exact ⟨m, hp⟩
  · exact wf_prefix_dir fs hw p _ hp j h1 (by omega)

theorem lexOK_self (root : P) : lexOK root root true = true := by
  unfold lexOK; simp

/-- a directory entry whose name cleans to the destination (`./`, `.`, the empty name, `a/..`) on an existing
    destination directory: no error, nothing changes (both loops) -/
theorem root_entry_noop (fs : FS) (hw : WF fs) (root : P) (mask : Nat) (e : Entry) (hk : e.kind = .dir)
    (hp : cleanJoin root e.name = root) (m : Nat) (hd : fs.get root = some (.dir m)) :
    tarOne fs root mask e = (fs, true) ∧ zipOne fs root mask e = (fs, true) := by
  have hb : (Kind.dir == Kind.dir) = true := rfl
  have hg : ensureNoSymlinks fs root root = true := by
    unfold ensureNoSymlinks; rw [if_pos rfl, hd]
  have hm := mkdirAll_id fs hw root (perm e.mode &&& mask) m hd
  constructor
  · simp [tarOne, hk, hp, hb, lexOK_self, hg, hm]
  · simp [zipOne, hk, hp, hb, lexOK_self, hg, hm]

/-! ### inode contents: who can change an existing file -/

theorem setData_self (a : Array Inode) (ino : Nat) (d : List Nat) (nd : Inode) (h : a[ino]? = some nd) :
    (setData a ino d)[ino]? = some { nd with data := d } := by
  have hlt : ino < a.size := by
    rcases Nat.lt_or_ge ino a.size with h' | h'
    · exact h'
    · rw [Array.getElem?_eq_none h'] at h; cases h
  unfold setData; rw [h]
  simp only
  rw [Array.getElem?_setIfInBounds_self, if_pos hlt]

theorem lt_of_getElem? {a : Array Inode} {i : Nat} {nd : Inode} (h : a[i]? = some nd) : i < a.size := by
  rcases Nat.lt_or_ge i a.size with h' | h'
  · exact h'
  · rw [Array.getElem?_eq_none h'] at h; cases h

/-- one step of the specification touches an existing inode only by a regular-file entry whose path holds it: the
    content becomes the entry's payload, the mode stays -/
theorem overlayStep_inode (root : P) (mask : Nat) (t : Tree) (e : Entry) (i : Nat) (nd : Inode)
    (hi : t.inodes[i]? = some nd) :
    (overlayStep root mask t e).inodes[i]? = some nd ∨
    (e.kind = .reg ∧ t.get (cleanJoin root e.name) = some (.file i) ∧
      (overlayStep root mask t e).inodes[i]? = some { nd with data := e.data }) := by
  have hlt := lt_of_getElem? hi
  unfold overlayStep
  split
  · by_cases hk : e.kind = .reg
    · simp only [if_pos hk]
      split
      · rename_i ino hg
        by_cases hio : i = ino
        · subst hio
          exact Or.inr ⟨hk, hg, setData_self _ _ _ _ hi⟩
        · left; rw [setData_other _ _ _ _ hio]; exact hi
      · left
        rw [Array.getElem?_push, if_neg (by omega)]; exact hi
    · simp only [if_neg hk]; exact Or.inl hi
  · exact Or.inl hi

theorem tarOne_inode_step (fs : FS) (root : P) (hr : GoodPath root) (hroot : root ≠ []) (mask : Nat) (e : Entry)
    (i : Nat) (nd : Inode) (hi : fs.inodes[i]? = some nd) :
    (tarOne fs root mask e).1.inodes[i]? = some nd ∨
    (e.kind = .reg ∧ fs.get (cleanJoin root e.name) = some (.file i) ∧
      (tarOne fs root mask e).1.inodes[i]? = some { nd with data := e.data }) := by
  have hov := overlayStep_inode root mask fs.view e i nd hi
  cases hb : (tarOne fs root mask e).2 with
  | true =>
    have := tarOne_overlay fs root hr hroot mask e _ rfl hb
    have hin : (tarOne fs root mask e).1.inodes = (overlayStep root mask fs.view e).inodes := congrArg Tree.inodes this
    rw [hin]; exact hov
  | false =>
    rcases tarOne_failed_effect fs root hr hroot mask e _ rfl hb with h | ⟨_, h⟩ | ⟨_, _, h⟩
    · rw [h]; exact Or.inl hi
    · have hin : (tarOne fs root mask e).1.inodes = fs.inodes := congrArg Tree.inodes h
      rw [hin]; exact Or.inl hi
    · have hin : (tarOne fs root mask e).1.inodes = (overlayStep root mask fs.view e).inodes := congrArg Tree.inodes h
      rw [hin]; exact hov

/-- **history of an existing inode over a whole run** (failing or not): its mode never changes, its content is the
    original one or the payload of a regular-file entry of the archive -/
theorem extractWith_inode_history (one : FS → Entry → FS × Bool) (es : List Entry)
    (hstep : ∀ e ∈ es, ∀ (fs : FS) (i : Nat) (nd : Inode), fs.inodes[i]? = some nd →
      (one fs e).1.inodes[i]? = some nd ∨ (e.kind = .reg ∧ (one fs e).1.inodes[i]? = some { nd with data := e.data }))
    (fs : FS) (i : Nat) (nd : Inode) (hi : fs.inodes[i]? = some nd) :
    (extractWith one fs es).1.inodes[i]? = some nd ∨
    ∃ e ∈ es, e.kind = .reg ∧ (extractWith one fs es).1.inodes[i]? = some { nd with data := e.data } := by
  induction es generalizing fs nd with
  | nil => exact Or.inl hi
  | cons x xs ih =>
    have ih' := fun fs nd h => ih (fun e he => hstep e (by simp [he])) fs nd h
    rw [extractWith_cons]
    rcases hstep x (by simp) fs i nd hi with h1 | ⟨hk, h1⟩
    · split
      · rcases ih' _ nd h1 with h2 | ⟨e, he, hk, h2⟩
        · exact Or.inl h2
        · exact Or.inr ⟨e, by simp [he], hk, h2⟩
      · exact Or.inl h1
    · split
      · rcases ih' _ _ h1 with h2 | ⟨e, he, hk', h2⟩
        · exact Or.inr ⟨x, by simp, hk, h2⟩
        · exact Or.inr ⟨e, by simp [he], hk', h2⟩
      · exact Or.inr ⟨x, by simp, hk, h1⟩

theorem tarExtract_inode_history (root : P) (hr : GoodPath root) (hroot : root ≠ []) (mask : Nat) (es : List Entry)
    (fs : FS) (i : Nat) (nd : Inode) (hi : fs.inodes[i]? = some nd) :
    (tarExtract fs root mask es).1.inodes[i]? = some nd ∨
    ∃ e ∈ es, e.kind = .reg ∧ (tarExtract fs root mask es).1.inodes[i]? = some { nd with data := e.data } := by
  apply extractWith_inode_history _ es _ fs i nd hi
  intro e _ fs i nd hi
  rcases tarOne_inode_step fs root hr hroot mask e i nd hi with h | ⟨hk, _, h⟩
  · exact Or.inl h
  · exact Or.inr ⟨hk, h⟩

theorem zipOne_symlink_short_tree (fs : FS) (root : P) (mask : Nat) (e : Entry) (hk : e.kind = .symlink)
    (hs : e.short = true) : (zipOne fs root mask e).1 = fs := by
  unfold zipOne
  simp only [hk, hs]
  split
  · rfl
  split
  · rfl
  · rfl

theorem zipExtract_inode_history (root : P) (hr : GoodPath root) (hroot : root ≠ []) (mask : Nat) (es : List Entry)
    (hk : ∀ e ∈ es, e.kind = .reg ∨ e.kind = .dir ∨ e.kind = .symlink)
    (fs : FS) (i : Nat) (nd : Inode) (hi : fs.inodes[i]? = some nd) :
    (zipExtract fs root mask es).1.inodes[i]? = some nd ∨
    ∃ e ∈ es, e.kind = .reg ∧ (zipExtract fs root mask es).1.inodes[i]? = some { nd with data := e.data } := by
  apply extractWith_inode_history _ es _ fs i nd hi
  intro e he fs i nd hi
  show (zipOne fs root mask e).1.inodes[i]? = some nd ∨ _
  by_cases hsh : e.kind = .symlink ∧ e.short = true
  · rw [zipOne_symlink_short_tree fs root mask e hsh.1 hsh.2]; exact Or.inl hi
  · have hx : e.kind = .reg ∨ e.kind = .dir ∨ (e.kind = .symlink ∧ e.short = false) := by
      rcases hk e he with h | h | h
      · exact Or.inl h
      · exact Or.inr (Or.inl h)
      · refine Or.inr (Or.inr ⟨h, ?_⟩)
        cases hs : e.short with
        | false => rfl
        | true => exact absurd ⟨h, hs⟩ hsh
    show (zipOne fs root mask e).1.inodes[i]? = some nd ∨
      (e.kind = .reg ∧ (zipOne fs root mask e).1.inodes[i]? = some { nd with data := e.data })
    rw [zipOne_eq_tarOne fs root mask e hx]
    rcases tarOne_inode_step fs root hr hroot mask e i nd hi with h | ⟨hk', _, h⟩
    · exact Or.inl h
    · exact Or.inr ⟨hk', h⟩

end Ex
