import Model.ExtractR
/-! C19: the loop bodies of the two extractors with every protective mechanism behind a switch.  `Mech` with all
    switches on is the code of `/repo` (`tarOneV_code`, `zipOneV_code`: literally the loop bodies `tarOneR` / `zipOneR`
    the driver executes); a switch turned off is the extractor WITHOUT that mechanism.  `Props/C19.lean` shows for each
    switch a concrete archive on which the variant violates the property and the code does not (CONTRAST theorems). -/
namespace Ex

structure Mech where
  /-- the prefix test is made against `root + "/"` (off: against `root`, as `strings.HasPrefix(path, root)`) -/
  sep : Bool := true
  /-- the lexical test of the joined entry path is made at all -/
  nameCheck : Bool := true
  /-- the lexical test of a hard link's joined target is made -/
  linkCheck : Bool := true
  /-- `internal.EnsureNoSymlinks` is called (entry path and hard-link target) -/
  guard : Bool := true
  /-- the error of `io.Copy` / of the deferred `Close` is returned -/
  copyErr : Bool := true
  /-- the guard call on the ENTRY path is made inside the loop body (off: the caller has made it — `tarOneVet`) -/
  pathGuard : Bool := true

/-- the code as it is -/
def Mech.code : Mech := {}

def lexV (m : Mech) (root path : P) (isDir : Bool) : Bool :=
  if m.sep then lexOK root path isDir
  else (render root).isPrefixOf (render path) || (render path == render root && isDir)

def tarOneV (m : Mech) (fs : FS) (root : P) (mask : Nat) (e : Entry) : FS × Bool :=
  if e.kind = .corrupt then (fs, false) else
  let path := cleanJoin root e.name
  if m.nameCheck && !lexV m root path (e.kind == .dir) then (fs, false)
  else if m.guard && m.pathGuard && !ensureNoSymlinksR fs root path then (fs, false)
  else match e.kind with
    | .reg =>
      match osMkdirAll fs path.dropLast (0o755 &&& mask) with
      | none => (fs, false)
      | some fs1 =>
        match openWriteR fs1 path (perm e.mode &&& mask) e.data with
        | none => (fs1, false)
        | some fs2 => (fs2, !(m.copyErr && e.short))
    | .link =>
      match osMkdirAll fs path.dropLast (0o755 &&& mask) with
      | none => (fs, false)
      | some fs1 =>
        let target := cleanJoin root e.link
        if m.linkCheck && !lexV m root target false then (fs1, false)
        else if m.guard && !ensureNoSymlinksR fs1 root target then (fs1, false)
        else match linkR fs1 target path with
          | none => (fs1, false)
          | some fs2 => (fs2, true)
    | .symlink =>
      match osMkdirAll fs path.dropLast (0o755 &&& mask) with
      | none => (fs, false)
      | some fs1 =>
        match symlinkR fs1 e.link path with
        | none => (fs1, false)
        | some fs2 => (fs2, true)
    | .dir =>
      match osMkdirAll fs path (perm e.mode &&& mask) with
      | none => (fs, false)
      | some fs1 => (fs1, true)
    | _ => (fs, true)

def zipOneV (m : Mech) (fs : FS) (root : P) (mask : Nat) (e : Entry) : FS × Bool :=
  let path := cleanJoin root e.name
  if m.nameCheck && !lexV m root path (e.kind == .dir) then (fs, false)
  else if m.guard && !ensureNoSymlinksR fs root path then (fs, false)
  else match e.kind with
    | .symlink =>
      if e.short then (fs, false) else
      match osMkdirAll fs path.dropLast (0o755 &&& mask) with
      | none => (fs, false)
      | some fs1 =>
        match symlinkR fs1 e.link path with
        | none => (fs1, false)
        | some fs2 => (fs2, true)
    | .dir =>
      match osMkdirAll fs path (perm e.mode &&& mask) with
      | none => (fs, false)
      | some fs1 => (fs1, true)
    | .corrupt => (fs, false)
    | _ =>
      match osMkdirAll fs path.dropLast (0o755 &&& mask) with
      | none => (fs, false)
      | some fs1 =>
        match openWriteR fs1 path (perm e.mode &&& mask) e.data with
        | none => (fs1, false)
        | some fs2 => (fs2, !(m.copyErr && e.short))

def tarExtractV (m : Mech) (fs : FS) (root : P) (mask : Nat) (es : List Entry) : FS × Bool :=
  extractWith (fun fs e => tarOneV m fs root mask e) fs es
def zipExtractV (m : Mech) (fs : FS) (root : P) (mask : Nat) (es : List Entry) : FS × Bool :=
  extractWith (fun fs e => zipOneV m fs root mask e) fs es

theorem tarOneV_code : tarOneV Mech.code = tarOneR := by
  funext fs root mask e
  unfold tarOneV tarOneR tarOneG
  cases hk : e.kind <;> (simp [Mech.code, lexV]; try rfl)

theorem zipOneV_code : zipOneV Mech.code = zipOneR := by
  funext fs root mask e
  unfold zipOneV zipOneR zipOneG
  cases hk : e.kind <;> (simp [Mech.code, lexV]; try rfl)

theorem tarExtractV_code : tarExtractV Mech.code = tarExtractR := by
  funext fs root mask es
  simp [tarExtractV, tarExtractR, tarOneV_code]

theorem zipExtractV_code : zipExtractV Mech.code = zipExtractR := by
  funext fs root mask es
  simp [zipExtractV, zipExtractR, zipOneV_code]

/-- the guard switch alone is the `guarded` flag of `tarOneG` (the extractor before commit ddf9a1e) -/
theorem tarOneV_guard (g : Bool) : tarOneV { guard := g } = tarOneG g := by
  funext fs root mask e
  unfold tarOneV tarOneG
  cases hk : e.kind <;> (simp [lexV]; try rfl)

/-! ### the "remembered parent" shortcut (round 7): a loop with a memory

An optimisation that remembers the parent directories the guard has already walked and, for a remembered parent, looks
at the entry's own name only; the parent is remembered as soon as the entry's check passes — on the assumption that the
entry then creates it.  Entries of a skipped kind create nothing. -/

/-- one iteration; `vetted` are the remembered parents -/
def tarOneVet (vetted : List P) (fs : FS) (root : P) (mask : Nat) (e : Entry) : (FS × Bool) × List P :=
  if e.kind = .corrupt then ((fs, false), vetted) else
  let path := cleanJoin root e.name
  if !lexOK root path (e.kind == .dir) then ((fs, false), vetted) else
  let parent := path.dropLast
  let ok := if vetted.contains parent then ensureNoSymlinksR fs parent path else ensureNoSymlinksR fs root path
  if !ok then ((fs, false), vetted) else
  (tarOneV { pathGuard := false } fs root mask e, if path = root then vetted else parent :: vetted)

def tarExtractVet (vetted : List P) (fs : FS) (root : P) (mask : Nat) : List Entry → FS × Bool
  | [] => (fs, true)
  | e :: es =>
    match tarOneVet vetted fs root mask e with
    | ((fs', false), _) => (fs', false)
    | ((fs', true), v) => tarExtractVet v fs' root mask es

/-- with nothing remembered an iteration is the code's -/
theorem tarOneVet_nil (fs : FS) (root : P) (mask : Nat) (e : Entry) : (tarOneVet [] fs root mask e).1 = tarOneR fs root mask e := by
  unfold tarOneVet tarOneV tarOneR tarOneG
  cases hk : e.kind <;> (simp [lexV]; try (split <;> (try rfl) <;> (split <;> (try rfl) <;> simp_all)))

/-- `extractFile` with the result of the deferred `Close` dropped (`_ = file.Close()`), or reported only together with
    another error (`closeErr != nil && err != nil`): either way the result is the copy error alone -/
def extractFileNoClose (flt : Faults) (fs1 : FS) (path : P) (mode : Nat) (payload : List Nat) (readErr : Bool) : FS × Bool :=
  match openTruncR fs1 path mode with
  | none => (fs1, false)
  | some (fs2, fd) =>
    let c := ioCopy payload readErr flt.writeLimit
    (writeFd fs2 fd c.1, !c.2)

end Ex
