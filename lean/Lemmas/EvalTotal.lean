import Model.Eval

/-! C09: the parser model of `Model/Eval.lean` is total: no `R.panic` (no out-of-range stack access, no fuel
    exhaustion, and the scan loop always advances). -/
namespace Eval

/-- every operator symbol of the table is non-empty -/
def SymsNonempty (ops : List Op) : Prop := ∀ o ∈ ops, o.sym ≠ []

/-- a Boolean check of `SymsNonempty` (decidable on a concrete table) -/
theorem symsNonempty_of_all (ops : List Op) (h : ops.all (fun o => !o.sym.isEmpty) = true) : SymsNonempty ops := by
  intro o ho hs
  have := List.all_eq_true.mp h o ho
  simp [hs] at this

/-! ### processTree and the reduction loops -/

theorem processTree_ops_length (st st' : St) (h : processTree st = .ok st') :
    st'.ops.length + 1 = st.ops.length := by
  unfold processTree at h
  cases hops : st.ops with
  | nil => simp [hops] at h
  | cons e rest =>
    simp only [hops] at h
    injection h with h
    subst h
    simp

theorem processTree_no_panic (st : St) (h : st.ops ≠ []) : processTree st ≠ .panic := by
  unfold processTree
  cases hops : st.ops with
  | nil => exact absurd hops h
  | cons e rest => simp

theorem processTree_ne_err (st : St) : processTree st ≠ .err := by
  unfold processTree
  cases hops : st.ops with
  | nil => simp
  | cons e rest => simp

theorem reduceWhile_no_panic (p : OpEntry → Bool) (fuel : Nat) (st : St) (hf : st.ops.length < fuel) :
    reduceWhile p fuel st ≠ .panic := by
  induction fuel generalizing st with
  | zero => omega
  | succ n ih =>
    unfold reduceWhile
    cases hops : st.ops with
    | nil => simp
    | cons e rest =>
      simp only []
      by_cases hp : p e = true
      · simp only [hp, if_true]
        cases hpt : processTree st with
        | ok st' =>
          simp only []
          apply ih
          have := processTree_ops_length _ _ hpt
          omega
        | err => simp
        | panic =>
          exact absurd hpt (processTree_no_panic st (by simp [hops]))
      · simp [hp]

theorem closeParen_no_panic (st : St) : closeParen st ≠ .panic := by
  unfold closeParen
  have h := reduceWhile_no_panic (fun e => e.op.sym != LP) (st.ops.length + 1) st (by omega)
  split
  · simp
  · contradiction
  · split
    · simp
    · split
      · simp
      · split
        · simp
        · split <;> simp

theorem pushBinary_no_panic (st : St) (op : Op) (un : Option Op) : pushBinary st op un ≠ .panic := by
  unfold pushBinary
  have h := reduceWhile_no_panic (fun e => e.op.prec ≥ op.prec) (st.ops.length + 1) st (by omega)
  split
  · simp
  · contradiction
  · simp

theorem finish_no_panic (fuel : Nat) (st : St) (hf : st.ops.length < fuel) : finish fuel st ≠ .panic := by
  induction fuel generalizing st with
  | zero => omega
  | succ n ih =>
    unfold finish
    cases hops : st.ops with
    | nil => simp
    | cons e rest =>
      simp only []
      cases hpt : processTree st with
      | ok st' =>
        simp only []
        apply ih
        have := processTree_ops_length _ _ hpt
        omega
      | err => simp
      | panic =>
        exact absurd hpt (processTree_no_panic st (by simp [hops]))

/-! ### nextOperator, advance -/

theorem matchAt_prefix (o : Op) (p r : Bytes) (h : o.matchAt p r = true) : o.sym.isPrefixOf r = true := by
  unfold Op.matchAt at h
  simp only [Bool.and_eq_true] at h
  exact h.1

theorem isPrefixOf_length_le (a b : Bytes) (h : a.isPrefixOf b = true) : a.length ≤ b.length :=
  (List.isPrefixOf_iff_prefix.mp h).length_le

theorem nextOperator_spec (ops : List Op) (pre rest sk : Bytes) (o : Op) (p r : Bytes)
    (h : nextOperator ops pre rest = some (sk, o, p, r)) :
    o ∈ ops ∧ o.matchAt p r = true ∧ rest = sk ++ r ∧ r ≠ [] ∧ p = sk.reverse ++ pre := by
  induction rest generalizing pre sk with
  | nil => simp [nextOperator] at h
  | cons c t ih =>
    unfold nextOperator at h
    cases hfm : firstMatch ops pre (c :: t) with
    | some o' =>
      simp only [hfm] at h
      injection h with h
      injection h with h1 h
      injection h with h2 h
      injection h with h3 h4
      subst h1 h2 h3 h4
      unfold firstMatch at hfm
      refine ⟨List.mem_of_find?_eq_some hfm, ?_, by simp, by simp, by simp⟩
      have := List.find?_some hfm
      simpa using this
    | none =>
      simp only [hfm] at h
      cases hno : nextOperator ops (c :: pre) t with
      | none => simp [hno] at h
      | some q =>
        obtain ⟨sk', o', p', r'⟩ := q
        simp only [hno] at h
        injection h with h
        injection h with h1 h
        injection h with h2 h
        injection h with h3 h4
        subst h1 h2 h3 h4
        obtain ⟨a, b, c', d, e⟩ := ih _ _ hno
        refine ⟨a, b, by simp [c'], d, by simp [e]⟩

theorem advance_snd (n : Nat) (pre rest : Bytes) : (advance n pre rest).2 = rest.drop n := by
  induction n generalizing pre rest with
  | zero => simp [advance]
  | succ n ih =>
    cases rest with
    | nil => simp [advance]
    | cons c t => simp [advance, ih]

theorem advance_snd_length (n : Nat) (pre rest : Bytes) : (advance n pre rest).2.length = rest.length - n := by
  rw [advance_snd]; simp

/-! ### captureArgs -/

/-- the parenthesis counter after the operator `o` -/
def parensStep (o : Op) (parens : Nat) : Nat :=
  if o.sym == LP then parens + 1 else if o.sym == RP then parens - 1 else parens

theorem captureArgs_succ (ops : List Op) (fuel parens : Nat) (pre rest acc : Bytes) :
    captureArgs ops (fuel + 1) parens pre rest acc =
      match nextOperator ops pre rest with
      | none => .err
      | some (sk, o, p, r) =>
        if parensStep o parens = 0 then .ok (acc ++ sk, o, p, r)
        else
          match r with
          | [] => .err
          | c :: t => captureArgs ops fuel (parensStep o parens) (c :: p) t (acc ++ sk ++ [c]) := rfl

theorem captureArgs_spec (ops : List Op) (fuel parens : Nat) (pre rest acc args : Bytes) (o : Op) (p r : Bytes)
    (h : captureArgs ops fuel parens pre rest acc = .ok (args, o, p, r)) :
    o ∈ ops ∧ o.sym.isPrefixOf r = true ∧ r ≠ [] ∧ r.length ≤ rest.length := by
  induction fuel generalizing parens pre rest acc with
  | zero => simp [captureArgs] at h
  | succ n ih =>
    rw [captureArgs_succ] at h
    cases hno : nextOperator ops pre rest with
    | none => simp [hno] at h
    | some q =>
      obtain ⟨sk, o', p', r'⟩ := q
      obtain ⟨hmem, hm, hrest, hne, _⟩ := nextOperator_spec _ _ _ _ _ _ _ hno
      simp only [hno] at h
      by_cases hz : parensStep o' parens = 0
      · rw [if_pos hz] at h
        injection h with h
        injection h with h1 h
        injection h with h2 h
        injection h with h3 h4
        subst h2 h3 h4
        refine ⟨hmem, matchAt_prefix _ _ _ hm, hne, ?_⟩
        simp [hrest]
      · rw [if_neg hz] at h
        cases r' with
        | nil => simp at h
        | cons c t =>
          simp only [] at h
          obtain ⟨a, b, c', d⟩ := ih _ _ _ _ h
          refine ⟨a, b, c', ?_⟩
          simp [hrest]
          omega

theorem captureArgs_no_panic (ops : List Op) (fuel parens : Nat) (pre rest acc : Bytes) (hf : rest.length < fuel) :
    captureArgs ops fuel parens pre rest acc ≠ .panic := by
  induction fuel generalizing parens pre rest acc with
  | zero => omega
  | succ n ih =>
    rw [captureArgs_succ]
    cases hno : nextOperator ops pre rest with
    | none => simp
    | some q =>
      obtain ⟨sk, o', p', r'⟩ := q
      obtain ⟨hmem, hm, hrest, hne, _⟩ := nextOperator_spec _ _ _ _ _ _ _ hno
      simp only []
      by_cases hz : parensStep o' parens = 0
      · rw [if_pos hz]; simp
      · rw [if_neg hz]
        cases r' with
        | nil => simp
        | cons c t =>
          simp only []
          apply ih
          simp [hrest] at hf
          omega

/-! ### processOperator, operatorPhase, scanStep -/

theorem callFunction_no_panic (fns : List Bytes) (st : St) (args : Bytes) : callFunction fns st args ≠ .panic := by
  unfold callFunction
  split
  · simp
  · split <;> simp
  · simp

theorem processOperator_no_panic (ops : List Op) (fns : List Bytes) (pre rest : Bytes) (st : St) (op : Op) (hv : Bool)
    (un : Option Op) : processOperator ops fns pre rest st op hv un ≠ .panic := by
  unfold processOperator
  split
  · split
    · simp
    · rename_i c t
      have h := captureArgs_no_panic ops (t.length + 1) 1 (c :: pre) t [] (by omega)
      split
      · simp
      · contradiction
      · have h2 := callFunction_no_panic fns st
        split
        · simp
        · rename_i hc; exact absurd hc (h2 _)
        · simp
  · split
    · simp
    · rename_i hc
      split at hc
      · simp at hc
      · split at hc
        · exact absurd hc (closeParen_no_panic _)
        · exact absurd hc (pushBinary_no_panic _ _ _)
    · simp

/-- a successful `processOperator` at a non-empty position with a non-empty symbol advances -/
theorem processOperator_progress (ops : List Op) (fns : List Bytes) (pre rest : Bytes) (st : St) (op : Op) (hv : Bool)
    (un : Option Op) (p' r' : Bytes) (last : Op) (st' : St) (hsym : op.sym ≠ []) (hrest : rest ≠ [])
    (h : processOperator ops fns pre rest st op hv un = .ok (p', r', last, st')) :
    r'.length < rest.length := by
  unfold processOperator at h
  split at h
  · split at h
    · simp at h
    · rename_i c t
      split at h
      · simp at h
      · simp at h
      · rename_i args o p r hca
        obtain ⟨_, _, _, hle⟩ := captureArgs_spec _ _ _ _ _ _ _ _ _ _ hca
        split at h
        · simp at h
        · simp at h
        · injection h with h
          injection h with h1 h
          injection h with h2 h
          subst h2
          rw [advance_snd_length]
          simp
          omega
  · split at h
    · simp at h
    · simp at h
    · injection h with h
      injection h with h1 h
      injection h with h2 h
      subst h2
      rw [advance_snd_length]
      have h1 : 0 < op.sym.length := List.length_pos_iff.mpr hsym
      have h2 : 0 < rest.length := List.length_pos_iff.mpr hrest
      omega

theorem operatorPhase_done_no_panic (ops : List Op) (fns : List Bytes) (pre rest : Bytes) (op : Op) (st : St)
    (hv : Bool) (un : Option Op) (res : R St) (h : operatorPhase ops fns pre rest op st hv un = .done res) :
    res ≠ .panic := by
  unfold operatorPhase at h
  split at h
  · split at h
    · injection h with h; subst h; simp
    · simp at h
  · split at h
    · injection h with h; subst h; simp
    · rename_i hc; exact absurd hc (processOperator_no_panic _ _ _ _ _ _ _ _)
    · simp at h

theorem operatorPhase_progress (ops : List Op) (fns : List Bytes) (pre rest : Bytes) (op : Op) (st : St)
    (hv : Bool) (un : Option Op) (p' r' : Bytes) (st' : St) (hv' : Bool) (un' : Option Op)
    (hsym : op.sym ≠ []) (hrest : rest ≠ [])
    (h : operatorPhase ops fns pre rest op st hv un = .cont p' r' st' hv' un') :
    r'.length < rest.length := by
  unfold operatorPhase at h
  split at h
  · split at h
    · simp at h
    · injection h with h1 h2 h3 h4 h5
      subst h2
      rw [advance_snd_length]
      have h1 : 0 < op.sym.length := List.length_pos_iff.mpr hsym
      have h2 : 0 < rest.length := List.length_pos_iff.mpr hrest
      omega
  · split at h
    · simp at h
    · simp at h
    · rename_i p r last st'' hpo
      injection h with h1 h2 h3 h4 h5
      subst h2
      exact processOperator_progress _ _ _ _ _ _ _ _ _ _ _ _ hsym hrest hpo

theorem scanStep_done_no_panic (ops : List Op) (fns : List Bytes) (pre : Bytes) (c : Nat) (t : Bytes) (st : St)
    (hv : Bool) (un : Option Op) (res : R St) (h : scanStep ops fns pre c t st hv un = .done res) :
    res ≠ .panic := by
  unfold scanStep at h
  split at h
  · split at h <;> (injection h with h; subst h; simp)
  · split at h
    · exact operatorPhase_done_no_panic _ _ _ _ _ _ _ _ _ h
    · split at h
      · injection h with h; subst h; simp
      · exact operatorPhase_done_no_panic _ _ _ _ _ _ _ _ _ h

theorem scanStep_progress (ops : List Op) (fns : List Bytes) (hops : SymsNonempty ops) (pre : Bytes) (c : Nat)
    (t : Bytes) (st : St) (hv : Bool) (un : Option Op) (p' r' : Bytes) (st' : St) (hv' : Bool) (un' : Option Op)
    (h : scanStep ops fns pre c t st hv un = .cont p' r' st' hv' un') :
    r'.length < (c :: t).length := by
  unfold scanStep at h
  split at h
  · split at h <;> simp at h
  · rename_i sk op p r hno
    obtain ⟨hmem, _, hrest, hne, _⟩ := nextOperator_spec _ _ _ _ _ _ _ hno
    have hsym := hops op hmem
    have hle : r.length ≤ (c :: t).length := by rw [hrest]; simp
    split at h
    · have := operatorPhase_progress _ _ _ _ _ _ _ _ _ _ _ _ _ hsym hne h
      omega
    · split at h
      · simp at h
      · have := operatorPhase_progress _ _ _ _ _ _ _ _ _ _ _ _ _ hsym hne h
        omega

/-! ### the scan loop, parse, parseTop -/

theorem parseLoop_no_panic (ops : List Op) (fns : List Bytes) (h : SymsNonempty ops) (pre rest : Bytes) (st : St)
    (hv : Bool) (un : Option Op) : parseLoop ops fns pre rest st hv un ≠ .panic := by
  induction hn : rest.length using Nat.strongRecOn generalizing pre rest st hv un with
  | ind n ih =>
    cases rest with
    | nil => rw [parseLoop]; simp
    | cons c t =>
      rw [parseLoop]
      split
      · exact ih t.length (by simp at hn; omega) _ _ _ _ _ rfl
      · cases hs : scanStep ops fns pre c t st hv un with
        | done r =>
          simp only []
          exact scanStep_done_no_panic _ _ _ _ _ _ _ _ _ hs
        | cont p r st' hv' un' =>
          simp only []
          have hp := scanStep_progress _ _ h _ _ _ _ _ _ _ _ _ _ _ hs
          rw [if_pos hp]
          exact ih r.length (by omega) _ _ _ _ _ rfl

theorem parse_no_panic (ops : List Op) (fns : List Bytes) (h : SymsNonempty ops) (s : Bytes) :
    parse ops fns s ≠ .panic :=
  parseLoop_no_panic ops fns h _ _ _ _ _

theorem parseTop_no_panic (ops : List Op) (fns : List Bytes) (h : SymsNonempty ops) (s : Bytes) :
    parseTop ops fns s ≠ .panic := by
  unfold parseTop
  have h1 := parse_no_panic ops fns h s
  split
  · simp
  · contradiction
  · rename_i st _
    have h2 := finish_no_panic (st.ops.length + 1) st (by omega)
    split
    · simp
    · contradiction
    · simp

/-! ### the tree invariant: a tree with two non-nil children carries an operator -/

/-- every `tree l r op un` with `l ≠ .nil ∧ r ≠ .nil` has `op ≠ none`, recursively -/
def Node.OK : Node → Prop
  | .tree l r op _ => l.OK ∧ r.OK ∧ (l ≠ .nil → r ≠ .nil → op ≠ none)
  | _ => True

/-- all nodes of the operand stack are `OK` and non-nil -/
def St.OK (st : St) : Prop := ∀ n ∈ st.opds, n.OK ∧ n ≠ .nil

theorem St.OK_empty : St.OK {} := by
  intro n hn
  simp at hn

theorem processTree_ok (st st' : St) (hst : st.OK) (h : processTree st = .ok st') : st'.OK := by
  obtain ⟨opds, ops⟩ := st
  cases ops with
  | nil => simp [processTree] at h
  | cons e rest =>
    rcases opds with _ | ⟨x, _ | ⟨y, t⟩⟩
    · simp [processTree] at h
      subst h
      simp [St.OK, Node.OK]
    · simp [processTree] at h
      subst h
      simp [St.OK] at hst
      simp [St.OK, Node.OK, hst]
    · simp [processTree] at h
      subst h
      simp [St.OK] at hst
      obtain ⟨hx, hy, ht⟩ := hst
      simp [St.OK, Node.OK, hx, hy]
      exact ht

theorem reduceWhile_ok (p : OpEntry → Bool) (fuel : Nat) (st st' : St) (hst : st.OK)
    (h : reduceWhile p fuel st = .ok st') : st'.OK := by
  induction fuel generalizing st with
  | zero => simp [reduceWhile] at h
  | succ n ih =>
    unfold reduceWhile at h
    cases hops : st.ops with
    | nil => simp [hops] at h; subst h; exact hst
    | cons e rest =>
      simp only [hops] at h
      by_cases hp : p e = true
      · simp only [hp, if_true] at h
        cases hpt : processTree st with
        | ok st'' =>
          simp only [hpt] at h
          exact ih _ (processTree_ok _ _ hst hpt) h
        | err => simp [hpt] at h
        | panic => simp [hpt] at h
      · simp [hp] at h; subst h; exact hst

theorem pushOperand_ok (st : St) (un : Option Op) (text : Bytes) (hst : st.OK) : (pushOperand st un text).OK := by
  intro n hn
  simp only [pushOperand, List.mem_cons] at hn
  rcases hn with rfl | hn
  · simp [Node.OK]
  · exact hst n hn

theorem pushEntry_ok (st : St) (op : Op) (un : Option Op) (hst : st.OK) : (pushEntry st op un).OK := hst

theorem closeParen_ok (st st' : St) (hst : st.OK) (h : closeParen st = .ok st') : st'.OK := by
  unfold closeParen at h
  split at h
  · simp at h
  · simp at h
  · rename_i st1 hrw
    have h1 := reduceWhile_ok _ _ _ _ hst hrw
    split at h
    · simp at h
    · split at h
      · simp at h
      · split at h
        · injection h with h; subst h; exact h1
        · split at h
          · simp at h
          · rename_i x t hopds
            injection h with h; subst h
            intro n hn
            simp only [List.mem_cons] at hn
            have hx := h1 x (by simp [hopds])
            rcases hn with rfl | hn
            · simp [Node.OK, hx.1]
            · exact h1 n (by simp [hopds, hn])

theorem pushBinary_ok (st st' : St) (op : Op) (un : Option Op) (hst : st.OK) (h : pushBinary st op un = .ok st') :
    st'.OK := by
  unfold pushBinary at h
  split at h
  · simp at h
  · simp at h
  · rename_i st1 hrw
    injection h with h; subst h
    exact pushEntry_ok _ _ _ (reduceWhile_ok _ _ _ _ hst hrw)

theorem callFunction_ok (fns : List Bytes) (st st' : St) (args : Bytes) (hst : st.OK)
    (h : callFunction fns st args = .ok st') : st'.OK := by
  unfold callFunction at h
  split at h
  · simp at h
  · rename_i un v rest hopds
    split at h
    · injection h with h; subst h
      intro n hn
      simp only [List.mem_cons] at hn
      rcases hn with rfl | hn
      · simp [Node.OK]
      · exact hst n (by simp [hopds, hn])
    · simp at h
  · simp at h

theorem processOperator_ok (ops : List Op) (fns : List Bytes) (pre rest : Bytes) (st : St) (op : Op) (hv : Bool)
    (un : Option Op) (p' r' : Bytes) (last : Op) (st' : St) (hst : st.OK)
    (h : processOperator ops fns pre rest st op hv un = .ok (p', r', last, st')) : st'.OK := by
  unfold processOperator at h
  split at h
  · split at h
    · simp at h
    · split at h
      · simp at h
      · simp at h
      · split at h
        · simp at h
        · simp at h
        · rename_i st1 hcf
          injection h with h
          injection h with _ h
          injection h with _ h
          injection h with _ h
          subst h
          exact callFunction_ok _ _ _ _ hst hcf
  · split at h
    · simp at h
    · simp at h
    · rename_i st1 hc
      injection h with h
      injection h with _ h
      injection h with _ h
      injection h with _ h
      subst h
      split at hc
      · injection hc with hc; subst hc; exact pushEntry_ok _ _ _ hst
      · split at hc
        · exact closeParen_ok _ _ hst hc
        · exact pushBinary_ok _ _ _ _ hst hc

theorem operatorPhase_cont_ok (ops : List Op) (fns : List Bytes) (pre rest : Bytes) (op : Op) (st : St)
    (hv : Bool) (un : Option Op) (p' r' : Bytes) (st' : St) (hv' : Bool) (un' : Option Op) (hst : st.OK)
    (h : operatorPhase ops fns pre rest op st hv un = .cont p' r' st' hv' un') : st'.OK := by
  unfold operatorPhase at h
  split at h
  · split at h
    · simp at h
    · injection h with h1 h2 h3 h4 h5
      subst h3
      exact hst
  · split at h
    · simp at h
    · simp at h
    · rename_i p r last st'' hpo
      injection h with h1 h2 h3 h4 h5
      subst h3
      exact processOperator_ok _ _ _ _ _ _ _ _ _ _ _ _ hst hpo

theorem operatorPhase_done_ok (ops : List Op) (fns : List Bytes) (pre rest : Bytes) (op : Op) (st : St)
    (hv : Bool) (un : Option Op) (st' : St)
    (h : operatorPhase ops fns pre rest op st hv un = .done (.ok st')) : st'.OK := by
  unfold operatorPhase at h
  split at h
  · split at h <;> simp at h
  · split at h <;> simp at h

theorem scanStep_cont_ok (ops : List Op) (fns : List Bytes) (pre : Bytes) (c : Nat) (t : Bytes) (st : St)
    (hv : Bool) (un : Option Op) (p' r' : Bytes) (st' : St) (hv' : Bool) (un' : Option Op) (hst : st.OK)
    (h : scanStep ops fns pre c t st hv un = .cont p' r' st' hv' un') : st'.OK := by
  unfold scanStep at h
  split at h
  · split at h <;> simp at h
  · split at h
    · exact operatorPhase_cont_ok _ _ _ _ _ _ _ _ _ _ _ _ _ hst h
    · split at h
      · simp at h
      · exact operatorPhase_cont_ok _ _ _ _ _ _ _ _ _ _ _ _ _ (pushOperand_ok _ _ _ hst) h

theorem scanStep_done_ok (ops : List Op) (fns : List Bytes) (pre : Bytes) (c : Nat) (t : Bytes) (st : St)
    (hv : Bool) (un : Option Op) (st' : St) (hst : st.OK)
    (h : scanStep ops fns pre c t st hv un = .done (.ok st')) : st'.OK := by
  unfold scanStep at h
  split at h
  · split at h
    · simp at h
    · injection h with h
      injection h with h
      subst h
      exact pushOperand_ok _ _ _ hst
  · split at h
    · exact operatorPhase_done_ok _ _ _ _ _ _ _ _ _ h
    · split at h
      · simp at h
      · exact operatorPhase_done_ok _ _ _ _ _ _ _ _ _ h

theorem parseLoop_ok (ops : List Op) (fns : List Bytes) (pre rest : Bytes) (st : St) (hv : Bool) (un : Option Op)
    (st' : St) (hst : st.OK) (h : parseLoop ops fns pre rest st hv un = .ok st') : st'.OK := by
  induction hn : rest.length using Nat.strongRecOn generalizing pre rest st hv un with
  | ind n ih =>
    cases rest with
    | nil =>
      rw [parseLoop] at h
      injection h with h; subst h; exact hst
    | cons c t =>
      rw [parseLoop] at h
      split at h
      · exact ih t.length (by simp at hn; omega) _ _ _ _ _ hst h rfl
      · cases hs : scanStep ops fns pre c t st hv un with
        | done r =>
          simp only [hs] at h
          subst h
          exact scanStep_done_ok _ _ _ _ _ _ _ _ _ hst hs
        | cont p r st1 hv' un' =>
          simp only [hs] at h
          split at h
          · rename_i hp
            exact ih r.length (by omega) _ _ _ _ _ (scanStep_cont_ok _ _ _ _ _ _ _ _ _ _ _ _ _ hst hs) h rfl
          · simp at h

theorem parse_ok (ops : List Op) (fns : List Bytes) (s : Bytes) (st : St) (h : parse ops fns s = .ok st) : st.OK :=
  parseLoop_ok ops fns _ _ _ _ _ _ St.OK_empty h

theorem finish_ok (fuel : Nat) (st st' : St) (hst : st.OK) (h : finish fuel st = .ok st') : st'.OK := by
  induction fuel generalizing st with
  | zero => simp [finish] at h
  | succ n ih =>
    unfold finish at h
    cases hops : st.ops with
    | nil => simp [hops] at h; subst h; exact hst
    | cons e rest =>
      simp only [hops] at h
      cases hpt : processTree st with
      | ok st'' =>
        simp only [hpt] at h
        exact ih _ (processTree_ok _ _ hst hpt) h
      | err => simp [hpt] at h
      | panic => simp [hpt] at h

theorem parseTop_ok_node (ops : List Op) (fns : List Bytes) (s : Bytes) (n : Node)
    (h : parseTop ops fns s = .ok (some n)) : n.OK := by
  unfold parseTop at h
  split at h
  · simp at h
  · simp at h
  · rename_i st hp
    split at h
    · simp at h
    · simp at h
    · rename_i st' hf
      have hok := finish_ok _ _ _ (parse_ok _ _ _ _ hp) hf
      injection h with h
      have hmem : n ∈ st'.opds := List.mem_of_mem_head? h
      exact (hok n hmem).1

theorem parseTop_node_ne_nil (ops : List Op) (fns : List Bytes) (s : Bytes) (n : Node)
    (h : parseTop ops fns s = .ok (some n)) : n ≠ .nil := by
  unfold parseTop at h
  split at h
  · simp at h
  · simp at h
  · rename_i st hp
    split at h
    · simp at h
    · simp at h
    · rename_i st' hf
      have hok := finish_ok _ _ _ (parse_ok _ _ _ _ hp) hf
      injection h with h
      have hmem : n ∈ st'.opds := List.mem_of_mem_head? h
      exact (hok n hmem).2

/-! ### evaluation of an `OK` tree never touches a nil operator -/

theorem nextArgGo_length (parens : Int) (args a b : Bytes) (h : nextArgGo parens args = some (a, b)) :
    b.length < args.length := by
  induction args generalizing parens a b with
  | nil => simp [nextArgGo] at h
  | cons c t ih =>
    unfold nextArgGo at h
    split at h
    · cases hr : nextArgGo (parens + 1) t with
      | none => simp [hr] at h
      | some q =>
        obtain ⟨a', b'⟩ := q
        simp [hr] at h
        have := ih _ _ _ hr
        simp [← h.2]
        omega
    · split at h
      · cases hr : nextArgGo (parens - 1) t with
        | none => simp [hr] at h
        | some q =>
          obtain ⟨a', b'⟩ := q
          simp [hr] at h
          have := ih _ _ _ hr
          simp [← h.2]
          omega
      · split at h
        · simp at h
          simp [h.2]
        · cases hr : nextArgGo parens t with
          | none => simp [hr] at h
          | some q =>
            obtain ⟨a', b'⟩ := q
            simp [hr] at h
            have := ih _ _ _ hr
            simp [← h.2]
            omega

theorem nextArg_length (args : Bytes) (h : args ≠ []) : (nextArg args).2.length < args.length := by
  unfold nextArg
  cases hr : nextArgGo 0 args with
  | none => simp; exact List.length_pos_iff.mpr h
  | some q =>
    obtain ⟨a, b⟩ := q
    exact nextArgGo_length _ _ _ _ hr

theorem evalArgs_no_panic (ev : Bytes → R Bytes) (hev : ∀ s, ev s ≠ .panic) (fuel : Nat) (args : Bytes)
    (hf : args.length < fuel) : evalArgs ev fuel args ≠ .panic := by
  induction fuel generalizing args with
  | zero => omega
  | succ n ih =>
    unfold evalArgs
    split
    · simp
    · rename_i hne
      have h1 := hev (nextArg args).1
      have h2 := ih (nextArg args).2 (by have := nextArg_length args hne; omega)
      split
      · simp
      · contradiction
      · split
        · simp
        · contradiction
        · simp

theorem Node.ne_nil_of_isNil_false (n : Node) (h : n.isNil = false) : n ≠ .nil := by
  intro hn; subst hn; simp [Node.isNil] at h

theorem evalNode_no_panic (ev rv : Bytes → R Bytes) (hev : ∀ s, ev s ≠ .panic) (hrv : ∀ s, rv s ≠ .panic) (n : Node)
    (hn : n.OK) : evalNode ev rv n ≠ .panic := by
  induction n with
  | nil => simp [evalNode]
  | operand un v =>
    unfold evalNode
    have := hrv v
    split
    · simp
    · contradiction
    · simp
  | func un name args =>
    unfold evalNode
    have := hrv args
    split
    · simp
    · contradiction
    · rename_i s _
      have := evalArgs_no_panic ev hev (s.length + 1) s (by omega)
      split
      · simp
      · contradiction
      · simp
  | tree l r op un ihl ihr =>
    simp only [Node.OK] at hn
    obtain ⟨hl, hr, hop⟩ := hn
    have h1 := ihl hl
    have h2 := ihr hr
    unfold evalNode
    split
    · simp
    · contradiction
    · split
      · simp
      · contradiction
      · split
        · rename_i hc
          simp only [Bool.and_eq_true, Bool.not_eq_true'] at hc
          have hop' := hop (Node.ne_nil_of_isNil_false _ hc.1) (Node.ne_nil_of_isNil_false _ hc.2)
          split
          · contradiction
          · split
            · simp
            · split <;> simp
        · split
          · simp
          · split
            · simp
            · split <;> simp

end Eval
