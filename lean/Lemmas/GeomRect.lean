import Model.Geom
import Mathlib.Algebra.Order.Ring.Defs
import Mathlib.Algebra.Order.Group.MinMax
import Mathlib.Algebra.Order.Ring.Rat
import Mathlib.Algebra.Order.Ring.Int
import Mathlib.Tactic.Ring
import Mathlib.Tactic.Linarith
import Mathlib.Tactic.Abel

/-! Rectangle laws for the model of `Model/Geom.lean`, over any commutative ring with a linear strict order
    (so `Int` and `Rat` alike; no density needed).  The `Prop`-valued predicates below are the readable forms of the
    `Bool`-valued model functions (`*_iff` bridges). -/
set_option linter.unusedSectionVars false
namespace Geom
variable {α : Type} [CommRing α] [LinearOrder α] [IsStrictOrderedRing α]

namespace Rect
def Empty (r : Rect α) : Prop := r.w ≤ 0 ∨ r.h ≤ 0
def In (p : Point α) (r : Rect α) : Prop := ¬ r.Empty ∧ r.x ≤ p.x ∧ r.y ≤ p.y ∧ p.x < r.right ∧ p.y < r.bottom
def Contains (r i : Rect α) : Prop :=
  ¬ r.Empty ∧ ¬ i.Empty ∧ r.x ≤ i.x ∧ r.y ≤ i.y ∧ i.right ≤ r.right ∧ i.bottom ≤ r.bottom
def Intersects (r o : Rect α) : Prop :=
  ¬ r.Empty ∧ ¬ o.Empty ∧ r.x < o.right ∧ r.y < o.bottom ∧ r.right > o.x ∧ r.bottom > o.y

theorem empty_iff (r : Rect α) : r.empty = true ↔ r.Empty := by simp [empty, Empty]
theorem empty_false_iff (r : Rect α) : r.empty = false ↔ ¬ r.Empty := by
  rw [← empty_iff]; simp
theorem inRect_iff (p : Point α) (r : Rect α) : p.inRect r = true ↔ In p r := by
  unfold Point.inRect In; rw [← empty_iff]
  by_cases h : r.empty = true <;> simp [h, and_assoc]
theorem contains_iff_Contains (r i : Rect α) : r.contains i = true ↔ Contains r i := by
  unfold contains Contains; rw [← empty_iff, ← empty_iff]
  by_cases h : r.empty = true <;> by_cases h' : i.empty = true <;> simp [h, h', and_assoc]
theorem intersects_iff_Intersects (r o : Rect α) : r.intersects o = true ↔ Intersects r o := by
  unfold intersects Intersects; rw [← empty_iff, ← empty_iff]
  by_cases h : r.empty = true <;> by_cases h' : o.empty = true <;> simp [h, h', and_assoc]

theorem pos_of_not_empty {r : Rect α} (h : ¬ r.Empty) : 0 < r.w ∧ 0 < r.h := by
  constructor
  · by_contra h'; exact h (Or.inl (not_lt.mp h'))
  · by_contra h'; exact h (Or.inr (not_lt.mp h'))

theorem corner_in {b : Rect α} (hb : ¬ b.Empty) : In ⟨b.x, b.y⟩ b := by
  obtain ⟨hw, hh⟩ := pos_of_not_empty hb
  exact ⟨hb, le_refl _, le_refl _, by simp [right]; exact hw, by simp [bottom]; exact hh⟩

theorem Contains_iff (a b : Rect α) :
    a.Contains b ↔ ¬ b.Empty ∧ ∀ p : Point α, In p b → In p a := by
  constructor
  · rintro ⟨ha, hb, hx, hy, hr, hbt⟩
    refine ⟨hb, ?_⟩
    rintro p ⟨_, h1, h2, h3, h4⟩
    exact ⟨ha, le_trans hx h1, le_trans hy h2, lt_of_lt_of_le h3 hr, lt_of_lt_of_le h4 hbt⟩
  · rintro ⟨hb, hall⟩
    obtain ⟨hbw, hbh⟩ := pos_of_not_empty hb
    have corner : In ⟨b.x, b.y⟩ b := corner_in hb
    obtain ⟨ha, hx, hy, hxr, hyb⟩ := hall _ corner
    refine ⟨ha, hb, hx, hy, ?_, ?_⟩
    · by_contra h
      have h : a.right < b.right := not_le.mp h
      have hp : In ⟨max b.x a.right, b.y⟩ b :=
        ⟨hb, le_max_left _ _, le_refl _, max_lt (by simp [right]; exact hbw) h, by simp [bottom]; exact hbh⟩
      obtain ⟨_, _, _, hlt, _⟩ := hall _ hp
      exact absurd (le_max_right b.x a.right) (not_le.mpr hlt)
    · by_contra h
      have h : a.bottom < b.bottom := not_le.mp h
      have hp : In ⟨b.x, max b.y a.bottom⟩ b :=
        ⟨hb, le_refl _, le_max_left _ _, by simp [right]; exact hbw, max_lt (by simp [bottom]; exact hbh) h⟩
      obtain ⟨_, _, _, _, hlt⟩ := hall _ hp
      exact absurd (le_max_right b.y a.bottom) (not_le.mpr hlt)

theorem Intersects_iff (a b : Rect α) : a.Intersects b ↔ ∃ p : Point α, In p a ∧ In p b := by
  constructor
  · rintro ⟨ha, hb, h1, h2, h3, h4⟩
    obtain ⟨haw, hah⟩ := pos_of_not_empty ha
    obtain ⟨hbw, hbh⟩ := pos_of_not_empty hb
    refine ⟨⟨max a.x b.x, max a.y b.y⟩, ⟨ha, le_max_left _ _, le_max_left _ _, ?_, ?_⟩, ⟨hb, le_max_right _ _, le_max_right _ _, ?_, ?_⟩⟩
    · exact max_lt (by simp [right]; exact haw) h3
    · exact max_lt (by simp [bottom]; exact hah) h4
    · exact max_lt h1 (by simp [right]; exact hbw)
    · exact max_lt h2 (by simp [bottom]; exact hbh)
  · rintro ⟨p, ⟨ha, a1, a2, a3, a4⟩, ⟨hb, b1, b2, b3, b4⟩⟩
    exact ⟨ha, hb, lt_of_le_of_lt a1 b3, lt_of_le_of_lt a2 b4, lt_of_le_of_lt b1 a3, lt_of_le_of_lt b2 a4⟩

/-- the four pruning laws the quadtree proof needs -/
theorem prune_point (a b : Rect α) (p : Point α) (h : a.Contains b) (hp : In p b) : In p a :=
  ((Contains_iff a b).mp h).2 p hp
theorem prune_intersects (a b q : Rect α) (h : a.Contains b) (hq : b.Intersects q) : a.Intersects q := by
  obtain ⟨p, hpb, hpq⟩ := (Intersects_iff b q).mp hq
  exact (Intersects_iff a q).mpr ⟨p, prune_point a b p h hpb, hpq⟩
theorem prune_containsRect (a b q : Rect α) (h : a.Contains b) (hq : b.Contains q) : a.Intersects q := by
  have corner := corner_in hq.2.1
  exact (Intersects_iff a q).mpr ⟨_, prune_point a b _ h (prune_point b q _ hq corner), corner⟩
theorem prune_containedBy (a b q : Rect α) (h : a.Contains b) (hq : q.Contains b) : a.Intersects q := by
  have corner := corner_in h.2.1
  exact (Intersects_iff a q).mpr ⟨_, prune_point a b _ h corner, prune_point q b _ hq corner⟩

theorem zero_Empty : (Rect.zero : Rect α).Empty := Or.inl (le_refl _)

instance (r : Rect α) : Decidable r.Empty := by unfold Empty; infer_instance

theorem intersect_eq (r o : Rect α) : r.intersect o =
    if r.Empty ∨ o.Empty then Rect.zero else
      if min r.right o.right - max r.x o.x ≤ 0 ∨ min r.bottom o.bottom - max r.y o.y ≤ 0 then Rect.zero
      else ⟨max r.x o.x, max r.y o.y, min r.right o.right - max r.x o.x, min r.bottom o.bottom - max r.y o.y⟩ := by
  unfold intersect
  simp only [← empty_iff, Bool.or_eq_true, decide_eq_true_eq]

theorem union_eq (r o : Rect α) : r.union o =
    if r.Empty ∧ o.Empty then Rect.zero
    else if r.Empty then o
    else if o.Empty then r
    else ⟨min r.x o.x, min r.y o.y, max r.right o.right - min r.x o.x, max r.bottom o.bottom - min r.y o.y⟩ := by
  unfold union
  simp only [← empty_iff, Bool.and_eq_true]

/-- Intersect returns precisely the common points -/
theorem Intersect_spec (r o : Rect α) (p : Point α) : In p (r.intersect o) ↔ In p r ∧ In p o := by
  rw [intersect_eq]
  by_cases he : r.Empty ∨ o.Empty
  · rw [if_pos he]
    constructor
    · intro h; exact absurd zero_Empty h.1
    · rintro ⟨h1, h2⟩; rcases he with he | he
      · exact absurd he h1.1
      · exact absurd he h2.1
  · rw [if_neg he]
    have hr : ¬ r.Empty := fun h => he (Or.inl h)
    have ho : ¬ o.Empty := fun h => he (Or.inr h)
    by_cases hz : min r.right o.right - max r.x o.x ≤ 0 ∨ min r.bottom o.bottom - max r.y o.y ≤ 0
    · rw [if_pos hz]
      constructor
      · intro h; exact absurd zero_Empty h.1
      · rintro ⟨⟨_, a1, a2, a3, a4⟩, ⟨_, b1, b2, b3, b4⟩⟩
        exfalso
        rcases hz with hz | hz
        · have : max r.x o.x ≤ p.x := max_le a1 b1
          have : p.x < min r.right o.right := lt_min a3 b3
          linarith
        · have : max r.y o.y ≤ p.y := max_le a2 b2
          have : p.y < min r.bottom o.bottom := lt_min a4 b4
          linarith
    · rw [if_neg hz]
      have hw : 0 < min r.right o.right - max r.x o.x := by
        by_contra h; exact hz (Or.inl (not_lt.mp h))
      have hh : 0 < min r.bottom o.bottom - max r.y o.y := by
        by_contra h; exact hz (Or.inr (not_lt.mp h))
      have hne : ¬ (⟨max r.x o.x, max r.y o.y, min r.right o.right - max r.x o.x,
          min r.bottom o.bottom - max r.y o.y⟩ : Rect α).Empty := by
        intro h; rcases h with h | h
        · exact absurd h (not_le.mpr hw)
        · exact absurd h (not_le.mpr hh)
      unfold In
      simp only [right, bottom] at *
      constructor
      · rintro ⟨_, c1, c2, c3, c4⟩
        have e1 : max r.x o.x + (min (r.x + r.w) (o.x + o.w) - max r.x o.x) = min (r.x + r.w) (o.x + o.w) := by
          abel
        have e2 : max r.y o.y + (min (r.y + r.h) (o.y + o.h) - max r.y o.y) = min (r.y + r.h) (o.y + o.h) := by
          abel
        rw [e1] at c3; rw [e2] at c4
        exact ⟨⟨hr, le_trans (le_max_left _ _) c1, le_trans (le_max_left _ _) c2,
                lt_of_lt_of_le c3 (min_le_left _ _), lt_of_lt_of_le c4 (min_le_left _ _)⟩,
               ⟨ho, le_trans (le_max_right _ _) c1, le_trans (le_max_right _ _) c2,
                lt_of_lt_of_le c3 (min_le_right _ _), lt_of_lt_of_le c4 (min_le_right _ _)⟩⟩
      · rintro ⟨⟨_, a1, a2, a3, a4⟩, ⟨_, b1, b2, b3, b4⟩⟩
        refine ⟨hne, max_le a1 b1, max_le a2 b2, ?_, ?_⟩
        · have : p.x < min (r.x + r.w) (o.x + o.w) := lt_min a3 b3
          calc p.x < min (r.x + r.w) (o.x + o.w) := this
            _ = max r.x o.x + (min (r.x + r.w) (o.x + o.w) - max r.x o.x) := by abel
        · have : p.y < min (r.y + r.h) (o.y + o.h) := lt_min a4 b4
          calc p.y < min (r.y + r.h) (o.y + o.h) := this
            _ = max r.y o.y + (min (r.y + r.h) (o.y + o.h) - max r.y o.y) := by abel

/-- edge-wise inclusion (what `Contains` means for non-empty rectangles) -/
def Covers (c r : Rect α) : Prop := c.x ≤ r.x ∧ c.y ≤ r.y ∧ r.right ≤ c.right ∧ r.bottom ≤ c.bottom

theorem union_nonempty (r o : Rect α) (hr : ¬ r.Empty) (ho : ¬ o.Empty) :
    r.union o = ⟨min r.x o.x, min r.y o.y, max r.right o.right - min r.x o.x, max r.bottom o.bottom - min r.y o.y⟩ := by
  rw [union_eq, if_neg (fun h => hr h.1), if_neg hr, if_neg ho]

theorem union_right_bottom (r o : Rect α) (hr : ¬ r.Empty) (ho : ¬ o.Empty) :
    (r.union o).x = min r.x o.x ∧ (r.union o).y = min r.y o.y ∧
    (r.union o).right = max r.right o.right ∧ (r.union o).bottom = max r.bottom o.bottom := by
  rw [union_nonempty r o hr ho]
  refine ⟨rfl, rfl, ?_, ?_⟩
  · simp only [right]; abel
  · simp only [bottom]; abel

theorem union_not_empty (r o : Rect α) (hr : ¬ r.Empty) (ho : ¬ o.Empty) : ¬ (r.union o).Empty := by
  obtain ⟨rw_, rh_⟩ := pos_of_not_empty hr
  obtain ⟨e1, e2, e3, e4⟩ := union_right_bottom r o hr ho
  have h1 : (r.union o).x ≤ r.x := by rw [e1]; exact min_le_left _ _
  have h2 : (r.union o).y ≤ r.y := by rw [e2]; exact min_le_left _ _
  have h3 : r.right ≤ (r.union o).right := by rw [e3]; exact le_max_left _ _
  have h4 : r.bottom ≤ (r.union o).bottom := by rw [e4]; exact le_max_left _ _
  simp only [right, bottom] at h3 h4
  rintro (h | h) <;> linarith

/-- Union covers each operand edge-wise -/
theorem union_covers_edges (r o : Rect α) (hr : ¬ r.Empty) (ho : ¬ o.Empty) :
    Covers (r.union o) r ∧ Covers (r.union o) o := by
  obtain ⟨e1, e2, e3, e4⟩ := union_right_bottom r o hr ho
  unfold Covers
  rw [e1, e2, e3, e4]
  exact ⟨⟨min_le_left _ _, min_le_left _ _, le_max_left _ _, le_max_left _ _⟩,
         ⟨min_le_right _ _, min_le_right _ _, le_max_right _ _, le_max_right _ _⟩⟩

/-- **Union is the smallest**: any rectangle covering both operands covers their union -/
theorem union_smallest_edges (r o c : Rect α) (hr : ¬ r.Empty) (ho : ¬ o.Empty) (h1 : Covers c r) (h2 : Covers c o) :
    Covers c (r.union o) := by
  obtain ⟨e1, e2, e3, e4⟩ := union_right_bottom r o hr ho
  obtain ⟨a1, a2, a3, a4⟩ := h1
  obtain ⟨b1, b2, b3, b4⟩ := h2
  unfold Covers
  rw [e1, e2, e3, e4]
  exact ⟨le_min a1 b1, le_min a2 b2, max_le a3 b3, max_le a4 b4⟩

theorem Contains_of_covers (c r : Rect α) (hc : ¬ c.Empty) (hr : ¬ r.Empty) (h : Covers c r) : c.Contains r :=
  ⟨hc, hr, h.1, h.2.1, h.2.2.1, h.2.2.2⟩
theorem covers_of_Contains (c r : Rect α) (h : c.Contains r) : Covers c r := ⟨h.2.2.1, h.2.2.2.1, h.2.2.2.2.1, h.2.2.2.2.2⟩

/-- Union covers both rectangles (point form) -/
theorem Union_covers (r o : Rect α) (p : Point α) (h : In p r ∨ In p o) : In p (r.union o) := by
  by_cases hr : r.Empty
  · by_cases ho : o.Empty
    · rcases h with h | h
      · exact absurd hr h.1
      · exact absurd ho h.1
    · rw [union_eq, if_neg (fun h => ho h.2), if_pos hr]
      rcases h with h | h
      · exact absurd hr h.1
      · exact h
  · by_cases ho : o.Empty
    · rw [union_eq, if_neg (fun h => hr h.1), if_neg hr, if_pos ho]
      rcases h with h | h
      · exact h
      · exact absurd ho h.1
    · have hu := union_not_empty r o hr ho
      obtain ⟨c1, c2⟩ := union_covers_edges r o hr ho
      rcases h with h | h
      · exact prune_point _ _ p (Contains_of_covers _ _ hu hr c1) h
      · exact prune_point _ _ p (Contains_of_covers _ _ hu ho c2) h

/-- **Union is the smallest covering rectangle** (point form): whatever rectangle holds every point of both operands
    holds every point of the union. No hypothesis on emptiness. -/
theorem Union_smallest (r o c : Rect α) (h : ∀ p : Point α, In p r ∨ In p o → In p c) :
    ∀ p : Point α, In p (r.union o) → In p c := by
  intro p hp
  by_cases hr : r.Empty
  · by_cases ho : o.Empty
    · rw [union_eq, if_pos ⟨hr, ho⟩] at hp; exact absurd zero_Empty hp.1
    · rw [union_eq, if_neg (fun h => ho h.2), if_pos hr] at hp
      exact h p (Or.inr hp)
  · by_cases ho : o.Empty
    · rw [union_eq, if_neg (fun h => hr h.1), if_neg hr, if_pos ho] at hp
      exact h p (Or.inl hp)
    · have c1 : c.Contains r := (Contains_iff c r).mpr ⟨hr, fun q hq => h q (Or.inl hq)⟩
      have c2 : c.Contains o := (Contains_iff c o).mpr ⟨ho, fun q hq => h q (Or.inr hq)⟩
      have := union_smallest_edges r o c hr ho (covers_of_Contains _ _ c1) (covers_of_Contains _ _ c2)
      exact prune_point _ _ p (Contains_of_covers _ _ c1.1 (union_not_empty r o hr ho) this) hp

end Rect
end Geom
