import Lemmas.ExtractFresh
/-! C19: which iterations fail.  `tarOne_error_iff` / `zipOne_error_iff` reduce the failure of one iteration to the
    failure of a check or of one primitive call; the `*_none_iff` lemmas say when a primitive call fails on the
    modelled file system. -/
namespace Ex

theorem kind_beq (a b : Kind) : (a == b) = decide (a = b) := by cases a <;> cases b <;> rfl

/-! ### the primitive calls -/

/-- `open(O_CREATE|O_WRONLY|O_TRUNC)` fails on a directory (`EISDIR`), on a symbolic link (never reached after the
    guard) and when the parent is not a directory (`ENOENT` / `ENOTDIR`) -/
theorem writeFile_none_iff (fs : FS) (p : P) (mode : Nat) (data : List Nat) :
    writeFile fs p mode data = none ↔
      (∃ m, fs.get p = some (.dir m)) ∨ (∃ t, fs.get p = some (.symlink t)) ∨
      (fs.get p = none ∧ parentIsDir fs p = false) := by
  unfold writeFile
  cases hg : fs.get p with
  | none => cases hp : parentIsDir fs p <;> simp
  | some n => cases n <;> simp

/-- `symlink(target, p)` fails for an empty target (`ENOENT`), an existing `p` (`EEXIST`), a missing parent -/
theorem symlinkAt_none_iff (fs : FS) (t : List Nat) (p : P) :
    symlinkAt fs t p = none ↔ t = [] ∨ fs.get p ≠ none ∨ parentIsDir fs p = false := by
  unfold symlinkAt
  by_cases ht : t = []
  · simp [ht]
  · cases hg : fs.get p with
    | none => cases hp : parentIsDir fs p <;> simp [ht]
    | some n => simp [ht]

/-- `link(target, p)` fails unless the target is a file (`ENOENT`, `EPERM` for a directory), and for an existing `p`
    or a missing parent -/
theorem linkAt_none_iff (fs : FS) (tg p : P) :
    linkAt fs tg p = none ↔ (∀ ino, fs.get tg ≠ some (.file ino)) ∨ fs.get p ≠ none ∨ parentIsDir fs p = false := by
  unfold linkAt
  cases ht : fs.get tg with
  | none => simp
  | some n =>
    cases n with
    | dir m => simp
    | symlink t => simp
    | file ino =>
      cases hg : fs.get p with
      | none => cases hp : parentIsDir fs p <;> simp
      | some n => simp

theorem mkdirFrom_fail (p : P) (mode : Nat) (j : Nat) (hj : j ≤ p.length) (fuel i : Nat) (fs : FS) (hij : i ≤ j)
    (hf : p.length + 2 ≤ fuel + i)
    (hbad : (∃ ino, fs.get (p.take j) = some (.file ino)) ∨ ∃ t, fs.get (p.take j) = some (.symlink t)) :
    mkdirFrom p mode fuel i fs = none := by
  induction fuel generalizing i fs with
  | zero => omega
  | succ f ih =>
    simp only [mkdirFrom]
    rw [if_neg (by omega)]
    by_cases hji : i = j
    · subst hji
      rcases hbad with ⟨ino, h⟩ | ⟨t, h⟩ <;> rw [h]
    · have hne : p.take j ≠ p.take i := take_ne_take p i j (by omega) hj hji
      cases hg : fs.get (p.take i) with
      | none =>
        simp only
        exact ih (i + 1) _ (by omega) (by omega) (by rw [get_put_other _ _ _ _ hne]; exact hbad)
      | some n =>
        cases n with
        | dir m => simp only; exact ih (i + 1) _ (by omega) (by omega) hbad
        | file ino => rfl
        | symlink t => rfl

/-- `MkdirAll(p)` fails exactly when some non-empty prefix of `p` exists and is not a directory (`ENOTDIR`) -/
theorem mkdirAll_none_iff (fs : FS) (p : P) (mode : Nat) :
    mkdirAll fs p mode = none ↔ ∃ j, 1 ≤ j ∧ j ≤ p.length ∧
      ((∃ ino, fs.get (p.take j) = some (.file ino)) ∨ ∃ t, fs.get (p.take j) = some (.symlink t)) := by
  constructor
  · intro h
    apply Classical.byContradiction
    intro hno
    have hd : ∀ j, 1 ≤ j → j ≤ p.length → fs.get (p.take j) = none ∨ ∃ m, fs.get (p.take j) = some (.dir m) := by
      intro j h1 h2
      cases hg : fs.get (p.take j) with
      | none => exact Or.inl rfl
      | some n =>
        cases n with
        | dir m => exact Or.inr ⟨m, rfl⟩
        | file ino => exact absurd ⟨j, h1, h2, Or.inl ⟨ino, hg⟩⟩ hno
        | symlink t => exact absurd ⟨j, h1, h2, Or.inr ⟨t, hg⟩⟩ hno
    obtain ⟨fs1, h1, _⟩ := mkdirAll_ok fs p mode hd
    rw [h1] at h; cases h
  · rintro ⟨j, h1, h2, hbad⟩
    exact mkdirFrom_fail p mode j h2 _ 1 fs h1 (by omega) hbad

/-! ### one iteration -/

/-- the iterations of the tar loop that fail: an unreadable header, a path that does not stay strictly inside (or, for
    a directory entry, at) the root, a symbolic link on the way, a failing `MkdirAll`, and per kind the failing
    primitive call or — for a regular file — a payload that cannot be copied in full -/
def TarFails (fs : FS) (root : P) (mask : Nat) (e : Entry) : Prop :=
  e.kind = .corrupt ∨ lexOK root (cleanJoin root e.name) (e.kind == .dir) = false ∨
  ensureNoSymlinks fs root (cleanJoin root e.name) = false ∨
  (e.kind = .dir ∧ mkdirAll fs (cleanJoin root e.name) (perm e.mode &&& mask) = none) ∨
  ((e.kind = .reg ∨ e.kind = .symlink ∨ e.kind = .link) ∧
    (mkdirAll fs (cleanJoin root e.name).dropLast (0o755 &&& mask) = none ∨
     ∃ fs1, mkdirAll fs (cleanJoin root e.name).dropLast (0o755 &&& mask) = some fs1 ∧
      ((e.kind = .reg ∧ (writeFile fs1 (cleanJoin root e.name) (perm e.mode &&& mask) e.data = none ∨ e.short = true)) ∨
       (e.kind = .symlink ∧ symlinkAt fs1 e.link (cleanJoin root e.name) = none) ∨
       (e.kind = .link ∧ (lexOK root (cleanJoin root e.link) false = false ∨
          ensureNoSymlinks fs1 root (cleanJoin root e.link) = false ∨
          linkAt fs1 (cleanJoin root e.link) (cleanJoin root e.name) = none)))))

theorem tarOne_fails_iff (fs : FS) (root : P) (mask : Nat) (e : Entry) :
    (tarOne fs root mask e).2 = false ↔ TarFails fs root mask e := by
  unfold TarFails tarOne
  cases hk : e.kind
  · simp [kind_beq]
    cases h1 : lexOK root (cleanJoin root e.name) false <;>
      cases h2 : ensureNoSymlinks fs root (cleanJoin root e.name) <;> simp
    cases h3 : mkdirAll fs (cleanJoin root e.name).dropLast (493 &&& mask) <;> simp
    cases h4 : writeFile _ (cleanJoin root e.name) (perm e.mode &&& mask) e.data <;> simp
  · simp [kind_beq]
    cases h1 : lexOK root (cleanJoin root e.name) true <;>
      cases h2 : ensureNoSymlinks fs root (cleanJoin root e.name) <;> simp
    cases h3 : mkdirAll fs (cleanJoin root e.name) (perm e.mode &&& mask) <;> simp
  · simp [kind_beq]
    cases h1 : lexOK root (cleanJoin root e.name) false <;>
      cases h2 : ensureNoSymlinks fs root (cleanJoin root e.name) <;> simp
    cases h3 : mkdirAll fs (cleanJoin root e.name).dropLast (493 &&& mask) <;> simp
    cases h4 : symlinkAt _ e.link (cleanJoin root e.name) <;> simp
  · simp [kind_beq]
    cases h1 : lexOK root (cleanJoin root e.name) false <;>
      cases h2 : ensureNoSymlinks fs root (cleanJoin root e.name) <;> simp
    cases h3 : mkdirAll fs (cleanJoin root e.name).dropLast (493 &&& mask) <;> simp
    rename_i fs1
    cases h5 : lexOK root (cleanJoin root e.link) false <;>
      cases h6 : ensureNoSymlinks fs1 root (cleanJoin root e.link) <;> simp
    cases h4 : linkAt fs1 (cleanJoin root e.link) (cleanJoin root e.name) <;> simp
  · simp [kind_beq]
    cases h1 : lexOK root (cleanJoin root e.name) false <;>
      cases h2 : ensureNoSymlinks fs root (cleanJoin root e.name) <;> simp
  · simp [kind_beq]

/-- the iterations of the zip loop that fail (a symbolic-link entry whose payload cannot be read fails before
    anything is created; every kind other than symbolic link and directory is extracted as a file) -/
def ZipFails (fs : FS) (root : P) (mask : Nat) (e : Entry) : Prop :=
  e.kind = .corrupt ∨                       -- the entry cannot be opened (unsupported method, bad local header)
  lexOK root (cleanJoin root e.name) (e.kind == .dir) = false ∨
  ensureNoSymlinks fs root (cleanJoin root e.name) = false ∨
  (e.kind = .dir ∧ mkdirAll fs (cleanJoin root e.name) (perm e.mode &&& mask) = none) ∨
  (e.kind = .symlink ∧ (e.short = true ∨
    mkdirAll fs (cleanJoin root e.name).dropLast (0o755 &&& mask) = none ∨
    ∃ fs1, mkdirAll fs (cleanJoin root e.name).dropLast (0o755 &&& mask) = some fs1 ∧
      symlinkAt fs1 e.link (cleanJoin root e.name) = none)) ∨
  (e.kind ≠ .dir ∧ e.kind ≠ .symlink ∧ e.kind ≠ .corrupt ∧
    (mkdirAll fs (cleanJoin root e.name).dropLast (0o755 &&& mask) = none ∨
     ∃ fs1, mkdirAll fs (cleanJoin root e.name).dropLast (0o755 &&& mask) = some fs1 ∧
      (writeFile fs1 (cleanJoin root e.name) (perm e.mode &&& mask) e.data = none ∨ e.short = true)))

theorem zipOne_fails_iff (fs : FS) (root : P) (mask : Nat) (e : Entry) :
    (zipOne fs root mask e).2 = false ↔ ZipFails fs root mask e := by
  unfold ZipFails zipOne
  cases hk : e.kind
  case dir =>
    simp [kind_beq]
    cases h1 : lexOK root (cleanJoin root e.name) true <;>
      cases h2 : ensureNoSymlinks fs root (cleanJoin root e.name) <;> simp
    cases h3 : mkdirAll fs (cleanJoin root e.name) (perm e.mode &&& mask) <;> simp
  case symlink =>
    simp [kind_beq]
    cases h1 : lexOK root (cleanJoin root e.name) false <;>
      cases h2 : ensureNoSymlinks fs root (cleanJoin root e.name) <;> simp
    cases h0 : e.short <;> simp
    cases h3 : mkdirAll fs (cleanJoin root e.name).dropLast (493 &&& mask) <;> simp
    cases h4 : symlinkAt _ e.link (cleanJoin root e.name) <;> simp
  case corrupt =>
    simp [kind_beq]
  all_goals
    simp [kind_beq]
    cases h1 : lexOK root (cleanJoin root e.name) false <;>
      cases h2 : ensureNoSymlinks fs root (cleanJoin root e.name) <;> simp
    cases h3 : mkdirAll fs (cleanJoin root e.name).dropLast (493 &&& mask) <;> simp
    cases h4 : writeFile _ (cleanJoin root e.name) (perm e.mode &&& mask) e.data <;> simp

end Ex
