import Lemmas.RBHeapRot
set_option linter.unusedSimpArgs false
set_option linter.unusedVariables false
/-! C06 helper lemmas, part 7: the read-only half of the pointer-level model on an owned tree — `toT` / `abs` (what the
    driver compares after every mutation) and `find` (`node.go:34-51`).  Core tactics only. -/
namespace RB

namespace AT
variable {K V : Type}
theorem erase_ptr_none {s : AT K V} (h : s.ptr = none) : s = .nil := by
  cases s with
  | nil => rfl
  | node a c l k v r => cases h
theorem ptr_node (a : Nat) (c : Color) (l : AT K V) (k : K) (v : V) (r : AT K V) : (AT.node a c l k v r).ptr = some a := rfl
theorem ptr_nil : (AT.nil : AT K V).ptr = none := rfl
end AT

namespace PTree
variable {K V : Type}

/-- reading the tree off the links (`toT`, what the driver's `dump` / `inv` lines do, with every parent link checked)
    returns the owned tree, for any fuel above its height -/
theorem toT_of_owns (t : PTree K V) : ∀ (s : AT K V) (par : Ptr) (fuel : Nat), Owns t par s → s.erase.height < fuel →
    toT t fuel par s.ptr = some s.erase
  | .nil, par, fuel, _, hf => by
    cases fuel with
    | zero => cases hf
    | succ n => rfl
  | .node a c l k v r, par, fuel, ⟨h0, hl, hr⟩, hf => by
    cases fuel with
    | zero => cases hf
    | succ n =>
      simp only [AT.erase, T.height] at hf
      have h1 := toT_of_owns t l (some a) n hl (by omega)
      have h2 := toT_of_owns t r (some a) n hr (by omega)
      simp only [get_some'] at h0
      simp only [toT, AT.ptr_node, h0, h1, h2, Option.bind_eq_bind, Option.bind_some, bne_self_eq_false, Bool.false_eq_true,
        if_false, AT.erase]
      cases c <;> simp


theorem lt_of_get (t : PTree K V) {i : Nat} {x : PNode K V} (h : t.get (some i) = some x) : i < t.nodes.size := by
  simp only [get] at h
  rcases Nat.lt_or_ge i t.nodes.size with h' | h'
  · exact h'
  · rw [Array.getElem?_eq_none h'] at h; simp at h

theorem Owns.addr_lt {t : PTree K V} : ∀ {s : AT K V} {par : Ptr}, Owns t par s → ∀ x ∈ s.addrs, x < t.nodes.size
  | .nil, _, _, x, hx => by simp [AT.addrs] at hx
  | .node a c l k v r, par, ⟨h0, hl, hr⟩, x, hx => by
    simp only [AT.addrs, List.mem_cons, List.mem_append] at hx
    rcases hx with rfl | hx | hx
    · exact lt_of_get t h0
    · exact hl.addr_lt x hx
    · exact hr.addr_lt x hx

theorem AT.height_le_addrs : ∀ (s : AT K V), s.erase.height ≤ s.addrs.length
  | .nil => Nat.le_refl 0
  | .node a c l k v r => by
    have h1 := AT.height_le_addrs l
    have h2 := AT.height_le_addrs r
    simp only [AT.erase, T.height, AT.addrs, List.length_cons, List.length_append]
    omega

/-- pigeonhole: an owned tree with pairwise distinct addresses is no higher than the memory is large — the fuel
    `nodes.size + 1` of `abs` (and `nodes.size + 2` of the loops) is always enough -/
theorem Owns.height_le {t : PTree K V} {s : AT K V} {par : Ptr} (h : Owns t par s) (hnd : s.addrs.Nodup) :
    s.erase.height ≤ t.nodes.size := by
  have h1 : s.addrs.length ≤ (List.range t.nodes.size).length :=
    hnd.length_le_of_subset (fun x hx => List.mem_range.mpr (h.addr_lt x hx))
  rw [List.length_range] at h1
  exact Nat.le_trans (AT.height_le_addrs s) h1

/-- **the driver's comparison is the ownership relation**: when the memory owns `s` from the root (no parent above the
    root) with distinct addresses, `abs` — the function the driver evaluates after every mutation and compares with the
    functional tree — returns exactly the functional content of `s` -/
theorem abs_of_owns (t : PTree K V) (s : AT K V) (h : Owns t none s) (hroot : t.root = s.ptr) (hnd : s.addrs.Nodup) :
    t.abs = some s.erase := by
  unfold abs
  rw [hroot]
  exact toT_of_owns t s none _ h (Nat.lt_succ_of_le (h.height_le hnd))

/-- **pointer-level `node.find`** (`node.go:34-51`) on an owned tree: enough fuel, never a nil dereference, and the node
    it returns holds the entry the functional `T.find` returns (`none` ↔ not found) -/
theorem find_of_owns (cmp : K → K → Ordering) (t : PTree K V) (key : K) :
    ∀ (s : AT K V) (par : Ptr) (fuel : Nat), Owns t par s → s.erase.height < fuel →
      ∃ r, find cmp t key fuel s.ptr = some r ∧
        (t.get r).map (fun x => (x.key, x.value)) = T.find cmp s.erase key ∧ (∀ j, r = some j → j ∈ s.addrs)
  | .nil, par, fuel, _, hf => by
    cases fuel with
    | zero => cases hf
    | succ n => exact ⟨none, rfl, rfl, fun j hj => by cases hj⟩
  | .node a c l k v r, par, fuel, ⟨h0, hl, hr⟩, hf => by
    cases fuel with
    | zero => cases hf
    | succ n =>
      simp only [AT.erase, T.height] at hf
      obtain ⟨r1, h1, h1', h1''⟩ := find_of_owns cmp t key l (some a) n hl (by omega)
      obtain ⟨r2, h2, h2', h2''⟩ := find_of_owns cmp t key r (some a) n hr (by omega)
      simp only [find, AT.ptr_node, Option.isNone_some, Bool.false_eq_true, if_false, h0, Option.bind_eq_bind,
        Option.bind_some, AT.erase, T.find, AT.addrs, List.mem_cons, List.mem_append]
      cases hc : cmp key k with
      | lt => exact ⟨r1, h1, h1', fun j hj => Or.inr (Or.inl (h1'' j hj))⟩
      | gt => exact ⟨r2, h2, h2', fun j hj => Or.inr (Or.inr (h2'' j hj))⟩
      | eq =>
        simp only [h1, Option.bind_some]
        cases r1 with
        | none =>
          simp only [get_none, Option.map_none] at h1'
          refine ⟨some a, by simp, ?_, fun j hj => Or.inl (by cases hj; rfl)⟩
          rw [← h1', h0]; rfl
        | some j =>
          refine ⟨some j, by simp, ?_, fun j' hj => Or.inr (Or.inl (h1'' j' hj))⟩
          rw [← h1'] 
          cases hg : t.get (some j) with
          | none => 
            have := h1'' j rfl
            have := hl.addr_lt j this
            simp only [get_some'] at hg
            rw [Array.getElem?_eq_none_iff] at hg
            omega
          | some x => rfl

/-! contrast material for `Props/C06.lean` -/

/-- `rotateLeft` WITHOUT the statement `if right.left != nil { n.right.parent = n }` (contrast only) -/
def rotateLeftNoRepair (t : PTree K V) (n : Ptr) : Option (PTree K V) := do
  let right := (← t.get n).right
  let t ← t.setRight n (← t.get right).left
  let t ← t.setParent right (← t.get n).parent
  let np := (← t.get n).parent
  let t ← if np.isSome then do
      let pl := (← t.get np).left
      if pl == n then t.setLeft np right
      else t.setRight np right
    else some { t with root := right }
  let t ← t.setLeft right n
  t.setParent n right

/-- three nodes: 0 (root, key 1) with right child 1 (key 3) whose left child is 2 (key 2) -/
def demoHeap : PTree Int Int :=
  ⟨#[⟨1, 0, none, none, some 1, true⟩, ⟨3, 0, some 0, some 2, none, false⟩, ⟨2, 0, some 1, none, none, true⟩], some 0, 3⟩

/-- `Insert` WITHOUT `n.parent = cur` in the descent loop (the new node keeps `n.parent = t.root`), the repair loop
    left out as well — contrast only -/
def insertNoParentLink (cmp : K → K → Ordering) (t : PTree K V) (key : K) (val : V) : Option (PTree K V) := do
  let fuel := t.nodes.size + 2
  let root := t.root
  let (t, n) := t.alloc key val
  let par ← descend cmp t key fuel root root
  let t ← t.setParent n root
  let t ← if par.isNone then some { t with root := n }
    else do
      let pk := (← t.get par).key
      if cmp key pk = .lt then t.setLeft par n else t.setRight par n
  let t ← t.setBlack t.root true
  some { t with count := t.count + 1 }

end PTree
end RB
